# Per-property specification of the checks: Lean modules + theorems (proof obligations), ties,
# correspondence fragments (name, n_quick, n_thorough), trusted base.  MANIFEST.json is generated
# from this table by ./mkmanifest.py.

COMMON_TRUSTED = [
    "Lean 4.33 kernel (thorough tier: re-checked by leanchecker); axioms limited to propext, Classical.choice, Quot.sound (audited per theorem on every run)",
    "xlate (Go, go/ast + own pigeon-syntax reader): regenerates grammar tables, action code, evaluator tables, effect summary, option plumbing from /repo on every run",
    "correspondence check: Go harness (value builder/serialiser, generators, canonicalisers) and Lean driver run the same requests; it samples, it is not a theorem",
    "modelled, not verified: reflect, strconv, unicode/utf8, fmt verbs, pointerstructure.Get/Parse, mapstructure.WeakDecode string->key (Lean definitions written from the library sources, validated differentially)",
    "parameters: regexp (compile/match oracle table computed by Go's regexp), user hooks (family: identity/unwrap/const/nil), Go memory model and scheduler, map iteration order, stack/memory limits",
]

EVAL_RULE = ("type-directed (expression, datum) pairs from one PRNG seed: data from a zoo of declared Go types + reflect constructors + JSON-like documents; "
             "expressions mostly resolve, literals mostly rendered from the selected value; distinct = distinct request lines; every case runs the real code and the Lean model")

PROPS = {
    "C01": dict(
        title="Evaluate returns what the expression denotes",
        level="proof", lean=['Props.C01', 'Props.C06', 'Ties.Coerce', 'Ties.Dispatch', 'Ties.EvaluateShape'], theorems={},
        frags=[("eval", 2500, 60000), ("scalar-eq", 150, 3000), ("absent", 60, 800), ("unroll", 200, 4000), ("nested", 200, 5000)],
        finding_props=["C01"], rule=EVAL_RULE,
    ),
    "C02": dict(title="Equality in the value's own type", level="proof", lean=['Props.C02', 'Ties.Coerce'], theorems={},
                frags=[("scalar-eq", 400, 12000)], rule="scalar kinds x boundary values x literal spellings rendered from the value (equal / nearby / ill-typed / out of range); reference = strconv in the value's own type"),
    "C03": dict(title="not/and/or truth tables", level="proof", lean=['Props.C03', 'Ties.EvaluateShape'], theorems={},
                frags=[("conn", 250, 6000)], rule="pairs (A,B) of generated sub-expressions on generated data; composites checked against the 3x3 table of the observed outcomes of A and B"),
    "C04": dict(title="negated operators are complements", level="proof", lean=['Props.C04', 'Ties.Dispatch'], theorems={},
                frags=[("neg", 500, 15000)], rule="(selector, literal, datum) triples incl. absent keys, ill-typed literals; each positive operator against its negation, not(...), and contains vs in"),
    "C05": dict(title="absent keys / unknown value", level="proof", lean=['Props.C05', 'Ties.Dispatch'], theorems={},
                frags=[("absent", 120, 2500), ("hist", 60, 1500)], rule="JSON-like documents; absent key below every map-valued path x 8 operators x {no unknown, unknown scalar}; error paths; neutral unknown"),
    "C06": dict(pinned=True, title="any/all fold", level="proof", lean=['Props.C06', 'Ties.PinnedGrammar'], theorems={},
                frags=[("unroll", 600, 15000), ("nested", 400, 10000), ("eval", 800, 15000), ("parse-deriv", 300, 6000)], rule="quantifiers over list paths of generated data, four binding modes, names colliding with the collection path / top-level fields; compared with the unrolled or/and chain on the real code"),
    "C07": dict(pinned=True, title="selector spellings interchangeable", level="proof", lean=['Props.C16Lex', 'Ties.PinnedGrammar'], theorems={},
                frags=[("spelling", 500, 12000), ("parse-deriv", 300, 6000)], rule="expressions whose paths are spellable both ways, rendered all-dotted/bracket, all-pointer and mixed"),
    "C08": dict(title="hidden fields unobservable", level="proof", lean=['Props.C08'], theorems={},
                frags=[("hidden", 500, 12000), ("opts", 10, 200)], rule="pairs of data equal on visible fields (hidden = unexported or tagged '-' under the active tag name), expressions naming hidden fields; both tag names; filter positions"),
    "C09": dict(title="Evaluate is total", level="proof", lean=['Props.C09', 'Props.C10', 'Props.C03', 'Ties.EvaluateShape', 'Ties.Dispatch'], theorems={},
                frags=[("matrix", 300, 15000), ("eval", 1500, 40000)], rule="complete operator x value-shape matrix (every reflect kind incl. invalid, nil/odd elements in containers) x 3 placements, plus random nesting"),
    "C10": dict(pinned=True, title="creation total on arbitrary bytes", level="proof", lean=['Props.C10', 'Props.C09', 'Ties.PinnedGrammar', 'Ties.Options'], theorems={},
                frags=[("parse-bytes", 1500, 60000), ("parse-tokens", 1500, 100000), ("parse-deriv", 300, 10000)], rule="byte-level mutations incl. invalid UTF-8/NUL/unterminated quotes; exhaustive token sequences; shape oracle on CreateEvaluator/CreateFilter/Parse"),
    "C11": dict(title="max-expressions budget exact", level="proof", lean=['Props.C11', 'Ties.Options'], theorems={},
                frags=[("budget", 60, 1200)], rule="inputs (valid, invalid, nested parentheses) x budgets N-3..N+3, 1..3, geometric sweep to 2^22, 2^40, 2^63, 2^64-1; both option spellings; step counter compared exactly with the model"),
    "C12": dict(title="concurrent use", level="proof", lean=['Props.C12', 'Ties.Effects'], theorems={}, frags=[], race=True,
                rule="k goroutines on one evaluator/filter under the Go race detector, first use and steady state; results compared with the sequential run"),
    "C13": dict(title="purity / history independence", level="proof", lean=['Props.C13', 'Ties.EffectsC13'], theorems={},
                frags=[("hist", 150, 5000)], rule="histories of 2..8 calls on one evaluator (data, errors, matches mixed), each compared with a fresh evaluator; datum snapshot before/after; Expression()"),
    "C14": dict(title="determinism under map order", level="proof", lean=['Props.C14'], theorems={},
                frags=[("det", 150, 3000), ("eval", 800, 20000)], rule="quantifiers/filters over maps of 2..8 entries with mixed T/F/E elements, each evaluated 41 times"),
    "C15": dict(pinned=True, title="parser accepts exactly the language", level="proof", lean=['Props.C15', 'Ties.PinnedGrammar', 'Props.C20'], theorems={},
                frags=[("parse-tokens", 1500, 100000), ("parse-deriv", 800, 30000), ("parse-bytes", 500, 20000)], rule="exhaustive token sequences up to k (k=2 quick, 3 thorough) with/without blanks; random derivations with token mutations; result incl. AST and step count compared with the model engine on the regenerated table"),
    "C16": dict(pinned=True, title="print-then-parse round trip", level="proof", lean=['Props.C16Lex', 'Ties.PinnedGrammar'], theorems={},
                frags=[("parse-deriv", 1200, 40000), ("quote-rt", 400, 8000)], rule="random trees x random renderings (blanks, parentheses, literal and selector styles) must parse to the printed tree; X == <quoted s> for adversarial s"),
    "C17": dict(title="Filter.Execute", level="proof", lean=['Props.C17'], theorems={},
                frags=[("filter", 500, 15000)], rule="containers of every shape (slices, named slices, arrays, maps of every key type, nil/empty, non-containers, nil) compared with element-wise Evaluate; idempotence; partition"),
    "C18": dict(title="options", level="proof", lean=['Props.C18', 'Ties.Options'], theorems={},
                frags=[("opts", 40, 800)], rule="all 16 subsets x permutations of the four options, repeated options, nil option, neutral settings"),
    "C19": dict(title="ExpressionDump", level="proof", lean=['Props.C19', 'Ties.DumpNames'], theorems={},
                frags=[("dump", 500, 15000)], rule="parser-produced trees x indent strings x start levels, compared with the Lean model of the dump"),
    "C20": dict(title="generated parser = grammar", level="proof", lean=['Props.C20'], theorems={},
                frags=[("parse-tokens", 300, 100000)], rule="complete structural comparison of the two regenerated tables (kernel-checked), plus parses on both tables"),
}
