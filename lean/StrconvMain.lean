/-
  bxstrconv — reads request lines on stdin until EOF and prints one answer line per
  input line (`bad` for an unknown or malformed request).
  Protocol: see Bexpr/StrconvDriver.lean.
-/
import Bexpr.StrconvDriver

/-- Strip one trailing `\n` (and a preceding `\r`, if any). -/
def chomp (line : String) : String :=
  let cs := line.toList.reverse
  let cs := match cs with
    | '\n' :: t => t
    | _ => cs
  let cs := match cs with
    | '\r' :: t => t
    | _ => cs
  String.ofList cs.reverse

partial def loop (stdin stdout : IO.FS.Stream) : IO Unit := do
  let line ← stdin.getLine
  if line.isEmpty then
    pure ()
  else
    let words := (chomp line).splitOn " "
    let ans := (Bexpr.StrconvDriver.handle words).getD "bad"
    stdout.putStrLn ans
    loop stdin stdout

def main : IO Unit := do
  let stdin ← IO.getStdin
  let stdout ← IO.getStdout
  loop stdin stdout
  stdout.flush
