/-
  Lemmas about the element loops of `(*Filter).Execute` (`execSliceLoop`, `execMapLoop`).

  Both loops are instances of one generic loop `genLoop g` over a list of `α` with an outcome
  function `g : α → Out`; everything is proved once for `genLoop` and transported.
  Core Lean only.
-/
import Bexpr.Eval.Create

namespace Bexpr.Proofs.Filter
open Bexpr Bexpr.Go Bexpr.Eval

/-- "the outcome is the value `true`" -/
def isTrue (o : Out) : Bool := o == .val true

/-- "the outcome is a value (no error, no panic)" -/
def IsVal (o : Out) : Prop := ∃ b, o = .val b

theorem isVal_or_not (o : Out) : IsVal o ∨ ∀ b, o ≠ .val b := by
  cases o with
  | val b => exact .inl ⟨b, rfl⟩
  | err b => exact .inr (fun _ h => by cases h)
  | panic => exact .inr (fun _ h => by cases h)
  | unmodelled => exact .inr (fun _ h => by cases h)

/-- The common shape of the two loops. -/
def genLoop {α : Type} (g : α → Out) : List α → List α → Except Out (List α)
  | [], acc => .ok acc.reverse
  | x :: xs, acc =>
    match g x with
    | .val true => genLoop g xs (x :: acc)
    | .val false => genLoop g xs acc
    | other => .error other

theorem execSliceLoop_eq_genLoop (f : Any → Out) (xs acc : List GoVal) :
    execSliceLoop f xs acc = genLoop (fun x => f x.toAny) xs acc := by
  induction xs generalizing acc with
  | nil => rfl
  | cons x xs ih =>
    simp only [execSliceLoop, genLoop]
    split <;> simp_all

theorem execMapLoop_eq_genLoop (f : Any → Out) (es acc : List (GoVal × GoVal)) :
    execMapLoop f es acc = genLoop (fun e => f e.2.toAny) es acc := by
  induction es generalizing acc with
  | nil => rfl
  | cons e es ih =>
    obtain ⟨k, v⟩ := e
    simp only [execMapLoop, genLoop]
    split <;> simp_all

section gen
variable {α : Type} (g : α → Out)

/-- all outcomes are values ⇒ the loop returns exactly the `true` elements, in order -/
theorem genLoop_of_all_val (xs acc : List α) (h : ∀ x ∈ xs, IsVal (g x)) :
    genLoop g xs acc = .ok (acc.reverse ++ xs.filter fun x => isTrue (g x)) := by
  induction xs generalizing acc with
  | nil => simp [genLoop]
  | cons x xs ih =>
    obtain ⟨b, hb⟩ := h x (List.mem_cons_self ..)
    have h' : ∀ y ∈ xs, IsVal (g y) := fun y hy => h y (List.mem_cons_of_mem _ hy)
    cases b <;> simp [genLoop, hb, ih _ h', isTrue]

/-- the first non-value outcome is what the loop returns -/
theorem genLoop_first_error (pre : List α) (x : α) (post acc : List α)
    (hpre : ∀ y ∈ pre, IsVal (g y)) (hx : ∀ b, g x ≠ .val b) :
    genLoop g (pre ++ x :: post) acc = .error (g x) := by
  induction pre generalizing acc with
  | nil =>
    simp only [List.nil_append, genLoop]
    split
    · next h => exact absurd h (hx true)
    · next h => exact absurd h (hx false)
    · rfl
  | cons y pre ih =>
    obtain ⟨b, hb⟩ := hpre y (List.mem_cons_self ..)
    have h' : ∀ z ∈ pre, IsVal (g z) := fun z hz => hpre z (List.mem_cons_of_mem _ hz)
    cases b <;> simp [genLoop, hb, ih _ h']

/-- an `.ok` result means every outcome was a value -/
theorem genLoop_ok_all_val (xs acc r : List α) (h : genLoop g xs acc = .ok r) :
    ∀ x ∈ xs, IsVal (g x) := by
  induction xs generalizing acc with
  | nil => intro x hx; cases hx
  | cons y xs ih =>
    simp only [genLoop] at h
    split at h
    · next hy =>
      intro x hx
      rcases List.mem_cons.1 hx with rfl | hx
      · exact ⟨_, hy⟩
      · exact ih _ h x hx
    · next hy =>
      intro x hx
      rcases List.mem_cons.1 hx with rfl | hx
      · exact ⟨_, hy⟩
      · exact ih _ h x hx
    · cases h

/-- inversion: an `.ok` result is the filtered list -/
theorem genLoop_ok_eq (xs acc r : List α) (h : genLoop g xs acc = .ok r) :
    r = acc.reverse ++ xs.filter fun x => isTrue (g x) := by
  have := genLoop_of_all_val g xs acc (genLoop_ok_all_val g xs acc r h)
  rw [h] at this
  exact Except.ok.inj this

/-- an `.error` result is the outcome of some element and is not a value -/
theorem genLoop_error (xs acc : List α) (o : Out) (h : genLoop g xs acc = .error o) :
    (∃ x ∈ xs, g x = o) ∧ ∀ b, o ≠ .val b := by
  induction xs generalizing acc with
  | nil => simp [genLoop] at h
  | cons y xs ih =>
    simp only [genLoop] at h
    split at h
    · obtain ⟨⟨x, hx, e⟩, h2⟩ := ih _ h
      exact ⟨⟨x, List.mem_cons_of_mem _ hx, e⟩, h2⟩
    · obtain ⟨⟨x, hx, e⟩, h2⟩ := ih _ h
      exact ⟨⟨x, List.mem_cons_of_mem _ hx, e⟩, h2⟩
    · next o' h1 h2 =>
      cases h
      refine ⟨⟨y, List.mem_cons_self .., rfl⟩, ?_⟩
      intro b
      cases b
      · exact h2
      · exact h1

/-- first-error decomposition: either all are values or there is a first non-value -/
theorem split_first_nonval (xs : List α) :
    (∀ x ∈ xs, IsVal (g x)) ∨
    ∃ pre x post, xs = pre ++ x :: post ∧ (∀ y ∈ pre, IsVal (g y)) ∧ ∀ b, g x ≠ .val b := by
  induction xs with
  | nil => exact .inl (fun _ h => by cases h)
  | cons y xs ih =>
    rcases isVal_or_not (g y) with hy | hy
    · rcases ih with h | ⟨pre, x, post, e, hp, hx⟩
      · left
        intro x hx
        rcases List.mem_cons.1 hx with rfl | hx
        · exact hy
        · exact h x hx
      · right
        refine ⟨y :: pre, x, post, by simp [e], ?_, hx⟩
        intro z hz
        rcases List.mem_cons.1 hz with rfl | hz
        · exact hy
        · exact hp z hz
    · exact .inr ⟨[], y, xs, rfl, (fun _ h => nomatch h), hy⟩

/-- When every outcome is a value or an error, the loop fails iff some element errs, and the
    failure is then an `.err`. -/
theorem genLoop_err_iff (xs acc : List α)
    (hve : ∀ x ∈ xs, IsVal (g x) ∨ ∃ b, g x = .err b) :
    (∃ b, genLoop g xs acc = .error (.err b)) ↔ ∃ x ∈ xs, ∃ b, g x = .err b := by
  constructor
  · rintro ⟨b, h⟩
    obtain ⟨⟨x, hx, e⟩, _⟩ := genLoop_error g xs acc _ h
    exact ⟨x, hx, b, e⟩
  · rintro ⟨x, hx, b, hb⟩
    rcases split_first_nonval g xs with h | ⟨pre, y, post, e, hp, hy⟩
    · obtain ⟨b', hb'⟩ := h x hx
      rw [hb] at hb'
      cases hb'
    · have hy' : y ∈ xs := by rw [e]; simp
      rcases hve y hy' with ⟨b', hb'⟩ | ⟨b', hb'⟩
      · exact absurd hb' (hy b')
      · refine ⟨b', ?_⟩
        rw [e, genLoop_first_error g pre y post acc hp hy, hb']

theorem genLoop_ok_or_err (xs acc : List α)
    (hve : ∀ x ∈ xs, IsVal (g x) ∨ ∃ b, g x = .err b) :
    (∃ r, genLoop g xs acc = .ok r) ∨ ∃ b, genLoop g xs acc = .error (.err b) := by
  rcases split_first_nonval g xs with h | ⟨pre, y, post, e, hp, hy⟩
  · exact .inl ⟨_, genLoop_of_all_val g xs acc h⟩
  · have hy' : y ∈ xs := by rw [e]; simp
    rcases hve y hy' with ⟨b', hb'⟩ | ⟨b', hb'⟩
    · exact absurd hb' (hy b')
    · right
      refine ⟨b', ?_⟩
      rw [e, genLoop_first_error g pre y post acc hp hy, hb']

end gen

/-- filtering twice with the same predicate -/
theorem filter_idem {α : Type} (p : α → Bool) (l : List α) :
    (l.filter p).filter p = l.filter p := by
  simp [List.filter_filter]

/-- every element of the filtered list satisfies the predicate -/
theorem all_val_of_filter {α : Type} (g : α → Out) (l : List α) :
    ∀ x ∈ l.filter (fun x => isTrue (g x)), IsVal (g x) := by
  intro x hx
  have := (List.mem_filter.1 hx).2
  simp only [isTrue, beq_iff_eq] at this
  exact ⟨true, this⟩

end Bexpr.Proofs.Filter
