/-
  Helper lemmas for property C09 (`Evaluate` is total): well-formedness is preserved along
  `pointerstructure.Get`, the local-variable rewriting, the `json.Number` narrowing and
  `reflect.Indirect`; on well-formed values the reflect accessors used by the match operators
  never panic; errors always carry `false`.

  Core Lean only.
-/
import Bexpr.Go.WF
import Bexpr.Eval.Create

namespace Bexpr.Proofs.Total
open Bexpr Bexpr.Go Bexpr.Eval

deriving instance ReflBEq, LawfulBEq for GoType

/-! ## Well-formedness of `reflect.Value`s and options -/

/-- A `reflect.Value` is well-formed if it is the zero Value or holds a well-formed value. -/
def RVwf : RV → Bool
  | none => true
  | some v => v.wf

/-- Options are well-formed: the unknown value (if configured) and the value of every local
    variable are well-formed `interface{}` values. -/
structure OptsWf (o : Opts) : Prop where
  unknown : ∀ u, o.unknown = some u → Any.wf u = true
  locals : ∀ lv, lv ∈ o.locals → Any.wf lv.value = true

theorem typeOf_kind (v : GoVal) : v.typeOf.kind = v.kind := by cases v <;> rfl

/-- A well-formed value that is not an interface slot does not have kind `Interface`. -/
theorem wf_kind_ne_interface (v : GoVal) (h : v.wf = true) (hn : ∀ x, v ≠ .iface x) :
    v.kind ≠ .interface := by
  cases v with
  | iface x => exact absurd rfl (hn x)
  | int k n i => simp only [GoVal.wf] at h; intro hk; simp only [GoVal.kind] at hk; subst hk; simp [Kind.isInt] at h
  | uint k n i => simp only [GoVal.wf] at h; intro hk; simp only [GoVal.kind] at hk; subst hk; simp [Kind.isUint] at h
  | float k n i => simp only [GoVal.wf] at h; intro hk; simp only [GoVal.kind] at hk; subst hk; simp at h
  | complex k n => simp only [GoVal.wf] at h; intro hk; simp only [GoVal.kind] at hk; subst hk; simp at h
  | other k n b => simp only [GoVal.wf] at h; intro hk; simp only [GoVal.kind] at hk; subst hk; simp at h
  | bool | str | ptr | slice | array | map | struct => simp [GoVal.kind]

theorem Any_wf_some {v : GoVal} : Any.wf (some v) = true ↔ v.kind ≠ .interface ∧ v.wf = true := by
  simp [Any.wf]

/-- `v.Interface()` of a well-formed value is a well-formed `interface{}`. -/
theorem toAny_wf (v : GoVal) (h : v.wf = true) : Any.wf v.toAny = true := by
  cases v with
  | iface x =>
    cases x with
    | none => rfl
    | some y => simpa [GoVal.toAny, Any.wf, GoVal.wf] using h
  | _ =>
    simp only [GoVal.toAny]
    rw [Any_wf_some]
    refine ⟨wf_kind_ne_interface _ h (by intro x hx; cases hx), h⟩

theorem Any_wf_RVwf {v : Any} (h : Any.wf v = true) : RVwf (valueOf v) = true := by
  cases v with
  | none => rfl
  | some v => exact (Any_wf_some.mp h).2

/-! ## Sub-values of well-formed values -/

theorem wfList_mem {elem : GoType} {xs : List GoVal} {x : GoVal}
    (h : wfList elem xs = true) (hx : x ∈ xs) : x.typeOf = elem ∧ x.wf = true := by
  induction xs with
  | nil => cases hx
  | cons y ys ih =>
    simp only [wfList, Bool.and_eq_true, beq_iff_eq] at h
    rcases List.mem_cons.mp hx with rfl | hx
    · exact ⟨h.1.1, h.1.2⟩
    · exact ih h.2 hx

theorem wfEntries_mem {kt vt : GoType} {es : List (GoVal × GoVal)} {e : GoVal × GoVal}
    (h : wfEntries kt vt es = true) (he : e ∈ es) :
    e.1.typeOf = kt ∧ (e.1.wf || isNEIfaceKey e.1) = true ∧ e.2.typeOf = vt ∧ e.2.wf = true := by
  induction es with
  | nil => cases he
  | cons y ys ih =>
    obtain ⟨k, v⟩ := y
    simp only [wfEntries, Bool.and_eq_true, beq_iff_eq] at h
    rcases List.mem_cons.mp he with rfl | he
    · exact ⟨h.1.1.1.1, h.1.1.1.2, h.1.1.2, h.1.2⟩
    · exact ih h.2 he

theorem wfFields_mem {fs : List (Field × GoVal)} {e : Field × GoVal}
    (h : wfFields fs = true) (he : e ∈ fs) : e.2.wf = true := by
  induction fs with
  | nil => cases he
  | cons y ys ih =>
    obtain ⟨f, v⟩ := y
    simp only [wfFields, Bool.and_eq_true] at h
    rcases List.mem_cons.mp he with rfl | he
    · exact h.1
    · exact ih h.2 he

theorem stripIP_wf (v w : GoVal) (h : v.wf = true) (hs : stripIP v = some w) : w.wf = true := by
  fun_induction stripIP v with
  | case1 v ih =>
    simp only [GoVal.wf, Bool.and_eq_true] at h
    exact ih h.2 hs
  | case2 => simp at hs
  | case3 e v ih =>
    simp only [GoVal.wf, Bool.and_eq_true] at h
    exact ih h.2 hs
  | case4 => simp at hs
  | case5 v h1 h2 h3 h4 =>
    simp at hs; subst hs; exact h

theorem unwrapIfaceV_wf (v w : GoVal) (h : v.wf = true) (hs : unwrapIfaceV v = some w) :
    w.wf = true := by
  fun_induction unwrapIfaceV v with
  | case1 v ih =>
    simp only [GoVal.wf, Bool.and_eq_true] at h
    exact ih h.2 hs
  | case2 => simp at hs
  | case3 v h1 h2 =>
    simp at hs; subst hs; exact h

theorem unwrapPtrV_wf (v w : GoVal) (h : v.wf = true) (hs : unwrapPtrV v = some w) :
    w.wf = true := by
  fun_induction unwrapPtrV v with
  | case1 e v ih =>
    simp only [GoVal.wf, Bool.and_eq_true] at h
    exact ih h.2 hs
  | case2 => simp at hs
  | case3 v h1 h2 =>
    simp at hs; subst hs; exact h

theorem unwrapForStep_wf (cur : RV) (w : GoVal) (h : RVwf cur = true)
    (hs : unwrapForStep cur = some w) : w.wf = true := by
  unfold unwrapForStep at hs
  split at hs
  · cases hs
  · rename_i v
    split at hs
    · cases hs
    · rename_i v' hv'
      exact unwrapPtrV_wf v' w (unwrapIfaceV_wf v v' h hv') hs

/-! ## `pointerstructure.Get` returns well-formed values -/

theorem getMap_wf {part : GoString} {kt vt : GoType} {es : List (GoVal × GoVal)} {r : RV}
    (h : wfEntries kt vt es = true) (hg : getMap part kt es = .ok r) : RVwf r = true := by
  unfold getMap at hg
  split at hg
  · cases hg
  · split at hg
    · rename_i k v hf
      cases hg
      exact (wfEntries_mem h (List.mem_of_find?_eq_some hf)).2.2.2
    · cases hg

theorem getSlice_wf {part : GoString} {elem : GoType} {xs : List GoVal} {r : RV}
    (h : wfList elem xs = true) (hg : getSlice part xs = .ok r) : RVwf r = true := by
  unfold getSlice at hg
  simp only [] at hg
  split at hg
  · cases hg
  · split at hg
    · cases hg
    · split at hg
      · rename_i v hv
        cases hg
        exact (wfList_mem h (List.mem_of_getElem? hv)).2
      · cases hg

theorem structLoop_wf (tagName part : GoString) (fs : List (Field × GoVal)) (ff : Option GoVal)
    (found ignored : Bool) (r : RV)
    (h : wfFields fs = true) (hff : RVwf ff = true)
    (hg : structLoop tagName part fs ff found ignored = .ok r) : RVwf r = true := by
  induction fs generalizing ff found ignored with
  | nil =>
    unfold structLoop at hg
    split at hg
    · cases hg
    · split at hg
      · cases hg
      · cases hg; exact hff
  | cons e rest ih =>
    obtain ⟨f, v⟩ := e
    have hv : v.wf = true := wfFields_mem h (List.mem_cons_self)
    have hrest : wfFields rest = true := by
      simp only [wfFields, Bool.and_eq_true] at h; exact h.2
    unfold structLoop at hg
    simp only [] at hg
    split at hg
    · exact ih _ _ _ hrest hff hg
    · split at hg
      · split at hg
        · cases hg
        · split at hg
          · split at hg
            · exact ih _ _ _ hrest hff hg
            · exact ih _ _ _ hrest hff hg
          · split at hg
            · cases hg; exact hv
            · exact ih _ _ _ hrest hff hg
      · split at hg
        · exact ih _ _ _ hrest (show RVwf (some v) = true from hv) hg
        · exact ih _ _ _ hrest hff hg

theorem getStruct_wf {cfg : Config} {part : GoString} {fs : List (Field × GoVal)} {r : RV}
    (h : wfFields fs = true) (hg : getStruct cfg part fs = .ok r) : RVwf r = true :=
  structLoop_wf _ _ _ _ _ _ _ h rfl hg

/-- outputs of the modelled hook family are well-formed -/
theorem hook_apply_wf (hk : Hook) (v w : GoVal) (h : v.wf = true) (ha : hk.apply v = some w) :
    w.wf = true := by
  cases hk with
  | off => simp [Hook.apply] at ha; subst ha; exact h
  | identity => simp [Hook.apply] at ha; subst ha; exact h
  | unwrap =>
    simp only [Hook.apply] at ha
    split at ha
    · rename_i fld f rest hs
      cases ha
      have := stripIP_wf _ _ h hs
      simp only [GoVal.wf, wfFields, Bool.and_eq_true] at this
      exact this.1
    · cases ha; exact h
  | const42 => simp [Hook.apply] at ha; subst ha; rfl
  | nilret => simp [Hook.apply] at ha

theorem applyHook_wf (cfg : Config) (r : Except GetErr RV) (r' : RV)
    (h : ∀ x, r = .ok x → RVwf x = true) (hg : getStep.applyHook cfg r = .ok r') :
    RVwf r' = true := by
  unfold getStep.applyHook at hg
  split at hg
  · cases hg
  · cases hg
  · rename_i v
    have hv : v.wf = true := h _ rfl
    split at hg
    · cases hg; exact hv
    · split at hg
      · cases hg
      · rename_i v' hv'
        cases hg
        exact hook_apply_wf _ _ _ hv hv'

theorem getStep_wf (cfg : Config) (part : GoString) (cur r : RV) (h : RVwf cur = true)
    (hg : getStep cfg part cur = .ok r) : RVwf r = true := by
  unfold getStep at hg
  split at hg
  · rename_i hu
    have := unwrapForStep_wf _ _ h hu
    simp only [GoVal.wf, Bool.and_eq_true] at this
    exact applyHook_wf _ _ _ (fun x hx => getMap_wf this.1 hx) hg
  · rename_i hu
    have := unwrapForStep_wf _ _ h hu
    simp only [GoVal.wf] at this
    exact applyHook_wf _ _ _ (fun x hx => getSlice_wf this hx) hg
  · rename_i hu
    have := unwrapForStep_wf _ _ h hu
    simp only [GoVal.wf] at this
    exact applyHook_wf _ _ _ (fun x hx => getSlice_wf this hx) hg
  · rename_i hu
    have := unwrapForStep_wf _ _ h hu
    simp only [GoVal.wf] at this
    exact applyHook_wf _ _ _ (fun x hx => getStruct_wf this hx) hg
  · cases hg

theorem getLoop_wf (cfg : Config) (parts : List GoString) (cur r : RV) (h : RVwf cur = true)
    (hg : getLoop cfg parts cur = .ok r) : RVwf r = true := by
  induction parts generalizing cur with
  | nil => simp only [getLoop] at hg; cases hg; exact h
  | cons p ps ih =>
    simp only [getLoop] at hg
    split at hg
    · cases hg
    · rename_i cur' hs
      exact ih cur' (getStep_wf _ _ _ _ h hs) hg

/-- `Get` on a well-formed datum returns a well-formed `interface{}`. -/
theorem get_wf (cfg : Config) (parts : List GoString) (v r : Any) (h : Any.wf v = true)
    (hg : get cfg parts v = .ok r) : Any.wf r = true := by
  unfold Go.get at hg
  split at hg
  · cases hg; exact h
  · split at hg
    · cases hg
    · cases hg
    · rename_i x hx
      cases hg
      exact toAny_wf _ (getLoop_wf _ _ _ _ (Any_wf_RVwf h) hx)

/-! ## `getValue`, `json.Number` narrowing, `reflect.Indirect` -/

theorem resolveLocals_wf (ls : List LocalVar) (path : List GoString) (v : Any)
    (h : ∀ lv, lv ∈ ls → Any.wf lv.value = true)
    (hr : resolveLocals ls path = .ok (.inl v)) : Any.wf v = true := by
  induction ls generalizing path with
  | nil => simp [resolveLocals] at hr
  | cons lv older ih =>
    have hold : ∀ lv', lv' ∈ older → Any.wf lv'.value = true :=
      fun lv' hm => h lv' (List.mem_cons_of_mem _ hm)
    unfold resolveLocals at hr
    split at hr
    · simp at hr
    · split at hr
      · split at hr
        · split at hr
          · cases hr
          · simp only [Except.ok.injEq, Sum.inl.injEq] at hr
            subst hr
            exact h lv (List.mem_cons_self)
        · exact ih _ hold hr
      · exact ih _ hold hr

theorem getValue_wf (o : Opts) (d : Any) (path : List GoString) (v : Any)
    (ho : OptsWf o) (hd : Any.wf d = true) (hg : getValue o d path = .present v) :
    Any.wf v = true := by
  unfold getValue at hg
  split at hg
  · cases hg
  · rename_i x hx
    cases hg
    exact resolveLocals_wf _ _ _ (fun lv hm => ho.locals lv (List.mem_reverse.mp hm)) hx
  · split at hg
    · rename_i x hx
      cases hg
      exact get_wf _ _ _ _ hd hx
    · cases hg
    · cases hg
    · split at hg
      · rename_i u hu
        cases hg
        exact ho.unknown _ hu
      · split at hg <;> cases hg
    · cases hg

theorem narrowJsonNumber_wf (v w : Any) (h : Any.wf v = true)
    (hn : narrowJsonNumber v = .ok w) : Any.wf w = true := by
  unfold narrowJsonNumber at hn
  split at hn
  · split at hn
    · cases hn; rfl
    · split at hn
      · cases hn; rfl
      · cases hn
  · cases hn; exact h

theorem indirect_wf (v : Any) (h : Any.wf v = true) : RVwf (indirect (valueOf v)) = true := by
  have h' := Any_wf_RVwf h
  unfold indirect
  split
  · rename_i e x hx
    rw [hx] at h'
    cases x with
    | none => rfl
    | some y =>
      simp only [RVwf, GoVal.wf, Bool.and_eq_true] at h'
      exact h'.2
  · exact h'

/-- `derefValue` of a well-formed value is well-formed and has the fully dereferenced type. -/
theorem derefValue_wf (v it : GoVal) (h : v.wf = true) (hd : derefValue v = some it) :
    it.wf = true ∧ it.typeOf = v.typeOf.deref := by
  fun_induction derefValue v with
  | case1 e v ih =>
    simp only [GoVal.wf, Bool.and_eq_true, beq_iff_eq] at h
    have := ih h.2 hd
    refine ⟨this.1, ?_⟩
    rw [this.2, h.1]
    simp [GoVal.typeOf, GoType.deref]
  | case2 => simp at hd
  | case3 v h1 h2 =>
    simp at hd; subst hd
    refine ⟨h, ?_⟩
    cases v with
    | ptr e x =>
      cases x with
      | none => exact absurd rfl (h2 e)
      | some y => exact absurd rfl (h1 e y)
    | _ => rfl

/-! ## The literal coerced for kind `k` has the constructor `applyEq k` expects -/

/-- the constructor of a literal is the one `primitiveEqualityFn(k)` asserts -/
def litFits (k : Kind) : Lit → Bool
  | .bool _ => k == .bool
  | .int _ => k.isInt
  | .uint _ => k.isUint && k != .uintptr
  | .f32 _ => k == .float32
  | .f64 _ => k == .float64
  | .str _ => !(k == .bool || k.isInt || (k.isUint && k != .uintptr) || k == .float32 ||
      k == .float64)

theorem coerceLit_fits (raw : GoString) (k : Kind) (lit : Lit)
    (h : coerceLit raw k = .ok lit) : litFits k lit = true := by
  unfold coerceLit at h
  simp only [] at h
  split at h
  · rename_i hk
    split at h <;> simp at h
    subst h; simpa [litFits] using hk
  split at h
  · rename_i hk
    split at h <;> simp at h
    subst h; simpa [litFits] using hk
  split at h
  · rename_i hk
    split at h <;> simp at h
    subst h; simpa [litFits] using hk
  split at h
  · rename_i hk
    split at h <;> simp at h
    subst h; simpa [litFits] using hk
  split at h
  · rename_i hk
    split at h <;> simp at h
    subst h; simpa [litFits] using hk
  · simp at h; subst h
    simp [litFits, *]

/-- The core of C09: on a well-formed value of kind `k`, the equality function selected for `k`
    applied to a literal coerced for `k` does not panic. -/
theorem applyEq_ne_none (v : GoVal) (lit : Lit) (hwf : v.wf = true)
    (hf : litFits v.kind lit = true) (he : hasEqFn v.kind = true) :
    applyEq v.kind lit (some v) ≠ none := by
  cases v with
  | bool n b =>
    cases lit <;> simp [litFits, GoVal.kind, Kind.isInt, Kind.isUint] at hf <;>
      simp [applyEq, GoVal.kind]
  | int k n i =>
    simp only [GoVal.wf] at hwf
    cases k <;> simp [Kind.isInt] at hwf <;>
    cases lit <;> simp [litFits, GoVal.kind, Kind.isInt, Kind.isUint] at hf <;>
      simp [applyEq, GoVal.kind, Kind.isInt]
  | uint k n i =>
    simp only [GoVal.wf] at hwf
    cases k <;> simp [Kind.isUint] at hwf <;>
    cases lit <;> simp [litFits, GoVal.kind, Kind.isInt, Kind.isUint, hasEqFn] at hf he <;>
      simp [applyEq, GoVal.kind, Kind.isInt, Kind.isUint]
  | float k n i =>
    simp only [GoVal.wf] at hwf
    cases k <;> simp at hwf <;>
    cases lit <;> simp [litFits, GoVal.kind, Kind.isInt, Kind.isUint, hasEqFn] at hf he <;>
      simp [applyEq, GoVal.kind, Kind.isInt, Kind.isUint]
  | complex k n =>
    simp only [GoVal.wf] at hwf
    cases k <;> simp at hwf <;> simp [hasEqFn, GoVal.kind, Kind.isInt, Kind.isUint] at he
  | str n s =>
    cases lit <;> simp [litFits, GoVal.kind, Kind.isInt, Kind.isUint] at hf <;>
      simp [applyEq, GoVal.kind, Kind.isInt, Kind.isUint, rvString]
  | other k n b =>
    simp only [GoVal.wf] at hwf
    cases k <;> simp at hwf <;> simp [hasEqFn, GoVal.kind, Kind.isInt, Kind.isUint] at he
  | ptr | slice | array | map | struct | iface =>
    simp [hasEqFn, GoVal.kind, Kind.isInt, Kind.isUint] at he

/-! ## The match operators do not panic on well-formed values -/

theorem negate_ne_panic {o : Out} (h : o ≠ .panic) : negate o ≠ .panic := by
  cases o <;> simp [negate] at *

theorem doMatchEqual_no_panic (raw : GoString) (value : RV) (h : RVwf value = true) :
    doMatchEqual (some raw) value ≠ .panic := by
  unfold doMatchEqual
  simp only []
  split
  · simp
  · rename_i he
    split
    · simp
    · rename_i lit hl
      cases value with
      | none => simp [RV.kind, hasEqFn, Kind.isInt, Kind.isUint] at he
      | some v =>
        have := applyEq_ne_none v lit h (coerceLit_fits _ _ _ hl) (by simpa [RV.kind] using he)
        simp only [RV.kind] at *
        split <;> simp_all

theorem inIfaceLoop_no_panic (raw : GoString) (xs : List GoVal)
    (h : ∀ x, x ∈ xs → x.wf = true) : inIfaceLoop raw xs ≠ .panic := by
  induction xs with
  | nil => simp [inIfaceLoop]
  | cons x xs ih =>
    have ih' := ih (fun y hy => h y (List.mem_cons_of_mem _ hy))
    have hx := h x List.mem_cons_self
    unfold inIfaceLoop
    simp only []
    split
    · exact ih'
    · rename_i it hit
      have hitwf : it.wf = true := by
        split at hit
        · rename_i y
          simp only [GoVal.wf, Bool.and_eq_true] at hx
          exact (derefValue_wf _ _ hx.2 hit).1
        · cases hit
      split
      · exact ih'
      · simp
      · rename_i lit hl
        split
        · simp
        · rename_i he
          have := applyEq_ne_none it lit hitwf (coerceLit_fits _ _ _ hl) (by simpa using he)
          split <;> simp_all

/-- In the concrete-element loop every (dereferenced) element of a well-formed slice with
    element type `elem` has kind `elem.deref.kind`, the kind the literal was coerced for. -/
theorem inConcreteLoop_no_panic (k : Kind) (lit : Lit) (elem : GoType) (xs : List GoVal)
    (h : wfList elem xs = true) (hk : k = elem.deref.kind) (hf : litFits k lit = true)
    (he : hasEqFn k = true) : inConcreteLoop k lit xs ≠ .panic := by
  induction xs with
  | nil => simp [inConcreteLoop]
  | cons x xs ih =>
    have hx := wfList_mem h (List.mem_cons_self)
    have hrest : wfList elem xs = true := by
      simp only [wfList, Bool.and_eq_true] at h; exact h.2
    have ih' := ih hrest
    unfold inConcreteLoop
    split
    · exact ih'
    · rename_i item hd
      have ⟨hw, ht⟩ := derefValue_wf _ _ hx.2 hd
      have hkind : item.kind = k := by rw [← typeOf_kind, ht, hx.1, hk]
      subst hkind
      have := applyEq_ne_none item lit hw hf he
      split <;> simp_all

theorem inElems_no_panic (raw : GoString) (elem : GoType) (xs : List GoVal)
    (h : wfList elem xs = true) : doMatchIn.inElems raw elem xs ≠ .panic := by
  unfold doMatchIn.inElems
  simp only []
  split
  · exact inIfaceLoop_no_panic _ _ (fun x hx => (wfList_mem h hx).2)
  · split
    · simp
    · split
      · simp
      · rename_i lit hl
        split
        · simp
        · rename_i he
          exact inConcreteLoop_no_panic _ _ elem _ h rfl (coerceLit_fits _ _ _ hl)
            (by simpa using he)

theorem doMatchIn_no_panic (raw : GoString) (value : RV) (h : RVwf value = true) :
    doMatchIn (some raw) value ≠ .panic := by
  unfold doMatchIn
  simp only []
  split
  · simp
  · split
    · split
      · simp
      · split <;> simp
    · simp only [RVwf, GoVal.wf] at h
      exact inElems_no_panic _ _ _ h
    · simp only [RVwf, GoVal.wf] at h
      exact inElems_no_panic _ _ _ h
    · simp
    · simp

theorem doMatchIsEmpty_no_panic (value : RV) (h : RVwf value = true) :
    doMatchIsEmpty value ≠ .panic := by
  cases value with
  | none => simp [doMatchIsEmpty, RV.kind]
  | some v =>
    cases v with
    | int k n i =>
      simp only [RVwf, GoVal.wf] at h
      cases k <;> simp [Kind.isInt] at h <;> simp [doMatchIsEmpty, RV.kind, GoVal.kind]
    | uint k n i =>
      simp only [RVwf, GoVal.wf] at h
      cases k <;> simp [Kind.isUint] at h <;> simp [doMatchIsEmpty, RV.kind, GoVal.kind]
    | float k n i =>
      simp only [RVwf, GoVal.wf] at h
      cases k <;> simp at h <;> simp [doMatchIsEmpty, RV.kind, GoVal.kind]
    | complex k n =>
      simp only [RVwf, GoVal.wf] at h
      cases k <;> simp at h <;> simp [doMatchIsEmpty, RV.kind, GoVal.kind]
    | other k n b =>
      simp only [RVwf, GoVal.wf] at h
      cases k <;> simp at h <;> simp [doMatchIsEmpty, RV.kind, GoVal.kind, rvLen]
    | bool | str | ptr | slice | array | map | struct | iface =>
      simp [doMatchIsEmpty, RV.kind, GoVal.kind, rvLen]

theorem doMatchMatches_no_panic (re : RegexOracle) (raw : GoString) (value : RV) :
    doMatchMatches re (some raw) value ≠ .panic := by
  unfold doMatchMatches
  split
  · simp
  · split
    · simp
    · simp only []
      split <;> simp

/-- `evaluateMatchExpression` does not panic when the node is parser-shaped. -/
theorem evaluateMatch_no_panic (re : RegexOracle) (o : Opts) (d : Any) (sel : Selector)
    (op : MatchOp) (raw : Option GoString) (hs : (raw.isSome == op.takesValue) = true)
    (ho : OptsWf o) (hd : Any.wf d = true) : evaluateMatch re o d sel op raw ≠ .panic := by
  unfold evaluateMatch
  split
  · simp
  · simp
  · simp
  · rename_i v hv
    have hvwf := getValue_wf _ _ _ _ ho hd hv
    split
    · simp
    · rename_i v' hv'
      have hr := indirect_wf v' (narrowJsonNumber_wf _ _ hvwf hv')
      cases op <;> cases raw <;> simp [MatchOp.takesValue] at hs <;> simp only []
      · exact doMatchEqual_no_panic _ _ hr
      · exact negate_ne_panic (doMatchEqual_no_panic _ _ hr)
      · exact doMatchIn_no_panic _ _ hr
      · exact negate_ne_panic (doMatchIn_no_panic _ _ hr)
      · exact doMatchIsEmpty_no_panic _ hr
      · exact negate_ne_panic (doMatchIsEmpty_no_panic _ hr)
      · exact doMatchMatches_no_panic _ _ _
      · exact negate_ne_panic (doMatchMatches_no_panic _ _ _)

/-! ## The collection loop -/

theorem listBindings_wf (sel : Selector) (b : Binding) (i : Nat) (lv : LocalVar)
    (h : lv ∈ listBindings sel b i) : Any.wf lv.value = true := by
  unfold listBindings at h
  simp only [List.mem_append] at h
  rcases h with (h | h) | h <;> split at h <;> simp at h <;> subst h <;> rfl

theorem mapBindings_wf (sel : Selector) (b : Binding) (key : GoString) (lv : LocalVar)
    (h : lv ∈ mapBindings sel b key) : Any.wf lv.value = true := by
  unfold mapBindings at h
  simp only [List.mem_append] at h
  rcases h with (h | h) | h <;> split at h <;> simp at h <;> subst h <;> rfl

/-- `collLoop` only ever extends the locals with well-formed bindings, so the body is always
    called on well-formed options. -/
theorem collLoop_no_panic (f : Opts → Out) (o : Opts) (op : CollOp) (b : Binding)
    (bss : List (List LocalVar))
    (hb : ∀ bs, bs ∈ bss → ∀ lv, lv ∈ bs → Any.wf lv.value = true)
    (hf : ∀ o', OptsWf o' → f o' ≠ .panic) (ho : OptsWf o) :
    collLoop f o op b bss ≠ .panic := by
  induction bss with
  | nil => simp [collLoop]
  | cons bs rest ih =>
    have ih' := ih (fun bs' hm => hb bs' (List.mem_cons_of_mem _ hm))
    have ho' : OptsWf { o with locals := o.locals ++ bs } :=
      ⟨ho.unknown, fun lv hm => by
        rcases List.mem_append.mp hm with hm | hm
        · exact ho.locals lv hm
        · exact hb bs (List.mem_cons_self) lv hm⟩
    have hfo := hf _ ho'
    unfold collLoop
    split
    · simp
    · split
      · split
        · simp
        · exact ih'
      · simp
      · rename_i other h1 h2
        exact hfo

/-! ## Errors always carry `false` -/

theorem negate_err {o : Out} {b : Bool} (h : negate o = .err b) : b = false := by
  cases o <;> simp [negate] at h <;> simp [h]

theorem doMatchEqual_err (raw : Option GoString) (value : RV) (b : Bool)
    (h : doMatchEqual raw value = .err b) : b = false := by
  unfold doMatchEqual at h
  simp only [] at h
  repeat' (split at h)
  all_goals (cases h <;> rfl)

theorem inIfaceLoop_err (raw : GoString) (xs : List GoVal) (b : Bool)
    (h : inIfaceLoop raw xs = .err b) : b = false := by
  induction xs with
  | nil => simp [inIfaceLoop] at h
  | cons x xs ih =>
    unfold inIfaceLoop at h
    simp only [] at h
    repeat' (split at h)
    all_goals first | exact ih h | (cases h <;> rfl)

theorem inConcreteLoop_err (k : Kind) (lit : Lit) (xs : List GoVal) (b : Bool)
    (h : inConcreteLoop k lit xs = .err b) : b = false := by
  induction xs with
  | nil => simp [inConcreteLoop] at h
  | cons x xs ih =>
    unfold inConcreteLoop at h
    repeat' (split at h)
    all_goals first | exact ih h | (cases h <;> rfl)

theorem inElems_err (raw : GoString) (elem : GoType) (xs : List GoVal) (b : Bool)
    (h : doMatchIn.inElems raw elem xs = .err b) : b = false := by
  unfold doMatchIn.inElems at h
  simp only [] at h
  repeat' (split at h)
  all_goals first | exact inIfaceLoop_err _ _ _ h | exact inConcreteLoop_err _ _ _ _ h |
    (cases h <;> rfl)

theorem doMatchIn_err (raw : Option GoString) (value : RV) (b : Bool)
    (h : doMatchIn raw value = .err b) : b = false := by
  unfold doMatchIn at h
  repeat' (split at h)
  all_goals first | exact inElems_err _ _ _ _ h | (cases h <;> rfl)

theorem doMatchIsEmpty_err (value : RV) (b : Bool)
    (h : doMatchIsEmpty value = .err b) : b = false := by
  unfold doMatchIsEmpty at h
  repeat' (split at h)
  all_goals (cases h <;> rfl)

theorem doMatchMatches_err (re : RegexOracle) (raw : Option GoString) (value : RV) (b : Bool)
    (h : doMatchMatches re raw value = .err b) : b = false := by
  unfold doMatchMatches at h
  repeat' (split at h)
  all_goals (cases h <;> rfl)

theorem evaluateMatch_err (re : RegexOracle) (o : Opts) (d : Any) (sel : Selector)
    (op : MatchOp) (raw : Option GoString) (b : Bool)
    (h : evaluateMatch re o d sel op raw = .err b) : b = false := by
  unfold evaluateMatch at h
  split at h
  · cases h; rfl
  · cases h
  · cases h
  · split at h
    · cases h; rfl
    · cases op <;> simp only [] at h
      · exact doMatchEqual_err _ _ _ h
      · exact negate_err h
      · exact doMatchIn_err _ _ _ h
      · exact negate_err h
      · exact doMatchIsEmpty_err _ _ h
      · exact negate_err h
      · exact doMatchMatches_err _ _ _ _ h
      · exact negate_err h

theorem collLoop_err (f : Opts → Out) (o : Opts) (op : CollOp) (b : Binding)
    (bss : List (List LocalVar)) (r : Bool)
    (h : collLoop f o op b bss = .err r) : r = false := by
  induction bss with
  | nil => simp [collLoop] at h
  | cons bs rest ih =>
    unfold collLoop at h
    split at h
    · cases h; rfl
    · split at h
      · split at h
        · cases h
        · exact ih h
      · cases h; rfl
      · rename_i other h1 h2
        exact absurd h (h2 _)

/-! ## `(*Filter).Execute` -/

theorem outToExec_ne_panic {o : Out} (h : o ≠ .panic) : outToExec o ≠ .panic := by
  cases o <;> simp [outToExec] at *

theorem execSliceLoop_ne_panic (f : Any → Out) (xs acc : List GoVal) (o : Out)
    (hf : ∀ x, x ∈ xs → f x.toAny ≠ .panic)
    (h : execSliceLoop f xs acc = .error o) : o ≠ .panic := by
  induction xs generalizing acc with
  | nil => simp [execSliceLoop] at h
  | cons x xs ih =>
    have ih' := fun acc => ih acc (fun y hy => hf y (List.mem_cons_of_mem _ hy))
    have hx := hf x List.mem_cons_self
    unfold execSliceLoop at h
    split at h
    · exact ih' _ h
    · exact ih' _ h
    · cases h; exact hx

theorem execMapLoop_ne_panic (f : Any → Out) (es acc : List (GoVal × GoVal)) (o : Out)
    (hf : ∀ e, e ∈ es → f e.2.toAny ≠ .panic)
    (h : execMapLoop f es acc = .error o) : o ≠ .panic := by
  induction es generalizing acc with
  | nil => simp [execMapLoop] at h
  | cons e es ih =>
    obtain ⟨k, v⟩ := e
    have ih' := fun acc => ih acc (fun y hy => hf y (List.mem_cons_of_mem _ hy))
    have hx := hf (k, v) List.mem_cons_self
    unfold execMapLoop at h
    split at h
    · exact ih' _ h
    · exact ih' _ h
    · cases h; exact hx

end Bexpr.Proofs.Total
