/-
  Two-run (relational) reasoning about the evaluator model.

  `RelHyps R cfg` says: "values related by `R` are indistinguishable by one step of what the
  evaluator (and pointerstructure.Get under configuration `cfg`) can observe".  From it:

    * `get_rel`       : related data give related results of `pointerstructure.Get`
    * `evaluate_rel`  : related data / options give the SAME outcome of `evaluate`
    * `execute_rel`   : related containers give related results of `(*Filter).Execute`

  The two instances are `Proofs/PermRel.lean` (maps up to permutation of their entry lists,
  property C14) and `Proofs/HiddenRel.lean` (structs up to the contents of hidden fields,
  property C08).  Core Lean only.
-/
import Bexpr.Eval.Create

namespace Bexpr.Proofs.Rel
open Bexpr Bexpr.Go Bexpr.Eval

/-! ## Lifting a relation to options, results and lists -/

inductive OptRel {α β} (R : α → β → Prop) : Option α → Option β → Prop
  | none : OptRel R none none
  | some {a b} : R a b → OptRel R (some a) (some b)

inductive ExcRel {ε α β} (R : α → β → Prop) : Except ε α → Except ε β → Prop
  | error (e : ε) : ExcRel R (.error e) (.error e)
  | ok {a b} : R a b → ExcRel R (.ok a) (.ok b)

theorem OptRel.inv {α β} {R : α → β → Prop} {a b} (h : OptRel R a b) :
    (a = Option.none ∧ b = Option.none) ∨ ∃ x y, a = Option.some x ∧ b = Option.some y ∧ R x y := by
  cases h with
  | none => exact .inl ⟨rfl, rfl⟩
  | some h => exact .inr ⟨_, _, rfl, rfl, h⟩

theorem ExcRel.inv {ε α β} {R : α → β → Prop} {a b : Except ε _} (h : ExcRel R a b) :
    (∃ e, a = .error e ∧ b = .error e) ∨ ∃ x y, a = .ok x ∧ b = .ok y ∧ R x y := by
  cases h with
  | error e => exact .inl ⟨e, rfl, rfl⟩
  | ok h => exact .inr ⟨_, _, rfl, rfl, h⟩

/-- pointwise related lists (`List.Forall₂` of Mathlib; core has none) -/
inductive ListRel {α β} (R : α → β → Prop) : List α → List β → Prop
  | nil : ListRel R [] []
  | cons {a b as bs} : R a b → ListRel R as bs → ListRel R (a :: as) (b :: bs)

theorem ListRel.length_eq {α β} {R : α → β → Prop} {xs ys} (h : ListRel R xs ys) :
    xs.length = ys.length := by
  induction h with
  | nil => rfl
  | cons _ _ ih => simp [ih]

theorem ListRel.getElem? {α β} {R : α → β → Prop} {xs ys} (h : ListRel R xs ys) (i : Nat) :
    OptRel R xs[i]? ys[i]? := by
  induction h generalizing i with
  | nil => simp; exact .none
  | cons hab _ ih =>
    cases i with
    | zero => simp; exact .some hab
    | succ i => simp; exact ih i

theorem ListRel.append {α β} {R : α → β → Prop} {xs ys xs' ys'} (h : ListRel R xs ys)
    (h' : ListRel R xs' ys') : ListRel R (xs ++ xs') (ys ++ ys') := by
  induction h with
  | nil => simpa using h'
  | cons hab _ ih => exact .cons hab ih

theorem ListRel.reverse {α β} {R : α → β → Prop} {xs ys} (h : ListRel R xs ys) :
    ListRel R xs.reverse ys.reverse := by
  induction h with
  | nil => exact .nil
  | cons hab _ ih => simp; exact ih.append (.cons hab .nil)

theorem ListRel.of_forall {α} {R : α → α → Prop} : ∀ {xs : List α}, (∀ x ∈ xs, R x x) → ListRel R xs xs
  | [], _ => .nil
  | x :: xs, h => .cons (h x (by simp)) (ListRel.of_forall fun y hy => h y (by simp [hy]))

theorem ListRel.mono {α β} {R S : α → β → Prop} (hRS : ∀ a b, R a b → S a b) {xs ys}
    (h : ListRel R xs ys) : ListRel S xs ys := by
  induction h with
  | nil => exact .nil
  | cons hab _ ih => exact .cons (hRS _ _ hab) ih

/-- entries with equal keys and related values, in the same order -/
inductive EntRel (R : GoVal → GoVal → Prop) : List (GoVal × GoVal) → List (GoVal × GoVal) → Prop
  | nil : EntRel R [] []
  | cons {k v v' es es'} : R v v' → EntRel R es es' → EntRel R ((k, v) :: es) ((k, v') :: es')

theorem EntRel.length_eq {S : GoVal → GoVal → Prop} {es es'} (h : EntRel S es es') :
    es.length = es'.length := by
  induction h with
  | nil => rfl
  | cons _ _ ih => simp [ih]

theorem EntRel.keys_eq {S : GoVal → GoVal → Prop} {es es'} (h : EntRel S es es') :
    es.map (·.1) = es'.map (·.1) := by
  induction h with
  | nil => rfl
  | cons _ _ ih => simp [ih]

theorem EntRel.find {S : GoVal → GoVal → Prop} {es es'} (h : EntRel S es es') (P : GoVal → Bool) :
    OptRel (fun e e' => S e.2 e'.2) (es.find? fun e => P e.1) (es'.find? fun e => P e.1) := by
  induction h with
  | nil => exact .none
  | @cons k v v' es es' hv _ ih =>
    simp only [List.find?_cons]
    cases P k with
    | true => exact .some hv
    | false => exact ih

/-- struct field lists with identical metadata; the values of fields satisfying `hid` are
    unconstrained, all others are related -/
inductive FieldsRel (R : GoVal → GoVal → Prop) (hid : Field → Bool) :
    List (Field × GoVal) → List (Field × GoVal) → Prop
  | nil : FieldsRel R hid [] []
  | hidden {f v v' fs fs'} : hid f = true → FieldsRel R hid fs fs' →
      FieldsRel R hid ((f, v) :: fs) ((f, v') :: fs')
  | visible {f v v' fs fs'} : R v v' → FieldsRel R hid fs fs' →
      FieldsRel R hid ((f, v) :: fs) ((f, v') :: fs')

/-! ## The hypotheses: what one step of the evaluator can observe of a value -/

/-- What `getMap`, `in`, `is empty` and the quantifier loop can observe of a map's entries. -/
structure MapObs (R : GoVal → GoVal → Prop) (es es' : List (GoVal × GoVal)) : Prop where
  /-- `Len()` -/
  len : es.length = es'.length
  /-- `MapIndex` / the key scan of `getMap`, for every key value -/
  find : ∀ k, OptRel (fun e e' => R e.2 e'.2)
    (es.find? fun e => fkeyEq e.1 k) (es'.find? fun e => fkeyEq e.1 k)
  /-- `MapKeys()` as the quantifier uses it: stringified and sorted -/
  keys : sortKeys (es.map fun e => strKey e.1) = sortKeys (es'.map fun e => strKey e.1)

/-- the constructors without components -/
def isScalar : GoVal → Bool
  | .bool .. | .int .. | .uint .. | .float .. | .complex .. | .str .. | .other .. => true
  | _ => false


/-- Entry lists related position by position look the same to every lookup. -/
theorem mapObs_of_ent {S : GoVal → GoVal → Prop} {es es' : List (GoVal × GoVal)}
    (he : EntRel S es es') : MapObs S es es' where
  len := he.length_eq
  find := fun k => he.find (fun a => fkeyEq a k)
  keys := by
    have := congrArg (List.map strKey) he.keys_eq
    simp only [List.map_map, Function.comp_def] at this
    rw [this]

/-- One level of inversion of a related pair. -/
inductive Shape (R : GoVal → GoVal → Prop) (cfg : Config) : GoVal → GoVal → Prop
  | bool n b : Shape R cfg (.bool n b) (.bool n b)
  | int k n v : Shape R cfg (.int k n v) (.int k n v)
  | uint k n v : Shape R cfg (.uint k n v) (.uint k n v)
  | float k n v : Shape R cfg (.float k n v) (.float k n v)
  | complex k n : Shape R cfg (.complex k n) (.complex k n)
  | str n s : Shape R cfg (.str n s) (.str n s)
  | other k n nl : Shape R cfg (.other k n nl) (.other k n nl)
  | ptr e {x x'} : OptRel R x x' → Shape R cfg (.ptr e x) (.ptr e x')
  | iface {x x'} : OptRel R x x' → Shape R cfg (.iface x) (.iface x')
  | slice n e nl {xs xs'} : ListRel R xs xs' → Shape R cfg (.slice n e nl xs) (.slice n e nl xs')
  | array e {xs xs'} : ListRel R xs xs' → Shape R cfg (.array e xs) (.array e xs')
  | map n kt vt nl {es es'} : MapObs R es es' →
      Shape R cfg (.map n kt vt nl es) (.map n kt vt nl es')
  | struct n {fs fs'} :
      (∀ part, ExcRel (OptRel R) (getStruct cfg part fs) (getStruct cfg part fs')) →
      Shape R cfg (.struct n fs) (.struct n fs')

/-- `R`-related values are indistinguishable by one step of the evaluator under `cfg`. -/
structure RelHyps (R : GoVal → GoVal → Prop) (cfg : Config) : Prop where
  /-- same constructor and static type data; scalars only related to themselves; components
      related; maps / structs related as far as lookups can see -/
  inv : ∀ v v', R v v' → Shape R cfg v v'
  /-- the value-transformation hook preserves the relation -/
  hook : ∀ v v', R v v' → OptRel R (cfg.hook.apply v) (cfg.hook.apply v')
  /-- scalars are related to themselves (the evaluator creates some: index / key bindings,
      narrowed `json.Number`s, the `const42` hook) -/
  reflScalar : ∀ v, isScalar v = true → R v v

abbrev AnyRel (R : GoVal → GoVal → Prop) : Any → Any → Prop := OptRel R

variable {R : GoVal → GoVal → Prop} {cfg : Config}

theorem kind_eq (H : RelHyps R cfg) {v v'} (h : R v v') : v.kind = v'.kind := by
  cases H.inv _ _ h <;> rfl

theorem typeOf_eq (H : RelHyps R cfg) {v v'} (h : R v v') : v.typeOf = v'.typeOf := by
  cases H.inv _ _ h with
  | array e hxs => simp [GoVal.typeOf, hxs.length_eq]
  | _ => rfl

theorem rvKind_eq (H : RelHyps R cfg) {v v' : RV} (h : OptRel R v v') : RV.kind v = RV.kind v' := by
  cases h with
  | none => rfl
  | some h => exact kind_eq H h

/-- The hook of every configuration except `unwrap` preserves any relation satisfying `inv`-free
    reflexivity on ints. -/
theorem hook_of_not_unwrap (hne : cfg.hook ≠ .unwrap) (reflInt : ∀ k n i, R (.int k n i) (.int k n i))
    {v v'} (h : R v v') : OptRel R (cfg.hook.apply v) (cfg.hook.apply v') := by
  cases hc : cfg.hook with
  | off => exact .some h
  | identity => exact .some h
  | unwrap => exact absurd hc hne
  | const42 => exact .some (reflInt _ _ _)
  | nilret => exact .none

/-! ## `pointerstructure.Get` -/

theorem toAny_rel (H : RelHyps R cfg) {v v'} (h : R v v') : AnyRel R v.toAny v'.toAny := by
  cases H.inv _ _ h with
  | iface hx => exact hx
  | _ => exact .some h

theorem unwrapIfaceV_rel (H : RelHyps R cfg) : ∀ v v', R v v' →
    OptRel R (unwrapIfaceV v) (unwrapIfaceV v') := by
  intro v
  induction v using unwrapIfaceV.induct with
  | case1 v ih =>
    intro v' h
    cases H.inv _ _ h with
    | iface hx => cases hx with
      | some hr => simpa [unwrapIfaceV] using ih _ hr
  | case2 =>
    intro v' h
    cases H.inv _ _ h with
    | iface hx => cases hx; simpa [unwrapIfaceV] using OptRel.none
  | case3 v h1 h2 =>
    intro v' h
    cases H.inv _ _ h with
    | iface hx => cases hx with
      | none => exact absurd rfl h2
      | some _ => exact (h1 _ rfl).elim
    | _ => simpa [unwrapIfaceV] using OptRel.some h

theorem unwrapPtrV_rel (H : RelHyps R cfg) : ∀ v v', R v v' →
    OptRel R (unwrapPtrV v) (unwrapPtrV v') := by
  intro v
  induction v using unwrapPtrV.induct with
  | case1 e v ih =>
    intro v' h
    cases H.inv _ _ h with
    | ptr _ hx => cases hx with
      | some hr => simpa [unwrapPtrV] using ih _ hr
  | case2 e =>
    intro v' h
    cases H.inv _ _ h with
    | ptr _ hx => cases hx; simpa [unwrapPtrV] using OptRel.none
  | case3 v h1 h2 =>
    intro v' h
    cases H.inv _ _ h with
    | ptr _ hx => cases hx with
      | none => exact (h2 _ rfl).elim
      | some _ => exact (h1 _ _ rfl).elim
    | _ => simpa [unwrapPtrV] using OptRel.some h

theorem derefValue_rel (H : RelHyps R cfg) : ∀ v v', R v v' →
    OptRel R (derefValue v) (derefValue v') := by
  intro v
  induction v using derefValue.induct with
  | case1 e v ih =>
    intro v' h
    cases H.inv _ _ h with
    | ptr _ hx => cases hx with
      | some hr => simpa [derefValue] using ih _ hr
  | case2 e =>
    intro v' h
    cases H.inv _ _ h with
    | ptr _ hx => cases hx; simpa [derefValue] using OptRel.none
  | case3 v h1 h2 =>
    intro v' h
    cases H.inv _ _ h with
    | ptr _ hx => cases hx with
      | none => exact (h2 _ rfl).elim
      | some _ => exact (h1 _ _ rfl).elim
    | _ => simpa [derefValue] using OptRel.some h

theorem unwrapForStep_rel (H : RelHyps R cfg) {v v' : RV} (h : OptRel R v v') :
    OptRel R (unwrapForStep v) (unwrapForStep v') := by
  cases h with
  | none => exact .none
  | some h =>
    simp only [unwrapForStep]
    rcases (unwrapIfaceV_rel H _ _ h).inv with ⟨h1, h2⟩ | ⟨x, y, h1, h2, h'⟩ <;> simp only [h1, h2]
    · exact .none
    · exact unwrapPtrV_rel H _ _ h'

theorem getMap_rel {es es'} (hm : MapObs R es es') (part : GoString) (kt : GoType) :
    ExcRel (OptRel R) (getMap part kt es) (getMap part kt es') := by
  unfold getMap
  cases coerceKey part kt with
  | error e => exact .error _
  | ok key =>
    simp only []
    rcases (hm.find key).inv with ⟨h1, h2⟩ | ⟨x, y, h1, h2, hr⟩ <;> simp only [h1, h2]
    · exact .error _
    · exact .ok (.some hr)

theorem getSlice_rel {xs xs'} (hx : ListRel R xs xs') (part : GoString) :
    ExcRel (OptRel R) (getSlice part xs) (getSlice part xs') := by
  unfold getSlice
  simp only [hx.length_eq]
  split
  · exact .error _
  · split
    · exact .error _
    · rename_i idx _ _
      rcases (hx.getElem? idx.toNat).inv with ⟨h1, h2⟩ | ⟨x, y, h1, h2, hr⟩ <;> simp only [h1, h2]
      · exact .error _
      · exact .ok (.some hr)

theorem applyHook_rel (H : RelHyps R cfg) {r r'} (h : ExcRel (OptRel R) r r') :
    ExcRel (OptRel R) (getStep.applyHook cfg r) (getStep.applyHook cfg r') := by
  cases h with
  | error e => exact .error _
  | ok h =>
    cases h with
    | none => exact .error _
    | some hr =>
      have hh := H.hook _ _ hr
      unfold getStep.applyHook
      cases hc : cfg.hook with
      | off => exact .ok (.some hr)
      | identity | unwrap | const42 | nilret =>
        simp only [hc] at hh ⊢
        rcases hh.inv with ⟨h1, h2⟩ | ⟨x, y, h1, h2, hr'⟩ <;> simp only [h1, h2]
        · exact .error _
        · exact .ok (.some hr')

theorem getStep_rel (H : RelHyps R cfg) (p : GoString) {cur cur' : RV} (h : OptRel R cur cur') :
    ExcRel (OptRel R) (getStep cfg p cur) (getStep cfg p cur') := by
  unfold getStep
  rcases (unwrapForStep_rel H h).inv with ⟨h1, h2⟩ | ⟨x, y, h1, h2, hr⟩ <;> simp only [h1, h2]
  · exact .error _
  · cases H.inv _ _ hr with
    | map n kt vt nl hm => exact applyHook_rel H (getMap_rel hm p kt)
    | slice n e nl hx => exact applyHook_rel H (getSlice_rel hx p)
    | array e hx => exact applyHook_rel H (getSlice_rel hx p)
    | struct n hs => exact applyHook_rel H (hs p)
    | _ => exact .error _

theorem getLoop_rel (H : RelHyps R cfg) : ∀ (ps : List GoString) {cur cur' : RV},
    OptRel R cur cur' → ExcRel (OptRel R) (getLoop cfg ps cur) (getLoop cfg ps cur')
  | [], _, _, h => .ok h
  | p :: ps, _, _, h => by
    unfold getLoop
    rcases (getStep_rel H p h).inv with ⟨e, h1, h2⟩ | ⟨x, y, h1, h2, h'⟩ <;> simp only [h1, h2]
    · exact .error _
    · exact getLoop_rel H ps h'

theorem get_rel (H : RelHyps R cfg) (parts : List GoString) {v v' : Any} (h : AnyRel R v v') :
    ExcRel (AnyRel R) (Go.get cfg parts v) (Go.get cfg parts v') := by
  unfold Go.get
  cases parts with
  | nil => exact .ok h
  | cons p ps =>
    simp only [valueOf]
    rcases (getLoop_rel H (p :: ps) h).inv with ⟨e, h1, h2⟩ | ⟨x, y, h1, h2, h'⟩ <;> simp only [h1, h2]
    · exact .error _
    · cases h' with
      | none => exact .error _
      | some hr => exact .ok (toAny_rel H hr)


/-! ## Options and `getValue` -/

structure LocalRel (R : GoVal → GoVal → Prop) (a b : LocalVar) : Prop where
  name : a.name = b.name
  path : a.path = b.path
  value : AnyRel R a.value b.value

/-- Options of the two runs: same configuration, related unknown value, related bindings. -/
structure OptsRel (R : GoVal → GoVal → Prop) (cfg : Config) (o o' : Opts) : Prop where
  cfgL : o.cfg = cfg
  cfgR : o'.cfg = cfg
  unknown : OptRel (AnyRel R) o.unknown o'.unknown
  locals : ListRel (LocalRel R) o.locals o'.locals

theorem OptsRel.push {o o' : Opts} (h : OptsRel R cfg o o') {bs bs'}
    (hb : ListRel (LocalRel R) bs bs') :
    OptsRel R cfg { o with locals := o.locals ++ bs } { o' with locals := o'.locals ++ bs' } :=
  ⟨h.cfgL, h.cfgR, h.unknown, h.locals.append hb⟩

theorem resolveLocals_rel {ls ls'} (h : ListRel (LocalRel R) ls ls') : ∀ path,
    (resolveLocals ls path = .error () ∧ resolveLocals ls' path = .error ()) ∨
    (∃ v v', resolveLocals ls path = .ok (.inl v) ∧ resolveLocals ls' path = .ok (.inl v') ∧
      AnyRel R v v') ∨
    (∃ p, resolveLocals ls path = .ok (.inr p) ∧ resolveLocals ls' path = .ok (.inr p)) := by
  induction h with
  | nil => intro path; exact .inr (.inr ⟨path, rfl, rfl⟩)
  | @cons a b as bs hab _ ih =>
    intro path
    cases path with
    | nil => exact .inr (.inr ⟨[], rfl, rfl⟩)
    | cons name rest =>
      simp only [resolveLocals, ← hab.name, ← hab.path]
      by_cases hn : (name == a.name) = true
      · simp only [hn, if_true]
        by_cases hp : a.path.isEmpty = true
        · simp only [hp, if_true]
          by_cases hr : (!rest.isEmpty) = true
          · simp only [hr, if_true]; exact .inl ⟨trivial, trivial⟩
          · simp only [hr]; exact .inr (.inl ⟨_, _, rfl, rfl, hab.value⟩)
        · simp only [hp]; exact ih _
      · simp only [hn]; exact ih _

theorem evaluateNotPresent_rel (H : RelHyps R cfg) {d d' : Any} (hd : AnyRel R d d')
    (parts : List GoString) :
    evaluateNotPresent cfg parts d = evaluateNotPresent cfg parts d' := by
  unfold evaluateNotPresent
  by_cases hl : parts.length < 2
  · simp only [hl, if_true]
  · simp only [hl, if_false]
    rcases (get_rel H parts.dropLast hd).inv with ⟨e, h1, h2⟩ | ⟨x, y, h1, h2, hr⟩ <;>
      simp only [h1, h2]
    cases hr with
    | none => rfl
    | some hr => simp only [kind_eq H hr]

inductive GVRel (R : GoVal → GoVal → Prop) : GetValue → GetValue → Prop
  | present {v v'} : AnyRel R v v' → GVRel R (.present v) (.present v')
  | absent : GVRel R .absent .absent
  | error : GVRel R .error .error
  | unmodelled : GVRel R .unmodelled .unmodelled

theorem GVRel.inv {a b} (h : GVRel R a b) :
    (∃ v v', a = .present v ∧ b = .present v' ∧ AnyRel R v v') ∨ (a = .absent ∧ b = .absent) ∨
    (a = .error ∧ b = .error) ∨ (a = .unmodelled ∧ b = .unmodelled) := by
  cases h with
  | present h => exact .inl ⟨_, _, rfl, rfl, h⟩
  | absent => exact .inr (.inl ⟨rfl, rfl⟩)
  | error => exact .inr (.inr (.inl ⟨rfl, rfl⟩))
  | unmodelled => exact .inr (.inr (.inr ⟨rfl, rfl⟩))

theorem getValue_rel (H : RelHyps R cfg) {o o' : Opts} (ho : OptsRel R cfg o o') {d d' : Any}
    (hd : AnyRel R d d') (path : List GoString) :
    GVRel R (getValue o d path) (getValue o' d' path) := by
  unfold getValue
  rcases resolveLocals_rel ho.locals.reverse path with ⟨h1, h2⟩ | ⟨v, v', h1, h2, hv⟩ | ⟨p, h1, h2⟩ <;>
    simp only [h1, h2]
  · exact .error
  · exact .present hv
  · rw [ho.cfgL, ho.cfgR]
    rcases (get_rel H p hd).inv with ⟨e, h1, h2⟩ | ⟨x, y, h1, h2, hr⟩ <;> simp only [h1, h2]
    · cases e with
      | notFound =>
        simp only []
        rcases ho.unknown.inv with ⟨h1, h2⟩ | ⟨x, y, h1, h2, hr⟩ <;> simp only [h1, h2]
        · rw [evaluateNotPresent_rel H hd p]
          split
          · exact .absent
          · exact .error
        · exact .present hr
      | unmodelled => exact .unmodelled
      | _ => exact .error
    · exact .present hr

/-! ## The operators -/

theorem narrowJsonNumber_rel (H : RelHyps R cfg) {v v' : Any} (hv : AnyRel R v v') :
    ExcRel (AnyRel R) (narrowJsonNumber v) (narrowJsonNumber v') := by
  cases hv with
  | none => exact .ok .none
  | some hr =>
    cases H.inv _ _ hr with
    | str n s =>
      unfold narrowJsonNumber
      split
      · split
        · exact .ok (.some (H.reflScalar _ rfl))
        · split
          · exact .ok (.some (H.reflScalar _ rfl))
          · exact .error _
      · exact .ok (.some hr)
    | _ => exact .ok (.some hr)

theorem indirect_rel (H : RelHyps R cfg) {v v' : RV} (hv : OptRel R v v') :
    OptRel R (indirect v) (indirect v') := by
  cases hv with
  | none => exact .none
  | some hr =>
    cases H.inv _ _ hr with
    | ptr e hx => exact hx
    | _ => exact .some hr

theorem applyEq_rel (H : RelHyps R cfg) {it it'} (h : R it it') (k : Kind) (lit : Lit) :
    applyEq k lit (some it) = applyEq k lit (some it') := by
  cases H.inv _ _ h with
  | bool | int | uint | float | complex | str | other => rfl
  | _ => cases lit <;> simp [applyEq, rvString]

theorem applyEq_rv_rel (H : RelHyps R cfg) {v v' : RV} (h : OptRel R v v') (k : Kind) (lit : Lit) :
    applyEq k lit v = applyEq k lit v' := by
  cases h with
  | none => rfl
  | some h => exact applyEq_rel H h k lit

theorem doMatchEqual_rel (H : RelHyps R cfg) {v v' : RV} (h : OptRel R v v') (raw) :
    doMatchEqual raw v = doMatchEqual raw v' := by
  simp only [doMatchEqual, rvKind_eq H h, applyEq_rv_rel H h]

theorem inIfaceLoop_rel (H : RelHyps R cfg) (raw : GoString) {xs xs'} (h : ListRel R xs xs') :
    inIfaceLoop raw xs = inIfaceLoop raw xs' := by
  induction h with
  | nil => rfl
  | cons hab _ ih =>
    cases H.inv _ _ hab with
    | iface hx =>
      cases hx with
      | none => simpa [inIfaceLoop] using ih
      | some hy =>
        simp only [inIfaceLoop]
        rcases (derefValue_rel H _ _ hy).inv with ⟨h1, h2⟩ | ⟨x, y, h1, h2, hr⟩ <;>
          simp only [h1, h2]
        · exact ih
        · simp only [kind_eq H hr, applyEq_rel H hr, ih]
    | _ => simpa [inIfaceLoop] using ih

theorem inConcreteLoop_rel (H : RelHyps R cfg) (k : Kind) (lit : Lit) {xs xs'}
    (h : ListRel R xs xs') : inConcreteLoop k lit xs = inConcreteLoop k lit xs' := by
  induction h with
  | nil => rfl
  | cons hab _ ih =>
    simp only [inConcreteLoop]
    rcases (derefValue_rel H _ _ hab).inv with ⟨h1, h2⟩ | ⟨x, y, h1, h2, hr⟩ <;>
      simp only [h1, h2]
    · exact ih
    · simp only [applyEq_rel H hr, ih]

theorem inElems_rel (H : RelHyps R cfg) (raw : GoString) (elem : GoType) {xs xs'}
    (h : ListRel R xs xs') : doMatchIn.inElems raw elem xs = doMatchIn.inElems raw elem xs' := by
  simp only [doMatchIn.inElems, inIfaceLoop_rel H raw h, inConcreteLoop_rel H _ _ h]

theorem MapObs.any_eq {es es'} (hm : MapObs R es es') (k : GoVal) :
    (es.any fun e => fkeyEq e.1 k) = (es'.any fun e => fkeyEq e.1 k) := by
  have h1 : ∀ (l : List (GoVal × GoVal)),
      (l.any fun e => fkeyEq e.1 k) = (l.find? fun e => fkeyEq e.1 k).isSome := by
    intro l
    rw [Bool.eq_iff_iff, List.any_eq_true, List.find?_isSome]
  rw [h1, h1]
  rcases (hm.find k).inv with ⟨h1, h2⟩ | ⟨x, y, h1, h2, _⟩ <;> simp only [h1, h2] <;> rfl

theorem doMatchIn_rel (H : RelHyps R cfg) {v v' : RV} (h : OptRel R v v') (raw) :
    doMatchIn raw v = doMatchIn raw v' := by
  unfold doMatchIn
  cases raw with
  | none => simp only [rvKind_eq H h]
  | some raw =>
    simp only [rvKind_eq H h]
    cases coerceLit raw (RV.kind v') with
    | error e => rfl
    | ok lit =>
      simp only []
      cases h with
      | none => rfl
      | some hr =>
        cases H.inv _ _ hr with
        | map n kt vt nl hm => simp only [hm.any_eq]
        | slice n e nl hx => simp only [inElems_rel H raw e hx]
        | array e hx => simp only [inElems_rel H raw e hx]
        | _ => rfl

theorem rvLen_rel (H : RelHyps R cfg) {v v' : RV} (h : OptRel R v v') : rvLen v = rvLen v' := by
  cases h with
  | none => rfl
  | some hr =>
    cases H.inv _ _ hr with
    | map n kt vt nl hm => simp only [rvLen, hm.len]
    | slice n e nl hx => simp only [rvLen, hx.length_eq]
    | array e hx => simp only [rvLen, hx.length_eq]
    | _ => rfl

theorem doMatchIsEmpty_rel (H : RelHyps R cfg) {v v' : RV} (h : OptRel R v v') :
    doMatchIsEmpty v = doMatchIsEmpty v' := by
  simp only [doMatchIsEmpty, rvKind_eq H h, rvLen_rel H h]

theorem ListRel.map_eq {γ} {g : GoVal → γ} {xs xs'} (h : ListRel R xs xs')
    (hg : ∀ a b, R a b → g a = g b) : xs.map g = xs'.map g := by
  induction h with
  | nil => rfl
  | cons hab _ ih => simp only [List.map_cons, ih, hg _ _ hab]

theorem asBytes_rel (H : RelHyps R cfg) {v v'} (h : R v v') : asBytes v = asBytes v' := by
  cases H.inv _ _ h with
  | slice n e nl hx =>
    by_cases he : e = .basic .uint8 ""
    · subst he
      simp only [asBytes]
      congr 1
      apply ListRel.map_eq hx
      intro a b hab
      cases H.inv _ _ hab <;> rfl
    · have hn : ∀ ys, asBytes (.slice n e nl ys) = none := by
        intro ys; unfold asBytes; split <;> simp_all
      rw [hn, hn]
  | _ => rfl

theorem doMatchMatches_rel (H : RelHyps R cfg) (re : RegexOracle) {v v' : RV} (h : OptRel R v v')
    (raw) : doMatchMatches re raw v = doMatchMatches re raw v' := by
  cases h with
  | none => rfl
  | some hr => simp only [doMatchMatches, asBytes_rel H hr]

theorem evaluateMatch_rel (H : RelHyps R cfg) (re : RegexOracle) {o o' : Opts}
    (ho : OptsRel R cfg o o') {d d' : Any} (hd : AnyRel R d d') (sel : Selector) (op : MatchOp)
    (raw : Option GoString) :
    evaluateMatch re o d sel op raw = evaluateMatch re o' d' sel op raw := by
  unfold evaluateMatch
  rcases (getValue_rel H ho hd sel.path).inv with
    ⟨v, v', h1, h2, hv⟩ | ⟨h1, h2⟩ | ⟨h1, h2⟩ | ⟨h1, h2⟩ <;> simp only [h1, h2]
  rcases (narrowJsonNumber_rel H hv).inv with ⟨e, h1, h2⟩ | ⟨x, y, h1, h2, hr⟩ <;>
    simp only [h1, h2]
  have hi := indirect_rel H (v := valueOf x) (v' := valueOf y) hr
  simp only [doMatchEqual_rel H hi, doMatchIn_rel H hi, doMatchIsEmpty_rel H hi,
    doMatchMatches_rel H re hi]

/-! ## Quantifiers and `evaluate` -/

theorem LocalRel.ofNone (name : GoString) (path : List GoString) :
    LocalRel R { name := name, path := path, value := none } { name := name, path := path, value := none } :=
  ⟨rfl, rfl, .none⟩

theorem LocalRel.ofScalar (H : RelHyps R cfg) (name : GoString) (path : List GoString) (v : GoVal)
    (hv : isScalar v = true) :
    LocalRel R { name := name, path := path, value := some v }
      { name := name, path := path, value := some v } :=
  ⟨rfl, rfl, .some (H.reflScalar v hv)⟩

theorem listBindings_self (H : RelHyps R cfg) (sel : Selector) (b : Binding) (i : Nat) :
    ListRel (LocalRel R) (listBindings sel b i) (listBindings sel b i) := by
  unfold listBindings
  refine ListRel.append (ListRel.append ?_ ?_) ?_ <;> split
  all_goals first
    | exact .nil
    | exact .cons (LocalRel.ofNone _ _) .nil
    | exact .cons (LocalRel.ofScalar H _ _ _ rfl) .nil

theorem mapBindings_self (H : RelHyps R cfg) (sel : Selector) (b : Binding) (k : GoString) :
    ListRel (LocalRel R) (mapBindings sel b k) (mapBindings sel b k) := by
  unfold mapBindings
  refine ListRel.append (ListRel.append ?_ ?_) ?_ <;> split
  all_goals first
    | exact .nil
    | exact .cons (LocalRel.ofNone _ _) .nil
    | exact .cons (LocalRel.ofScalar H _ _ _ rfl) .nil

theorem collLoop_rel {f f' : Opts → Out} (hf : ∀ o o', OptsRel R cfg o o' → f o = f' o')
    {o o' : Opts} (ho : OptsRel R cfg o o') (op : CollOp) (b : Binding) :
    ∀ bss : List (List LocalVar), (∀ bs ∈ bss, ListRel (LocalRel R) bs bs) →
      collLoop f o op b bss = collLoop f' o' op b bss
  | [], _ => rfl
  | bs :: rest, h => by
    have hbs := h bs (by simp)
    have ih := collLoop_rel hf ho op b rest (fun x hx => h x (by simp [hx]))
    simp only [collLoop, hf _ _ (ho.push hbs), ih]

/-- **Generic two-run theorem for `evaluate`**: related data and related options give the same
    outcome (same boolean, same error / panic / unmodelled status). -/
theorem evaluate_rel (H : RelHyps R cfg) (re : RegexOracle) {d d' : Any} (hd : AnyRel R d d')
    (e : Expr) : ∀ {o o' : Opts}, OptsRel R cfg o o' → evaluate re e o d = evaluate re e o' d' := by
  induction e with
  | not e ih => intro o o' ho; simp only [evaluate, ih ho]
  | and l r ihl ihr => intro o o' ho; simp only [evaluate, ihl ho, ihr ho]
  | or l r ihl ihr => intro o o' ho; simp only [evaluate, ihl ho, ihr ho]
  | match_ sel op raw => intro o o' ho; simp only [evaluate, evaluateMatch_rel H re ho hd]
  | coll op sel b inner ih =>
    intro o o' ho
    simp only [evaluate]
    rcases (getValue_rel H ho hd sel.path).inv with
      ⟨v, v', h1, h2, hv⟩ | ⟨h1, h2⟩ | ⟨h1, h2⟩ | ⟨h1, h2⟩ <;> simp only [h1, h2]
    have hf : ∀ o o', OptsRel R cfg o o' →
        (fun o' => evaluate re inner o' d) o = (fun o' => evaluate re inner o' d') o' :=
      fun o o' h => ih h
    cases hv with
    | none => rfl
    | some hr =>
      cases H.inv _ _ hr with
      | map n kt vt nl hm =>
        simp only [hm.keys]
        split
        · rfl
        · refine collLoop_rel hf ho op b _ ?_
          intro bs hbs
          simp only [List.mem_map] at hbs
          obtain ⟨k, _, rfl⟩ := hbs
          exact mapBindings_self H sel b k
      | slice n e nl hx =>
        simp only [hx.length_eq]
        refine collLoop_rel hf ho op b _ ?_
        intro bs hbs
        simp only [List.mem_map] at hbs
        obtain ⟨k, _, rfl⟩ := hbs
        exact listBindings_self H sel b k
      | array e hx =>
        simp only [hx.length_eq]
        refine collLoop_rel hf ho op b _ ?_
        intro bs hbs
        simp only [List.mem_map] at hbs
        obtain ⟨k, _, rfl⟩ := hbs
        exact listBindings_self H sel b k
      | _ => rfl

/-! ## `(*Filter).Execute` -/

/-- the elements at the positions where the mask is `true` -/
def pick {α} : List Bool → List α → List α
  | true :: m, x :: xs => x :: pick m xs
  | false :: m, _ :: xs => pick m xs
  | _, _ => []

theorem pick_rel {α β} {S : α → β → Prop} {xs xs'} (h : ListRel S xs xs') :
    ∀ m, ListRel S (pick m xs) (pick m xs') := by
  induction h with
  | nil => intro m; cases m with
    | nil => exact .nil
    | cons b m => cases b <;> exact .nil
  | cons hab _ ih =>
    intro m
    cases m with
    | nil => exact .nil
    | cons b m =>
      cases b with
      | true => exact .cons hab (ih m)
      | false => exact ih m

theorem pick_ent {es es'} (h : EntRel R es es') : ∀ m, EntRel R (pick m es) (pick m es') := by
  induction h with
  | nil => intro m; cases m with
    | nil => exact .nil
    | cons b m => cases b <;> exact .nil
  | cons hab _ ih =>
    intro m
    cases m with
    | nil => exact .nil
    | cons b m =>
      cases b with
      | true => exact .cons hab (ih m)
      | false => exact ih m

/-- The two evaluators of a two-run statement: same expression and configuration, related
    unknown values. -/
structure EvRel (R : GoVal → GoVal → Prop) (cfg : Config) (ev ev' : Evaluator) : Prop where
  ast : ev.ast = ev'.ast
  tagL : ev.tagName = cfg.tagName
  hookL : ev.hook = cfg.hook
  tagR : ev'.tagName = cfg.tagName
  hookR : ev'.hook = cfg.hook
  unknown : OptRel (AnyRel R) ev.unknown ev'.unknown

theorem evaluator_rel (H : RelHyps R cfg) (re : RegexOracle) {ev ev' : Evaluator}
    (hev : EvRel R cfg ev ev') {d d' : Any} (hd : AnyRel R d d') :
    ev.evaluate re d = ev'.evaluate re d' := by
  unfold Evaluator.evaluate
  rw [hev.ast]
  refine evaluate_rel H re hd _ ⟨?_, ?_, hev.unknown, .nil⟩
  · simp only [Opts.cfg, hev.tagL, hev.hookL]
  · simp only [Opts.cfg, hev.tagR, hev.hookR]

theorem execSliceLoop_rel {f f' : Any → Out} (hf : ∀ v v', R v v' → f v.toAny = f' v'.toAny)
    {xs xs'} (h : ListRel R xs xs') : ∀ acc acc',
    (∃ o, execSliceLoop f xs acc = .error o ∧ execSliceLoop f' xs' acc' = .error o) ∨
    (∃ m, execSliceLoop f xs acc = .ok (acc.reverse ++ pick m xs) ∧
          execSliceLoop f' xs' acc' = .ok (acc'.reverse ++ pick m xs')) := by
  induction h with
  | nil => intro acc acc'; exact .inr ⟨[], by simp [execSliceLoop, pick], by simp [execSliceLoop, pick]⟩
  | @cons a b as bs hab _ ih =>
    intro acc acc'
    simp only [execSliceLoop, ← hf _ _ hab]
    cases hfa : f a.toAny with
    | val r =>
      cases r with
      | true =>
        rcases ih (a :: acc) (b :: acc') with ⟨o, h1, h2⟩ | ⟨m, h1, h2⟩
        · exact .inl ⟨o, h1, h2⟩
        · exact .inr ⟨true :: m, by simp [h1, pick], by simp [h2, pick]⟩
      | false =>
        rcases ih acc acc' with ⟨o, h1, h2⟩ | ⟨m, h1, h2⟩
        · exact .inl ⟨o, h1, h2⟩
        · exact .inr ⟨false :: m, by simp [h1, pick], by simp [h2, pick]⟩
    | err r => exact .inl ⟨_, rfl, rfl⟩
    | panic => exact .inl ⟨_, rfl, rfl⟩
    | unmodelled => exact .inl ⟨_, rfl, rfl⟩

theorem execMapLoop_ent {f f' : Any → Out} (hf : ∀ v v', R v v' → f v.toAny = f' v'.toAny)
    {es es'} (h : EntRel R es es') : ∀ acc acc',
    (∃ o, execMapLoop f es acc = .error o ∧ execMapLoop f' es' acc' = .error o) ∨
    (∃ m, execMapLoop f es acc = .ok (acc.reverse ++ pick m es) ∧
          execMapLoop f' es' acc' = .ok (acc'.reverse ++ pick m es')) := by
  induction h with
  | nil => intro acc acc'; exact .inr ⟨[], by simp [execMapLoop, pick], by simp [execMapLoop, pick]⟩
  | @cons k a b as bs hab _ ih =>
    intro acc acc'
    simp only [execMapLoop, ← hf _ _ hab]
    cases hfa : f a.toAny with
    | val r =>
      cases r with
      | true =>
        rcases ih ((k, a) :: acc) ((k, b) :: acc') with ⟨o, h1, h2⟩ | ⟨m, h1, h2⟩
        · exact .inl ⟨o, h1, h2⟩
        · exact .inr ⟨true :: m, by simp [h1, pick], by simp [h2, pick]⟩
      | false =>
        rcases ih acc acc' with ⟨o, h1, h2⟩ | ⟨m, h1, h2⟩
        · exact .inl ⟨o, h1, h2⟩
        · exact .inr ⟨false :: m, by simp [h1, pick], by simp [h2, pick]⟩
    | err r => exact .inl ⟨_, rfl, rfl⟩
    | panic => exact .inl ⟨_, rfl, rfl⟩
    | unmodelled => exact .inl ⟨_, rfl, rfl⟩

/-- `execMapLoop` either fails (some entry does not evaluate to a boolean) or keeps exactly the
    entries whose value evaluates to `true`, in iteration order. -/
theorem execMapLoop_char (f : Any → Out) : ∀ (es acc : List (GoVal × GoVal)),
    ((∃ e ∈ es, ∀ b, f e.2.toAny ≠ .val b) ∧ ∃ o, execMapLoop f es acc = .error o) ∨
    ((∀ e ∈ es, ∃ b, f e.2.toAny = .val b) ∧
      execMapLoop f es acc = .ok (acc.reverse ++ es.filter fun e => f e.2.toAny == .val true))
  | [], acc => .inr ⟨by simp, by simp [execMapLoop]⟩
  | (k, v) :: es, acc => by
    simp only [execMapLoop]
    cases hfa : f v.toAny with
    | val r =>
      cases r with
      | true =>
        rcases execMapLoop_char f es ((k, v) :: acc) with ⟨⟨e, he, hb⟩, o, ho⟩ | ⟨hall, hok⟩
        · exact .inl ⟨⟨e, by simp [he], hb⟩, o, ho⟩
        · refine .inr ⟨?_, ?_⟩
          · intro e he
            simp only [List.mem_cons] at he
            rcases he with rfl | he
            · exact ⟨true, hfa⟩
            · exact hall e he
          · simp [hok, hfa]
      | false =>
        rcases execMapLoop_char f es acc with ⟨⟨e, he, hb⟩, o, ho⟩ | ⟨hall, hok⟩
        · exact .inl ⟨⟨e, by simp [he], hb⟩, o, ho⟩
        · refine .inr ⟨?_, ?_⟩
          · intro e he
            simp only [List.mem_cons] at he
            rcases he with rfl | he
            · exact ⟨false, hfa⟩
            · exact hall e he
          · simp [hok, hfa]
    | err r => exact .inl ⟨⟨(k, v), by simp, by simp [hfa]⟩, _, rfl⟩
    | panic => exact .inl ⟨⟨(k, v), by simp, by simp [hfa]⟩, _, rfl⟩
    | unmodelled => exact .inl ⟨⟨(k, v), by simp, by simp [hfa]⟩, _, rfl⟩

/-- Iterating a map in another order: fails in both orders or keeps permuted entry lists.
    (WHICH failure is reported may depend on the order: the first failing entry wins.) -/
theorem execMapLoop_perm (f : Any → Out) {es p : List (GoVal × GoVal)} (hp : es.Perm p) :
    ((∃ o, execMapLoop f es [] = .error o) ∧ ∃ o, execMapLoop f p [] = .error o) ∨
    (∃ k kp, execMapLoop f es [] = .ok k ∧ execMapLoop f p [] = .ok kp ∧ k.Perm kp) := by
  rcases execMapLoop_char f es [] with ⟨⟨e, he, hb⟩, o, ho⟩ | ⟨hall, hok⟩
  · rcases execMapLoop_char f p [] with ⟨_, o', ho'⟩ | ⟨hall', _⟩
    · exact .inl ⟨⟨o, ho⟩, ⟨o', ho'⟩⟩
    · obtain ⟨b, hb'⟩ := hall' e (hp.subset he)
      exact absurd hb' (hb b)
  · rcases execMapLoop_char f p [] with ⟨⟨e, he, hb⟩, _⟩ | ⟨_, hok'⟩
    · obtain ⟨b, hb'⟩ := hall e (hp.symm.subset he)
      exact absurd hb' (hb b)
    · exact .inr ⟨_, _, hok, hok', by simpa using hp.filter _⟩

def _root_.Bexpr.Eval.ExecOut.failed : ExecOut → Bool
  | .ok _ => false
  | _ => true

/-- entry lists of two related maps: related entry by entry after reordering the first -/
def EntCorr (R : GoVal → GoVal → Prop) (es es' : List (GoVal × GoVal)) : Prop :=
  ∃ p, es.Perm p ∧ EntRel R p es'

/-- Relation between the two results of `Execute` when both runs iterate in corresponding order:
    the same failure, or the elements / entries at the same positions are kept. -/
inductive ExecRelOrd (R : GoVal → GoVal → Prop) : ExecOut → ExecOut → Prop
  | failed (a) : a.failed = true → ExecRelOrd R a a
  | list (n e) (m : List Bool) {xs xs'} : ListRel R xs xs' →
      ExecRelOrd R (.ok (some (.slice n e false (pick m xs)))) (.ok (some (.slice n e false (pick m xs'))))
  | map (n kt vt) (m : List Bool) {es es'} : EntRel R es es' →
      ExecRelOrd R (.ok (some (.map n kt vt false (pick m es))))
        (.ok (some (.map n kt vt false (pick m es'))))

/-- Relation between the two results of `Execute` when a map may be iterated in two different
    orders: both fail, or both succeed with corresponding kept elements / entries. -/
inductive ExecRel (R : GoVal → GoVal → Prop) : ExecOut → ExecOut → Prop
  | failed {a b} : a.failed = true → b.failed = true → ExecRel R a b
  | list (n e) {xs xs'} : ListRel R xs xs' →
      ExecRel R (.ok (some (.slice n e false xs))) (.ok (some (.slice n e false xs')))
  | map (n kt vt) {es es'} : EntCorr R es es' →
      ExecRel R (.ok (some (.map n kt vt false es))) (.ok (some (.map n kt vt false es')))

theorem ExecRelOrd.weaken {a b} (h : ExecRelOrd R a b) : ExecRel R a b := by
  cases h with
  | failed a h => exact .failed h h
  | list n e m h => exact .list n e (pick_rel h m)
  | map n kt vt m h => exact .map n kt vt ⟨_, List.Perm.refl _, pick_ent h m⟩

theorem outToExec_failed (o : Out) : (outToExec o).failed = true := by
  cases o <;> rfl

/-- **Generic two-run theorem for `Execute`, same iteration order**: if the entry lists of a
    map container correspond position by position, the two runs fail identically or keep the
    same positions. -/
theorem execute_rel_ordered (H : RelHyps R cfg) (re : RegexOracle) {ev ev' : Evaluator}
    (hev : EvRel R cfg ev ev') {d d' : Any} (hd : AnyRel R d d')
    (hm : ∀ n kt vt nl es n' kt' vt' nl' es', d = some (.map n kt vt nl es) →
      d' = some (.map n' kt' vt' nl' es') → EntRel R es es') :
    ExecRelOrd R (execute re (some ev) d) (execute re (some ev') d') := by
  have hf : ∀ v v', R v v' → ev.evaluate re v.toAny = ev'.evaluate re v'.toAny :=
    fun v v' h => evaluator_rel H re hev (toAny_rel H h)
  unfold execute
  cases hd with
  | none => exact .failed _ rfl
  | some hr =>
    simp only [valueOf]
    cases H.inv _ _ hr with
    | slice n e nl hx =>
      simp only []
      rcases execSliceLoop_rel hf hx [] [] with ⟨o, h1, h2⟩ | ⟨m, h1, h2⟩ <;> simp only [h1, h2]
      · exact .failed _ (outToExec_failed o)
      · exact .list n e m hx
    | array e hx =>
      simp only []
      rcases execSliceLoop_rel hf hx [] [] with ⟨o, h1, h2⟩ | ⟨m, h1, h2⟩ <;> simp only [h1, h2]
      · exact .failed _ (outToExec_failed o)
      · exact .list "" e m hx
    | map n kt vt nl hmo =>
      simp only []
      have he := hm _ _ _ _ _ _ _ _ _ _ rfl rfl
      rcases execMapLoop_ent hf he [] [] with ⟨o, h1, h2⟩ | ⟨m, h1, h2⟩ <;> simp only [h1, h2]
      · exact .failed _ (outToExec_failed o)
      · exact .map n kt vt m he
    | _ => exact .failed _ rfl

/-- **Generic two-run theorem for `Execute`**: when the entries of a map container correspond
    only up to a reordering, both runs fail or both keep corresponding entries. -/
theorem execute_rel (H : RelHyps R cfg) (re : RegexOracle) {ev ev' : Evaluator}
    (hev : EvRel R cfg ev ev') {d d' : Any} (hd : AnyRel R d d')
    (hm : ∀ n kt vt nl es n' kt' vt' nl' es', d = some (.map n kt vt nl es) →
      d' = some (.map n' kt' vt' nl' es') → EntCorr R es es') :
    ExecRel R (execute re (some ev) d) (execute re (some ev') d') := by
  have hf : ∀ v v', R v v' → ev.evaluate re v.toAny = ev'.evaluate re v'.toAny :=
    fun v v' h => evaluator_rel H re hev (toAny_rel H h)
  cases hd with
  | none => exact .failed rfl rfl
  | @some v v' hr =>
    cases hs : H.inv _ _ hr with
    | map n kt vt nl hmo =>
      obtain ⟨p, hp, he⟩ := hm _ _ _ _ _ _ _ _ _ _ rfl rfl
      simp only [execute, valueOf]
      rcases execMapLoop_ent hf he [] [] with ⟨o, h1, h2⟩ | ⟨m, h1, h2⟩
      · rcases execMapLoop_perm (ev.evaluate re) hp with ⟨⟨o', h3⟩, _⟩ | ⟨k, kp, _, h4, _⟩
        · simp only [h2, h3]
          exact .failed (outToExec_failed o') (outToExec_failed o)
        · rw [h4] at h1; cases h1
      · rcases execMapLoop_perm (ev.evaluate re) hp with ⟨_, ⟨o', h3⟩⟩ | ⟨k, kp, h3, h4, hk⟩
        · rw [h3] at h1; cases h1
        · rw [h4] at h1
          cases h1
          simp only [h2, h3]
          exact .map n kt vt ⟨_, by simpa using hk, pick_ent he m⟩
    | _ =>
      exact (execute_rel_ordered H re hev (.some hr) (by intros; simp_all)).weaken

/-- A successful `Execute` on a map keeps a sublist of the entries (in iteration order). -/
theorem execute_map_sublist (re : RegexOracle) (ev : Evaluator) (n kt vt nl)
    (es : List (GoVal × GoVal)) {r : Any}
    (h : execute re (some ev) (some (.map n kt vt nl es)) = .ok r) :
    ∃ kept, r = some (.map n kt vt false kept) ∧ kept.Sublist es := by
  simp only [execute, valueOf] at h
  rcases execMapLoop_char (ev.evaluate re) es [] with ⟨_, o, ho⟩ | ⟨_, hok⟩
  · rw [ho] at h
    cases o <;> cases h
  · rw [hok] at h
    cases h
    exact ⟨_, rfl, by simp⟩

/-- `Execute` returns a map only for a map container of the same type. -/
theorem execute_ok_map_inv (re : RegexOracle) (ev : Evaluator) {d : Any} {n kt vt b kept}
    (h : execute re (some ev) d = .ok (some (.map n kt vt b kept))) :
    ∃ nl es, d = some (.map n kt vt nl es) := by
  cases d with
  | none => simp [execute, valueOf] at h
  | some v =>
    cases v with
    | map n0 kt0 vt0 nl0 es0 =>
      simp only [execute, valueOf] at h
      split at h
      · cases h; exact ⟨_, _, rfl⟩
      · rename_i o _; cases o <;> cases h
    | slice n0 e0 nl0 xs0 =>
      simp only [execute, valueOf] at h
      split at h
      · cases h
      · rename_i o _; cases o <;> cases h
    | array e0 xs0 =>
      simp only [execute, valueOf] at h
      split at h
      · cases h
      · rename_i o _; cases o <;> cases h
    | _ => simp [execute, valueOf] at h

theorem execute_nil (re : RegexOracle) (d : Any) : execute re none d = .ok d := rfl

/-! ## `getStruct` on field lists with shared metadata; the `unwrap` hook

  Used by both instances to discharge the `struct` case of `Shape` and the `hook` field. -/

/-- What the loop of `getStruct` does with one field; depends on the field's metadata only. -/
inductive FieldAct where
  | skip            -- `continue`
  | bar             -- error: tag contains '|'
  | ignore          -- "-" tag on the field named by the part: found = ignored = true
  | tagHit          -- tag equals the part: `return`s this field
  | nameHit         -- untagged, Go name equals the part: remembered as `foundField`
  deriving DecidableEq, Repr

def fieldAct (tagName part : GoString) (f : Field) : FieldAct :=
  if !f.exported then .skip else
  if !(f.tag tagName).isEmpty then
    if (tagHead (f.tag tagName)).contains 124 then .bar
    else if tagHead (f.tag tagName) == GoString.ofString "-" then
      (if f.goName == part then .ignore else .skip)
    else if tagHead (f.tag tagName) == part then .tagHit else .skip
  else if f.goName == part then .nameHit else .skip

theorem structLoop_cons (tagName part : GoString) (f : Field) (v : GoVal)
    (rest : List (Field × GoVal)) (ff : Option GoVal) (found ignored : Bool) :
    structLoop tagName part ((f, v) :: rest) ff found ignored =
      match fieldAct tagName part f with
      | .skip => structLoop tagName part rest ff found ignored
      | .bar => .error .tagBar
      | .ignore => structLoop tagName part rest ff true true
      | .tagHit => .ok (some v)
      | .nameHit => structLoop tagName part rest (some v) true ignored := by
  simp only [structLoop, fieldAct]
  repeat' split
  all_goals first | rfl | simp_all

/-- the tag name `getStruct` reads -/
def effTag (cfg : Config) : GoString :=
  if cfg.tagName.isEmpty then GoString.ofString "pointer" else cfg.tagName

theorem getStruct_eq (cfg : Config) (part : GoString) (fs : List (Field × GoVal)) :
    getStruct cfg part fs = structLoop (effTag cfg) part fs none false false := rfl

/-- A field `getStruct` can never return the content of: unexported, or tagged "-". -/
def hiddenIn (tagName : GoString) (f : Field) : Bool :=
  !f.exported || tagHead (f.tag tagName) == GoString.ofString "-"

theorem ofString_dash : GoString.ofString "-" = [45] := by with_unfolding_all rfl

theorem fieldAct_hidden {tagName : GoString} {f : Field} (h : hiddenIn tagName f = true)
    (part : GoString) :
    fieldAct tagName part f = .skip ∨ fieldAct tagName part f = .ignore := by
  unfold hiddenIn at h
  unfold fieldAct
  by_cases he : f.exported = true
  · have ht : tagHead (f.tag tagName) = GoString.ofString "-" := by simpa [he] using h
    have hne : (f.tag tagName).isEmpty = false := by
      cases hq : f.tag tagName with
      | nil => rw [hq, ofString_dash] at ht; exact absurd ht (by decide)
      | cons c cs => rfl
    have hbar : (GoString.ofString "-").contains 124 = false := by rw [ofString_dash]; decide
    simp only [he, hne, ht, hbar, beq_self_eq_true, Bool.not_true, Bool.not_false, if_true,
      Bool.false_eq_true, if_false]
    split
    · exact .inr rfl
    · exact .inl rfl
  · simp [he]

theorem structLoop_nil_rel {ff ff' : Option GoVal} (h : OptRel R ff ff') (tagName part : GoString)
    (found ignored : Bool) :
    ExcRel (OptRel R) (structLoop tagName part [] ff found ignored)
      (structLoop tagName part [] ff' found ignored) := by
  cases found <;> cases ignored
  · exact .error _
  · exact .error _
  · exact .ok h
  · exact .error _

theorem structLoop_rel {tagName : GoString} {hid : Field → Bool}
    (hh : ∀ f, hid f = true → hiddenIn tagName f = true) (part : GoString) {fs fs'}
    (h : FieldsRel R hid fs fs') : ∀ (ff ff' : Option GoVal) (found ignored : Bool),
    OptRel R ff ff' →
    ExcRel (OptRel R) (structLoop tagName part fs ff found ignored)
      (structLoop tagName part fs' ff' found ignored) := by
  induction h with
  | nil => intro ff ff' found ignored hff; exact structLoop_nil_rel hff _ _ _ _
  | @hidden f v v' fs fs' hf _ ih =>
    intro ff ff' found ignored hff
    rw [structLoop_cons, structLoop_cons]
    rcases fieldAct_hidden (hh f hf) part with ha | ha <;> rw [ha]
    · exact ih _ _ _ _ hff
    · exact ih _ _ _ _ hff
  | @visible f v v' fs fs' hv _ ih =>
    intro ff ff' found ignored hff
    rw [structLoop_cons, structLoop_cons]
    cases fieldAct tagName part f with
    | skip => exact ih _ _ _ _ hff
    | bar => exact .error _
    | ignore => exact ih _ _ _ _ hff
    | tagHit => exact .ok (.some hv)
    | nameHit => exact ih _ _ _ _ (.some hv)

theorem getStruct_rel {hid : Field → Bool} (hh : ∀ f, hid f = true → hiddenIn (effTag cfg) f = true)
    {fs fs'} (h : FieldsRel R hid fs fs') (part : GoString) :
    ExcRel (OptRel R) (getStruct cfg part fs) (getStruct cfg part fs') :=
  structLoop_rel hh part h none none false false .none

theorem stripIP_rel (hinv : ∀ v v', R v v' → Shape R cfg v v') : ∀ v v', R v v' →
    OptRel R (stripIP v) (stripIP v') := by
  intro v
  induction v using stripIP.induct with
  | case1 v ih =>
    intro v' h
    cases hinv _ _ h with
    | iface hx => cases hx with
      | some hr => simpa [stripIP] using ih _ hr
  | case2 =>
    intro v' h
    cases hinv _ _ h with
    | iface hx => cases hx; simpa [stripIP] using OptRel.none
  | case3 e v ih =>
    intro v' h
    cases hinv _ _ h with
    | ptr _ hx => cases hx with
      | some hr => simpa [stripIP] using ih _ hr
  | case4 e =>
    intro v' h
    cases hinv _ _ h with
    | ptr _ hx => cases hx; simpa [stripIP] using OptRel.none
  | case5 v h1 h2 h3 h4 =>
    intro v' h
    cases hinv _ _ h with
    | iface hx => cases hx with
      | none => exact absurd rfl h2
      | some _ => exact (h1 _ rfl).elim
    | ptr _ hx => cases hx with
      | none => exact (h4 _ rfl).elim
      | some _ => exact (h3 _ _ rfl).elim
    | _ => simpa [stripIP] using OptRel.some h

/-- first fields related (or both field lists empty) -/
inductive HeadRel (R : GoVal → GoVal → Prop) : List (Field × GoVal) → List (Field × GoVal) → Prop
  | nil : HeadRel R [] []
  | cons {f f' v v' fs fs'} : R v v' → HeadRel R ((f, v) :: fs) ((f', v') :: fs')

/-- The `unwrap` hook preserves a relation whose `main.Wrap` structs have related first fields. -/
theorem unwrap_hook_rel (hinv : ∀ v v', R v v' → Shape R cfg v v')
    (hw : ∀ fs fs', R (.struct "main.Wrap" fs) (.struct "main.Wrap" fs') → HeadRel R fs fs')
    {v v'} (h : R v v') : OptRel R (Hook.unwrap.apply v) (Hook.unwrap.apply v') := by
  simp only [Hook.apply]
  rcases (stripIP_rel hinv _ _ h).inv with ⟨h1, h2⟩ | ⟨s, s', h1, h2, hs⟩ <;> simp only [h1, h2]
  · exact .some h
  · cases hinv _ _ hs with
    | @struct n fs fs' hg =>
      by_cases hn : n = "main.Wrap"
      · subst hn
        cases hw _ _ hs with
        | nil => exact .some h
        | cons hf => exact .some hf
      · split
        · rename_i heq; cases heq; exact absurd rfl hn
        · split
          · rename_i heq; cases heq; exact absurd rfl hn
          · exact .some h
    | _ => exact .some h

end Bexpr.Proofs.Rel
