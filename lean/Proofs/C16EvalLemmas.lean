/-
  Helper lemmas for `Props/C16Eval.lean` (end-to-end literal fidelity).

  PART I  (`Bexpr.Proofs.C16Eval`): the first byte of the renderer's double-quoted body, the
          rendering `X == q body q` as a `Top`, from a derivation to `CreateEvaluator`.
  PART II (`Bexpr.Proofs.C16Steps`): the number of parser steps of `X == q body q`.
-/
import Props.C16
import Props.C02
import Props.C11
import Bexpr.Eval.Create

namespace Bexpr.Proofs.C16Eval
open Bexpr Bexpr.Go Bexpr.Eval Bexpr.Peg Bexpr.Driver Bexpr.Proofs.RoundTrip
open Bexpr.Strconv Bexpr.Utf8

/-! ## 1. The first byte of the renderer's double-quoted body -/

theorem escX_head (v : Nat) : ∃ t, escX v = 0x5C :: t := ⟨_, rfl⟩

/-- the head of the UTF-8 encoding decides whether it is a given ASCII byte -/
theorem escapedRuneX22_head (r : Nat) (b : UInt8) (t' : GoString)
    (henc : encodeRune r = b :: t') (hb : b ≠ 47) :
    ∃ c t, escapedRuneX22 r = c :: t ∧ c ≠ 47 := by
  unfold escapedRuneX22
  split
  · exact ⟨0x5C, _, rfl, by decide⟩
  · rcases escapedRune_shape r with ⟨_, he⟩ | he | ⟨e, _, he⟩ | ⟨v, he⟩ | ⟨v, he⟩ | ⟨v, he⟩
    · exact ⟨0x5C, _, he, by decide⟩
    · exact ⟨b, t', he.trans henc, hb⟩
    · exact ⟨0x5C, _, he, by decide⟩
    · exact ⟨0x5C, _, he, by decide⟩
    · exact ⟨0x5C, _, he, by decide⟩
    · exact ⟨0x5C, _, he, by decide⟩

/-- The body of `quoteX22 s` is non-empty and does not start with `/` as soon as `s` is
    non-empty and does not start with `/`. -/
theorem quoteBodyWith_head (n : Nat) (b : UInt8) (t : GoString) (hb : b ≠ 47) :
    ∃ c r, quoteBodyWith escapedRuneX22 (n + 1) (b :: t) = c :: r ∧ c ≠ 47 := by
  simp only [quoteBodyWith]
  split
  · exact ⟨0x5C, _, rfl, by decide⟩
  · rename_i hcond
    rcases decodeRune_cases b t with herr | ⟨r, w, hd, _, hw1, _, henc, _⟩
    · rw [herr] at hcond
      simp [Utf8.runeError] at hcond
    · rw [hd]
      simp only
      have henc' : encodeRune r = b :: t.take (w - 1) := by
        rw [henc]
        obtain ⟨w', rfl⟩ : ∃ w', w = w' + 1 := ⟨w - 1, by omega⟩
        simp
      obtain ⟨c, r', he, hc⟩ := escapedRuneX22_head r b _ henc' hb
      exact ⟨c, r' ++ _, by rw [he]; rfl, hc⟩

theorem quoteX22_body_head (s : GoString) (hne : s ≠ []) (hsl : s.head? ≠ some 0x2F) :
    ∃ body, quoteX22 s = [0x22] ++ (body ++ [0x22]) ∧ ∃ c t, body = c :: t ∧ c ≠ 47 := by
  cases s with
  | nil => exact absurd rfl hne
  | cons b t =>
    have hb : b ≠ 47 := by
      intro h; subst h; exact hsl rfl
    exact ⟨_, rfl, quoteBodyWith_head t.length b t hb⟩

/-! ## 2. The rendering `X == <q body q>` -/

/-- `X == ` -/
def pre : GoString := [0x58, 0x20, 0x3D, 0x3D, 0x20]

/-- the rendering `X == q body q` (one blank on each side of `==`, nothing else) of the tree
    `X == val` -/
def rho (q : UInt8) (body val : GoString) : Top :=
  ⟨[], .orUp (.andUp (.leaf (.opValue (.bexpr ⟨0x58, [], []⟩) (.eq [32] [32])
    (.str q body val)))), []⟩

theorem rho_text (q : UInt8) (body val : GoString) :
    (rho q body val).text = pre ++ ([q] ++ (body ++ [q])) := by
  simp [rho, pre, Top.text, Sp.text, MatchSp.text, SelX.text, SelSp.text, partsText, OpSp.text,
    OpSp.spell, toksText, ValSp.text, kEq]

theorem rho_ast (q : UInt8) (body val : GoString) :
    norm (rho q body val).ast = .match_ ⟨.bexpr, [[0x58]]⟩ .equal (some val) := rfl

theorem rho_WF (q : UInt8) (body val : GoString) (h : (ValSp.str q body val).WF) :
    (rho q body val).WF := by
  refine ⟨AllIn.nil, ⟨⟨Props.C16.Example.selWF _ _ (by decide) (by decide),
    ⟨by decide, by decide⟩, h⟩, ?_⟩, AllIn.nil⟩
  intro σ hσ
  simp only [MatchSp.lead, Option.some.injEq] at hσ
  subst hσ
  decide

/-! ## 3. From an accepting derivation to the evaluator -/

/-- `CreateEvaluator` on a text with an accepting derivation of size `N` that fits the budget
    of the options: the evaluator holds the derived tree and the option fields. -/
theorem create_of_acceptsIn {text : GoString} {e : Expr} {N : Nat}
    (h : AcceptsIn pinEnv pinGrammar text (.expr e) N) (opts : List Opt)
    (hN : N ≤ effectiveMax (getOpts opts).maxExpressions) :
    createEvaluator pinEnv pinGrammar text opts =
      .ok { ast := e, tagName := (getOpts opts).tagName, hook := (getOpts opts).hook,
            unknown := (getOpts opts).unknown, expression := text } := by
  simp [createEvaluator, Props.C15.run_of_acceptsIn pinEnv pinGrammar _ text h hN,
    ParseOut.accepted]

/-- a derivation that does not fit the unlimited budget makes the counter stop at `2^64` -/
theorem le_of_cnt_lt {text : GoString} {v : PVal} {N : Nat}
    (h : AcceptsIn pinEnv pinGrammar text v N)
    (hfit : (run pinEnv pinGrammar 0 text).cnt < 2 ^ 64) : N ≤ effectiveMax 0 := by
  apply Nat.le_of_not_lt
  intro hlt
  have := (Props.C15.run_of_acceptsIn_exceeded pinEnv pinGrammar 0 text h hlt).2.2
  rw [this, Props.C11.effectiveMax_zero] at hfit
  omega

end Bexpr.Proofs.C16Eval

/-
  PART II — the NUMBER OF PARSER STEPS of `X == <literal>`.

  `Proofs/RoundTrip*.lean` build `Sem`-derivations (no size).  The end-to-end literal theorem
  (`Props/C16Eval.lean`) needs the size `N` of the derivation, because the model of pigeon's
  `newParser` turns the budget 0 ("unlimited") into `math.MaxUint64`.  Here the derivation of the
  one text shape `X == q body q` is rebuilt with sizes (`SemN`), mirroring the lemmas of
  `Proofs/RoundTripLex/Sel/Match/Expr.lean` step by step:

      N ≤ 576 + 20 · |body|     (double-quoted;  equality when every rune of body is one byte)
      N ≤ 540 + 20 · |body|     (backquoted)

  `EatsB … B` is `Eats …` with a derivation of size `≤ B`, `FailsB … B` likewise.
-/

namespace Bexpr.Proofs.C16Steps
open Bexpr Bexpr.Peg Bexpr.Driver Bexpr.Proofs.RoundTrip Bexpr.Proofs.C16Eval

/-! ## 0. Leaves have size 1 -/

theorem semN_lit {rule : String} {ws : List Nat} {ic : Bool} {fr : Frame} {pt : Pt}
    {errs : List PErr} {o : SemOut} (h : Sem E G rule (.lit ws ic) fr pt errs o) :
    SemN E G rule (.lit ws ic) fr pt errs o 1 := by
  cases h with
  | lit_ok h => exact .lit_ok h
  | lit_fail h => exact .lit_fail h
  | lit_ignoreCase => exact .lit_ignoreCase

theorem semN_cls {rule : String} {chars ranges : List Nat} {classes : List String} {ic inv : Bool}
    {fr : Frame} {pt : Pt} {errs : List PErr} {o : SemOut}
    (h : Sem E G rule (.charClass chars ranges classes ic inv) fr pt errs o) :
    SemN E G rule (.charClass chars ranges classes ic inv) fr pt errs o 1 := by
  cases h with
  | class_ignoreCase => exact .class_ignoreCase
  | class_eof h => exact .class_eof h
  | class_unknown h1 h2 => exact .class_unknown h1 h2
  | class_ok h1 h2 h3 => exact .class_ok h1 h2 h3
  | class_fail h1 h2 h3 => exact .class_fail h1 h2 h3

theorem semN_any {rule : String} {fr : Frame} {pt : Pt} {errs : List PErr} {o : SemOut}
    (h : Sem E G rule .any fr pt errs o) : SemN E G rule .any fr pt errs o 1 := by
  cases h with
  | any_eof h => exact .any_eof h
  | any_ok h => exact .any_ok h

/-! ## 1. Judgements with a size bound -/

def EatsB (rule : String) (e : PExpr) (fr : Frame) (x rest : GoString) (off : Nat)
    (errs : List PErr) (fr' : Frame) (v : PVal) (B : Nat) : Prop :=
  ∃ N, N ≤ B ∧ SemN E G rule e fr (ptAt (x ++ rest) off) errs
    (.res (ptAt rest (off + x.length)) errs fr' v true) N

def FailsB (rule : String) (e : PExpr) (fr : Frame) (s : GoString) (off : Nat)
    (errs : List PErr) (B : Nat) : Prop :=
  ∃ N fr' v, N ≤ B ∧ SemN E G rule e fr (ptAt s off) errs (.res (ptAt s off) errs fr' v false) N

def EatsSeqB (rule : String) (es : List PExpr) (fr : Frame) (x rest : GoString) (off : Nat)
    (errs : List PErr) (fr' : Frame) (vs : List PVal) (B : Nat) : Prop :=
  ∃ N, N ≤ B ∧ SemSeqN E G rule es fr (ptAt (x ++ rest) off) errs
    (.ok (ptAt rest (off + x.length)) errs fr' vs) N

def FailsSeqB (rule : String) (es : List PExpr) (fr : Frame) (s : GoString) (off : Nat)
    (errs : List PErr) (B : Nat) : Prop :=
  ∃ N pt' fr', N ≤ B ∧ SemSeqN E G rule es fr (ptAt s off) errs (.fail pt' errs fr') N

def EatsStarB (rule : String) (e : PExpr) (x rest : GoString) (off : Nat)
    (errs : List PErr) (vs : List PVal) (B : Nat) : Prop :=
  ∃ N, N ≤ B ∧ SemStarN E G rule e (ptAt (x ++ rest) off) errs
    (.done (ptAt rest (off + x.length)) errs vs) N

section
variable {rule : String} {fr fr' fr₁ fr₂ : Frame} {x a b rest s : GoString} {off : Nat}
  {errs : List PErr} {v av : PVal} {vs : List PVal} {e : PExpr} {es : List PExpr}
  {B B' B₁ B₂ : Nat}

theorem EatsB.mono (h : EatsB rule e fr x rest off errs fr' v B) (hb : B ≤ B') :
    EatsB rule e fr x rest off errs fr' v B' := by
  obtain ⟨N, hN, h⟩ := h; exact ⟨N, Nat.le_trans hN hb, h⟩
theorem FailsB.mono (h : FailsB rule e fr s off errs B) (hb : B ≤ B') :
    FailsB rule e fr s off errs B' := by
  obtain ⟨N, f, w, hN, h⟩ := h; exact ⟨N, f, w, Nat.le_trans hN hb, h⟩
theorem EatsSeqB.mono (h : EatsSeqB rule es fr x rest off errs fr' vs B) (hb : B ≤ B') :
    EatsSeqB rule es fr x rest off errs fr' vs B' := by
  obtain ⟨N, hN, h⟩ := h; exact ⟨N, Nat.le_trans hN hb, h⟩
theorem FailsSeqB.mono (h : FailsSeqB rule es fr s off errs B) (hb : B ≤ B') :
    FailsSeqB rule es fr s off errs B' := by
  obtain ⟨N, p, f, hN, h⟩ := h; exact ⟨N, p, f, Nat.le_trans hN hb, h⟩
theorem EatsStarB.mono (h : EatsStarB rule e x rest off errs vs B) (hb : B ≤ B') :
    EatsStarB rule e x rest off errs vs B' := by
  obtain ⟨N, hN, h⟩ := h; exact ⟨N, Nat.le_trans hN hb, h⟩

/-- forget the size -/
theorem EatsB.eats (h : EatsB rule e fr x rest off errs fr' v B) :
    Eats rule e fr x rest off errs fr' v := by
  obtain ⟨N, _, h⟩ := h; exact SemRefine.semN_sem h

/-- leaves -/
theorem EatsB.ofLit {ws : List Nat} (h : Eats rule (.lit ws false) fr x rest off errs fr' v) :
    EatsB rule (.lit ws false) fr x rest off errs fr' v 1 := ⟨1, Nat.le_refl _, semN_lit h⟩
theorem FailsB.ofLit {ws : List Nat} (h : Fails rule (.lit ws false) fr s off errs) :
    FailsB rule (.lit ws false) fr s off errs 1 := by
  obtain ⟨f, w, h⟩ := h; exact ⟨1, f, w, Nat.le_refl _, semN_lit h⟩
theorem EatsB.ofCls {chars ranges : List Nat}
    (h : Eats rule (.charClass chars ranges [] false false) fr x rest off errs fr' v) :
    EatsB rule (.charClass chars ranges [] false false) fr x rest off errs fr' v 1 :=
  ⟨1, Nat.le_refl _, semN_cls h⟩
theorem FailsB.ofCls {chars ranges : List Nat}
    (h : Fails rule (.charClass chars ranges [] false false) fr s off errs) :
    FailsB rule (.charClass chars ranges [] false false) fr s off errs 1 := by
  obtain ⟨f, w, h⟩ := h; exact ⟨1, f, w, Nat.le_refl _, semN_cls h⟩
theorem EatsB.ofAny (h : Eats rule .any fr x rest off errs fr' v) :
    EatsB rule .any fr x rest off errs fr' v 1 := ⟨1, Nat.le_refl _, semN_any h⟩
theorem FailsB.ofAny (h : Fails rule .any fr s off errs) : FailsB rule .any fr s off errs 1 := by
  obtain ⟨f, w, h⟩ := h; exact ⟨1, f, w, Nat.le_refl _, semN_any h⟩

/-! ### the combinators of `Proofs/RoundTripLex.lean`, with sizes -/

theorem EatsSeqB.nil : EatsSeqB rule [] fr [] rest off errs fr [] 0 :=
  ⟨0, Nat.le_refl _, SemSeqN.nil⟩

theorem EatsSeqB.cons (h1 : EatsB rule e fr a (b ++ rest) off errs fr₁ v B₁)
    (h2 : EatsSeqB rule es fr₁ b rest (off + a.length) errs fr₂ vs B₂) :
    EatsSeqB rule (e :: es) fr (a ++ b) rest off errs fr₂ (v :: vs) (B₁ + B₂) := by
  obtain ⟨N₁, hN₁, h1⟩ := h1
  obtain ⟨N₂, hN₂, h2⟩ := h2
  refine ⟨N₁ + N₂, Nat.add_le_add hN₁ hN₂, ?_⟩
  rw [ptAt_assoc, ptAt_len]
  exact SemSeqN.cons h1 h2

theorem EatsSeqB.one (h1 : EatsB rule e fr a rest off errs fr₁ v B) :
    EatsSeqB rule [e] fr a rest off errs fr₁ [v] B := by
  have := EatsSeqB.cons (b := []) (rest := rest) (by simpa using h1) (EatsSeqB.nil (fr := fr₁))
  simpa using this

theorem EatsSeqB.cast {x' : GoString} (h : EatsSeqB rule es fr x rest off errs fr' vs B)
    (hx : x = x') : EatsSeqB rule es fr x' rest off errs fr' vs B := by subst hx; exact h

theorem EatsB.cast {x' rest' : GoString} (h : EatsB rule e fr x rest off errs fr' v B)
    (hx : x = x') (hr : rest = rest') : EatsB rule e fr x' rest' off errs fr' v B := by
  subst hx; subst hr; exact h

theorem EatsSeqB.two0 {e₂ : PExpr} {v₂ : PVal}
    (h1 : EatsB rule e fr a rest off errs fr₁ v B₁)
    (h2 : EatsB rule e₂ fr₁ [] rest (off + a.length) errs fr₂ v₂ B₂) :
    EatsSeqB rule [e, e₂] fr a rest off errs fr₂ [v, v₂] (B₁ + B₂) :=
  (EatsSeqB.cons (b := []) h1 (EatsSeqB.one h2)).cast (by simp)

theorem EatsB.seq (h : EatsSeqB rule es fr x rest off errs fr' vs B) :
    EatsB rule (.seq es) fr x rest off errs fr' (.list vs) (B + 1) := by
  obtain ⟨N, hN, h⟩ := h
  exact ⟨N + 1, Nat.add_le_add_right hN 1, SemN.seq_ok h⟩

theorem FailsSeqB.here (h : FailsB rule e fr s off errs B) :
    FailsSeqB rule (e :: es) fr s off errs B := by
  obtain ⟨N, f, w, hN, h⟩ := h
  exact ⟨N, _, _, hN, SemSeqN.fail h⟩

theorem FailsSeqB.later (h1 : EatsB rule e fr a rest off errs fr₁ v B₁)
    (h2 : FailsSeqB rule es fr₁ rest (off + a.length) errs B₂) :
    FailsSeqB rule (e :: es) fr (a ++ rest) off errs (B₁ + B₂) := by
  obtain ⟨N₁, hN₁, h1⟩ := h1
  obtain ⟨N₂, pt', f, hN₂, h2⟩ := h2
  exact ⟨N₁ + N₂, pt', f, Nat.add_le_add hN₁ hN₂, SemSeqN.cons h1 h2⟩

theorem FailsB.seq (h : FailsSeqB rule es fr s off errs B) :
    FailsB rule (.seq es) fr s off errs (B + 1) := by
  obtain ⟨N, pt', f, hN, h⟩ := h
  exact ⟨N + 1, _, _, Nat.add_le_add_right hN 1, SemN.seq_fail h⟩

theorem EatsB.labeled {l : String} (hl : l ≠ "") (h : EatsB rule e [] x rest off errs fr' v B) :
    EatsB rule (.labeled l e) fr x rest off errs ((l, v) :: fr) v (B + 1) := by
  obtain ⟨N, hN, h⟩ := h
  have := SemN.labeled_ok (fr := fr) (l := l) h
  have hl' : (l != "") = true := by simpa using hl
  rw [if_pos hl'] at this
  exact ⟨N + 1, Nat.add_le_add_right hN 1, this⟩

theorem FailsB.labeled {l : String} (h : FailsB rule e [] s off errs B) :
    FailsB rule (.labeled l e) fr s off errs (B + 1) := by
  obtain ⟨N, f, w, hN, h⟩ := h
  exact ⟨N + 1, _, _, Nat.add_le_add_right hN 1, SemN.labeled_fail h⟩

theorem EatsB.action {name : String} (h : EatsB rule e fr x rest off errs fr' v B)
    (ha : E.action name fr' x = .ret av none) :
    EatsB rule (.action name e) fr x rest off errs fr' av (B + 1) := by
  obtain ⟨N, hN, h⟩ := h
  have := SemN.action_ret (name := name) (av := av) (err := none) h
    (by rw [sliceFrom_ptAt]; exact ha)
  exact ⟨N + 1, Nat.add_le_add_right hN 1, this⟩

theorem FailsB.action {name : String} (h : FailsB rule e fr s off errs B) :
    FailsB rule (.action name e) fr s off errs (B + 1) := by
  obtain ⟨N, f, w, hN, h⟩ := h
  exact ⟨N + 1, _, _, Nat.add_le_add_right hN 1, SemN.action_fail h⟩

theorem EatsB.ref {name : String} {r : Rule} (hl : lookupRule G name = some r) (hn : name ≠ "")
    (h : EatsB r.shown r.expr [] x rest off errs fr' v B) :
    EatsB rule (.ruleRef name) fr x rest off errs fr v (B + 1) := by
  obtain ⟨N, hN, h⟩ := h
  exact ⟨N + 1, Nat.add_le_add_right hN 1, SemN.ruleRef_res hn hl h⟩

theorem FailsB.ref {name : String} {r : Rule} (hl : lookupRule G name = some r) (hn : name ≠ "")
    (h : FailsB r.shown r.expr [] s off errs B) :
    FailsB rule (.ruleRef name) fr s off errs (B + 1) := by
  obtain ⟨N, f, w, hN, h⟩ := h
  exact ⟨N + 1, _, _, Nat.add_le_add_right hN 1, SemN.ruleRef_res hn hl h⟩

theorem EatsB.opt_some (h : EatsB rule e [] x rest off errs fr' v B) :
    EatsB rule (.zeroOrOne e) fr x rest off errs fr v (B + 1) := by
  obtain ⟨N, hN, h⟩ := h
  exact ⟨N + 1, Nat.add_le_add_right hN 1, SemN.opt_some h⟩

theorem EatsB.opt_none (h : FailsB rule e [] rest off errs B) :
    EatsB rule (.zeroOrOne e) fr [] rest off errs fr .nil (B + 1) := by
  obtain ⟨N, f, w, hN, h⟩ := h
  exact ⟨N + 1, Nat.add_le_add_right hN 1, SemN.opt_none h⟩

theorem EatsB.choice_hit {as : List PExpr} (h : EatsB rule e [] x rest off errs fr' v B) :
    EatsB rule (.choice (e :: as)) fr x rest off errs fr v (B + 1) := by
  obtain ⟨N, hN, h⟩ := h
  exact ⟨N + 1, Nat.add_le_add_right hN 1, SemN.choice (SemChoiceN.hit h)⟩

theorem EatsB.choice_next {as : List PExpr} (h1 : FailsB rule e [] (x ++ rest) off errs B₁)
    (h2 : EatsB rule (.choice as) fr x rest off errs fr' v B₂) :
    EatsB rule (.choice (e :: as)) fr x rest off errs fr' v (B₁ + B₂) := by
  obtain ⟨N₁, f, w, hN₁, h1⟩ := h1
  obtain ⟨N₂, hN₂, h2⟩ := h2
  cases h2 with
  | choice h2 =>
    rename_i N₂'
    exact ⟨N₁ + N₂' + 1, by omega, SemN.choice (SemChoiceN.next h1 h2)⟩

theorem FailsB.choice_nil : FailsB rule (.choice []) fr s off errs 1 :=
  ⟨1, _, _, Nat.le_refl _, SemN.choice SemChoiceN.exhausted⟩

theorem FailsB.choice_cons {as : List PExpr} (h1 : FailsB rule e [] s off errs B₁)
    (h2 : FailsB rule (.choice as) fr s off errs B₂) :
    FailsB rule (.choice (e :: as)) fr s off errs (B₁ + B₂) := by
  obtain ⟨N₁, f₁, w₁, hN₁, h1⟩ := h1
  obtain ⟨N₂, f₂, w₂, hN₂, h2⟩ := h2
  cases h2 with
  | choice h2 =>
    rename_i N₂'
    exact ⟨N₁ + N₂' + 1, _, _, by omega, SemN.choice (SemChoiceN.next h1 h2)⟩

theorem FailsB.notP (h : EatsB rule e [] x rest off errs fr' v B) :
    FailsB rule (.notP e) fr (x ++ rest) off errs (B + 1) := by
  obtain ⟨N, hN, h⟩ := h
  exact ⟨N + 1, _, _, Nat.add_le_add_right hN 1, SemN.notP_res (fr := fr) h⟩

theorem EatsB.notP (h : FailsB rule e [] s off errs B) :
    EatsB rule (.notP e) fr [] s off errs fr .nil (B + 1) := by
  obtain ⟨N, f, w, hN, h⟩ := h
  have := SemN.notP_res (fr := fr) h
  exact ⟨N + 1, Nat.add_le_add_right hN 1, by simpa using this⟩

theorem EatsStarB.stop (h : FailsB rule e [] rest off errs B) :
    EatsStarB rule e [] rest off errs [] B := by
  obtain ⟨N, f, w, hN, h⟩ := h
  exact ⟨N, hN, SemStarN.stop h⟩

theorem EatsStarB.more (h1 : EatsB rule e [] a (b ++ rest) off errs fr₁ v B₁)
    (h2 : EatsStarB rule e b rest (off + a.length) errs vs B₂) :
    EatsStarB rule e (a ++ b) rest off errs (v :: vs) (B₁ + B₂) := by
  obtain ⟨N₁, hN₁, h1⟩ := h1
  obtain ⟨N₂, hN₂, h2⟩ := h2
  refine ⟨N₁ + N₂, Nat.add_le_add hN₁ hN₂, ?_⟩
  rw [ptAt_assoc, ptAt_len]
  exact SemStarN.more h1 h2

theorem EatsB.star (h : EatsStarB rule e x rest off errs vs B) :
    EatsB rule (.zeroOrMore e) fr x rest off errs fr (.list vs) (B + 1) := by
  obtain ⟨N, hN, h⟩ := h
  exact ⟨N + 1, Nat.add_le_add_right hN 1, SemN.star_done h⟩

theorem EatsB.plus (h1 : EatsB rule e [] a (b ++ rest) off errs fr₁ v B₁)
    (h2 : EatsStarB rule e b rest (off + a.length) errs vs B₂) :
    EatsB rule (.oneOrMore e) fr (a ++ b) rest off errs fr (.list (v :: vs)) (B₁ + B₂ + 1) := by
  obtain ⟨N₁, hN₁, h1⟩ := h1
  obtain ⟨N₂, hN₂, h2⟩ := h2
  refine ⟨N₁ + N₂ + 1, by omega, ?_⟩
  rw [ptAt_assoc, ptAt_len]
  exact SemN.plus_done h1 h2

theorem FailsB.plus (h : FailsB rule e [] s off errs B) :
    FailsB rule (.oneOrMore e) fr s off errs (B + 1) := by
  obtain ⟨N, f, w, hN, h⟩ := h
  exact ⟨N + 1, _, _, Nat.add_le_add_right hN 1, SemN.plus_none h⟩

end

/-! ## 2. The lexical layer, with sizes (mirrors `Proofs/RoundTripLex.lean`) -/

section lex
variable {rule : String} {fr : Frame} {rest s : GoString} {off : Nat} {errs : List PErr}

theorem EatsB.lit {ws : List Nat} (x : GoString) (hw : runesOf x = ws) (hx : Asc x) (hr : VT rest) :
    EatsB rule (.lit ws false) fr x rest off errs fr (.bytes x) 1 :=
  EatsB.ofLit (Eats.lit x hw hx hr)

theorem FailsB.lit {ws : List Nat} (x : GoString) (hw : runesOf x = ws) (hx : Asc x) (hs : VT s)
    (h : GoString.isPrefixOf x s = false) : FailsB rule (.lit ws false) fr s off errs 1 :=
  FailsB.ofLit (Fails.lit x hw hx hs h)

theorem EatsB.cls {chars ranges : List Nat} {b : UInt8} (hb : b.toNat < 128)
    (hin : inCls chars ranges b.toNat = true) (hr : VT rest) :
    EatsB rule (.charClass chars ranges [] false false) fr [b] rest off errs fr (.bytes [b]) 1 :=
  EatsB.ofCls (Eats.cls hb hin hr)

theorem FailsB.cls {chars ranges : List Nat} (hca : ClsAsc chars ranges) (hs : VT s)
    (h : headIn (inCls chars ranges) s = false) :
    FailsB rule (.charClass chars ranges [] false false) fr s off errs 1 :=
  FailsB.ofCls (Fails.cls hca hs h)

theorem EatsStarB.cls {chars ranges : List Nat} (hca : ClsAsc chars ranges) (x : GoString)
    (hx : Asc x) (hr : VT rest)
    (hin : ∀ b ∈ x, inCls chars ranges b.toNat = true)
    (hstop : headIn (inCls chars ranges) rest = false) :
    EatsStarB rule (.charClass chars ranges [] false false) x rest off errs
      (x.map fun b => .bytes [b]) (x.length + 1) := by
  induction x generalizing off with
  | nil => exact (EatsStarB.stop (FailsB.cls hca hr hstop)).mono (by simp)
  | cons b t ih =>
    have h1 : EatsB rule (.charClass chars ranges [] false false) [] [b] (t ++ rest) off errs []
        (.bytes [b]) 1 := EatsB.cls hx.head (hin b (List.mem_cons_self ..)) (hx.tail.appendV hr)
    exact (EatsStarB.more h1 (ih hx.tail (fun c hc => hin c (List.mem_cons_of_mem _ hc)))).mono
      (by simp; omega)

/-- the rule `_` on a run of `1 + |ws|` blanks: `|ws| + 4` steps -/
theorem eatsB_ws {b : UInt8} {ws : GoString} (hws : AllIn isWs (b :: ws))
    (hstop : headIn isWs rest = false) (hr : VT rest) :
    EatsB rule (.ruleRef "_") fr (b :: ws) rest off errs fr (.list (bytesOf (b :: ws)))
      (ws.length + 4) := by
  have ha : Asc (b :: ws) := hws.asc @isWs_lt
  apply EatsB.ref look_ws (by decide)
  exact (EatsB.plus (a := [b]) (EatsB.cls ha.head hws.head (ha.tail.appendV hr))
    (EatsStarB.cls (by decide) ws ha.tail hr hws.tail hstop)).mono (by omega)

theorem failsB_ws (hs : VT s) (h : headIn isWs s = false) :
    FailsB rule (.ruleRef "_") fr s off errs 3 :=
  FailsB.ref look_ws (by decide) (FailsB.plus (FailsB.cls (by decide) hs h))

theorem eatsB_optWs {ws : GoString} (hws : AllIn isWs ws)
    (hstop : headIn isWs rest = false) (hr : VT rest) :
    ∃ v, EatsB rule (.zeroOrOne (.ruleRef "_")) fr ws rest off errs fr v (ws.length + 4) := by
  cases ws with
  | nil => exact ⟨_, (EatsB.opt_none (failsB_ws hr hstop)).mono (by simp)⟩
  | cons b t => exact ⟨_, (EatsB.opt_some (eatsB_ws hws hstop hr)).mono (by simp)⟩

theorem eatsB_EOF : EatsB rule (.ruleRef "EOF") fr [] [] off errs fr .nil 3 := by
  apply EatsB.ref look_EOF (by decide)
  exact EatsB.notP (FailsB.ofAny ⟨_, _, Sem.any_eof (atEOF_nil off)⟩)

theorem eatsB_Identifier {b : UInt8} {x : GoString} (hb : isAlpha b.toNat = true)
    (hx : AllIn isIdc x) (hstop : headIn isIdc rest = false) (hr : VT rest) :
    EatsB rule (.ruleRef "Identifier") fr (b :: x) rest off errs fr (.str (b :: x))
      (x.length + 6) := by
  have hxa : Asc x := hx.asc @isIdc_lt
  apply EatsB.ref look_Identifier (by decide)
  apply EatsB.action (av := .str (b :: x)) (ha := by rw [act_of_sem sem_onIdentifier1]; rfl)
  apply EatsB.seq
  exact (EatsSeqB.cons (a := [b]) (EatsB.cls (isAlpha_lt hb) hb (hxa.appendV hr))
    (EatsSeqB.one (EatsB.star (EatsStarB.cls (by decide) x hxa hr hx hstop)))).mono (by omega)

theorem failsB_Identifier (hs : VT s) (h : headIn isAlpha s = false) :
    FailsB rule (.ruleRef "Identifier") fr s off errs 4 :=
  FailsB.ref look_Identifier (by decide)
    (FailsB.action (FailsB.seq (FailsSeqB.here (FailsB.cls (by decide) hs h))))

end lex

/-! ## 3. Selectors (mirrors `Proofs/RoundTripSel.lean`, `RoundTripMatch.lean` §1) -/

section sel
variable {rule : String} {fr : Frame} {rest s : GoString} {off : Nat} {errs : List PErr}

theorem failsB_IndexExpression (hs : VT s) (h : GoString.isPrefixOf [91] s = false) :
    FailsB rule (.ruleRef "IndexExpression") fr s off errs 9 := by
  apply FailsB.ref look_IndexExpression (by decide)
  have hl : ∀ fr', FailsB Pinned.Grammar.rule_27.shown (.lit [91] false) fr' s off errs 1 :=
    fun _ => FailsB.lit [91] rfl (by decide) hs h
  exact FailsB.choice_cons (FailsB.action (FailsB.seq (FailsSeqB.here (hl _))))
    (FailsB.choice_cons (FailsB.seq (FailsSeqB.here (hl _)))
      (FailsB.choice_cons (FailsB.seq (FailsSeqB.here (hl _))) FailsB.choice_nil))

theorem failsB_SelectorOrIndex (hs : VT s) (h : stopsSel s) :
    FailsB rule (.ruleRef "SelectorOrIndex") fr s off errs 19 := by
  have hdot : GoString.isPrefixOf [46] s = false := by
    cases s with
    | nil => rfl
    | cons b t =>
      have : ¬ (46 : UInt8) = b := by
        intro hb; subst hb
        have h' : selCont (46 : UInt8).toNat = false := h
        revert h'; decide
      simp [GoString.isPrefixOf, this]
  have hbr : GoString.isPrefixOf [91] s = false := by
    cases s with
    | nil => rfl
    | cons b t =>
      have : ¬ (91 : UInt8) = b := by
        intro hb; subst hb
        have h' : selCont (91 : UInt8).toNat = false := h
        revert h'; decide
      simp [GoString.isPrefixOf, this]
  have hl : ∀ fr', FailsB Pinned.Grammar.rule_26.shown (.lit [46] false) fr' s off errs 1 :=
    fun _ => FailsB.lit [46] rfl (by decide) hs hdot
  exact FailsB.ref look_SelectorOrIndex (by decide)
    (FailsB.choice_cons (FailsB.action (FailsB.seq (FailsSeqB.here (hl _))))
      (FailsB.choice_cons (FailsB.action (FailsB.labeled (failsB_IndexExpression hs hbr)))
        (FailsB.choice_cons (FailsB.action (FailsB.seq (FailsSeqB.here (hl _))))
          FailsB.choice_nil)))

/-- the rule `Selector` on a single identifier `b :: x` (no `.part`, no `[index]`) -/
theorem eatsB_Selector_ident {b : UInt8} {x : GoString} (hb : isAlpha b.toNat = true)
    (hx : AllIn isIdc x) (hstop : stopsSel rest) (hr : VT rest) :
    EatsB rule (.ruleRef "Selector") fr (b :: x) rest off errs fr
      (.sel { ty := .bexpr, path := [b :: x] }) (x.length + 32) := by
  have hseq := EatsSeqB.cons
    (EatsB.labeled (rule := Pinned.Grammar.rule_23.shown) (l := "first") (fr := []) (by decide)
      (eatsB_Identifier (off := off) (errs := errs) (rest := [] ++ rest) hb hx
        (stopsSel_idc hstop) hr))
    (EatsSeqB.one (EatsB.labeled (l := "rest") (by decide)
      (EatsB.star (EatsStarB.stop (failsB_SelectorOrIndex hr hstop)))))
  have hseq' := hseq.cast (x' := b :: x) (by simp)
  refine (EatsB.ref look_Selector (by decide) (EatsB.choice_hit
    (EatsB.action (EatsB.seq hseq') ?_))).mono (by omega)
  rw [act_of_sem sem_onSelector2]
  simp [runActionSem, Frame.get, List.find?, restStrings, asStrList]

theorem failsB_JsonPointerSegment (hs : VT s) (h : GoString.isPrefixOf [47] s = false) :
    FailsB rule (.ruleRef "JsonPointerSegment") fr s off errs 4 :=
  FailsB.ref look_JsonPointerSegment (by decide) (FailsB.action (FailsB.seq (FailsSeqB.here
    (FailsB.lit [47] rfl (by decide) hs h))))

theorem failsB_Selector (hs : VT s) (h1 : headIn isAlpha s = false)
    (h2 : GoString.isPrefixOf [34] s = false) :
    FailsB rule (.ruleRef "Selector") fr s off errs 12 :=
  FailsB.ref look_Selector (by decide)
    (FailsB.choice_cons (FailsB.action (FailsB.seq (FailsSeqB.here (FailsB.labeled
      (failsB_Identifier hs h1)))))
    (FailsB.choice_cons (FailsB.action (FailsB.seq (FailsSeqB.here
      (FailsB.lit [34] rfl (by decide) hs h2)))) FailsB.choice_nil))

theorem failsB_Selector_dq {c : UInt8} {t : GoString} (hb : VT (c :: t)) (hc : c ≠ 47)
    (hq : c ≠ 34) (hr : VT rest) :
    FailsB rule (.ruleRef "Selector") fr ([34] ++ ((c :: t) ++ rest)) off errs 19 := by
  have hall : VT ([34] ++ ((c :: t) ++ rest)) := VT.cons (by decide) (hb.append hr)
  have hp47 : GoString.isPrefixOf [47] ((c :: t) ++ rest) = false := by
    have : ¬ (47 : UInt8) = c := fun h => hc h.symm
    simp [GoString.isPrefixOf, this]
  have hp34 : GoString.isPrefixOf [34] ((c :: t) ++ rest) = false := by
    have : ¬ (34 : UInt8) = c := fun h => hq h.symm
    simp [GoString.isPrefixOf, this]
  have e1 : EatsB Pinned.Grammar.rule_23.shown (.lit [34] false) [] [34] ((c :: t) ++ rest) off
      errs [] (.bytes [34]) 1 := EatsB.lit [34] rfl (by decide) (hb.append hr)
  have e2 : EatsB Pinned.Grammar.rule_23.shown
      (.labeled "ptrsegs" (.zeroOrMore (.ruleRef "JsonPointerSegment"))) [] []
      ((c :: t) ++ rest) (off + ([34] : GoString).length) errs _ _ _ :=
    EatsB.labeled (l := "ptrsegs") (by decide)
      (EatsB.star (EatsStarB.stop (failsB_JsonPointerSegment (hb.append hr) hp47)))
  exact FailsB.ref look_Selector (by decide)
    (FailsB.choice_cons (FailsB.action (FailsB.seq (FailsSeqB.here (FailsB.labeled
      (failsB_Identifier hall rfl)))))
    (FailsB.choice_cons (FailsB.action (FailsB.seq (FailsSeqB.later e1
      (FailsSeqB.later (a := []) e2 (FailsSeqB.here
        (FailsB.lit [34] rfl (by decide) (hb.append hr) hp34))))))
      FailsB.choice_nil))

end sel

/-! ## 4. Values and the match expression (mirrors `Proofs/RoundTripLex.lean` §8,
      `Proofs/RoundTripMatch.lean`) -/

section mat
variable {rule : String} {fr : Frame} {rest s : GoString} {off : Nat} {errs : List PErr}

theorem failsB_IntegerOrFloat (hs : VT s) (h : headIn isDigit s = false) :
    FailsB rule (.ruleRef "IntegerOrFloat") fr s off errs 6 := by
  have h0 : GoString.isPrefixOf [48] s = false := by
    cases s with
    | nil => rfl
    | cons b t =>
      have : ¬ (48 : UInt8) = b := by
        intro hb; subst hb
        have h' : isDigit (48 : UInt8).toNat = false := h
        revert h'; decide
      simp [GoString.isPrefixOf, this]
  have h19 : headIn isDigit19 s = false := headIn_mono (fun _ => isDigit_of_19) h
  exact FailsB.ref look_IntegerOrFloat (by decide) (FailsB.seq (FailsSeqB.here
    (FailsB.choice_cons (FailsB.lit [48] rfl (by decide) hs h0)
      (FailsB.choice_cons (FailsB.seq (FailsSeqB.here (FailsB.cls (by decide) hs h19)))
        FailsB.choice_nil))))

theorem failsB_NumberLiteral (hs : VT s) (h : headIn numStart s = false) :
    FailsB rule (.ruleRef "NumberLiteral") fr s off errs 21 := by
  have hd : headIn isDigit s = false := headIn_mono (fun n hn => by simp [numStart, hn]) h
  have hm : GoString.isPrefixOf [45] s = false := by
    cases s with
    | nil => rfl
    | cons b t =>
      have : ¬ (45 : UInt8) = b := by
        intro hb; subst hb
        have h' : numStart (45 : UInt8).toNat = false := h
        revert h'; decide
      simp [GoString.isPrefixOf, this]
  have e1 : ∀ fr', EatsB Pinned.Grammar.rule_29.shown (.zeroOrOne (.lit [45] false)) fr' [] s off
      errs fr' .nil 2 := fun _ => EatsB.opt_none (FailsB.lit [45] rfl (by decide) hs hm)
  have f : ∀ fr' es, FailsSeqB Pinned.Grammar.rule_29.shown
      (.zeroOrOne (.lit [45] false) :: .ruleRef "IntegerOrFloat" :: es) fr' s off errs 8 :=
    fun fr' es => FailsSeqB.later (a := []) (e1 fr') (FailsSeqB.here (failsB_IntegerOrFloat hs hd))
  exact FailsB.ref look_NumberLiteral (by decide)
    (FailsB.choice_cons (FailsB.action (FailsB.seq (f _ _)))
      (FailsB.choice_cons (FailsB.seq (f _ _)) FailsB.choice_nil))

/-- `XStringChar <- !'q' .` over the body: 5 steps per rune, 4 for the stop -/
theorem eatsStarB_until {name : String} {r : Rule} {q : UInt8} (hl : lookupRule G name = some r)
    (hn : name ≠ "") (he : r.expr = .seq [.notP (.lit [q.toNat] false), .any])
    (hq : q.toNat < 128) (body : GoString) (hb : VT body) (hnq : ∀ c ∈ body, c ≠ q)
    (hr : VT rest) :
    ∃ vs, EatsStarB rule (.ruleRef name) body (q :: rest) off errs vs (5 * body.length + 4) := by
  have hb' : RunesIn (fun _ => true) body := hb
  clear hb
  induction hb' generalizing off with
  | nil =>
    refine ⟨_, (EatsStarB.stop ?_).mono (Nat.le_refl _)⟩
    apply FailsB.ref hl hn
    rw [he]
    exact FailsB.seq (FailsSeqB.here (FailsB.notP (x := [q]) (EatsB.lit [q] rfl
      (Asc.cons hq Asc.nil) hr)))
  | @asc c t hc _ ht ih =>
    have ht' : VT t := ht
    have hcq : c ≠ q := hnq c (List.mem_cons_self ..)
    have hrest : VT (t ++ q :: rest) := ht'.append (VT.cons hq hr)
    have hp : GoString.isPrefixOf [q] (c :: (t ++ q :: rest)) = false := by
      have : ¬ q = c := fun h => hcq h.symm
      simp [GoString.isPrefixOf, this]
    have h1 : EatsB r.shown (.notP (.lit [q.toNat] false)) [] [] (c :: (t ++ q :: rest)) off errs []
        .nil 2 := EatsB.notP (FailsB.lit [q] rfl (Asc.cons hq Asc.nil) (VT.cons hc hrest) hp)
    have h2 : EatsB r.shown .any [] [c] (t ++ q :: rest) (off + ([] : GoString).length) errs []
        (.bytes [c]) 1 := EatsB.ofAny (Eats.any hc hrest)
    have h12 : EatsB rule (.ruleRef name) [] [c] (t ++ q :: rest) off errs []
        (.list [.nil, .bytes [c]]) 5 := by
      apply EatsB.ref hl hn
      rw [he]
      exact EatsB.seq (EatsSeqB.cons (a := []) h1 (EatsSeqB.one h2))
    obtain ⟨vs, hvs⟩ := ih (off := off + ([c] : GoString).length)
      (fun d hd => hnq d (List.mem_cons_of_mem _ hd))
    exact ⟨_, (EatsStarB.more (a := [c]) h12 hvs).mono (by simp; omega)⟩
  | @rune ρ t hv h80 _ ht ih =>
    have ht' : VT t := ht
    have hrest : VT (t ++ q :: rest) := ht'.append (VT.cons hq hr)
    obtain ⟨c, ch, hec, hc80, _⟩ := encodeRune_cons h80
    have hp : GoString.isPrefixOf [q] (Utf8.encodeRune ρ ++ (t ++ q :: rest)) = false := by
      have : ¬ q = c := by intro h; subst h; omega
      rw [hec]
      simp [GoString.isPrefixOf, this]
    have h1 : EatsB r.shown (.notP (.lit [q.toNat] false)) [] []
        (Utf8.encodeRune ρ ++ (t ++ q :: rest)) off errs [] .nil 2 :=
      EatsB.notP (FailsB.lit [q] rfl (Asc.cons hq Asc.nil) (VT.rune hv h80 hrest) hp)
    have h2 : EatsB r.shown .any [] (Utf8.encodeRune ρ) (t ++ q :: rest)
        (off + ([] : GoString).length) errs [] (.bytes (Utf8.encodeRune ρ)) 1 :=
      EatsB.ofAny (Eats.any_rune hv h80 hrest)
    have h12 : EatsB rule (.ruleRef name) [] (Utf8.encodeRune ρ) (t ++ q :: rest) off errs []
        (.list [.nil, .bytes (Utf8.encodeRune ρ)]) 5 := by
      apply EatsB.ref hl hn
      rw [he]
      exact EatsB.seq (EatsSeqB.cons (a := []) h1 (EatsSeqB.one h2))
    obtain ⟨vs, hvs⟩ := ih (off := off + (Utf8.encodeRune ρ).length)
      (fun d hd => hnq d (List.mem_append_right _ hd))
    have hlen : 2 ≤ (Utf8.encodeRune ρ).length := encodeRune_length_ge2 h80
    exact ⟨_, (EatsStarB.more (a := Utf8.encodeRune ρ) h12 hvs).mono (by simp; omega)⟩

/-- the size of `StringLiteral` on `q body q`: 14 (double quote) resp. 12 (backquote) + 5 per
    byte of the body -/
def slBase (q : UInt8) : Nat := if q = 0x22 then 14 else 12

theorem eatsB_StringLiteral {q : UInt8} (hq : q = 0x60 ∨ q = 0x22) (body s' : GoString)
    (hb : VT body) (hnq : ∀ c ∈ body, c ≠ q)
    (hu : Strconv.unquote ([q] ++ (body ++ [q])) = some s') (hr : VT rest) :
    EatsB rule (.ruleRef "StringLiteral") fr ([q] ++ (body ++ [q])) rest off errs fr (.str s')
      (slBase q + 5 * body.length) := by
  have hact : E.action "onStringLiteral2" [] ([q] ++ (body ++ [q])) = .ret (.str s') none := by
    rw [act_of_sem sem_onStringLiteral2]
    simp only [runActionSem, hu]
  rcases hq with rfl | rfl
  · obtain ⟨vs, hstar⟩ := eatsStarB_until (rule := Pinned.Grammar.rule_32.shown) (off := off + 1)
      (errs := errs) (q := 0x60) look_RawStringChar (by decide) rfl
      (show (0x60 : UInt8).toNat < 128 by decide) body hb hnq hr
    have hseq := EatsSeqB.cons (EatsB.lit (rule := Pinned.Grammar.rule_32.shown) (fr := [])
      (off := off) (errs := errs) [0x60] rfl (by decide)
      ((hb.append (VT.cons (b := 0x60) (by decide) VT.nil)).append hr))
      (EatsSeqB.cons (EatsB.star hstar) (EatsSeqB.one (EatsB.lit [0x60] rfl (by decide) hr)))
    exact (EatsB.ref look_StringLiteral (by decide) (EatsB.choice_hit (EatsB.action
      (EatsB.choice_hit (EatsB.seq hseq)) hact))).mono (by simp [slBase]; omega)
  · obtain ⟨vs, hstar⟩ := eatsStarB_until (rule := Pinned.Grammar.rule_32.shown) (off := off + 1)
      (errs := errs) (q := 0x22) look_DoubleStringChar (by decide) rfl
      (show (0x22 : UInt8).toNat < 128 by decide) body hb hnq hr
    have hall : VT ([0x22] ++ (body ++ [0x22]) ++ rest) :=
      (VT.cons (by decide) (hb.append (VT.cons (by decide) VT.nil))).append hr
    have hseq := EatsSeqB.cons (EatsB.lit (rule := Pinned.Grammar.rule_32.shown) (fr := [])
      (off := off) (errs := errs) [0x22] rfl (by decide)
      ((hb.append (VT.cons (b := 0x22) (by decide) VT.nil)).append hr))
      (EatsSeqB.cons (EatsB.star hstar) (EatsSeqB.one (EatsB.lit [0x22] rfl (by decide) hr)))
    have hf : FailsB Pinned.Grammar.rule_32.shown (.seq [.lit [96] false,
        .zeroOrMore (.ruleRef "RawStringChar"), .lit [96] false]) []
        ([0x22] ++ (body ++ [0x22]) ++ rest) off errs 2 :=
      FailsB.seq (FailsSeqB.here (FailsB.lit [0x60] rfl (by decide) hall rfl))
    exact (EatsB.ref look_StringLiteral (by decide) (EatsB.choice_hit (EatsB.action
      (EatsB.choice_next hf (EatsB.choice_hit (EatsB.seq hseq))) hact))).mono
        (by simp [slBase]; omega)

/-- `Value` on a quoted literal: `Selector` fails (19 steps on a double quote followed by a
    body that does not start with `/`, 12 on a backquote), `NumberLiteral` fails (21), then
    `StringLiteral` -/
def valBase (q : UInt8) : Nat := if q = 0x22 then 62 else 53

theorem eatsB_Value_str (q : UInt8) (body val : GoString) (h : (ValSp.str q body val).WF)
    (hr : VT rest) :
    EatsB rule (.ruleRef "Value") fr ([q] ++ (body ++ [q])) rest off errs fr (.mval val)
      (valBase q + 5 * body.length) := by
  obtain ⟨hq, hb, hnq, hu, hdq⟩ := h
  have hq' : q.toNat < 128 := by rcases hq with rfl | rfl <;> decide
  have hall : VT ([q] ++ (body ++ [q]) ++ rest) :=
    (VT.cons hq' (hb.append (VT.cons hq' VT.nil))).append hr
  have f1 : FailsB Pinned.Grammar.rule_28.shown
      (.action "onValue2" (.labeled "selector" (.ruleRef "Selector"))) []
      ([q] ++ (body ++ [q]) ++ rest) off errs (if q = 0x22 then 21 else 14) := by
    rcases hq with rfl | rfl
    · exact FailsB.action (FailsB.labeled (failsB_Selector hall rfl rfl))
    · obtain ⟨c, t, rfl, hc⟩ := hdq rfl
      have := failsB_Selector_dq (rule := Pinned.Grammar.rule_28.shown) (fr := []) (off := off)
        (errs := errs) (c := c) (t := t ++ [34]) (rest := rest)
        (by simpa using hb.append (VT.cons (b := 34) (by decide) VT.nil)) hc
        (hnq c (List.mem_cons_self ..)) hr
      exact FailsB.action (FailsB.labeled (by simpa using this))
  have f2 : FailsB Pinned.Grammar.rule_28.shown
      (.action "onValue5" (.labeled "n" (.ruleRef "NumberLiteral"))) []
      ([q] ++ (body ++ [q]) ++ rest) off errs 23 := by
    refine FailsB.action (FailsB.labeled (failsB_NumberLiteral hall ?_))
    rcases hq with rfl | rfl <;> rfl
  refine (EatsB.ref look_Value (by decide) (EatsB.choice_next f1 (EatsB.choice_next f2
    (EatsB.choice_hit (EatsB.action (EatsB.labeled (l := "s") (by decide)
      (eatsB_StringLiteral hq body val hb hnq hu hr)) ?_))))).mono ?_
  · rw [act_of_sem sem_onValue8]
    simp only [runActionSem, frame_get_head]
  · rcases hq with rfl | rfl <;> simp [valBase, slBase] <;> omega

end mat

/-! ## 5. `X == q body q`: the match expression and the expression levels
      (mirrors `Proofs/RoundTripMatch.lean` §4–7, `Proofs/RoundTripExpr.lean`) -/

section top
variable {rule : String} {fr : Frame} {rest s : GoString} {off : Nat} {errs : List PErr}

theorem eatsB_MatchEqual {w₁ w₂ : GoString} (h1 : AllIn isWs w₁) (h2 : AllIn isWs w₂)
    (hstop : headIn isWs rest = false) (hr : VT rest) :
    EatsB rule (.ruleRef "MatchEqual") fr (w₁ ++ (kEq ++ w₂)) rest off errs fr (.mop .equal)
      (w₁.length + w₂.length + 12) := by
  have hw2 : VT (w₂ ++ rest) := (h2.asc @isWs_lt).appendV hr
  have hk : VT ((kEq ++ w₂) ++ rest) := by
    rw [List.append_assoc]; exact Asc.appendV (by decide) hw2
  obtain ⟨v1, e1⟩ := eatsB_optWs (rule := Pinned.Grammar.rule_13.shown) (fr := []) (off := off)
    (errs := errs) h1 (rest := (kEq ++ w₂) ++ rest) rfl hk
  have e2 := EatsB.lit (rule := Pinned.Grammar.rule_13.shown) (fr := []) (off := off + w₁.length)
    (errs := errs) kEq rfl (by decide) (rest := w₂ ++ rest) hw2
  obtain ⟨v3, e3⟩ := eatsB_optWs (rule := Pinned.Grammar.rule_13.shown) (fr := [])
    (off := off + w₁.length + kEq.length) (errs := errs) h2 hstop hr
  have hseq := EatsSeqB.cons e1 (EatsSeqB.cons e2 (EatsSeqB.one e3))
  have hbody : EatsB Pinned.Grammar.rule_13.shown Pinned.Grammar.rule_13.expr [] (w₁ ++ (kEq ++ w₂))
      rest off errs [] (.mop .equal) (w₁.length + w₂.length + 11) := by
    rw [expr_MatchEqual]
    exact (EatsB.action (EatsB.seq hseq) (by rw [act_of_sem sem_onMatchEqual1]; rfl)).mono
      (by simp; omega)
  exact EatsB.ref look_MatchEqual (by decide) hbody

/-- the text of the match expression `X == q body q` -/
def mtext (q : UInt8) (body : GoString) : GoString :=
  [0x58] ++ (([32] ++ (kEq ++ [32])) ++ ([q] ++ (body ++ [q])))

theorem mtext_eq (q : UInt8) (body : GoString) : mtext q body = pre ++ ([q] ++ (body ++ [q])) := rfl

theorem mtext_vt (q : UInt8) (body val : GoString) (h : (ValSp.str q body val).WF) :
    VT (mtext q body) := by
  obtain ⟨hq, hb, _, _, _⟩ := h
  have hq' : q.toNat < 128 := by rcases hq with rfl | rfl <;> decide
  have : VT ([q] ++ (body ++ [q])) := VT.cons hq' (hb.append (VT.cons hq' VT.nil))
  exact Asc.appendV (s := [0x58, 32, 61, 61, 32]) (by decide) this

/-- `MatchSelectorOpValue` on `X == q body q` at the end of the input -/
theorem eatsB_MSOV (q : UInt8) (body val : GoString) (h : (ValSp.str q body val).WF) :
    EatsB rule (.ruleRef "MatchSelectorOpValue") fr (mtext q body) [] off errs fr
      (.expr (.match_ ⟨.bexpr, [[0x58]]⟩ .equal (some val))) (valBase q + 53 + 5 * body.length) := by
  have hq := h.1
  have hb := h.2.1
  have hq' : q.toNat < 128 := by rcases hq with rfl | rfl <;> decide
  have hv : VT ([q] ++ (body ++ [q])) := VT.cons hq' (hb.append (VT.cons hq' VT.nil))
  have hv0 : VT (([q] ++ (body ++ [q])) ++ []) := hv.append VT.nil
  have hov : VT ((([32] ++ (kEq ++ [32])) ++ ([q] ++ (body ++ [q]))) ++ []) :=
    (Asc.appendV (s := [32] ++ (kEq ++ [32])) (by decide) hv).append VT.nil
  have hnows : headIn isWs (([q] ++ (body ++ [q])) ++ []) = false := by
    rcases hq with rfl | rfl <;> rfl
  have e1 := EatsB.labeled (rule := Pinned.Grammar.rule_10.shown) (l := "selector") (fr := [])
    (by decide) (eatsB_Selector_ident (b := 0x58) (x := []) (off := off) (errs := errs)
      (rest := (([32] ++ (kEq ++ [32])) ++ ([q] ++ (body ++ [q]))) ++ [])
      (by decide) (by decide) rfl hov)
  have e2 := EatsB.labeled (rule := Pinned.Grammar.rule_10.shown) (l := "operator")
    (fr := [("selector", .sel ⟨.bexpr, [[0x58]]⟩)]) (by decide)
    (EatsB.choice_hit (as := [.ruleRef "MatchNotEqual", .ruleRef "MatchContains",
        .ruleRef "MatchNotContains", .ruleRef "MatchMatches", .ruleRef "MatchNotMatches"])
      (eatsB_MatchEqual (off := off + ([0x58] : GoString).length) (errs := errs)
        (w₁ := [32]) (w₂ := [32]) (rest := ([q] ++ (body ++ [q])) ++ []) (by decide) (by decide)
        hnows hv0))
  have e3 := EatsB.labeled (rule := Pinned.Grammar.rule_10.shown) (l := "value")
    (fr := [("operator", .mop .equal), ("selector", .sel ⟨.bexpr, [[0x58]]⟩)]) (by decide)
    (eatsB_Value_str (rest := [])
      (off := off + ([0x58] : GoString).length + ([32] ++ (kEq ++ [32]) : GoString).length)
      (errs := errs) q body val h VT.nil)
  have hseq := EatsSeqB.cons e1 (EatsSeqB.cons e2 (EatsSeqB.one e3))
  have hbody : EatsB Pinned.Grammar.rule_10.shown Pinned.Grammar.rule_10.expr [] (mtext q body) []
      off errs [("value", .mval val), ("operator", .mop .equal),
        ("selector", .sel ⟨.bexpr, [[0x58]]⟩)] (.expr (.match_ ⟨.bexpr, [[0x58]]⟩ .equal (some val)))
      (valBase q + 52 + 5 * body.length) := by
    have hact : E.action "onMatchSelectorOpValue1" [("value", .mval val),
        ("operator", .mop .equal), ("selector", .sel ⟨.bexpr, [[0x58]]⟩)] (mtext q body) =
        .ret (.expr (.match_ ⟨.bexpr, [[0x58]]⟩ .equal (some val))) none := by
      rw [act_of_sem sem_onMatchSelectorOpValue1]
      simp [runActionSem, Frame.get, List.find?]
    have h1 := EatsB.action (name := "onMatchSelectorOpValue1") (EatsB.seq hseq) hact
    exact h1.mono (by simp; omega)
  exact (EatsB.ref look_MatchSelectorOpValue (by decide) hbody).mono (by omega)

theorem eatsB_MatchExpression (q : UInt8) (body val : GoString) (h : (ValSp.str q body val).WF) :
    EatsB rule (.ruleRef "MatchExpression") fr (mtext q body) [] off errs fr
      (.expr (.match_ ⟨.bexpr, [[0x58]]⟩ .equal (some val))) (valBase q + 55 + 5 * body.length) :=
  (EatsB.ref look_MatchExpression (by decide) (EatsB.choice_hit
    (eatsB_MSOV q body val h))).mono (by omega)

/-- `NotExpression` on the match expression: `"not" …` fails at `X`, `"(" …` fails at `X` -/
theorem eatsB_Not (q : UInt8) (body val : GoString) (h : (ValSp.str q body val).WF) :
    EatsB rule (.ruleRef "NotExpression") fr (mtext q body) [] off errs fr
      (.expr (.match_ ⟨.bexpr, [[0x58]]⟩ .equal (some val))) (valBase q + 69 + 5 * body.length) := by
  have hall : VT (mtext q body ++ []) := (mtext_vt q body val h).append VT.nil
  have f1 : FailsB Pinned.Grammar.rule_3.shown (.action "onNotExpression2" (.seq [
      .lit [110, 111, 116] false, .ruleRef "_", .labeled "expr" (.ruleRef "NotExpression")])) []
      (mtext q body ++ []) off errs 3 :=
    FailsB.action (FailsB.seq (FailsSeqB.here (FailsB.lit kNot rfl (by decide) hall rfl)))
  have fP : FailsB Pinned.Grammar.rule_8.shown (.action "onParenthesizedExpression2" (.seq [
      .lit [40] false, .zeroOrOne (.ruleRef "_"), .labeled "expr" (.ruleRef "OrExpression"),
      .zeroOrOne (.ruleRef "_"), .lit [41] false])) [] (mtext q body ++ []) off errs 3 :=
    FailsB.action (FailsB.seq (FailsSeqB.here (FailsB.lit [40] rfl (by decide) hall rfl)))
  have eM := eatsB_MatchExpression (rule := Pinned.Grammar.rule_8.shown) (fr := []) (off := off)
    (errs := errs) q body val h
  have eP : EatsB Pinned.Grammar.rule_3.shown (.ruleRef "ParenthesizedExpression") []
      (mtext q body) [] off errs [] (.expr (.match_ ⟨.bexpr, [[0x58]]⟩ .equal (some val)))
      (valBase q + 62 + 5 * body.length) :=
    (EatsB.ref look_ParenthesizedExpression (by decide) (EatsB.choice_next fP (EatsB.choice_hit
      (EatsB.action (EatsB.labeled (l := "expr") (by decide) eM)
        (act_retLabel sem_onParenthesizedExpression12 ..))))).mono (by omega)
  exact (EatsB.ref look_NotExpression (by decide) (EatsB.choice_next f1 (EatsB.choice_hit
    (EatsB.action (EatsB.labeled (l := "expr") (by decide) eP)
      (act_retLabel sem_onNotExpression8 ..))))).mono (by omega)

/-- the shared shape of `AndExpression` / `OrExpression` at the end of the input:
    the first alternative parses the operand, fails at `_`; the second parses it again -/
theorem upB {lo hi : String} {r : Rule} {kw : GoString} {act2 act11 : String}
    {more : List PExpr}
    (hl : lookupRule G hi = some r) (hn : hi ≠ "")
    (he : r.expr = .choice (.action act2 (.seq [.labeled "left" (.ruleRef lo), .ruleRef "_",
        .lit (runesOf kw) false, .ruleRef "_", .labeled "right" (.ruleRef hi)]) ::
      .action act11 (.labeled "expr" (.ruleRef lo)) :: more))
    (hact : lookupSem pinSem act11 = .retLabel "expr")
    {x : GoString} {v : PVal} {B : Nat}
    (ih : ∀ (rule : String) (fr : Frame) (off : Nat) (errs : List PErr),
      EatsB rule (.ruleRef lo) fr x [] off errs fr v B)
    (rule : String) (fr : Frame) (off : Nat) (errs : List PErr) :
    EatsB rule (.ruleRef hi) fr x [] off errs fr v (2 * B + 10) := by
  have hf : FailsSeqB r.shown [.ruleRef "_", .lit (runesOf kw) false, .ruleRef "_",
      .labeled "right" (.ruleRef hi)] [("left", v)] [] (off + x.length) errs 3 :=
    FailsSeqB.here (failsB_ws VT.nil rfl)
  have f1 : FailsB r.shown (.action act2 (.seq [.labeled "left" (.ruleRef lo), .ruleRef "_",
      .lit (runesOf kw) false, .ruleRef "_", .labeled "right" (.ruleRef hi)])) [] (x ++ []) off
      errs (B + 6) :=
    (FailsB.action (FailsB.seq (FailsSeqB.later (EatsB.labeled (l := "left") (by decide)
      (ih r.shown [] off errs)) hf))).mono (by omega)
  have hbody : EatsB r.shown r.expr [] x [] off errs [] v (2 * B + 9) := by
    rw [he]
    exact (EatsB.choice_next f1 (EatsB.choice_hit (EatsB.action
      (EatsB.labeled (l := "expr") (by decide) (ih r.shown [] off errs))
      (act_retLabel hact ..)))).mono (by omega)
  exact EatsB.ref hl hn hbody

theorem eatsB_And (q : UInt8) (body val : GoString) (h : (ValSp.str q body val).WF)
    (rule : String) (fr : Frame) (off : Nat) (errs : List PErr) :
    EatsB rule (.ruleRef "AndExpression") fr (mtext q body) [] off errs fr
      (.expr (.match_ ⟨.bexpr, [[0x58]]⟩ .equal (some val)))
      (2 * (valBase q + 69 + 5 * body.length) + 10) :=
  upB look_AndExpression (by decide) expr_AndExpression sem_onAndExpression11
    (fun rule fr off errs => eatsB_Not q body val h) rule fr off errs

theorem eatsB_Or (q : UInt8) (body val : GoString) (h : (ValSp.str q body val).WF)
    (rule : String) (fr : Frame) (off : Nat) (errs : List PErr) :
    EatsB rule (.ruleRef "OrExpression") fr (mtext q body) [] off errs fr
      (.expr (.match_ ⟨.bexpr, [[0x58]]⟩ .equal (some val)))
      (2 * (2 * (valBase q + 69 + 5 * body.length) + 10) + 10) :=
  upB look_OrExpression (by decide) expr_OrExpression sem_onOrExpression11
    (eatsB_And q body val h) rule fr off errs

/-- the start rule: the first alternative (`_? "(" …`) fails at `X`, the second matches -/
theorem eatsB_Input (q : UInt8) (body val : GoString) (h : (ValSp.str q body val).WF)
    (rule : String) (off : Nat) (errs : List PErr) :
    ∃ fr', EatsB rule Pinned.Grammar.rule_0.expr [] (mtext q body) [] off errs fr'
      (.expr (.match_ ⟨.bexpr, [[0x58]]⟩ .equal (some val)))
      (4 * valBase q + 328 + 20 * body.length) := by
  rw [expr_Input]
  have hall : VT (mtext q body ++ []) := (mtext_vt q body val h).append VT.nil
  obtain ⟨v1, e1a⟩ := eatsB_optWs (rule := rule) (fr := []) (off := off) (errs := errs)
    (ws := []) AllIn.nil (rest := mtext q body ++ []) rfl hall
  obtain ⟨v1', e1b⟩ := eatsB_optWs (rule := rule) (fr := []) (off := off) (errs := errs)
    (ws := []) AllIn.nil (rest := (mtext q body ++ []) ++ []) rfl (hall.append VT.nil)
  have f1 : FailsB rule inputAlt1 [] (mtext q body ++ []) off errs 7 :=
    FailsB.action (FailsB.seq (FailsSeqB.later (a := []) e1a
      (FailsSeqB.here (FailsB.lit [40] rfl (by decide) hall rfl))))
  have e2 := EatsB.labeled (rule := rule) (l := "expr") (fr := []) (by decide)
    (eatsB_Or q body val h rule [] (off + ([] : GoString).length) errs)
  obtain ⟨v3, e3⟩ := eatsB_optWs (rule := rule)
    (fr := [("expr", .expr (.match_ ⟨.bexpr, [[0x58]]⟩ .equal (some val)))])
    (off := off + ([] : GoString).length + (mtext q body).length) (errs := errs)
    (ws := []) AllIn.nil (rest := []) rfl VT.nil
  have hseq := EatsSeqB.cons (a := []) (b := mtext q body ++ []) e1b
    (EatsSeqB.cons (b := []) e2 (EatsSeqB.two0 e3 eatsB_EOF))
  have hseq' := hseq.cast (x' := mtext q body) (by simp)
  exact ⟨_, (EatsB.choice_next f1 (EatsB.choice_hit (EatsB.action (EatsB.seq hseq')
    (act_retLabel sem_onInput17 ..)))).mono (by simp; omega)⟩

/-- **The step count.**  The text `X == q body q` (`q` a double quote or a backquote, `body`
    any well-formed literal body) has an accepting derivation of at most
    `4 · valBase q + 328 + 20 · |body|` nodes: 576 resp. 540, plus 20 per byte of the body. -/
theorem acceptsIn_bound (q : UInt8) (body val : GoString) (h : (ValSp.str q body val).WF) :
    ∃ N, N ≤ 4 * valBase q + 328 + 20 * body.length ∧
      AcceptsIn E G (pre ++ ([q] ++ (body ++ [q])))
        (.expr (.match_ ⟨.bexpr, [[0x58]]⟩ .equal (some val))) N := by
  obtain ⟨fr', N, hN, hd⟩ := eatsB_Input q body val h Pinned.Grammar.rule_0.shown 0 []
  refine ⟨N, hN, Pinned.Grammar.rule_0, ptAt [] (0 + (mtext q body).length), fr', rfl, ?_⟩
  rw [← mtext_eq, start_next, logRead_vt _ _ _ (mtext_vt q body val h)]
  rw [List.append_nil] at hd
  exact hd

end top

/-! ## 6. The length of the renderer's literal, and the bound in terms of the string -/

section len
open Bexpr.Strconv Bexpr.Utf8

theorem encodeRune_length_le (r : Nat) : (encodeRune r).length ≤ 4 := by
  unfold encodeRune
  split
  · simp
  · split
    · simp
    · split
      · simp
      · split <;> simp

theorem escapedRuneX22_length_le (r : Nat) : (escapedRuneX22 r).length ≤ 10 := by
  unfold escapedRuneX22
  split
  · simp [escX]
  · rcases escapedRune_shape r with ⟨_, he⟩ | he | ⟨e, _, he⟩ | ⟨v, he⟩ | ⟨v, he⟩ | ⟨v, he⟩
    · rw [he]; simp
    · rw [he]; have := encodeRune_length_le r; omega
    · rw [he]; simp
    · rw [he]; simp [escX]
    · rw [he]; simp [escU4]
    · rw [he]; simp [escU8]

/-- every byte of `s` is written with at most 10 bytes -/
theorem quoteBodyWith_length_le (n : Nat) (s : GoString) :
    (quoteBodyWith escapedRuneX22 n s).length ≤ 10 * s.length := by
  induction n generalizing s with
  | zero => cases s <;> simp [quoteBodyWith]
  | succ n ih =>
    cases s with
    | nil => simp [quoteBodyWith]
    | cons b t =>
      simp only [quoteBodyWith]
      split
      · have := ih t
        simp [escX]
        omega
      · rename_i hcond
        rcases decodeRune_cases b t with herr | ⟨r, w, hd, _, hw1, _, _, _⟩
        · rw [herr] at hcond
          simp [Utf8.runeError] at hcond
        · rw [hd]
          simp only
          have h1 := escapedRuneX22_length_le r
          have h2 := ih ((b :: t).drop w)
          have h3 : ((b :: t).drop w).length ≤ t.length := by
            simp only [List.length_drop, List.length_cons]; omega
          simp only [List.length_append, List.length_cons]
          have h4 : 10 * ((b :: t).drop w).length ≤ 10 * t.length := Nat.mul_le_mul_left 10 h3
          omega

/-- **Step count of `X == <quoteX22 s>`**: at most `576 + 200 · |s|` parser steps. -/
theorem acceptsIn_bound_quoteX22 (s body : GoString)
    (hq : quoteX22 s = [0x22] ++ (body ++ [0x22])) (h2 : ∃ c t, body = c :: t ∧ c ≠ 47) :
    ∃ N, N ≤ 576 + 200 * s.length ∧
      AcceptsIn E G (pre ++ quoteX22 s)
        (.expr (.match_ ⟨.bexpr, [[0x58]]⟩ .equal (some s))) N := by
  obtain ⟨N, hN, h⟩ := acceptsIn_bound 0x22 body s (Props.C16.value_quoteX22_WF s body hq h2)
  have hb : body = quoteBodyWith escapedRuneX22 s.length s := by
    have : quoteX22 s = [0x22] ++ (quoteBodyWith escapedRuneX22 s.length s ++ [0x22]) := rfl
    rw [this] at hq
    exact (List.append_cancel_right (List.append_cancel_left hq)).symm
  have hl := quoteBodyWith_length_le s.length s
  rw [← hb] at hl
  refine ⟨N, ?_, by rw [hq]; exact h⟩
  have : valBase 0x22 = 62 := rfl
  omega

/-- **Step count of ``X == `s` ``**: at most `540 + 20 · |s|` parser steps. -/
theorem acceptsIn_bound_backtick (s : GoString) (hs : Utf8.validString s = true)
    (hnq : ∀ c ∈ s, c ≠ 0x60 ∧ c ≠ 0x0D) :
    ∃ N, N ≤ 540 + 20 * s.length ∧
      AcceptsIn E G (pre ++ ([0x60] ++ (s ++ [0x60])))
        (.expr (.match_ ⟨.bexpr, [[0x58]]⟩ .equal (some s))) N := by
  obtain ⟨N, hN, h⟩ := acceptsIn_bound 0x60 s s (Props.C16.value_backtick_WF s hs hnq)
  refine ⟨N, ?_, h⟩
  have : valBase 0x60 = 53 := rfl
  omega

end len

end Bexpr.Proofs.C16Steps
