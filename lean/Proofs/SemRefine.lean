/-
  The engine (`Bexpr.Peg.eval`) refines the declarative semantics (`Bexpr.Peg.Sem`):
  soundness (every engine result is a derivation), completeness (every derivation is found by
  the engine, in a definite number of steps, whenever budget and fuel allow), determinism.
-/
import Bexpr.Peg.Engine
import Bexpr.Peg.Sem
import Proofs.Budget

namespace Bexpr.Proofs.SemRefine
open Bexpr Bexpr.Peg Bexpr.Proofs.Budget

/-! ## `read` in terms of `Pt.next` / `logRead` -/

theorem read_eq (st : PState) (rule : String) :
    st.read rule = { pt := st.pt.next, cnt := st.cnt, errs := logRead rule st.pt.next st.errs } := by
  simp only [PState.read, Pt.next, logRead]
  split <;> simp_all

theorem read_pt (st : PState) (rule : String) : (st.read rule).pt = st.pt.next := by
  rw [read_eq]

theorem read_errs (st : PState) (rule : String) :
    (st.read rule).errs = logRead rule st.pt.next st.errs := by
  rw [read_eq]

theorem addErr_eq (st : PState) (off : Nat) (rule msg : String) :
    (st.addErr off rule (.action msg)).errs = logAct off rule (some msg) st.errs := rfl

/-! ## Soundness -/

section Sound
variable (env : Env) (g : Grammar)

/-- What a result of `eval … rule e fr st` must satisfy. -/
def Snd (rule : String) (e : PExpr) (fr : Frame) (st : PState) : PRes → Prop
  | .ok st' fr' v m => Sem env g rule e fr st.pt st.errs (.res st'.pt st'.errs fr' v m)
  | .abort _ msg => Sem env g rule e fr st.pt st.errs (.abort msg)
  | _ => True

def SndSeq (rule : String) (es : List PExpr) (fr : Frame) (st : PState) (acc : List PVal) :
    PRes → Prop
  | .ok st' fr' v true => ∃ vs, v = .list (acc.reverse ++ vs) ∧
      SemSeq env g rule es fr st.pt st.errs (.ok st'.pt st'.errs fr' vs)
  | .ok st' fr' v false => v = .nil ∧ SemSeq env g rule es fr st.pt st.errs (.fail st'.pt st'.errs fr')
  | .abort _ msg => SemSeq env g rule es fr st.pt st.errs (.abort msg)
  | _ => True

def SndChoice (rule : String) (as : List PExpr) (fr : Frame) (st : PState) : PRes → Prop
  | .ok st' fr' v m => SemChoice env g rule as fr st.pt st.errs (.res st'.pt st'.errs fr' v m)
  | .abort _ msg => SemChoice env g rule as fr st.pt st.errs (.abort msg)
  | _ => True

def SndStar (rule : String) (e : PExpr) (fr : Frame) (st : PState) (acc : List PVal) :
    PRes → Prop
  | .ok st' fr' v m => m = true ∧ fr' = fr ∧ ∃ vs, v = .list (acc.reverse ++ vs) ∧
      SemStar env g rule e st.pt st.errs (.done st'.pt st'.errs vs)
  | .abort _ msg => SemStar env g rule e st.pt st.errs (.abort msg)
  | _ => True

theorem litLoop_sound (rule : String) : ∀ ws st,
    SemLit rule ws st.pt st.errs (litLoop rule ws st).1.pt (litLoop rule ws st).1.errs
      (litLoop rule ws st).2 := by
  intro ws
  induction ws with
  | nil => intro st; exact .nil
  | cons w ws ih =>
    intro st
    simp only [litLoop]
    split
    · rename_i h
      exact .mismatch (by simpa using h)
    · rename_i h
      have := ih (st.read rule)
      rw [read_pt, read_errs] at this
      exact .step (by simpa using h) this

theorem seqLoop_sound (rule : String) (f : PExpr → Frame → PState → PRes)
    (hf : ∀ e fr st, Snd env g rule e fr st (f e fr st)) :
    ∀ es fr st acc, SndSeq env g rule es fr st acc (seqLoop f es fr st acc) := by
  intro es
  induction es with
  | nil => intro fr st acc; exact ⟨[], by simp, .nil⟩
  | cons e es ih =>
    intro fr st acc
    have h1 := hf e fr st
    simp only [seqLoop]
    cases h : f e fr st with
    | ok st' fr' v m =>
      rw [h] at h1
      cases m
      · exact ⟨rfl, .fail h1⟩
      · have h2 := ih fr' st' (v :: acc)
        simp only
        cases h' : seqLoop f es fr' st' (v :: acc) with
        | ok st'' fr'' v' m' =>
          rw [h'] at h2
          cases m'
          · exact ⟨h2.1, SemSeq.cons h1 h2.2⟩
          · obtain ⟨vs, hv, hs⟩ := h2
            exact ⟨v :: vs, by simp [hv], SemSeq.cons h1 hs⟩
        | abort s msg => rw [h'] at h2; exact SemSeq.cons h1 h2
        | exceeded s => trivial
        | fuelOut => trivial
    | abort s msg => rw [h] at h1; exact .abort h1
    | exceeded s => trivial
    | fuelOut => trivial

theorem choiceLoop_sound (rule : String) (f : PExpr → Frame → PState → PRes)
    (hf : ∀ e fr st, Snd env g rule e fr st (f e fr st)) :
    ∀ as fr st, SndChoice env g rule as fr st (choiceLoop f as fr st) := by
  intro as
  induction as with
  | nil => intro fr st; exact .exhausted
  | cons a as ih =>
    intro fr st
    have h1 := hf a [] st
    simp only [choiceLoop]
    cases h : f a [] st with
    | ok st' fr' v m =>
      rw [h] at h1
      cases m
      · have h2 := ih fr st'
        simp only
        cases h' : choiceLoop f as fr st' with
        | ok st'' fr'' v' m' => rw [h'] at h2; exact .next h1 h2
        | abort s msg => rw [h'] at h2; exact .next h1 h2
        | exceeded s => trivial
        | fuelOut => trivial
      · exact .hit h1
    | abort s msg => rw [h] at h1; exact .abortAlt h1
    | exceeded s => trivial
    | fuelOut => trivial

theorem starLoop_sound (rule : String) (e : PExpr) (f : Frame → PState → PRes)
    (hf : ∀ st, Snd env g rule e [] st (f [] st)) :
    ∀ k fr st acc, SndStar env g rule e fr st acc (starLoop f k fr st acc) := by
  intro k
  induction k with
  | zero => intro fr st acc; trivial
  | succ k ih =>
    intro fr st acc
    have h1 := hf st
    simp only [starLoop]
    cases h : f [] st with
    | ok st' fr' v m =>
      rw [h] at h1
      cases m
      · exact ⟨rfl, rfl, [], by simp, .stop h1⟩
      · have h2 := ih fr st' (v :: acc)
        simp only
        cases h' : starLoop f k fr st' (v :: acc) with
        | ok st'' fr'' v' m' =>
          rw [h'] at h2
          obtain ⟨hm, hfr, vs, hv, hs⟩ := h2
          exact ⟨hm, hfr, v :: vs, by simp [hv], SemStar.more h1 hs⟩
        | abort s msg => rw [h'] at h2; exact SemStar.more h1 h2
        | exceeded s => trivial
        | fuelOut => trivial
    | abort s msg => rw [h] at h1; exact .abortIter h1
    | exceeded s => trivial
    | fuelOut => trivial

theorem body_sound (ev : String → PExpr → Frame → PState → PRes)
    (hev : ∀ rule e fr st, Snd env g rule e fr st (ev rule e fr st))
    (k : Nat) (rule : String) (e : PExpr) (fr : Frame) (st : PState) :
    Snd env g rule e fr st (body env g ev k rule e fr st) := by
  cases e <;> simp only [body]
  case action name inner =>
    have h1 := hev rule inner fr st
    cases h : ev rule inner fr st with
    | ok st' fr' v m =>
      rw [h] at h1
      cases m
      · exact Sem.action_fail h1
      · simp only
        cases h2 : env.action name fr' (sliceFrom st.pt st'.pt) with
        | ret av err =>
          cases err with
          | none => exact Sem.action_ret h1 h2
          | some msg => exact Sem.action_ret h1 h2
        | panic msg => exact Sem.action_panic h1 h2
    | abort s msg => rw [h] at h1; exact Sem.action_abort h1
    | exceeded s => trivial
    | fuelOut => trivial
  case andCode name =>
    cases h : env.pred name fr with
    | ret b err =>
      cases err with
      | none => exact Sem.andCode_ret h
      | some msg => exact Sem.andCode_ret h
    | panic msg => exact Sem.andCode_panic h
  case notCode name =>
    cases h : env.pred name fr with
    | ret b err =>
      cases err with
      | none => exact Sem.notCode_ret h
      | some msg => exact Sem.notCode_ret h
    | panic msg => exact Sem.notCode_panic h
  case andP inner =>
    have h1 := hev rule inner [] st
    cases h : ev rule inner [] st with
    | ok st' fr' v m => rw [h] at h1; exact Sem.andP_res h1
    | abort s msg => rw [h] at h1; exact Sem.andP_abort h1
    | exceeded s => trivial
    | fuelOut => trivial
  case notP inner =>
    have h1 := hev rule inner [] st
    cases h : ev rule inner [] st with
    | ok st' fr' v m => rw [h] at h1; exact Sem.notP_res h1
    | abort s msg => rw [h] at h1; exact Sem.notP_abort h1
    | exceeded s => trivial
    | fuelOut => trivial
  case any =>
    cases h : atEOF st.pt
    · simp only [Bool.false_eq_true, if_false, Snd, read_pt, read_errs]
      exact Sem.any_ok h
    · simp only [if_true]
      exact Sem.any_eof h
  case charClass chars ranges classes ic inv =>
    cases ic
    · simp only [Bool.false_eq_true, if_false]
      cases h : atEOF st.pt
      · simp only [Bool.false_eq_true, if_false]
        cases hc : classMatches env chars ranges classes st.pt.rn with
        | none => exact Sem.class_unknown h hc
        | some hit =>
          simp only
          by_cases hh : hit = inv
          · simp only [hh, bne_self_eq_false, Bool.false_eq_true, if_false]
            exact Sem.class_fail h hc hh
          · have : (hit != inv) = true := by simpa using hh
            simp only [this, if_true, Snd, read_pt, read_errs]
            exact Sem.class_ok h hc hh
      · simp only [if_true]
        exact Sem.class_eof h
    · exact Sem.class_ignoreCase
  case choice alts =>
    have h1 := choiceLoop_sound env g rule _ (hev rule) alts fr st
    cases h : choiceLoop (ev rule) alts fr st with
    | ok st' fr' v m => rw [h] at h1; exact Sem.choice h1
    | abort s msg => rw [h] at h1; exact Sem.choice h1
    | exceeded s => trivial
    | fuelOut => trivial
  case labeled label inner =>
    have h1 := hev rule inner [] st
    cases h : ev rule inner [] st with
    | ok st' fr' v m =>
      rw [h] at h1
      cases m
      · exact Sem.labeled_fail h1
      · exact Sem.labeled_ok h1
    | abort s msg => rw [h] at h1; exact Sem.labeled_abort h1
    | exceeded s => trivial
    | fuelOut => trivial
  case lit val ic =>
    cases ic
    · simp only [Bool.false_eq_true, if_false]
      have hl := litLoop_sound rule val st
      cases h : litLoop rule val st with
      | mk st' b =>
        rw [h] at hl
        cases b
        · exact Sem.lit_fail hl
        · exact Sem.lit_ok hl
    · exact Sem.lit_ignoreCase
  case oneOrMore inner =>
    have h1 := hev rule inner [] st
    cases h : ev rule inner [] st with
    | ok st' fr' v m =>
      rw [h] at h1
      cases m
      · exact Sem.plus_none h1
      · simp only
        have h2 := starLoop_sound env g rule inner _ (fun st => hev rule inner [] st) k fr st' [v]
        cases h' : starLoop (ev rule inner) k fr st' [v] with
        | ok st'' fr'' v' m' =>
          rw [h'] at h2
          obtain ⟨rfl, rfl, vs, hv, hs⟩ := h2
          simp only [List.reverse_cons, List.reverse_nil, List.nil_append, List.singleton_append]
            at hv
          subst hv
          exact Sem.plus_done h1 hs
        | abort s msg => rw [h'] at h2; exact Sem.plus_abort h1 h2
        | exceeded s => trivial
        | fuelOut => trivial
    | abort s msg => rw [h] at h1; exact Sem.plus_abort_first h1
    | exceeded s => trivial
    | fuelOut => trivial
  case ruleRef name =>
    by_cases hn : name = ""
    · subst hn; exact Sem.ruleRef_noName
    · have : (name == "") = false := by simpa using hn
      simp only [this, Bool.false_eq_true, if_false]
      cases hl : lookupRule g name with
      | none => exact Sem.ruleRef_undefined hn hl
      | some r =>
        simp only
        have h1 := hev r.shown r.expr [] st
        cases h : ev r.shown r.expr [] st with
        | ok st' fr' v m => rw [h] at h1; exact Sem.ruleRef_res hn hl h1
        | abort s msg => rw [h] at h1; exact Sem.ruleRef_abort hn hl h1
        | exceeded s => trivial
        | fuelOut => trivial
  case seq es =>
    have h1 := seqLoop_sound env g rule _ (hev rule) es fr st []
    cases h : seqLoop (ev rule) es fr st [] with
    | ok st' fr' v m =>
      rw [h] at h1
      cases m
      · exact Sem.seq_fail h1.2
      · obtain ⟨vs, hv, hs⟩ := h1
        simp only [List.reverse_nil, List.nil_append] at hv
        subst hv
        exact Sem.seq_ok hs
    | abort s msg => rw [h] at h1; exact Sem.seq_abort h1
    | exceeded s => trivial
    | fuelOut => trivial
  case zeroOrMore inner =>
    have h1 := starLoop_sound env g rule inner _ (fun st => hev rule inner [] st) k fr st []
    cases h : starLoop (ev rule inner) k fr st [] with
    | ok st' fr' v m =>
      rw [h] at h1
      obtain ⟨rfl, rfl, vs, hv, hs⟩ := h1
      simp only [List.reverse_nil, List.nil_append] at hv
      subst hv
      exact Sem.star_done hs
    | abort s msg => rw [h] at h1; exact Sem.star_abort h1
    | exceeded s => trivial
    | fuelOut => trivial
  case zeroOrOne inner =>
    have h1 := hev rule inner [] st
    cases h : ev rule inner [] st with
    | ok st' fr' v m =>
      rw [h] at h1
      cases m
      · exact Sem.opt_none h1
      · exact Sem.opt_some h1
    | abort s msg => rw [h] at h1; exact Sem.opt_abort h1
    | exceeded s => trivial
    | fuelOut => trivial
  case unsupported what => exact Sem.unsupported

theorem eval_snd (max : Nat) : ∀ fuel rule e fr st,
    Snd env g rule e fr st (eval env g max fuel rule e fr st) := by
  intro fuel
  induction fuel with
  | zero => intro rule e fr st; rw [eval_zero]; trivial
  | succ fuel ih =>
    intro rule e fr st
    rw [eval_succ]
    split
    · trivial
    · exact body_sound env g _ ih fuel rule e fr { st with cnt := st.cnt + 1 }

end Sound

/-! ## Completeness

  `Cmp … o`: there is a step count `N ≥ 1` such that from every counter `cnt` with
  `cnt + N ≤ max` and with `N ≤ fuel`, `eval` returns exactly the outcome `o` and the counter
  `cnt + N`.  One lemma per rule of `Sem`; the final induction just picks the lemma. -/

section Complete
variable (env : Env) (g : Grammar)

/-- The engine result that corresponds to outcome `o` with final counter `c`. -/
def CmpRes (o : SemOut) (c : Nat) (r : PRes) : Prop :=
  match o with
  | .res pt' errs' fr' v m => r = .ok { pt := pt', cnt := c, errs := errs' } fr' v m
  | .abort msg => ∃ pt' errs', r = .abort { pt := pt', cnt := c, errs := errs' } msg

def CmpSeqRes (o : SeqOut) (c : Nat) (acc : List PVal) (r : PRes) : Prop :=
  match o with
  | .ok pt' errs' fr' vs =>
    r = .ok { pt := pt', cnt := c, errs := errs' } fr' (.list (acc.reverse ++ vs)) true
  | .fail pt' errs' fr' => r = .ok { pt := pt', cnt := c, errs := errs' } fr' .nil false
  | .abort msg => ∃ pt' errs', r = .abort { pt := pt', cnt := c, errs := errs' } msg

def CmpStarRes (o : StarOut) (c : Nat) (fr : Frame) (acc : List PVal) (r : PRes) : Prop :=
  match o with
  | .done pt' errs' vs =>
    r = .ok { pt := pt', cnt := c, errs := errs' } fr (.list (acc.reverse ++ vs)) true
  | .abort msg => ∃ pt' errs', r = .abort { pt := pt', cnt := c, errs := errs' } msg

/-- `eval` finds outcome `o` in exactly `N` steps. -/
def CmpN (rule : String) (e : PExpr) (fr : Frame) (pt : Pt) (errs : List PErr) (o : SemOut)
    (N : Nat) : Prop :=
  1 ≤ N ∧ ∀ max fuel cnt, cnt + N ≤ max → N ≤ fuel →
    CmpRes o (cnt + N) (eval env g max fuel rule e fr { pt := pt, cnt := cnt, errs := errs })

def CmpSeqN (rule : String) (es : List PExpr) (fr : Frame) (pt : Pt) (errs : List PErr)
    (o : SeqOut) (N : Nat) : Prop :=
  ∀ max fuel cnt acc, cnt + N ≤ max → N ≤ fuel →
    CmpSeqRes o (cnt + N) acc
      (seqLoop (eval env g max fuel rule) es fr { pt := pt, cnt := cnt, errs := errs } acc)

def CmpChoiceN (rule : String) (as : List PExpr) (fr : Frame) (pt : Pt) (errs : List PErr)
    (o : SemOut) (N : Nat) : Prop :=
  ∀ max fuel cnt, cnt + N ≤ max → N ≤ fuel →
    CmpRes o (cnt + N)
      (choiceLoop (eval env g max fuel rule) as fr { pt := pt, cnt := cnt, errs := errs })

def CmpStarN (rule : String) (e : PExpr) (pt : Pt) (errs : List PErr) (o : StarOut)
    (N : Nat) : Prop :=
  1 ≤ N ∧ ∀ max fuel k cnt fr acc, cnt + N ≤ max → N ≤ fuel → N ≤ k →
    CmpStarRes o (cnt + N) fr acc
      (starLoop (eval env g max fuel rule e) k fr { pt := pt, cnt := cnt, errs := errs } acc)

theorem eval_step {max fuel cnt : Nat} (h : cnt + 1 ≤ max) (rule : String) (e : PExpr)
    (fr : Frame) (pt : Pt) (errs : List PErr) :
    eval env g max (fuel + 1) rule e fr { pt := pt, cnt := cnt, errs := errs } =
      body env g (eval env g max fuel) fuel rule e fr { pt := pt, cnt := cnt + 1, errs := errs } := by
  rw [eval_succ, if_neg (by simp only; omega)]

/-- A node that makes no recursive call. -/
theorem CmpN.leaf {rule e fr pt errs o}
    (h : ∀ ev k c, CmpRes o c (body env g ev k rule e fr { pt := pt, cnt := c, errs := errs })) :
    CmpN env g rule e fr pt errs o 1 := by
  refine ⟨Nat.le_refl _, fun max fuel cnt hm hf => ?_⟩
  obtain ⟨fuel, rfl⟩ : ∃ f, fuel = f + 1 := ⟨fuel - 1, by omega⟩
  rw [eval_step env g (by omega)]
  exact h _ _ _

/-- A node that makes exactly one recursive call (on `e₁` in rule `rule₁` with frame `fr₁`,
    from the same position and log) and post-processes its result. -/
theorem CmpN.wrap {rule e fr pt errs o rule₁ e₁ fr₁ o₁ N₁}
    (h1 : CmpN env g rule₁ e₁ fr₁ pt errs o₁ N₁)
    (hb : ∀ ev k c c', CmpRes o₁ c' (ev rule₁ e₁ fr₁ { pt := pt, cnt := c, errs := errs }) →
      CmpRes o c' (body env g ev k rule e fr { pt := pt, cnt := c, errs := errs })) :
    CmpN env g rule e fr pt errs o (N₁ + 1) := by
  refine ⟨by omega, fun max fuel cnt hm hf => ?_⟩
  obtain ⟨fuel, rfl⟩ : ∃ f, fuel = f + 1 := ⟨fuel - 1, by omega⟩
  rw [eval_step env g (by omega)]
  have h := h1.2 max fuel (cnt + 1) (by omega) (by omega)
  have e : cnt + (N₁ + 1) = cnt + 1 + N₁ := by omega
  rw [e]
  exact hb _ _ _ _ h

end Complete

theorem litLoop_complete {rule ws pt errs pt' errs' b} (h : SemLit rule ws pt errs pt' errs' b) :
    ∀ cnt, litLoop rule ws { pt := pt, cnt := cnt, errs := errs } =
      ({ pt := pt', cnt := cnt, errs := errs' }, b) := by
  induction h with
  | nil => intro cnt; rfl
  | mismatch h => intro cnt; simp [litLoop, h]
  | step h _ ih => intro cnt; simp [litLoop, h, read_eq, ih cnt]

section Rules
variable {env : Env} {g : Grammar} {rule : String} {fr : Frame} {pt : Pt} {errs : List PErr}

/-! ### leaves -/

theorem cmp_any_eof (h : atEOF pt = true) :
    CmpN env g rule .any fr pt errs (.res pt errs fr .nil false) 1 :=
  CmpN.leaf env g fun ev k c => by simp [CmpRes, body, h]

theorem cmp_any_ok (h : atEOF pt = false) :
    CmpN env g rule .any fr pt errs
      (.res pt.next (logRead rule pt.next errs) fr (.bytes (sliceFrom pt pt.next)) true) 1 :=
  CmpN.leaf env g fun ev k c => by simp [CmpRes, body, h, read_eq]

theorem cmp_lit_ok {val pt' errs'} (h : SemLit rule val pt errs pt' errs' true) :
    CmpN env g rule (.lit val false) fr pt errs
      (.res pt' errs' fr (.bytes (sliceFrom pt pt')) true) 1 :=
  CmpN.leaf env g fun ev k c => by simp [CmpRes, body, litLoop_complete h]

theorem cmp_lit_fail {val pt' errs'} (h : SemLit rule val pt errs pt' errs' false) :
    CmpN env g rule (.lit val false) fr pt errs (.res pt errs' fr .nil false) 1 :=
  CmpN.leaf env g fun ev k c => by simp [CmpRes, body, litLoop_complete h]

theorem cmp_lit_ignoreCase {val} :
    CmpN env g rule (.lit val true) fr pt errs (.abort "unsupported: ignoreCase literal") 1 :=
  CmpN.leaf env g fun ev k c => by simp [CmpRes, body]

theorem cmp_class_ignoreCase {chars ranges classes inverted} :
    CmpN env g rule (.charClass chars ranges classes true inverted) fr pt errs
      (.abort "unsupported: ignoreCase class") 1 :=
  CmpN.leaf env g fun ev k c => by simp [CmpRes, body]

theorem cmp_class_eof {chars ranges classes inverted} (h : atEOF pt = true) :
    CmpN env g rule (.charClass chars ranges classes false inverted) fr pt errs
      (.res pt errs fr .nil false) 1 :=
  CmpN.leaf env g fun ev k c => by simp [CmpRes, body, h]

theorem cmp_class_unknown {chars ranges classes inverted} (h : atEOF pt = false)
    (hc : classMatches env chars ranges classes pt.rn = none) :
    CmpN env g rule (.charClass chars ranges classes false inverted) fr pt errs
      (.abort "unsupported: unicode class") 1 :=
  CmpN.leaf env g fun ev k c => by simp [CmpRes, body, h, hc]

theorem cmp_class_ok {chars ranges classes inverted hit} (h : atEOF pt = false)
    (hc : classMatches env chars ranges classes pt.rn = some hit) (hh : hit ≠ inverted) :
    CmpN env g rule (.charClass chars ranges classes false inverted) fr pt errs
      (.res pt.next (logRead rule pt.next errs) fr (.bytes (sliceFrom pt pt.next)) true) 1 :=
  CmpN.leaf env g fun ev k c => by simp [CmpRes, body, h, hc, hh, read_eq]

theorem cmp_class_fail {chars ranges classes inverted hit} (h : atEOF pt = false)
    (hc : classMatches env chars ranges classes pt.rn = some hit) (hh : hit = inverted) :
    CmpN env g rule (.charClass chars ranges classes false inverted) fr pt errs
      (.res pt errs fr .nil false) 1 :=
  CmpN.leaf env g fun ev k c => by simp [CmpRes, body, h, hc, hh]

theorem cmp_andCode_ret {name b err} (h : env.pred name fr = .ret b err) :
    CmpN env g rule (.andCode name) fr pt errs
      (.res pt (logAct pt.off rule err errs) fr .nil b) 1 :=
  CmpN.leaf env g fun ev k c => by cases err <;> simp [CmpRes, body, h, logAct, PState.addErr]

theorem cmp_andCode_panic {name msg} (h : env.pred name fr = .panic msg) :
    CmpN env g rule (.andCode name) fr pt errs (.abort msg) 1 :=
  CmpN.leaf env g fun ev k c => by simp [CmpRes, body, h]

theorem cmp_notCode_ret {name b err} (h : env.pred name fr = .ret b err) :
    CmpN env g rule (.notCode name) fr pt errs
      (.res pt (logAct pt.off rule err errs) fr .nil (!b)) 1 :=
  CmpN.leaf env g fun ev k c => by cases err <;> simp [CmpRes, body, h, logAct, PState.addErr]

theorem cmp_notCode_panic {name msg} (h : env.pred name fr = .panic msg) :
    CmpN env g rule (.notCode name) fr pt errs (.abort msg) 1 :=
  CmpN.leaf env g fun ev k c => by simp [CmpRes, body, h]

theorem cmp_ruleRef_noName :
    CmpN env g rule (.ruleRef "") fr pt errs (.abort "invalid rule: missing name") 1 :=
  CmpN.leaf env g fun ev k c => by simp [CmpRes, body]

theorem cmp_ruleRef_undefined {name} (hn : name ≠ "") (hl : lookupRule g name = none) :
    CmpN env g rule (.ruleRef name) fr pt errs
      (.res pt ({ off := pt.off, rule := rule, kind := .undefinedRule name } :: errs)
        fr .nil false) 1 :=
  CmpN.leaf env g fun ev k c => by simp [CmpRes, body, hn, hl, PState.addErr]

theorem cmp_unsupported {what} :
    CmpN env g rule (.unsupported what) fr pt errs
      (.abort ("unsupported node: " ++ what)) 1 :=
  CmpN.leaf env g fun ev k c => by simp [CmpRes, body]

/-! ### one recursive call -/

theorem cmp_andP_res {e pt' errs' fr' v m N}
    (h : CmpN env g rule e [] pt errs (.res pt' errs' fr' v m) N) :
    CmpN env g rule (.andP e) fr pt errs (.res pt errs' fr .nil m) (N + 1) :=
  CmpN.wrap env g h fun ev k c c' h => by simp only [CmpRes] at h ⊢; simp only [body, h]

theorem cmp_andP_abort {e msg N} (h : CmpN env g rule e [] pt errs (.abort msg) N) :
    CmpN env g rule (.andP e) fr pt errs (.abort msg) (N + 1) :=
  CmpN.wrap env g h fun ev k c c' h => by
    simp only [CmpRes] at h ⊢; obtain ⟨p, l, h⟩ := h; exact ⟨p, l, by simp only [body, h]⟩

theorem cmp_notP_res {e pt' errs' fr' v m N}
    (h : CmpN env g rule e [] pt errs (.res pt' errs' fr' v m) N) :
    CmpN env g rule (.notP e) fr pt errs (.res pt errs' fr .nil (!m)) (N + 1) :=
  CmpN.wrap env g h fun ev k c c' h => by simp only [CmpRes] at h ⊢; simp only [body, h]

theorem cmp_notP_abort {e msg N} (h : CmpN env g rule e [] pt errs (.abort msg) N) :
    CmpN env g rule (.notP e) fr pt errs (.abort msg) (N + 1) :=
  CmpN.wrap env g h fun ev k c c' h => by
    simp only [CmpRes] at h ⊢; obtain ⟨p, l, h⟩ := h; exact ⟨p, l, by simp only [body, h]⟩

theorem cmp_action_ret {name e pt' errs' fr' v av err N}
    (h : CmpN env g rule e fr pt errs (.res pt' errs' fr' v true) N)
    (h2 : env.action name fr' (sliceFrom pt pt') = .ret av err) :
    CmpN env g rule (.action name e) fr pt errs
      (.res pt' (logAct pt.off rule err errs') fr' av true) (N + 1) :=
  CmpN.wrap env g h fun ev k c c' h => by
    simp only [CmpRes] at h ⊢
    cases err <;> simp [body, h, h2, logAct, PState.addErr]

theorem cmp_action_panic {name e pt' errs' fr' v msg N}
    (h : CmpN env g rule e fr pt errs (.res pt' errs' fr' v true) N)
    (h2 : env.action name fr' (sliceFrom pt pt') = .panic msg) :
    CmpN env g rule (.action name e) fr pt errs (.abort msg) (N + 1) :=
  CmpN.wrap env g h fun ev k c c' h => by
    simp only [CmpRes] at h ⊢
    exact ⟨pt', errs', by simp [body, h, h2]⟩

theorem cmp_action_fail {name e pt' errs' fr' v N}
    (h : CmpN env g rule e fr pt errs (.res pt' errs' fr' v false) N) :
    CmpN env g rule (.action name e) fr pt errs (.res pt' errs' fr' v false) (N + 1) :=
  CmpN.wrap env g h fun ev k c c' h => by simp only [CmpRes] at h ⊢; simp only [body, h]

theorem cmp_action_abort {name e msg N} (h : CmpN env g rule e fr pt errs (.abort msg) N) :
    CmpN env g rule (.action name e) fr pt errs (.abort msg) (N + 1) :=
  CmpN.wrap env g h fun ev k c c' h => by
    simp only [CmpRes] at h ⊢; obtain ⟨p, l, h⟩ := h; exact ⟨p, l, by simp only [body, h]⟩

theorem cmp_labeled_ok {l e pt' errs' fr' v N}
    (h : CmpN env g rule e [] pt errs (.res pt' errs' fr' v true) N) :
    CmpN env g rule (.labeled l e) fr pt errs
      (.res pt' errs' (if l != "" then fr.set l v else fr) v true) (N + 1) :=
  CmpN.wrap env g h fun ev k c c' h => by simp only [CmpRes] at h ⊢; simp only [body, h]

theorem cmp_labeled_fail {l e pt' errs' fr' v N}
    (h : CmpN env g rule e [] pt errs (.res pt' errs' fr' v false) N) :
    CmpN env g rule (.labeled l e) fr pt errs (.res pt' errs' fr v false) (N + 1) :=
  CmpN.wrap env g h fun ev k c c' h => by simp only [CmpRes] at h ⊢; simp only [body, h]

theorem cmp_labeled_abort {l e msg N} (h : CmpN env g rule e [] pt errs (.abort msg) N) :
    CmpN env g rule (.labeled l e) fr pt errs (.abort msg) (N + 1) :=
  CmpN.wrap env g h fun ev k c c' h => by
    simp only [CmpRes] at h ⊢; obtain ⟨p, l, h⟩ := h; exact ⟨p, l, by simp only [body, h]⟩

theorem cmp_ruleRef_res {name r pt' errs' fr' v m N} (hn : name ≠ "")
    (hl : lookupRule g name = some r)
    (h : CmpN env g r.shown r.expr [] pt errs (.res pt' errs' fr' v m) N) :
    CmpN env g rule (.ruleRef name) fr pt errs (.res pt' errs' fr v m) (N + 1) :=
  CmpN.wrap env g h fun ev k c c' h => by simp only [CmpRes] at h ⊢; simp [body, h, hn, hl]

theorem cmp_ruleRef_abort {name r msg N} (hn : name ≠ "")
    (hl : lookupRule g name = some r)
    (h : CmpN env g r.shown r.expr [] pt errs (.abort msg) N) :
    CmpN env g rule (.ruleRef name) fr pt errs (.abort msg) (N + 1) :=
  CmpN.wrap env g h fun ev k c c' h => by
    simp only [CmpRes] at h ⊢; obtain ⟨p, l, h⟩ := h; exact ⟨p, l, by simp [body, h, hn, hl]⟩

theorem cmp_opt_some {e pt' errs' fr' v N}
    (h : CmpN env g rule e [] pt errs (.res pt' errs' fr' v true) N) :
    CmpN env g rule (.zeroOrOne e) fr pt errs (.res pt' errs' fr v true) (N + 1) :=
  CmpN.wrap env g h fun ev k c c' h => by simp only [CmpRes] at h ⊢; simp only [body, h]

theorem cmp_opt_none {e pt' errs' fr' v N}
    (h : CmpN env g rule e [] pt errs (.res pt' errs' fr' v false) N) :
    CmpN env g rule (.zeroOrOne e) fr pt errs (.res pt' errs' fr .nil true) (N + 1) :=
  CmpN.wrap env g h fun ev k c c' h => by simp only [CmpRes] at h ⊢; simp only [body, h]

theorem cmp_opt_abort {e msg N} (h : CmpN env g rule e [] pt errs (.abort msg) N) :
    CmpN env g rule (.zeroOrOne e) fr pt errs (.abort msg) (N + 1) :=
  CmpN.wrap env g h fun ev k c c' h => by
    simp only [CmpRes] at h ⊢; obtain ⟨p, l, h⟩ := h; exact ⟨p, l, by simp only [body, h]⟩

theorem cmp_plus_none {e pt' errs' fr' v N}
    (h : CmpN env g rule e [] pt errs (.res pt' errs' fr' v false) N) :
    CmpN env g rule (.oneOrMore e) fr pt errs (.res pt' errs' fr .nil false) (N + 1) :=
  CmpN.wrap env g h fun ev k c c' h => by simp only [CmpRes] at h ⊢; simp only [body, h]

theorem cmp_plus_abort_first {e msg N} (h : CmpN env g rule e [] pt errs (.abort msg) N) :
    CmpN env g rule (.oneOrMore e) fr pt errs (.abort msg) (N + 1) :=
  CmpN.wrap env g h fun ev k c c' h => by
    simp only [CmpRes] at h ⊢; obtain ⟨p, l, h⟩ := h; exact ⟨p, l, by simp only [body, h]⟩

/-! ### loops -/

/-- General form of `CmpN.wrap`: whatever the dispatch does after the tick. -/
theorem CmpN.node {e o N₁}
    (hb : ∀ max fuel cnt, cnt + 1 + N₁ ≤ max → N₁ ≤ fuel →
      CmpRes o (cnt + 1 + N₁) (body env g (eval env g max fuel) fuel rule e fr
        { pt := pt, cnt := cnt + 1, errs := errs })) :
    CmpN env g rule e fr pt errs o (N₁ + 1) := by
  refine ⟨by omega, fun max fuel cnt hm hf => ?_⟩
  obtain ⟨fuel, rfl⟩ : ∃ f, fuel = f + 1 := ⟨fuel - 1, by omega⟩
  rw [eval_step env g (by omega), show cnt + (N₁ + 1) = cnt + 1 + N₁ by omega]
  exact hb max fuel cnt (by omega) (by omega)

theorem CmpSeqRes.cons {o c v acc r} (h : CmpSeqRes o c (v :: acc) r) :
    CmpSeqRes (o.cons v) c acc r := by
  cases o <;> simp_all [CmpSeqRes, SeqOut.cons]

theorem CmpStarRes.cons {o c fr v acc r} (h : CmpStarRes o c fr (v :: acc) r) :
    CmpStarRes (o.cons v) c fr acc r := by
  cases o <;> simp_all [CmpStarRes, StarOut.cons]

theorem cmpSeq_nil : CmpSeqN env g rule [] fr pt errs (.ok pt errs fr []) 0 := by
  intro max fuel cnt acc _ _
  simp [CmpSeqRes, seqLoop]

theorem cmpSeq_cons {e es pt₁ errs₁ fr₁ v o N₁ N₂}
    (h1 : CmpN env g rule e fr pt errs (.res pt₁ errs₁ fr₁ v true) N₁)
    (h2 : CmpSeqN env g rule es fr₁ pt₁ errs₁ o N₂) :
    CmpSeqN env g rule (e :: es) fr pt errs (o.cons v) (N₁ + N₂) := by
  intro max fuel cnt acc hm hf
  have a := h1.2 max fuel cnt (by omega) (by omega)
  simp only [CmpRes] at a
  have b := h2 max fuel (cnt + N₁) (v :: acc) (by omega) (by omega)
  simp only [seqLoop, a]
  rw [show cnt + (N₁ + N₂) = cnt + N₁ + N₂ by omega]
  exact b.cons

theorem cmpSeq_fail {e es pt₁ errs₁ fr₁ v N₁}
    (h1 : CmpN env g rule e fr pt errs (.res pt₁ errs₁ fr₁ v false) N₁) :
    CmpSeqN env g rule (e :: es) fr pt errs (.fail pt₁ errs₁ fr₁) N₁ := by
  intro max fuel cnt acc hm hf
  have a := h1.2 max fuel cnt hm hf
  simp only [CmpRes] at a
  simp only [seqLoop, a, CmpSeqRes]

theorem cmpSeq_abort {e es msg N₁}
    (h1 : CmpN env g rule e fr pt errs (.abort msg) N₁) :
    CmpSeqN env g rule (e :: es) fr pt errs (.abort msg) N₁ := by
  intro max fuel cnt acc hm hf
  obtain ⟨p, l, a⟩ := h1.2 max fuel cnt hm hf
  exact ⟨p, l, by simp only [seqLoop, a]⟩

theorem cmp_seq_ok {es pt' errs' fr' vs N}
    (h : CmpSeqN env g rule es fr pt errs (.ok pt' errs' fr' vs) N) :
    CmpN env g rule (.seq es) fr pt errs (.res pt' errs' fr' (.list vs) true) (N + 1) :=
  CmpN.node fun max fuel cnt hm hf => by
    have a := h max fuel (cnt + 1) [] hm hf
    simp only [CmpSeqRes, List.reverse_nil, List.nil_append] at a
    simp only [CmpRes, body, a]

theorem cmp_seq_fail {es pt' errs' fr' N}
    (h : CmpSeqN env g rule es fr pt errs (.fail pt' errs' fr') N) :
    CmpN env g rule (.seq es) fr pt errs (.res pt errs' fr' .nil false) (N + 1) :=
  CmpN.node fun max fuel cnt hm hf => by
    have a := h max fuel (cnt + 1) [] hm hf
    simp only [CmpSeqRes] at a
    simp only [CmpRes, body, a]

theorem cmp_seq_abort {es msg N}
    (h : CmpSeqN env g rule es fr pt errs (.abort msg) N) :
    CmpN env g rule (.seq es) fr pt errs (.abort msg) (N + 1) :=
  CmpN.node fun max fuel cnt hm hf => by
    obtain ⟨p, l, a⟩ := h max fuel (cnt + 1) [] hm hf
    exact ⟨p, l, by simp only [body, a]⟩

theorem cmpChoice_exhausted :
    CmpChoiceN env g rule [] fr pt errs (.res pt errs fr .nil false) 0 := by
  intro max fuel cnt _ _
  simp [CmpRes, choiceLoop]

theorem cmpChoice_hit {a as pt₁ errs₁ fr₁ v N₁}
    (h1 : CmpN env g rule a [] pt errs (.res pt₁ errs₁ fr₁ v true) N₁) :
    CmpChoiceN env g rule (a :: as) fr pt errs (.res pt₁ errs₁ fr v true) N₁ := by
  intro max fuel cnt hm hf
  have a := h1.2 max fuel cnt hm hf
  simp only [CmpRes] at a
  simp only [choiceLoop, a, CmpRes]

theorem cmpChoice_next {a as pt₁ errs₁ fr₁ v o N₁ N₂}
    (h1 : CmpN env g rule a [] pt errs (.res pt₁ errs₁ fr₁ v false) N₁)
    (h2 : CmpChoiceN env g rule as fr pt₁ errs₁ o N₂) :
    CmpChoiceN env g rule (a :: as) fr pt errs o (N₁ + N₂) := by
  intro max fuel cnt hm hf
  have a := h1.2 max fuel cnt (by omega) (by omega)
  simp only [CmpRes] at a
  have b := h2 max fuel (cnt + N₁) (by omega) (by omega)
  simp only [choiceLoop, a]
  rw [show cnt + (N₁ + N₂) = cnt + N₁ + N₂ by omega]
  exact b

theorem cmpChoice_abortAlt {a as msg N₁}
    (h1 : CmpN env g rule a [] pt errs (.abort msg) N₁) :
    CmpChoiceN env g rule (a :: as) fr pt errs (.abort msg) N₁ := by
  intro max fuel cnt hm hf
  obtain ⟨p, l, a⟩ := h1.2 max fuel cnt hm hf
  exact ⟨p, l, by simp only [choiceLoop, a]⟩

theorem cmp_choice {alts o N} (h : CmpChoiceN env g rule alts fr pt errs o N) :
    CmpN env g rule (.choice alts) fr pt errs o (N + 1) :=
  CmpN.node fun max fuel cnt hm hf => by
    simp only [body]
    exact h max fuel (cnt + 1) hm hf

theorem cmpStar_stop {e pt₁ errs₁ fr₁ v N₁}
    (h1 : CmpN env g rule e [] pt errs (.res pt₁ errs₁ fr₁ v false) N₁) :
    CmpStarN env g rule e pt errs (.done pt₁ errs₁ []) N₁ := by
  refine ⟨h1.1, fun max fuel k cnt fr acc hm hf hk => ?_⟩
  have := h1.1
  obtain ⟨k, rfl⟩ : ∃ k', k = k' + 1 := ⟨k - 1, by omega⟩
  have a := h1.2 max fuel cnt hm hf
  simp only [CmpRes] at a
  simp only [starLoop, a, CmpStarRes, List.append_nil]

theorem cmpStar_more {e pt₁ errs₁ fr₁ v o N₁ N₂}
    (h1 : CmpN env g rule e [] pt errs (.res pt₁ errs₁ fr₁ v true) N₁)
    (h2 : CmpStarN env g rule e pt₁ errs₁ o N₂) :
    CmpStarN env g rule e pt errs (o.cons v) (N₁ + N₂) := by
  have := h1.1
  refine ⟨by omega, fun max fuel k cnt fr acc hm hf hk => ?_⟩
  obtain ⟨k, rfl⟩ : ∃ k', k = k' + 1 := ⟨k - 1, by omega⟩
  have a := h1.2 max fuel cnt (by omega) (by omega)
  simp only [CmpRes] at a
  have b := h2.2 max fuel k (cnt + N₁) fr (v :: acc) (by omega) (by omega) (by omega)
  simp only [starLoop, a]
  rw [show cnt + (N₁ + N₂) = cnt + N₁ + N₂ by omega]
  exact b.cons

theorem cmpStar_abortIter {e msg N₁}
    (h1 : CmpN env g rule e [] pt errs (.abort msg) N₁) :
    CmpStarN env g rule e pt errs (.abort msg) N₁ := by
  refine ⟨h1.1, fun max fuel k cnt fr acc hm hf hk => ?_⟩
  have := h1.1
  obtain ⟨k, rfl⟩ : ∃ k', k = k' + 1 := ⟨k - 1, by omega⟩
  obtain ⟨p, l, a⟩ := h1.2 max fuel cnt hm hf
  exact ⟨p, l, by simp only [starLoop, a]⟩

theorem cmp_star_done {e pt' errs' vs N}
    (h : CmpStarN env g rule e pt errs (.done pt' errs' vs) N) :
    CmpN env g rule (.zeroOrMore e) fr pt errs (.res pt' errs' fr (.list vs) true) (N + 1) :=
  CmpN.node fun max fuel cnt hm hf => by
    have a := h.2 max fuel fuel (cnt + 1) fr [] hm hf hf
    simp only [CmpStarRes, List.reverse_nil, List.nil_append] at a
    simp only [CmpRes, body, a]

theorem cmp_star_abort {e msg N}
    (h : CmpStarN env g rule e pt errs (.abort msg) N) :
    CmpN env g rule (.zeroOrMore e) fr pt errs (.abort msg) (N + 1) :=
  CmpN.node fun max fuel cnt hm hf => by
    obtain ⟨p, l, a⟩ := h.2 max fuel fuel (cnt + 1) fr [] hm hf hf
    exact ⟨p, l, by simp only [body, a]⟩

theorem cmp_plus_done {e pt₁ errs₁ fr₁ v pt' errs' vs N₁ N₂}
    (h1 : CmpN env g rule e [] pt errs (.res pt₁ errs₁ fr₁ v true) N₁)
    (h2 : CmpStarN env g rule e pt₁ errs₁ (.done pt' errs' vs) N₂) :
    CmpN env g rule (.oneOrMore e) fr pt errs (.res pt' errs' fr (.list (v :: vs)) true)
      (N₁ + N₂ + 1) :=
  CmpN.node fun max fuel cnt hm hf => by
    have a := h1.2 max fuel (cnt + 1) (by omega) (by omega)
    simp only [CmpRes] at a
    have b := h2.2 max fuel fuel (cnt + 1 + N₁) fr [v] (by omega) (by omega) (by omega)
    simp only [CmpStarRes, List.reverse_cons, List.reverse_nil, List.nil_append,
      List.singleton_append] at b
    rw [show cnt + 1 + (N₁ + N₂) = cnt + 1 + N₁ + N₂ by omega]
    simp only [CmpRes, body, a, b]

theorem cmp_plus_abort {e pt₁ errs₁ fr₁ v msg N₁ N₂}
    (h1 : CmpN env g rule e [] pt errs (.res pt₁ errs₁ fr₁ v true) N₁)
    (h2 : CmpStarN env g rule e pt₁ errs₁ (.abort msg) N₂) :
    CmpN env g rule (.oneOrMore e) fr pt errs (.abort msg) (N₁ + N₂ + 1) :=
  CmpN.node fun max fuel cnt hm hf => by
    have a := h1.2 max fuel (cnt + 1) (by omega) (by omega)
    simp only [CmpRes] at a
    obtain ⟨p, l, b⟩ := h2.2 max fuel fuel (cnt + 1 + N₁) fr [v] (by omega) (by omega) (by omega)
    rw [show cnt + 1 + (N₁ + N₂) = cnt + 1 + N₁ + N₂ by omega]
    exact ⟨p, l, by simp only [body, a, b]⟩

end Rules

/-! ## The engine reproduces a derivation of size `N` in exactly `N` steps -/

theorem semN_cmp {env : Env} {g : Grammar} {rule e fr pt errs o N}
    (h : SemN env g rule e fr pt errs o N) : CmpN env g rule e fr pt errs o N := by
  induction h using SemN.rec
    (motive_2 := fun rule es fr pt errs o N _ => CmpSeqN env g rule es fr pt errs o N)
    (motive_3 := fun rule as fr pt errs o N _ => CmpChoiceN env g rule as fr pt errs o N)
    (motive_4 := fun rule e pt errs o N _ => CmpStarN env g rule e pt errs o N) with
  | any_eof h => exact cmp_any_eof h
  | any_ok h => exact cmp_any_ok h
  | lit_ok h => exact cmp_lit_ok h
  | lit_fail h => exact cmp_lit_fail h
  | lit_ignoreCase => exact cmp_lit_ignoreCase
  | class_ignoreCase => exact cmp_class_ignoreCase
  | class_eof h => exact cmp_class_eof h
  | class_unknown h hc => exact cmp_class_unknown h hc
  | class_ok h hc hh => exact cmp_class_ok h hc hh
  | class_fail h hc hh => exact cmp_class_fail h hc hh
  | andCode_ret h => exact cmp_andCode_ret h
  | andCode_panic h => exact cmp_andCode_panic h
  | notCode_ret h => exact cmp_notCode_ret h
  | notCode_panic h => exact cmp_notCode_panic h
  | andP_res _ ih => exact cmp_andP_res ih
  | andP_abort _ ih => exact cmp_andP_abort ih
  | notP_res _ ih => exact cmp_notP_res ih
  | notP_abort _ ih => exact cmp_notP_abort ih
  | action_ret _ h2 ih => exact cmp_action_ret ih h2
  | action_panic _ h2 ih => exact cmp_action_panic ih h2
  | action_fail _ ih => exact cmp_action_fail ih
  | action_abort _ ih => exact cmp_action_abort ih
  | labeled_ok _ ih => exact cmp_labeled_ok ih
  | labeled_fail _ ih => exact cmp_labeled_fail ih
  | labeled_abort _ ih => exact cmp_labeled_abort ih
  | ruleRef_noName => exact cmp_ruleRef_noName
  | ruleRef_undefined hn hl => exact cmp_ruleRef_undefined hn hl
  | ruleRef_res hn hl _ ih => exact cmp_ruleRef_res hn hl ih
  | ruleRef_abort hn hl _ ih => exact cmp_ruleRef_abort hn hl ih
  | seq_ok _ ih => exact cmp_seq_ok ih
  | seq_fail _ ih => exact cmp_seq_fail ih
  | seq_abort _ ih => exact cmp_seq_abort ih
  | choice _ ih => exact cmp_choice ih
  | opt_some _ ih => exact cmp_opt_some ih
  | opt_none _ ih => exact cmp_opt_none ih
  | opt_abort _ ih => exact cmp_opt_abort ih
  | star_done _ ih => exact cmp_star_done ih
  | star_abort _ ih => exact cmp_star_abort ih
  | plus_none _ ih => exact cmp_plus_none ih
  | plus_abort_first _ ih => exact cmp_plus_abort_first ih
  | plus_done _ _ ih1 ih2 => exact cmp_plus_done ih1 ih2
  | plus_abort _ _ ih1 ih2 => exact cmp_plus_abort ih1 ih2
  | unsupported => exact cmp_unsupported
  | nil => exact cmpSeq_nil
  | cons _ _ ih1 ih2 => exact cmpSeq_cons ih1 ih2
  | fail _ ih => exact cmpSeq_fail ih
  | abort _ ih => exact cmpSeq_abort ih
  | exhausted => exact cmpChoice_exhausted
  | hit _ ih => exact cmpChoice_hit ih
  | next _ _ ih1 ih2 => exact cmpChoice_next ih1 ih2
  | abortAlt _ ih => exact cmpChoice_abortAlt ih
  | stop _ ih => exact cmpStar_stop ih
  | more _ _ ih1 ih2 => exact cmpStar_more ih1 ih2
  | abortIter _ ih => exact cmpStar_abortIter ih

/-! ## `Sem` is `SemN` without the size -/

theorem semN_sem {env : Env} {g : Grammar} {rule e fr pt errs o N}
    (h : SemN env g rule e fr pt errs o N) : Sem env g rule e fr pt errs o := by
  induction h using SemN.rec
    (motive_2 := fun rule es fr pt errs o _ _ => SemSeq env g rule es fr pt errs o)
    (motive_3 := fun rule as fr pt errs o _ _ => SemChoice env g rule as fr pt errs o)
    (motive_4 := fun rule e pt errs o _ _ => SemStar env g rule e pt errs o) with
  | any_eof h => exact .any_eof h
  | any_ok h => exact .any_ok h
  | lit_ok h => exact .lit_ok h
  | lit_fail h => exact .lit_fail h
  | lit_ignoreCase => exact .lit_ignoreCase
  | class_ignoreCase => exact .class_ignoreCase
  | class_eof h => exact .class_eof h
  | class_unknown h hc => exact .class_unknown h hc
  | class_ok h hc hh => exact .class_ok h hc hh
  | class_fail h hc hh => exact .class_fail h hc hh
  | andCode_ret h => exact .andCode_ret h
  | andCode_panic h => exact .andCode_panic h
  | notCode_ret h => exact .notCode_ret h
  | notCode_panic h => exact .notCode_panic h
  | andP_res _ ih => exact .andP_res ih
  | andP_abort _ ih => exact .andP_abort ih
  | notP_res _ ih => exact .notP_res ih
  | notP_abort _ ih => exact .notP_abort ih
  | action_ret _ h2 ih => exact .action_ret ih h2
  | action_panic _ h2 ih => exact .action_panic ih h2
  | action_fail _ ih => exact .action_fail ih
  | action_abort _ ih => exact .action_abort ih
  | labeled_ok _ ih => exact .labeled_ok ih
  | labeled_fail _ ih => exact .labeled_fail ih
  | labeled_abort _ ih => exact .labeled_abort ih
  | ruleRef_noName => exact .ruleRef_noName
  | ruleRef_undefined hn hl => exact .ruleRef_undefined hn hl
  | ruleRef_res hn hl _ ih => exact .ruleRef_res hn hl ih
  | ruleRef_abort hn hl _ ih => exact .ruleRef_abort hn hl ih
  | seq_ok _ ih => exact .seq_ok ih
  | seq_fail _ ih => exact .seq_fail ih
  | seq_abort _ ih => exact .seq_abort ih
  | choice _ ih => exact .choice ih
  | opt_some _ ih => exact .opt_some ih
  | opt_none _ ih => exact .opt_none ih
  | opt_abort _ ih => exact .opt_abort ih
  | star_done _ ih => exact .star_done ih
  | star_abort _ ih => exact .star_abort ih
  | plus_none _ ih => exact .plus_none ih
  | plus_abort_first _ ih => exact .plus_abort_first ih
  | plus_done _ _ ih1 ih2 => exact .plus_done ih1 ih2
  | plus_abort _ _ ih1 ih2 => exact .plus_abort ih1 ih2
  | unsupported => exact .unsupported
  | nil => exact .nil
  | cons _ _ ih1 ih2 => exact .cons ih1 ih2
  | fail _ ih => exact .fail ih
  | abort _ ih => exact .abort ih
  | exhausted => exact .exhausted
  | hit _ ih => exact .hit ih
  | next _ _ ih1 ih2 => exact .next ih1 ih2
  | abortAlt _ ih => exact .abortAlt ih
  | stop _ ih => exact .stop ih
  | more _ _ ih1 ih2 => exact .more ih1 ih2
  | abortIter _ ih => exact .abortIter ih

theorem sem_semN {env : Env} {g : Grammar} {rule e fr pt errs o}
    (h : Sem env g rule e fr pt errs o) : ∃ N, SemN env g rule e fr pt errs o N := by
  induction h using Sem.rec
    (motive_2 := fun rule es fr pt errs o _ => ∃ N, SemSeqN env g rule es fr pt errs o N)
    (motive_3 := fun rule as fr pt errs o _ => ∃ N, SemChoiceN env g rule as fr pt errs o N)
    (motive_4 := fun rule e pt errs o _ => ∃ N, SemStarN env g rule e pt errs o N) with
  | any_eof h => exact ⟨_, .any_eof h⟩
  | any_ok h => exact ⟨_, .any_ok h⟩
  | lit_ok h => exact ⟨_, .lit_ok h⟩
  | lit_fail h => exact ⟨_, .lit_fail h⟩
  | lit_ignoreCase => exact ⟨_, .lit_ignoreCase⟩
  | class_ignoreCase => exact ⟨_, .class_ignoreCase⟩
  | class_eof h => exact ⟨_, .class_eof h⟩
  | class_unknown h hc => exact ⟨_, .class_unknown h hc⟩
  | class_ok h hc hh => exact ⟨_, .class_ok h hc hh⟩
  | class_fail h hc hh => exact ⟨_, .class_fail h hc hh⟩
  | andCode_ret h => exact ⟨_, .andCode_ret h⟩
  | andCode_panic h => exact ⟨_, .andCode_panic h⟩
  | notCode_ret h => exact ⟨_, .notCode_ret h⟩
  | notCode_panic h => exact ⟨_, .notCode_panic h⟩
  | andP_res _ ih => obtain ⟨_, ih⟩ := ih; exact ⟨_, .andP_res ih⟩
  | andP_abort _ ih => obtain ⟨_, ih⟩ := ih; exact ⟨_, .andP_abort ih⟩
  | notP_res _ ih => obtain ⟨_, ih⟩ := ih; exact ⟨_, .notP_res ih⟩
  | notP_abort _ ih => obtain ⟨_, ih⟩ := ih; exact ⟨_, .notP_abort ih⟩
  | action_ret _ h2 ih => obtain ⟨_, ih⟩ := ih; exact ⟨_, .action_ret ih h2⟩
  | action_panic _ h2 ih => obtain ⟨_, ih⟩ := ih; exact ⟨_, .action_panic ih h2⟩
  | action_fail _ ih => obtain ⟨_, ih⟩ := ih; exact ⟨_, .action_fail ih⟩
  | action_abort _ ih => obtain ⟨_, ih⟩ := ih; exact ⟨_, .action_abort ih⟩
  | labeled_ok _ ih => obtain ⟨_, ih⟩ := ih; exact ⟨_, .labeled_ok ih⟩
  | labeled_fail _ ih => obtain ⟨_, ih⟩ := ih; exact ⟨_, .labeled_fail ih⟩
  | labeled_abort _ ih => obtain ⟨_, ih⟩ := ih; exact ⟨_, .labeled_abort ih⟩
  | ruleRef_noName => exact ⟨_, .ruleRef_noName⟩
  | ruleRef_undefined hn hl => exact ⟨_, .ruleRef_undefined hn hl⟩
  | ruleRef_res hn hl _ ih => obtain ⟨_, ih⟩ := ih; exact ⟨_, .ruleRef_res hn hl ih⟩
  | ruleRef_abort hn hl _ ih => obtain ⟨_, ih⟩ := ih; exact ⟨_, .ruleRef_abort hn hl ih⟩
  | seq_ok _ ih => obtain ⟨_, ih⟩ := ih; exact ⟨_, .seq_ok ih⟩
  | seq_fail _ ih => obtain ⟨_, ih⟩ := ih; exact ⟨_, .seq_fail ih⟩
  | seq_abort _ ih => obtain ⟨_, ih⟩ := ih; exact ⟨_, .seq_abort ih⟩
  | choice _ ih => obtain ⟨_, ih⟩ := ih; exact ⟨_, .choice ih⟩
  | opt_some _ ih => obtain ⟨_, ih⟩ := ih; exact ⟨_, .opt_some ih⟩
  | opt_none _ ih => obtain ⟨_, ih⟩ := ih; exact ⟨_, .opt_none ih⟩
  | opt_abort _ ih => obtain ⟨_, ih⟩ := ih; exact ⟨_, .opt_abort ih⟩
  | star_done _ ih => obtain ⟨_, ih⟩ := ih; exact ⟨_, .star_done ih⟩
  | star_abort _ ih => obtain ⟨_, ih⟩ := ih; exact ⟨_, .star_abort ih⟩
  | plus_none _ ih => obtain ⟨_, ih⟩ := ih; exact ⟨_, .plus_none ih⟩
  | plus_abort_first _ ih => obtain ⟨_, ih⟩ := ih; exact ⟨_, .plus_abort_first ih⟩
  | plus_done _ _ ih1 ih2 =>
    obtain ⟨_, ih1⟩ := ih1; obtain ⟨_, ih2⟩ := ih2; exact ⟨_, .plus_done ih1 ih2⟩
  | plus_abort _ _ ih1 ih2 =>
    obtain ⟨_, ih1⟩ := ih1; obtain ⟨_, ih2⟩ := ih2; exact ⟨_, .plus_abort ih1 ih2⟩
  | unsupported => exact ⟨_, .unsupported⟩
  | nil => exact ⟨_, .nil⟩
  | cons _ _ ih1 ih2 =>
    obtain ⟨_, ih1⟩ := ih1; obtain ⟨_, ih2⟩ := ih2; exact ⟨_, .cons ih1 ih2⟩
  | fail _ ih => obtain ⟨_, ih⟩ := ih; exact ⟨_, .fail ih⟩
  | abort _ ih => obtain ⟨_, ih⟩ := ih; exact ⟨_, .abort ih⟩
  | exhausted => exact ⟨_, .exhausted⟩
  | hit _ ih => obtain ⟨_, ih⟩ := ih; exact ⟨_, .hit ih⟩
  | next _ _ ih1 ih2 =>
    obtain ⟨_, ih1⟩ := ih1; obtain ⟨_, ih2⟩ := ih2; exact ⟨_, .next ih1 ih2⟩
  | abortAlt _ ih => obtain ⟨_, ih⟩ := ih; exact ⟨_, .abortAlt ih⟩
  | stop _ ih => obtain ⟨_, ih⟩ := ih; exact ⟨_, .stop ih⟩
  | more _ _ ih1 ih2 =>
    obtain ⟨_, ih1⟩ := ih1; obtain ⟨_, ih2⟩ := ih2; exact ⟨_, .more ih1 ih2⟩
  | abortIter _ ih => obtain ⟨_, ih⟩ := ih; exact ⟨_, .abortIter ih⟩

theorem semN_iff {env : Env} {g : Grammar} {rule e fr pt errs o} :
    Sem env g rule e fr pt errs o ↔ ∃ N, SemN env g rule e fr pt errs o N :=
  ⟨sem_semN, fun ⟨_, h⟩ => semN_sem h⟩

/-! ## Determinism (outcome and size), via the engine -/

theorem cmpN_det {env : Env} {g : Grammar} {rule e fr pt errs o₁ o₂ N₁ N₂}
    (h1 : CmpN env g rule e fr pt errs o₁ N₁) (h2 : CmpN env g rule e fr pt errs o₂ N₂) :
    o₁ = o₂ ∧ N₁ = N₂ := by
  have a := h1.2 (N₁ + N₂) (N₁ + N₂) 0 (by omega) (by omega)
  have b := h2.2 (N₁ + N₂) (N₁ + N₂) 0 (by omega) (by omega)
  generalize eval env g (N₁ + N₂) (N₁ + N₂) rule e fr _ = R at a b
  cases o₁ with
  | res p1 l1 f1 v1 m1 =>
    cases o₂ with
    | res p2 l2 f2 v2 m2 =>
      simp only [CmpRes] at a b
      rw [a] at b
      simp only [PRes.ok.injEq, PState.mk.injEq] at b
      obtain ⟨⟨rfl, hN, rfl⟩, rfl, rfl, rfl⟩ := b
      exact ⟨rfl, by omega⟩
    | abort msg2 =>
      simp only [CmpRes] at a b
      obtain ⟨p, l, b⟩ := b
      rw [a] at b; cases b
  | abort msg1 =>
    cases o₂ with
    | res p2 l2 f2 v2 m2 =>
      simp only [CmpRes] at a b
      obtain ⟨p, l, a⟩ := a
      rw [a] at b; cases b
    | abort msg2 =>
      simp only [CmpRes] at a b
      obtain ⟨p, l, a⟩ := a
      obtain ⟨p', l', b⟩ := b
      rw [a] at b
      simp only [PRes.abort.injEq, PState.mk.injEq] at b
      obtain ⟨⟨_, hN, _⟩, rfl⟩ := b
      exact ⟨rfl, by omega⟩

theorem semN_det {env : Env} {g : Grammar} {rule e fr pt errs o₁ o₂ N₁ N₂}
    (h1 : SemN env g rule e fr pt errs o₁ N₁) (h2 : SemN env g rule e fr pt errs o₂ N₂) :
    o₁ = o₂ ∧ N₁ = N₂ :=
  cmpN_det (semN_cmp h1) (semN_cmp h2)

theorem sem_det {env : Env} {g : Grammar} {rule e fr pt errs o₁ o₂}
    (h1 : Sem env g rule e fr pt errs o₁) (h2 : Sem env g rule e fr pt errs o₂) : o₁ = o₂ := by
  obtain ⟨N₁, h1⟩ := sem_semN h1
  obtain ⟨N₂, h2⟩ := sem_semN h2
  exact (semN_det h1 h2).1

/-! ## A failed match never moves the position -/

/-- "If `o` is a failed match, its position is `pt`." -/
def FailPt (pt : Pt) (o : SemOut) : Prop :=
  ∀ pt' errs' fr' v, o = .res pt' errs' fr' v false → pt' = pt

theorem sem_failPt {env : Env} {g : Grammar} {rule e fr pt errs o}
    (h : Sem env g rule e fr pt errs o) : FailPt pt o := by
  induction h using Sem.rec
    (motive_2 := fun _ _ _ _ _ _ _ => True)
    (motive_3 := fun _ _ _ pt _ o _ => FailPt pt o)
    (motive_4 := fun _ _ _ _ _ _ => True) with
  | any_eof h => intro _ _ _ _ h; cases h; rfl
  | any_ok h => intro _ _ _ _ h; cases h
  | lit_ok h => intro _ _ _ _ h; cases h
  | lit_fail h => intro _ _ _ _ h; cases h; rfl
  | lit_ignoreCase => intro _ _ _ _ h; cases h
  | class_ignoreCase => intro _ _ _ _ h; cases h
  | class_eof h => intro _ _ _ _ h; cases h; rfl
  | class_unknown h hc => intro _ _ _ _ h; cases h
  | class_ok h hc hh => intro _ _ _ _ h; cases h
  | class_fail h hc hh => intro _ _ _ _ h; cases h; rfl
  | andCode_ret h => intro _ _ _ _ h; cases h; rfl
  | andCode_panic h => intro _ _ _ _ h; cases h
  | notCode_ret h => intro _ _ _ _ h; injection h with h; exact h.symm
  | notCode_panic h => intro _ _ _ _ h; cases h
  | andP_res _ ih => intro _ _ _ _ h; cases h; rfl
  | andP_abort _ ih => intro _ _ _ _ h; cases h
  | notP_res _ ih => intro _ _ _ _ h; injection h with h; exact h.symm
  | notP_abort _ ih => intro _ _ _ _ h; cases h
  | action_ret _ h2 ih => intro _ _ _ _ h; cases h
  | action_panic _ h2 ih => intro _ _ _ _ h; cases h
  | action_fail _ ih => intro _ _ _ _ h; cases h; exact ih _ _ _ _ rfl
  | action_abort _ ih => intro _ _ _ _ h; cases h
  | labeled_ok _ ih => intro _ _ _ _ h; cases h
  | labeled_fail _ ih => intro _ _ _ _ h; cases h; exact ih _ _ _ _ rfl
  | labeled_abort _ ih => intro _ _ _ _ h; cases h
  | ruleRef_noName => intro _ _ _ _ h; cases h
  | ruleRef_undefined hn hl => intro _ _ _ _ h; cases h; rfl
  | ruleRef_res hn hl _ ih => intro _ _ _ _ h; cases h; exact ih _ _ _ _ rfl
  | ruleRef_abort hn hl _ ih => intro _ _ _ _ h; cases h
  | seq_ok _ ih => intro _ _ _ _ h; cases h
  | seq_fail _ ih => intro _ _ _ _ h; cases h; rfl
  | seq_abort _ ih => intro _ _ _ _ h; cases h
  | choice _ ih => exact ih
  | opt_some _ ih => intro _ _ _ _ h; cases h
  | opt_none _ ih => intro _ _ _ _ h; cases h
  | opt_abort _ ih => intro _ _ _ _ h; cases h
  | star_done _ ih => intro _ _ _ _ h; cases h
  | star_abort _ ih => intro _ _ _ _ h; cases h
  | plus_none _ ih => intro _ _ _ _ h; cases h; exact ih _ _ _ _ rfl
  | plus_abort_first _ ih => intro _ _ _ _ h; cases h
  | plus_done _ _ ih1 ih2 => intro _ _ _ _ h; cases h
  | plus_abort _ _ ih1 ih2 => intro _ _ _ _ h; cases h
  | unsupported => intro _ _ _ _ h; cases h
  | nil => trivial
  | cons _ _ ih1 ih2 => trivial
  | fail _ ih => trivial
  | abort _ ih => trivial
  | exhausted => intro _ _ _ _ h; cases h; rfl
  | hit _ ih => intro _ _ _ _ h; cases h
  | next _ _ ih1 ih2 =>
    intro _ _ _ _ h
    rw [ih2 _ _ _ _ h]
    exact ih1 _ _ _ _ rfl
  | abortAlt _ ih => intro _ _ _ _ h; cases h
  | stop _ ih => trivial
  | more _ _ ih1 ih2 => trivial
  | abortIter _ ih => trivial

/-! ## A derivation against an arbitrary budget -/

/-- Given a derivation of size `N` the behaviour of the engine from counter `cnt` is known for
    EVERY budget: if `cnt + N ≤ max` it reproduces the derivation, otherwise it stops with
    `exceeded` at `max + 1`. -/
theorem cmpN_at {env : Env} {g : Grammar} {rule e fr pt errs o N}
    (h : CmpN env g rule e fr pt errs o N) (max fuel cnt : Nat) (hc : cnt ≤ max)
    (hf : N ≤ fuel) :
    (cnt + N ≤ max →
      CmpRes o (cnt + N) (eval env g max fuel rule e fr { pt := pt, cnt := cnt, errs := errs })) ∧
    (max < cnt + N → ∃ s,
      eval env g max fuel rule e fr { pt := pt, cnt := cnt, errs := errs } = .exceeded s ∧
        s.cnt = max + 1) := by
  refine ⟨fun hm => h.2 max fuel cnt hm hf, fun hlt => ?_⟩
  have a := h.2 (cnt + N) fuel cnt (Nat.le_refl _) hf
  have hs := eval_sim env g max (cnt + N) (by omega) fuel rule e fr
    { pt := pt, cnt := cnt, errs := errs } hc
  generalize eval env g (cnt + N) fuel rule e fr _ = R' at a hs
  have hR : R' ≠ .fuelOut ∧ finalCnt R' = cnt + N := by
    cases o with
    | res p l f v m => simp only [CmpRes] at a; subst a; exact ⟨by simp, rfl⟩
    | abort msg => simp only [CmpRes] at a; obtain ⟨p, l, a⟩ := a; subst a; exact ⟨by simp, rfl⟩
  rcases hs with hs | ⟨hle, _⟩ | ⟨_, s, hs, hcnt⟩
  · exact absurd hs hR.1
  · omega
  · exact ⟨s, hs, hcnt⟩

/-- The same for the call made by `run`: counter `0`, fuel `max + 2`. -/
theorem cmpN_run {env : Env} {g : Grammar} {rule e fr pt errs o N}
    (h : CmpN env g rule e fr pt errs o N) (max : Nat) :
    (N ≤ max →
      CmpRes o N (eval env g max (max + 2) rule e fr { pt := pt, cnt := 0, errs := errs })) ∧
    (max < N → ∃ s,
      eval env g max (max + 2) rule e fr { pt := pt, cnt := 0, errs := errs } = .exceeded s ∧
        s.cnt = max + 1) := by
  have hne := eval_noFuelOut env g max (max + 2) rule e fr { pt := pt, cnt := 0, errs := errs }
    (Nat.zero_le _) (by simp only; omega)
  have hfl := eval_fle env g max (max + 2) (max + 2 + N) rule e fr
    { pt := pt, cnt := 0, errs := errs } (by omega) hne
  have := cmpN_at h max (max + 2 + N) 0 (Nat.zero_le _) (by omega)
  rw [hfl, Nat.zero_add] at this
  exact this

/-! ## The start rule -/

theorem foldl_lookup_some (name : String) : ∀ (rs : List Rule) (r : Rule),
    ∃ r', rs.foldl (fun acc r => if r.name == name then some r else acc) (some r) = some r' := by
  intro rs
  induction rs with
  | nil => intro r; exact ⟨r, rfl⟩
  | cons x xs ih =>
    intro r
    simp only [List.foldl_cons]
    split
    · exact ih x
    · exact ih r

theorem lookupRule_head (r0 : Rule) (rs : List Rule) :
    ∃ start, lookupRule (r0 :: rs) r0.name = some start := by
  simp only [lookupRule, List.foldl_cons, beq_self_eq_true, if_true]
  exact foldl_lookup_some r0.name rs r0

theorem startRule_eq_none {g : Grammar} : startRule g = none ↔ g = [] := by
  cases g with
  | nil => simp [startRule]
  | cons r0 rs =>
    obtain ⟨s, hs⟩ := lookupRule_head r0 rs
    simp [startRule, hs]

/-- The state in which `run` calls the start rule, in declarative terms. -/
theorem initState_eq (input : GoString) :
    initState input =
      { pt := (Pt.start input).next, cnt := 0, errs := logRead "" (Pt.start input).next [] } := by
  simp only [initState, read_eq, Pt.start]

/-- `runMax` (= `run` with its effective budget) in terms of the start rule. -/
theorem runMax_start {env : Env} {g : Grammar} {start : Rule} (hs : startRule g = some start)
    (max : Nat) (input : GoString) :
    runMax env g max input =
      outOf (eval env g max (max + 2) start.shown start.expr []
        { pt := (Pt.start input).next, cnt := 0,
          errs := logRead "" (Pt.start input).next [] }) := by
  cases g with
  | nil => simp [startRule] at hs
  | cons r0 rs =>
    simp only [startRule] at hs
    simp only [runMax, hs, initState_eq]

theorem runMax_nil (env : Env) (max : Nat) (input : GoString) :
    runMax env [] max input =
      { val := .nil, errs := [{ off := 0, rule := "", kind := .noRule }], cnt := 0 } := rfl

end Bexpr.Proofs.SemRefine
