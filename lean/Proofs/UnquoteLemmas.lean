/-
  Proofs.UnquoteLemmas — supporting lemmas for the lexical stage:
  `GoString.ofString` on literals, `replaceAll` with one- and two-byte patterns,
  JSON-pointer escaping, `splitSlash`, the loops of `strconv.Unquote`, the UTF-8
  decode/encode round trips, and `Unquote ∘ Quote = id` (for `strconv.Quote` and for the
  renderer's `\x22` variant `quoteX22`, defined here).

  Core Lean only.
-/
import Bexpr.Unquote
import Bexpr.Quote
import Bexpr.Peg.Actions

/-! ## `ByteArray.toList` (needed to evaluate `GoString.ofString` on a literal) -/

theorem ByteArray.toList_loop_eq (bs : ByteArray) (i : Nat) (r : List UInt8) :
    ByteArray.toList.loop bs i r = r.reverse ++ bs.data.toList.drop i := by
  induction h : bs.size - i using Nat.strongRecOn generalizing i r with
  | _ k ih =>
    have hsz : bs.size = bs.data.toList.length := by
      show bs.data.size = _
      simp
    rw [ByteArray.toList.loop]
    split
    · rename_i hlt
      rw [ih (bs.size - (i+1)) (by omega) (i+1) _ rfl]
      have hlt' : i < bs.data.toList.length := by omega
      rw [List.drop_eq_getElem_cons hlt']
      have : bs.get! i = bs.data.toList[i] := by
        show bs.data[i]! = _
        rw [getElem!_pos bs.data i (by simpa using hlt')]
        simp
      simp [this]
    · rename_i hge
      have : bs.data.toList.length ≤ i := by omega
      simp [List.drop_eq_nil_of_le this]

theorem ByteArray.toList_eq_data (bs : ByteArray) : bs.toList = bs.data.toList := by
  simp [ByteArray.toList, ByteArray.toList_loop_eq]

namespace Bexpr.GoString

/-- `ofString` through the array's list view; the right-hand side evaluates on
string literals (`decide`). -/
theorem ofString_eq (s : String) : ofString s = s.toByteArray.data.toList := by
  rw [ofString, String.toUTF8, ByteArray.toList_eq_data]

theorem ofString_tilde : ofString "~" = [0x7E] := by rw [ofString_eq]; decide
theorem ofString_slash : ofString "/" = [0x2F] := by rw [ofString_eq]; decide
theorem ofString_tilde0 : ofString "~0" = [0x7E, 0x30] := by rw [ofString_eq]; decide
theorem ofString_tilde1 : ofString "~1" = [0x7E, 0x31] := by rw [ofString_eq]; decide
theorem ofString_dot : ofString "." = [0x2E] := by rw [ofString_eq]; decide

/-! ## `replaceAll` -/

/-- Replacing a one-byte pattern is a `flatMap`. -/
theorem replaceAllAux_single (a : UInt8) (new : GoString) (s : GoString) (fuel : Nat)
    (hf : s.length ≤ fuel) :
    replaceAllAux [a] new fuel s = s.flatMap (fun c => if c == a then new else [c]) := by
  induction s generalizing fuel with
  | nil => cases fuel <;> rfl
  | cons c t ih =>
    cases fuel with
    | zero => simp at hf
    | succ f =>
      have hf' : t.length ≤ f := by simpa using hf
      simp only [replaceAllAux, isPrefixOf, Bool.and_true, List.flatMap_cons]
      by_cases h : a = c
      · subst h
        simp [ih f hf']
      · have h' : (c == a) = false := by
          rw [beq_eq_false_iff_ne]; exact fun e => h e.symm
        have h'' : (a == c) = false := by rw [beq_eq_false_iff_ne]; exact h
        simp only [h'', h', Bool.false_eq_true, if_false]
        simp [ih f hf']

theorem replaceAll_single (a : UInt8) (new : GoString) (s : GoString) :
    replaceAll s [a] new = s.flatMap (fun c => if c == a then new else [c]) := by
  simp [replaceAll, replaceAllAux_single a new s s.length (Nat.le_refl _)]

end Bexpr.GoString

namespace Bexpr.Peg
open Bexpr Bexpr.GoString

/-! ## JSON-pointer escaping -/

/-- RFC 6901 escaping of one byte: `~` ↦ `~0`, `/` ↦ `~1`. -/
def escByte (c : UInt8) : GoString :=
  if c == 0x7E then [0x7E, 0x30] else if c == 0x2F then [0x7E, 0x31] else [c]

/-- The intermediate string after un-escaping `~1`: only `~` is still escaped. -/
def escTilde (c : UInt8) : GoString := if c == 0x7E then [0x7E, 0x30] else [c]

/-- Escaping `~` first and `/` second is the byte-wise `escByte`. -/
theorem escape_two_steps (p : GoString) :
    replaceAll (replaceAll p [0x7E] [0x7E, 0x30]) [0x2F] [0x7E, 0x31] = p.flatMap escByte := by
  rw [replaceAll_single, replaceAll_single, List.flatMap_assoc]
  congr 1
  funext c
  by_cases h1 : c = 0x7E
  · subst h1; decide
  · by_cases h2 : c = 0x2F
    · subst h2; decide
    · simp [escByte, h1, h2]

/-- An escaped part contains no `/`. -/
theorem escByte_no_slash (p : GoString) : ∀ c ∈ p.flatMap escByte, c ≠ 0x2F := by
  intro c hc
  rw [List.mem_flatMap] at hc
  obtain ⟨x, _, hx⟩ := hc
  unfold escByte at hx
  split at hx
  · simp at hx; rcases hx with rfl | rfl <;> decide
  · split at hx
    · simp at hx; rcases hx with rfl | rfl <;> decide
    · rename_i h1 h2
      simp at hx; subst hx
      simpa using h2

/-- Un-escaping step 1 (`~1` ↦ `/`) on an escaped string. -/
theorem unescape_step1 (p : GoString) (fuel : Nat) (hf : (p.flatMap escByte).length ≤ fuel) :
    replaceAllAux [0x7E, 0x31] [0x2F] fuel (p.flatMap escByte) = p.flatMap escTilde := by
  induction p generalizing fuel with
  | nil => cases fuel <;> rfl
  | cons c t ih =>
    simp only [List.flatMap_cons] at hf ⊢
    by_cases h1 : c = 0x7E
    · subst h1
      have e1 : escByte 0x7E = [0x7E, 0x30] := by decide
      have e2 : escTilde 0x7E = [0x7E, 0x30] := by decide
      rw [e1] at hf ⊢
      rw [e2]
      simp only [List.length_append, List.length_cons, List.length_nil] at hf
      obtain ⟨f, rfl⟩ : ∃ f, fuel = f + 2 := ⟨fuel - 2, by omega⟩
      have := ih f (by omega)
      simp [replaceAllAux, isPrefixOf, this]
    · by_cases h2 : c = 0x2F
      · subst h2
        have e1 : escByte 0x2F = [0x7E, 0x31] := by decide
        have e2 : escTilde 0x2F = [0x2F] := by decide
        rw [e1] at hf ⊢
        rw [e2]
        simp only [List.length_append, List.length_cons, List.length_nil] at hf
        obtain ⟨f, rfl⟩ : ∃ f, fuel = f + 1 := ⟨fuel - 1, by omega⟩
        have := ih f (by omega)
        simp [replaceAllAux, isPrefixOf, this]
      · have e1 : escByte c = [c] := by simp [escByte, h1, h2]
        have e2 : escTilde c = [c] := by simp [escTilde, h1]
        rw [e1] at hf ⊢
        rw [e2]
        simp only [List.length_append, List.length_cons, List.length_nil] at hf
        obtain ⟨f, rfl⟩ : ∃ f, fuel = f + 1 := ⟨fuel - 1, by omega⟩
        have := ih f (by omega)
        have hc : ((0x7E : UInt8) == c) = false := by
          rw [beq_eq_false_iff_ne]; exact fun e => h1 e.symm
        simp [replaceAllAux, isPrefixOf, this, hc]

/-- Un-escaping step 2 (`~0` ↦ `~`). -/
theorem unescape_step2 (p : GoString) (fuel : Nat) (hf : (p.flatMap escTilde).length ≤ fuel) :
    replaceAllAux [0x7E, 0x30] [0x7E] fuel (p.flatMap escTilde) = p := by
  induction p generalizing fuel with
  | nil => cases fuel <;> rfl
  | cons c t ih =>
    simp only [List.flatMap_cons] at hf ⊢
    by_cases h1 : c = 0x7E
    · subst h1
      have e2 : escTilde 0x7E = [0x7E, 0x30] := by decide
      rw [e2] at hf ⊢
      simp only [List.length_append, List.length_cons, List.length_nil] at hf
      obtain ⟨f, rfl⟩ : ∃ f, fuel = f + 1 := ⟨fuel - 1, by omega⟩
      have := ih f (by omega)
      simp [replaceAllAux, isPrefixOf, this]
    · have e2 : escTilde c = [c] := by simp [escTilde, h1]
      rw [e2] at hf ⊢
      simp only [List.length_append, List.length_cons, List.length_nil] at hf
      obtain ⟨f, rfl⟩ : ∃ f, fuel = f + 1 := ⟨fuel - 1, by omega⟩
      have := ih f (by omega)
      have hc : ((0x7E : UInt8) == c) = false := by
          rw [beq_eq_false_iff_ne]; exact fun e => h1 e.symm
      simp [replaceAllAux, isPrefixOf, this, hc]

/-- `ptrUnescape` inverts byte-wise escaping. -/
theorem ptrUnescape_flatMap_escByte (p : GoString) : ptrUnescape (p.flatMap escByte) = p := by
  unfold ptrUnescape
  rw [ofString_tilde1, ofString_slash, ofString_tilde0, ofString_tilde]
  simp only [replaceAll, List.isEmpty_cons, Bool.false_eq_true, if_false]
  rw [unescape_step1 _ _ (Nat.le_refl _), unescape_step2 _ _ (Nat.le_refl _)]

/-! ## `splitSlash` -/

theorem splitSlash_go_noslash (p cur : GoString) (hp : ∀ c ∈ p, c ≠ 47) :
    splitSlash.go p cur = [cur.reverse ++ p] := by
  induction p generalizing cur with
  | nil => simp [splitSlash.go]
  | cons c cs ih =>
    have hc : (c == 47) = false := by simpa using hp c List.mem_cons_self
    simp only [splitSlash.go, hc, Bool.false_eq_true, if_false]
    rw [ih _ (fun x hx => hp x (List.mem_cons_of_mem _ hx))]
    simp

theorem splitSlash_go_slash (p rest cur : GoString) (hp : ∀ c ∈ p, c ≠ 47) :
    splitSlash.go (p ++ 47 :: rest) cur = (cur.reverse ++ p) :: splitSlash.go rest [] := by
  induction p generalizing cur with
  | nil => simp [splitSlash.go]
  | cons c cs ih =>
    have hc : (c == 47) = false := by simpa using hp c List.mem_cons_self
    simp only [List.cons_append, splitSlash.go, hc, Bool.false_eq_true, if_false]
    rw [ih _ (fun x hx => hp x (List.mem_cons_of_mem _ hx))]
    simp

/-- Joining slash-free parts with `/` and splitting at `/` gives the parts back
(for a non-empty list of parts). -/
theorem splitSlash_join (qs : List GoString) (hne : qs ≠ [])
    (hq : ∀ q ∈ qs, ∀ c ∈ q, c ≠ 47) :
    splitSlash (join [0x2F] qs) = qs := by
  unfold splitSlash
  induction qs with
  | nil => exact absurd rfl hne
  | cons p rest ih =>
    cases rest with
    | nil =>
      simp only [join]
      rw [splitSlash_go_noslash _ _ (hq p List.mem_cons_self)]
      simp
    | cons q rest' =>
      simp only [join]
      rw [List.append_assoc]
      show splitSlash.go (p ++ 47 :: join [47] (q :: rest')) [] = _
      rw [splitSlash_go_slash _ _ _ (hq p List.mem_cons_self)]
      rw [ih (by simp) (fun x hx => hq x (List.mem_cons_of_mem _ hx))]
      simp

end Bexpr.Peg

namespace Bexpr.Strconv
open Bexpr Bexpr.GoString Bexpr.Utf8

/-! ## Raw (backquoted) strings -/

theorem span_loop_all {α} (p : α → Bool) (s : List α) (x : α) (rest acc : List α)
    (hs : ∀ a ∈ s, p a = true) (hx : p x = false) :
    List.span.loop p (s ++ x :: rest) acc = (acc.reverse ++ s, x :: rest) := by
  induction s generalizing acc with
  | nil => simp [List.span.loop, hx]
  | cons a t ih =>
    have ha : p a = true := hs a List.mem_cons_self
    simp only [List.cons_append, List.span.loop, ha]
    rw [ih _ (fun b hb => hs b (List.mem_cons_of_mem _ hb))]
    simp

/-- `Unquote` of a backquoted string without backquote and carriage return: verbatim. -/
theorem unquote_backtick (s : GoString) (hs : ∀ b ∈ s, b ≠ 0x60 ∧ b ≠ 0x0D) :
    unquote (0x60 :: (s ++ [0x60])) = some s := by
  have hspan : (s ++ [0x60]).span (· != 0x60) = (s, [0x60]) := by
    have := span_loop_all (· != (0x60 : UInt8)) s 0x60 [] []
      (fun a ha => by simpa using (hs a ha).1) (by decide)
    simpa [List.span] using this
  have hfilter : s.filter (· != 0x0D) = s := by
    rw [List.filter_eq_self]
    intro a ha; simpa using (hs a ha).2
  cases s with
  | nil => rfl
  | cons a t =>
    simp only [List.cons_append] at hspan ⊢
    unfold unquote
    simp only [beq_self_eq_true, if_true, hspan, List.length_cons, List.length_nil, hfilter]

/-! ## Interpreted (double-quoted) strings made of plain bytes -/

/-- A byte that stands for itself inside `"…"`: ASCII, not `"`, not `\`, not newline. -/
def plainByte (b : UInt8) : Bool := b < 0x80 && b != 0x22 && b != 0x5C && b != 0x0A

theorem unquoteBody_plain (s : GoString) (fuel : Nat) (hf : s.length + 1 ≤ fuel)
    (hs : ∀ b ∈ s, plainByte b = true) :
    unquoteBody 0x22 fuel (s ++ [0x22]) = some (s, [0x22]) := by
  induction s generalizing fuel with
  | nil =>
    cases fuel with
    | zero => simp at hf
    | succ f => simp [unquoteBody]
  | cons c t ih =>
    cases fuel with
    | zero => simp at hf
    | succ f =>
      have hc := hs c List.mem_cons_self
      simp only [plainByte, Bool.and_eq_true, bne_iff_ne, ne_eq, decide_eq_true_eq] at hc
      obtain ⟨⟨⟨h80, h22⟩, h5c⟩, h0a⟩ := hc
      have ih' := ih f (by simpa using hf) (fun b hb => hs b (List.mem_cons_of_mem _ hb))
      have e1 : (c == 0x22) = false := by simpa using h22
      have e2 : (c == 0x0A) = false := by simpa using h0a
      have e3 : (c != 0x5C) = true := by simpa using h5c
      have e4 : ¬ c ≥ 0x80 := by simpa using h80
      have e5 : c.toNat < 0x80 := by
        have := UInt8.lt_iff_toNat_lt.mp h80; simpa using this
      simp only [List.cons_append, unquoteBody, e1, Bool.false_eq_true, if_false, e2, unquoteChar,
        Bool.false_and, e4, e3, if_true, ih', unquotedBytes, e5, decide_true, Bool.true_or]
      simp

theorem unquote_plain (s : GoString) (hs : ∀ b ∈ s, plainByte b = true) :
    unquote (0x22 :: (s ++ [0x22])) = some s := by
  cases s with
  | nil => rfl
  | cons a t =>
    have hb := unquoteBody_plain (a :: t) (t.length + 1 + 1) (by simp) hs
    simp only [List.cons_append] at hb ⊢
    unfold unquote
    simp [hb]

end Bexpr.Strconv

namespace Bexpr.Utf8
open Bexpr Bexpr.GoString

theorem toUInt8_toNat_eq {n : Nat} {b : UInt8} (h : n = b.toNat) : n.toUInt8 = b := by
  subst h; simp

theorem toNat_toUInt8_of_lt {n : Nat} (h : n < 256) : n.toUInt8.toNat = n := by
  simp [Nat.toUInt8, UInt8.toNat_ofNat', Nat.mod_eq_of_lt h]

theorem inRange_iff (lo hi : Nat) (b : UInt8) :
    inRange lo hi b = true ↔ lo ≤ b.toNat ∧ b.toNat ≤ hi := by simp [inRange]

theorem isCont_iff (b : UInt8) : isCont b = true ↔ 0x80 ≤ b.toNat ∧ b.toNat ≤ 0xBF := by
  simp [isCont, inRange]

theorem acceptLo_spec (p : Nat) :
    (p = 0xE0 → acceptLo p = 0xA0) ∧ (p = 0xF0 → acceptLo p = 0x90) ∧
    (p ≠ 0xE0 → p ≠ 0xF0 → acceptLo p = 0x80) := by
  unfold acceptLo; refine ⟨?_, ?_, ?_⟩ <;> intros <;> simp_all

theorem acceptHi_spec (p : Nat) :
    (p = 0xED → acceptHi p = 0x9F) ∧ (p = 0xF4 → acceptHi p = 0x8F) ∧
    (p ≠ 0xED → p ≠ 0xF4 → acceptHi p = 0xBF) := by
  unfold acceptHi; refine ⟨?_, ?_, ?_⟩ <;> intros <;> simp_all

theorem validRune_of_lt {r : Nat} (h : r < 0xD800) : validRune r = true := by
  simp [validRune, h]

theorem validRune_of_gt {r : Nat} (h1 : 0xDFFF < r) (h2 : r ≤ 0x10FFFF) : validRune r = true := by
  simp [validRune, maxRune, h1, h2]

theorem encodeRune_1 {r : Nat} (h : r ≤ 0x7F) : encodeRune r = [r.toUInt8] := by
  simp [encodeRune, h]

theorem encodeRune_2 {r : Nat} (h1 : 0x80 ≤ r) (h2 : r ≤ 0x7FF) :
    encodeRune r = [(0xC0 + r / 64).toUInt8, (0x80 + r % 64).toUInt8] := by
  unfold encodeRune
  rw [if_neg (by omega), if_pos h2]

theorem encodeRune_3 {r : Nat} (h1 : 0x800 ≤ r) (h2 : r ≤ 0xFFFF) (h3 : r < 0xD800 ∨ 0xDFFF < r) :
    encodeRune r =
      [(0xE0 + r / 4096).toUInt8, (0x80 + r / 64 % 64).toUInt8, (0x80 + r % 64).toUInt8] := by
  unfold encodeRune maxRune
  rw [if_neg (by omega), if_neg (by omega), if_neg (by simp; omega), if_pos h2]

theorem encodeRune_4 {r : Nat} (h1 : 0x10000 ≤ r) (h2 : r ≤ 0x10FFFF) :
    encodeRune r =
      [(0xF0 + r / 262144).toUInt8, (0x80 + r / 4096 % 64).toUInt8,
       (0x80 + r / 64 % 64).toUInt8, (0x80 + r % 64).toUInt8] := by
  unfold encodeRune maxRune
  rw [if_neg (by omega), if_neg (by omega), if_neg (by simp; omega), if_neg (by omega)]

/-- What `decodeRune` returns on a non-empty input: either the error answer
`(RuneError, 1)`, or a valid rune of width `w` whose encoding is the first `w` bytes. -/
theorem decodeRune_cases (b : UInt8) (t : GoString) :
    decodeRune (b :: t) = (runeError, 1) ∨
    ∃ r w, decodeRune (b :: t) = (r, w) ∧ validRune r = true ∧ 1 ≤ w ∧ w ≤ (b :: t).length ∧
      encodeRune r = (b :: t).take w ∧ (w = 1 → r < 0x80) := by
  have hb : b.toNat < 256 := b.toNat_lt
  unfold decodeRune
  simp only
  split
  · -- ASCII
    rename_i h
    right
    refine ⟨b.toNat, 1, rfl, validRune_of_lt (by omega), by omega, by simp, ?_, fun _ => h⟩
    rw [encodeRune_1 (by omega)]
    simp
  · split
    · left; rfl
    · split
      · -- two bytes
        rename_i h1 h2 h3
        cases t with
        | nil => left; rfl
        | cons b1 t' =>
          simp only
          split
          · rename_i hr
            right
            have hb1 : b1.toNat < 256 := b1.toNat_lt
            rw [inRange_iff] at hr
            generalize hrr : b.toNat % 32 * 64 + contBits b1 = r
            have hrr' : r = b.toNat % 32 * 64 + b1.toNat % 64 := hrr.symm
            refine ⟨r, 2, rfl, validRune_of_lt (by omega), by omega, by simp, ?_, by omega⟩
            rw [encodeRune_2 (by omega) (by omega)]
            simp only [List.take_succ_cons, List.take_zero]
            rw [toUInt8_toNat_eq (b := b) (by omega), toUInt8_toNat_eq (b := b1) (by omega)]
          · left; rfl
      · split
        · -- three bytes
          rename_i h1 h2 h3 h4
          match t with
          | [] => left; rfl
          | [_] => left; rfl
          | b1 :: b2 :: t' =>
            simp only
            split
            · rename_i hr
              right
              have hb1 : b1.toNat < 256 := b1.toNat_lt
              have hb2 : b2.toNat < 256 := b2.toNat_lt
              rw [Bool.and_eq_true, inRange_iff, isCont_iff] at hr
              have hlo := acceptLo_spec b.toNat
              have hhi := acceptHi_spec b.toNat
              generalize acceptLo b.toNat = lo at hr hlo
              generalize acceptHi b.toNat = hi at hr hhi
              generalize hrr : b.toNat % 16 * 4096 + contBits b1 * 64 + contBits b2 = r
              have hrr' : r = b.toNat % 16 * 4096 + b1.toNat % 64 * 64 + b2.toNat % 64 := hrr.symm
              have hv : r < 0xD800 ∨ 0xDFFF < r := by omega
              refine ⟨r, 3, rfl, ?_, by omega, by simp, ?_, by omega⟩
              · rcases hv with hv | hv
                · exact validRune_of_lt hv
                · exact validRune_of_gt hv (by omega)
              · rw [encodeRune_3 (by omega) (by omega) hv]
                simp only [List.take_succ_cons, List.take_zero]
                rw [toUInt8_toNat_eq (b := b) (by omega), toUInt8_toNat_eq (b := b1) (by omega),
                  toUInt8_toNat_eq (b := b2) (by omega)]
            · left; rfl
        · split
          · -- four bytes
            rename_i h1 h2 h3 h4 h5
            match t with
            | [] => left; rfl
            | [_] => left; rfl
            | [_, _] => left; rfl
            | b1 :: b2 :: b3 :: t' =>
              simp only
              split
              · rename_i hr
                right
                have hb1 : b1.toNat < 256 := b1.toNat_lt
                have hb2 : b2.toNat < 256 := b2.toNat_lt
                have hb3 : b3.toNat < 256 := b3.toNat_lt
                rw [Bool.and_eq_true, Bool.and_eq_true, inRange_iff, isCont_iff, isCont_iff] at hr
                have hlo := acceptLo_spec b.toNat
                have hhi := acceptHi_spec b.toNat
                generalize acceptLo b.toNat = lo at hr hlo
                generalize acceptHi b.toNat = hi at hr hhi
                generalize hrr : b.toNat % 8 * 262144 + contBits b1 * 4096 + contBits b2 * 64 +
                  contBits b3 = r
                have hrr' : r = b.toNat % 8 * 262144 + b1.toNat % 64 * 4096 + b2.toNat % 64 * 64 +
                  b3.toNat % 64 := hrr.symm
                refine ⟨r, 4, rfl, validRune_of_gt (by omega) (by omega), by omega, by simp, ?_,
                  by omega⟩
                rw [encodeRune_4 (by omega) (by omega)]
                simp only [List.take_succ_cons, List.take_zero]
                rw [toUInt8_toNat_eq (b := b) (by omega), toUInt8_toNat_eq (b := b1) (by omega),
                  toUInt8_toNat_eq (b := b2) (by omega), toUInt8_toNat_eq (b := b3) (by omega)]
              · left; rfl
          · left; rfl


/-- Decoding an encoded valid non-ASCII rune (followed by anything) gives the rune
back, with the width of its encoding. -/
theorem decodeRune_encodeRune (r : Nat) (hv : validRune r = true) (h80 : 0x80 ≤ r)
    (rest : GoString) :
    decodeRune (encodeRune r ++ rest) = (r, (encodeRune r).length) := by
  have hv' : r < 0xD800 ∨ (0xDFFF < r ∧ r ≤ 0x10FFFF) := by
    unfold validRune maxRune at hv
    simp only [Bool.or_eq_true, Bool.and_eq_true, decide_eq_true_eq] at hv
    exact hv
  by_cases h2 : r ≤ 0x7FF
  · rw [encodeRune_2 h80 h2]
    generalize hB0 : (0xC0 + r / 64).toUInt8 = B0
    generalize hB1 : (0x80 + r % 64).toUInt8 = B1
    have e0 : B0.toNat = 0xC0 + r / 64 := by rw [← hB0]; exact toNat_toUInt8_of_lt (by omega)
    have e1 : B1.toNat = 0x80 + r % 64 := by rw [← hB1]; exact toNat_toUInt8_of_lt (by omega)
    simp only [List.cons_append, List.nil_append, decodeRune, List.length_cons, List.length_nil]
    rw [if_neg (by omega), if_neg (by omega), if_pos (by omega),
      (inRange_iff _ _ _).mpr ⟨by omega, by omega⟩]
    simp only [if_true, contBits]
    congr 1
    omega
  · by_cases h3 : r ≤ 0xFFFF
    · rw [encodeRune_3 (by omega) h3 (by omega)]
      generalize hB0 : (0xE0 + r / 4096).toUInt8 = B0
      generalize hB1 : (0x80 + r / 64 % 64).toUInt8 = B1
      generalize hB2 : (0x80 + r % 64).toUInt8 = B2
      have e0 : B0.toNat = 0xE0 + r / 4096 := by rw [← hB0]; exact toNat_toUInt8_of_lt (by omega)
      have e1 : B1.toNat = 0x80 + r / 64 % 64 := by
        rw [← hB1]; exact toNat_toUInt8_of_lt (by omega)
      have e2 : B2.toNat = 0x80 + r % 64 := by rw [← hB2]; exact toNat_toUInt8_of_lt (by omega)
      have hlo := acceptLo_spec B0.toNat
      have hhi := acceptHi_spec B0.toNat
      simp only [List.cons_append, List.nil_append, decodeRune, List.length_cons, List.length_nil]
      rw [if_neg (by omega), if_neg (by omega), if_neg (by omega), if_pos (by omega),
        (inRange_iff _ _ _).mpr ⟨by omega, by omega⟩, (isCont_iff _).mpr ⟨by omega, by omega⟩]
      simp only [Bool.and_self, if_true, contBits]
      congr 1
      omega
    · have h4 : r ≤ 0x10FFFF := by omega
      rw [encodeRune_4 (by omega) h4]
      generalize hB0 : (0xF0 + r / 262144).toUInt8 = B0
      generalize hB1 : (0x80 + r / 4096 % 64).toUInt8 = B1
      generalize hB2 : (0x80 + r / 64 % 64).toUInt8 = B2
      generalize hB3 : (0x80 + r % 64).toUInt8 = B3
      have e0 : B0.toNat = 0xF0 + r / 262144 := by
        rw [← hB0]; exact toNat_toUInt8_of_lt (by omega)
      have e1 : B1.toNat = 0x80 + r / 4096 % 64 := by
        rw [← hB1]; exact toNat_toUInt8_of_lt (by omega)
      have e2 : B2.toNat = 0x80 + r / 64 % 64 := by
        rw [← hB2]; exact toNat_toUInt8_of_lt (by omega)
      have e3 : B3.toNat = 0x80 + r % 64 := by rw [← hB3]; exact toNat_toUInt8_of_lt (by omega)
      have hlo := acceptLo_spec B0.toNat
      have hhi := acceptHi_spec B0.toNat
      simp only [List.cons_append, List.nil_append, decodeRune, List.length_cons, List.length_nil]
      rw [if_neg (by omega), if_neg (by omega), if_neg (by omega), if_neg (by omega),
        if_pos (by omega),
        (inRange_iff _ _ _).mpr ⟨by omega, by omega⟩, (isCont_iff _).mpr ⟨by omega, by omega⟩,
        (isCont_iff _).mpr ⟨by omega, by omega⟩]
      rw [if_pos (by decide)]
      show (B0.toNat % 8 * 262144 + B1.toNat % 64 * 4096 + B2.toNat % 64 * 64 + B3.toNat % 64, 4)
        = (r, 4)
      congr 1
      omega

/-- The first byte of a multi-byte encoding is `≥ 0x80`. -/
theorem encodeRune_head (r : Nat) (h80 : 0x80 ≤ r) :
    ∃ c ch, encodeRune r = c :: ch ∧ 0x80 ≤ c.toNat := by
  unfold encodeRune maxRune
  rw [if_neg (by omega)]
  split
  · exact ⟨_, _, rfl, by rw [toNat_toUInt8_of_lt (by omega)]; omega⟩
  · split
    · exact ⟨_, _, rfl, by decide⟩
    · split
      · exact ⟨_, _, rfl, by rw [toNat_toUInt8_of_lt (by omega)]; omega⟩
      · rename_i h1 h2 h3
        have : r ≤ 0x10FFFF := by
          simp at h2; omega
        exact ⟨_, _, rfl, by rw [toNat_toUInt8_of_lt (by omega)]; omega⟩

end Bexpr.Utf8

namespace Bexpr.Strconv
open Bexpr Bexpr.GoString Bexpr.Utf8

theorem unhex_lowerHexByte : ∀ d, d < 16 → unhex (lowerHexByte d) = some d := by decide

theorem hexRun_two (a b : Nat) (ha : a < 16) (hb : b < 16) (rest : GoString) (v : Nat) :
    hexRun 2 (lowerHexByte a :: lowerHexByte b :: rest) v = some ((v * 16 + a) * 16 + b, rest) := by
  simp [hexRun, unhex_lowerHexByte a ha, unhex_lowerHexByte b hb]

theorem hexRun_four (a b c d : Nat) (ha : a < 16) (hb : b < 16) (hc : c < 16) (hd : d < 16)
    (rest : GoString) (v : Nat) :
    hexRun 4 (lowerHexByte a :: lowerHexByte b :: lowerHexByte c :: lowerHexByte d :: rest) v =
      some ((((v * 16 + a) * 16 + b) * 16 + c) * 16 + d, rest) := by
  simp [hexRun, unhex_lowerHexByte a ha, unhex_lowerHexByte b hb, unhex_lowerHexByte c hc,
    unhex_lowerHexByte d hd]

/-- The bytes `unquote` appends for a decoded multibyte rune are its encoding. -/
theorem unquotedBytes_multibyte (r : Nat) (t : GoString) :
    unquotedBytes ⟨r, true, t⟩ = encodeRune r := by
  unfold unquotedBytes
  by_cases h : r < 0x80
  · simp [h, encodeRune_1 (show r ≤ 0x7F by omega)]
  · simp [h]

theorem unquotedBytes_single (r : Nat) (t : GoString) :
    unquotedBytes ⟨r, false, t⟩ = [r.toUInt8] := by
  simp [unquotedBytes]

/-- One round of the `unquote` loop on a chunk `c :: ch` that `UnquoteChar` reads as
the bytes `src`. -/
theorem unquoteBody_chunk {c : UInt8} {ch src rest : GoString} {v : Nat} {mb : Bool} (f : Nat)
    (hq : c ≠ 0x22) (hn : c ≠ 0x0A)
    (hu : unquoteChar (c :: (ch ++ rest)) 0x22 = some ⟨v, mb, rest⟩)
    (hsrc : unquotedBytes ⟨v, mb, rest⟩ = src) :
    unquoteBody 0x22 (f + 1) (c :: (ch ++ rest)) =
      match unquoteBody 0x22 f rest with
      | none => none
      | some (out, r) => some (src ++ out, r) := by
  have e1 : (c == 0x22) = false := by simpa using hq
  have e2 : (c == 0x0A) = false := by simpa using hn
  simp only [unquoteBody, e1, e2, Bool.false_eq_true, if_false, hu]
  have : ((0x22 : UInt8) == 0x27) = false := by decide
  simp only [this, Bool.false_eq_true, if_false, hsrc]
  generalize unquoteBody 0x22 f rest = o
  cases o with
  | none => rfl
  | some p => cases p; rfl

/-! ### What `UnquoteChar` reads from each chunk `Quote` writes -/

theorem unquoteChar_escX (v : Nat) (hv : v < 256) (rest : GoString) :
    unquoteChar (escX v ++ rest) 0x22 = some ⟨v, false, rest⟩ := by
  have h := hexRun_two (v / 16 % 16) (v % 16) (Nat.mod_lt _ (by omega)) (Nat.mod_lt _ (by omega))
    rest 0
  have hv' : (0 * 16 + v / 16 % 16) * 16 + v % 16 = v := by omega
  rw [hv'] at h
  simp [escX, unquoteChar, unquoteEscape, h]

theorem unquoteChar_escU4 (r : Nat) (hr : r < 65536) (hv : validRune r = true) (rest : GoString) :
    unquoteChar (escU4 r ++ rest) 0x22 = some ⟨r, true, rest⟩ := by
  have h := hexRun_four (r / 4096 % 16) (r / 256 % 16) (r / 16 % 16) (r % 16)
    (Nat.mod_lt _ (by omega)) (Nat.mod_lt _ (by omega)) (Nat.mod_lt _ (by omega))
    (Nat.mod_lt _ (by omega)) rest 0
  have hv' : (((0 * 16 + r / 4096 % 16) * 16 + r / 256 % 16) * 16 + r / 16 % 16) * 16 + r % 16
      = r := by omega
  rw [hv'] at h
  simp [escU4, unquoteChar, unquoteEscape, h, hv]

theorem hexRun_append (n m : Nat) (xs : GoString) (v w : Nat) (ys : GoString)
    (h : hexRun n xs v = some (w, ys)) : hexRun (n + m) xs v = hexRun m ys w := by
  induction n generalizing xs v with
  | zero =>
    simp only [hexRun] at h
    obtain ⟨rfl, rfl⟩ := Prod.mk.inj (Option.some.inj h)
    simp
  | succ k ih =>
    cases xs with
    | nil => simp [hexRun] at h
    | cons c cs =>
      rw [show k + 1 + m = (k + m) + 1 by omega]
      simp only [hexRun] at h ⊢
      cases hc : unhex c with
      | none => simp [hc] at h
      | some x =>
        simp only [hc] at h ⊢
        exact ih _ _ h

theorem unquoteChar_escU8 (r : Nat) (hr : r < 4294967296) (hv : validRune r = true)
    (rest : GoString) :
    unquoteChar (escU8 r ++ rest) 0x22 = some ⟨r, true, rest⟩ := by
  have h1 := hexRun_four (r / 268435456 % 16) (r / 16777216 % 16) (r / 1048576 % 16)
    (r / 65536 % 16)
    (Nat.mod_lt _ (by omega)) (Nat.mod_lt _ (by omega)) (Nat.mod_lt _ (by omega))
    (Nat.mod_lt _ (by omega))
    (lowerHexByte (r / 4096 % 16) :: lowerHexByte (r / 256 % 16) :: lowerHexByte (r / 16 % 16) ::
      lowerHexByte (r % 16) :: rest) 0
  have h2 := hexRun_four (r / 4096 % 16) (r / 256 % 16) (r / 16 % 16) (r % 16)
    (Nat.mod_lt _ (by omega)) (Nat.mod_lt _ (by omega)) (Nat.mod_lt _ (by omega))
    (Nat.mod_lt _ (by omega)) rest
    ((((0 * 16 + r / 268435456 % 16) * 16 + r / 16777216 % 16) * 16 + r / 1048576 % 16) * 16 +
      r / 65536 % 16)
  have h := hexRun_append 4 4 _ _ _ _ h1
  rw [h2] at h
  have hv' : ((((((((0 * 16 + r / 268435456 % 16) * 16 + r / 16777216 % 16) * 16 +
      r / 1048576 % 16) * 16 + r / 65536 % 16) * 16 + r / 4096 % 16) * 16 + r / 256 % 16) * 16 +
      r / 16 % 16) * 16 + r % 16) = r := by omega
  rw [hv'] at h
  simp only [Nat.reduceAdd] at h
  simp [escU8, unquoteChar, unquoteEscape, h, hv]

theorem isPrint_newline : Bexpr.Unicode.isPrint 10 = false := by decide +kernel

/-- A chunk `Quote` writes for one source unit with bytes `src`: it starts with a byte
that is neither `"` nor newline, and `UnquoteChar` reads it back as `src`, leaving
exactly what follows the chunk. -/
def ChunkOK (chunk src : GoString) : Prop :=
  ∃ c ch, chunk = c :: ch ∧ c ≠ 0x22 ∧ c ≠ 0x0A ∧
    ∀ rest, ∃ v mb, unquoteChar (c :: (ch ++ rest)) 0x22 = some ⟨v, mb, rest⟩ ∧
      unquotedBytes ⟨v, mb, rest⟩ = src

theorem chunkOK_escX (v : Nat) (hv : v < 256) : ChunkOK (escX v) [v.toUInt8] :=
  ⟨0x5C, _, rfl, by decide, by decide, fun rest =>
    ⟨v, false, unquoteChar_escX v hv rest, unquotedBytes_single v rest⟩⟩

theorem chunkOK_simple (e : UInt8) (v : Nat)
    (h : ∀ rest, unquoteChar (0x5C :: ([e] ++ rest)) 0x22 = some ⟨v, false, rest⟩) :
    ChunkOK [0x5C, e] [v.toUInt8] :=
  ⟨0x5C, [e], rfl, by decide, by decide, fun rest => ⟨v, false, h rest, unquotedBytes_single v rest⟩⟩

/-- `appendEscapedRune` for a valid rune is read back as the UTF-8 encoding of the rune. -/
theorem chunkOK_escapedRune (r : Nat) (hv : validRune r = true) :
    ChunkOK (escapedRune r) (encodeRune r) := by
  have hv' : r < 0xD800 ∨ (0xDFFF < r ∧ r ≤ 0x10FFFF) := by
    unfold validRune maxRune at hv
    simp only [Bool.or_eq_true, Bool.and_eq_true, decide_eq_true_eq] at hv
    exact hv
  unfold escapedRune
  by_cases h1 : r = 0x22
  · subst h1
    exact chunkOK_simple 0x22 0x22 (fun rest => by simp [unquoteChar, unquoteEscape])
  by_cases h2 : r = 0x5C
  · subst h2
    exact chunkOK_simple 0x5C 0x5C (fun rest => by simp [unquoteChar, unquoteEscape])
  have h12 : (r == 0x22 || r == 0x5C) = false := by simp [h1, h2]
  simp only [h12, Bool.false_eq_true, if_false]
  by_cases hp : Bexpr.Unicode.isPrint r = true
  · simp only [hp, if_true]
    by_cases h80 : r < 0x80
    · -- printable ASCII: the byte itself
      have hne : r ≠ 10 := by
        intro h; subst h; rw [isPrint_newline] at hp; exact absurd hp (by decide)
      rw [encodeRune_1 (by omega)]
      have hc : r.toUInt8.toNat = r := toNat_toUInt8_of_lt (by omega)
      have n1 : r.toUInt8 ≠ 0x22 := fun h => h1 (by rw [← hc, h]; rfl)
      have n2 : r.toUInt8 ≠ 0x0A := fun h => hne (by rw [← hc, h]; rfl)
      have n3 : r.toUInt8 ≠ 0x5C := fun h => h2 (by rw [← hc, h]; rfl)
      have n4 : ¬ r.toUInt8 ≥ 0x80 := by
        intro h; have := UInt8.le_iff_toNat_le.mp h; rw [hc] at this; simp at this; omega
      refine ⟨r.toUInt8, [], rfl, n1, n2, fun rest => ⟨r, false, ?_, unquotedBytes_single r rest⟩⟩
      have e1 : (r.toUInt8 == 0x22) = false := by simpa using n1
      have e3 : (r.toUInt8 != 0x5C) = true := by simpa using n3
      simp only [List.nil_append, unquoteChar, e1, Bool.false_and, Bool.false_eq_true, if_false,
        n4, e3, if_true, hc]
    · -- printable non-ASCII: the UTF-8 encoding, decoded back
      obtain ⟨c, ch, hcc, hc80⟩ := encodeRune_head r (by omega)
      have n1 : c ≠ 0x22 := by intro h; subst h; simp at hc80
      have n2 : c ≠ 0x0A := by intro h; subst h; simp at hc80
      have hge : c ≥ 0x80 := UInt8.le_iff_toNat_le.mpr (by simpa using hc80)
      refine ⟨c, ch, hcc, n1, n2, fun rest =>
        ⟨r, true, ?_, unquotedBytes_multibyte r rest⟩⟩
      have hdec := decodeRune_encodeRune r hv (by omega) rest
      rw [hcc] at hdec
      have e1 : (c == 0x22) = false := by simpa using n1
      simp only [unquoteChar, e1, Bool.false_and, Bool.false_eq_true, if_false, hge, if_true]
      rw [show c :: (ch ++ rest) = (c :: ch) ++ rest from rfl, hdec]
      simp
  · simp only [hp, Bool.false_eq_true, if_false]
    by_cases c7 : r = 7
    · subst c7; exact chunkOK_simple 0x61 7 (fun rest => by simp [unquoteChar, unquoteEscape])
    by_cases c8 : r = 8
    · subst c8; exact chunkOK_simple 0x62 8 (fun rest => by simp [unquoteChar, unquoteEscape])
    by_cases c12 : r = 12
    · subst c12; exact chunkOK_simple 0x66 12 (fun rest => by simp [unquoteChar, unquoteEscape])
    by_cases c10 : r = 10
    · subst c10; exact chunkOK_simple 0x6E 10 (fun rest => by simp [unquoteChar, unquoteEscape])
    by_cases c13 : r = 13
    · subst c13; exact chunkOK_simple 0x72 13 (fun rest => by simp [unquoteChar, unquoteEscape])
    by_cases c9 : r = 9
    · subst c9; exact chunkOK_simple 0x74 9 (fun rest => by simp [unquoteChar, unquoteEscape])
    by_cases c11 : r = 11
    · subst c11; exact chunkOK_simple 0x76 11 (fun rest => by simp [unquoteChar, unquoteEscape])
    have hcs : (r == 7) = false ∧ (r == 8) = false ∧ (r == 12) = false ∧ (r == 10) = false ∧
        (r == 13) = false ∧ (r == 9) = false ∧ (r == 11) = false := by
      simp [c7, c8, c12, c10, c13, c9, c11]
    obtain ⟨d7, d8, d12, d10, d13, d9, d11⟩ := hcs
    simp only [d7, d8, d12, d10, d13, d9, d11, Bool.false_eq_true, if_false]
    by_cases hctl : (decide (r < 0x20) || r == 0x7F) = true
    · simp only [hctl, if_true]
      have hr : r < 256 := by
        simp only [Bool.or_eq_true, decide_eq_true_eq, beq_iff_eq] at hctl; omega
      have hr' : r ≤ 0x7F := by
        simp only [Bool.or_eq_true, decide_eq_true_eq, beq_iff_eq] at hctl; omega
      rw [encodeRune_1 hr']
      exact chunkOK_escX r hr
    · simp only [hctl, Bool.false_eq_true, if_false, hv, Bool.not_true]
      by_cases h16 : r < 0x10000
      · simp only [h16, if_true]
        exact ⟨0x5C, _, rfl, by decide, by decide, fun rest =>
          ⟨r, true, unquoteChar_escU4 r h16 hv rest, unquotedBytes_multibyte r rest⟩⟩
      · simp only [h16, if_false]
        exact ⟨0x5C, _, rfl, by decide, by decide, fun rest =>
          ⟨r, true, unquoteChar_escU8 r (by omega) hv rest, unquotedBytes_multibyte r rest⟩⟩

/-- The loop of `appendQuotedWith` with the rune escaper as a parameter: `quoteBody`
is the instance `escapedRune`; the bexpr renderer of the harness uses a variant that
writes `\x22` for a double quote. -/
def quoteBodyWith (esc : Nat → GoString) : Nat → GoString → GoString
  | _, [] => []
  | 0, _ :: _ => []
  | fuel + 1, b :: t =>
    let rw := decodeRune (b :: t)
    if rw.2 == 1 && rw.1 == runeError then escX b.toNat ++ quoteBodyWith esc fuel t
    else esc rw.1 ++ quoteBodyWith esc fuel ((b :: t).drop rw.2)

theorem quoteBody_eq_quoteBodyWith (n : Nat) (s : GoString) :
    quoteBody n s = quoteBodyWith escapedRune n s := by
  induction n generalizing s with
  | zero => cases s <;> rfl
  | succ n ih =>
    cases s with
    | nil => rfl
    | cons b t =>
      simp only [quoteBody, quoteBodyWith, ih]

/-- The `unquote` loop reads back everything the `Quote` loop wrote, for EVERY byte
string (valid UTF-8 or not) and every rune escaper whose chunks are read back as the
rune's encoding. -/
theorem unquoteBody_quoteBodyWith (esc : Nat → GoString)
    (hesc : ∀ r, validRune r = true → ChunkOK (esc r) (encodeRune r)) (n : Nat) :
    ∀ (s : GoString) (fuel : Nat), s.length ≤ n →
    (quoteBodyWith esc n s).length + 1 ≤ fuel →
    unquoteBody 0x22 fuel (quoteBodyWith esc n s ++ [0x22]) = some (s, [0x22]) := by
  induction n with
  | zero =>
    intro s fuel hs hf
    have : s = [] := List.eq_nil_of_length_eq_zero (by omega)
    subst this
    cases fuel with
    | zero => simp at hf
    | succ f => simp [quoteBodyWith, unquoteBody]
  | succ n ih =>
    intro s fuel hs hf
    cases s with
    | nil =>
      cases fuel with
      | zero => simp at hf
      | succ f => simp [quoteBodyWith, unquoteBody]
    | cons b t =>
      -- one chunk, then the induction hypothesis on the remaining input
      have step : ∀ (chunk src rem : GoString), ChunkOK chunk src →
          quoteBodyWith esc (n + 1) (b :: t) = chunk ++ quoteBodyWith esc n rem → rem.length ≤ n →
          src ++ rem = b :: t →
          unquoteBody 0x22 fuel (quoteBodyWith esc (n + 1) (b :: t) ++ [0x22]) =
            some (b :: t, [0x22]) := by
        intro chunk src rem hok hq hrem hsrc
        obtain ⟨c, ch, rfl, n1, n2, hread⟩ := hok
        rw [hq] at hf ⊢
        obtain ⟨v, mb, hu, hb⟩ := hread (quoteBodyWith esc n rem ++ [0x22])
        simp only [List.length_append, List.length_cons] at hf
        obtain ⟨f, rfl⟩ : ∃ f, fuel = f + 1 := ⟨fuel - 1, by omega⟩
        rw [show (c :: ch ++ quoteBodyWith esc n rem) ++ [0x22] =
          c :: (ch ++ (quoteBodyWith esc n rem ++ [0x22])) by simp]
        rw [unquoteBody_chunk f n1 n2 hu hb, ih rem f hrem (by omega)]
        simp [hsrc]
      rcases decodeRune_cases b t with herr | ⟨r, w, hdec, hv, hw1, hw2, henc, hasc⟩
      · -- an invalid byte: `\xHH`
        refine step (escX b.toNat) [b] t ?_ ?_ (by simpa using hs) rfl
        · have := chunkOK_escX b.toNat b.toNat_lt
          simpa using this
        · simp [quoteBodyWith, herr, runeError]
      · -- a well-formed rune of width `w`
        refine step (esc r) (encodeRune r) ((b :: t).drop w) (hesc r hv) ?_ ?_ ?_
        · have hne : ¬ (w = 1 ∧ r = runeError) := by
            intro ⟨h1, h2⟩
            have := hasc h1
            rw [h2] at this
            simp [runeError] at this
          simp only [quoteBodyWith, hdec]
          have : ((w == 1) && (r == runeError)) = false := by
            rw [Bool.eq_false_iff]; intro h
            simp only [Bool.and_eq_true, beq_iff_eq] at h
            exact hne h
          simp [this]
        · simp only [List.length_drop, List.length_cons] at hs ⊢
          omega
        · rw [henc]; exact List.take_append_drop w (b :: t)

theorem unquoteBody_quoteBody (n : Nat) (s : GoString) (fuel : Nat) (hs : s.length ≤ n)
    (hf : (quoteBody n s).length + 1 ≤ fuel) :
    unquoteBody 0x22 fuel (quoteBody n s ++ [0x22]) = some (s, [0x22]) := by
  rw [quoteBody_eq_quoteBodyWith] at hf ⊢
  exact unquoteBody_quoteBodyWith escapedRune chunkOK_escapedRune n s fuel hs hf

/-- `unquote` of an opening quote, a body that the loop reads back as `s`, and a
closing quote. -/
theorem unquote_of_body (q s : GoString)
    (h : unquoteBody 0x22 (q ++ [0x22]).length (q ++ [0x22]) = some (s, [0x22])) :
    unquote (0x22 :: (q ++ [0x22])) = some s := by
  unfold unquote
  cases q with
  | nil => simp at h ⊢; simpa [unquoteBody] using h
  | cons a t =>
    simp only [List.cons_append, List.length_cons, List.length_append, List.length_nil] at h ⊢
    simp [h]

/-- `Unquote(Quote(s)) = s` for every byte string. -/
theorem unquote_quote (s : GoString) : unquote (quote s) = some s := by
  unfold quote
  exact unquote_of_body _ s
    (unquoteBody_quoteBody s.length s _ (Nat.le_refl _) (by simp))

/-! ### The renderer's variant: `\x22` instead of `\"` -/

/-- `appendEscapedRune` as used by the bexpr renderer: a double quote is written
`\x22` (the grammar's double-quoted literal cannot contain `"` in any form), every
other rune as `strconv.Quote` writes it. -/
def escapedRuneX22 (r : Nat) : GoString :=
  if r == 0x22 then escX 0x22 else escapedRune r

/-- The renderer's double-quoted literal: `strconv.Quote(s)` with every `\"`
written `\x22` (harness: `quoteDouble`). -/
def quoteX22 (s : GoString) : GoString :=
  0x22 :: (quoteBodyWith escapedRuneX22 s.length s ++ [0x22])

theorem chunkOK_escapedRuneX22 (r : Nat) (hv : validRune r = true) :
    ChunkOK (escapedRuneX22 r) (encodeRune r) := by
  unfold escapedRuneX22
  by_cases h : r = 0x22
  · subst h
    exact chunkOK_escX 0x22 (by decide)
  · have : (r == 0x22) = false := by simpa using h
    simp only [this, Bool.false_eq_true, if_false]
    exact chunkOK_escapedRune r hv

/-- The renderer's literal is read back as the original string, for every byte string. -/
theorem unquote_quoteX22 (s : GoString) : unquote (quoteX22 s) = some s := by
  unfold quoteX22
  exact unquote_of_body _ s
    (unquoteBody_quoteBodyWith escapedRuneX22 chunkOK_escapedRuneX22 s.length s _
      (Nat.le_refl _) (by simp))

/-! #### … and it contains no double quote between the delimiters -/

theorem lowerHexByte_ne_quote : ∀ d, d < 16 → lowerHexByte d ≠ 0x22 := by decide

theorem escX_noQuote (v : Nat) : ∀ c ∈ escX v, c ≠ 0x22 := by
  intro c hc
  simp only [escX, List.mem_cons, List.not_mem_nil, or_false] at hc
  rcases hc with rfl | rfl | rfl | rfl
  · decide
  · decide
  · exact lowerHexByte_ne_quote _ (Nat.mod_lt _ (by omega))
  · exact lowerHexByte_ne_quote _ (Nat.mod_lt _ (by omega))

theorem escU4_noQuote (v : Nat) : ∀ c ∈ escU4 v, c ≠ 0x22 := by
  intro c hc
  simp only [escU4, List.mem_cons, List.not_mem_nil, or_false] at hc
  rcases hc with rfl | rfl | rfl | rfl | rfl | rfl
  · decide
  · decide
  all_goals exact lowerHexByte_ne_quote _ (Nat.mod_lt _ (by omega))

theorem escU8_noQuote (v : Nat) : ∀ c ∈ escU8 v, c ≠ 0x22 := by
  intro c hc
  simp only [escU8, List.mem_cons, List.not_mem_nil, or_false] at hc
  rcases hc with rfl | rfl | rfl | rfl | rfl | rfl | rfl | rfl | rfl | rfl
  · decide
  · decide
  all_goals exact lowerHexByte_ne_quote _ (Nat.mod_lt _ (by omega))

/-- The bytes of a UTF-8 encoding are never `"` unless the rune is `"`. -/
theorem encodeRune_noQuote (r : Nat) (h : r ≠ 0x22) : ∀ c ∈ encodeRune r, c ≠ 0x22 := by
  have ne : ∀ n : Nat, n < 256 → n ≠ 0x22 → n.toUInt8 ≠ 0x22 := by
    intro n hn hne e
    have := congrArg UInt8.toNat e
    rw [toNat_toUInt8_of_lt hn] at this
    exact hne (this.trans (by decide))
  have key : ∀ x : Nat, x < 64 → (0x80 + x).toUInt8 ≠ 0x22 ∧ (0xC0 + x).toUInt8 ≠ 0x22 := by
    intro x hx
    exact ⟨ne _ (by omega) (by omega), ne _ (by omega) (by omega)⟩
  intro c hc
  unfold encodeRune maxRune at hc
  split at hc
  · rename_i h1
    simp only [List.mem_cons, List.not_mem_nil, or_false] at hc
    subst hc
    exact ne _ (by omega) h
  · split at hc
    · rename_i h1 h2
      simp only [List.mem_cons, List.not_mem_nil, or_false] at hc
      rcases hc with rfl | rfl
      · exact (key (r / 64) (by omega)).2
      · exact (key (r % 64) (by omega)).1
    · split at hc
      · simp only [List.mem_cons, List.not_mem_nil, or_false] at hc
        rcases hc with rfl | rfl | rfl <;> decide
      · rename_i h1 h2 h3
        have h3' : r ≤ 0x10FFFF := by
          simp only [Bool.or_eq_true, decide_eq_true_eq, Bool.and_eq_true, not_or, Nat.not_lt] at h3
          omega
        split at hc
        · simp only [List.mem_cons, List.not_mem_nil, or_false] at hc
          rcases hc with rfl | rfl | rfl
          · exact ne _ (by omega) (by omega)
          · exact (key (r / 64 % 64) (by omega)).1
          · exact (key (r % 64) (by omega)).1
        · simp only [List.mem_cons, List.not_mem_nil, or_false] at hc
          rcases hc with rfl | rfl | rfl | rfl
          · exact ne _ (by omega) (by omega)
          · exact (key (r / 4096 % 64) (by omega)).1
          · exact (key (r / 64 % 64) (by omega)).1
          · exact (key (r % 64) (by omega)).1

/-- The possible shapes of `appendEscapedRune`'s output. -/
def EscShape (r : Nat) (out : GoString) : Prop :=
  ((r = 0x22 ∨ r = 0x5C) ∧ out = [0x5C, r.toUInt8]) ∨
  out = encodeRune r ∨
  (∃ e, e ∈ [(0x61 : UInt8), 0x62, 0x66, 0x6E, 0x72, 0x74, 0x76] ∧ out = [0x5C, e]) ∨
  (∃ v, out = escX v) ∨ (∃ v, out = escU4 v) ∨ (∃ v, out = escU8 v)

theorem escapedRune_shape (r : Nat) : EscShape r (escapedRune r) := by
  unfold escapedRune
  split
  · rename_i h
    exact .inl ⟨by simpa using h, rfl⟩
  split
  · exact .inr (.inl rfl)
  split
  · exact .inr (.inr (.inl ⟨0x61, by decide, rfl⟩))
  split
  · exact .inr (.inr (.inl ⟨0x62, by decide, rfl⟩))
  split
  · exact .inr (.inr (.inl ⟨0x66, by decide, rfl⟩))
  split
  · exact .inr (.inr (.inl ⟨0x6E, by decide, rfl⟩))
  split
  · exact .inr (.inr (.inl ⟨0x72, by decide, rfl⟩))
  split
  · exact .inr (.inr (.inl ⟨0x74, by decide, rfl⟩))
  split
  · exact .inr (.inr (.inl ⟨0x76, by decide, rfl⟩))
  split
  · exact .inr (.inr (.inr (.inl ⟨_, rfl⟩)))
  split
  · exact .inr (.inr (.inr (.inr (.inl ⟨_, rfl⟩))))
  split
  · exact .inr (.inr (.inr (.inr (.inl ⟨_, rfl⟩))))
  · exact .inr (.inr (.inr (.inr (.inr ⟨_, rfl⟩))))

theorem escapedRuneX22_noQuote (r : Nat) : ∀ c ∈ escapedRuneX22 r, c ≠ 0x22 := by
  unfold escapedRuneX22
  by_cases h : r = 0x22
  · subst h; exact escX_noQuote _
  · have h' : (r == 0x22) = false := by simpa using h
    simp only [h', Bool.false_eq_true, if_false]
    intro c hc
    rcases escapedRune_shape r with ⟨hr, he⟩ | he | ⟨e, hmem, he⟩ | ⟨v, he⟩ | ⟨v, he⟩ | ⟨v, he⟩
    · rcases hr with hr | hr
      · exact absurd hr h
      · subst hr
        rw [he] at hc
        simp only [List.mem_cons, List.not_mem_nil, or_false] at hc
        rcases hc with rfl | rfl <;> decide
    · rw [he] at hc; exact encodeRune_noQuote r h c hc
    · rw [he] at hc
      simp only [List.mem_cons, List.not_mem_nil, or_false] at hc hmem
      rcases hc with rfl | rfl
      · decide
      · rcases hmem with rfl | rfl | rfl | rfl | rfl | rfl | rfl <;> decide
    · rw [he] at hc; exact escX_noQuote _ c hc
    · rw [he] at hc; exact escU4_noQuote _ c hc
    · rw [he] at hc; exact escU8_noQuote _ c hc

theorem quoteBodyWith_noQuote (esc : Nat → GoString) (hesc : ∀ r, ∀ c ∈ esc r, c ≠ 0x22)
    (n : Nat) (s : GoString) : ∀ c ∈ quoteBodyWith esc n s, c ≠ 0x22 := by
  induction n generalizing s with
  | zero => cases s <;> simp [quoteBodyWith]
  | succ n ih =>
    cases s with
    | nil => simp [quoteBodyWith]
    | cons b t =>
      intro c hc
      simp only [quoteBodyWith] at hc
      split at hc
      · rcases List.mem_append.mp hc with h | h
        · exact escX_noQuote _ c h
        · exact ih _ c h
      · rcases List.mem_append.mp hc with h | h
        · exact hesc _ c h
        · exact ih _ c h

/-- Between its delimiters the renderer's literal contains no `"`: it matches the
grammar's `'"' [^"]* '"'`-shaped string rule as ONE token. -/
theorem quoteX22_shape (s : GoString) :
    ∃ body, quoteX22 s = 0x22 :: (body ++ [0x22]) ∧ ∀ c ∈ body, c ≠ 0x22 :=
  ⟨_, rfl, quoteBodyWith_noQuote _ escapedRuneX22_noQuote _ _⟩

end Bexpr.Strconv
