/-
  Map key types: `coerceKey` / `getMap` are total on EVERY key type (no `unmodelled` answer is left),
  and the one way `pointerstructure.Get` can panic is characterised by the key type alone.

  `mapstructure.decodeArray` starts with `valArray.Interface() == reflect.Zero(t).Interface()`, a
  runtime panic when the array type is not comparable.  An array type that is a map key (or sits in
  one) is comparable, but BELOW A POINTER anything goes: `map[*[1][]int]V`, `map[**[2]func()]V`,
  `map[[1]*[1]map[string]int]V`, `map[*[][1][]int]V` … make every lookup panic (`decodePanics`).
  Core Lean only.
-/
import Bexpr.Go.WF

namespace Bexpr.Proofs.Keys
open Bexpr Bexpr.Go

/-- Decoding a path part into a fresh value of type `t` panics.  Independent of the part. -/
def decodePanics : GoType → Bool
  | .ptr e => decodePanics e
  | .array n e => !e.comparable || (n != 0 && decodePanics e)
  | .slice _ e => e.kind != .uint8 && decodePanics e
  | _ => false

/-- no pointer type inside (arrays of … of non-pointer element types) -/
def ptrFree : GoType → Bool
  | .ptr _ => false
  | .array _ e => ptrFree e
  | _ => true

theorem decodeBasic_err (part : GoString) (k : Kind) (name : String) (e : GetErr)
    (h : decodeBasic part k name = .error e) : e = .convert := by
  have hc : ∀ {α : Type} (r : Except Strconv.PErr α) (f : α → GoVal),
      convOr r f = .error e → e = .convert := by
    intro α r f h
    cases r <;> simp [convOr] at h
    exact h.symm
  unfold decodeBasic at h
  repeat' split at h
  all_goals first
    | (cases h; rfl)
    | (cases h; done)
    | exact hc _ _ h

theorem decodeBasic_cases (part : GoString) (k : Kind) (name : String) :
    (∃ v, decodeBasic part k name = .ok v) ∨ decodeBasic part k name = .error .convert := by
  cases h : decodeBasic part k name with
  | ok v => exact .inl ⟨v, rfl⟩
  | error e => rw [decodeBasic_err part k name e h]; exact .inr rfl

theorem decodeInto_cases (part : GoString) (t : GoType) :
    (∃ v, decodeInto part t = .ok v) ∨ decodeInto part t = .error .convert ∨
      decodeInto part t = .error .panic := by
  induction t with
  | basic k n =>
    rcases decodeBasic_cases part k n with h | h
    · exact .inl (by simpa [decodeInto] using h)
    · exact .inr (.inl (by simpa [decodeInto] using h))
  | ptr e ih =>
    simp only [decodeInto]
    rcases ih with ⟨v, h⟩ | h | h <;> simp [h]
  | slice n e ih =>
    simp only [decodeInto]
    split
    · simp
    · rcases ih with ⟨v, h⟩ | h | h <;> simp [h]
  | array n e ih =>
    simp only [decodeInto]
    split
    · simp
    · split
      · simp
      · rcases ih with ⟨v, h⟩ | h | h <;> simp [h]
  | map n k v _ _ => simp [decodeInto]
  | struct n => simp [decodeInto]
  | iface => simp [decodeInto]
  | other k n => simp [decodeInto]

/-- the panic depends on the type alone -/
theorem decodeInto_panic_iff (part : GoString) (t : GoType) :
    decodeInto part t = .error .panic ↔ decodePanics t = true := by
  induction t with
  | basic k n =>
    rcases decodeBasic_cases part k n with ⟨v, h⟩ | h <;> simp [decodeInto, decodePanics, h]
  | ptr e ih =>
    simp only [decodeInto, decodePanics, ← ih]
    rcases decodeInto_cases part e with ⟨v, h⟩ | h | h <;> simp [h]
  | slice n e ih =>
    simp only [decodeInto, decodePanics, Bool.and_eq_true, ← ih]
    split
    · rename_i hk; simp at hk; simp [hk]
    · rename_i hk
      simp at hk
      rcases decodeInto_cases part e with ⟨v, h⟩ | h | h <;> simp [h, hk]
  | array n e ih =>
    simp only [decodeInto, decodePanics, Bool.or_eq_true, Bool.and_eq_true, ← ih]
    split
    · rename_i hc; simp [hc]
    · rename_i hc
      split
      · rename_i hn; simp at hn; simp [hc, hn]
      · rename_i hn
        simp at hn
        rcases decodeInto_cases part e with ⟨v, h⟩ | h | h <;> simp [h, hc, hn]
  | map n k v _ _ => simp [decodeInto, decodePanics]
  | struct n => simp [decodeInto, decodePanics]
  | iface => simp [decodeInto, decodePanics]
  | other k n => simp [decodeInto, decodePanics]

theorem coerceKey_cases (part : GoString) (kt : GoType) :
    (∃ v, coerceKey part kt = .ok v) ∨ coerceKey part kt = .error .convert ∨
      coerceKey part kt = .error .panic := by
  unfold coerceKey
  split
  · simp
  · simp
  · exact decodeInto_cases part _

theorem coerceKey_panic_iff (part : GoString) (kt : GoType) :
    coerceKey part kt = .error .panic ↔ decodePanics kt = true := by
  unfold coerceKey
  split
  · simp [decodePanics]
  · simp [decodePanics]
  · exact decodeInto_panic_iff part _

/-- A comparable type without pointers inside never makes the decoder panic: the panic needs a
    pointer (only below a pointer may an array type be uncomparable). -/
theorem decodePanics_of_ptrFree (t : GoType) (hc : t.comparable = true) (hp : ptrFree t = true) :
    decodePanics t = false := by
  induction t with
  | ptr e _ => simp [ptrFree] at hp
  | slice n e _ => simp [GoType.comparable] at hc
  | array n e ih =>
    simp only [GoType.comparable] at hc
    simp only [ptrFree] at hp
    simp [decodePanics, hc, ih hc hp]
  | _ => simp [decodePanics]

/-! ## `getMap` is total -/

/-- **Totality of the key lookup.**  For every key type, every part and every entry list, `getMap`
    returns a value of the map, "not found", "couldn't convert", or — exactly when the key type
    makes mapstructure panic — a panic.  `GetErr.unmodelled` is no longer an answer. -/
theorem getMap_total (part : GoString) (kt : GoType) (es : List (GoVal × GoVal)) :
    (∃ e, e ∈ es ∧ getMap part kt es = .ok (some e.2)) ∨ getMap part kt es = .error .notFound ∨
      getMap part kt es = .error .convert ∨
      (getMap part kt es = .error .panic ∧ decodePanics kt = true) := by
  unfold getMap
  rcases coerceKey_cases part kt with ⟨key, h⟩ | h | h
  · simp only [h]
    cases hf : es.find? (fun e => fkeyEq e.1 key) with
    | none => exact .inr (.inl rfl)
    | some e => exact .inl ⟨e, List.mem_of_find?_eq_some hf, rfl⟩
  · exact .inr (.inr (.inl (by simp [h])))
  · exact .inr (.inr (.inr ⟨by simp [h], (coerceKey_panic_iff part kt).1 h⟩))

theorem getMap_panic_iff (part : GoString) (kt : GoType) (es : List (GoVal × GoVal)) :
    getMap part kt es = .error .panic ↔ decodePanics kt = true := by
  rw [← coerceKey_panic_iff part kt]
  unfold getMap
  rcases coerceKey_cases part kt with ⟨key, h⟩ | h | h
  · simp only [h]
    cases es.find? (fun e => fkeyEq e.1 key) with
    | none => simp
    | some e => simp
  · simp [h]
  · simp [h]

/-- **`getMap_total_keys`**: for every map whose key type does not make mapstructure panic — in
    particular (`decodePanics_of_ptrFree`) every comparable key type without pointers inside, and
    every pointer type not leading to an uncomparable array — and every part, `getMap` returns a
    value, `notFound` or `convert`; never `unmodelled`, never a panic. -/
theorem getMap_total_keys (part : GoString) (kt : GoType) (es : List (GoVal × GoVal))
    (hk : decodePanics kt = false) :
    (∃ e, e ∈ es ∧ getMap part kt es = .ok (some e.2)) ∨ getMap part kt es = .error .notFound ∨
      getMap part kt es = .error .convert := by
  rcases getMap_total part kt es with h | h | h | ⟨_, h⟩
  · exact .inl h
  · exact .inr (.inl h)
  · exact .inr (.inr h)
  · rw [hk] at h; cases h

/-- … stated for a well-formed map value (its key type is comparable) without pointers in the key
    type -/
theorem getMap_total_wf (part : GoString) (n : String) (kt vt : GoType) (nl : Bool)
    (es : List (GoVal × GoVal)) (hw : (GoVal.map n kt vt nl es).wf = true)
    (hp : ptrFree kt = true) :
    (∃ e, e ∈ es ∧ getMap part kt es = .ok (some e.2)) ∨ getMap part kt es = .error .notFound ∨
      getMap part kt es = .error .convert := by
  simp only [GoVal.wf, Bool.and_eq_true] at hw
  exact getMap_total_keys part kt es (decodePanics_of_ptrFree kt hw.2 hp)

/-! ## `Get` never answers `unmodelled` -/

theorem getMap_ne_unmodelled (part : GoString) (kt : GoType) (es : List (GoVal × GoVal)) :
    getMap part kt es ≠ .error .unmodelled := by
  rcases getMap_total part kt es with ⟨e, _, h⟩ | h | h | ⟨h, _⟩ <;> simp [h]

theorem getSlice_err (part : GoString) (xs : List GoVal) (e : GetErr)
    (h : getSlice part xs = .error e) : e ≠ .unmodelled ∧ e ≠ .panic := by
  unfold getSlice at h
  simp only [] at h
  repeat' split at h
  all_goals (cases h; try (constructor <;> simp))

theorem getSlice_ne (part : GoString) (xs : List GoVal) :
    getSlice part xs ≠ .error .unmodelled ∧ getSlice part xs ≠ .error .panic :=
  ⟨fun h => (getSlice_err _ _ _ h).1 rfl, fun h => (getSlice_err _ _ _ h).2 rfl⟩

theorem structLoop_err (tagName part : GoString) (fs : List (Field × GoVal)) (ff : Option GoVal)
    (found ignored : Bool) (e : GetErr)
    (h : structLoop tagName part fs ff found ignored = .error e) :
    e ≠ .unmodelled ∧ e ≠ .panic := by
  induction fs generalizing ff found ignored with
  | nil =>
    unfold structLoop at h
    repeat' split at h
    all_goals (cases h; try (constructor <;> simp))
  | cons f rest ih =>
    obtain ⟨f, v⟩ := f
    unfold structLoop at h
    simp only [] at h
    repeat' split at h
    all_goals first
      | exact ih _ _ _ h
      | (cases h; constructor <;> simp)
      | cases h

theorem structLoop_ne (tagName part : GoString) (fs : List (Field × GoVal)) (ff : Option GoVal)
    (found ignored : Bool) :
    structLoop tagName part fs ff found ignored ≠ .error .unmodelled ∧
      structLoop tagName part fs ff found ignored ≠ .error .panic :=
  ⟨fun h => (structLoop_err _ _ _ _ _ _ _ h).1 rfl, fun h => (structLoop_err _ _ _ _ _ _ _ h).2 rfl⟩

theorem applyHook_ne (cfg : Config) (r : Except GetErr RV) (e : GetErr)
    (he : e = .unmodelled ∨ e = .panic) (h : r ≠ .error e) :
    getStep.applyHook cfg r ≠ .error e := by
  unfold getStep.applyHook
  rcases he with rfl | rfl <;> (repeat' split) <;> simp_all

theorem getStep_ne_unmodelled (cfg : Config) (part : GoString) (cur : RV) :
    getStep cfg part cur ≠ .error .unmodelled := by
  unfold getStep
  split
  · exact applyHook_ne _ _ _ (.inl rfl) (getMap_ne_unmodelled _ _ _)
  · exact applyHook_ne _ _ _ (.inl rfl) (getSlice_ne _ _).1
  · exact applyHook_ne _ _ _ (.inl rfl) (getSlice_ne _ _).1
  · exact applyHook_ne _ _ _ (.inl rfl) (structLoop_ne _ _ _ _ _ _).1
  · simp

/-- a step panics only at a map whose key type makes the decoder panic -/
theorem getStep_panic (cfg : Config) (part : GoString) (cur : RV)
    (h : getStep cfg part cur = .error .panic) :
    ∃ n kt vt nl es, unwrapForStep cur = some (.map n kt vt nl es) ∧ decodePanics kt = true := by
  unfold getStep at h
  split at h
  · rename_i n kt vt nl es hu
    refine ⟨n, kt, vt, nl, es, hu, ?_⟩
    refine (getMap_panic_iff part kt es).1 ?_
    exact Classical.byContradiction fun hn => applyHook_ne _ _ _ (.inr rfl) hn h
  · exact absurd h (applyHook_ne _ _ _ (.inr rfl) (getSlice_ne _ _).2)
  · exact absurd h (applyHook_ne _ _ _ (.inr rfl) (getSlice_ne _ _).2)
  · exact absurd h (applyHook_ne _ _ _ (.inr rfl) (structLoop_ne _ _ _ _ _ _).2)
  · simp at h

theorem getLoop_ne_unmodelled (cfg : Config) (parts : List GoString) (cur : RV) :
    getLoop cfg parts cur ≠ .error .unmodelled := by
  induction parts generalizing cur with
  | nil => simp [getLoop]
  | cons p ps ih =>
    unfold getLoop
    split
    · rename_i e he
      intro h
      cases h
      exact getStep_ne_unmodelled _ _ _ he
    · exact ih _

/-- `pointerstructure.Get` is inside the model for every datum: it never answers `unmodelled`. -/
theorem get_ne_unmodelled (cfg : Config) (parts : List GoString) (v : Any) :
    Go.get cfg parts v ≠ .error .unmodelled := by
  unfold Go.get
  split
  · simp
  · split
    · rename_i e he
      intro h
      cases h
      exact getLoop_ne_unmodelled _ _ _ he
    · simp
    · simp

end Bexpr.Proofs.Keys
