/-
  Soundness of the grammar type checker (`Bexpr.Peg.Typing`) for the engine model
  (`Bexpr.Peg.Engine`), generic in the grammar, the action table and the declaration `Γ`.
-/
import Bexpr.Peg.Typing

namespace Bexpr.Proofs.TypingSound
open Bexpr Bexpr.Peg

/-! ## Types -/

theorem hasTy_never (v : PVal) : hasTy v .never = false := by simp [hasTy]

theorem hasTy_any (v : PVal) : hasTy v .any = true := by simp [hasTy]

theorem hasTy_nil_inv {v : PVal} (h : hasTy v .nil = true) : v = .nil := by
  cases v <;> simp [hasTy] at h ⊢

theorem hasTy_expr_inv {v : PVal} (h : hasTy v .expr = true) :
    ∃ e, v = .expr e ∧ e.parserShaped = true := by
  cases v <;> simp [hasTy] at h ⊢; exact h

theorem hasTy_sel_inv {v : PVal} (h : hasTy v .sel = true) : ∃ s, v = .sel s := by
  cases v <;> simp [hasTy] at h ⊢

theorem hasTy_str_inv {v : PVal} (h : hasTy v .str = true) : ∃ s, v = .str s := by
  cases v <;> simp [hasTy] at h ⊢

theorem hasTy_cop_inv {v : PVal} (h : hasTy v .cop = true) : ∃ s, v = .cop s := by
  cases v <;> simp [hasTy] at h ⊢

theorem hasTy_binding_inv {v : PVal} (h : hasTy v .binding = true) : ∃ s, v = .binding s := by
  cases v <;> simp [hasTy] at h ⊢

theorem hasTy_mval_inv {v : PVal} (h : hasTy v .mval = true) : ∃ s, v = .mval s := by
  cases v <;> simp [hasTy] at h ⊢

theorem hasTy_mopV_inv {v : PVal} (h : hasTy v .mopV = true) :
    ∃ o, v = .mop o ∧ o.takesValue = true := by
  cases v <;> simp [hasTy] at h ⊢; exact h

theorem hasTy_mopN_inv {v : PVal} (h : hasTy v .mopN = true) :
    ∃ o, v = .mop o ∧ o.takesValue = false := by
  cases v <;> simp [hasTy] at h ⊢; exact h

theorem hasTy_list_any (vs : List PVal) : hasTy (.list vs) (.list .any) = true := by
  simp [hasTy]

theorem hasTy_list_of {vs : List PVal} {t : PTy} (h : ∀ x ∈ vs, hasTy x t = true) :
    hasTy (.list vs) (.list t) = true := by
  simp only [hasTy, List.all_eq_true]; exact h

/-- subtyping is sound -/
theorem sub_sound : ∀ (t s : PTy) (v : PVal), sub s t = true → hasTy v s = true → hasTy v t = true := by
  intro t
  induction t with
  | any => intros; simp [hasTy]
  | opt t ih =>
    intro s v hs hv
    simp only [sub, Bool.or_eq_true, beq_iff_eq] at hs
    rcases hs with ((hs | hs) | hs) | hs
    · subst hs; rw [hasTy_nil_inv hv]; simp [hasTy]
    · subst hs; simp [hasTy] at hv
    · have := ih s v hs hv; simp [hasTy, this]
    · cases s <;> simp at hs
      rename_i s'
      simp only [hasTy, Bool.or_eq_true] at hv ⊢
      rcases hv with hv | hv
      · exact Or.inl hv
      · exact Or.inr (ih s' v hs hv)
  | list t ih =>
    intro s v hs hv
    simp only [sub, Bool.or_eq_true, beq_iff_eq] at hs
    rcases hs with hs | hs
    · subst hs; simp [hasTy] at hv
    · cases s <;> simp at hs
      rename_i s'
      cases v <;> simp [hasTy] at hv ⊢
      intro x hx; exact ih s' x hs (hv x hx)
  | _ =>
    intro s v hs hv
    simp only [sub, Bool.or_eq_true, beq_iff_eq] at hs
    rcases hs with hs | hs
    · subst hs; simp [hasTy] at hv
    · subst hs; exact hv

theorem join_left {s t : PTy} {v : PVal} (h : hasTy v s = true) : hasTy v (Peg.join s t) = true := by
  unfold Peg.join
  split
  · next hs => exact sub_sound _ _ _ hs h
  · split
    · exact h
    · exact hasTy_any v

theorem join_right {s t : PTy} {v : PVal} (h : hasTy v t = true) : hasTy v (Peg.join s t) = true := by
  unfold Peg.join
  split
  · exact h
  · split
    · next hs => exact sub_sound _ _ _ hs h
    · exact hasTy_any v

/-! ## Frames -/

/-- a frame has the label types `Δ` promises (unbound labels read as `nil` on both sides) -/
def FrameOk (fr : Frame) (Δ : LEnv) : Prop := ∀ l, hasTy (fr.get l) (Δ.get l) = true

theorem frameOk_nil : FrameOk [] [] := by
  intro l; simp [Frame.get, LEnv.get, hasTy]

theorem frameOk_set {fr : Frame} {Δ : LEnv} {v : PVal} {t : PTy} (l : String)
    (hv : hasTy v t = true) (h : FrameOk fr Δ) : FrameOk (fr.set l v) ((l, t) :: Δ) := by
  intro l'
  have := h l'
  simp only [Frame.get, Frame.set, LEnv.get, List.find?_cons] at this ⊢
  by_cases hl : (l == l') = true
  · simp [hl, hv]
  · simp only [hl]; exact this

theorem frameOk_label {fr : Frame} {Δ : LEnv} {l : String} {t : PTy} (h : FrameOk fr Δ)
    (hs : labelIs Δ l t = true) : hasTy (fr.get l) t = true :=
  sub_sound _ _ _ hs (h l)

/-! ## Actions -/

theorem asStrList_of {vs : List PVal} (h : ∀ x ∈ vs, hasTy x .str = true) :
    ∃ rs, asStrList vs = some rs := by
  induction vs with
  | nil => exact ⟨[], rfl⟩
  | cons x xs ih =>
    obtain ⟨s, rfl⟩ := hasTy_str_inv (h x (by simp))
    obtain ⟨rs, hrs⟩ := ih (fun y hy => h y (by simp [hy]))
    exact ⟨s :: rs, by simp [asStrList, hrs]⟩

theorem restStrings_of {v : PVal} (h : hasTy v (.opt (.list .str)) = true) :
    ∃ rs, restStrings v = some rs := by
  cases v <;> simp [hasTy] at h
  · exact ⟨[], rfl⟩
  · rename_i vs
    exact asStrList_of h

/-- the label (if any) holds a string, so Go's `x.(string)` succeeds -/
theorem getStr_of {fr : Frame} {Δ : LEnv} (hfr : FrameOk fr Δ) (l : Option String)
    (h : optLabelIs Δ l .str = true) :
    l = none ∨ ∃ l' s, l = some l' ∧ fr.get l' = .str s := by
  cases l with
  | none => exact Or.inl rfl
  | some l =>
    obtain ⟨s, hs⟩ := hasTy_str_inv (frameOk_label hfr h)
    exact Or.inr ⟨l, s, rfl, hs⟩

/-- A well-typed action does not panic and returns a value of its result type (whether or not
    it also returns an error). `text` is the matched input, `w` the minimum width of a match. -/
theorem runActionSem_sound {sem : ActionSem} {Δ : LEnv} {w : Nat} {t : PTy} {fr : Frame}
    {text : GoString} (hty : actionTy sem Δ w = some t) (hfr : FrameOk fr Δ)
    (hw : w ≤ text.length) :
    ∃ v err, runActionSem sem fr text = .ret v err ∧ hasTy v t = true := by
  cases sem with
  | retLabel l =>
    simp only [actionTy, Option.some.injEq] at hty; subst hty
    exact ⟨_, _, rfl, hfr l⟩
  | constMatchOp o =>
    simp only [actionTy, Option.some.injEq] at hty; subst hty
    refine ⟨_, _, rfl, ?_⟩
    cases h : o.takesValue <;> simp [hasTy, h]
  | constCollOp o =>
    simp only [actionTy, Option.some.injEq] at hty; subst hty
    exact ⟨_, _, rfl, by simp [hasTy]⟩
  | mkBinary isOr l r =>
    simp only [actionTy] at hty
    split at hty <;> simp at hty
    next hc =>
    subst hty
    simp only [Bool.and_eq_true] at hc
    obtain ⟨a, ha, hpa⟩ := hasTy_expr_inv (frameOk_label hfr hc.1)
    obtain ⟨b, hb, hpb⟩ := hasTy_expr_inv (frameOk_label hfr hc.2)
    refine ⟨_, none, (by simp only [runActionSem, ha, hb] <;> rfl), ?_⟩
    cases isOr <;> simp [hasTy, Expr.parserShaped, hpa, hpb]
  | notFold l =>
    simp only [actionTy] at hty
    split at hty <;> simp at hty
    next hc =>
    subst hty
    obtain ⟨a, ha, hpa⟩ := hasTy_expr_inv (frameOk_label hfr hc)
    cases a with
    | not e =>
      refine ⟨.expr e, none, (by simp only [runActionSem, ha] <;> rfl), ?_⟩
      simpa [hasTy, Expr.parserShaped] using hpa
    | and x y =>
      refine ⟨.expr (.not (.and x y)), none, (by simp only [runActionSem, ha] <;> rfl), ?_⟩
      simpa [hasTy, Expr.parserShaped] using hpa
    | or x y =>
      refine ⟨.expr (.not (.or x y)), none, (by simp only [runActionSem, ha] <;> rfl), ?_⟩
      simpa [hasTy, Expr.parserShaped] using hpa
    | match_ x y z =>
      refine ⟨.expr (.not (.match_ x y z)), none, (by simp only [runActionSem, ha] <;> rfl), ?_⟩
      simpa [hasTy, Expr.parserShaped] using hpa
    | coll x y z u =>
      refine ⟨.expr (.not (.coll x y z u)), none, (by simp only [runActionSem, ha] <;> rfl), ?_⟩
      simpa [hasTy, Expr.parserShaped] using hpa
  | mkColl op sel binding inner =>
    simp only [actionTy] at hty
    split at hty <;> simp at hty
    next hc =>
    subst hty
    simp only [Bool.and_eq_true] at hc
    obtain ⟨o, ho⟩ := hasTy_cop_inv (frameOk_label hfr hc.1.1.1)
    obtain ⟨s, hs⟩ := hasTy_sel_inv (frameOk_label hfr hc.1.1.2)
    obtain ⟨b, hb⟩ := hasTy_binding_inv (frameOk_label hfr hc.1.2)
    obtain ⟨e, he, hpe⟩ := hasTy_expr_inv (frameOk_label hfr hc.2)
    refine ⟨_, none, (by simp only [runActionSem, ho, hs, hb, he] <;> rfl), ?_⟩
    simp [hasTy, Expr.parserShaped, hpe]
  | mkBinding mode d i v =>
    simp only [actionTy] at hty
    split at hty <;> simp at hty
    next hc =>
    subst hty
    simp only [Bool.and_eq_true] at hc
    rcases getStr_of hfr d hc.1.1 with rfl | ⟨ld, sd, rfl, hd⟩ <;>
    rcases getStr_of hfr i hc.1.2 with rfl | ⟨li, si, rfl, hi⟩ <;>
    rcases getStr_of hfr v hc.2 with rfl | ⟨lv, sv, rfl, hv⟩ <;>
    exact ⟨_, none, (by simp only [runActionSem, *] <;> rfl), by simp [hasTy]⟩
  | mkMatch sel op val =>
    cases val with
    | none =>
      simp only [actionTy] at hty
      split at hty <;> simp at hty
      next hc =>
      subst hty
      simp only [Bool.and_eq_true] at hc
      obtain ⟨s, hs⟩ := hasTy_sel_inv (frameOk_label hfr hc.1)
      obtain ⟨o, ho, hot⟩ := hasTy_mopN_inv (frameOk_label hfr hc.2)
      refine ⟨_, none, (by simp only [runActionSem, hs, ho] <;> rfl), ?_⟩
      simp [hasTy, Expr.parserShaped, hot]
    | some vl =>
      simp only [actionTy] at hty
      split at hty <;> simp at hty
      next hc =>
      subst hty
      simp only [Bool.and_eq_true] at hc
      obtain ⟨s, hs⟩ := hasTy_sel_inv (frameOk_label hfr hc.1.1)
      obtain ⟨o, ho, hot⟩ := hasTy_mopV_inv (frameOk_label hfr hc.1.2)
      obtain ⟨raw, hraw⟩ := hasTy_mval_inv (frameOk_label hfr hc.2)
      refine ⟨_, none, (by simp only [runActionSem, hs, ho, hraw] <;> rfl), ?_⟩
      simp [hasTy, Expr.parserShaped, hot]
  | selectorBexpr first rest =>
    simp only [actionTy] at hty
    split at hty <;> simp at hty
    next hc =>
    subst hty
    simp only [Bool.and_eq_true] at hc
    obtain ⟨f, hf⟩ := hasTy_str_inv (frameOk_label hfr hc.1)
    obtain ⟨rs, hrs⟩ := restStrings_of (frameOk_label hfr hc.2)
    exact ⟨_, none, (by simp only [runActionSem, hf, hrs] <;> rfl), by simp [hasTy]⟩
  | selectorPtr segs =>
    simp only [actionTy] at hty
    split at hty <;> simp at hty
    next hc =>
    subst hty
    obtain ⟨rs, hrs⟩ := restStrings_of (frameOk_label hfr hc)
    exact ⟨_, none, (by simp only [runActionSem, hrs] <;> rfl), by simp [hasTy]⟩
  | textTail =>
    simp only [actionTy] at hty
    split at hty <;> simp at hty
    next hc =>
    subst hty
    cases text with
    | nil => simp at hw; omega
    | cons c cs => exact ⟨_, none, (by simp only [runActionSem] <;> rfl), by simp [hasTy]⟩
  | textAll =>
    simp only [actionTy, Option.some.injEq] at hty; subst hty
    exact ⟨_, none, (by simp only [runActionSem] <;> rfl), by simp [hasTy]⟩
  | valueFromSelector l =>
    simp only [actionTy] at hty
    split at hty <;> simp at hty
    next hc =>
    subst hty
    obtain ⟨s, hs⟩ := hasTy_sel_inv (frameOk_label hfr hc)
    exact ⟨_, none, (by simp only [runActionSem, hs] <;> rfl), by simp [hasTy]⟩
  | valueFromStr l =>
    simp only [actionTy] at hty
    split at hty <;> simp at hty
    next hc =>
    subst hty
    obtain ⟨s, hs⟩ := hasTy_str_inv (frameOk_label hfr hc)
    exact ⟨_, none, (by simp only [runActionSem, hs] <;> rfl), by simp [hasTy]⟩
  | unquoteText =>
    simp only [actionTy, Option.some.injEq] at hty; subst hty
    simp only [runActionSem]
    split
    · exact ⟨_, _, rfl, by simp [hasTy]⟩
    · exact ⟨_, _, rfl, by simp [hasTy]⟩
  | predErr m => simp [actionTy] at hty
  | unknown => simp [actionTy] at hty

theorem runPredSem_sound {sem : ActionSem} (h : isPredSem sem = true) (fr : Frame) :
    ∃ msg, runPredSem sem fr = .ret false (some msg) := by
  cases sem <;> simp [isPredSem] at h
  exact ⟨_, rfl⟩

/-! ## Positions -/

theorem decodeRune_nil : Utf8.decodeRune [] = (Utf8.runeError, 0) := rfl

/-- `DecodeRune` of a non-empty string consumes between one byte and the whole string -/
theorem decodeRune_width {s : GoString} (h : s ≠ []) :
    1 ≤ (Utf8.decodeRune s).2 ∧ (Utf8.decodeRune s).2 ≤ s.length := by
  cases s with
  | nil => exact absurd rfl h
  | cons b0 rest =>
    simp only [Utf8.decodeRune, Utf8.decodeErr]
    repeat' split
    all_goals simp only [List.length_cons]
    all_goals omega

/-- the current rune and its width are those of the remaining input -/
def PtOk (pt : Pt) : Prop := (pt.rn, pt.w) = Utf8.decodeRune pt.rest

theorem PtOk.w_le {pt : Pt} (h : PtOk pt) : pt.w ≤ pt.rest.length := by
  unfold PtOk at h
  by_cases hr : pt.rest = []
  · rw [hr, decodeRune_nil] at h; simp at h; omega
  · have := (decodeRune_width hr).2
    rw [← h] at this; exact this

theorem PtOk.w_pos {pt : Pt} (h : PtOk pt) (hne : atEOF pt = false) : 1 ≤ pt.w := by
  unfold PtOk at h
  by_cases hr : pt.rest = []
  · rw [hr, decodeRune_nil] at h
    simp only [Prod.mk.injEq] at h
    simp [atEOF, h.1, h.2, runeError, Utf8.runeError] at hne
  · have := (decodeRune_width hr).1
    rw [← h] at this; exact this

theorem PtOk.w_pos_of_ascii {pt : Pt} (h : PtOk pt) (hlt : pt.rn < 128) : 1 ≤ pt.w := by
  unfold PtOk at h
  by_cases hr : pt.rest = []
  · rw [hr, decodeRune_nil] at h
    simp only [Prod.mk.injEq] at h
    simp [h.1, Utf8.runeError] at hlt
  · have := (decodeRune_width hr).1
    rw [← h] at this; exact this

/-- `q` lies `q.off - p.off` bytes after `p` in the same input -/
def Reach (p q : Pt) : Prop :=
  p.off ≤ q.off ∧ q.rest = p.rest.drop (q.off - p.off) ∧ q.off - p.off ≤ p.rest.length

theorem Reach.refl (p : Pt) : Reach p p := by simp [Reach]

theorem Reach.trans {p q r : Pt} (h1 : Reach p q) (h2 : Reach q r) : Reach p r := by
  obtain ⟨a1, b1, c1⟩ := h1
  obtain ⟨a2, b2, c2⟩ := h2
  refine ⟨by omega, ?_, ?_⟩
  · rw [b2, b1, List.drop_drop]; congr 1; omega
  · rw [b1, List.length_drop] at c2; omega

/-- errors logged so far contain no panic entry -/
def NP (errs : List PErr) : Prop := ∀ e ∈ errs, ∀ msg, e.kind ≠ .panic msg

theorem NP.cons {errs : List PErr} {e : PErr} (h : NP errs) (he : ∀ msg, e.kind ≠ .panic msg) :
    NP (e :: errs) := by
  intro x hx msg
  rcases List.mem_cons.1 hx with rfl | hx
  · exact he msg
  · exact h x hx msg

theorem read_pt (st : PState) (rule : String) :
    (st.read rule).pt = { rest := st.pt.rest.drop st.pt.w, off := st.pt.off + st.pt.w,
                          rn := (Utf8.decodeRune (st.pt.rest.drop st.pt.w)).1,
                          w := (Utf8.decodeRune (st.pt.rest.drop st.pt.w)).2 } := by
  simp only [PState.read]
  split <;> rfl

theorem read_cnt (st : PState) (rule : String) : (st.read rule).cnt = st.cnt := by
  simp only [PState.read]
  split <;> rfl

theorem read_np (st : PState) (rule : String) (h : NP st.errs) : NP (st.read rule).errs := by
  simp only [PState.read]
  split
  · exact h.cons (by intro msg; simp)
  · exact h

theorem read_ptOk (st : PState) (rule : String) : PtOk (st.read rule).pt := by
  rw [read_pt]; simp [PtOk]

theorem read_reach (st : PState) (rule : String) (h : PtOk st.pt) :
    Reach st.pt (st.read rule).pt := by
  rw [read_pt]
  have := h.w_le
  refine ⟨by simp, ?_, ?_⟩ <;> simp <;> omega

theorem read_off (st : PState) (rule : String) : (st.read rule).pt.off = st.pt.off + st.pt.w := by
  rw [read_pt]

/-! ## The invariant -/

/-- What is assumed of the state a call of `parseExpr` starts in (`F` is the fuel of the call). -/
structure Pre (max F s : Nat) (st : PState) : Prop where
  pt : PtOk st.pt
  np : NP st.errs
  cnt : st.cnt ≤ max
  fuel : max + 2 ≤ F + st.cnt + s

/-- What is guaranteed of the result: no abort, no fuel exhaustion; on `ok` the position is
    consistent and not before the start, the counter advanced by at least `d` and is within the
    budget, no panic entry was logged; on a match the value has type `t`, the frame satisfies
    `Δ'`, and at least `w` bytes were consumed. -/
def Post (max s d : Nat) (t : PTy) (Δ' : LEnv) (w : Nat) (st : PState) : PRes → Prop
  | .ok st' fr' v m =>
    PtOk st'.pt ∧ NP st'.errs ∧ Reach st.pt st'.pt ∧ st.cnt + d ≤ st'.cnt ∧ st'.cnt ≤ max ∧
      (m = true → hasTy v t = true ∧ FrameOk fr' Δ' ∧ st.pt.off + w ≤ st'.pt.off)
  | .exceeded st' => NP st'.errs
  | .abort _ _ => False
  | .fuelOut => 0 < s

theorem Post.shift {max s d d2 : Nat} {t : PTy} {Δ' : LEnv} {w w2 : Nat} {st st1 : PState}
    {res : PRes} (h : Post max s d2 t Δ' w2 st1 res) (hr : Reach st.pt st1.pt)
    (hc : st.cnt + d ≤ st1.cnt + d2) (hw : st.pt.off + w ≤ st1.pt.off + w2) :
    Post max s d t Δ' w st res := by
  cases res with
  | ok st' fr' v m =>
    obtain ⟨h1, h2, h3, h4, h5, h6⟩ := h
    refine ⟨h1, h2, hr.trans h3, by omega, h5, ?_⟩
    intro hm
    obtain ⟨a, b, c⟩ := h6 hm
    exact ⟨a, b, by omega⟩
  | exceeded st' => exact h
  | abort _ _ => exact h
  | fuelOut => exact h

theorem Post.mono {max s d : Nat} {t t' : PTy} {Δ' : LEnv} {w : Nat} {st : PState}
    {res : PRes} (h : Post max s d t Δ' w st res)
    (ht : ∀ v, hasTy v t = true → hasTy v t' = true) : Post max s d t' Δ' w st res := by
  cases res with
  | ok st' fr' v m =>
    obtain ⟨h1, h2, h3, h4, h5, h6⟩ := h
    refine ⟨h1, h2, h3, h4, h5, ?_⟩
    intro hm
    obtain ⟨a, b, c⟩ := h6 hm
    exact ⟨ht _ a, b, c⟩
  | exceeded st' => exact h
  | abort _ _ => exact h
  | fuelOut => exact h

theorem Pre.tick {max F s : Nat} {st0 : PState} (h : Pre max (F + 1) s st0)
    (hc : ¬ (st0.cnt + 1 > max)) : Pre max F s { st0 with cnt := st0.cnt + 1 } :=
  ⟨h.pt, h.np, by simp only; omega, by have := h.fuel; simp only; omega⟩

theorem Post.untick {max s d : Nat} {t : PTy} {Δ' : LEnv} {w : Nat} {st0 : PState} {res : PRes}
    (h : Post max s d t Δ' w { st0 with cnt := st0.cnt + 1 } res) : Post max s 1 t Δ' w st0 res :=
  h.shift (Reach.refl _) (by simp only; omega) (by simp only; omega)

theorem Pre.next {max F s : Nat} {st st' : PState} (h : Pre max F s st) (h1 : PtOk st'.pt)
    (h2 : NP st'.errs) (h3 : st.cnt ≤ st'.cnt) (h4 : st'.cnt ≤ max) : Pre max F s st' :=
  ⟨h1, h2, h4, by have := h.fuel; omega⟩

/-- the closure the engine passes to its loops is sound -/
def FOk (C : TCtx) (max F s : Nat) (f : PExpr → Frame → PState → PRes) : Prop :=
  ∀ e fr st Δ t Δ', typeOfExpr C e Δ = some (t, Δ') → FrameOk fr Δ → Pre max F s st →
    Post max s 1 t Δ' (minWidth e) st (f e fr st)

/-! ## The loops -/

theorem seqLoop_ok {C : TCtx} {max F s : Nat} {f : PExpr → Frame → PState → PRes}
    (hf : FOk C max F s f) :
    ∀ es fr st acc Δ t Δ', typeOfSeq C es Δ = some (t, Δ') → FrameOk fr Δ → Pre max F s st →
      Post max s 0 t Δ' (minWidthSeq es) st (seqLoop f es fr st acc) := by
  intro es
  induction es with
  | nil =>
    intro fr st acc Δ t Δ' hty hfr hpre
    simp only [typeOfSeq, Option.some.injEq, Prod.mk.injEq] at hty
    obtain ⟨rfl, rfl⟩ := hty
    simp only [seqLoop, minWidthSeq]
    exact ⟨hpre.pt, hpre.np, Reach.refl _, by omega, hpre.cnt,
      fun _ => ⟨hasTy_list_any _, hfr, by omega⟩⟩
  | cons e es ih =>
    intro fr st acc Δ t Δ' hty hfr hpre
    simp only [typeOfSeq] at hty
    cases h1 : typeOfExpr C e Δ with
    | none => simp [h1] at hty
    | some p1 =>
      obtain ⟨te, Δ1⟩ := p1
      simp only [h1] at hty
      cases h2 : typeOfSeq C es Δ1 with
      | none => simp [h2] at hty
      | some p2 =>
        obtain ⟨ts, Δ2⟩ := p2
        simp only [h2, Option.some.injEq, Prod.mk.injEq] at hty
        obtain ⟨rfl, rfl⟩ := hty
        have h := hf e fr st Δ te Δ1 h1 hfr hpre
        simp only [seqLoop, minWidthSeq]
        cases hres : f e fr st with
        | ok st1 fr1 v1 m =>
          rw [hres] at h
          obtain ⟨a1, a2, a3, a4, a5, a6⟩ := h
          cases m with
          | true =>
            obtain ⟨b1, b2, b3⟩ := a6 rfl
            have hne : (te == PTy.never) = false := by
              cases hte : te == PTy.never with
              | false => rfl
              | true =>
                rw [beq_iff_eq] at hte; subst hte; simp [hasTy] at b1
            simp only [hne]
            have := ih fr1 st1 (v1 :: acc) Δ1 ts Δ2 h2 b2 (hpre.next a1 a2 (by omega) a5)
            exact this.shift a3 (by omega) (by omega)
          | false =>
            exact ⟨a1, a2, a3, by omega, a5, fun hm => by simp at hm⟩
        | exceeded st1 => rw [hres] at h; exact h
        | abort st1 msg => rw [hres] at h; exact h.elim
        | fuelOut => rw [hres] at h; exact h

theorem minWidthAlts_le_head (a : PExpr) (as : List PExpr) :
    minWidthAlts (a :: as) ≤ minWidth a := by
  cases as with
  | nil => simp [minWidthAlts]
  | cons b bs => simp only [minWidthAlts]; exact Nat.min_le_left _ _

theorem minWidthAlts_le_tail (a b : PExpr) (bs : List PExpr) :
    minWidthAlts (a :: b :: bs) ≤ minWidthAlts (b :: bs) := by
  simp only [minWidthAlts]; exact Nat.min_le_right _ _

theorem choiceLoop_ok {C : TCtx} {max F s : Nat} {f : PExpr → Frame → PState → PRes}
    (hf : FOk C max F s f) :
    ∀ alts fr st Δ t, typeOfAlts C alts = some t → FrameOk fr Δ → Pre max F s st →
      Post max s 0 t Δ (minWidthAlts alts) st (choiceLoop f alts fr st) := by
  intro alts
  induction alts with
  | nil =>
    intro fr st Δ t hty hfr hpre
    simp only [choiceLoop]
    exact ⟨hpre.pt, hpre.np, Reach.refl _, by omega, hpre.cnt, fun hm => by simp at hm⟩
  | cons a as ih =>
    intro fr st Δ t hty hfr hpre
    simp only [typeOfAlts] at hty
    cases h1 : typeOfExpr C a [] with
    | none => simp [h1] at hty
    | some p1 =>
      obtain ⟨ta, Δ1⟩ := p1
      simp only [h1] at hty
      cases h2 : typeOfAlts C as with
      | none => simp [h2] at hty
      | some ts =>
        simp only [h2, Option.some.injEq] at hty
        subst hty
        have h := hf a [] st [] ta Δ1 h1 frameOk_nil hpre
        simp only [choiceLoop]
        cases hres : f a [] st with
        | ok st1 fr1 v1 m =>
          rw [hres] at h
          obtain ⟨a1, a2, a3, a4, a5, a6⟩ := h
          cases m with
          | true =>
            obtain ⟨b1, b2, b3⟩ := a6 rfl
            have := minWidthAlts_le_head a as
            exact ⟨a1, a2, a3, by omega, a5, fun _ => ⟨join_left b1, hfr, by omega⟩⟩
          | false =>
            have := ih fr st1 Δ ts h2 hfr (hpre.next a1 a2 (by omega) a5)
            have hsh : Post max s 0 ts Δ (minWidthAlts (a :: as)) st (choiceLoop f as fr st1) := by
              cases as with
              | nil =>
                simp only [choiceLoop] at this ⊢
                obtain ⟨c1, c2, c3, c4, c5, c6⟩ := this
                exact ⟨c1, c2, a3.trans c3, by omega, c5, fun hm => by simp at hm⟩
              | cons b bs =>
                have hle := minWidthAlts_le_tail a b bs
                have hoff := a3.1
                exact this.shift a3 (by omega) (by omega)
            exact hsh.mono (fun v hv => join_right hv)
        | exceeded st1 => rw [hres] at h; exact h
        | abort st1 msg => rw [hres] at h; exact h.elim
        | fuelOut => rw [hres] at h; exact h

theorem starLoop_ok {max F s : Nat} {f : Frame → PState → PRes} {te : PTy} {Δi : LEnv} {wi : Nat}
    (hf : ∀ st, Pre max F s st → Post max s 1 te Δi wi st (f [] st)) :
    ∀ k fr st acc Δ, max + 2 ≤ k + st.cnt + s → FrameOk fr Δ → Pre max F s st →
      (∀ x ∈ acc, hasTy x te = true) →
      Post max s 0 (.list te) Δ 0 st (starLoop f k fr st acc) := by
  intro k
  induction k with
  | zero =>
    intro fr st acc Δ hk hfr hpre hacc
    have := hpre.cnt
    simp only [starLoop, Post]
    omega
  | succ k ih =>
    intro fr st acc Δ hk hfr hpre hacc
    have h := hf st hpre
    simp only [starLoop]
    cases hres : f [] st with
    | ok st1 fr1 v1 m =>
      rw [hres] at h
      obtain ⟨a1, a2, a3, a4, a5, a6⟩ := h
      cases m with
      | true =>
        obtain ⟨b1, b2, b3⟩ := a6 rfl
        have := ih fr st1 (v1 :: acc) Δ (by omega) hfr (hpre.next a1 a2 (by omega) a5)
          (by intro x hx
              rcases List.mem_cons.1 hx with rfl | hx
              · exact b1
              · exact hacc x hx)
        have hoff := a3.1
        exact this.shift a3 (by omega) (by omega)
      | false =>
        refine ⟨a1, a2, a3, by omega, a5, fun _ => ⟨?_, hfr, by have := a3.1; omega⟩⟩
        exact hasTy_list_of (by intro x hx; exact hacc x (List.mem_reverse.1 hx))
    | exceeded st1 => rw [hres] at h; exact h
    | abort st1 msg => rw [hres] at h; exact h.elim
    | fuelOut => rw [hres] at h; exact h

/-! ## Matchers -/

theorem litLoop_ok (rule : String) :
    ∀ (val : List Nat) (st : PState), PtOk st.pt → NP st.errs →
      PtOk (litLoop rule val st).1.pt ∧ NP (litLoop rule val st).1.errs ∧
      Reach st.pt (litLoop rule val st).1.pt ∧ (litLoop rule val st).1.cnt = st.cnt ∧
      ((litLoop rule val st).2 = true → val.all (· < 128) = true →
        st.pt.off + val.length ≤ (litLoop rule val st).1.pt.off) := by
  intro val
  induction val with
  | nil =>
    intro st hpt hnp
    simp only [litLoop]
    exact ⟨hpt, hnp, Reach.refl _, by simp, fun _ _ => by simp⟩
  | cons want ws ih =>
    intro st hpt hnp
    simp only [litLoop]
    split
    · exact ⟨hpt, hnp, Reach.refl _, by simp, fun h => by simp at h⟩
    · next hrn =>
      have hrn' : st.pt.rn = want := by simpa using hrn
      obtain ⟨i1, i2, i3, i4, i5⟩ := ih (st.read rule) (read_ptOk st rule) (read_np st rule hnp)
      refine ⟨i1, i2, (read_reach st rule hpt).trans i3, by rw [i4, read_cnt], ?_⟩
      intro hm hall
      simp only [List.all_cons, Bool.and_eq_true, decide_eq_true_eq] at hall
      have hw := hpt.w_pos_of_ascii (by omega)
      have := i5 hm hall.2
      rw [read_off] at this
      simp only [List.length_cons]
      omega

theorem inClass_known {c : String} (h : knownClass c = true) (cur : Nat) :
    ∃ b, Unicode.inClass c cur = some b := by
  unfold knownClass Unicode.inClass at h
  unfold Unicode.inClass
  split
  · exact ⟨_, rfl⟩
  · split
    · exact ⟨_, rfl⟩
    · next h1 h2 => simp [h1, h2] at h

theorem inClasses_some (sems : List (String × ActionSem)) (cur : Nat) :
    ∀ classes : List String, classes.all knownClass = true →
      ∃ b, classMatches.inClasses (envOf sems) cur classes = some b := by
  intro classes
  induction classes with
  | nil => intro _; exact ⟨false, rfl⟩
  | cons c cs ih =>
    intro h
    simp only [List.all_cons, Bool.and_eq_true] at h
    obtain ⟨b, hb⟩ := inClass_known h.1 cur
    simp only [classMatches.inClasses, envOf, hb]
    cases b with
    | true => exact ⟨true, rfl⟩
    | false => exact ih h.2

theorem classMatches_some (sems : List (String × ActionSem)) (chars ranges : List Nat)
    (classes : List String) (cur : Nat) (h : classes.all knownClass = true) :
    ∃ b, classMatches (envOf sems) chars ranges classes cur = some b := by
  unfold classMatches
  split
  · exact ⟨true, rfl⟩
  · split
    · exact ⟨true, rfl⟩
    · exact inClasses_some sems cur classes h

theorem length_sliceFrom {p q : Pt} (h : Reach p q) : (sliceFrom p q).length = q.off - p.off := by
  simp only [sliceFrom, List.length_take]
  have := h.2.2
  omega

/-! ## One lemma per node kind -/

/-- the rules of the grammar have their declared types -/
def GOk (C : TCtx) (g : Grammar) : Prop :=
  ∀ name r tΓ, lookupRule g name = some r → lookupΓ C.Γ name = some tΓ →
    ∃ t Δ', typeOfExpr C r.expr [] = some (t, Δ') ∧ sub t tΓ = true

/-- `parseExpr` with fuel `F` is sound (the induction hypothesis) -/
def EvalOk (C : TCtx) (g : Grammar) (max F s : Nat) : Prop :=
  ∀ rule, FOk C max F s (eval (envOf C.sems) g max F rule)

/-- The dispatch of `parseExpr` after the tick and the budget check, with the recursive call
    abstracted as `ev` (a verbatim copy of the `match` in `eval`; `eval_succ` checks it by `rfl`). -/
def evalBody (env : Env) (g : Grammar) (ev : String → PExpr → Frame → PState → PRes) (fuel : Nat)
    (rule : String) (e : PExpr) (fr : Frame) (st : PState) : PRes :=
  match e with
  | .action name inner =>
    let start := st.pt
    match ev rule inner fr st with
    | .ok st' fr' _ true =>
      match env.action name fr' (sliceFrom start st'.pt) with
      | .ret av none => .ok st' fr' av true
      | .ret av (some msg) => .ok (st'.addErr start.off rule (.action msg)) fr' av true
      | .panic msg => .abort st' msg
    | .ok st' fr' v false => .ok st' fr' v false
    | r => r
  | .andCode name =>
    match env.pred name fr with
    | .ret b none => .ok st fr .nil b
    | .ret b (some msg) => .ok (st.addErr st.pt.off rule (.action msg)) fr .nil b
    | .panic msg => .abort st msg
  | .notCode name =>
    match env.pred name fr with
    | .ret b none => .ok st fr .nil (!b)
    | .ret b (some msg) => .ok (st.addErr st.pt.off rule (.action msg)) fr .nil (!b)
    | .panic msg => .abort st msg
  | .andP inner =>
    let pt := st.pt
    match ev rule inner [] st with
    | .ok st' _ _ m => .ok { st' with pt := pt } fr .nil m
    | r => r
  | .notP inner =>
    let pt := st.pt
    match ev rule inner [] st with
    | .ok st' _ _ m => .ok { st' with pt := pt } fr .nil (!m)
    | r => r
  | .any =>
    if atEOF st.pt then .ok st fr .nil false
    else
      let st' := st.read rule
      .ok st' fr (.bytes (sliceFrom st.pt st'.pt)) true
  | .charClass chars ranges classes ignoreCase inverted =>
    if ignoreCase then .abort st "unsupported: ignoreCase class" else
    if atEOF st.pt then .ok st fr .nil false
    else
      match classMatches env chars ranges classes st.pt.rn with
      | none => .abort st "unsupported: unicode class"
      | some hit =>
        if hit != inverted then
          let st' := st.read rule
          .ok st' fr (.bytes (sliceFrom st.pt st'.pt)) true
        else .ok st fr .nil false
  | .choice alts => choiceLoop (ev rule) alts fr st
  | .labeled label inner =>
    match ev rule inner [] st with
    | .ok st' _ v true => .ok st' (if label != "" then fr.set label v else fr) v true
    | .ok st' _ v false => .ok st' fr v false
    | r => r
  | .lit val ignoreCase =>
    if ignoreCase then .abort st "unsupported: ignoreCase literal" else
    -- a failed literal restores the position; errors logged by `read` on the way stay
    match litLoop rule val st with
    | (st', true) => .ok st' fr (.bytes (sliceFrom st.pt st'.pt)) true
    | (st', false) => .ok { st' with pt := st.pt } fr .nil false
  | .oneOrMore inner =>
    match ev rule inner [] st with
    | .ok st' _ v true => starLoop (ev rule inner) fuel fr st' [v]
    | .ok st' _ _ false => .ok st' fr .nil false
    | r => r
  | .ruleRef name =>
    if name == "" then .abort st "invalid rule: missing name" else
    match lookupRule g name with
    | none => .ok (st.addErr st.pt.off rule (.undefinedRule name)) fr .nil false
    | some r =>
      match ev r.shown r.expr [] st with
      | .ok st' _ v m => .ok st' fr v m
      | res => res
  | .seq es =>
    let pt := st.pt
    match seqLoop (ev rule) es fr st [] with
    | .ok st' fr' _ false => .ok { st' with pt := pt } fr' .nil false
    | r => r
  | .zeroOrMore inner => starLoop (ev rule inner) fuel fr st []
  | .zeroOrOne inner =>
    match ev rule inner [] st with
    | .ok st' _ v true => .ok st' fr v true
    | .ok st' _ _ false => .ok st' fr .nil true
    | r => r
  | .unsupported what => .abort st ("unsupported node: " ++ what)

theorem eval_succ (env : Env) (g : Grammar) (max fuel : Nat) (rule : String) (e : PExpr)
    (fr : Frame) (st0 : PState) :
    eval env g max (fuel + 1) rule e fr st0 =
      if st0.cnt + 1 > max then .exceeded { st0 with cnt := st0.cnt + 1 }
      else evalBody env g (eval env g max fuel) fuel rule e fr { st0 with cnt := st0.cnt + 1 } :=
  rfl

section nodes
variable {C : TCtx} {g : Grammar} {max F s : Nat} {ev : String → PExpr → Frame → PState → PRes}
  {rule : String} {fr : Frame} {st : PState} {Δ Δ' : LEnv} {t : PTy}

theorem node_any (hty : typeOfExpr C .any Δ = some (t, Δ')) (hfr : FrameOk fr Δ)
    (hp : Pre max F s st) :
    Post max s 0 t Δ' (minWidth .any) st (evalBody (envOf C.sems) g ev F rule .any fr st) := by
  simp only [typeOfExpr, Option.some.injEq, Prod.mk.injEq] at hty
  obtain ⟨rfl, rfl⟩ := hty
  simp only [evalBody, minWidth]
  split
  · exact ⟨hp.pt, hp.np, Reach.refl _, by omega, hp.cnt, fun hm => by simp at hm⟩
  · next heof =>
    refine ⟨read_ptOk _ _, read_np _ _ hp.np, read_reach _ _ hp.pt, by rw [read_cnt]; omega,
      by rw [read_cnt]; exact hp.cnt, fun _ => ⟨by simp [hasTy], hfr, ?_⟩⟩
    have := hp.pt.w_pos (by simpa using heof)
    rw [read_off]; omega

theorem node_charClass {chars ranges : List Nat} {classes : List String} {ic inv : Bool}
    (hty : typeOfExpr C (.charClass chars ranges classes ic inv) Δ = some (t, Δ'))
    (hfr : FrameOk fr Δ) (hp : Pre max F s st) :
    Post max s 0 t Δ' (minWidth (.charClass chars ranges classes ic inv)) st
      (evalBody (envOf C.sems) g ev F rule (.charClass chars ranges classes ic inv) fr st) := by
  simp only [typeOfExpr] at hty
  split at hty
  · simp at hty
  · next hic =>
    split at hty
    · next hcl =>
      simp only [Option.some.injEq, Prod.mk.injEq] at hty
      obtain ⟨rfl, rfl⟩ := hty
      have hic' : ic = false := by simpa using hic
      subst hic'
      simp only [evalBody, minWidth, Bool.false_eq_true, if_false]
      split
      · exact ⟨hp.pt, hp.np, Reach.refl _, by omega, hp.cnt, fun hm => by simp at hm⟩
      · next heof =>
        obtain ⟨b, hb⟩ := classMatches_some C.sems chars ranges classes st.pt.rn hcl
        simp only [hb]
        split
        · refine ⟨read_ptOk _ _, read_np _ _ hp.np, read_reach _ _ hp.pt, by rw [read_cnt]; omega,
            by rw [read_cnt]; exact hp.cnt, fun _ => ⟨by simp [hasTy], hfr, ?_⟩⟩
          have := hp.pt.w_pos (by simpa using heof)
          rw [read_off]; omega
        · exact ⟨hp.pt, hp.np, Reach.refl _, by omega, hp.cnt, fun hm => by simp at hm⟩
    · simp at hty

theorem node_lit {val : List Nat} {ic : Bool}
    (hty : typeOfExpr C (.lit val ic) Δ = some (t, Δ')) (hfr : FrameOk fr Δ) (hp : Pre max F s st) :
    Post max s 0 t Δ' (minWidth (.lit val ic)) st
      (evalBody (envOf C.sems) g ev F rule (.lit val ic) fr st) := by
  simp only [typeOfExpr] at hty
  split at hty
  · simp at hty
  · next hic =>
    simp only [Option.some.injEq, Prod.mk.injEq] at hty
    obtain ⟨rfl, rfl⟩ := hty
    have hic' : ic = false := by simpa using hic
    subst hic'
    simp only [evalBody, Bool.false_eq_true, if_false]
    obtain ⟨i1, i2, i3, i4, i5⟩ := litLoop_ok rule val st hp.pt hp.np
    split
    · next st' heq =>
      rw [heq] at i1 i2 i3 i4 i5
      refine ⟨i1, i2, i3, by simp only at i4; omega, by simp only at i4; have := hp.cnt; omega,
        fun _ => ⟨by simp [hasTy], hfr, ?_⟩⟩
      simp only [minWidth]
      split
      · next hall =>
        simp only [Bool.and_eq_true] at hall
        exact i5 rfl hall.2
      · have := i3.1; omega
    · next st' heq =>
      rw [heq] at i1 i2 i3 i4 i5
      exact ⟨hp.pt, i2, Reach.refl _, by simp only at i4 ⊢; omega,
        by simp only at i4 ⊢; have := hp.cnt; omega, fun hm => by simp at hm⟩

theorem node_unsupported {what : String}
    (hty : typeOfExpr C (.unsupported what) Δ = some (t, Δ')) :
    Post max s 0 t Δ' (minWidth (.unsupported what)) st
      (evalBody (envOf C.sems) g ev F rule (.unsupported what) fr st) := by
  simp [typeOfExpr] at hty

theorem node_andCode {name : String}
    (hty : typeOfExpr C (.andCode name) Δ = some (t, Δ')) (hp : Pre max F s st) :
    Post max s 0 t Δ' (minWidth (.andCode name)) st
      (evalBody (envOf C.sems) g ev F rule (.andCode name) fr st) := by
  simp only [typeOfExpr] at hty
  split at hty
  · next hs =>
    obtain ⟨msg, hmsg⟩ := runPredSem_sound hs fr
    simp only [evalBody, envOf, hmsg]
    exact ⟨hp.pt, hp.np.cons (by intro m; simp), Reach.refl _, by simp [PState.addErr],
      by simpa [PState.addErr] using hp.cnt, fun hm => by simp at hm⟩
  · simp at hty

theorem node_notCode {name : String}
    (hty : typeOfExpr C (.notCode name) Δ = some (t, Δ')) (hfr : FrameOk fr Δ) (hp : Pre max F s st) :
    Post max s 0 t Δ' (minWidth (.notCode name)) st
      (evalBody (envOf C.sems) g ev F rule (.notCode name) fr st) := by
  simp only [typeOfExpr] at hty
  split at hty
  · next hs =>
    simp only [Option.some.injEq, Prod.mk.injEq] at hty
    obtain ⟨rfl, rfl⟩ := hty
    obtain ⟨msg, hmsg⟩ := runPredSem_sound hs fr
    simp only [evalBody, envOf, hmsg, minWidth]
    exact ⟨hp.pt, hp.np.cons (by intro m; simp), Reach.refl _, by simp [PState.addErr],
      by simpa [PState.addErr] using hp.cnt,
      fun _ => ⟨by simp [hasTy], hfr, by simp [PState.addErr]⟩⟩
  · simp at hty

theorem node_andP {inner : PExpr} (hev : ∀ rule, FOk C max F s (ev rule))
    (hty : typeOfExpr C (.andP inner) Δ = some (t, Δ')) (hfr : FrameOk fr Δ) (hp : Pre max F s st) :
    Post max s 0 t Δ' (minWidth (.andP inner)) st
      (evalBody (envOf C.sems) g ev F rule (.andP inner) fr st) := by
  simp only [typeOfExpr] at hty
  cases h1 : typeOfExpr C inner [] with
  | none => simp [h1] at hty
  | some p1 =>
    simp only [h1, Option.some.injEq, Prod.mk.injEq] at hty
    obtain ⟨rfl, rfl⟩ := hty
    have h := hev rule inner [] st [] p1.1 p1.2 h1 frameOk_nil hp
    simp only [evalBody, minWidth]
    cases hres : ev rule inner [] st with
    | ok st1 fr1 v1 m =>
      rw [hres] at h
      obtain ⟨a1, a2, a3, a4, a5, a6⟩ := h
      exact ⟨hp.pt, a2, Reach.refl _, by simp only; omega, a5,
        fun _ => ⟨by simp [hasTy], hfr, by simp⟩⟩
    | exceeded st1 => rw [hres] at h; exact h
    | abort st1 msg => rw [hres] at h; exact h.elim
    | fuelOut => rw [hres] at h; exact h

theorem node_notP {inner : PExpr} (hev : ∀ rule, FOk C max F s (ev rule))
    (hty : typeOfExpr C (.notP inner) Δ = some (t, Δ')) (hfr : FrameOk fr Δ) (hp : Pre max F s st) :
    Post max s 0 t Δ' (minWidth (.notP inner)) st
      (evalBody (envOf C.sems) g ev F rule (.notP inner) fr st) := by
  simp only [typeOfExpr] at hty
  cases h1 : typeOfExpr C inner [] with
  | none => simp [h1] at hty
  | some p1 =>
    simp only [h1, Option.some.injEq, Prod.mk.injEq] at hty
    obtain ⟨rfl, rfl⟩ := hty
    have h := hev rule inner [] st [] p1.1 p1.2 h1 frameOk_nil hp
    simp only [evalBody, minWidth]
    cases hres : ev rule inner [] st with
    | ok st1 fr1 v1 m =>
      rw [hres] at h
      obtain ⟨a1, a2, a3, a4, a5, a6⟩ := h
      exact ⟨hp.pt, a2, Reach.refl _, by simp only; omega, a5,
        fun _ => ⟨by simp [hasTy], hfr, by simp⟩⟩
    | exceeded st1 => rw [hres] at h; exact h
    | abort st1 msg => rw [hres] at h; exact h.elim
    | fuelOut => rw [hres] at h; exact h

theorem node_labeled {label : String} {inner : PExpr} (hev : ∀ rule, FOk C max F s (ev rule))
    (hty : typeOfExpr C (.labeled label inner) Δ = some (t, Δ')) (hfr : FrameOk fr Δ)
    (hp : Pre max F s st) :
    Post max s 0 t Δ' (minWidth (.labeled label inner)) st
      (evalBody (envOf C.sems) g ev F rule (.labeled label inner) fr st) := by
  simp only [typeOfExpr] at hty
  cases h1 : typeOfExpr C inner [] with
  | none => simp [h1] at hty
  | some p1 =>
    obtain ⟨ti, Δi⟩ := p1
    simp only [h1, Option.some.injEq, Prod.mk.injEq] at hty
    obtain ⟨rfl, rfl⟩ := hty
    have h := hev rule inner [] st [] ti Δi h1 frameOk_nil hp
    simp only [evalBody, minWidth]
    cases hres : ev rule inner [] st with
    | ok st1 fr1 v1 m =>
      rw [hres] at h
      obtain ⟨a1, a2, a3, a4, a5, a6⟩ := h
      cases m with
      | true =>
        obtain ⟨b1, b2, b3⟩ := a6 rfl
        refine ⟨a1, a2, a3, by omega, a5, fun _ => ⟨b1, ?_, b3⟩⟩
        split
        · exact frameOk_set label b1 hfr
        · exact hfr
      | false => exact ⟨a1, a2, a3, by omega, a5, fun hm => by simp at hm⟩
    | exceeded st1 => rw [hres] at h; exact h
    | abort st1 msg => rw [hres] at h; exact h.elim
    | fuelOut => rw [hres] at h; exact h

theorem node_zeroOrOne {inner : PExpr} (hev : ∀ rule, FOk C max F s (ev rule))
    (hty : typeOfExpr C (.zeroOrOne inner) Δ = some (t, Δ')) (hfr : FrameOk fr Δ)
    (hp : Pre max F s st) :
    Post max s 0 t Δ' (minWidth (.zeroOrOne inner)) st
      (evalBody (envOf C.sems) g ev F rule (.zeroOrOne inner) fr st) := by
  simp only [typeOfExpr] at hty
  cases h1 : typeOfExpr C inner [] with
  | none => simp [h1] at hty
  | some p1 =>
    obtain ⟨ti, Δi⟩ := p1
    simp only [h1, Option.some.injEq, Prod.mk.injEq] at hty
    obtain ⟨rfl, rfl⟩ := hty
    have h := hev rule inner [] st [] ti Δi h1 frameOk_nil hp
    simp only [evalBody, minWidth]
    cases hres : ev rule inner [] st with
    | ok st1 fr1 v1 m =>
      rw [hres] at h
      obtain ⟨a1, a2, a3, a4, a5, a6⟩ := h
      have hoff := a3.1
      cases m with
      | true =>
        obtain ⟨b1, b2, b3⟩ := a6 rfl
        exact ⟨a1, a2, a3, by omega, a5, fun _ => ⟨by simp [hasTy, b1], hfr, by omega⟩⟩
      | false =>
        exact ⟨a1, a2, a3, by omega, a5, fun _ => ⟨by simp [hasTy], hfr, by omega⟩⟩
    | exceeded st1 => rw [hres] at h; exact h
    | abort st1 msg => rw [hres] at h; exact h.elim
    | fuelOut => rw [hres] at h; exact h

theorem node_zeroOrMore {inner : PExpr} (hev : ∀ rule, FOk C max F s (ev rule))
    (hty : typeOfExpr C (.zeroOrMore inner) Δ = some (t, Δ')) (hfr : FrameOk fr Δ)
    (hp : Pre max F s st) :
    Post max s 0 t Δ' (minWidth (.zeroOrMore inner)) st
      (evalBody (envOf C.sems) g ev F rule (.zeroOrMore inner) fr st) := by
  simp only [typeOfExpr] at hty
  cases h1 : typeOfExpr C inner [] with
  | none => simp [h1] at hty
  | some p1 =>
    obtain ⟨ti, Δi⟩ := p1
    simp only [h1, Option.some.injEq, Prod.mk.injEq] at hty
    obtain ⟨rfl, rfl⟩ := hty
    simp only [evalBody, minWidth]
    exact starLoop_ok (fun st' hp' => hev rule inner [] st' [] ti Δi h1 frameOk_nil hp')
      F fr st [] Δ hp.fuel hfr hp (by simp)

theorem node_oneOrMore {inner : PExpr} (hev : ∀ rule, FOk C max F s (ev rule))
    (hty : typeOfExpr C (.oneOrMore inner) Δ = some (t, Δ')) (hfr : FrameOk fr Δ)
    (hp : Pre max F s st) :
    Post max s 0 t Δ' (minWidth (.oneOrMore inner)) st
      (evalBody (envOf C.sems) g ev F rule (.oneOrMore inner) fr st) := by
  simp only [typeOfExpr] at hty
  cases h1 : typeOfExpr C inner [] with
  | none => simp [h1] at hty
  | some p1 =>
    obtain ⟨ti, Δi⟩ := p1
    simp only [h1, Option.some.injEq, Prod.mk.injEq] at hty
    obtain ⟨rfl, rfl⟩ := hty
    have h := hev rule inner [] st [] ti Δi h1 frameOk_nil hp
    simp only [evalBody, minWidth]
    cases hres : ev rule inner [] st with
    | ok st1 fr1 v1 m =>
      rw [hres] at h
      obtain ⟨a1, a2, a3, a4, a5, a6⟩ := h
      cases m with
      | true =>
        obtain ⟨b1, b2, b3⟩ := a6 rfl
        have := starLoop_ok (fun st' hp' => hev rule inner [] st' [] ti Δi h1 frameOk_nil hp')
          F fr st1 [v1] Δ (by have := hp.fuel; omega) hfr (hp.next a1 a2 (by omega) a5)
          (by intro x hx; simp at hx; subst hx; exact b1)
        exact this.shift a3 (by omega) (by omega)
      | false => exact ⟨a1, a2, a3, by omega, a5, fun hm => by simp at hm⟩
    | exceeded st1 => rw [hres] at h; exact h
    | abort st1 msg => rw [hres] at h; exact h.elim
    | fuelOut => rw [hres] at h; exact h

theorem node_ruleRef {name : String} (hev : ∀ rule, FOk C max F s (ev rule)) (hg : GOk C g)
    (hty : typeOfExpr C (.ruleRef name) Δ = some (t, Δ')) (hfr : FrameOk fr Δ)
    (hp : Pre max F s st) :
    Post max s 0 t Δ' (minWidth (.ruleRef name)) st
      (evalBody (envOf C.sems) g ev F rule (.ruleRef name) fr st) := by
  simp only [typeOfExpr] at hty
  split at hty
  · simp at hty
  · next hname =>
    split at hty
    · simp at hty
    · cases hΓ : lookupΓ C.Γ name with
      | none => simp [hΓ] at hty
      | some tΓ =>
        simp only [hΓ, Option.some.injEq, Prod.mk.injEq] at hty
        obtain ⟨rfl, rfl⟩ := hty
        simp only [evalBody, minWidth, hname]
        cases hr : lookupRule g name with
        | none =>
          simp only
          exact ⟨hp.pt, hp.np.cons (by intro m; simp), Reach.refl _, by simp [PState.addErr],
            by simpa [PState.addErr] using hp.cnt, fun hm => by simp at hm⟩
        | some r =>
          simp only
          obtain ⟨tb, Δb, hb, hsub⟩ := hg name r tΓ hr hΓ
          have h := hev r.shown r.expr [] st [] tb Δb hb frameOk_nil hp
          cases hres : ev r.shown r.expr [] st with
          | ok st1 fr1 v1 m =>
            rw [hres] at h
            obtain ⟨a1, a2, a3, a4, a5, a6⟩ := h
            have hoff := a3.1
            refine ⟨a1, a2, a3, by omega, a5, fun hm => ?_⟩
            obtain ⟨b1, b2, b3⟩ := a6 hm
            exact ⟨sub_sound _ _ _ hsub b1, hfr, by omega⟩
          | exceeded st1 => rw [hres] at h; exact h
          | abort st1 msg => rw [hres] at h; exact h.elim
          | fuelOut => rw [hres] at h; exact h

theorem node_seq {es : List PExpr} (hev : ∀ rule, FOk C max F s (ev rule))
    (hty : typeOfExpr C (.seq es) Δ = some (t, Δ')) (hfr : FrameOk fr Δ) (hp : Pre max F s st) :
    Post max s 0 t Δ' (minWidth (.seq es)) st
      (evalBody (envOf C.sems) g ev F rule (.seq es) fr st) := by
  simp only [typeOfExpr] at hty
  have h := seqLoop_ok (hev rule) es fr st [] Δ t Δ' hty hfr hp
  simp only [evalBody, minWidth]
  cases hres : seqLoop (ev rule) es fr st [] with
  | ok st1 fr1 v1 m =>
    rw [hres] at h
    obtain ⟨a1, a2, a3, a4, a5, a6⟩ := h
    cases m with
    | true => exact ⟨a1, a2, a3, a4, a5, a6⟩
    | false => exact ⟨hp.pt, a2, Reach.refl _, by simp only; omega, a5, fun hm => by simp at hm⟩
  | exceeded st1 => rw [hres] at h; exact h
  | abort st1 msg => rw [hres] at h; exact h.elim
  | fuelOut => rw [hres] at h; exact h

theorem node_choice {alts : List PExpr} (hev : ∀ rule, FOk C max F s (ev rule))
    (hty : typeOfExpr C (.choice alts) Δ = some (t, Δ')) (hfr : FrameOk fr Δ) (hp : Pre max F s st) :
    Post max s 0 t Δ' (minWidth (.choice alts)) st
      (evalBody (envOf C.sems) g ev F rule (.choice alts) fr st) := by
  simp only [typeOfExpr] at hty
  cases h1 : typeOfAlts C alts with
  | none => simp [h1] at hty
  | some ta =>
    simp only [h1, Option.some.injEq, Prod.mk.injEq] at hty
    obtain ⟨rfl, rfl⟩ := hty
    simp only [evalBody, minWidth]
    exact choiceLoop_ok (hev rule) alts fr st Δ ta h1 hfr hp

theorem node_action {name : String} {inner : PExpr} (hev : ∀ rule, FOk C max F s (ev rule))
    (hty : typeOfExpr C (.action name inner) Δ = some (t, Δ')) (hfr : FrameOk fr Δ)
    (hp : Pre max F s st) :
    Post max s 0 t Δ' (minWidth (.action name inner)) st
      (evalBody (envOf C.sems) g ev F rule (.action name inner) fr st) := by
  simp only [typeOfExpr] at hty
  cases h1 : typeOfExpr C inner Δ with
  | none => simp [h1] at hty
  | some p1 =>
    obtain ⟨ti, Δi⟩ := p1
    simp only [h1] at hty
    cases h2 : actionTy (lookupSem C.sems name) Δi (minWidth inner) with
    | none => simp [h2] at hty
    | some ta =>
      simp only [h2, Option.some.injEq, Prod.mk.injEq] at hty
      obtain ⟨rfl, rfl⟩ := hty
      have h := hev rule inner fr st Δ ti Δi h1 hfr hp
      simp only [evalBody, minWidth]
      cases hres : ev rule inner fr st with
      | ok st1 fr1 v1 m =>
        rw [hres] at h
        obtain ⟨a1, a2, a3, a4, a5, a6⟩ := h
        cases m with
        | true =>
          obtain ⟨b1, b2, b3⟩ := a6 rfl
          obtain ⟨av, err, hact, hav⟩ := runActionSem_sound (fr := fr1)
            (text := sliceFrom st.pt st1.pt) h2 b2 (by rw [length_sliceFrom a3]; omega)
          simp only [envOf, hact]
          cases err with
          | none => exact ⟨a1, a2, a3, by omega, a5, fun _ => ⟨hav, b2, b3⟩⟩
          | some msg =>
            exact ⟨a1, a2.cons (by intro m; simp), a3, by simp only [PState.addErr]; omega,
              by simpa [PState.addErr] using a5, fun _ => ⟨hav, b2, b3⟩⟩
        | false => exact ⟨a1, a2, a3, by omega, a5, fun hm => by simp at hm⟩
      | exceeded st1 => rw [hres] at h; exact h
      | abort st1 msg => rw [hres] at h; exact h.elim
      | fuelOut => rw [hres] at h; exact h

end nodes

/-! ## The induction on fuel -/

theorem evalOk_zero (C : TCtx) (g : Grammar) (max s : Nat) : EvalOk C g max 0 s := by
  intro rule e fr st Δ t Δ' _ _ hpre
  have h1 := hpre.cnt
  have h2 := hpre.fuel
  simp only [eval, Post]
  omega

theorem evalOk_succ {C : TCtx} {g : Grammar} {max F s : Nat} (hg : GOk C g)
    (IH : EvalOk C g max F s) : EvalOk C g max (F + 1) s := by
  intro rule e fr st0 Δ t Δ' hty hfr hpre
  rw [eval_succ]
  split
  · exact hpre.np
  · next hc =>
    have hp := hpre.tick hc
    apply Post.untick (d := 0)
    cases e with
    | choice alts => exact node_choice IH hty hfr hp
    | seq es => exact node_seq IH hty hfr hp
    | action name inner => exact node_action IH hty hfr hp
    | labeled label inner => exact node_labeled IH hty hfr hp
    | ruleRef name => exact node_ruleRef IH hg hty hfr hp
    | lit val ic => exact node_lit hty hfr hp
    | charClass chars ranges classes ic inv => exact node_charClass hty hfr hp
    | any => exact node_any hty hfr hp
    | andP inner => exact node_andP IH hty hfr hp
    | notP inner => exact node_notP IH hty hfr hp
    | andCode name => exact node_andCode hty hp
    | notCode name => exact node_notCode hty hfr hp
    | zeroOrOne inner => exact node_zeroOrOne IH hty hfr hp
    | zeroOrMore inner => exact node_zeroOrMore IH hty hfr hp
    | oneOrMore inner => exact node_oneOrMore IH hty hfr hp
    | unsupported what => exact node_unsupported hty

theorem evalOk {C : TCtx} {g : Grammar} (hg : GOk C g) (max s : Nat) :
    ∀ F, EvalOk C g max F s := by
  intro F
  induction F with
  | zero => exact evalOk_zero C g max s
  | succ F ih => exact evalOk_succ hg ih

/-! ## From the checker to the hypothesis on the grammar -/

theorem lookupRule_foldl (name : String) :
    ∀ (g : Grammar) (init : Option Rule) (r : Rule),
      g.foldl (fun acc r => if r.name == name then some r else acc) init = some r →
      (r ∈ g ∧ r.name = name) ∨ init = some r := by
  intro g
  induction g with
  | nil => intro init r h; exact Or.inr h
  | cons x xs ih =>
    intro init r h
    simp only [List.foldl_cons] at h
    rcases ih _ r h with ⟨hm, hn⟩ | h'
    · exact Or.inl ⟨List.mem_cons_of_mem _ hm, hn⟩
    · split at h'
      · next hx =>
        simp only [Option.some.injEq] at h'
        subst h'
        exact Or.inl ⟨List.mem_cons_self, by simpa using hx⟩
      · exact Or.inr h'

theorem lookupRule_some {g : Grammar} {name : String} {r : Rule}
    (h : lookupRule g name = some r) : r ∈ g ∧ r.name = name := by
  rcases lookupRule_foldl name g none r h with h | h
  · exact h
  · simp at h

theorem typecheck_GOk {g : Grammar} {sems : List (String × ActionSem)} {Γ : List (String × PTy)}
    (h : typecheck g sems Γ = true) : GOk (ctxOf g sems Γ) g := by
  intro name r tΓ hr hΓ
  obtain ⟨hm, hn⟩ := lookupRule_some hr
  simp only [typecheck, Bool.and_eq_true, List.all_eq_true] at h
  have hc := h.1.1 r hm
  simp only [checkRule] at hc
  cases h1 : typeOfExpr (ctxOf g sems Γ) r.expr [] with
  | none => simp [h1] at hc
  | some p1 =>
    obtain ⟨t, Δ'⟩ := p1
    simp only [h1] at hc
    rw [hn] at hc
    simp only [ctxOf] at hΓ
    simp only [ctxOf, hΓ] at hc
    exact ⟨t, Δ', rfl, hc⟩

/-! ## Soundness -/

/-- **Soundness, full invariant.**  For a grammar that type-checks, a call of `parseExpr` on an
    expression that has type `t` under `Δ`, in a frame satisfying `Δ` and a state satisfying `Pre`,
    satisfies `Post`: it does not abort; with slack `s = 0` (i.e. `fuel + cnt ≥ max + 2`) it does
    not run out of fuel either; it logs no panic entry; a match yields a value of type `t`, a frame
    satisfying `Δ'`, and consumes at least `minWidth e` bytes. -/
theorem eval_sound {g : Grammar} {sems : List (String × ActionSem)} {Γ : List (String × PTy)}
    (h : typecheck g sems Γ = true) (max F s : Nat) (rule : String) (e : PExpr) (fr : Frame)
    (st : PState) (Δ Δ' : LEnv) (t : PTy)
    (hty : typeOfExpr (ctxOf g sems Γ) e Δ = some (t, Δ')) (hfr : FrameOk fr Δ)
    (hpre : Pre max F s st) :
    Post max s 1 t Δ' (minWidth e) st (eval (envOf sems) g max F rule e fr st) :=
  evalOk (C := ctxOf g sems Γ) (typecheck_GOk h) max s F rule e fr st Δ t Δ' hty hfr hpre

/-- **Soundness, as a statement about arbitrary fuel, budget, rule and state**: `eval` never
    aborts, and a match has the static type and the promised labels.  (`PtOk`: the current
    rune/width of the state are those of its remaining input, as after any `read`; `NP`: no panic
    entry has been logged before.) -/
theorem eval_typed {g : Grammar} {sems : List (String × ActionSem)} {Γ : List (String × PTy)}
    (h : typecheck g sems Γ = true) (max fuel : Nat) (rule : String) (e : PExpr) (fr : Frame)
    (st : PState) (Δ Δ' : LEnv) (t : PTy)
    (hty : typeOfExpr (ctxOf g sems Γ) e Δ = some (t, Δ')) (hfr : FrameOk fr Δ)
    (hpt : PtOk st.pt) (hnp : NP st.errs) :
    (∀ st' msg, eval (envOf sems) g max fuel rule e fr st ≠ .abort st' msg) ∧
    (∀ st' fr' v, eval (envOf sems) g max fuel rule e fr st = .ok st' fr' v true →
      hasTy v t = true ∧ FrameOk fr' Δ' ∧ st.pt.off + minWidth e ≤ st'.pt.off) := by
  by_cases hc : st.cnt ≤ max
  · have hpost := eval_sound h max fuel (max + 2) rule e fr st Δ Δ' t hty hfr
      ⟨hpt, hnp, hc, by omega⟩
    constructor
    · intro st' msg heq; rw [heq] at hpost; exact hpost
    · intro st' fr' v heq
      rw [heq] at hpost
      exact hpost.2.2.2.2.2 rfl
  · cases fuel with
    | zero => simp [eval]
    | succ F =>
      rw [eval_succ]
      have : st.cnt + 1 > max := by omega
      simp [this]

/-! ## The whole parse -/

theorem lookupRule_isSome_foldl (name : String) :
    ∀ (g : Grammar) (init : Option Rule),
      (init.isSome = true ∨ ∃ x ∈ g, x.name = name) →
      (g.foldl (fun acc r => if r.name == name then some r else acc) init).isSome = true := by
  intro g
  induction g with
  | nil =>
    intro init h
    rcases h with h | ⟨x, hx, _⟩
    · exact h
    · simp at hx
  | cons y ys ih =>
    intro init h
    simp only [List.foldl_cons]
    apply ih
    by_cases hy : y.name = name
    · left; simp [hy]
    · rcases h with h | ⟨x, hx, hn⟩
      · left; simp [hy, h]
      · rcases List.mem_cons.1 hx with rfl | hx
        · exact absurd hn hy
        · right; exact ⟨x, hx, hn⟩

theorem lookupRule_of_mem {g : Grammar} {r : Rule} (h : r ∈ g) :
    ∃ r', lookupRule g r.name = some r' := by
  have := lookupRule_isSome_foldl r.name g none (Or.inr ⟨r, h, rfl⟩)
  exact Option.isSome_iff_exists.1 this

theorem NP_reverse {errs : List PErr} (h : NP errs) : NP errs.reverse :=
  fun e he => h e (List.mem_reverse.1 he)

/-- **The whole parse** of a grammar that type-checks: no panic entry in the error list (neither
    a Go panic in an action or the engine, nor the model's fuel artefact), and an accepted parse
    yields a parser-shaped expression. -/
theorem run_sound {g : Grammar} {sems : List (String × ActionSem)} {Γ : List (String × PTy)}
    (h : typecheck g sems Γ = true) (maxE : Nat) (input : GoString) :
    NP (run (envOf sems) g maxE input).errs ∧
    ((run (envOf sems) g maxE input).accepted = true →
      ∃ e, (run (envOf sems) g maxE input).val = .expr e ∧ e.parserShaped = true) := by
  cases g with
  | nil => simp [typecheck] at h
  | cons r0 rs =>
    have hΓ0 : lookupΓ Γ r0.name = some .expr := by
      simp only [typecheck, Bool.and_eq_true, decide_eq_true_eq] at h
      exact h.2
    obtain ⟨start, hstart⟩ := lookupRule_of_mem (g := r0 :: rs) (r := r0) List.mem_cons_self
    obtain ⟨tb, Δb, hb, hsub⟩ := typecheck_GOk h r0.name start .expr hstart hΓ0
    simp only [run, hstart]
    generalize hst0 : ({ pt := { rest := input, off := 0, rn := 0, w := 0 }, cnt := 0, errs := [] } : PState) = st0
    have hnp0 : NP st0.errs := by subst hst0; intro e he; simp at he
    have hcnt0 : st0.cnt = 0 := by subst hst0; rfl
    have hpre : Pre (effectiveMax maxE) (effectiveMax maxE + 2) 0 (st0.read "") :=
      ⟨read_ptOk _ _, read_np _ _ hnp0, by rw [read_cnt, hcnt0]; omega, by omega⟩
    have hpost := eval_sound h (effectiveMax maxE) (effectiveMax maxE + 2) 0 start.shown start.expr
      [] (st0.read "") [] Δb tb hb frameOk_nil hpre
    cases hres : eval (envOf sems) (r0 :: rs) (effectiveMax maxE) (effectiveMax maxE + 2)
        start.shown start.expr [] (st0.read "") with
    | ok st1 fr1 v1 m =>
      rw [hres] at hpost
      obtain ⟨a1, a2, a3, a4, a5, a6⟩ := hpost
      cases m with
      | true =>
        simp only
        refine ⟨NP_reverse a2, fun _ => ?_⟩
        exact hasTy_expr_inv (sub_sound _ _ _ hsub (a6 rfl).1)
      | false =>
        simp only
        split
        · refine ⟨?_, fun hacc => by simp [ParseOut.accepted] at hacc⟩
          intro e he msg; simp at he; subst he; simp
        · next hne =>
          refine ⟨NP_reverse a2, fun hacc => ?_⟩
          simp [ParseOut.accepted] at hacc
          simp [hacc] at hne
    | exceeded st1 =>
      rw [hres] at hpost
      simp only
      refine ⟨NP_reverse (NP.cons hpost (by intro m; simp)), fun hacc => ?_⟩
      simp [ParseOut.accepted, PState.addErr] at hacc
    | abort st1 msg => rw [hres] at hpost; exact hpost.elim
    | fuelOut => rw [hres] at hpost; exact absurd hpost (by simp [Post])

end Bexpr.Proofs.TypingSound
