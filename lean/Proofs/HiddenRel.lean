/-
  Instance 2 of the two-run theorem: values equal except inside hidden struct fields (C08).

  A field is hidden under tag name `tn` iff it is unexported or its `tn` tag (cut at the first
  comma) is "-" (`hiddenIn`, Proofs/Relational.lean); `tn = tagNameOf tag` is how `getStruct`
  reads the configured tag name (`""` means `"pointer"`).

  `HiddenEq tag strict v v'`: same shape, same field metadata, visible fields related, hidden
  fields arbitrary; recursively through pointers, interfaces, slices, arrays, map values (map
  KEYS are equal: the key types of the modelled universe are scalars or interfaces holding
  scalars) and struct fields.  With `strict = true` the first field of every struct named
  `main.Wrap` must additionally be visible: the harness' `unwrap` hook replaces such a struct by
  its first field whatever its visibility (true of the Go type `Wrap struct{ V interface{} }`).
-/
import Proofs.Relational

namespace Bexpr.Proofs.HiddenRel
open Bexpr Bexpr.Go Bexpr.Eval Bexpr.Proofs.Rel

/-- the tag name `getStruct` reads when `tag` is configured -/
def tagNameOf (tag : GoString) : GoString :=
  if tag.isEmpty then GoString.ofString "pointer" else tag

theorem effTag_eq (cfg : Config) : effTag cfg = tagNameOf cfg.tagName := rfl

/-- the first field (if any) is visible -/
def headVisible (tn : GoString) : List (Field × GoVal) → Bool
  | [] => true
  | (f, _) :: _ => !hiddenIn tn f

inductive HiddenEq (tag : GoString) (strict : Bool) : GoVal → GoVal → Prop
  | bool n b : HiddenEq tag strict (.bool n b) (.bool n b)
  | int k n v : HiddenEq tag strict (.int k n v) (.int k n v)
  | uint k n v : HiddenEq tag strict (.uint k n v) (.uint k n v)
  | float k n v : HiddenEq tag strict (.float k n v) (.float k n v)
  | complex k n : HiddenEq tag strict (.complex k n) (.complex k n)
  | str n s : HiddenEq tag strict (.str n s) (.str n s)
  | other k n nl : HiddenEq tag strict (.other k n nl) (.other k n nl)
  | ptr e {x x'} : OptRel (HiddenEq tag strict) x x' → HiddenEq tag strict (.ptr e x) (.ptr e x')
  | iface {x x'} : OptRel (HiddenEq tag strict) x x' → HiddenEq tag strict (.iface x) (.iface x')
  | slice n e nl {xs xs'} : ListRel (HiddenEq tag strict) xs xs' →
      HiddenEq tag strict (.slice n e nl xs) (.slice n e nl xs')
  | array e {xs xs'} : ListRel (HiddenEq tag strict) xs xs' →
      HiddenEq tag strict (.array e xs) (.array e xs')
  | map n kt vt nl {es es'} : EntRel (HiddenEq tag strict) es es' →
      HiddenEq tag strict (.map n kt vt nl es) (.map n kt vt nl es')
  /-- same field list (names, exportedness, tags); visible fields related, hidden ones free -/
  | struct n {fs fs'} : FieldsRel (HiddenEq tag strict) (hiddenIn (tagNameOf tag)) fs fs' →
      (strict = true → n = "main.Wrap" → headVisible (tagNameOf tag) fs = true) →
      HiddenEq tag strict (.struct n fs) (.struct n fs')

variable {tag : GoString} {strict : Bool}

theorem hiddenEq_inv (cfg : Config) (hc : cfg.tagName = tag) {v v'} (h : HiddenEq tag strict v v') :
    Shape (HiddenEq tag strict) cfg v v' := by
  cases h with
  | bool n b => exact .bool n b
  | int k n v => exact .int k n v
  | uint k n v => exact .uint k n v
  | float k n v => exact .float k n v
  | complex k n => exact .complex k n
  | str n s => exact .str n s
  | other k n nl => exact .other k n nl
  | ptr e hx => exact .ptr e hx
  | iface hx => exact .iface hx
  | slice n e nl hx => exact .slice n e nl hx
  | array e hx => exact .array e hx
  | map n kt vt nl he => exact .map n kt vt nl (mapObs_of_ent he)
  | struct n hf _ =>
    refine .struct n (fun part => getStruct_rel (hid := hiddenIn (tagNameOf tag)) ?_ hf part)
    intro f hf
    rw [effTag_eq, hc]; exact hf

theorem hiddenEq_scalar : ∀ v, isScalar v = true → HiddenEq tag strict v v
  | .bool n b, _ => .bool n b
  | .int k n v, _ => .int k n v
  | .uint k n v, _ => .uint k n v
  | .float k n v, _ => .float k n v
  | .complex k n, _ => .complex k n
  | .str n s, _ => .str n s
  | .other k n nl, _ => .other k n nl
  | .ptr .., h | .slice .., h | .array .., h | .map .., h | .struct .., h | .iface _, h => by
    cases h

theorem hiddenEq_wrap {fs fs'}
    (h : HiddenEq tag true (.struct "main.Wrap" fs) (.struct "main.Wrap" fs')) :
    HeadRel (HiddenEq tag true) fs fs' := by
  cases h with
  | struct _ hf hw =>
    cases hf with
    | nil => exact .nil
    | hidden hh _ =>
      have := hw rfl rfl
      simp only [headVisible, hh] at this
      cases this
    | visible hv _ => exact .cons hv

/-- `HiddenEq` satisfies the hypotheses of the generic two-run theorem for the configuration
    whose tag name it was built for, and every modelled hook (`unwrap` needs `strict`). -/
theorem hiddenEq_hyps (cfg : Config) (hc : cfg.tagName = tag)
    (hs : cfg.hook = .unwrap → strict = true) : RelHyps (HiddenEq tag strict) cfg where
  inv := fun _ _ h => hiddenEq_inv cfg hc h
  hook := fun v v' h => by
    by_cases hu : cfg.hook = .unwrap
    · have := hs hu
      subst this
      rw [hu]
      exact unwrap_hook_rel (cfg := cfg) (fun _ _ h => hiddenEq_inv cfg hc h)
        (fun _ _ => hiddenEq_wrap) h
    · exact hook_of_not_unwrap hu (fun k n i => .int k n i) h
  reflScalar := hiddenEq_scalar

/-! ## Reflexivity -/

mutual
/-- every struct named `main.Wrap` inside the value has a visible first field -/
def wrapOk (tn : GoString) : GoVal → Bool
  | .ptr _ (some v) => wrapOk tn v
  | .slice _ _ _ xs => wrapOkList tn xs
  | .array _ xs => wrapOkList tn xs
  | .map _ _ _ _ es => wrapOkEntries tn es
  | .struct n fs => (n != "main.Wrap" || headVisible tn fs) && wrapOkFields tn fs
  | .iface (some v) => wrapOk tn v
  | _ => true
def wrapOkList (tn : GoString) : List GoVal → Bool
  | [] => true
  | x :: xs => wrapOk tn x && wrapOkList tn xs
def wrapOkEntries (tn : GoString) : List (GoVal × GoVal) → Bool
  | [] => true
  | (_, v) :: es => wrapOk tn v && wrapOkEntries tn es
def wrapOkFields (tn : GoString) : List (Field × GoVal) → Bool
  | [] => true
  | (_, v) :: fs => wrapOk tn v && wrapOkFields tn fs
end

/-- side condition of reflexivity: nothing for `strict = false` -/
def ReflOk (_tag : GoString) (strict : Bool) (ok : Bool) : Prop := strict = false ∨ ok = true

mutual
theorem hiddenEq_refl (tag : GoString) (strict : Bool) : ∀ v,
    ReflOk tag strict (wrapOk (tagNameOf tag) v) → HiddenEq tag strict v v
  | .bool n b, _ => .bool n b
  | .int k n v, _ => .int k n v
  | .uint k n v, _ => .uint k n v
  | .float k n v, _ => .float k n v
  | .complex k n, _ => .complex k n
  | .str n s, _ => .str n s
  | .other k n nl, _ => .other k n nl
  | .ptr e none, _ => .ptr e .none
  | .ptr e (some v), h =>
    .ptr e (.some (hiddenEq_refl tag strict v (h.imp id fun h => by simpa [wrapOk] using h)))
  | .iface none, _ => .iface .none
  | .iface (some v), h =>
    .iface (.some (hiddenEq_refl tag strict v (h.imp id fun h => by simpa [wrapOk] using h)))
  | .slice n e nl xs, h =>
    .slice n e nl (hiddenEqList_refl tag strict xs (h.imp id fun h => by simpa [wrapOk] using h))
  | .array e xs, h =>
    .array e (hiddenEqList_refl tag strict xs (h.imp id fun h => by simpa [wrapOk] using h))
  | .map n kt vt nl es, h =>
    .map n kt vt nl (hiddenEqEntries_refl tag strict es (h.imp id fun h => by simpa [wrapOk] using h))
  | .struct n fs, h =>
    .struct n
      (hiddenEqFields_refl tag strict fs (h.imp id fun h => by
        simp only [wrapOk, Bool.and_eq_true] at h
        exact h.2))
      (fun hs hn => by
        rcases h with h | h
        · rw [h] at hs; cases hs
        · simp only [wrapOk, Bool.and_eq_true] at h
          simpa [hn] using h.1)
theorem hiddenEqList_refl (tag : GoString) (strict : Bool) : ∀ xs,
    ReflOk tag strict (wrapOkList (tagNameOf tag) xs) → ListRel (HiddenEq tag strict) xs xs
  | [], _ => .nil
  | x :: xs, h =>
    .cons (hiddenEq_refl tag strict x (h.imp id fun h => by
        simp only [wrapOkList, Bool.and_eq_true] at h
        exact h.1))
      (hiddenEqList_refl tag strict xs (h.imp id fun h => by
        simp only [wrapOkList, Bool.and_eq_true] at h
        exact h.2))
theorem hiddenEqEntries_refl (tag : GoString) (strict : Bool) : ∀ es,
    ReflOk tag strict (wrapOkEntries (tagNameOf tag) es) → EntRel (HiddenEq tag strict) es es
  | [], _ => .nil
  | (k, v) :: es, h =>
    .cons (hiddenEq_refl tag strict v (h.imp id fun h => by
        simp only [wrapOkEntries, Bool.and_eq_true] at h
        exact h.1))
      (hiddenEqEntries_refl tag strict es (h.imp id fun h => by
        simp only [wrapOkEntries, Bool.and_eq_true] at h
        exact h.2))
theorem hiddenEqFields_refl (tag : GoString) (strict : Bool) : ∀ fs,
    ReflOk tag strict (wrapOkFields (tagNameOf tag) fs) →
    FieldsRel (HiddenEq tag strict) (hiddenIn (tagNameOf tag)) fs fs
  | [], _ => .nil
  | (f, v) :: fs, h =>
    .visible (hiddenEq_refl tag strict v (h.imp id fun h => by
        simp only [wrapOkFields, Bool.and_eq_true] at h
        exact h.1))
      (hiddenEqFields_refl tag strict fs (h.imp id fun h => by
        simp only [wrapOkFields, Bool.and_eq_true] at h
        exact h.2))
end

def anyWrapOk (tn : GoString) : Any → Bool
  | none => true
  | some v => wrapOk tn v

theorem anyRel_refl (tag : GoString) (strict : Bool) {d : Any}
    (h : ReflOk tag strict (anyWrapOk (tagNameOf tag) d)) : AnyRel (HiddenEq tag strict) d d := by
  cases d with
  | none => exact .none
  | some v => exact .some (hiddenEq_refl tag strict v h)

/-- side condition on the options for `strict = true`; trivially true for `strict = false` -/
def OptsOk (tag : GoString) (strict : Bool) (o : Opts) : Prop :=
  (∀ u, o.unknown = some u → ReflOk tag strict (anyWrapOk (tagNameOf tag) u)) ∧
  ∀ lv ∈ o.locals, ReflOk tag strict (anyWrapOk (tagNameOf tag) lv.value)

theorem optsOk_false (tag : GoString) (o : Opts) : OptsOk tag false o :=
  ⟨fun _ _ => .inl rfl, fun _ _ => .inl rfl⟩

theorem optsRel_refl {o : Opts} (h : OptsOk tag strict o) :
    OptsRel (HiddenEq tag strict) o.cfg o o where
  cfgL := rfl
  cfgR := rfl
  unknown := by
    cases hu : o.unknown with
    | none => exact .none
    | some u => exact .some (anyRel_refl tag strict (h.1 u hu))
  locals := ListRel.of_forall fun lv hlv => ⟨rfl, rfl, anyRel_refl tag strict (h.2 lv hlv)⟩

/-! ## Selecting a hidden / renamed field -/

/-- If no field makes the loop stop or remember a value, `getStruct` fails. -/
theorem structLoop_no_hit (tn part : GoString) : ∀ (fs : List (Field × GoVal)),
    (∀ e ∈ fs, fieldAct tn part e.1 ≠ .tagHit ∧ fieldAct tn part e.1 ≠ .nameHit) →
    ∀ found ign : Bool, (found = true → ign = true) →
      structLoop tn part fs none found ign = .error .notFound ∨
      structLoop tn part fs none found ign = .error .ignored ∨
      structLoop tn part fs none found ign = .error .tagBar
  | [], _, found, ign, hfi => by
    cases found <;> cases ign <;> simp [structLoop] at hfi ⊢
  | (f, v) :: fs, h, found, ign, hfi => by
    have ih := structLoop_no_hit tn part fs (fun e he => h e (by simp [he]))
    have hf := h (f, v) (by simp)
    rw [structLoop_cons]
    cases ha : fieldAct tn part f with
    | skip => exact ih found ign hfi
    | bar => exact .inr (.inr rfl)
    | ignore => exact ih true true (fun _ => rfl)
    | tagHit => exact absurd ha hf.1
    | nameHit => exact absurd ha hf.2

/-- If every field only `continue`s or has a '|' tag, the part is not found. -/
theorem structLoop_all_skip (tn part : GoString) : ∀ (fs : List (Field × GoVal)),
    (∀ e ∈ fs, fieldAct tn part e.1 = .skip ∨ fieldAct tn part e.1 = .bar) →
      structLoop tn part fs none false false = .error .notFound ∨
      structLoop tn part fs none false false = .error .tagBar
  | [], _ => .inl rfl
  | (f, v) :: fs, h => by
    have ih := structLoop_all_skip tn part fs (fun e he => h e (by simp [he]))
    rw [structLoop_cons]
    rcases h (f, v) (by simp) with ha | ha <;> rw [ha]
    · exact ih
    · exact .inr rfl

/-- the selector part `part` names field `f`: by its tag if it has one, else by its Go name -/
def names (tn part : GoString) (f : Field) : Prop :=
  if (f.tag tn).isEmpty then f.goName = part else tagHead (f.tag tn) = part

theorem fieldAct_hit_names {tn part : GoString} {f : Field}
    (h : fieldAct tn part f = .tagHit ∨ fieldAct tn part f = .nameHit) : names tn part f := by
  unfold names
  unfold fieldAct at h
  by_cases he : f.exported = true <;> by_cases ht : (f.tag tn).isEmpty = true <;>
    simp only [he, ht, Bool.not_true, Bool.not_false, if_true, if_false, Bool.false_eq_true] at h ⊢
  · split at h
    · exact eq_of_beq ‹_›
    · rcases h with h | h <;> cases h
  · split at h
    · rcases h with h | h <;> cases h
    · split at h
      · split at h <;> rcases h with h | h <;> cases h
      · split at h
        · exact eq_of_beq ‹_›
        · rcases h with h | h <;> cases h
  · rcases h with h | h <;> simp at h
  · rcases h with h | h <;> simp at h

end Bexpr.Proofs.HiddenRel
