/-
  Proofs.FloatRound — the nearest-even specification of `Bexpr.Strconv.roundRat`
  (the rounding step of the `strconv.ParseFloat` model) and what `readFloat` yields on
  decimal literals.

  Method.  Every value of a format is a natural multiple of the smallest subnormal
  `2^(-ushift)`; `ulps f a` is the value of the sign-less pattern `a` in these units.
  `ulps` is strictly increasing on ALL naturals (§3), `roundRat` returns
  `k * 2^mantBits + m` with `m = roundHalfEven (x / 2^k)` for the binade index `k` of `x`
  (§4, `roundRat_decomp`), whose value is `m * 2^k` (`ulps_build`), and every pattern's
  value is a multiple of `2^k` or lies below the binade (`ulps_dvd_or_lt`).  From this:
  `roundRat_core` (nearest + ties-even, in units, §5), translated to `finiteToRat`
  fractions in §6–7 (`roundRat_finite_nearest`, `roundRat_ties_even`, `roundRat_exact`,
  `roundRat_overflow_iff`, `roundRat_monotone`), with signs in §8, and the scanner in
  §9–11 (`readFloat_plain`, `readFloat_signed`, `special_none_of_readFloat`,
  `readFloat_decLit`).

  Mathlib is used for tactics only (`ring`, `nlinarith`).
-/
import Bexpr.Strconv
import Proofs.StrconvLemmas
import Mathlib.Tactic.Ring
import Mathlib.Tactic.Linarith

namespace Bexpr.Strconv

/-! ## 1. `roundHalfEven` -/

/-- Scaling numerator and denominator by the same positive factor does not change
the rounded quotient. -/
theorem roundHalfEven_scale (n d c : Nat) (hc : 0 < c) :
    roundHalfEven (n * c) (d * c) = roundHalfEven n d := by
  unfold roundHalfEven
  rw [Nat.mul_div_mul_right _ _ hc, Nat.mul_mod_mul_right]
  have e : 2 * (n % d * c) = (2 * (n % d)) * c := by ring
  have h1 : (2 * (n % d * c) > d * c) ↔ (2 * (n % d) > d) := by
    rw [e]; exact Nat.mul_lt_mul_right hc
  have h2 : (2 * (n % d * c) = d * c) ↔ (2 * (n % d) = d) := by
    rw [e]; exact Nat.mul_left_inj (by omega)
  simp only [h1, h2, beq_iff_eq, Bool.or_eq_true, Bool.and_eq_true, decide_eq_true_eq]

/-- `roundHalfEven n d` is within half a unit of `n/d`, and in the exact-half case it is even. -/
theorem roundHalfEven_spec (n d : Nat) (hd : 0 < d) :
    2 * (roundHalfEven n d * d) ≤ 2 * n + d ∧ 2 * n ≤ 2 * (roundHalfEven n d * d) + d ∧
    ((2 * (roundHalfEven n d * d) = 2 * n + d ∨ 2 * n = 2 * (roundHalfEven n d * d) + d) →
      roundHalfEven n d % 2 = 0) := by
  have hdm : d * (n / d) + n % d = n := Nat.div_add_mod n d
  have hr : n % d < d := Nat.mod_lt _ hd
  unfold roundHalfEven
  simp only [beq_iff_eq, Bool.or_eq_true, Bool.and_eq_true, decide_eq_true_eq]
  generalize n % d = r at *
  generalize hq : n / d = q at *
  have hqd : d * q = q * d := Nat.mul_comm _ _
  split
  · rename_i h
    rw [Nat.add_mul, Nat.one_mul]
    generalize q * d = t at *
    omega
  · rename_i h
    generalize q * d = t at *
    omega


/-- Distance of two naturals. -/
def adist (a b : Nat) : Nat := ((a : Int) - (b : Int)).natAbs

theorem adist_def (a b : Nat) : adist a b = (a - b) + (b - a) := by
  unfold adist; omega

theorem mul_succ_le_of_lt {j m : Nat} (d : Nat) (h : j < m) : j * d + d ≤ m * d := by
  have : (j + 1) * d ≤ m * d := Nat.mul_le_mul_right d h
  rwa [Nat.add_mul, Nat.one_mul] at this

/-- `roundHalfEven n d` is a nearest integer to `n/d`. -/
theorem roundHalfEven_nearest (n d : Nat) (hd : 0 < d) (j : Nat) :
    adist (roundHalfEven n d * d) n ≤ adist (j * d) n := by
  obtain ⟨h1, h2, _⟩ := roundHalfEven_spec n d hd
  simp only [adist_def]
  rcases Nat.lt_trichotomy j (roundHalfEven n d) with h | h | h
  · have := mul_succ_le_of_lt d h
    generalize roundHalfEven n d * d = a at *
    generalize j * d = b at *
    omega
  · rw [h]
  · have := mul_succ_le_of_lt d h
    generalize roundHalfEven n d * d = a at *
    generalize j * d = b at *
    omega

/-- If another integer is exactly as close, the result is even. -/
theorem roundHalfEven_tie_even (n d : Nat) (hd : 0 < d) (j : Nat) (hj : j ≠ roundHalfEven n d)
    (htie : adist (j * d) n = adist (roundHalfEven n d * d) n) :
    roundHalfEven n d % 2 = 0 := by
  obtain ⟨h1, h2, h3⟩ := roundHalfEven_spec n d hd
  simp only [adist_def] at htie
  apply h3
  rcases Nat.lt_trichotomy j (roundHalfEven n d) with h | h | h
  · have := mul_succ_le_of_lt d h
    generalize roundHalfEven n d * d = a at *
    generalize j * d = b at *
    omega
  · exact absurd h hj
  · have := mul_succ_le_of_lt d h
    generalize roundHalfEven n d * d = a at *
    generalize j * d = b at *
    omega


/-! ## 2. `scalePow2`, `floorLog2Rat` -/

/-- The comparison made on a `scalePow2` pair, with the power of two split as `2^a / 2^b`. -/
theorem scalePow2_ge_iff (num den : Nat) (e : Int) (a b : Nat) (h : (a : Int) - b = e) :
    ((scalePow2 num den e).1 ≥ (scalePow2 num den e).2) ↔ den * 2 ^ a ≤ num * 2 ^ b := by
  unfold scalePow2
  by_cases he : e ≥ 0
  · rw [if_pos he]
    show den * 2 ^ e.toNat ≤ num ↔ _
    have ha : a = e.toNat + b := by omega
    rw [ha, Nat.pow_add, ← Nat.mul_assoc]
    exact (Nat.mul_le_mul_right_iff (Nat.pow_pos (by omega))).symm
  · rw [if_neg he]
    show den ≤ num * 2 ^ (-e).toNat ↔ _
    have hb : b = (-e).toNat + a := by omega
    rw [hb, Nat.pow_add, ← Nat.mul_assoc]
    exact (Nat.mul_le_mul_right_iff (Nat.pow_pos (by omega))).symm

/-- `floorLog2Rat num den = ⌊log2 (num/den)⌋`: with the exponent written as `a - b`,
`2^a / 2^b ≤ num/den < 2^(a+1) / 2^b`. -/
theorem floorLog2Rat_spec (num den : Nat) (hn : num ≠ 0) (hd : den ≠ 0) (a b : Nat)
    (h : (a : Int) - b = floorLog2Rat num den) :
    den * 2 ^ a ≤ num * 2 ^ b ∧ num * 2 ^ b < den * 2 ^ (a + 1) := by
  have hp1 : 2 ^ Nat.log2 num ≤ num := Nat.log2_self_le hn
  have hp2 : num < 2 ^ (Nat.log2 num + 1) := Nat.lt_log2_self
  have hq1 : 2 ^ Nat.log2 den ≤ den := Nat.log2_self_le hd
  have hq2 : den < 2 ^ (Nat.log2 den + 1) := Nat.lt_log2_self
  unfold floorLog2Rat at h
  simp only at h
  generalize Nat.log2 num = p at *
  generalize Nat.log2 den = q at *
  by_cases ht : (scalePow2 num den ((p : Int) - q)).1 ≥ (scalePow2 num den ((p : Int) - q)).2
  · rw [if_pos ht] at h
    refine ⟨(scalePow2_ge_iff num den _ a b h).mp ht, ?_⟩
    calc num * 2 ^ b < 2 ^ (p + 1) * 2 ^ b := Nat.mul_lt_mul_of_pos_right hp2 (Nat.pow_pos (by omega))
      _ = 2 ^ q * 2 ^ (a + 1) := by rw [← Nat.pow_add, ← Nat.pow_add]; congr 1; omega
      _ ≤ den * 2 ^ (a + 1) := Nat.mul_le_mul_right _ hq1
  · rw [if_neg ht] at h
    have h' : ((a + 1 : Nat) : Int) - b = (p : Int) - q := by omega
    have := (scalePow2_ge_iff num den _ (a + 1) b h').not.mp ht
    refine ⟨?_, by omega⟩
    apply Nat.le_of_lt
    calc den * 2 ^ a < 2 ^ (q + 1) * 2 ^ a := Nat.mul_lt_mul_of_pos_right hq2 (Nat.pow_pos (by omega))
      _ = 2 ^ p * 2 ^ b := by rw [← Nat.pow_add, ← Nat.pow_add]; congr 1; omega
      _ ≤ num * 2 ^ b := Nat.mul_le_mul_right _ hp1


/-- Rounding the `scalePow2` pair is rounding `num * 2^b / (den * 2^a)` when the exponent is `a - b`. -/
theorem roundHalfEven_scalePow2 (num den : Nat) (e : Int) (a b : Nat) (h : (a : Int) - b = e) :
    roundHalfEven (scalePow2 num den e).1 (scalePow2 num den e).2 =
      roundHalfEven (num * 2 ^ b) (den * 2 ^ a) := by
  unfold scalePow2
  by_cases he : e ≥ 0
  · rw [if_pos he]
    have ha : a = e.toNat + b := by omega
    rw [ha, Nat.pow_add, ← Nat.mul_assoc, roundHalfEven_scale _ _ _ (Nat.pow_pos (by omega))]
  · rw [if_neg he]
    have hb : b = (-e).toNat + a := by omega
    rw [hb, Nat.pow_add, ← Nat.mul_assoc, roundHalfEven_scale _ _ _ (Nat.pow_pos (by omega))]

/-- Upper bound: `n/d < c` implies the rounded quotient is `≤ c`. -/
theorem roundHalfEven_le_of_lt (n d c : Nat) (hd : 0 < d) (h : n < c * d) :
    roundHalfEven n d ≤ c := by
  obtain ⟨h1, _, _⟩ := roundHalfEven_spec n d hd
  have : 2 * (roundHalfEven n d * d) < (2 * c + 1) * d := by
    rw [Nat.add_mul, Nat.mul_assoc, Nat.one_mul]; omega
  rw [← Nat.mul_assoc] at this
  have := Nat.lt_of_mul_lt_mul_right this
  omega

/-- Lower bound: `c ≤ n/d` implies `c ≤` the rounded quotient. -/
theorem le_roundHalfEven_of_le (n d c : Nat) (hd : 0 < d) (h : c * d ≤ n) :
    c ≤ roundHalfEven n d := by
  obtain ⟨_, h2, _⟩ := roundHalfEven_spec n d hd
  have : 2 * c * d < (2 * roundHalfEven n d + 1 + 1) * d := by
    rw [Nat.add_mul, Nat.add_mul, Nat.mul_assoc, Nat.mul_assoc, Nat.one_mul]; omega
  have := Nat.lt_of_mul_lt_mul_right this
  omega

/-! ## 3. Formats -/

/-- The formats the theorems are about: at least one fraction bit and two exponent
bits (so that `bias ≥ 1`, `emin ≤ 0`). -/
structure FloatFmt.WF (f : FloatFmt) : Prop where
  mant : 1 ≤ f.mantBits
  exp : 2 ≤ f.expBits

theorem fmt64_wf : fmt64.WF := ⟨by decide, by decide⟩
theorem fmt32_wf : fmt32.WF := ⟨by decide, by decide⟩
theorem fmtOf_wf (bitSize : Nat) : (fmtOf bitSize).WF := by
  unfold fmtOf; split
  · exact fmt32_wf
  · exact fmt64_wf

/-- `-(emin - mantBits)`: the smallest positive subnormal (one *unit*) is `2^(-ushift)`.
1074 for binary64, 149 for binary32. -/
def FloatFmt.ushift (f : FloatFmt) : Nat := f.bias - 1 + f.mantBits

theorem FloatFmt.WF.bias_pos {f : FloatFmt} (hf : f.WF) : 1 ≤ f.bias := by
  unfold FloatFmt.bias
  have : 2 ^ 1 ≤ 2 ^ (f.expBits - 1) := Nat.pow_le_pow_right (by omega) (by have := hf.exp; omega)
  omega

theorem FloatFmt.WF.emin_eq {f : FloatFmt} (hf : f.WF) : f.emin = -((f.bias - 1 : Nat) : Int) := by
  have := hf.bias_pos
  unfold FloatFmt.emin
  omega

/-- The value of the (sign-less) pattern `a` in units of `2^(-ushift)`: the fraction for a
subnormal, `(2^mantBits + fraction) * 2^(exponent field - 1)` otherwise.  Defined for every
natural number (the exponent field is not truncated), strictly increasing. -/
def ulps (f : FloatFmt) (a : Nat) : Nat :=
  if a / 2 ^ f.mantBits = 0 then a % 2 ^ f.mantBits
  else (2 ^ f.mantBits + a % 2 ^ f.mantBits) * 2 ^ (a / 2 ^ f.mantBits - 1)

theorem ulps_zero (f : FloatFmt) : ulps f 0 = 0 := by
  simp [ulps]

/-- The pattern built by `roundRat` from exponent index `k` and significand `m`. -/
theorem ulps_build (f : FloatFmt) (k m : Nat) (hk : k = 0 ∨ 2 ^ f.mantBits ≤ m)
    (hm : m ≤ 2 ^ (f.mantBits + 1)) :
    ulps f (k * 2 ^ f.mantBits + m) = m * 2 ^ k := by
  have hP : 0 < 2 ^ f.mantBits := Nat.pow_pos (by omega)
  rw [Nat.pow_succ] at hm
  unfold ulps
  generalize 2 ^ f.mantBits = P at *
  by_cases h1 : m < P
  · have hk0 : k = 0 := by omega
    subst hk0
    simp [Nat.div_eq_of_lt h1, Nat.mod_eq_of_lt h1]
  · by_cases h2 : m < P * 2
    · have e : k * P + m = (m - P) + (k + 1) * P := by rw [Nat.add_mul]; omega
      have hlt : m - P < P := by omega
      rw [e, Nat.add_mul_div_right _ _ hP, Nat.add_mul_mod_self_right, Nat.div_eq_of_lt hlt,
        Nat.mod_eq_of_lt hlt]
      simp
      omega
    · have hm2 : m = P * 2 := by omega
      have e : k * P + m = 0 + (k + 2) * P := by rw [Nat.add_mul]; omega
      rw [e, Nat.add_mul_div_right _ _ hP, Nat.add_mul_mod_self_right]
      simp
      rw [hm2, Nat.pow_succ]; ring

/-- `ulps` is strictly increasing. -/
theorem ulps_strictMono (f : FloatFmt) {a a' : Nat} (h : a < a') : ulps f a < ulps f a' := by
  have hP : 0 < 2 ^ f.mantBits := Nat.pow_pos (by omega)
  have hdiv : a / 2 ^ f.mantBits ≤ a' / 2 ^ f.mantBits := Nat.div_le_div_right (Nat.le_of_lt h)
  have e1 := Nat.div_add_mod a (2 ^ f.mantBits)
  have e2 := Nat.div_add_mod a' (2 ^ f.mantBits)
  have r1 := Nat.mod_lt a hP
  have r2 := Nat.mod_lt a' hP
  unfold ulps
  generalize 2 ^ f.mantBits = P at *
  generalize a / P = x at *
  generalize a' / P = x' at *
  generalize a % P = r at *
  generalize a' % P = r' at *
  rcases Nat.lt_or_eq_of_le hdiv with hx | hx
  · -- different exponent fields
    have hx' : ¬ x' = 0 := by omega
    rw [if_neg hx']
    have hup : (if x = 0 then r else (P + r) * 2 ^ (x - 1)) < P * 2 ^ x := by
      split
      · rename_i h0; subst h0; simpa using r1
      · rename_i h0
        have : 2 ^ x = 2 * 2 ^ (x - 1) := by
          rw [← Nat.pow_succ']; congr 1; omega
        rw [this]
        have hp : 0 < 2 ^ (x - 1) := Nat.pow_pos (by omega)
        nlinarith
    have hlow : P * 2 ^ x ≤ (P + r') * 2 ^ (x' - 1) := by
      have : 2 ^ x ≤ 2 ^ (x' - 1) := Nat.pow_le_pow_right (by omega) (by omega)
      exact Nat.mul_le_mul (Nat.le_add_right _ _) this
    omega
  · subst hx
    have hr : r < r' := by
      have : P * x + r < P * x + r' := by omega
      omega
    split
    · exact hr
    · have hp : 0 < 2 ^ (x - 1) := Nat.pow_pos (by omega)
      nlinarith

theorem ulps_injective (f : FloatFmt) {a a' : Nat} (h : ulps f a = ulps f a') : a = a' := by
  rcases Nat.lt_trichotomy a a' with h1 | h1 | h1
  · have := ulps_strictMono f h1; omega
  · exact h1
  · have := ulps_strictMono f h1; omega

/-- Every representable value is either a multiple of `2^k` or below `2^(mantBits + k)`. -/
theorem ulps_dvd_or_lt (f : FloatFmt) (a k : Nat) :
    (∃ j, ulps f a = j * 2 ^ k) ∨ ulps f a < 2 ^ (f.mantBits + k) := by
  have hP : 0 < 2 ^ f.mantBits := Nat.pow_pos (by omega)
  have r1 := Nat.mod_lt a hP
  unfold ulps
  rw [Nat.pow_add]
  generalize 2 ^ f.mantBits = P at *
  generalize a / P = x at *
  generalize a % P = r at *
  split
  · right
    have : 1 ≤ 2 ^ k := Nat.pow_pos (by omega)
    nlinarith
  · by_cases hk : k ≤ x - 1
    · left
      refine ⟨(P + r) * 2 ^ (x - 1 - k), ?_⟩
      rw [Nat.mul_assoc, ← Nat.pow_add]; congr 2; omega
    · right
      have : 2 * 2 ^ (x - 1) ≤ 2 ^ k := by
        rw [← Nat.pow_succ']; exact Nat.pow_le_pow_right (by omega) (by omega)
      have hp : 0 < 2 ^ (x - 1) := Nat.pow_pos (by omega)
      nlinarith


/-! ## 4. The shape of `roundRat` -/

/-- `roundRat` picks an exponent index `k` (`0` for subnormals and the first binade) such
that `num/den`, in units, lies in `[2^(mantBits+k), 2^(mantBits+k+1))` (or just below
`2^(mantBits+1)` when `k = 0`), rounds in steps of `2^k` units, and adds. -/
theorem roundRat_decomp (f : FloatFmt) (hf : f.WF) (num den : Nat) (hn : num ≠ 0) (hd : den ≠ 0) :
    ∃ k, roundRat f num den =
        k * 2 ^ f.mantBits + roundHalfEven (num * 2 ^ f.ushift) (den * 2 ^ k) ∧
      (k = 0 ∨ den * 2 ^ (f.mantBits + k) ≤ num * 2 ^ f.ushift) ∧
      num * 2 ^ f.ushift < den * 2 ^ (f.mantBits + 1 + k) := by
  have hemin := hf.emin_eq
  have hn0 : (num == 0) = false := by simpa using hn
  unfold roundRat
  simp only [hn0, Bool.false_eq_true, if_false]
  generalize he2 : floorLog2Rat num den = e2
  have hB : f.ushift = (f.bias - 1) + f.mantBits := rfl
  generalize f.bias - 1 = c at hemin hB
  by_cases hlt : e2 < f.emin
  · rw [if_pos hlt]
    refine ⟨0, ?_, Or.inl rfl, ?_⟩
    · have h0 : (f.emin - f.emin).toNat = 0 := by omega
      rw [h0, roundHalfEven_scalePow2 num den _ 0 f.ushift (by omega)]
    · obtain ⟨_, h2⟩ := floorLog2Rat_spec num den hn hd 0 (-e2).toNat (by omega)
      have hb : (-e2).toNat = (c + 1) + ((-e2).toNat - (c + 1)) := by omega
      rw [hb, Nat.pow_add, Nat.pow_succ] at h2
      have hpos : 0 < 2 ^ ((-e2).toNat - (c + 1)) := Nat.pow_pos (by omega)
      have h3 : num * 2 ^ c < den := by
        generalize 2 ^ ((-e2).toNat - (c + 1)) = t at *
        generalize 2 ^ c = u at *
        simp only [Nat.zero_add, Nat.pow_one] at h2
        nlinarith
      rw [hB, Nat.pow_add, Nat.add_zero, Nat.pow_succ, ← Nat.mul_assoc, ← Nat.mul_assoc]
      have hM : 0 < 2 ^ f.mantBits := Nat.pow_pos (by omega)
      generalize 2 ^ f.mantBits = P at *
      generalize num * 2 ^ c = u at *
      nlinarith
  · rw [if_neg hlt]
    have hk : e2 = (((e2 - f.emin).toNat : Nat) : Int) - c := by omega
    generalize (e2 - f.emin).toNat = k at hk
    refine ⟨k, ?_, Or.inr ?_, ?_⟩
    · rw [roundHalfEven_scalePow2 num den _ k f.ushift (by omega)]
    · obtain ⟨h1, _⟩ := floorLog2Rat_spec num den hn hd k c (by omega)
      rw [hB, Nat.add_comm f.mantBits k, Nat.pow_add, Nat.pow_add, ← Nat.mul_assoc, ← Nat.mul_assoc]
      exact Nat.mul_le_mul_right _ h1
    · obtain ⟨_, h2⟩ := floorLog2Rat_spec num den hn hd k c (by omega)
      have e : f.mantBits + 1 + k = (k + 1) + f.mantBits := by omega
      rw [hB, e, Nat.pow_add, Nat.pow_add _ (k + 1), ← Nat.mul_assoc, ← Nat.mul_assoc]
      exact Nat.mul_lt_mul_of_pos_right h2 (Nat.pow_pos (by omega))

/-- The significand produced inside `roundRat` lies in `[2^mantBits, 2^(mantBits+1)]`
(lower bound only for `k > 0`). -/
theorem roundRat_signif_bounds (f : FloatFmt) (num den k : Nat) (hd : den ≠ 0)
    (hlo : k = 0 ∨ den * 2 ^ (f.mantBits + k) ≤ num * 2 ^ f.ushift)
    (hhi : num * 2 ^ f.ushift < den * 2 ^ (f.mantBits + 1 + k)) :
    (k = 0 ∨ 2 ^ f.mantBits ≤ roundHalfEven (num * 2 ^ f.ushift) (den * 2 ^ k)) ∧
      roundHalfEven (num * 2 ^ f.ushift) (den * 2 ^ k) ≤ 2 ^ (f.mantBits + 1) := by
  have hD : 0 < den * 2 ^ k := Nat.mul_pos (by omega) (Nat.pow_pos (by omega))
  constructor
  · rcases hlo with h | h
    · exact Or.inl h
    · right
      apply le_roundHalfEven_of_le _ _ _ hD
      calc 2 ^ f.mantBits * (den * 2 ^ k) = den * 2 ^ (f.mantBits + k) := by rw [Nat.pow_add]; ring
        _ ≤ _ := h
  · apply roundHalfEven_le_of_lt _ _ _ hD
    calc num * 2 ^ f.ushift < den * 2 ^ (f.mantBits + 1 + k) := hhi
      _ = 2 ^ (f.mantBits + 1) * (den * 2 ^ k) := by rw [Nat.pow_add _ (f.mantBits + 1)]; ring


theorem roundRat_zero (f : FloatFmt) (den : Nat) : roundRat f 0 den = 0 := by
  simp [roundRat]

/-! ## 5. Nearest, ties-to-even, exactness — in units -/

/-- Core statement, in units of `2^(-ushift)`: the result of `roundRat` is at least as
close to `num/den` as ANY pattern `a'`, and if a different pattern is exactly as close the
result is even. -/
theorem roundRat_core (f : FloatFmt) (hf : f.WF) (num den : Nat) (hd : den ≠ 0) (a' : Nat) :
    adist (ulps f (roundRat f num den) * den) (num * 2 ^ f.ushift) ≤
        adist (ulps f a' * den) (num * 2 ^ f.ushift) ∧
    (a' ≠ roundRat f num den →
      adist (ulps f a' * den) (num * 2 ^ f.ushift) =
        adist (ulps f (roundRat f num den) * den) (num * 2 ^ f.ushift) →
      roundRat f num den % 2 = 0) := by
  by_cases hn : num = 0
  · subst hn
    simp [roundRat_zero, ulps_zero, adist]
  obtain ⟨k, hr, hlo, hhi⟩ := roundRat_decomp f hf num den hn hd
  obtain ⟨hb1, hb2⟩ := roundRat_signif_bounds f num den k hd hlo hhi
  have hu := ulps_build f k _ hb1 hb2
  have hD : 0 < den * 2 ^ k := Nat.mul_pos (by omega) (Nat.pow_pos (by omega))
  have hpar : roundRat f num den % 2 = roundHalfEven (num * 2 ^ f.ushift) (den * 2 ^ k) % 2 := by
    have : 2 ^ f.mantBits = 2 * 2 ^ (f.mantBits - 1) := by
      rw [← Nat.pow_succ']; congr 1; have := hf.mant; omega
    rw [hr, this, ← Nat.mul_assoc, Nat.mul_comm k 2, Nat.mul_assoc, Nat.mul_add_mod]
  have hres : ulps f (roundRat f num den) * den =
      roundHalfEven (num * 2 ^ f.ushift) (den * 2 ^ k) * (den * 2 ^ k) := by
    rw [hr, hu]; ring
  rw [hres]
  -- the case of a competitor that is a multiple of the step
  have caseA : ∀ j, ulps f a' = j * 2 ^ k →
      adist (roundHalfEven (num * 2 ^ f.ushift) (den * 2 ^ k) * (den * 2 ^ k)) (num * 2 ^ f.ushift) ≤
        adist (ulps f a' * den) (num * 2 ^ f.ushift) ∧
      (a' ≠ roundRat f num den →
        adist (ulps f a' * den) (num * 2 ^ f.ushift) =
          adist (roundHalfEven (num * 2 ^ f.ushift) (den * 2 ^ k) * (den * 2 ^ k))
            (num * 2 ^ f.ushift) →
        roundRat f num den % 2 = 0) := by
    intro j hj
    have e : ulps f a' * den = j * (den * 2 ^ k) := by rw [hj]; ring
    rw [e]
    refine ⟨roundHalfEven_nearest _ _ hD j, fun hne htie => ?_⟩
    rw [hpar]
    refine roundHalfEven_tie_even _ _ hD j ?_ htie
    intro hjm
    apply hne
    apply ulps_injective f
    rw [hj, hr, hu, hjm]
  rcases hlo with hk0 | hle
  · subst hk0
    exact caseA (ulps f a') (by simp)
  · rcases ulps_dvd_or_lt f a' k with ⟨j, hj⟩ | hlt
    · exact caseA j hj
    · have h1 := roundHalfEven_nearest (num * 2 ^ f.ushift) (den * 2 ^ k) hD (2 ^ f.mantBits)
      have e : 2 ^ f.mantBits * (den * 2 ^ k) = den * 2 ^ (f.mantBits + k) := by
        rw [Nat.pow_add]; ring
      rw [e] at h1
      have h2 : ulps f a' * den < den * 2 ^ (f.mantBits + k) := by
        rw [Nat.mul_comm]; exact Nat.mul_lt_mul_of_pos_left hlt (by omega)
      simp only [adist_def] at h1 ⊢
      generalize roundHalfEven (num * 2 ^ f.ushift) (den * 2 ^ k) * (den * 2 ^ k) = A at *
      generalize ulps f a' * den = B at *
      generalize den * 2 ^ (f.mantBits + k) = C at *
      generalize num * 2 ^ f.ushift = N at *
      constructor
      · omega
      · intro _ h; omega


/-! ## 6. `finiteToRat` in units -/

theorem expOf_eq (f : FloatFmt) (a : Nat) (ha : a < f.signBit) : f.expOf a = a / 2 ^ f.mantBits := by
  unfold FloatFmt.expOf
  apply Nat.mod_eq_of_lt
  rw [Nat.div_lt_iff_lt_mul (Nat.pow_pos (by omega)), ← Nat.pow_add, Nat.add_comm]
  exact ha

theorem finiteToRat_ulps (f : FloatFmt) (hf : f.WF) (a : Nat) (ha : a < f.signBit) :
    (finiteToRat f a).1 * 2 ^ f.ushift = ulps f a * (finiteToRat f a).2 ∧
      0 < (finiteToRat f a).2 := by
  have hemin := hf.emin_eq
  have hbias := hf.bias_pos
  have hM := hf.mant
  have hB : f.ushift = (f.bias - 1) + f.mantBits := rfl
  unfold finiteToRat ulps
  simp only [expOf_eq f a ha, FloatFmt.fracOf]
  generalize a / 2 ^ f.mantBits = x
  generalize a % 2 ^ f.mantBits = r
  by_cases hx : x = 0
  · subst hx
    have hneg : ¬ (f.emin - (f.mantBits : Int) ≥ 0) := by omega
    have hB' : (-(f.emin - (f.mantBits : Int))).toNat = f.ushift := by omega
    simp only [beq_self_eq_true, if_true]
    rw [if_neg hneg, hB']
    exact ⟨rfl, Nat.pow_pos (by omega)⟩
  · have hx0 : (x == 0) = false := by simpa using hx
    simp only [hx0, hx, Bool.false_eq_true, if_false]
    by_cases he : ((x : Int) - (f.bias : Int)) - (f.mantBits : Int) ≥ 0
    · rw [if_pos he]
      have : (((x : Int) - (f.bias : Int)) - (f.mantBits : Int)).toNat + f.ushift = x - 1 := by omega
      simp only [Nat.mul_one, Nat.mul_assoc, ← Nat.pow_add, this]
      decide
    · rw [if_neg he]
      have : (x - 1) + (-(((x : Int) - (f.bias : Int)) - (f.mantBits : Int))).toNat = f.ushift := by omega
      simp only [Nat.mul_assoc, ← Nat.pow_add, this]
      exact ⟨trivial, Nat.pow_pos (by omega)⟩


theorem adist_mul_right (a b c : Nat) : adist (a * c) (b * c) = adist a b * c := by
  simp only [adist_def, Nat.add_mul, Nat.sub_mul]

theorem adist_comm (a b : Nat) : adist a b = adist b a := by
  simp only [adist_def]; omega

theorem adist_eq_zero {a b : Nat} : adist a b = 0 ↔ a = b := by
  simp only [adist_def]; omega

theorem infBits_lt_signBit (f : FloatFmt) : f.infBits < f.signBit := by
  unfold FloatFmt.infBits FloatFmt.signBit
  rw [Nat.add_comm, Nat.pow_add]
  have : 0 < 2 ^ f.expBits := Nat.pow_pos (by omega)
  exact Nat.mul_lt_mul_of_pos_right (by omega) (Nat.pow_pos (by omega))

/-- `|p - x| ≤ |q - x|` for fractions `(numerator, denominator)` of naturals with positive
denominators, cross-multiplied (no division). -/
def ratDistLe (x p q : Nat × Nat) : Prop :=
  adist (p.1 * x.2) (x.1 * p.2) * q.2 ≤ adist (q.1 * x.2) (x.1 * q.2) * p.2

/-- `|p - x| = |q - x|`, cross-multiplied. -/
def ratDistEq (x p q : Nat × Nat) : Prop :=
  adist (p.1 * x.2) (x.1 * p.2) * q.2 = adist (q.1 * x.2) (x.1 * q.2) * p.2

/-- The cross-multiplied distance of a pattern's `finiteToRat` value to `num/den`, scaled to units. -/
theorem finiteToRat_dist (f : FloatFmt) (hf : f.WF) (num den a : Nat) (ha : a < f.signBit) :
    adist ((finiteToRat f a).1 * den) (num * (finiteToRat f a).2) * 2 ^ f.ushift =
      adist (ulps f a * den) (num * 2 ^ f.ushift) * (finiteToRat f a).2 := by
  obtain ⟨h, _⟩ := finiteToRat_ulps f hf a ha
  rw [← adist_mul_right, ← adist_mul_right]
  congr 1
  · calc (finiteToRat f a).1 * den * 2 ^ f.ushift = (finiteToRat f a).1 * 2 ^ f.ushift * den := by ring
      _ = ulps f a * den * (finiteToRat f a).2 := by rw [h]; ring
  · ring

theorem ratDistLe_iff_ulps (f : FloatFmt) (hf : f.WF) (num den a b : Nat)
    (ha : a < f.signBit) (hb : b < f.signBit) :
    ratDistLe (num, den) (finiteToRat f a) (finiteToRat f b) ↔
      adist (ulps f a * den) (num * 2 ^ f.ushift) ≤ adist (ulps f b * den) (num * 2 ^ f.ushift) := by
  have h1 := finiteToRat_dist f hf num den a ha
  have h2 := finiteToRat_dist f hf num den b hb
  obtain ⟨_, pa⟩ := finiteToRat_ulps f hf a ha
  obtain ⟨_, pb⟩ := finiteToRat_ulps f hf b hb
  have hU : 0 < 2 ^ f.ushift := Nat.pow_pos (by omega)
  unfold ratDistLe
  simp only
  rw [← Nat.mul_le_mul_right_iff hU]
  have e1 : adist ((finiteToRat f a).1 * den) (num * (finiteToRat f a).2) * (finiteToRat f b).2 * 2 ^ f.ushift
      = adist (ulps f a * den) (num * 2 ^ f.ushift) * ((finiteToRat f a).2 * (finiteToRat f b).2) := by
    rw [Nat.mul_right_comm, h1]; ring
  have e2 : adist ((finiteToRat f b).1 * den) (num * (finiteToRat f b).2) * (finiteToRat f a).2 * 2 ^ f.ushift
      = adist (ulps f b * den) (num * 2 ^ f.ushift) * ((finiteToRat f a).2 * (finiteToRat f b).2) := by
    rw [Nat.mul_right_comm, h2]; ring
  rw [e1, e2]
  exact Nat.mul_le_mul_right_iff (Nat.mul_pos pa pb)

theorem ratDistEq_iff_ulps (f : FloatFmt) (hf : f.WF) (num den a b : Nat)
    (ha : a < f.signBit) (hb : b < f.signBit) :
    ratDistEq (num, den) (finiteToRat f a) (finiteToRat f b) ↔
      adist (ulps f a * den) (num * 2 ^ f.ushift) = adist (ulps f b * den) (num * 2 ^ f.ushift) := by
  have h1 := finiteToRat_dist f hf num den a ha
  have h2 := finiteToRat_dist f hf num den b hb
  obtain ⟨_, pa⟩ := finiteToRat_ulps f hf a ha
  obtain ⟨_, pb⟩ := finiteToRat_ulps f hf b hb
  have hU : 0 < 2 ^ f.ushift := Nat.pow_pos (by omega)
  unfold ratDistEq
  simp only
  rw [← Nat.mul_left_inj (Nat.pos_iff_ne_zero.mp hU)]
  have e1 : adist ((finiteToRat f a).1 * den) (num * (finiteToRat f a).2) * (finiteToRat f b).2 * 2 ^ f.ushift
      = adist (ulps f a * den) (num * 2 ^ f.ushift) * ((finiteToRat f a).2 * (finiteToRat f b).2) := by
    rw [Nat.mul_right_comm, h1]; ring
  have e2 : adist ((finiteToRat f b).1 * den) (num * (finiteToRat f b).2) * (finiteToRat f a).2 * 2 ^ f.ushift
      = adist (ulps f b * den) (num * 2 ^ f.ushift) * ((finiteToRat f a).2 * (finiteToRat f b).2) := by
    rw [Nat.mul_right_comm, h2]; ring
  rw [e1, e2]
  exact Nat.mul_left_inj (Nat.pos_iff_ne_zero.mp (Nat.mul_pos pa pb))

/-! ## 7. The specification of `roundRat` -/

/-- **Nearest.**  A finite result of `roundRat` is at least as close to `num/den` as every
finite pattern of the format. -/
theorem roundRat_finite_nearest (f : FloatFmt) (hf : f.WF) (num den : Nat) (hd : den ≠ 0)
    (hfin : roundRat f num den < f.infBits) (b' : Nat) (hb' : b' < f.infBits) :
    ratDistLe (num, den) (finiteToRat f (roundRat f num den)) (finiteToRat f b') := by
  have hs := infBits_lt_signBit f
  rw [ratDistLe_iff_ulps f hf num den _ _ (by omega) (by omega)]
  exact (roundRat_core f hf num den hd b').1

/-- **Ties to even.**  If a different finite pattern is exactly as close, the result's
fraction field is even. -/
theorem roundRat_ties_even (f : FloatFmt) (hf : f.WF) (num den : Nat) (hd : den ≠ 0)
    (hfin : roundRat f num den < f.infBits) (b' : Nat) (hb' : b' < f.infBits)
    (hne : b' ≠ roundRat f num den)
    (htie : ratDistEq (num, den) (finiteToRat f b') (finiteToRat f (roundRat f num den))) :
    f.fracOf (roundRat f num den) % 2 = 0 := by
  have hs := infBits_lt_signBit f
  rw [ratDistEq_iff_ulps f hf num den _ _ (by omega) (by omega)] at htie
  have := (roundRat_core f hf num den hd b').2 hne htie
  unfold FloatFmt.fracOf
  rw [Nat.mod_mod_of_dvd _ (dvd_pow_self 2 (by have := hf.mant; omega))]
  exact this

/-- **Exactness.**  If `num/den` is the value of the pattern `b` (any sign-less pattern,
in particular any finite one), the result is `b`. -/
theorem roundRat_exact (f : FloatFmt) (hf : f.WF) (num den : Nat) (hd : den ≠ 0)
    (b : Nat) (hb : b < f.signBit)
    (hval : num * (finiteToRat f b).2 = (finiteToRat f b).1 * den) :
    roundRat f num den = b := by
  obtain ⟨h, hp⟩ := finiteToRat_ulps f hf b hb
  have h1 := (roundRat_core f hf num den hd b).1
  have h2 : ulps f b * den = num * 2 ^ f.ushift := by
    apply Nat.eq_of_mul_eq_mul_right hp
    calc ulps f b * den * (finiteToRat f b).2 = (ulps f b * (finiteToRat f b).2) * den := by ring
      _ = (finiteToRat f b).1 * den * 2 ^ f.ushift := by rw [← h]; ring
      _ = num * 2 ^ f.ushift * (finiteToRat f b).2 := by rw [← hval]; ring
  rw [h2, adist_eq_zero.mpr rfl, Nat.le_zero, adist_eq_zero, ← h2] at h1
  exact ulps_injective f (Nat.eq_of_mul_eq_mul_right (by omega) h1)



theorem ulps_mono (f : FloatFmt) {a a' : Nat} (h : a ≤ a') : ulps f a ≤ ulps f a' := by
  rcases Nat.lt_or_eq_of_le h with h | h
  · exact Nat.le_of_lt (ulps_strictMono f h)
  · rw [h]

theorem infBits_even_pos (f : FloatFmt) (hf : f.WF) : 2 ≤ f.infBits ∧ f.infBits % 2 = 0 := by
  have hM : 2 ^ f.mantBits = 2 * 2 ^ (f.mantBits - 1) := by
    rw [← Nat.pow_succ']; congr 1; have := hf.mant; omega
  have hE : 2 ^ 1 ≤ 2 ^ f.expBits := Nat.pow_le_pow_right (by omega) (by have := hf.exp; omega)
  have hp : 0 < 2 ^ (f.mantBits - 1) := Nat.pow_pos (by omega)
  unfold FloatFmt.infBits
  rw [hM]
  generalize 2 ^ (f.mantBits - 1) = P at *
  generalize 2 ^ f.expBits = Q at *
  constructor
  · have : 1 * (2 * P) ≤ (Q - 1) * (2 * P) := Nat.mul_le_mul_right _ (by omega)
    omega
  · rw [Nat.mul_left_comm]; exact Nat.mul_mod_right _ _

/-- **Overflow.**  The result reaches the exponent-all-ones range exactly when `num/den` is
at least the midpoint of the largest finite value and `2^(emax+1)`, i.e.
`num/den ≥ maxFinite + half an ulp` (the midpoint itself overflows: the largest finite
pattern is odd).  Stated in units of `2^(-ushift)`. -/
theorem roundRat_overflow_iff (f : FloatFmt) (hf : f.WF) (num den : Nat) (hd : den ≠ 0) :
    f.infBits ≤ roundRat f num den ↔
      (ulps f (f.infBits - 1) + ulps f f.infBits) * den ≤ 2 * (num * 2 ^ f.ushift) := by
  obtain ⟨h2, hev⟩ := infBits_even_pos f hf
  have hlt : ulps f (f.infBits - 1) * den < ulps f f.infBits * den :=
    Nat.mul_lt_mul_of_pos_right (ulps_strictMono f (by omega)) (by omega)
  rw [Nat.add_mul]
  constructor
  · intro h
    have hr : ulps f f.infBits * den ≤ ulps f (roundRat f num den) * den :=
      Nat.mul_le_mul_right _ (ulps_mono f h)
    have hc := (roundRat_core f hf num den hd (f.infBits - 1)).1
    simp only [adist_def] at hc
    generalize ulps f (roundRat f num den) * den = r at *
    generalize ulps f f.infBits * den = i at *
    generalize ulps f (f.infBits - 1) * den = m at *
    generalize num * 2 ^ f.ushift = N at *
    omega
  · intro h
    by_contra hcon
    have hle : roundRat f num den ≤ f.infBits - 1 := by omega
    have hr : ulps f (roundRat f num den) * den ≤ ulps f (f.infBits - 1) * den :=
      Nat.mul_le_mul_right _ (ulps_mono f hle)
    obtain ⟨hc, htie⟩ := roundRat_core f hf num den hd f.infBits
    have hne : f.infBits ≠ roundRat f num den := by omega
    have htie := htie hne
    simp only [adist_def] at hc htie
    have hrm : ulps f (roundRat f num den) * den = ulps f (f.infBits - 1) * den →
        roundRat f num den = f.infBits - 1 := fun e =>
      ulps_injective f (Nat.eq_of_mul_eq_mul_right (by omega) e)
    generalize ulps f (roundRat f num den) * den = r at *
    generalize ulps f f.infBits * den = i at *
    generalize ulps f (f.infBits - 1) * den = m at *
    generalize num * 2 ^ f.ushift = N at *
    have hrm' : r = m := by omega
    have h1 := hrm hrm'
    have h3 := htie (by omega)
    omega

theorem two_mul_pow (n k : Nat) : 2 * (n * 2 ^ k) = n * 2 ^ (k + 1) := by
  rw [Nat.pow_succ]; ring

/-- binary64: overflow iff `num/den ≥ (2^54 - 1) * 2^970` (`= MaxFloat64 + 2^970`). -/
theorem roundRat64_overflow_iff (num den : Nat) (hd : den ≠ 0) :
    fmt64.infBits ≤ roundRat fmt64 num den ↔ (2 ^ 54 - 1) * 2 ^ 970 * den ≤ num := by
  rw [roundRat_overflow_iff fmt64 fmt64_wf num den hd]
  have e1 : ulps fmt64 (fmt64.infBits - 1) + ulps fmt64 fmt64.infBits = (2 ^ 54 - 1) * 2 ^ 970 * 2 ^ (1074 + 1) := by
    decide +kernel
  have e2 : fmt64.ushift = 1074 := by decide
  rw [e1, e2]
  have : 2 * (num * 2 ^ 1074) = num * 2 ^ (1074 + 1) := two_mul_pow num 1074
  rw [this, Nat.mul_right_comm, Nat.mul_le_mul_right_iff (Nat.pow_pos (by omega))]

/-- binary32: overflow iff `num/den ≥ (2^25 - 1) * 2^103` (`= MaxFloat32 + 2^103`). -/
theorem roundRat32_overflow_iff (num den : Nat) (hd : den ≠ 0) :
    fmt32.infBits ≤ roundRat fmt32 num den ↔ (2 ^ 25 - 1) * 2 ^ 103 * den ≤ num := by
  rw [roundRat_overflow_iff fmt32 fmt32_wf num den hd]
  have e1 : ulps fmt32 (fmt32.infBits - 1) + ulps fmt32 fmt32.infBits = (2 ^ 25 - 1) * 2 ^ 103 * 2 ^ (149 + 1) := by
    decide +kernel
  have e2 : fmt32.ushift = 149 := by decide
  rw [e1, e2]
  have : 2 * (num * 2 ^ 149) = num * 2 ^ (149 + 1) := two_mul_pow num 149
  rw [this, Nat.mul_right_comm, Nat.mul_le_mul_right_iff (Nat.pow_pos (by omega))]

/-- **Monotonicity.**  `n1/d1 ≤ n2/d2` implies `roundRat f n1 d1 ≤ roundRat f n2 d2`
(patterns are ordered like their values); in particular the result depends only on the
rational, not on the fraction representing it. -/
theorem roundRat_monotone (f : FloatFmt) (hf : f.WF) (n1 d1 n2 d2 : Nat) (hd1 : d1 ≠ 0)
    (hd2 : d2 ≠ 0) (h : n1 * d2 ≤ n2 * d1) : roundRat f n1 d1 ≤ roundRat f n2 d2 := by
  by_contra hcon
  have hlt : roundRat f n2 d2 < roundRat f n1 d1 := by omega
  -- scaled inequalities
  obtain ⟨c1, t1⟩ := roundRat_core f hf n1 d1 hd1 (roundRat f n2 d2)
  obtain ⟨c2, t2⟩ := roundRat_core f hf n2 d2 hd2 (roundRat f n1 d1)
  obtain ⟨c3, _⟩ := roundRat_core f hf n1 d1 hd1 (roundRat f n2 d2 + 1)
  have e1 : ∀ a, adist (ulps f a * d1) (n1 * 2 ^ f.ushift) * d2 =
      adist (ulps f a * (d1 * d2)) (n1 * d2 * 2 ^ f.ushift) := fun a => by
    rw [← adist_mul_right]; congr 1 <;> ring
  have e2 : ∀ a, adist (ulps f a * d2) (n2 * 2 ^ f.ushift) * d1 =
      adist (ulps f a * (d1 * d2)) (n2 * d1 * 2 ^ f.ushift) := fun a => by
    rw [← adist_mul_right]; congr 1 <;> ring
  have c1' := Nat.mul_le_mul_right d2 c1
  have c2' := Nat.mul_le_mul_right d1 c2
  have c3' := Nat.mul_le_mul_right d2 c3
  have t1' : adist (ulps f (roundRat f n2 d2) * d1) (n1 * 2 ^ f.ushift) * d2 =
      adist (ulps f (roundRat f n1 d1) * d1) (n1 * 2 ^ f.ushift) * d2 → roundRat f n1 d1 % 2 = 0 :=
    fun e => t1 (by omega) (Nat.eq_of_mul_eq_mul_right (by omega) e)
  have t2' : adist (ulps f (roundRat f n1 d1) * d2) (n2 * 2 ^ f.ushift) * d1 =
      adist (ulps f (roundRat f n2 d2) * d2) (n2 * 2 ^ f.ushift) * d1 → roundRat f n2 d2 % 2 = 0 :=
    fun e => t2 (by omega) (Nat.eq_of_mul_eq_mul_right (by omega) e)
  rw [e1, e1] at c1' c3' t1'
  rw [e2, e2] at c2' t2'
  have hD : 0 < d1 * d2 := Nat.mul_pos (by omega) (by omega)
  have hx : n1 * d2 * 2 ^ f.ushift ≤ n2 * d1 * 2 ^ f.ushift := Nat.mul_le_mul_right _ h
  have hv : ulps f (roundRat f n2 d2) * (d1 * d2) < ulps f (roundRat f n1 d1) * (d1 * d2) :=
    Nat.mul_lt_mul_of_pos_right (ulps_strictMono f hlt) hD
  have hv1 : ulps f (roundRat f n2 d2) * (d1 * d2) < ulps f (roundRat f n2 d2 + 1) * (d1 * d2) :=
    Nat.mul_lt_mul_of_pos_right (ulps_strictMono f (by omega)) hD
  have hv2 : roundRat f n2 d2 + 1 < roundRat f n1 d1 →
      ulps f (roundRat f n2 d2 + 1) * (d1 * d2) < ulps f (roundRat f n1 d1) * (d1 * d2) :=
    fun hh => Nat.mul_lt_mul_of_pos_right (ulps_strictMono f hh) hD
  simp only [adist_def] at c1' c2' c3' t1' t2'
  generalize ulps f (roundRat f n1 d1) * (d1 * d2) = p1 at *
  generalize ulps f (roundRat f n2 d2) * (d1 * d2) = p2 at *
  generalize ulps f (roundRat f n2 d2 + 1) * (d1 * d2) = p3 at *
  generalize n1 * d2 * 2 ^ f.ushift = x1 at *
  generalize n2 * d1 * 2 ^ f.ushift = x2 at *
  have hx12 : x1 = x2 := by omega
  subst hx12
  have hmid : 2 * x1 = p1 + p2 := by omega
  have ev1 := t1' (by omega)
  have ev2 := t2' (by omega)
  have := hv2 (by omega)
  omega



/-! ## 8. Signed values and `parseFloat` -/

/-- `+1` / `-1`. -/
def sgn (neg : Bool) : Int := if neg then -1 else 1

/-- `|(-1)^ps * p.1/p.2 - (-1)^xs * x.1/x.2|` times `p.2 * x.2` (cross-multiplied signed distance). -/
def sdist (xs : Bool) (x : Nat × Nat) (ps : Bool) (p : Nat × Nat) : Nat :=
  (sgn ps * (p.1 : Int) * (x.2 : Int) - sgn xs * (x.1 : Int) * (p.2 : Int)).natAbs

theorem sdist_same (s : Bool) (x p : Nat × Nat) :
    sdist s x s p = adist (p.1 * x.2) (x.1 * p.2) := by
  unfold sdist sgn adist
  cases s <;> first | (simp; done) | (simp; omega)

theorem sdist_diff (s s' : Bool) (h : s ≠ s') (x p : Nat × Nat) :
    sdist s x s' p = p.1 * x.2 + x.1 * p.2 := by
  unfold sdist sgn
  cases s <;> cases s' <;> simp at h ⊢ <;> omega

/-- Sign of a pattern. -/
def patNeg (f : FloatFmt) (b : Nat) : Bool := f.signOf b == 1
/-- Magnitude of a (finite) pattern as a fraction. -/
def patMag (f : FloatFmt) (b : Nat) : Nat × Nat := finiteToRat f (f.absOf b)
/-- A pattern of the format's width whose exponent field is not all ones. -/
def isFinitePat (f : FloatFmt) (b : Nat) : Prop := b < 2 * f.signBit ∧ f.absOf b < f.infBits

/-- Attach a sign to a sign-less pattern. -/
def withSign (f : FloatFmt) (neg : Bool) (a : Nat) : Nat := if neg then f.signBit + a else a

theorem signBit_pos (f : FloatFmt) : 0 < f.signBit := Nat.pow_pos (by omega)

theorem absOf_withSign (f : FloatFmt) (neg : Bool) (a : Nat) (ha : a < f.signBit) :
    f.absOf (withSign f neg a) = a := by
  unfold withSign FloatFmt.absOf
  cases neg
  · simpa using Nat.mod_eq_of_lt ha
  · simp only [if_true]
    rw [Nat.add_mod_left]; exact Nat.mod_eq_of_lt ha

theorem patNeg_withSign (f : FloatFmt) (neg : Bool) (a : Nat) (ha : a < f.signBit) :
    patNeg f (withSign f neg a) = neg := by
  unfold withSign patNeg FloatFmt.signOf
  have e : 2 ^ (f.mantBits + f.expBits) = f.signBit := rfl
  rw [e]
  cases neg
  · simp [Nat.div_eq_of_lt ha]
  · simp only [if_true]
    rw [Nat.add_div_left _ (signBit_pos f), Nat.div_eq_of_lt ha]
    rfl

theorem withSign_lt (f : FloatFmt) (neg : Bool) (a : Nat) (ha : a < f.signBit) :
    withSign f neg a < 2 * f.signBit := by
  unfold withSign; cases neg <;> simp <;> omega

/-- A pattern of the format's width is its sign attached to its magnitude. -/
theorem withSign_decomp (f : FloatFmt) (b : Nat) (hb : b < 2 * f.signBit) :
    b = withSign f (patNeg f b) (f.absOf b) := by
  unfold withSign patNeg FloatFmt.signOf FloatFmt.absOf
  have e : 2 ^ (f.mantBits + f.expBits) = f.signBit := rfl
  rw [e]
  have hS := signBit_pos f
  have h1 := Nat.div_add_mod b f.signBit
  have h2 : b / f.signBit < 2 := (Nat.div_lt_iff_lt_mul hS).mpr hb
  generalize f.signBit = S at *
  generalize b / S = q at *
  generalize b % S = r at *
  have : q = 0 ∨ q = 1 := by omega
  rcases this with rfl | rfl <;> simp at h1 ⊢ <;> omega

theorem fracOf_withSign (f : FloatFmt) (neg : Bool) (a : Nat) :
    f.fracOf (withSign f neg a) = f.fracOf a := by
  unfold withSign FloatFmt.fracOf FloatFmt.signBit
  cases neg
  · simp
  · simp only [if_true]
    rw [Nat.pow_add, Nat.add_comm, Nat.add_mul_mod_self_left]

/-- A finite result is no farther from `num/den` than zero is. -/
theorem roundRat_dist_le_self (f : FloatFmt) (hf : f.WF) (num den : Nat) (hd : den ≠ 0)
    (hfin : roundRat f num den < f.infBits) :
    adist ((finiteToRat f (roundRat f num den)).1 * den)
      (num * (finiteToRat f (roundRat f num den)).2) ≤ num * (finiteToRat f (roundRat f num den)).2 := by
  have hs := infBits_lt_signBit f
  have h1 := finiteToRat_dist f hf num den (roundRat f num den) (by omega)
  have h2 := (roundRat_core f hf num den hd 0).1
  rw [ulps_zero, Nat.zero_mul] at h2
  have h3 : adist 0 (num * 2 ^ f.ushift) = num * 2 ^ f.ushift := by simp [adist_def]
  rw [h3] at h2
  have hU : 0 < 2 ^ f.ushift := Nat.pow_pos (by omega)
  apply Nat.le_of_mul_le_mul_right _ hU
  rw [h1]
  calc _ ≤ num * 2 ^ f.ushift * (finiteToRat f (roundRat f num den)).2 := Nat.mul_le_mul_right _ h2
    _ = _ := by ring

theorem finiteToRat_zero_num (f : FloatFmt) (hf : f.WF) : (finiteToRat f 0).1 = 0 := by
  obtain ⟨h, _⟩ := finiteToRat_ulps f hf 0 (signBit_pos f)
  rw [ulps_zero, Nat.zero_mul] at h
  have hU : 0 < 2 ^ f.ushift := Nat.pow_pos (by omega)
  rcases Nat.mul_eq_zero.mp h with h | h
  · exact h
  · omega

/-- **Nearest, signed.**  `withSign neg (roundRat num den)` is at least as close to
`(-1)^neg * num/den` as every finite pattern of the format, of either sign. -/
theorem roundRat_signed_nearest (f : FloatFmt) (hf : f.WF) (neg : Bool) (num den : Nat)
    (hd : den ≠ 0) (hfin : roundRat f num den < f.infBits) (b' : Nat) (hb' : isFinitePat f b') :
    sdist neg (num, den) (patNeg f (withSign f neg (roundRat f num den)))
        (patMag f (withSign f neg (roundRat f num den))) * (patMag f b').2 ≤
      sdist neg (num, den) (patNeg f b') (patMag f b') *
        (patMag f (withSign f neg (roundRat f num den))).2 := by
  have hs := infBits_lt_signBit f
  unfold patMag
  rw [patNeg_withSign f neg _ (by omega), absOf_withSign f neg _ (by omega), sdist_same]
  by_cases hsg : neg = patNeg f b'
  · rw [← hsg, sdist_same]
    exact roundRat_finite_nearest f hf num den hd hfin _ hb'.2
  · rw [sdist_diff _ _ hsg]
    have h1 := roundRat_dist_le_self f hf num den hd hfin
    simp only
    calc _ ≤ num * (finiteToRat f (roundRat f num den)).2 * (finiteToRat f (f.absOf b')).2 :=
          Nat.mul_le_mul_right _ h1
      _ = num * (finiteToRat f (f.absOf b')).2 * (finiteToRat f (roundRat f num den)).2 := by ring
      _ ≤ _ := Nat.mul_le_mul_right _ (Nat.le_add_left _ _)

/-- **Ties to even, signed.** -/
theorem roundRat_signed_ties_even (f : FloatFmt) (hf : f.WF) (neg : Bool) (num den : Nat)
    (hd : den ≠ 0) (hfin : roundRat f num den < f.infBits) (b' : Nat) (hb' : isFinitePat f b')
    (hne : b' ≠ withSign f neg (roundRat f num den))
    (htie : sdist neg (num, den) (patNeg f b') (patMag f b') *
        (patMag f (withSign f neg (roundRat f num den))).2 =
      sdist neg (num, den) (patNeg f (withSign f neg (roundRat f num den)))
        (patMag f (withSign f neg (roundRat f num den))) * (patMag f b').2) :
    f.fracOf (withSign f neg (roundRat f num den)) % 2 = 0 := by
  have hs := infBits_lt_signBit f
  rw [fracOf_withSign]
  unfold patMag at htie
  rw [patNeg_withSign f neg _ (by omega), absOf_withSign f neg _ (by omega), sdist_same] at htie
  by_cases hsg : neg = patNeg f b'
  · rw [← hsg, sdist_same] at htie
    apply roundRat_ties_even f hf num den hd hfin (f.absOf b') hb'.2 _ htie
    intro he
    apply hne
    rw [withSign_decomp f b' hb'.1, ← hsg, he]
  · rw [sdist_diff _ _ hsg] at htie
    simp only at htie
    have h1 := roundRat_dist_le_self f hf num den hd hfin
    obtain ⟨_, pd⟩ := finiteToRat_ulps f hf (roundRat f num den) (by omega)
    obtain ⟨_, pd'⟩ := finiteToRat_ulps f hf (f.absOf b') (by have := hb'.2; omega)
    by_cases h0 : roundRat f num den = 0
    · rw [h0]; simp [FloatFmt.fracOf]
    · apply roundRat_ties_even f hf num den hd hfin 0 (by omega) (fun h => h0 h.symm)
      unfold ratDistEq
      simp only [finiteToRat_zero_num f hf, Nat.zero_mul]
      have h3 : ∀ t, adist 0 t = t := fun t => by simp [adist_def]
      rw [h3]
      generalize (finiteToRat f (roundRat f num den)).2 = d at *
      generalize (finiteToRat f (roundRat f num den)).1 = n at *
      generalize (finiteToRat f (f.absOf b')).2 = d' at *
      generalize (finiteToRat f (f.absOf b')).1 = n' at *
      generalize (finiteToRat f 0).2 = d0 at *
      -- htie : (n' * den + num * d') * d = adist (n*den) (num*d) * d'
      have h2 : adist (n * den) (num * d) * d' ≤ num * d * d' := Nat.mul_le_mul_right _ h1
      have h4 : (n' * den + num * d') * d = n' * den * d + num * d * d' := by ring
      have h5 : adist (n * den) (num * d) * d' = num * d * d' := by omega
      have h6 := Nat.eq_of_mul_eq_mul_right pd' h5
      rw [h6]; ring



/-! ## 9. `readFloat` on plain decimal literals -/

theorem forall_uint8 (P : UInt8 → Prop) (h : ∀ n, n < 256 → P (UInt8.ofNat n)) : ∀ c, P c :=
  fun c => by
    have := h c.toNat (UInt8.toNat_lt c)
    simpa using this

/-- A decimal digit is none of the other characters `readFloat`/`special` look for. -/
theorem decDigit_facts : ∀ c : UInt8, isDecDigit c = true →
    isX c = false ∧ (c == underscore) = false ∧ (c == 0x2E) = false ∧ (c == 0x2B) = false ∧
    (c == 0x2D) = false ∧ isE c = false ∧ (c == 0x69 || c == 0x49) = false ∧
    (c == 0x6E || c == 0x4E) = false := by
  apply forall_uint8
  decide +kernel

/-- An exponent character is not a digit, dot, underscore, sign or `x`. -/
theorem expChar_facts : ∀ c : UInt8, isE c = true →
    isX c = false ∧ (c == underscore) = false ∧ (c == 0x2E) = false ∧ (c == 0x2B) = false ∧
    (c == 0x2D) = false ∧ isDecDigit c = false := by
  apply forall_uint8
  decide +kernel

/-- All bytes are decimal digits. -/
def AllDec (xs : GoString) : Prop := ∀ c ∈ xs, isDecDigit c = true

/-- Value of a string of decimal digits (leading zeros allowed). -/
def decVal (xs : GoString) : Nat := xs.foldl (fun n c => n * 10 + (c.toNat - 0x30)) 0

/-- The mantissa loop over a run of decimal digits. -/
theorem scanMant_allDec (xs rest : GoString) (st : MantScan) (hx : AllDec xs) :
    scanMant false (xs ++ rest) st =
      scanMant false rest
        { mant := xs.foldl (fun n c => n * 10 + (c.toNat - 0x30)) st.mant
          sawDot := st.sawDot
          sawDigits := st.sawDigits || !xs.isEmpty
          fracDigits := if st.sawDot then st.fracDigits + xs.length else st.fracDigits } := by
  induction xs generalizing st with
  | nil => cases st; simp
  | cons c cs ih =>
    obtain ⟨_, h2, h3, _⟩ := decDigit_facts c (hx c List.mem_cons_self)
    have h4 := hx c List.mem_cons_self
    simp only [List.cons_append, scanMant, h2, h3, h4, Bool.false_eq_true, if_false, if_true]
    rw [ih _ (fun c hc => hx c (List.mem_cons_of_mem _ hc))]
    congr 1
    cases hsd : st.sawDot
    · simp [MantScan.push, hsd]
    · simp [MantScan.push, hsd]; omega



/-- What `readFloat` answers after the mantissa loop stopped in state `st` in front of `tail`
(decimal, no sign, no underscores). -/
def plainResult (st : MantScan) : GoString → Option ReadFloat
  | [] => some ⟨false, false, st.mant, 0 - (st.fracDigits : Int)⟩
  | e :: rest =>
    if isE e then
      match scanExp rest with
      | none => none
      | some er =>
        if er.2.isEmpty then some ⟨false, false, st.mant, er.1 - (st.fracDigits : Int)⟩ else none
    else none

set_option linter.auxLemma false in
theorem readFloat_plain (c : UInt8) (t : GoString)
    (hp : (c == 0x2B) = false) (hm : (c == 0x2D) = false)
    (hnx : ∀ x ∈ c :: t, isX x = false) (hnu : ∀ x ∈ c :: t, (x == underscore) = false)
    (st : MantScan) (tail : GoString) (hscan : scanMant false (c :: t) {} = (st, tail))
    (hdig : st.sawDigits = true) :
    readFloat (c :: t) = plainResult st tail := by
  have hus : (c :: t).contains underscore = false := by
    rw [Bool.eq_false_iff]
    intro h
    have hmem : underscore ∈ c :: t := by simpa using h
    have := hnu _ hmem
    simp at this
  unfold readFloat
  simp only [hp, hm, Bool.or_self, Bool.false_eq_true, if_false]
  have hbody : readFloat.match_1 (fun _ => Option GoString) (c :: t)
      (fun x d r => if isX x = true then some (d :: r) else none) (fun _ => none) = none := by
    split
    · rename_i x d r heq
      have hx : x ∈ c :: t := by rw [heq]; simp
      simp [hnx x hx]
    · rfl
  rw [hbody]
  simp only [Option.isSome_none, Option.getD_none, hscan, hdig, hus, Bool.not_true,
    Bool.false_eq_true, if_false, Bool.false_and]
  cases tail with
  | nil => simp [plainResult]
  | cons e rest =>
    simp only [plainResult]
    split
    · cases scanExp rest with
      | none => rfl
      | some er => cases h : er.2.isEmpty <;> simp [h]
    · rfl



theorem underscoreOK_signed (sg c : UInt8) (t : GoString) (hsg : sg = 0x2B ∨ sg = 0x2D)
    (hp : (c == 0x2B) = false) (hm : (c == 0x2D) = false) :
    underscoreOK (sg :: c :: t) = underscoreOK (c :: t) := by
  unfold underscoreOK
  rcases hsg with rfl | rfl <;> simp [hp, hm]

set_option linter.auxLemma false in
theorem readFloat_signed (sg c : UInt8) (t : GoString) (hsg : sg = 0x2B ∨ sg = 0x2D)
    (hp : (c == 0x2B) = false) (hm : (c == 0x2D) = false) :
    readFloat (sg :: c :: t) = (readFloat (c :: t)).map (fun r => { r with neg := sg == 0x2D }) := by
  have hu : (sg :: c :: t).contains underscore = (c :: t).contains underscore := by
    rcases hsg with rfl | rfl <;> simp [underscore]
  have hs1 : (if (sg == 0x2B || sg == 0x2D) = true then c :: t else sg :: c :: t) = c :: t := by
    rcases hsg with rfl | rfl <;> simp
  have hs2 : (if (c == 0x2B || c == 0x2D) = true then t else c :: t) = c :: t := by
    simp [hp, hm]
  unfold readFloat
  simp only [hs1, hs2, hu, underscoreOK_signed sg c t hsg hp hm]
  generalize readFloat.match_1 (fun _ => Option GoString) (c :: t)
    (fun x d r => if isX x = true then some (d :: r) else none) (fun _ => none) = hb
  generalize scanMant hb.isSome (hb.getD (c :: t)) {} = sr
  generalize ((c :: t).contains underscore && !underscoreOK (c :: t)) = uo
  cases h1 : sr.1.sawDigits
  · simp
  · simp only [Bool.not_true, Bool.false_eq_true, if_false]
    cases sr.2 with
    | nil =>
      simp only []
      cases hb.isSome <;> cases uo <;> simp
    | cons e rest =>
      simp only []
      rcases scanExp rest with _ | er
      · cases hb.isSome <;> cases isP e <;> cases isE e <;> simp
      · cases hb.isSome <;> cases isP e <;> cases isE e <;> cases uo <;>
          cases h : er.2.isEmpty <;> simp [h]


/-! ## 10. `special` and `readFloat` are disjoint -/

/-- The letters that start `inf`/`nan` are not characters of a number. -/
theorem letter_facts : ∀ c : UInt8, (c == 0x69 || c == 0x49 || c == 0x6E || c == 0x4E) = true →
    (c == 0x2B) = false ∧ (c == 0x2D) = false ∧ (c == underscore) = false ∧ (c == 0x2E) = false ∧
    isDecDigit c = false ∧ (c == 0x30) = false := by
  apply forall_uint8
  decide +kernel

theorem fold_i : ∀ c : UInt8,
    ((if 0x41 ≤ c && c ≤ 0x5A then c + 0x20 else c) == 0x69) = true →
    (c == 0x69 || c == 0x49) = true := by
  apply forall_uint8
  decide +kernel

set_option linter.auxLemma false in
/-- `readFloat` rejects anything starting with `i I n N`. -/
theorem readFloat_letter (c : UInt8) (t : GoString)
    (hc : (c == 0x69 || c == 0x49 || c == 0x6E || c == 0x4E) = true) : readFloat (c :: t) = none := by
  obtain ⟨hp, hm, hu, hdot, hdig, h0⟩ := letter_facts c hc
  have hbody : readFloat.match_1 (fun _ => Option GoString) (c :: t)
      (fun x d r => if isX x = true then some (d :: r) else none) (fun _ => none) = none := by
    split
    · rename_i x d r heq
      have : c = 0x30 := (List.cons.inj heq).1
      simp [this] at h0
    · rfl
  unfold readFloat
  simp only [hp, hm, Bool.or_self, Bool.false_eq_true, if_false]
  rw [hbody]
  have hscan : scanMant false (c :: t) {} = ({}, c :: t) := by
    simp [scanMant, hu, hdot, hdig]
  simp [hscan]

theorem specialInf_some (s : GoString) (neg : Bool) (k : Nat) (x : Special × Nat)
    (h : specialInf s neg k = some x) :
    ∃ c t, s = c :: t ∧ (c == 0x69 || c == 0x49) = true := by
  cases s with
  | nil => simp [specialInf, commonPrefixLenIgnoreCase] at h
  | cons c t =>
    refine ⟨c, t, rfl, ?_⟩
    apply fold_i
    by_contra hne
    have : commonPrefixLenIgnoreCase (c :: t) infinityStr = 0 := by
      show (if ((if 0x41 ≤ c && c ≤ 0x5A then c + 0x20 else c) == 0x69) = true then _ else 0) = 0
      rw [if_neg hne]
    simp [specialInf, this] at h

/-- What `special` recognises, `readFloat` rejects (so the two arms of `parseFloat` are
disjoint and `readFloat s = some r` alone determines the numeric arm). -/
theorem special_none_of_readFloat (s : GoString) (r : ReadFloat) (h : readFloat s = some r) :
    special s = none := by
  cases hsp : special s with
  | none => rfl
  | some x =>
    exfalso
    cases s with
    | nil => simp [special] at hsp
    | cons c rest =>
      unfold special at hsp
      simp only at hsp
      split at hsp
      · rename_i hc
        obtain ⟨c', t, rfl, hc'⟩ := specialInf_some _ _ _ _ hsp
        have hc'' : (c' == 0x69 || c' == 0x49 || c' == 0x6E || c' == 0x4E) = true := by
          simp only [Bool.or_eq_true] at hc' ⊢; tauto
        obtain ⟨hp, hm, _⟩ := letter_facts c' hc''
        rw [readFloat_signed c c' t (Or.inl (by simpa using hc)) hp hm, readFloat_letter c' t hc''] at h
        simp at h
      · split at hsp
        · rename_i _ hc
          obtain ⟨c', t, rfl, hc'⟩ := specialInf_some _ _ _ _ hsp
          have hc'' : (c' == 0x69 || c' == 0x49 || c' == 0x6E || c' == 0x4E) = true := by
            simp only [Bool.or_eq_true] at hc' ⊢; tauto
          obtain ⟨hp, hm, _⟩ := letter_facts c' hc''
          rw [readFloat_signed c c' t (Or.inr (by simpa using hc)) hp hm, readFloat_letter c' t hc''] at h
          simp at h
        · split at hsp
          · rename_i hc
            have hc'' : (c == 0x69 || c == 0x49 || c == 0x6E || c == 0x4E) = true := by
              simp only [Bool.or_eq_true] at hc ⊢; tauto
            rw [readFloat_letter c rest hc''] at h
            simp at h
          · split at hsp
            · rename_i hc
              have hc'' : (c == 0x69 || c == 0x49 || c == 0x6E || c == 0x4E) = true := by
                simp only [Bool.or_eq_true] at hc ⊢; tauto
              rw [readFloat_letter c rest hc''] at h
              simp at h
            · simp at hsp



/-! ## 11. Decimal literals `[+-]digits[.digits][e[+-]digits]` -/

/-- The text of an optional sign: nothing, `+`, or `-`. -/
def signText : Option Bool → GoString
  | none => []
  | some false => [0x2B]
  | some true => [0x2D]

/-- Go's saturating exponent value of a digit string (`if e < 10000 { e = e*10 + d }`). -/
def expVal (ep : GoString) : Nat := (scanExpDigits ep 0).1

theorem scanExpDigits_allDec (xs : GoString) (e : Nat) (hx : AllDec xs) :
    (scanExpDigits xs e).2 = [] := by
  induction xs generalizing e with
  | nil => rfl
  | cons c cs ih =>
    obtain ⟨_, h2, _⟩ := decDigit_facts c (hx c List.mem_cons_self)
    have h4 := hx c List.mem_cons_self
    simp only [scanExpDigits, h2, h4, Bool.false_eq_true, if_false, if_true]
    exact ih _ (fun c hc => hx c (List.mem_cons_of_mem _ hc))

theorem foldl_dec_ge (xs : GoString) (y : Nat) :
    y ≤ xs.foldl (fun n c => n * 10 + (c.toNat - 0x30)) y := by
  induction xs generalizing y with
  | nil => exact Nat.le_refl _
  | cons c cs ih =>
    have : y ≤ y * 10 + (c.toNat - 0x30) := by omega
    exact Nat.le_trans this (ih _)

theorem scanExpDigits_eq_foldl (xs : GoString) (e : Nat) (hx : AllDec xs)
    (h : xs.foldl (fun n c => n * 10 + (c.toNat - 0x30)) e < 100000) :
    (scanExpDigits xs e).1 = xs.foldl (fun n c => n * 10 + (c.toNat - 0x30)) e := by
  induction xs generalizing e with
  | nil => rfl
  | cons c cs ih =>
    obtain ⟨_, h2, _⟩ := decDigit_facts c (hx c List.mem_cons_self)
    have h4 := hx c List.mem_cons_self
    have hge := foldl_dec_ge cs (e * 10 + (c.toNat - 0x30))
    simp only [List.foldl_cons] at h ⊢
    have he : e < 10000 := by omega
    simp only [scanExpDigits, h2, h4, he, Bool.false_eq_true, if_false, if_true]
    exact ih _ (fun c hc => hx c (List.mem_cons_of_mem _ hc)) h

/-- Below `100000` the saturating exponent value is the plain decimal value. -/
theorem expVal_eq_decVal (ep : GoString) (hep : AllDec ep) (h : decVal ep < 100000) :
    expVal ep = decVal ep := scanExpDigits_eq_foldl ep 0 hep h

/-- The exponent part: optional sign and a non-empty run of digits. -/
theorem scanExp_plain (sg : Option Bool) (ep : GoString) (hep : AllDec ep) (hne : ep ≠ []) :
    scanExp (signText sg ++ ep) =
      some ((if sg = some true then -(expVal ep : Int) else (expVal ep : Int)), []) := by
  cases ep with
  | nil => exact absurd rfl hne
  | cons d t =>
    obtain ⟨_, _, _, hp, hm, _⟩ := decDigit_facts d (hep d List.mem_cons_self)
    have hd := hep d List.mem_cons_self
    have h2 := scanExpDigits_allDec (d :: t) 0 hep
    rcases sg with _ | _ | _
    · simp only [signText, List.nil_append, scanExp, hp, hm, hd, Bool.or_self, Bool.false_eq_true,
        if_false, Bool.not_true]
      simp [expVal, ← h2]
    · simp only [signText, List.cons_append, List.nil_append, scanExp]
      simp [expVal, ← h2, hd]
    · simp only [signText, List.cons_append, List.nil_append, scanExp]
      simp [expVal, ← h2, hd]

/-- A decimal floating-point literal without underscores. -/
structure DecLit where
  /-- `none`: no sign; `some false`: `+`; `some true`: `-` -/
  sign : Option Bool
  /-- digits before the point -/
  ip : GoString
  /-- `some fp`: a point followed by the digits `fp` -/
  fp : Option GoString
  /-- `some (e, sg, ep)`: exponent character, optional sign, digits -/
  ex : Option (UInt8 × Option Bool × GoString)

namespace DecLit

def fracText (l : DecLit) : GoString := match l.fp with | none => [] | some fp => 0x2E :: fp
def expText (l : DecLit) : GoString :=
  match l.ex with | none => [] | some (e, sg, ep) => e :: (signText sg ++ ep)
/-- The unsigned part of the literal. -/
def body (l : DecLit) : GoString := l.ip ++ (l.fracText ++ l.expText)
/-- The literal as text. -/
def text (l : DecLit) : GoString := signText l.sign ++ l.body

/-- All digits of the mantissa. -/
def digits (l : DecLit) : GoString := l.ip ++ l.fp.getD []
/-- The integer formed by all mantissa digits. -/
def mant (l : DecLit) : Nat := decVal l.digits
/-- Decimal exponent: the written exponent minus the number of fraction digits. -/
def exp10 (l : DecLit) : Int :=
  (match l.ex with
    | none => 0
    | some (_, sg, ep) => if sg = some true then -(expVal ep : Int) else (expVal ep : Int)) -
  ((l.fp.getD []).length : Int)
def neg (l : DecLit) : Bool := l.sign == some true

/-- Well-formedness: digits where digits are expected, at least one mantissa digit, a
non-empty exponent after an exponent character `e`/`E`. -/
structure WF (l : DecLit) : Prop where
  ip : AllDec l.ip
  fp : ∀ fp, l.fp = some fp → AllDec fp
  some_digit : l.digits ≠ []
  ex : ∀ e sg ep, l.ex = some (e, sg, ep) → isE e = true ∧ AllDec ep ∧ ep ≠ []

end DecLit

theorem foldl_dec_append (xs ys : GoString) (n : Nat) :
    (xs ++ ys).foldl (fun n c => n * 10 + (c.toNat - 0x30)) n =
      ys.foldl (fun n c => n * 10 + (c.toNat - 0x30))
        (xs.foldl (fun n c => n * 10 + (c.toNat - 0x30)) n) := List.foldl_append ..

/-- The mantissa loop on the body of a well-formed literal stops in front of the exponent. -/
theorem scanMant_decLit (l : DecLit) (h : l.WF) :
    scanMant false l.body {} =
      ({ mant := l.mant, sawDot := l.fp.isSome, sawDigits := true,
         fracDigits := (l.fp.getD []).length }, l.expText) := by
  have htail : ∀ st, scanMant false l.expText st = (st, l.expText) := by
    intro st
    unfold DecLit.expText
    rcases hex : l.ex with _ | ⟨e, sg, ep⟩
    · rfl
    · obtain ⟨he, _, _⟩ := h.ex e sg ep hex
      obtain ⟨_, h2, h3, _, _, h6⟩ := expChar_facts e he
      simp [scanMant, h2, h3, h6]
  have hsd := h.some_digit
  unfold DecLit.body DecLit.fracText
  unfold DecLit.digits at hsd
  unfold DecLit.mant DecLit.digits decVal
  rw [scanMant_allDec _ _ _ h.ip]
  rcases hfp : l.fp with _ | fp
  · rw [hfp] at hsd
    simp only [List.nil_append, htail]
    have : l.ip ≠ [] := by simpa using hsd
    cases hip : l.ip with
    | nil => exact absurd hip this
    | cons c t => simp
  · rw [hfp] at hsd
    have hfpd := h.fp fp hfp
    have hdot : ((0x2E : UInt8) == underscore) = false := by decide
    simp only [List.cons_append, scanMant, hdot, Bool.false_eq_true, if_false, beq_self_eq_true,
      if_true]
    rw [scanMant_allDec _ _ _ hfpd, htail]
    simp only [Option.getD_some, foldl_dec_append, Option.isSome_some, if_true, Nat.zero_add]
    congr 2
    simp only [Option.getD_some] at hsd
    cases hip : l.ip with
    | nil =>
      rw [hip] at hsd
      cases fp with
      | nil => simp at hsd
      | cons c t => simp
    | cons c t => simp


theorem plainChar_facts : ∀ c : UInt8,
    (isDecDigit c || c == 0x2E || isE c || c == 0x2B || c == 0x2D) = true →
    isX c = false ∧ (c == underscore) = false := by
  apply forall_uint8
  decide +kernel

theorem mem_signText {x : UInt8} {sg : Option Bool} (h : x ∈ signText sg) :
    (x == 0x2B || x == 0x2D) = true := by
  rcases sg with _ | _ | _ <;> simp [signText] at h <;> simp [h]

/-- Every byte of the body is a digit, `.`, `e`/`E`, `+` or `-`. -/
theorem mem_body_decLit (l : DecLit) (h : l.WF) (x : UInt8) (hx : x ∈ l.body) :
    (isDecDigit x || x == 0x2E || isE x || x == 0x2B || x == 0x2D) = true := by
  unfold DecLit.body DecLit.fracText DecLit.expText at hx
  rcases List.mem_append.mp hx with hx | hx
  · simp [h.ip x hx]
  · rcases List.mem_append.mp hx with hx | hx
    · rcases hfp : l.fp with _ | fp
      · simp [hfp] at hx
      · rw [hfp] at hx
        rcases List.mem_cons.mp hx with hx | hx
        · simp [hx]
        · simp [h.fp fp hfp x hx]
    · rcases hex : l.ex with _ | ⟨e, sg, ep⟩
      · simp [hex] at hx
      · rw [hex] at hx
        obtain ⟨he, hep, _⟩ := h.ex e sg ep hex
        rcases List.mem_cons.mp hx with hx | hx
        · simp [hx, he]
        · rcases List.mem_append.mp hx with hx | hx
          · have := mem_signText hx
            simp only [Bool.or_eq_true] at this ⊢
            tauto
          · simp [hep x hx]

/-- The body starts with a digit or the point. -/
theorem body_head_decLit (l : DecLit) (h : l.WF) :
    ∃ c t, l.body = c :: t ∧ (c == 0x2B) = false ∧ (c == 0x2D) = false := by
  have hsd := h.some_digit
  unfold DecLit.digits at hsd
  unfold DecLit.body DecLit.fracText
  cases hip : l.ip with
  | cons c t =>
    have hc := h.ip c (by rw [hip]; exact List.mem_cons_self)
    obtain ⟨_, _, _, hp, hm, _⟩ := decDigit_facts c hc
    exact ⟨c, _, rfl, hp, hm⟩
  | nil =>
    rcases hfp : l.fp with _ | fp
    · rw [hip, hfp] at hsd; simp at hsd
    · exact ⟨0x2E, _, rfl, by decide, by decide⟩

/-- **`readFloat` on a well-formed decimal literal, unsigned part.** -/
theorem readFloat_body_decLit (l : DecLit) (h : l.WF) :
    readFloat l.body = some ⟨false, false, l.mant, l.exp10⟩ := by
  obtain ⟨c, t, hbody, hp, hm⟩ := body_head_decLit l h
  have hscan := scanMant_decLit l h
  have hfacts : ∀ x ∈ l.body, isX x = false ∧ (x == underscore) = false :=
    fun x hx => plainChar_facts x (mem_body_decLit l h x hx)
  rw [hbody] at hscan hfacts ⊢
  rw [readFloat_plain c t hp hm (fun x hx => (hfacts x hx).1) (fun x hx => (hfacts x hx).2)
    _ _ hscan rfl]
  unfold DecLit.expText DecLit.exp10
  rcases hex : l.ex with _ | ⟨e, sg, ep⟩
  · simp [plainResult]
  · obtain ⟨he, hep, hne⟩ := h.ex e sg ep hex
    simp [plainResult, he, scanExp_plain sg ep hep hne]

/-- **`readFloat` on a well-formed decimal literal**: sign, all mantissa digits as one
integer, and the decimal exponent. -/
theorem readFloat_decLit (l : DecLit) (h : l.WF) :
    readFloat l.text = some ⟨l.neg, false, l.mant, l.exp10⟩ := by
  obtain ⟨c, t, hbody, hp, hm⟩ := body_head_decLit l h
  have hb := readFloat_body_decLit l h
  unfold DecLit.text DecLit.neg
  rcases hs : l.sign with _ | _ | _
  · simpa [signText] using hb
  · rw [hbody] at hb ⊢
    simp only [signText, List.cons_append, List.nil_append]
    rw [readFloat_signed 0x2B c t (Or.inl rfl) hp hm, hb]
    simp
  · rw [hbody] at hb ⊢
    simp only [signText, List.cons_append, List.nil_append]
    rw [readFloat_signed 0x2D c t (Or.inr rfl) hp hm, hb]
    simp


end Bexpr.Strconv
