/-
  Lemmas for property C01 (`Evaluate` agrees with the reference semantics `Eval.Spec`):
   * `get_append`: `pointerstructure.Get` over a concatenated path is `Get` over the first part
     and then over the second, from the boxed intermediate value — for every hook;
   * the single walk of the specification (`Spec.walk`) against `get` and against the parent test
     of `evaluateNotPresent`;
   * the decimal index round trip `ParseInt(strconv.Itoa(i)) = i`;
   * the local-variable scan over a path extended at the end.

  Core Lean only.
-/
import Bexpr.Eval.Spec
import Proofs.Total
import Props.C06

namespace Bexpr.Proofs.SpecLemmas
open Bexpr Bexpr.Go Bexpr.Eval
open Bexpr.Props

/-! ## The decimal index round trip `ParseInt(Itoa(i)) = i` -/

namespace IndexRoundTrip
open Bexpr.Strconv

/-- The byte of the decimal digit `d`. -/
def dig (d : Nat) : UInt8 := GoString.byteOfChar (Nat.digitChar d)

theorem dig_facts : ∀ d : Fin 10,
    digitVal (dig d.val) = some d.val ∧ dig d.val ≠ underscore ∧ dig d.val ≠ 0x2B ∧
    dig d.val ≠ 0x2D ∧ (dig d.val = 0x30 ↔ d.val = 0) := by
  decide

theorem digitVal_dig {d : Nat} (h : d < 10) : digitVal (dig d) = some d :=
  (dig_facts ⟨d, h⟩).1
theorem dig_ne_underscore {d : Nat} (h : d < 10) : dig d ≠ underscore :=
  (dig_facts ⟨d, h⟩).2.1
theorem dig_ne_plus {d : Nat} (h : d < 10) : dig d ≠ 0x2B :=
  (dig_facts ⟨d, h⟩).2.2.1
theorem dig_ne_minus {d : Nat} (h : d < 10) : dig d ≠ 0x2D :=
  (dig_facts ⟨d, h⟩).2.2.2.1
theorem dig_eq_zero_iff {d : Nat} (h : d < 10) : dig d = 0x30 ↔ d = 0 :=
  (dig_facts ⟨d, h⟩).2.2.2.2

theorem uintLoop_append (b bs : Nat) (b0 : Bool) (l r : GoString) (acc : Nat) :
    uintLoop b bs b0 (l ++ r) acc =
      match uintLoop b bs b0 l acc with
      | .ok m => uintLoop b bs b0 r m
      | .error e => .error e := by
  induction l generalizing acc with
  | nil => simp [uintLoop]
  | cons c cs ih =>
    simp only [List.cons_append, uintLoop]
    split
    · exact ih acc
    · split
      · rfl
      · split
        · rfl
        · split
          · rfl
          · exact ih _

theorem natToDec_lt {n : Nat} (h : n < 10) : GoString.natToDec n = [dig n] := by
  simp [GoString.natToDec, Nat.toDigits_of_lt_base h, dig]

theorem natToDec_ge {n : Nat} (h : 10 ≤ n) :
    GoString.natToDec n = GoString.natToDec (n / 10) ++ [dig (n % 10)] := by
  simp [GoString.natToDec, Nat.toDigits_of_base_le (by decide : 1 < 10) h, dig]

theorem uintLoop_single {d acc : Nat} (hd : d < 10) (h : acc * 10 + d < 2 ^ 64) :
    uintLoop 10 64 true [dig d] acc = .ok (acc * 10 + d) := by
  have h1 : (dig d == underscore) = false := by
    simpa using dig_ne_underscore hd
  have h2 : ¬ d ≥ 10 := by omega
  have h3 : ¬ acc * 10 + d ≥ 2 ^ 64 := by omega
  simp only [uintLoop, h1, digitVal_dig hd, Bool.false_and]
  simp [h2, h3]

/-- The combined invariant, by strong induction. -/
theorem natToDec_spec (n : Nat) :
    (n < 2 ^ 64 → uintLoop 10 64 true (GoString.natToDec n) 0 = .ok n) ∧
    (∀ c ∈ GoString.natToDec n, ∃ d, d < 10 ∧ c = dig d) ∧
    (0 < n → ∃ d t, 0 < d ∧ d < 10 ∧ GoString.natToDec n = dig d :: t) := by
  induction n using Nat.strongRecOn with
  | _ n ih =>
    by_cases hn : n < 10
    · rw [natToDec_lt hn]
      refine ⟨?_, ?_, ?_⟩
      · intro _
        have := uintLoop_single (d := n) (acc := 0) hn (by omega)
        simpa using this
      · intro c hc
        exact ⟨n, hn, by simpa using hc⟩
      · intro hpos
        exact ⟨n, [], hpos, hn, rfl⟩
    · have hge : 10 ≤ n := by omega
      have hlt : n / 10 < n := by omega
      obtain ⟨ih1, ih2, ih3⟩ := ih (n / 10) hlt
      have hd : n % 10 < 10 := Nat.mod_lt _ (by decide)
      rw [natToDec_ge hge]
      refine ⟨?_, ?_, ?_⟩
      · intro h64
        rw [uintLoop_append, ih1 (by omega)]
        have := uintLoop_single (d := n % 10) (acc := n / 10) hd (by omega)
        show uintLoop 10 64 true [dig (n % 10)] (n / 10) = Except.ok n
        rw [this]
        congr 1
        omega
      · intro c hc
        rcases List.mem_append.1 hc with hc | hc
        · exact ih2 c hc
        · exact ⟨n % 10, hd, by simpa using hc⟩
      · intro _
        obtain ⟨d, t, hd0, hd10, heq⟩ := ih3 (by omega)
        exact ⟨d, t ++ [dig (n % 10)], hd0, hd10, by rw [heq]; rfl⟩

theorem natToDec_no_underscore (n : Nat) :
    (GoString.natToDec n).contains underscore = false := by
  rw [Bool.eq_false_iff]
  intro h
  have hmem : underscore ∈ GoString.natToDec n := by simpa using h
  obtain ⟨d, hd, he⟩ := (natToDec_spec n).2.1 _ hmem
  exact dig_ne_underscore hd he.symm

theorem splitBase0_of_head_ne {c : UInt8} {t : GoString} (h : c ≠ 0x30) :
    splitBase0 (c :: t) = (10, c :: t) := by
  unfold splitBase0
  split
  · rename_i heq; cases heq; exact absurd rfl h
  · rename_i heq; cases heq; exact absurd rfl h
  · rfl

theorem parseUint_natToDec (n : Nat) (h : n < 2 ^ 64) :
    parseUint (GoString.natToDec n) 0 64 = .ok n := by
  by_cases hn : n = 0
  · subst hn
    rfl
  · obtain ⟨d, t, hd0, hd10, heq⟩ := (natToDec_spec n).2.2 (by omega)
    have hne : dig d ≠ 0x30 := fun he => by
      have := (dig_eq_zero_iff hd10).1 he; omega
    have hloop := (natToDec_spec n).1 h
    have hund := natToDec_no_underscore n
    have hsplit : splitBase0 (GoString.natToDec n) = (10, GoString.natToDec n) := by
      rw [heq]; exact splitBase0_of_head_ne hne
    have hemp : (GoString.natToDec n).isEmpty = false := by rw [heq]; rfl
    have hund' : underscore ∉ GoString.natToDec n := by
      intro hm
      have : (GoString.natToDec n).contains underscore = true := by simpa using hm
      rw [hund] at this; cases this
    simp [parseUint, hemp, hsplit, hloop, hund']

/-- `strconv.ParseInt(strconv.Itoa(i), 0, 64) = i` for a non-negative `i` that fits `int64` -/
theorem parseInt_natToDec (n : Nat) (h : n < 2 ^ 63) :
    Strconv.parseInt (GoString.natToDec n) 0 64 = .ok (n : Int) := by
  have hU := parseUint_natToDec n (by omega)
  have hex : ∃ d t, d < 10 ∧ GoString.natToDec n = dig d :: t := by
    by_cases hn : n = 0
    · subst hn; exact ⟨0, [], by decide, by decide⟩
    · obtain ⟨d, t, _, hd10, heq⟩ := (natToDec_spec n).2.2 (by omega)
      exact ⟨d, t, hd10, heq⟩
  obtain ⟨d, t, hd, heq⟩ := hex
  rw [heq] at hU ⊢
  have hp : (dig d == 0x2B) = false := by simpa using dig_ne_plus hd
  have hm : (dig d == 0x2D) = false := by simpa using dig_ne_minus hd
  have hc : ¬ n ≥ 2 ^ 63 := by omega
  simp only [parseInt, hp, hm, Bool.or_self, Bool.false_eq_true, if_false, hU]
  simp [hc]

end IndexRoundTrip

/-! ## `get` by steps -/

theorem unwrapForStep_toAny (r : GoVal) : unwrapForStep (valueOf r.toAny) = unwrapForStep (some r) := by
  cases r <;> try rfl
  rename_i x
  cases x <;> simp [GoVal.toAny, valueOf, unwrapForStep, unwrapIfaceV]

/-- a step does not see whether the current value is boxed in an interface -/
theorem getStep_toAny (cfg : Config) (part : GoString) (r : GoVal) :
    getStep cfg part (valueOf r.toAny) = getStep cfg part (some r) := by
  unfold getStep
  rw [unwrapForStep_toAny]

theorem applyHook_ne_ok_none (cfg : Config) (r : Except GetErr RV) :
    getStep.applyHook cfg r ≠ .ok none := by
  unfold getStep.applyHook
  split
  · simp
  · simp
  · split
    · simp
    · split <;> simp

/-- the getters return valid Values -/
theorem getStep_ne_ok_none (cfg : Config) (part : GoString) (cur : RV) :
    getStep cfg part cur ≠ .ok none := by
  unfold getStep
  split <;> first | exact applyHook_ne_ok_none cfg _ | simp

theorem getLoop_toAny (cfg : Config) (ps : List GoString) (r : GoVal) (h : ps ≠ []) :
    getLoop cfg ps (valueOf r.toAny) = getLoop cfg ps (some r) := by
  cases ps with
  | nil => exact absurd rfl h
  | cons p ps => simp only [getLoop, getStep_toAny]

set_option linter.unusedSimpArgs false in
/-- `Get` one part at a time: step, box, continue -/
theorem get_cons (cfg : Config) (part : GoString) (rest : List GoString) (v : Any) :
    get cfg (part :: rest) v =
      match getStep cfg part (valueOf v) with
      | .error e => .error e
      | .ok none => .error .hookNil
      | .ok (some r) => get cfg rest r.toAny := by
  simp only [Go.get, getLoop]
  cases hs : getStep cfg part (valueOf v) with
  | error e => rfl
  | ok cur =>
    cases cur with
    | none => exact absurd hs (getStep_ne_ok_none cfg part _)
    | some r =>
      cases rest with
      | nil => simp [getLoop, Go.get]
      | cons q qs =>
        simp only [Go.get]
        rw [getLoop_toAny cfg (q :: qs) r (by simp)]

/-- C01 `get_append`: walking `p ++ q` is walking `p`, boxing the result as `Get` returns it, and
    walking `q` from there.  Holds for every hook (the hook is applied per step) and in the
    corner cases `p = []` (`Get` returns the datum itself) and `q = []`. -/
theorem get_append (cfg : Config) (p q : List GoString) (d : Any) :
    get cfg (p ++ q) d =
      match get cfg p d with
      | .ok v => get cfg q v
      | .error e => .error e := by
  induction p generalizing d with
  | nil => simp [Go.get]
  | cons part rest ih =>
    simp only [List.cons_append, get_cons]
    cases getStep cfg part (valueOf d) with
    | error e => rfl
    | ok cur =>
      cases cur with
      | none => rfl
      | some r => exact ih r.toAny

/-- `Except.bind` form -/
theorem get_append_bind (cfg : Config) (p q : List GoString) (d : Any) :
    get cfg (p ++ q) d = (get cfg p d).bind (get cfg q) := by
  rw [get_append]; cases get cfg p d <;> rfl

/-! ## The single walk of the specification -/

/-- the walk of the specification computes `Get` -/
theorem get_eq_walk (cfg : Config) (p : List GoString) (v : Any) :
    get cfg p v =
      match Spec.walk cfg p v with
      | .ok r => .ok r
      | .error s => .error s.err := by
  induction p generalizing v with
  | nil => simp [Go.get, Spec.walk]
  | cons part rest ih =>
    rw [get_cons]
    simp only [Spec.walk]
    cases getStep cfg part (valueOf v) with
    | error e => rfl
    | ok cur =>
      cases cur with
      | none => rfl
      | some r => exact ih r.toAny

/-- a walk stuck before its last part is stuck on the path without the last part, too -/
theorem walk_dropLast_not_last (cfg : Config) (p : List GoString) (v : Any) (s : Spec.Stuck)
    (h : Spec.walk cfg p v = .error s) (hl : s.atLast = false) :
    ∃ s', Spec.walk cfg p.dropLast v = .error s' := by
  induction p generalizing v with
  | nil => simp [Spec.walk] at h
  | cons part rest ih =>
    cases rest with
    | nil =>
      simp only [Spec.walk] at h
      cases hs : getStep cfg part (valueOf v) with
      | error e => rw [hs] at h; cases h; simp at hl
      | ok cur =>
        rw [hs] at h
        cases cur with
        | none => cases h; simp at hl
        | some r => simp at h
    | cons q qs =>
      simp only [List.dropLast_cons_cons] at ih ⊢
      simp only [Spec.walk] at h ⊢
      cases hs : getStep cfg part (valueOf v) with
      | error e => exact ⟨_, rfl⟩
      | ok cur =>
        rw [hs] at h
        cases cur with
        | none => exact ⟨_, rfl⟩
        | some r => exact ih r.toAny h

/-- a walk stuck at its last part has walked the path without the last part to the parent -/
theorem walk_dropLast_last (cfg : Config) (p : List GoString) (v : Any) (s : Spec.Stuck)
    (h : Spec.walk cfg p v = .error s) (hl : s.atLast = true) :
    Spec.walk cfg p.dropLast v = .ok s.parent := by
  induction p generalizing v with
  | nil => simp [Spec.walk] at h
  | cons part rest ih =>
    cases rest with
    | nil =>
      simp only [Spec.walk] at h
      simp only [List.dropLast_singleton, Spec.walk]
      cases hs : getStep cfg part (valueOf v) with
      | error e => rw [hs] at h; cases h; rfl
      | ok cur =>
        rw [hs] at h
        cases cur with
        | none => cases h; rfl
        | some r => simp at h
    | cons q qs =>
      simp only [List.dropLast_cons_cons] at ih ⊢
      simp only [Spec.walk] at h ⊢
      cases hs : getStep cfg part (valueOf v) with
      | error e => rw [hs] at h; cases h; simp at hl
      | ok cur =>
        rw [hs] at h
        cases cur with
        | none => cases h; simp at hl
        | some r => exact ih r.toAny h

theorem walk_error_ne_nil (cfg : Config) (p : List GoString) (v : Any) (s : Spec.Stuck)
    (h : Spec.walk cfg p v = .error s) : p ≠ [] := by
  intro hp; subst hp; simp [Spec.walk] at h

/-- the parent test of `evaluateNotPresent`, on a path `pre ++ p` whose first part `pre` resolves
    to `v`, is the last-part / parent-kind reading of the single walk of `p` from `v` -/
theorem evaluateNotPresent_walk (cfg : Config) (pre p : List GoString) (d v : Any)
    (s : Spec.Stuck) (hpre : get cfg pre d = .ok v) (h : Spec.walk cfg p v = .error s) :
    evaluateNotPresent cfg (pre ++ p) d =
      (decide (2 ≤ (pre ++ p).length) && s.atLast && RV.kind s.parent == .map) := by
  have hp := walk_error_ne_nil cfg p v s h
  unfold evaluateNotPresent
  by_cases hlen : (pre ++ p).length < 2
  · have h2 : decide (2 ≤ (pre ++ p).length) = false := by
      simp only [decide_eq_false_iff_not]; omega
    rw [if_pos hlen, h2]; rfl
  · have h2 : 2 ≤ (pre ++ p).length := by omega
    simp only [hlen, if_false, h2, decide_true, Bool.true_and]
    rw [List.dropLast_append_of_ne_nil hp, get_append, hpre]
    simp only []
    rw [get_eq_walk]
    cases hl : s.atLast with
    | true =>
      rw [walk_dropLast_last cfg p v s h hl]
      cases hpar : s.parent with
      | none => simp [RV.kind]
      | some w => simp [RV.kind]
    | false =>
      obtain ⟨s', hs'⟩ := walk_dropLast_not_last cfg p v s h hl
      rw [hs']; simp

/-! ## The local-variable scan over an extended path -/

theorem resolveLocals_nil_path (ls : List LocalVar) : resolveLocals ls [] = .ok (.inr []) := by
  cases ls <;> rfl

/-- a scan that ends with a path (no key/index binding hit) only rewrites a prefix: parts
    appended to the path are appended to the result -/
theorem resolveLocals_append_path (ls : List LocalVar) (p q r : List GoString) (hp : p ≠ [])
    (h : resolveLocals ls p = .ok (.inr q)) :
    resolveLocals ls (p ++ r) = .ok (.inr (q ++ r)) ∧ q ≠ [] := by
  induction ls generalizing p with
  | nil =>
    simp only [resolveLocals, Except.ok.injEq, Sum.inr.injEq] at h
    subst h; exact ⟨by simp [resolveLocals], hp⟩
  | cons lv older ih =>
    cases p with
    | nil => exact absurd rfl hp
    | cons n t =>
      simp only [List.cons_append, resolveLocals] at h ⊢
      by_cases hn : (n == lv.name) = true
      · simp only [hn, if_true] at h ⊢
        by_cases hpe : lv.path.isEmpty = true
        · simp only [hpe, if_true] at h
          split at h <;> simp at h
        · simp only [hpe, Bool.false_eq_true, if_false] at h ⊢
          have hne : lv.path ++ t ≠ [] := by
            cases hq : lv.path with
            | nil => simp [hq] at hpe
            | cons a as => simp
          have := ih (lv.path ++ t) hne h
          simpa [List.append_assoc] using this
      · simp only [hn, Bool.false_eq_true, if_false] at h ⊢
        have := ih (n :: t) (by simp) h
        simpa using this

/-! ## Selector resolution: the code against the specification -/

/-- the part of `getValue` after the scan -/
def finish (cfg : Config) (unknown : Option Any) (d : Any) :
    Except Unit (Sum Any (List GoString)) → GetValue
  | .error () => .error
  | .ok (.inl v) => .present v
  | .ok (.inr path) =>
    match get cfg path d with
    | .ok v => .present v
    | .error .unmodelled => .unmodelled
    | .error .panic => .error
    | .error .notFound =>
      match unknown with
      | some u => .present u
      | none => if evaluateNotPresent cfg path d then .absent else .error
    | .error _ => .error

theorem getValue_eq_finish (o : Opts) (d : Any) (path : List GoString) :
    getValue o d path = finish o.cfg o.unknown d (resolveLocals o.locals.reverse path) := by
  unfold getValue finish
  cases resolveLocals o.locals.reverse path with
  | error e => rfl
  | ok r => cases r <;> rfl

/-- the classification of `get (pre ++ p)` by the code (second walk for the parent test) is the
    classification of the single walk of `p` from the value `pre` resolves to -/
theorem finish_inr_eq_classify (cfg : Config) (unknown : Option Any) (d v : Any)
    (pre p : List GoString) (minParts : Nat) (hpre : get cfg pre d = .ok v)
    (hmin : p ≠ [] → (minParts ≤ p.length ↔ 2 ≤ (pre ++ p).length)) :
    finish cfg unknown d (.ok (.inr (pre ++ p))) =
      Spec.classify unknown minParts p (Spec.walk cfg p v) := by
  unfold finish
  simp only []
  rw [get_append, hpre]
  simp only []
  rw [get_eq_walk]
  cases hw : Spec.walk cfg p v with
  | ok r => rfl
  | error s =>
    have hp := walk_error_ne_nil cfg p v s hw
    simp only [Spec.classify]
    cases he : s.err <;> simp only []
    cases unknown with
    | some u => rfl
    | none =>
      simp only []
      rw [evaluateNotPresent_walk cfg pre p d v s hpre hw]
      have : decide (minParts ≤ p.length) = decide (2 ≤ (pre ++ p).length) := by
        rw [decide_eq_decide]; exact hmin hp
      rw [this]
      cases s.atLast <;> cases decide (2 ≤ (pre ++ p).length) <;> rfl

/-- the scan-order local variables of the code against the bindings of the specification:
    a key/index binding holds the same value; an alias binding's path resolves — through the
    OLDER bindings and then from the root — to the value the specification holds -/
inductive LocalsRel (cfg : Config) (d : Any) :
    List LocalVar → List (GoString × Spec.Bound) → Prop
  | nil : LocalsRel cfg d [] []
  | key (k : GoString) (v : Any) {ls vs} : LocalsRel cfg d ls vs → ¬ C06.Iterable v →
      LocalsRel cfg d ({ name := k, path := [], value := v } :: ls) ((k, .key v) :: vs)
  | elem (x : GoString) (path : List GoString) (val : Any) (full : List GoString) (v : Any)
      {ls vs} : LocalsRel cfg d ls vs → path ≠ [] →
      resolveLocals ls path = .ok (.inr full) → get cfg full d = .ok v →
      LocalsRel cfg d ({ name := x, path := path, value := val } :: ls) ((x, .elem v) :: vs)

theorem select_cons_ne (cfg : Config) (unknown : Option Any) (root : Any)
    (y : GoString) (bd : Spec.Bound) (vs : List (GoString × Spec.Bound)) (x : GoString)
    (rest : List GoString) (h : (x == y) = false) :
    Spec.select { cfg := cfg, unknown := unknown, root := root, vars := (y, bd) :: vs } (x :: rest)
      = Spec.select { cfg := cfg, unknown := unknown, root := root, vars := vs } (x :: rest) := by
  have hne : x ≠ y := by simpa using h
  have h' : (y == x) = false := by simpa using Ne.symm hne
  simp [Spec.select, Spec.Env.lookup, List.find?, h']

theorem select_cons_eq (cfg : Config) (unknown : Option Any) (root : Any)
    (y : GoString) (bd : Spec.Bound) (vs : List (GoString × Spec.Bound)) (rest : List GoString) :
    Spec.select { cfg := cfg, unknown := unknown, root := root, vars := (y, bd) :: vs } (y :: rest)
      = match bd with
        | .key v => if rest.isEmpty then .present v else .error
        | .elem v => Spec.classify unknown 1 rest (Spec.walk cfg rest v) := by
  simp only [Spec.select, Spec.Env.lookup, List.find?, beq_self_eq_true]
  cases bd <;> rfl

/-- selector resolution of the code = selector resolution of the specification -/
theorem finish_eq_select (cfg : Config) (unknown : Option Any) (d : Any)
    (ls : List LocalVar) (vs : List (GoString × Spec.Bound)) (hr : LocalsRel cfg d ls vs)
    (path : List GoString) :
    finish cfg unknown d (resolveLocals ls path) =
      Spec.select { cfg := cfg, unknown := unknown, root := d, vars := vs } path := by
  induction hr generalizing path with
  | nil =>
    cases path with
    | nil => rw [resolveLocals_nil_path]; simp [finish, Go.get, Spec.select]
    | cons x rest =>
      simp only [resolveLocals]
      have := finish_inr_eq_classify cfg unknown d d [] (x :: rest) 2 (by simp [Go.get])
        (by intro _; simp)
      simp only [List.nil_append] at this
      rw [this]
      simp [Spec.select, Spec.Env.lookup]
  | key k v hrel _ ih =>
    cases path with
    | nil => rw [resolveLocals_nil_path]; simp [finish, Go.get, Spec.select]
    | cons x rest =>
      by_cases hx : (x == k) = true
      · have hxk : x = k := by simpa using hx
        subst hxk
        rw [select_cons_eq]
        simp only [resolveLocals, beq_self_eq_true, if_true, List.isEmpty_nil]
        cases rest <;> simp [finish]
      · have hx' : (x == k) = false := by simpa using hx
        rw [select_cons_ne _ _ _ _ _ _ _ _ hx']
        simp only [resolveLocals, hx', Bool.false_eq_true, if_false]
        exact ih (x :: rest)
  | elem y apath val full v hrel hne hres hget ih =>
    cases path with
    | nil => rw [resolveLocals_nil_path]; simp [finish, Go.get, Spec.select]
    | cons x rest =>
      by_cases hx : (x == y) = true
      · have hxy : x = y := by simpa using hx
        subst hxy
        rw [select_cons_eq]
        have hpe : apath.isEmpty = false := by cases apath <;> simp_all
        simp only [resolveLocals, beq_self_eq_true, if_true, hpe, Bool.false_eq_true, if_false]
        obtain ⟨h1, hfull⟩ := resolveLocals_append_path _ apath full rest hne hres
        rw [h1]
        exact finish_inr_eq_classify cfg unknown d v full rest 1 hget (by
          intro hr
          have : 0 < full.length := List.length_pos_iff.mpr hfull
          have : 0 < rest.length := List.length_pos_iff.mpr hr
          simp only [List.length_append]; omega)
      · have hx' : (x == y) = false := by simpa using hx
        rw [select_cons_ne _ _ _ _ _ _ _ _ hx']
        simp only [resolveLocals, hx', Bool.false_eq_true, if_false]
        exact ih (x :: rest)

/-! ## Quantifiers -/

theorem fold_eq_foldColl (op : CollOp) (outs : List Out) :
    Spec.fold op outs = C06.foldColl op outs := by
  induction outs with
  | nil => rfl
  | cons x rest ih =>
    cases x with
    | val r => cases op <;> cases r <;> simp [Spec.fold, C06.foldColl, ih]
    | err _ => rfl
    | panic => rfl
    | unmodelled => rfl

/-- element `i` of a list, boxed; nil past the end -/
def elemAt (xs : List GoVal) (i : Nat) : Any :=
  match xs[i]? with
  | some x => x.toAny
  | none => none

theorem listItems_eq (xs : List GoVal) (k : Nat) :
    Spec.listItems xs k =
      (List.range xs.length).map fun i =>
        ({ pos := .int .int "" ((k + i : Nat) : Int), val := elemAt xs i } : Spec.Item) := by
  induction xs generalizing k with
  | nil => rfl
  | cons x xs ih =>
    simp only [Spec.listItems, List.length_cons, List.range_succ_eq_map, List.map_cons,
      List.map_map]
    congr 1
    rw [ih (k + 1)]
    apply List.map_congr_left
    intro i _
    simp only [Function.comp, elemAt, List.getElem?_cons_succ]
    congr 2
    omega

/-- key/index bindings never hold an iterable value, so a scan that ends in one cannot be the
    collection of a quantifier -/
theorem resolveLocals_inl_not_iterable (cfg : Config) (d : Any) (ls : List LocalVar)
    (vs : List (GoString × Spec.Bound)) (hr : LocalsRel cfg d ls vs) (p : List GoString)
    (v : Any) (h : resolveLocals ls p = .ok (.inl v)) : ¬ C06.Iterable v := by
  induction hr generalizing p with
  | nil => simp [resolveLocals] at h
  | key k w hrel hni ih =>
    cases p with
    | nil => simp [resolveLocals] at h
    | cons x rest =>
      simp only [resolveLocals, List.isEmpty_nil, if_true] at h
      split at h
      · split at h
        · cases h
        · simp only [Except.ok.injEq, Sum.inl.injEq] at h; subst h; exact hni
      · exact ih _ h
  | elem y apath val full w hrel hne hres hget ih =>
    cases p with
    | nil => simp [resolveLocals] at h
    | cons x rest =>
      have hpe : apath.isEmpty = false := by cases apath <;> simp_all
      simp only [resolveLocals, hpe, Bool.false_eq_true, if_false] at h
      split at h
      · exact ih _ h
      · exact ih _ h

/-- a selector that resolves to an iterable value (and the unknown value is not iterable) did so
    by a path walked from the root -/
theorem present_iterable_inv (cfg : Config) (unknown : Option Any) (d : Any) (ls : List LocalVar)
    (vs : List (GoString × Spec.Bound)) (hr : LocalsRel cfg d ls vs) (p : List GoString)
    (v : Any) (h : finish cfg unknown d (resolveLocals ls p) = .present v)
    (hit : C06.Iterable v) (hu : ∀ u, unknown = some u → ¬ C06.Iterable u) :
    ∃ full, resolveLocals ls p = .ok (.inr full) ∧ get cfg full d = .ok v := by
  cases hres : resolveLocals ls p with
  | error e => rw [hres] at h; simp [finish] at h
  | ok r =>
    rw [hres] at h
    cases r with
    | inl w =>
      simp only [finish, GetValue.present.injEq] at h
      subst h
      exact absurd hit (resolveLocals_inl_not_iterable cfg d ls vs hr p _ hres)
    | inr full =>
      refine ⟨full, rfl, ?_⟩
      simp only [finish] at h
      cases hg : get cfg full d with
      | ok w => rw [hg] at h; simp only [GetValue.present.injEq] at h; rw [h]
      | error e =>
        rw [hg] at h
        cases e <;> simp only [] at h <;> try cases h
        cases hun : unknown with
        | none => rw [hun] at h; simp only [] at h; split at h <;> cases h
        | some u =>
          rw [hun] at h
          simp only [GetValue.present.injEq] at h
          subst h
          exact absurd hit (hu u hun)

/-- the hooks under which the element a quantifier aliases is the element itself -/
def plainHook (h : Hook) : Prop := h = .off ∨ h = .identity

theorem applyHook_plain (cfg : Config) (hh : plainHook cfg.hook) (x : GoVal) :
    getStep.applyHook cfg (.ok (some x)) = .ok (some x) := by
  unfold getStep.applyHook
  rcases hh with h | h <;> simp [h, Hook.apply]

theorem natToDec_isEmpty (i : Nat) : (GoString.natToDec i).isEmpty = false := by
  have := @Nat.toDigits_ne_nil i 10
  cases h : Nat.toDigits 10 i with
  | nil => exact absurd h this
  | cons c cs => simp [GoString.natToDec, h]

theorem getSlice_natToDec (xs : List GoVal) (i : Nat) (hi : i < xs.length) (h63 : i < 2 ^ 63) :
    getSlice (GoString.natToDec i) xs = .ok (some xs[i]) := by
  unfold getSlice
  simp only [natToDec_isEmpty, Bool.false_eq_true, if_false,
    IndexRoundTrip.parseInt_natToDec i h63]
  have h1 : ¬ ((i : Int) < 0) := by omega
  have h2 : ¬ ((i : Int) ≥ (xs.length : Int)) := by omega
  simp [h1, h2, hi]

/-- selecting the decimal index `i` in a list value yields element `i`, boxed -/
theorem get_index (cfg : Config) (hh : plainHook cfg.hook) (v : Any) (xs : List GoVal)
    (hl : C06.IsList v xs) (i : Nat) (hi : i < xs.length) (h63 : i < 2 ^ 63) :
    get cfg [GoString.natToDec i] v = .ok (elemAt xs i) := by
  rw [get_cons]
  have hstep : getStep cfg (GoString.natToDec i) (valueOf v) = .ok (some xs[i]) := by
    rcases hl with ⟨n, e, nl, rfl⟩ | ⟨e, rfl⟩
    · simp only [getStep, valueOf, unwrapForStep, unwrapIfaceV, unwrapPtrV,
        getSlice_natToDec xs i hi h63]
      exact applyHook_plain cfg hh _
    · simp only [getStep, valueOf, unwrapForStep, unwrapIfaceV, unwrapPtrV,
        getSlice_natToDec xs i hi h63]
      exact applyHook_plain cfg hh _
  rw [hstep]
  simp [Go.get, elemAt, hi]

/-- selecting the key `k` in a string-keyed map yields the entry the specification reads -/
theorem get_key (cfg : Config) (hh : plainHook cfg.hook) (n : String) (vt : GoType) (nl : Bool)
    (es : List (GoVal × GoVal)) (k : GoString)
    (hfound : (es.find? fun e => fkeyEq e.1 (.str "" k)).isSome = true) :
    get cfg [k] (some (.map n GoType.stringT vt nl es)) = .ok (Spec.entry es k) := by
  rw [get_cons]
  cases hf : es.find? (fun e => fkeyEq e.1 (.str "" k)) with
  | none => rw [hf] at hfound; cases hfound
  | some e =>
    obtain ⟨ek, ev⟩ := e
    have hstep : getStep cfg k (valueOf (some (.map n GoType.stringT vt nl es))) =
        .ok (some ev) := by
      simp only [getStep, valueOf, unwrapForStep, unwrapIfaceV, unwrapPtrV, getMap, coerceKey,
        GoType.stringT, hf]
      exact applyHook_plain cfg hh _
    rw [hstep]
    simp [Go.get, Spec.entry, hf]

/-- in a well-formed string-keyed map every key that `sortKeys` lists is found by `Get` -/
theorem key_found (n : String) (vt : GoType) (nl : Bool) (es : List (GoVal × GoVal))
    (hwf : Any.wf (some (.map n GoType.stringT vt nl es)) = true) (k : GoString)
    (hk : k ∈ sortKeys (es.map fun e => strKey e.1)) :
    (es.find? fun e => fkeyEq e.1 (.str "" k)).isSome = true := by
  have hk' : k ∈ es.map fun e => strKey e.1 := by
    unfold sortKeys at hk
    exact (List.mergeSort_perm _ _).mem_iff.mp hk
  obtain ⟨e, he, hke⟩ := List.mem_map.mp hk'
  have hent : wfEntries GoType.stringT vt es = true := by
    simp only [Any.wf, GoVal.wf, Bool.and_eq_true] at hwf
    exact hwf.2.1
  have hty := (Total.wfEntries_mem hent he)
  rw [List.find?_isSome]
  refine ⟨e, he, ?_⟩
  have h1 : e.1.typeOf = GoType.stringT := by
    have := hty.1
    simpa using this
  have hwf1 := hty.2.1
  cases hk1 : e.1 with
  | str nm str =>
    rw [hk1] at h1 hke
    simp only [GoVal.typeOf, GoType.stringT, GoType.basic.injEq, true_and] at h1
    subst h1
    simp only [strKey] at hke
    subst hke
    simp [fkeyEq, keyEq, unboxKey, keyEqScalar, keyEqV]
  | int k nm v =>
    rw [hk1] at h1 hwf1
    simp only [GoVal.typeOf, GoType.stringT, GoType.basic.injEq] at h1
    simp [isNEIfaceKey, GoVal.wf, h1.1, Kind.isInt] at hwf1
  | uint k nm v =>
    rw [hk1] at h1 hwf1
    simp only [GoVal.typeOf, GoType.stringT, GoType.basic.injEq] at h1
    simp [isNEIfaceKey, GoVal.wf, h1.1, Kind.isUint] at hwf1
  | float k nm v =>
    rw [hk1] at h1 hwf1
    simp only [GoVal.typeOf, GoType.stringT, GoType.basic.injEq] at h1
    simp [isNEIfaceKey, GoVal.wf, h1.1] at hwf1
  | complex k nm =>
    rw [hk1] at h1 hwf1
    simp only [GoVal.typeOf, GoType.stringT, GoType.basic.injEq] at h1
    simp [isNEIfaceKey, GoVal.wf, h1.1] at hwf1
  | bool nm b => rw [hk1] at h1; simp [GoVal.typeOf, GoType.stringT] at h1
  | ptr el v => rw [hk1] at h1; simp [GoVal.typeOf, GoType.stringT] at h1
  | slice nm el nl xs => rw [hk1] at h1; simp [GoVal.typeOf, GoType.stringT] at h1
  | array el xs => rw [hk1] at h1; simp [GoVal.typeOf, GoType.stringT] at h1
  | map nm kt vt nl es => rw [hk1] at h1; simp [GoVal.typeOf, GoType.stringT] at h1
  | struct nm fs => rw [hk1] at h1; simp [GoVal.typeOf, GoType.stringT] at h1
  | iface v => rw [hk1] at h1; simp [GoVal.typeOf, GoType.stringT] at h1
  | other k nm nl => rw [hk1] at h1; simp [GoVal.typeOf, GoType.stringT] at h1

/-! ## A sufficient condition for `short`: a bound on the size of the datum

  Under a plain hook `Get` only ever returns sub-values, so a bound on the number of nodes of the
  datum bounds the length of every list a selector can reach. -/

def rvSize : RV → Nat
  | none => 0
  | some v => v.size

theorem size_pos (v : GoVal) : 0 < v.size := by
  cases v with
  | ptr e x => cases x <;> simp [GoVal.size]
  | iface x => cases x <;> simp [GoVal.size]
  | _ => simp [GoVal.size]

theorem sizeList_mem {xs : List GoVal} {x : GoVal} (h : x ∈ xs) : x.size ≤ sizeList xs := by
  induction xs with
  | nil => cases h
  | cons y ys ih =>
    simp only [sizeList]
    rcases List.mem_cons.mp h with rfl | h
    · omega
    · have := ih h; omega

theorem length_le_sizeList (xs : List GoVal) : xs.length ≤ sizeList xs := by
  induction xs with
  | nil => simp [sizeList]
  | cons y ys ih => have := size_pos y; simp only [sizeList, List.length_cons]; omega

theorem sizeEntries_mem {es : List (GoVal × GoVal)} {e : GoVal × GoVal} (h : e ∈ es) :
    e.2.size ≤ sizeEntries es := by
  induction es with
  | nil => cases h
  | cons y ys ih =>
    obtain ⟨k, v⟩ := y
    simp only [sizeEntries]
    rcases List.mem_cons.mp h with rfl | h
    · simp only; omega
    · have := ih h; omega

theorem sizeFields_mem {fs : List (Field × GoVal)} {e : Field × GoVal} (h : e ∈ fs) :
    e.2.size ≤ sizeFields fs := by
  induction fs with
  | nil => cases h
  | cons y ys ih =>
    obtain ⟨k, v⟩ := y
    simp only [sizeFields]
    rcases List.mem_cons.mp h with rfl | h
    · simp only; omega
    · have := ih h; omega

theorem unwrapIfaceV_size (v w : GoVal) (hs : unwrapIfaceV v = some w) : w.size ≤ v.size := by
  fun_induction unwrapIfaceV v with
  | case1 v ih => have := ih hs; simp only [GoVal.size]; omega
  | case2 => simp at hs
  | case3 v h1 h2 => simp at hs; subst hs; exact Nat.le_refl _

theorem unwrapPtrV_size (v w : GoVal) (hs : unwrapPtrV v = some w) : w.size ≤ v.size := by
  fun_induction unwrapPtrV v with
  | case1 e v ih => have := ih hs; simp only [GoVal.size]; omega
  | case2 => simp at hs
  | case3 v h1 h2 => simp at hs; subst hs; exact Nat.le_refl _

theorem unwrapForStep_size (cur : RV) (w : GoVal) (hs : unwrapForStep cur = some w) :
    w.size ≤ rvSize cur := by
  unfold unwrapForStep at hs
  split at hs
  · cases hs
  · rename_i v
    split at hs
    · cases hs
    · rename_i v' hv'
      have h1 := unwrapIfaceV_size v v' hv'
      have h2 := unwrapPtrV_size v' w hs
      simp only [rvSize]; omega

theorem getMap_size {part : GoString} {kt : GoType} {es : List (GoVal × GoVal)} {r : RV}
    (hg : getMap part kt es = .ok r) : rvSize r ≤ sizeEntries es := by
  unfold getMap at hg
  split at hg
  · cases hg
  · split at hg
    · rename_i k v hf
      cases hg
      exact sizeEntries_mem (e := (k, v)) (List.mem_of_find?_eq_some hf)
    · cases hg

theorem getSlice_size {part : GoString} {xs : List GoVal} {r : RV}
    (hg : getSlice part xs = .ok r) : rvSize r ≤ sizeList xs := by
  unfold getSlice at hg
  simp only [] at hg
  split at hg
  · cases hg
  · split at hg
    · cases hg
    · split at hg
      · rename_i v hv
        cases hg
        exact sizeList_mem (List.mem_of_getElem? hv)
      · cases hg

theorem structLoop_size (tagName part : GoString) (fs : List (Field × GoVal)) (ff : Option GoVal)
    (found ignored : Bool) (r : RV) (N : Nat) (h : sizeFields fs ≤ N) (hff : rvSize ff ≤ N)
    (hg : structLoop tagName part fs ff found ignored = .ok r) : rvSize r ≤ N := by
  induction fs generalizing ff found ignored with
  | nil =>
    unfold structLoop at hg
    split at hg
    · cases hg
    · split at hg
      · cases hg
      · cases hg; exact hff
  | cons e rest ih =>
    obtain ⟨f, v⟩ := e
    have hv : v.size ≤ N := by simp only [sizeFields] at h; omega
    have hrest : sizeFields rest ≤ N := by simp only [sizeFields] at h; omega
    unfold structLoop at hg
    simp only [] at hg
    split at hg
    · exact ih _ _ _ hrest hff hg
    · split at hg
      · split at hg
        · cases hg
        · split at hg
          · split at hg
            · exact ih _ _ _ hrest hff hg
            · exact ih _ _ _ hrest hff hg
          · split at hg
            · cases hg; exact hv
            · exact ih _ _ _ hrest hff hg
      · split at hg
        · exact ih _ _ _ hrest (show rvSize (some v) ≤ N from hv) hg
        · exact ih _ _ _ hrest hff hg

theorem applyHook_size (cfg : Config) (hh : plainHook cfg.hook) (r : Except GetErr RV) (r' : RV)
    (N : Nat) (h : ∀ x, r = .ok x → rvSize x ≤ N) (hg : getStep.applyHook cfg r = .ok r') :
    rvSize r' ≤ N := by
  unfold getStep.applyHook at hg
  split at hg
  · cases hg
  · cases hg
  · rename_i v
    have hv := h _ rfl
    rcases hh with hh | hh <;> simp only [hh, Hook.apply] at hg <;> cases hg <;> exact hv

theorem getStep_size (cfg : Config) (hh : plainHook cfg.hook) (part : GoString) (cur r : RV)
    (hg : getStep cfg part cur = .ok r) : rvSize r ≤ rvSize cur := by
  unfold getStep at hg
  split at hg
  · rename_i hu
    have := unwrapForStep_size _ _ hu
    simp only [GoVal.size] at this
    exact applyHook_size cfg hh _ _ _ (fun x hx => by have := getMap_size hx; omega) hg
  · rename_i hu
    have := unwrapForStep_size _ _ hu
    simp only [GoVal.size] at this
    exact applyHook_size cfg hh _ _ _ (fun x hx => by have := getSlice_size hx; omega) hg
  · rename_i hu
    have := unwrapForStep_size _ _ hu
    simp only [GoVal.size] at this
    exact applyHook_size cfg hh _ _ _ (fun x hx => by have := getSlice_size hx; omega) hg
  · rename_i hu
    have := unwrapForStep_size _ _ hu
    simp only [GoVal.size] at this
    exact applyHook_size cfg hh _ _ _ (fun x hx => by
      have := structLoop_size _ _ _ _ _ _ _ (sizeFields _) (Nat.le_refl _)
        (by simp [rvSize]) hx
      omega) hg
  · cases hg

theorem toAny_size (r : GoVal) : rvSize r.toAny ≤ r.size := by
  cases r <;> try exact Nat.le_refl _
  rename_i x
  cases x <;> simp [GoVal.toAny, rvSize, GoVal.size]

theorem get_size (cfg : Config) (hh : plainHook cfg.hook) (p : List GoString) (v r : Any)
    (hg : get cfg p v = .ok r) : rvSize r ≤ rvSize v := by
  induction p generalizing v with
  | nil => simp only [Go.get, Except.ok.injEq] at hg; subst hg; exact Nat.le_refl _
  | cons part rest ih =>
    rw [get_cons] at hg
    cases hs : getStep cfg part (valueOf v) with
    | error e => rw [hs] at hg; cases hg
    | ok cur =>
      rw [hs] at hg
      cases cur with
      | none => cases hg
      | some x =>
        have h1 := getStep_size cfg hh part _ _ hs
        have h2 := ih x.toAny hg
        have h3 := toAny_size x
        simp only [rvSize, valueOf] at h1 h2 h3 ⊢
        exact Nat.le_trans h2 (Nat.le_trans h3 h1)

/-- a datum with at most 2^63 nodes has no longer list anywhere a selector can reach -/
theorem short_of_size (cfg : Config) (hh : plainHook cfg.hook) (d : Any)
    (hsz : rvSize d ≤ 2 ^ 63) (p : List GoString) (v : Any) (xs : List GoVal)
    (hg : get cfg p d = .ok v) (hl : C06.IsList v xs) : xs.length ≤ 2 ^ 63 := by
  have h1 := get_size cfg hh p d v hg
  have h2 := length_le_sizeList xs
  rcases hl with ⟨n, e, nl, rfl⟩ | ⟨e, rfl⟩
  · have h3 : rvSize (some (GoVal.slice n e nl xs)) = sizeList xs + 1 := by
      simp [rvSize, GoVal.size]
    omega
  · have h3 : rvSize (some (GoVal.array e xs)) = sizeList xs + 1 := by
      simp [rvSize, GoVal.size]
    omega

end Bexpr.Proofs.SpecLemmas
