/-
  Helper lemmas about the instrumented engine (`Bexpr/Peg/EngineT.lean`) and the message text
  (`Bexpr/Peg/ErrorText.lean`); the property theorems are in `Props/C15Err.lean`.

    1. `failAt`: characterisation, the offset never decreases
    2. erasure: the first component of `evalT` is `eval`
    3. invariant: offsets stay within the input, the farthest offset is monotone
    4. `exceeded`/`fuelOut` propagate, hence budget- and fuel-independence of the tracked run
    5. `sortSet`, `dedupe`, `posAt`
-/
import Bexpr.Peg.ErrorText
import Proofs.Budget

namespace Bexpr.Proofs.EngineT
open Bexpr Bexpr.Peg
open Bexpr.Proofs.Budget (body eval_succ eval_zero)

/-! ## 1. `failAt` -/

theorem failAtBy_eq (tr : Track) (bang : GoString) (fail : Bool) (off : Nat)
    (want : Unit → GoString) : tr.failAtBy bang fail off want = tr.failAt bang fail off (want ()) := by
  unfold Track.failAtBy Track.failAt
  by_cases h1 : fail = tr.invert
  · by_cases h2 : off < tr.off <;> simp [h1, h2]
  · simp [h1]

/-- nothing is recorded when the outcome is not the one being tracked -/
theorem failAt_skip {tr : Track} {bang : GoString} {fail : Bool} {off : Nat} {want : GoString}
    (h : fail ≠ tr.invert) : tr.failAt bang fail off want = tr := by
  simp [Track.failAt, h]

/-- nothing is recorded before the farthest offset -/
theorem failAt_lt {tr : Track} {bang : GoString} {fail : Bool} {off : Nat} {want : GoString}
    (h : off < tr.off) : tr.failAt bang fail off want = tr := by
  simp [Track.failAt, h]

/-- at the farthest offset the text is appended (with the prefix when inverted) -/
theorem failAt_eq {tr : Track} {bang : GoString} {fail : Bool} {want : GoString}
    (h : fail = tr.invert) :
    tr.failAt bang fail tr.off want =
      { tr with expRev := (if tr.invert then bang ++ want else want) :: tr.expRev } := by
  simp [Track.failAt, h]

/-- beyond the farthest offset the position moves and the list restarts -/
theorem failAt_gt {tr : Track} {bang : GoString} {fail : Bool} {off : Nat} {want : GoString}
    (h : fail = tr.invert) (hgt : tr.off < off) :
    tr.failAt bang fail off want =
      { tr with off := off, expRev := [if tr.invert then bang ++ want else want] } := by
  have : ¬ off < tr.off := by omega
  simp [Track.failAt, h, this, hgt]

/-- in append order -/
theorem failAt_eq_expected {tr : Track} {bang : GoString} {fail : Bool} {want : GoString}
    (h : fail = tr.invert) :
    (tr.failAt bang fail tr.off want).expected =
      tr.expected ++ [if tr.invert then bang ++ want else want] := by
  rw [failAt_eq h]; simp [Track.expected]

theorem failAt_cases (tr : Track) (bang : GoString) (fail : Bool) (off : Nat) (want : GoString) :
    tr.failAt bang fail off want = tr ∨
    (tr.off ≤ off ∧ ∃ l, tr.failAt bang fail off want = { tr with off := off, expRev := l }) := by
  unfold Track.failAt
  by_cases h1 : fail = tr.invert
  · by_cases h2 : off < tr.off
    · left; simp [h1, h2]
    · right
      refine ⟨by omega, ?_⟩
      by_cases h3 : off > tr.off
      · exact ⟨[if tr.invert then bang ++ want else want], by simp [h1, h2, h3]⟩
      · have : off = tr.off := by omega
        subst this
        exact ⟨(if tr.invert then bang ++ want else want) :: tr.expRev, by simp [h1]⟩
  · left; simp [h1]

theorem failAt_off_ge (tr : Track) (bang : GoString) (fail : Bool) (off : Nat) (want : GoString) :
    tr.off ≤ (tr.failAt bang fail off want).off := by
  rcases failAt_cases tr bang fail off want with h | ⟨h, l, hl⟩
  · rw [h]; exact Nat.le_refl _
  · rw [hl]; exact h

theorem failAt_off_le (tr : Track) (bang : GoString) (fail : Bool) (off : Nat) (want : GoString)
    {n : Nat} (h1 : tr.off ≤ n) (h2 : off ≤ n) : (tr.failAt bang fail off want).off ≤ n := by
  rcases failAt_cases tr bang fail off want with h | ⟨_, l, hl⟩
  · rw [h]; exact h1
  · rw [hl]; exact h2

theorem failAt_invert (tr : Track) (bang : GoString) (fail : Bool) (off : Nat) (want : GoString) :
    (tr.failAt bang fail off want).invert = tr.invert := by
  rcases failAt_cases tr bang fail off want with h | ⟨_, l, hl⟩ <;> simp [*]

theorem failAt_panicRule (tr : Track) (bang : GoString) (fail : Bool) (off : Nat)
    (want : GoString) : (tr.failAt bang fail off want).panicRule = tr.panicRule := by
  rcases failAt_cases tr bang fail off want with h | ⟨_, l, hl⟩ <;> simp [*]

@[simp] theorem flip_off (tr : Track) : tr.flip.off = tr.off := rfl
@[simp] theorem panicIn_off (tr : Track) (r : String) : (tr.panicIn r).off = tr.off := rfl
@[simp] theorem flip_flip (tr : Track) : tr.flip.flip = tr := by
  cases tr; simp [Track.flip]

/-! ## 2. Erasure: instrumentation never changes the parse -/

theorem seqLoopT_fst (fT : PExpr → Frame → PState → Track → PResT)
    (f : PExpr → Frame → PState → PRes) (h : ∀ e fr st tr, (fT e fr st tr).1 = f e fr st) :
    ∀ es fr st acc tr, (seqLoopT fT es fr st acc tr).1 = seqLoop f es fr st acc := by
  intro es
  induction es with
  | nil => intro fr st acc tr; rfl
  | cons e es ih =>
    intro fr st acc tr
    simp only [seqLoopT, seqLoop]
    rw [h e fr st tr]
    cases f e fr st with
    | ok st' fr' v m => cases m <;> simp [ih]
    | _ => rfl

theorem choiceLoopT_fst (fT : PExpr → Frame → PState → Track → PResT)
    (f : PExpr → Frame → PState → PRes) (h : ∀ e fr st tr, (fT e fr st tr).1 = f e fr st) :
    ∀ as fr st tr, (choiceLoopT fT as fr st tr).1 = choiceLoop f as fr st := by
  intro as
  induction as with
  | nil => intro fr st tr; rfl
  | cons a as ih =>
    intro fr st tr
    simp only [choiceLoopT, choiceLoop]
    rw [h a [] st tr]
    cases f a [] st with
    | ok st' fr' v m => cases m <;> simp [ih]
    | _ => rfl

theorem starLoopT_fst (fT : Frame → PState → Track → PResT) (f : Frame → PState → PRes)
    (h : ∀ fr st tr, (fT fr st tr).1 = f fr st) :
    ∀ k fr st acc tr, (starLoopT fT k fr st acc tr).1 = starLoop f k fr st acc := by
  intro k
  induction k with
  | zero => intro fr st acc tr; rfl
  | succ k ih =>
    intro fr st acc tr
    simp only [starLoopT, starLoop]
    rw [h [] st tr]
    cases f [] st with
    | ok st' fr' v m => cases m <;> simp [ih]
    | _ => rfl

theorem bodyT_fst (nm : Names) (env : Env) (g : Grammar)
    (evT : String → PExpr → Frame → PState → Track → PResT)
    (ev : String → PExpr → Frame → PState → PRes)
    (h : ∀ rule e fr st tr, (evT rule e fr st tr).1 = ev rule e fr st)
    (k : Nat) (rule : String) (e : PExpr) (fr : Frame) (st : PState) (tr : Track) :
    (bodyT nm env g evT k rule e fr st tr).1 = body env g ev k rule e fr st := by
  cases e with
  | action name inner =>
    simp only [bodyT, body]
    rw [h]
    cases ev rule inner fr st with
    | ok st' fr' v m =>
      cases m
      · rfl
      · simp only []
        cases env.action name fr' (sliceFrom st.pt st'.pt) with
        | ret av err => cases err <;> rfl
        | panic msg => rfl
    | _ => rfl
  | andCode name =>
    simp only [bodyT, body]
    cases env.pred name fr with
    | ret b err => cases err <;> rfl
    | panic msg => rfl
  | notCode name =>
    simp only [bodyT, body]
    cases env.pred name fr with
    | ret b err => cases err <;> rfl
    | panic msg => rfl
  | andP inner =>
    simp only [bodyT, body]
    rw [h]
    cases ev rule inner [] st <;> rfl
  | notP inner =>
    simp only [bodyT, body]
    rw [h]
    cases ev rule inner [] st <;> rfl
  | any =>
    simp only [bodyT, body]
    split <;> rfl
  | charClass chars ranges classes ignoreCase inverted =>
    simp only [bodyT, body]
    split
    · rfl
    · split
      · rfl
      · cases classMatches env chars ranges classes st.pt.rn with
        | none => rfl
        | some hit => simp only []; split <;> rfl
  | choice alts =>
    simp only [bodyT, body]
    exact choiceLoopT_fst (evT rule) (ev rule) (h rule) alts fr st tr
  | labeled label inner =>
    simp only [bodyT, body]
    rw [h]
    cases ev rule inner [] st with
    | ok st' fr' v m => cases m <;> rfl
    | _ => rfl
  | lit val ignoreCase =>
    simp only [bodyT, body]
    split
    · rfl
    · cases hl : litLoop rule val st with
      | mk st' b => cases b <;> rfl
  | oneOrMore inner =>
    simp only [bodyT, body]
    rw [h]
    cases ev rule inner [] st with
    | ok st' fr' v m =>
      cases m
      · rfl
      · exact starLoopT_fst (evT rule inner) (ev rule inner) (h rule inner) k fr st' [v] _
    | _ => rfl
  | ruleRef name =>
    simp only [bodyT, body]
    split
    · rfl
    · cases lookupRule g name with
      | none => rfl
      | some r =>
        simp only []
        rw [h]
        cases ev r.shown r.expr [] st <;> rfl
  | seq es =>
    simp only [bodyT, body]
    rw [seqLoopT_fst (evT rule) (ev rule) (h rule)]
    cases seqLoop (ev rule) es fr st [] with
    | ok st' fr' v m => cases m <;> rfl
    | _ => rfl
  | zeroOrMore inner =>
    simp only [bodyT, body]
    exact starLoopT_fst (evT rule inner) (ev rule inner) (h rule inner) k fr st [] tr
  | zeroOrOne inner =>
    simp only [bodyT, body]
    rw [h]
    cases ev rule inner [] st with
    | ok st' fr' v m => cases m <;> rfl
    | _ => rfl
  | unsupported what => rfl

theorem evalT_zero (nm : Names) (env : Env) (g : Grammar) (max : Nat) (rule : String) (e : PExpr)
    (fr : Frame) (st : PState) (tr : Track) :
    evalT nm env g max 0 rule e fr st tr = (.fuelOut, tr) := rfl

theorem evalT_succ (nm : Names) (env : Env) (g : Grammar) (max fuel : Nat) (rule : String)
    (e : PExpr) (fr : Frame) (st0 : PState) (tr : Track) :
    evalT nm env g max (fuel + 1) rule e fr st0 tr =
      if st0.cnt + 1 > max then (.exceeded { st0 with cnt := st0.cnt + 1 }, tr.panicIn rule)
      else bodyT nm env g (evalT nm env g max fuel) fuel rule e fr
        { st0 with cnt := st0.cnt + 1 } tr := rfl

/-- **Erasure.**  For every names table, environment, grammar, budget, fuel, rule, node, frame,
    state and track: the first component of `evalT` is `Engine.eval` on the same arguments. -/
theorem evalT_fst (nm : Names) (env : Env) (g : Grammar) (max : Nat) :
    ∀ fuel rule e fr st tr,
      (evalT nm env g max fuel rule e fr st tr).1 = eval env g max fuel rule e fr st := by
  intro fuel
  induction fuel with
  | zero => intro rule e fr st tr; rw [evalT_zero, eval_zero]
  | succ fuel ih =>
    intro rule e fr st tr
    rw [evalT_succ, eval_succ]
    split
    · rfl
    · exact bodyT_fst nm env g _ _ ih fuel rule e fr _ tr

/-! ## 3. Invariant: everything stays within the input; the farthest offset never decreases -/

theorem decodeRune_width_le (s : GoString) : (Utf8.decodeRune s).2 ≤ s.length := by
  cases s with
  | nil => simp [Utf8.decodeRune]
  | cons b0 rest =>
    simp only [Utf8.decodeRune, Utf8.decodeErr]
    repeat' split
    all_goals simp only [List.length_cons]
    all_goals omega

/-- the position lies within an input of `n` bytes, and so does the rune it points at -/
def PtIn (n : Nat) (pt : Pt) : Prop := pt.off + pt.rest.length = n ∧ pt.w ≤ pt.rest.length

theorem PtIn.off_le {n : Nat} {pt : Pt} (h : PtIn n pt) : pt.off ≤ n := by
  unfold PtIn at h; omega

/-- the kinds of entries `parseExpr` itself logs (the others are added by `parse`) -/
def KindOk : ErrKind → Prop
  | .action _ => True
  | .invalidEncoding => True
  | .undefinedRule _ => True
  | _ => False

def ErrsIn (n : Nat) (errs : List PErr) : Prop := ∀ e ∈ errs, e.off ≤ n ∧ KindOk e.kind

def StIn (n : Nat) (st : PState) : Prop := PtIn n st.pt ∧ ErrsIn n st.errs

theorem ErrsIn.cons {n : Nat} {errs : List PErr} {e : PErr} (h : ErrsIn n errs) (ho : e.off ≤ n)
    (hk : KindOk e.kind) : ErrsIn n (e :: errs) := by
  intro x hx
  rcases List.mem_cons.mp hx with rfl | hx
  · exact ⟨ho, hk⟩
  · exact h x hx

theorem read_pt_eq (st : PState) (rule : String) :
    (st.read rule).pt = ⟨st.pt.rest.drop st.pt.w, st.pt.off + st.pt.w,
      (Utf8.decodeRune (st.pt.rest.drop st.pt.w)).1,
      (Utf8.decodeRune (st.pt.rest.drop st.pt.w)).2⟩ := by
  simp only [PState.read]
  split <;> rfl

theorem StIn.read {n : Nat} {st : PState} (h : StIn n st) (rule : String) :
    StIn n (st.read rule) := by
  obtain ⟨⟨h1, h2⟩, h3⟩ := h
  have hlen : (st.pt.rest.drop st.pt.w).length = st.pt.rest.length - st.pt.w := List.length_drop
  have hw := decodeRune_width_le (st.pt.rest.drop st.pt.w)
  have hpt : PtIn n (st.read rule).pt := by
    rw [read_pt_eq]
    refine ⟨?_, hw⟩
    simp only [hlen]; omega
  refine ⟨hpt, ?_⟩
  have hoff : st.pt.off + st.pt.w ≤ n := by omega
  simp only [PState.read]
  split
  · exact ErrsIn.cons h3 hoff trivial
  · exact h3

theorem StIn.addErr {n : Nat} {st : PState} (h : StIn n st) {off : Nat} (ho : off ≤ n)
    (rule : String) {k : ErrKind} (hk : KindOk k) : StIn n (st.addErr off rule k) :=
  ⟨h.1, ErrsIn.cons h.2 ho hk⟩

theorem StIn.restore {n : Nat} {st : PState} (h : StIn n st) {pt : Pt} (hp : PtIn n pt) :
    StIn n { st with pt := pt } := ⟨hp, h.2⟩

theorem StIn.tick {n : Nat} {st : PState} (h : StIn n st) (c : Nat) :
    StIn n { st with cnt := c } := h

/-- A state predicate `S` and an offset predicate `B` that every primitive step of the engine
    preserves.  Instances: "within an input of `n` bytes" (`closedIn`) and "anything"
    (`closedTrue`, which leaves only the monotonicity of the farthest offset). -/
structure Closed (S : PState → Prop) (B : Nat → Prop) : Prop where
  read : ∀ {st : PState}, S st → ∀ rule : String, S (st.read rule)
  addErr : ∀ {st st0 : PState}, S st → S st0 → ∀ (rule : String) {k : ErrKind}, KindOk k →
    S (st.addErr st0.pt.off rule k)
  restore : ∀ {st st0 : PState}, S st → S st0 → S { st with pt := st0.pt }
  tick : ∀ {st : PState}, S st → ∀ c : Nat, S { st with cnt := c }
  off : ∀ {st : PState}, S st → B st.pt.off

theorem closedIn (n : Nat) : Closed (StIn n) (· ≤ n) where
  read := fun h rule => h.read rule
  addErr := fun h h0 rule _ hk => h.addErr h0.1.off_le rule hk
  restore := fun h h0 => h.restore h0.1
  tick := fun h c => h.tick c
  off := fun h => h.1.off_le

theorem closedTrue : Closed (fun _ => True) (fun _ => True) where
  read := fun _ _ => trivial
  addErr := fun _ _ _ _ _ => trivial
  restore := fun _ _ => trivial
  tick := fun _ _ => trivial
  off := fun _ => trivial

section Invariant
variable {S : PState → Prop} {B : Nat → Prop}

theorem litLoop_S (C : Closed S B) (rule : String) :
    ∀ ws st, S st → S (litLoop rule ws st).1 := by
  intro ws
  induction ws with
  | nil => intro st h; exact h
  | cons w ws ih =>
    intro st h
    simp only [litLoop]
    split
    · exact h
    · exact ih _ (C.read h rule)

theorem failAt_B {tr : Track} (bang : GoString) (fail : Bool) {off : Nat} (want : GoString)
    (h1 : B tr.off) (h2 : B off) : B (tr.failAt bang fail off want).off := by
  rcases failAt_cases tr bang fail off want with h | ⟨_, l, hl⟩
  · rw [h]; exact h1
  · rw [hl]; exact h2

/-- the state carried by a result satisfies `S` -/
def ResIn (S : PState → Prop) : PRes → Prop
  | .ok st _ _ _ => S st
  | .exceeded st => S st
  | .abort st _ => S st
  | .fuelOut => True

/-- what a tracked result satisfies when started with farthest offset `o` on an input of `n`
    bytes: the farthest offset did not go down and satisfies `B`, the state satisfies `S` -/
def Good (S : PState → Prop) (B : Nat → Prop) (o : Nat) (r : PResT) : Prop :=
  o ≤ r.2.off ∧ B r.2.off ∧ ResIn S r.1

theorem Good.mono {o o' : Nat} {r : PResT} (h : Good S B o r) (ho : o' ≤ o) : Good S B o' r :=
  ⟨Nat.le_trans ho h.1, h.2.1, h.2.2⟩

theorem good_failAt {tr : Track} {st : PState} {fr : Frame} {v : PVal} {m : Bool}
    (htr : B tr.off) (hr : S st)
    (bang : GoString) (fail : Bool) {off : Nat} (ho : B off) (want : Unit → GoString) :
    Good S B tr.off (.ok st fr v m, tr.failAtBy bang fail off want) := by
  rw [failAtBy_eq]
  exact ⟨failAt_off_ge _ _ _ _ _, failAt_B _ _ _ htr ho, hr⟩

theorem seqLoopT_good (f : PExpr → Frame → PState → Track → PResT)
    (hf : ∀ e fr st tr, S st → B tr.off → Good S B tr.off (f e fr st tr)) :
    ∀ es fr st acc tr, S st → B tr.off → Good S B tr.off (seqLoopT f es fr st acc tr) := by
  intro es
  induction es with
  | nil => intro fr st acc tr hst htr; exact ⟨Nat.le_refl _, htr, hst⟩
  | cons e es ih =>
    intro fr st acc tr hst htr
    have hp := hf e fr st tr hst htr
    simp only [seqLoopT]
    generalize f e fr st tr = p at hp
    obtain ⟨r, t⟩ := p
    obtain ⟨h1, h2, h3⟩ := hp
    cases r with
    | ok st' fr' v m =>
      cases m
      · exact ⟨h1, h2, h3⟩
      · exact (ih fr' st' (v :: acc) t h3 h2).mono h1
    | _ => exact ⟨h1, h2, h3⟩

theorem choiceLoopT_good (f : PExpr → Frame → PState → Track → PResT)
    (hf : ∀ e fr st tr, S st → B tr.off → Good S B tr.off (f e fr st tr)) :
    ∀ as fr st tr, S st → B tr.off → Good S B tr.off (choiceLoopT f as fr st tr) := by
  intro as
  induction as with
  | nil => intro fr st tr hst htr; exact ⟨Nat.le_refl _, htr, hst⟩
  | cons a as ih =>
    intro fr st tr hst htr
    have hp := hf a [] st tr hst htr
    simp only [choiceLoopT]
    generalize f a [] st tr = p at hp
    obtain ⟨r, t⟩ := p
    obtain ⟨h1, h2, h3⟩ := hp
    cases r with
    | ok st' fr' v m =>
      cases m
      · exact (ih fr st' t h3 h2).mono h1
      · exact ⟨h1, h2, h3⟩
    | _ => exact ⟨h1, h2, h3⟩

theorem starLoopT_good (f : Frame → PState → Track → PResT)
    (hf : ∀ fr st tr, S st → B tr.off → Good S B tr.off (f fr st tr)) :
    ∀ k fr st acc tr, S st → B tr.off → Good S B tr.off (starLoopT f k fr st acc tr) := by
  intro k
  induction k with
  | zero => intro fr st acc tr hst htr; exact ⟨Nat.le_refl _, htr, trivial⟩
  | succ k ih =>
    intro fr st acc tr hst htr
    have hp := hf [] st tr hst htr
    simp only [starLoopT]
    generalize f [] st tr = p at hp
    obtain ⟨r, t⟩ := p
    obtain ⟨h1, h2, h3⟩ := hp
    cases r with
    | ok st' fr' v m =>
      cases m
      · exact ⟨h1, h2, h3⟩
      · exact (ih fr st' (v :: acc) t h3 h2).mono h1
    | _ => exact ⟨h1, h2, h3⟩

theorem bodyT_good (C : Closed S B) (nm : Names) (env : Env) (g : Grammar)
    (ev : String → PExpr → Frame → PState → Track → PResT)
    (hev : ∀ rule e fr st tr, S st → B tr.off → Good S B tr.off (ev rule e fr st tr))
    (k : Nat) (rule : String) (e : PExpr) (fr : Frame) (st : PState) (tr : Track)
    (hst : S st) (htr : B tr.off) :
    Good S B tr.off (bodyT nm env g ev k rule e fr st tr) := by
  have hoff : B st.pt.off := C.off hst
  cases e with
  | action name inner =>
    have hp := hev rule inner fr st tr hst htr
    simp only [bodyT]
    generalize ev rule inner fr st tr = p at hp
    obtain ⟨r, t⟩ := p
    obtain ⟨h1, h2, h3⟩ := hp
    cases r with
    | ok st' fr' v m =>
      cases m
      · exact ⟨h1, h2, h3⟩
      · simp only []
        cases env.action name fr' (sliceFrom st.pt st'.pt) with
        | ret av err =>
          cases err with
          | none => exact ⟨h1, h2, h3⟩
          | some msg => exact ⟨h1, h2, C.addErr h3 hst rule trivial⟩
        | panic msg => exact ⟨h1, h2, h3⟩
    | _ => exact ⟨h1, h2, h3⟩
  | andCode name =>
    simp only [bodyT]
    cases env.pred name fr with
    | ret b err =>
      cases err with
      | none => exact ⟨Nat.le_refl _, htr, hst⟩
      | some msg => exact ⟨Nat.le_refl _, htr, C.addErr hst hst rule trivial⟩
    | panic msg => exact ⟨Nat.le_refl _, htr, hst⟩
  | notCode name =>
    simp only [bodyT]
    cases env.pred name fr with
    | ret b err =>
      cases err with
      | none => exact ⟨Nat.le_refl _, htr, hst⟩
      | some msg => exact ⟨Nat.le_refl _, htr, C.addErr hst hst rule trivial⟩
    | panic msg => exact ⟨Nat.le_refl _, htr, hst⟩
  | andP inner =>
    have hp := hev rule inner [] st tr hst htr
    simp only [bodyT]
    generalize ev rule inner [] st tr = p at hp
    obtain ⟨r, t⟩ := p
    obtain ⟨h1, h2, h3⟩ := hp
    cases r with
    | ok st' fr' v m => exact ⟨h1, h2, C.restore h3 hst⟩
    | _ => exact ⟨h1, h2, h3⟩
  | notP inner =>
    have hp := hev rule inner [] st tr.flip hst htr
    simp only [bodyT]
    generalize ev rule inner [] st tr.flip = p at hp
    obtain ⟨r, t⟩ := p
    obtain ⟨h1, h2, h3⟩ := hp
    cases r with
    | ok st' fr' v m => exact ⟨h1, h2, C.restore h3 hst⟩
    | _ => exact ⟨h1, h2, h3⟩
  | any =>
    simp only [bodyT]
    split
    · exact good_failAt htr hst _ _ hoff _
    · exact good_failAt htr (C.read hst rule) _ _ hoff _
  | charClass chars ranges classes ignoreCase inverted =>
    simp only [bodyT]
    split
    · exact ⟨Nat.le_refl _, htr, hst⟩
    · split
      · exact good_failAt htr hst _ _ hoff _
      · cases classMatches env chars ranges classes st.pt.rn with
        | none => exact ⟨Nat.le_refl _, htr, hst⟩
        | some hit =>
          simp only []
          split
          · exact good_failAt htr (C.read hst rule) _ _ hoff _
          · exact good_failAt htr hst _ _ hoff _
  | choice alts =>
    simp only [bodyT]
    exact choiceLoopT_good (ev rule) (hev rule) alts fr st tr hst htr
  | labeled label inner =>
    have hp := hev rule inner [] st tr hst htr
    simp only [bodyT]
    generalize ev rule inner [] st tr = p at hp
    obtain ⟨r, t⟩ := p
    obtain ⟨h1, h2, h3⟩ := hp
    cases r with
    | ok st' fr' v m => cases m <;> exact ⟨h1, h2, h3⟩
    | _ => exact ⟨h1, h2, h3⟩
  | lit val ignoreCase =>
    simp only [bodyT]
    split
    · exact ⟨Nat.le_refl _, htr, hst⟩
    · have hl := litLoop_S C rule val st hst
      generalize litLoop rule val st = q at hl
      obtain ⟨st', b⟩ := q
      cases b
      · exact good_failAt htr (C.restore hl hst) _ _ hoff _
      · exact good_failAt htr hl _ _ hoff _
  | oneOrMore inner =>
    have hp := hev rule inner [] st tr hst htr
    simp only [bodyT]
    generalize ev rule inner [] st tr = p at hp
    obtain ⟨r, t⟩ := p
    obtain ⟨h1, h2, h3⟩ := hp
    cases r with
    | ok st' fr' v m =>
      cases m
      · exact ⟨h1, h2, h3⟩
      · exact (starLoopT_good (ev rule inner) (hev rule inner) k fr st' [v] t h3 h2).mono h1
    | _ => exact ⟨h1, h2, h3⟩
  | ruleRef name =>
    simp only [bodyT]
    split
    · exact ⟨Nat.le_refl _, htr, hst⟩
    · cases lookupRule g name with
      | none => exact ⟨Nat.le_refl _, htr, C.addErr hst hst rule trivial⟩
      | some r =>
        have hp := hev r.shown r.expr [] st tr hst htr
        simp only []
        generalize ev r.shown r.expr [] st tr = p at hp
        obtain ⟨r', t⟩ := p
        obtain ⟨h1, h2, h3⟩ := hp
        cases r' <;> exact ⟨h1, h2, h3⟩
  | seq es =>
    have hp := seqLoopT_good (ev rule) (hev rule) es fr st [] tr hst htr
    simp only [bodyT]
    generalize seqLoopT (ev rule) es fr st [] tr = p at hp
    obtain ⟨r, t⟩ := p
    obtain ⟨h1, h2, h3⟩ := hp
    cases r with
    | ok st' fr' v m =>
      cases m
      · exact ⟨h1, h2, C.restore h3 hst⟩
      · exact ⟨h1, h2, h3⟩
    | _ => exact ⟨h1, h2, h3⟩
  | zeroOrMore inner =>
    simp only [bodyT]
    exact starLoopT_good (ev rule inner) (hev rule inner) k fr st [] tr hst htr
  | zeroOrOne inner =>
    have hp := hev rule inner [] st tr hst htr
    simp only [bodyT]
    generalize ev rule inner [] st tr = p at hp
    obtain ⟨r, t⟩ := p
    obtain ⟨h1, h2, h3⟩ := hp
    cases r with
    | ok st' fr' v m => cases m <;> exact ⟨h1, h2, h3⟩
    | _ => exact ⟨h1, h2, h3⟩
  | unsupported what => exact ⟨Nat.le_refl _, htr, hst⟩

theorem evalT_good (C : Closed S B) (nm : Names) (env : Env) (g : Grammar) (max : Nat) :
    ∀ fuel rule e fr st tr, S st → B tr.off →
      Good S B tr.off (evalT nm env g max fuel rule e fr st tr) := by
  intro fuel
  induction fuel with
  | zero => intro rule e fr st tr hst htr; exact ⟨Nat.le_refl _, htr, trivial⟩
  | succ fuel ih =>
    intro rule e fr st tr hst htr
    rw [evalT_succ]
    split
    · exact ⟨Nat.le_refl _, htr, C.tick hst _⟩
    · exact bodyT_good C nm env g _ ih fuel rule e fr _ tr (C.tick hst _) htr

end Invariant

theorem initStateT_StIn (input : GoString) : StIn input.length (initStateT input) := by
  unfold initStateT
  apply StIn.read
  refine ⟨⟨?_, ?_⟩, ?_⟩
  · simp
  · simp
  · intro e he; simp at he

/-! ## 4. `exceeded` and `fuelOut` propagate: budget- and fuel-independence of the tracked run

  Every node kind and every loop hands an `exceeded` / `fuelOut` result of a sub-call upwards
  unchanged.  So if a whole call did NOT end that way, no sub-call did, and then a larger budget
  or more fuel takes exactly the same path — including everything the track records. -/

def Bad : PRes → Prop
  | .exceeded _ => True
  | .fuelOut => True
  | _ => False

theorem seqLoopT_congr (f f' : PExpr → Frame → PState → Track → PResT)
    (h : ∀ e fr st tr, ¬ Bad (f e fr st tr).1 → f' e fr st tr = f e fr st tr) :
    ∀ es fr st acc tr, ¬ Bad (seqLoopT f es fr st acc tr).1 →
      seqLoopT f' es fr st acc tr = seqLoopT f es fr st acc tr := by
  intro es
  induction es with
  | nil => intro fr st acc tr _; rfl
  | cons e es ih =>
    intro fr st acc tr hnb
    simp only [seqLoopT] at hnb ⊢
    have hf : ¬ Bad (f e fr st tr).1 := by
      intro hb; apply hnb
      generalize f e fr st tr = p at hb
      obtain ⟨r, t⟩ := p
      cases r <;> simp_all [Bad]
    rw [h e fr st tr hf]
    generalize f e fr st tr = p at hnb
    obtain ⟨r, t⟩ := p
    cases r with
    | ok st' fr' v m =>
      cases m
      · rfl
      · exact ih fr' st' (v :: acc) t hnb
    | _ => rfl

theorem choiceLoopT_congr (f f' : PExpr → Frame → PState → Track → PResT)
    (h : ∀ e fr st tr, ¬ Bad (f e fr st tr).1 → f' e fr st tr = f e fr st tr) :
    ∀ as fr st tr, ¬ Bad (choiceLoopT f as fr st tr).1 →
      choiceLoopT f' as fr st tr = choiceLoopT f as fr st tr := by
  intro as
  induction as with
  | nil => intro fr st tr _; rfl
  | cons a as ih =>
    intro fr st tr hnb
    simp only [choiceLoopT] at hnb ⊢
    have hf : ¬ Bad (f a [] st tr).1 := by
      intro hb; apply hnb
      generalize f a [] st tr = p at hb
      obtain ⟨r, t⟩ := p
      cases r <;> simp_all [Bad]
    rw [h a [] st tr hf]
    generalize f a [] st tr = p at hnb
    obtain ⟨r, t⟩ := p
    cases r with
    | ok st' fr' v m =>
      cases m
      · exact ih fr st' t hnb
      · rfl
    | _ => rfl

theorem starLoopT_congr (f f' : Frame → PState → Track → PResT)
    (h : ∀ fr st tr, ¬ Bad (f fr st tr).1 → f' fr st tr = f fr st tr) :
    ∀ k k' fr st acc tr, k ≤ k' → ¬ Bad (starLoopT f k fr st acc tr).1 →
      starLoopT f' k' fr st acc tr = starLoopT f k fr st acc tr := by
  intro k
  induction k with
  | zero => intro k' fr st acc tr _ hnb; exact absurd trivial hnb
  | succ k ih =>
    intro k' fr st acc tr hk hnb
    cases k' with
    | zero => omega
    | succ k' =>
      simp only [starLoopT] at hnb ⊢
      have hf : ¬ Bad (f [] st tr).1 := by
        intro hb; apply hnb
        generalize f [] st tr = p at hb
        obtain ⟨r, t⟩ := p
        cases r <;> simp_all [Bad]
      rw [h [] st tr hf]
      generalize f [] st tr = p at hnb
      obtain ⟨r, t⟩ := p
      cases r with
      | ok st' fr' v m =>
        cases m
        · rfl
        · exact ih k' fr st' (v :: acc) t (by omega) hnb
      | _ => rfl

theorem bodyT_congr (nm : Names) (env : Env) (g : Grammar)
    (ev ev' : String → PExpr → Frame → PState → Track → PResT)
    (h : ∀ rule e fr st tr, ¬ Bad (ev rule e fr st tr).1 → ev' rule e fr st tr = ev rule e fr st tr)
    (k k' : Nat) (hk : k ≤ k') (rule : String) (e : PExpr) (fr : Frame) (st : PState)
    (tr : Track) (hnb : ¬ Bad (bodyT nm env g ev k rule e fr st tr).1) :
    bodyT nm env g ev' k' rule e fr st tr = bodyT nm env g ev k rule e fr st tr := by
  cases e with
  | action name inner =>
    simp only [bodyT] at hnb ⊢
    have hf : ¬ Bad (ev rule inner fr st tr).1 := by
      intro hb; apply hnb
      generalize ev rule inner fr st tr = p at hb
      obtain ⟨r, t⟩ := p
      cases r <;> simp_all [Bad]
    rw [h _ _ _ _ _ hf]
  | andCode name => rfl
  | notCode name => rfl
  | andP inner =>
    simp only [bodyT] at hnb ⊢
    have hf : ¬ Bad (ev rule inner [] st tr).1 := by
      intro hb; apply hnb
      generalize ev rule inner [] st tr = p at hb
      obtain ⟨r, t⟩ := p
      cases r <;> simp_all [Bad]
    rw [h _ _ _ _ _ hf]
  | notP inner =>
    simp only [bodyT] at hnb ⊢
    have hf : ¬ Bad (ev rule inner [] st tr.flip).1 := by
      intro hb; apply hnb
      generalize ev rule inner [] st tr.flip = p at hb
      obtain ⟨r, t⟩ := p
      cases r <;> simp_all [Bad]
    rw [h _ _ _ _ _ hf]
  | any => rfl
  | charClass chars ranges classes ignoreCase inverted => rfl
  | choice alts =>
    simp only [bodyT] at hnb ⊢
    exact choiceLoopT_congr (ev rule) (ev' rule) (h rule) alts fr st tr hnb
  | labeled label inner =>
    simp only [bodyT] at hnb ⊢
    have hf : ¬ Bad (ev rule inner [] st tr).1 := by
      intro hb; apply hnb
      generalize ev rule inner [] st tr = p at hb
      obtain ⟨r, t⟩ := p
      cases r <;> simp_all [Bad]
    rw [h _ _ _ _ _ hf]
  | lit val ignoreCase => rfl
  | oneOrMore inner =>
    simp only [bodyT] at hnb ⊢
    have hf : ¬ Bad (ev rule inner [] st tr).1 := by
      intro hb; apply hnb
      generalize ev rule inner [] st tr = p at hb
      obtain ⟨r, t⟩ := p
      cases r <;> simp_all [Bad]
    rw [h _ _ _ _ _ hf]
    generalize ev rule inner [] st tr = p at hnb
    obtain ⟨r, t⟩ := p
    cases r with
    | ok st' fr' v m =>
      cases m
      · rfl
      · exact starLoopT_congr (ev rule inner) (ev' rule inner) (h rule inner) k k' fr st' [v] t hk hnb
    | _ => rfl
  | ruleRef name =>
    simp only [bodyT] at hnb ⊢
    split
    · rfl
    · rename_i hne
      simp only [hne] at hnb
      cases hl : lookupRule g name with
      | none => rfl
      | some r =>
        simp only [hl] at hnb ⊢
        have hf : ¬ Bad (ev r.shown r.expr [] st tr).1 := by
          intro hb; apply hnb
          generalize ev r.shown r.expr [] st tr = p at hb
          obtain ⟨r', t⟩ := p
          cases r' <;> simp_all [Bad]
        rw [h _ _ _ _ _ hf]
  | seq es =>
    simp only [bodyT] at hnb ⊢
    have hf : ¬ Bad (seqLoopT (ev rule) es fr st [] tr).1 := by
      intro hb; apply hnb
      generalize seqLoopT (ev rule) es fr st [] tr = p at hb
      obtain ⟨r, t⟩ := p
      cases r <;> simp_all [Bad]
    rw [seqLoopT_congr (ev rule) (ev' rule) (h rule) es fr st [] tr hf]
  | zeroOrMore inner =>
    simp only [bodyT] at hnb ⊢
    exact starLoopT_congr (ev rule inner) (ev' rule inner) (h rule inner) k k' fr st [] tr hk hnb
  | zeroOrOne inner =>
    simp only [bodyT] at hnb ⊢
    have hf : ¬ Bad (ev rule inner [] st tr).1 := by
      intro hb; apply hnb
      generalize ev rule inner [] st tr = p at hb
      obtain ⟨r, t⟩ := p
      cases r <;> simp_all [Bad]
    rw [h _ _ _ _ _ hf]
  | unsupported what => rfl

/-- A tracked call that ends neither in `exceeded` nor in `fuelOut` is reproduced exactly — result
    AND track — under every larger budget and every larger fuel. -/
theorem evalT_congr (nm : Names) (env : Env) (g : Grammar) (max max' : Nat) (hmax : max ≤ max') :
    ∀ fuel fuel' rule e fr st tr, fuel ≤ fuel' →
      ¬ Bad (evalT nm env g max fuel rule e fr st tr).1 →
      evalT nm env g max' fuel' rule e fr st tr = evalT nm env g max fuel rule e fr st tr := by
  intro fuel
  induction fuel with
  | zero => intro fuel' rule e fr st tr _ hnb; exact absurd trivial hnb
  | succ fuel ih =>
    intro fuel' rule e fr st tr hf hnb
    cases fuel' with
    | zero => omega
    | succ fuel' =>
      rw [evalT_succ] at hnb ⊢
      rw [evalT_succ]
      by_cases hc : st.cnt + 1 > max
      · rw [if_pos hc] at hnb; exact absurd trivial hnb
      · rw [if_neg hc] at hnb ⊢
        rw [if_neg (by omega)]
        exact bodyT_congr nm env g _ _
          (fun rule e fr st tr hb => ih fuel' rule e fr st tr (by omega) hb)
          fuel fuel' (by omega) rule e fr _ tr hnb

/-! ## 5. The expected list, `dedupe`, positions -/

theorem bytesLt_cons (a b : UInt8) (as bs : GoString) :
    bytesLt (a :: as) (b :: bs) = true ↔ a.toNat < b.toNat ∨ (a = b ∧ bytesLt as bs = true) := by
  simp [bytesLt, UInt8.lt_iff_toNat_lt]

theorem bytesLt_irrefl : ∀ s : GoString, bytesLt s s = false
  | [] => rfl
  | a :: as => by
    have := bytesLt_irrefl as
    cases h : bytesLt (a :: as) (a :: as) with
    | false => rfl
    | true =>
      rw [bytesLt_cons] at h
      rcases h with h | ⟨_, h⟩
      · omega
      · rw [this] at h; exact absurd h (by decide)

theorem bytesLt_trans : ∀ a b c : GoString, bytesLt a b = true → bytesLt b c = true →
    bytesLt a c = true
  | [], [], _, h, _ => by simp [bytesLt] at h
  | [], _ :: _, [], _, h => by simp [bytesLt] at h
  | [], _ :: _, _ :: _, _, _ => by simp [bytesLt]
  | _ :: _, [], _, h, _ => by simp [bytesLt] at h
  | _ :: _, _ :: _, [], _, h => by simp [bytesLt] at h
  | a :: as, b :: bs, c :: cs, h1, h2 => by
    rw [bytesLt_cons] at h1 h2 ⊢
    rcases h1 with h1 | ⟨rfl, h1⟩ <;> rcases h2 with h2 | ⟨rfl, h2⟩
    · left; omega
    · left; exact h1
    · left; exact h2
    · right; exact ⟨rfl, bytesLt_trans as bs cs h1 h2⟩

theorem bytesLt_total : ∀ a b : GoString, bytesLt a b = false → a ≠ b → bytesLt b a = true
  | [], [], _, h => absurd rfl h
  | [], _ :: _, h, _ => by simp [bytesLt] at h
  | _ :: _, [], _, _ => by simp [bytesLt]
  | a :: as, b :: bs, h, hne => by
    have h' : ¬ (a.toNat < b.toNat ∨ (a = b ∧ bytesLt as bs = true)) := by
      rw [← bytesLt_cons]; simp [h]
    rw [bytesLt_cons]
    by_cases hab : a = b
    · subst hab
      right
      refine ⟨rfl, bytesLt_total as bs ?_ ?_⟩
      · cases hb : bytesLt as bs with
        | false => rfl
        | true => exact absurd (Or.inr ⟨rfl, hb⟩) h'
      · intro h2; exact hne (by rw [h2])
    · left
      have : a.toNat ≠ b.toNat := fun h => hab (UInt8.toNat_inj.mp h)
      have : ¬ a.toNat < b.toNat := fun h => h' (Or.inl h)
      omega

/-- strictly increasing in Go's string order -/
def Sorted (l : List GoString) : Prop := l.Pairwise (fun a b => bytesLt a b = true)

theorem Sorted.nodup {l : List GoString} (h : Sorted l) : l.Nodup := by
  unfold Sorted at h
  unfold List.Nodup
  refine h.imp ?_
  intro a b hab heq
  subst heq
  rw [bytesLt_irrefl] at hab
  exact absurd hab (by decide)

theorem mem_insertSorted (s : GoString) : ∀ (l : List GoString) (x : GoString),
    x ∈ insertSorted s l ↔ x = s ∨ x ∈ l := by
  intro l
  induction l with
  | nil => intro x; simp [insertSorted]
  | cons t ts ih =>
    intro x
    simp only [insertSorted]
    split
    · simp
    · split
      · rename_i _ heq
        have : s = t := by simpa using heq
        subst this
        simp
      · simp only [List.mem_cons, ih]
        constructor
        · rintro (h | h | h)
          · exact Or.inr (Or.inl h)
          · exact Or.inl h
          · exact Or.inr (Or.inr h)
        · rintro (h | h | h)
          · exact Or.inr (Or.inl h)
          · exact Or.inl h
          · exact Or.inr (Or.inr h)

theorem sorted_insertSorted (s : GoString) : ∀ l : List GoString, Sorted l →
    Sorted (insertSorted s l) := by
  intro l
  induction l with
  | nil => intro _; simp [insertSorted, Sorted]
  | cons t ts ih =>
    intro h
    have ht : ∀ x ∈ ts, bytesLt t x = true := (List.pairwise_cons.mp h).1
    have hts : Sorted ts := (List.pairwise_cons.mp h).2
    simp only [insertSorted]
    split
    · rename_i hlt
      refine List.pairwise_cons.mpr ⟨?_, h⟩
      intro x hx
      rcases List.mem_cons.mp hx with rfl | hx
      · exact hlt
      · exact bytesLt_trans _ _ _ hlt (ht x hx)
    · split
      · exact h
      · rename_i hnlt hne
        have hne' : s ≠ t := by simpa using hne
        have hts' : bytesLt t s = true :=
          bytesLt_total s t (by simpa using hnlt) hne'
        refine List.pairwise_cons.mpr ⟨?_, ih hts⟩
        intro x hx
        rcases (mem_insertSorted s ts x).mp hx with rfl | hx
        · exact hts'
        · exact ht x hx

theorem sortSet_aux (xs : List GoString) : ∀ acc : List GoString, Sorted acc →
    Sorted (xs.foldl (fun acc x => insertSorted x acc) acc) ∧
    ∀ x, x ∈ xs.foldl (fun acc x => insertSorted x acc) acc ↔ x ∈ acc ∨ x ∈ xs := by
  induction xs with
  | nil => intro acc h; simp [h]
  | cons y ys ih =>
    intro acc h
    simp only [List.foldl_cons]
    obtain ⟨h1, h2⟩ := ih (insertSorted y acc) (sorted_insertSorted y acc h)
    refine ⟨h1, ?_⟩
    intro x
    rw [h2, mem_insertSorted]
    simp only [List.mem_cons]
    constructor
    · rintro ((h | h) | h)
      · exact Or.inr (Or.inl h)
      · exact Or.inl h
      · exact Or.inr (Or.inr h)
    · rintro (h | h | h)
      · exact Or.inl (Or.inr h)
      · exact Or.inl (Or.inl h)
      · exact Or.inr h

theorem sortSet_sorted (xs : List GoString) : Sorted (sortSet xs) :=
  (sortSet_aux xs [] (by simp [Sorted])).1

theorem mem_sortSet (xs : List GoString) (x : GoString) : x ∈ sortSet xs ↔ x ∈ xs := by
  have := (sortSet_aux xs [] (by simp [Sorted])).2 x
  simpa [sortSet] using this

/-! ### `dedupe` -/

theorem mem_dedupeAux : ∀ (xs seen : List GoString) (x : GoString),
    x ∈ dedupeAux seen xs ↔ x ∈ xs ∧ x ∉ seen := by
  intro xs
  induction xs with
  | nil => intro seen x; simp [dedupeAux]
  | cons y ys ih =>
    intro seen x
    simp only [dedupeAux]
    split
    · rename_i hc
      have hy : y ∈ seen := by simpa using hc
      rw [ih]
      simp only [List.mem_cons]
      constructor
      · rintro ⟨h1, h2⟩; exact ⟨Or.inr h1, h2⟩
      · rintro ⟨h1 | h1, h2⟩
        · subst h1; exact absurd hy h2
        · exact ⟨h1, h2⟩
    · rename_i hc
      have hy : y ∉ seen := by simpa using hc
      simp only [List.mem_cons, ih]
      constructor
      · rintro (h | ⟨h1, h2⟩)
        · subst h; exact ⟨Or.inl rfl, hy⟩
        · exact ⟨Or.inr h1, fun h => h2 (Or.inr h)⟩
      · rintro ⟨h1 | h1, h2⟩
        · exact Or.inl h1
        · by_cases hxy : x = y
          · exact Or.inl hxy
          · exact Or.inr ⟨h1, fun h => by rcases h with h | h; exact hxy h; exact h2 h⟩

theorem dedupeAux_nodup : ∀ (xs seen : List GoString), (dedupeAux seen xs).Nodup := by
  intro xs
  induction xs with
  | nil => intro seen; simp [dedupeAux]
  | cons y ys ih =>
    intro seen
    simp only [dedupeAux]
    split
    · exact ih seen
    · refine List.nodup_cons.mpr ⟨?_, ih _⟩
      intro hm
      have := ((mem_dedupeAux ys (y :: seen) y).mp hm).2
      exact this (List.mem_cons_self)

theorem dedupeAux_sublist : ∀ (xs seen : List GoString), (dedupeAux seen xs).Sublist xs := by
  intro xs
  induction xs with
  | nil => intro seen; simp [dedupeAux]
  | cons y ys ih =>
    intro seen
    simp only [dedupeAux]
    split
    · exact (ih seen).cons y
    · exact (ih _).cons_cons y

/-- `dedupeAux` looks at `seen` only through membership -/
theorem dedupeAux_congr : ∀ (xs s1 s2 : List GoString), (∀ z, z ∈ s1 ↔ z ∈ s2) →
    dedupeAux s1 xs = dedupeAux s2 xs := by
  intro xs
  induction xs with
  | nil => intro s1 s2 _; rfl
  | cons y ys ih =>
    intro s1 s2 h
    simp only [dedupeAux]
    have hc : s1.contains y = s2.contains y := by
      cases h1 : s1.contains y <;> cases h2 : s2.contains y <;> simp_all
    rw [hc]
    split
    · exact ih s1 s2 h
    · rw [ih (y :: s1) (y :: s2) (by intro z; simp [h z])]

/-- what was seen before is filtered out -/
theorem dedupeAux_cons_seen : ∀ (xs seen : List GoString) (a : GoString),
    dedupeAux (a :: seen) xs = (dedupeAux seen xs).filter (· != a) := by
  intro xs
  induction xs with
  | nil => intro seen a; simp [dedupeAux]
  | cons y ys ih =>
    intro seen a
    simp only [dedupeAux]
    by_cases hya : y = a
    · subst hya
      have h1 : (y :: seen).contains y = true := by simp
      rw [h1]; simp only [if_true]
      by_cases hs : seen.contains y = true
      · rw [hs]; simp only [if_true]; exact ih seen y
      · have hs' : seen.contains y = false := by simpa using hs
        rw [hs']; simp only [Bool.false_eq_true, if_false]
        rw [List.filter_cons]
        simp only [bne_self_eq_false, Bool.false_eq_true, if_false]
        rw [← ih (y :: seen) y]
        exact dedupeAux_congr ys _ _ (by intro z; simp)
    · have h1 : (a :: seen).contains y = seen.contains y := by
        simp [hya]
      rw [h1]
      by_cases hs : seen.contains y = true
      · rw [hs]; simp only [if_true]; exact ih seen a
      · have hs' : seen.contains y = false := by simpa using hs
        rw [hs']; simp only [Bool.false_eq_true, if_false]
        rw [List.filter_cons]
        have : (y != a) = true := by simpa using hya
        rw [this]; simp only [if_true]
        rw [← ih (y :: seen) a]
        congr 1
        exact dedupeAux_congr ys _ _ (by
          intro z; simp only [List.mem_cons]
          constructor
          · rintro (h | h | h)
            · exact Or.inr (Or.inl h)
            · exact Or.inl h
            · exact Or.inr (Or.inr h)
          · rintro (h | h | h)
            · exact Or.inr (Or.inl h)
            · exact Or.inl h
            · exact Or.inr (Or.inr h))

/-! ### positions -/

/-- what one `read()` does to `(line, col)`, by the rune it makes current -/
def stepRune (lc : Nat × Nat) (rn : Nat) : Nat × Nat :=
  if rn == 10 then (lc.1 + 1, 0) else (lc.1, lc.2 + 1)

theorem posStep_eq (rest : GoString) (lc : Nat × Nat) :
    posStep rest lc = stepRune lc (Utf8.decodeRune rest).1 := rfl

/-- `posScan` is the fold of `stepRune` over the runes `readRunes` lists -/
theorem posScan_eq_foldl : ∀ (fuel : Nat) (rest : GoString) (cur : Nat) (lc : Nat × Nat)
    (target : Nat),
    posScan fuel rest cur lc target = (readRunes fuel rest cur target).foldl stepRune lc := by
  intro fuel
  induction fuel with
  | zero => intro rest cur lc target; rfl
  | succ fuel ih =>
    intro rest cur lc target
    simp only [posScan, readRunes]
    split
    · simp [posStep_eq]
    · rw [ih]; simp [posStep_eq]

theorem stepRune_line_ge (lc : Nat × Nat) (rn : Nat) : lc.1 ≤ (stepRune lc rn).1 := by
  unfold stepRune; split <;> simp

theorem foldl_stepRune_line_ge : ∀ (rs : List Nat) (lc : Nat × Nat),
    lc.1 ≤ (rs.foldl stepRune lc).1 := by
  intro rs
  induction rs with
  | nil => intro lc; exact Nat.le_refl _
  | cons r rs ih =>
    intro lc
    exact Nat.le_trans (stepRune_line_ge lc r) (ih _)

/-- the line of a fold: start line plus the number of newline runes -/
theorem foldl_stepRune_line : ∀ (rs : List Nat) (lc : Nat × Nat),
    (rs.foldl stepRune lc).1 = lc.1 + rs.count 10 := by
  intro rs
  induction rs with
  | nil => intro lc; simp
  | cons r rs ih =>
    intro lc
    simp only [List.foldl_cons, ih, List.count_cons]
    unfold stepRune
    by_cases h : r = 10
    · subst h; simp; omega
    · have : (r == 10) = false := by simpa using h
      simp [this]

/-- the column of a fold over runes without a newline: start column plus their number -/
theorem foldl_stepRune_col_noNL : ∀ (rs : List Nat) (lc : Nat × Nat), 10 ∉ rs →
    (rs.foldl stepRune lc).2 = lc.2 + rs.length := by
  intro rs
  induction rs with
  | nil => intro lc _; simp
  | cons r rs ih =>
    intro lc h
    have hr : r ≠ 10 := fun h' => h (by subst h'; exact List.mem_cons_self)
    have hrs : 10 ∉ rs := fun h' => h (List.mem_cons_of_mem _ h')
    have hb : (r == 10) = false := by simpa using hr
    simp only [List.foldl_cons, ih _ hrs, stepRune, hb, List.length_cons]
    simp; omega

/-- the column of a fold: the number of runes after the last newline -/
theorem foldl_stepRune_col_afterNL (pre post : List Nat) (lc : Nat × Nat) (h : 10 ∉ post) :
    ((pre ++ 10 :: post).foldl stepRune lc).2 = post.length := by
  rw [List.foldl_append, List.foldl_cons, foldl_stepRune_col_noNL post _ h]
  simp [stepRune]

theorem posScan_line_ge : ∀ (fuel : Nat) (rest : GoString) (cur : Nat) (lc : Nat × Nat)
    (target : Nat), lc.1 ≤ (posScan fuel rest cur lc target).1 := by
  intro fuel rest cur lc target
  rw [posScan_eq_foldl]
  exact foldl_stepRune_line_ge _ _

/-- a later target offset never gives a smaller line -/
theorem posScan_line_mono : ∀ (fuel : Nat) (rest : GoString) (cur : Nat) (lc : Nat × Nat)
    (t t' : Nat), t ≤ t' →
    (posScan fuel rest cur lc t).1 ≤ (posScan fuel rest cur lc t').1 := by
  intro fuel
  induction fuel with
  | zero => intro rest cur lc t t' _; exact Nat.le_refl _
  | succ fuel ih =>
    intro rest cur lc t t' htt
    simp only [posScan]
    by_cases hw : ((Utf8.decodeRune rest).2 == 0) = true
    · simp [hw]
    · have hw' : ((Utf8.decodeRune rest).2 == 0) = false := by simpa using hw
      simp only [hw', Bool.or_false, decide_eq_true_eq]
      by_cases h1 : t' ≤ cur
      · have h2 : t ≤ cur := by omega
        simp [h1, h2]
      · by_cases h2 : t ≤ cur
        · simp only [h1, h2, if_true, if_false]
          exact posScan_line_ge _ _ _ _ _
        · simp only [h1, h2, if_false]
          exact ih _ _ _ _ _ htt

/-! ### the epilogue of `parse` -/

theorem forget_of_kindOk {e : PErr} (h : KindOk e.kind) : e.forget = e := by
  cases e with
  | mk off rule kind => cases kind <;> simp_all [KindOk, PErr.forget]

theorem map_forget_errsIn {n : Nat} {errs : List PErr} (h : ErrsIn n errs) :
    errs.map PErr.forget = errs := by
  induction errs with
  | nil => rfl
  | cons e es ih =>
    rw [List.map_cons, forget_of_kindOk (h e List.mem_cons_self).2,
      ih (fun x hx => h x (List.mem_cons_of_mem _ hx))]

theorem initStateT_eq (input : GoString) : initStateT input = Budget.initState input := rfl

/-- erasing what `outOfT` adds gives `outOf` -/
theorem outOfT_toParseOut {n : Nat} (p : PResT) (h : ResIn (StIn n) p.1) :
    (outOfT p).toParseOut = Budget.outOf p.1 := by
  obtain ⟨r, t⟩ := p
  cases r with
  | ok st fr v m =>
    have he : ErrsIn n st.errs := h.2
    have hrev : st.errs.reverse.map PErr.forget = st.errs.reverse := by
      rw [List.map_reverse, map_forget_errsIn he]
    cases m
    · simp only [outOfT, Budget.outOf]
      split
      · rfl
      · simp [ParseOutT.toParseOut, hrev]
    · simp [outOfT, Budget.outOf, ParseOutT.toParseOut, hrev]
  | exceeded st =>
    have he : ErrsIn n st.errs := h.2
    have hrev : st.errs.reverse.map PErr.forget = st.errs.reverse := by
      rw [List.map_reverse, map_forget_errsIn he]
    simp [outOfT, Budget.outOf, ParseOutT.toParseOut, PState.addErr, hrev, PErr.forget]
  | abort st msg =>
    have he : ErrsIn n st.errs := h.2
    have hrev : st.errs.reverse.map PErr.forget = st.errs.reverse := by
      rw [List.map_reverse, map_forget_errsIn he]
    simp [outOfT, Budget.outOf, ParseOutT.toParseOut, PState.addErr, hrev, PErr.forget]
  | fuelOut => rfl

/-- every entry of the final list lies within the input -/
theorem outOfT_errs_le {n : Nat} (p : PResT) (h : ResIn (StIn n) p.1) (ht : p.2.off ≤ n) :
    ∀ e ∈ (outOfT p).errs, e.off ≤ n := by
  obtain ⟨r, t⟩ := p
  cases r with
  | ok st fr v m =>
    have he : ErrsIn n st.errs := h.2
    cases m
    · simp only [outOfT]
      split
      · intro e hm; simp at hm; subst hm; exact ht
      · intro e hm; exact (he e (by simpa using hm)).1
    · intro e hm; exact (he e (by simpa [outOfT] using hm)).1
  | exceeded st =>
    have he : ErrsIn n st.errs := h.2
    have ho : st.pt.off ≤ n := h.1.off_le
    intro e hm
    simp only [outOfT, PState.addErr, List.reverse_cons, List.mem_append, List.mem_reverse,
      List.mem_singleton] at hm
    rcases hm with hm | hm
    · exact (he e hm).1
    · subst hm; exact ho
  | abort st msg =>
    have he : ErrsIn n st.errs := h.2
    have ho : st.pt.off ≤ n := h.1.off_le
    intro e hm
    simp only [outOfT, PState.addErr, List.reverse_cons, List.mem_append, List.mem_reverse,
      List.mem_singleton] at hm
    rcases hm with hm | hm
    · exact (he e hm).1
    · subst hm; exact ho
  | fuelOut => intro e hm; simp [outOfT] at hm; subst hm; exact Nat.zero_le _

theorem outOfT_track (p : PResT) : (outOfT p).track = p.2 := by
  obtain ⟨r, t⟩ := p
  cases r with
  | ok st fr v m =>
    cases m
    · simp only [outOfT]; split <;> rfl
    · rfl
  | _ => rfl

end Bexpr.Proofs.EngineT
