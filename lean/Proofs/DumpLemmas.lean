/-
  Lemmas for C19: splitting of the string literals used by `Dump.dump`, `repeatStr`, and
  `GoString.join`.  Core Lean only.

  `GoString.ofString` goes through `String.toUTF8` / `ByteArray.toList`, which the elaborator's
  `decide` cannot unfold; the closed facts about literals are therefore checked by the kernel
  (`decide +kernel`: plain kernel evaluation of the `Decidable` instance, no extra axioms, no
  native code).
-/
import Bexpr.Eval.Dump

namespace Bexpr.Proofs.Dump
open Bexpr Bexpr.Dump

/-! ### literals -/

theorem s_not : s "Not {\n" = s "Not {" ++ s "\n" := by decide +kernel
theorem s_and : s "And {\n" = s "And {" ++ s "\n" := by decide +kernel
theorem s_or : s "Or {\n" = s "Or {" ++ s "\n" := by decide +kernel
theorem s_open : s " {\n" = s " {" ++ s "\n" := by decide +kernel
theorem s_close : s "}\n" = s "}" ++ s "\n" := by decide +kernel

theorem s_nl : s "\n" = [10] := by decide +kernel
theorem s_closeBrace : s "}" = [125] := by decide +kernel
theorem s_dot : GoString.ofString "." = [46] := by decide +kernel
theorem s_slash : GoString.ofString "/" = [47] := by decide +kernel

/-! ### `repeatStr` -/

theorem repeatStr_zero (indent : GoString) : repeatStr indent 0 = [] := rfl

theorem repeatStr_succ (indent : GoString) (n : Nat) :
    repeatStr indent (n + 1) = indent ++ repeatStr indent n := rfl

theorem repeatStr_add (indent : GoString) (m n : Nat) :
    repeatStr indent (m + n) = repeatStr indent m ++ repeatStr indent n := by
  induction m with
  | zero => simp [repeatStr]
  | succ m ih => rw [Nat.succ_add, repeatStr_succ, repeatStr_succ, ih, List.append_assoc]

theorem repeatStr_length (indent : GoString) (n : Nat) :
    (repeatStr indent n).length = n * indent.length := by
  induction n with
  | zero => simp [repeatStr]
  | succ n ih => rw [repeatStr_succ, List.length_append, ih, Nat.succ_mul, Nat.add_comm]

/-- `strings.Repeat` as a flattened replicate -/
theorem repeatStr_eq_replicate (indent : GoString) (n : Nat) :
    repeatStr indent n = (List.replicate n indent).flatten := by
  induction n with
  | zero => rfl
  | succ n ih => rw [repeatStr_succ, List.replicate_succ, List.flatten_cons, ih]

/-! ### `GoString.join` -/

theorem join_nil (sep : GoString) : GoString.join sep [] = [] := rfl
theorem join_single (sep p : GoString) : GoString.join sep [p] = p := rfl
theorem join_cons_cons (sep p q : GoString) (rest : List GoString) :
    GoString.join sep (p :: q :: rest) = p ++ sep ++ GoString.join sep (q :: rest) := rfl

/-- `strings.Join` is `intercalate` -/
theorem join_eq_intercalate (sep : GoString) (l : List GoString) :
    GoString.join sep l = (l.intersperse sep).flatten := by
  induction l with
  | nil => rfl
  | cons p t ih =>
    cases t with
    | nil => simp [GoString.join]
    | cons q r =>
      rw [join_cons_cons, ih]
      simp [List.intersperse, List.append_assoc]

end Bexpr.Proofs.Dump
