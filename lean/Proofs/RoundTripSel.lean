/-
  Proofs.RoundTripSel — stage 2 of the print/parse round trip: selectors (C07 at parser level).

  * `SelSp` — the spellings of a bexpr selector: a first identifier, then parts written `.ident`,
    `.digits`, or `[ "…" ]` / `[ `…` ]` with optional blanks inside the brackets.
  * `eats_Selector_bexpr` — the rule `Selector` on such a spelling, followed by input that cannot
    continue a selector (`stopsSel`), yields `.sel ⟨.bexpr, parts⟩`.
  * `eats_Selector_pointer` — on the JSON-pointer spelling `"/seg/seg…"` it yields
    `.sel ⟨.jsonPointer, parts⟩` (`~1`, `~0` denote `/`, `~`).
  The input is valid UTF-8 text (`VT`); index literals may have any valid UTF-8 body; pointer
  segments are non-empty valid UTF-8 whose runes are in the grammar's class `[\pL\pN-_.~:|]`
  (`segRune`: Go's `unicode.L`, `unicode.N` tables, or one of `-_.~:|`).
-/
import Proofs.RoundTripLex

namespace Bexpr.Proofs.RoundTrip
open Bexpr Bexpr.Peg Bexpr.Driver
open Bexpr.Props.C16Lex (ptrEscape pointer_parse_roundtrip)

variable {rule : String} {fr : Frame} {rest s : GoString} {off : Nat} {errs : List PErr}

/-! ## 1. Code blocks -/

theorem sem_onSelectorOrIndex2 : lookupSem pinSem "onSelectorOrIndex2" = .retLabel "ident" := by
  decide +kernel
theorem sem_onSelectorOrIndex7 : lookupSem pinSem "onSelectorOrIndex7" = .retLabel "expr" := by
  decide +kernel
theorem sem_onSelectorOrIndex10 : lookupSem pinSem "onSelectorOrIndex10" = .textTail := by
  decide +kernel
theorem sem_onIndexExpression2 : lookupSem pinSem "onIndexExpression2" = .retLabel "lit" := by
  decide +kernel
theorem sem_onSelector2 : lookupSem pinSem "onSelector2" = .selectorBexpr "first" "rest" := by
  decide +kernel
theorem sem_onSelector9 : lookupSem pinSem "onSelector9" = .selectorPtr "ptrsegs" := by
  decide +kernel
theorem sem_onJsonPointerSegment1 : lookupSem pinSem "onJsonPointerSegment1" = .textTail := by
  decide +kernel

theorem look_Selector : lookupRule G "Selector" = some Pinned.Grammar.rule_23 := rfl
theorem look_JsonPointerSegment :
    lookupRule G "JsonPointerSegment" = some Pinned.Grammar.rule_24 := rfl
theorem look_SelectorOrIndex : lookupRule G "SelectorOrIndex" = some Pinned.Grammar.rule_26 := rfl
theorem look_IndexExpression : lookupRule G "IndexExpression" = some Pinned.Grammar.rule_27 := rfl

/-! ## 2. Spellings of the parts after the first -/

/-- how a non-first path element is written -/
inductive PartSp where
  /-- `.ident` -/
  | dotIdent (b : UInt8) (x : GoString)
  /-- `.digits` -/
  | dotDigits (d : UInt8) (ds : GoString)
  /-- `[ws₁ q body q ws₂]` with `q` a backquote or a double quote; `val` is what the quoted
      literal denotes -/
  | index (ws₁ : GoString) (q : UInt8) (body : GoString) (ws₂ : GoString) (val : GoString)

def PartSp.text : PartSp → GoString
  | .dotIdent b x => [46] ++ (b :: x)
  | .dotDigits d ds => [46] ++ ([d] ++ ds)
  | .index ws₁ q body ws₂ _ => [91] ++ (ws₁ ++ (([q] ++ (body ++ [q])) ++ (ws₂ ++ [93])))

/-- the path element denoted -/
def PartSp.part : PartSp → GoString
  | .dotIdent b x => b :: x
  | .dotDigits d ds => d :: ds
  | .index _ _ _ _ val => val

def PartSp.WF : PartSp → Prop
  | .dotIdent b x => isAlpha b.toNat = true ∧ AllIn isIdc x
  | .dotDigits d ds => AllIn isDigit (d :: ds)
  | .index ws₁ q body ws₂ val => AllIn isWs ws₁ ∧ AllIn isWs ws₂ ∧ (q = 0x60 ∨ q = 0x22) ∧
      VT body ∧ (∀ c ∈ body, c ≠ q) ∧ Strconv.unquote ([q] ++ (body ++ [q])) = some val

theorem PartSp.text_vt (p : PartSp) (h : p.WF) : VT p.text := by
  cases p with
  | dotIdent b x =>
    exact (Asc.cons (by decide) (Asc.cons (isAlpha_lt h.1) (h.2.asc @isIdc_lt))).vt
  | dotDigits d ds => exact (Asc.cons (by decide) (h.asc @isDigit_lt)).vt
  | index ws₁ q body ws₂ val =>
    obtain ⟨h1, h2, hq, hb, _, _⟩ := h
    have hq' : q.toNat < 128 := by rcases hq with rfl | rfl <;> decide
    exact VT.cons (by decide) ((h1.asc @isWs_lt).appendV
      ((VT.cons hq' (hb.append (VT.cons hq' VT.nil))).append
        ((h2.asc @isWs_lt).appendV (VT.cons (by decide) VT.nil))))

/-- a part spelling starts with `.` or `[` -/
theorem PartSp.text_head (p : PartSp) : ∃ t, p.text = 46 :: t ∨ p.text = 91 :: t := by
  cases p with
  | dotIdent b x => exact ⟨_, .inl rfl⟩
  | dotDigits d ds => exact ⟨_, .inl rfl⟩
  | index ws₁ q body ws₂ val => exact ⟨_, .inr rfl⟩

/-- bytes that continue a selector: identifier bytes, `.`, `[` -/
def selCont (n : Nat) : Bool := isIdc n || n == 46 || n == 91

/-- the input cannot continue a selector -/
abbrev stopsSel (rest : GoString) : Prop := headIn selCont rest = false

theorem isDigit_idc {n : Nat} (h : isDigit n = true) : isIdc n = true := by
  have h' : 48 ≤ n ∧ n ≤ 57 := by simpa [inCls, classMatches.inRanges] using h
  simp [inCls, classMatches.inRanges]; omega

theorem headIn_mono {p q : Nat → Bool} (hpq : ∀ n, p n = true → q n = true)
    (h : headIn q s = false) : headIn p s = false := by
  cases s with
  | nil => rfl
  | cons b t =>
    simp only [headIn] at h ⊢
    cases hp : p b.toNat with
    | false => rfl
    | true => rw [hpq _ hp] at h; cases h

theorem stopsSel_idc (h : stopsSel rest) : headIn isIdc rest = false :=
  headIn_mono (fun n hn => by simp [selCont, hn]) h

/-! ## 3. `IndexExpression`, `SelectorOrIndex` -/

theorem frame_get_head (l : String) (v : PVal) (fr : Frame) : Frame.get ((l, v) :: fr) l = v := by
  simp [Frame.get, List.find?]

/-- `[ "…" ]` -/
theorem eats_IndexExpression {ws₁ ws₂ body val : GoString} {q : UInt8}
    (h : (PartSp.index ws₁ q body ws₂ val).WF) (hr : VT rest) :
    Eats rule (.ruleRef "IndexExpression") fr (PartSp.index ws₁ q body ws₂ val).text rest off errs
      fr (.str val) := by
  obtain ⟨h1, h2, hq, hb, hnq, hu⟩ := h
  have hq' : q.toNat < 128 := by rcases hq with rfl | rfl <;> decide
  have hlit : VT ([q] ++ (body ++ [q])) := VT.cons hq' (hb.append (VT.cons hq' VT.nil))
  have h2a : Asc ws₂ := h2.asc @isWs_lt
  have hclose : VT ([93] ++ rest) := VT.cons (by decide) hr
  -- ws₂ is followed by `]`, the literal by ws₂ or `]`, ws₁ by the opening quote
  have hstop2 : headIn isWs ([93] ++ rest) = false := rfl
  have hstop1 : headIn isWs (([q] ++ (body ++ [q])) ++ (ws₂ ++ [93]) ++ rest) = false := by
    rcases hq with rfl | rfl <;> rfl
  obtain ⟨v2, e2⟩ := eats_optWs (rule := Pinned.Grammar.rule_27.shown) (fr := [("lit", .str val)])
    (off := off + ([91] : GoString).length + ws₁.length + ([q] ++ (body ++ [q])).length)
    (errs := errs) h2 hstop2 hclose
  obtain ⟨v1, e1⟩ := eats_optWs (rule := Pinned.Grammar.rule_27.shown) (fr := [])
    (off := off + ([91] : GoString).length) (errs := errs) h1 hstop1
    ((hlit.append (h2a.appendV (VT.cons (by decide) VT.nil))).append hr)
  have e3 := Eats.labeled (rule := Pinned.Grammar.rule_27.shown) (l := "lit") (fr := [])
    (by decide) (eats_StringLiteral (rule := Pinned.Grammar.rule_27.shown) (fr := [])
      (off := off + ([91] : GoString).length + ws₁.length) (errs := errs) hq body val hb hnq hu
      (rest := (ws₂ ++ [93]) ++ rest) ((h2a.append (Asc.cons (by decide) Asc.nil)).appendV hr))
  have hseq := EatsSeq.cons (Eats.lit (rule := Pinned.Grammar.rule_27.shown) (fr := [])
      (off := off) (errs := errs) [91] rfl (by decide)
      (rest := (ws₁ ++ (([q] ++ (body ++ [q])) ++ (ws₂ ++ [93]))) ++ rest)
      (((h1.asc @isWs_lt).appendV (hlit.append (h2a.appendV (VT.cons (by decide) VT.nil)))).append
        hr))
    (EatsSeq.cons e1 (EatsSeq.cons e3 (EatsSeq.cons e2
      (EatsSeq.one (Eats.lit [93] rfl (by decide) hr)))))
  exact Eats.ref look_IndexExpression (by decide) (Eats.choice_hit (Eats.action (Eats.seq hseq)
    (by rw [act_of_sem sem_onIndexExpression2]; exact congrArg (ActOut.ret · none)
          (frame_get_head ..))))

theorem fails_IndexExpression (hs : VT s) (h : GoString.isPrefixOf [91] s = false) :
    Fails rule (.ruleRef "IndexExpression") fr s off errs := by
  apply Fails.ref look_IndexExpression (by decide)
  have hl : ∀ fr', Fails Pinned.Grammar.rule_27.shown (.lit [91] false) fr' s off errs :=
    fun _ => Fails.lit [91] rfl (by decide) hs h
  exact Fails.choice_cons (Fails.action (Fails.seq (FailsSeq.here (hl _))))
    (Fails.choice_cons (Fails.seq (FailsSeq.here (hl _)))
      (Fails.choice_cons (Fails.seq (FailsSeq.here (hl _))) Fails.choice_nil))

/-- one `.ident` / `.digits` / `[ "…" ]` step -/
theorem eats_SelectorOrIndex (p : PartSp) (h : p.WF) (hstop : headIn isIdc rest = false)
    (hr : VT rest) :
    Eats rule (.ruleRef "SelectorOrIndex") fr p.text rest off errs fr (.str p.part) := by
  cases p with
  | dotIdent b x =>
    obtain ⟨hb, hx⟩ := h
    have hseq := EatsSeq.cons (Eats.lit (rule := Pinned.Grammar.rule_26.shown) (fr := [])
        (off := off) (errs := errs) [46] rfl (by decide) (rest := (b :: x) ++ rest)
        ((Asc.cons (isAlpha_lt hb) (hx.asc @isIdc_lt)).appendV hr))
      (EatsSeq.one (Eats.labeled (l := "ident") (by decide) (eats_Identifier hb hx hstop hr)))
    exact Eats.ref look_SelectorOrIndex (by decide) (Eats.choice_hit (Eats.action (Eats.seq hseq)
      (by rw [act_of_sem sem_onSelectorOrIndex2]; exact congrArg (ActOut.ret · none)
            (frame_get_head ..))))
  | dotDigits d ds =>
    have hda : Asc (d :: ds) := h.asc @isDigit_lt
    have hall : VT ([46] ++ ([d] ++ ds) ++ rest) := (Asc.cons (by decide) hda).appendV hr
    have hd : isAlpha d.toNat = false := by
      have h' : 48 ≤ d.toNat ∧ d.toNat ≤ 57 := by
        simpa [inCls, classMatches.inRanges] using h.head
      simp [inCls, classMatches.inRanges]; omega
    -- alternative 1: `.` then Identifier fails on the digit
    have f1 : Fails Pinned.Grammar.rule_26.shown (.action "onSelectorOrIndex2"
        (.seq [.lit [46] false, .labeled "ident" (.ruleRef "Identifier")])) []
        ([46] ++ ([d] ++ ds) ++ rest) off errs :=
      Fails.action (Fails.seq (FailsSeq.later (a := [46]) (rest := ([d] ++ ds) ++ rest)
        (Eats.lit [46] rfl (by decide) (hda.appendV hr))
        (FailsSeq.here (Fails.labeled (fails_Identifier (hda.appendV hr)
          (by simpa [headIn] using hd))))))
    -- alternative 2: no `[`
    have f2 : Fails Pinned.Grammar.rule_26.shown (.action "onSelectorOrIndex7"
        (.labeled "expr" (.ruleRef "IndexExpression"))) []
        ([46] ++ ([d] ++ ds) ++ rest) off errs :=
      Fails.action (Fails.labeled (fails_IndexExpression hall rfl))
    have hstop' : headIn isDigit rest = false := headIn_mono (fun _ => isDigit_idc) hstop
    have hseq := EatsSeq.cons (Eats.lit (rule := Pinned.Grammar.rule_26.shown) (fr := [])
        (off := off) (errs := errs) [46] rfl (by decide) (rest := ([d] ++ ds) ++ rest)
        (hda.appendV hr))
      (EatsSeq.one (Eats.labeled (l := "idx") (by decide)
        (Eats.plus (Eats.cls (isDigit_lt h.head) h.head (hda.tail.appendV hr))
          (EatsStar.cls (by decide) ds hda.tail hr h.tail hstop'))))
    exact Eats.ref look_SelectorOrIndex (by decide) (Eats.choice_next f1 (Eats.choice_next f2
      (Eats.choice_hit (Eats.action (Eats.seq hseq)
        (by rw [act_of_sem sem_onSelectorOrIndex10]; rfl)))))
  | index ws₁ q body ws₂ val =>
    have hall : VT ((PartSp.index ws₁ q body ws₂ val).text ++ rest) :=
      (PartSp.text_vt _ h).append hr
    have f1 : Fails Pinned.Grammar.rule_26.shown (.action "onSelectorOrIndex2"
        (.seq [.lit [46] false, .labeled "ident" (.ruleRef "Identifier")])) []
        ((PartSp.index ws₁ q body ws₂ val).text ++ rest) off errs :=
      Fails.action (Fails.seq (FailsSeq.here (Fails.lit [46] rfl (by decide) hall rfl)))
    exact Eats.ref look_SelectorOrIndex (by decide) (Eats.choice_next f1 (Eats.choice_hit
      (Eats.action (Eats.labeled (l := "expr") (by decide) (eats_IndexExpression h hr))
        (by rw [act_of_sem sem_onSelectorOrIndex7]; exact congrArg (ActOut.ret · none)
              (frame_get_head ..)))))

theorem fails_SelectorOrIndex (hs : VT s) (h : stopsSel s) :
    Fails rule (.ruleRef "SelectorOrIndex") fr s off errs := by
  have hdot : GoString.isPrefixOf [46] s = false := by
    cases s with
    | nil => rfl
    | cons b t =>
      have : ¬ (46 : UInt8) = b := by
        intro hb; subst hb
        have h' : selCont (46 : UInt8).toNat = false := h
        revert h'; decide
      simp [GoString.isPrefixOf, this]
  have hbr : GoString.isPrefixOf [91] s = false := by
    cases s with
    | nil => rfl
    | cons b t =>
      have : ¬ (91 : UInt8) = b := by
        intro hb; subst hb
        have h' : selCont (91 : UInt8).toNat = false := h
        revert h'; decide
      simp [GoString.isPrefixOf, this]
  have hl : ∀ fr', Fails Pinned.Grammar.rule_26.shown (.lit [46] false) fr' s off errs :=
    fun _ => Fails.lit [46] rfl (by decide) hs hdot
  exact Fails.ref look_SelectorOrIndex (by decide)
    (Fails.choice_cons (Fails.action (Fails.seq (FailsSeq.here (hl _))))
      (Fails.choice_cons (Fails.action (Fails.labeled (fails_IndexExpression hs hbr)))
        (Fails.choice_cons (Fails.action (Fails.seq (FailsSeq.here (hl _)))) Fails.choice_nil)))


/-! ## 4. `Selector`, bexpr spelling -/

def partsText (ps : List PartSp) : GoString := ps.flatMap PartSp.text

theorem partsText_vt (ps : List PartSp) (h : ∀ p ∈ ps, p.WF) : VT (partsText ps) := by
  induction ps with
  | nil => exact VT.nil
  | cons p ps ih =>
    show VT (p.text ++ partsText ps)
    exact (p.text_vt (h p (List.mem_cons_self ..))).append
      (ih fun q hq => h q (List.mem_cons_of_mem _ hq))

/-- what follows a part is not an identifier byte: the next part starts with `.` or `[` -/
theorem partsText_stop (ps : List PartSp) (hstop : stopsSel rest) :
    headIn isIdc (partsText ps ++ rest) = false := by
  cases ps with
  | nil => exact stopsSel_idc hstop
  | cons p ps =>
    obtain ⟨t, ht | ht⟩ := p.text_head
    · show headIn isIdc (p.text ++ partsText ps ++ rest) = false
      rw [ht]; rfl
    · show headIn isIdc (p.text ++ partsText ps ++ rest) = false
      rw [ht]; rfl

theorem eatsStar_parts (ps : List PartSp) (h : ∀ p ∈ ps, p.WF) (hstop : stopsSel rest)
    (hr : VT rest) :
    EatsStar rule (.ruleRef "SelectorOrIndex") (partsText ps) rest off errs
      (ps.map fun p => .str p.part) := by
  induction ps generalizing off with
  | nil => exact EatsStar.stop (fails_SelectorOrIndex hr hstop)
  | cons p ps ih =>
    have hps : ∀ q ∈ ps, q.WF := fun q hq => h q (List.mem_cons_of_mem _ hq)
    exact EatsStar.more (a := p.text) (b := partsText ps)
      (eats_SelectorOrIndex p (h p (List.mem_cons_self ..)) (partsText_stop ps hstop)
        ((partsText_vt ps hps).append hr))
      (ih hps)

/-- a bexpr selector spelling: first identifier `b :: x`, then the parts -/
structure SelSp where
  b : UInt8
  x : GoString
  parts : List PartSp

def SelSp.text (σ : SelSp) : GoString := (σ.b :: σ.x) ++ partsText σ.parts
def SelSp.path (σ : SelSp) : List GoString := (σ.b :: σ.x) :: σ.parts.map PartSp.part
def SelSp.WF (σ : SelSp) : Prop :=
  isAlpha σ.b.toNat = true ∧ AllIn isIdc σ.x ∧ ∀ p ∈ σ.parts, p.WF

theorem SelSp.text_vt (σ : SelSp) (h : σ.WF) : VT σ.text :=
  (Asc.cons (isAlpha_lt h.1) (h.2.1.asc @isIdc_lt)).appendV (partsText_vt _ h.2.2)

theorem asStrList_map (ps : List PartSp) :
    asStrList (ps.map fun p => PVal.str p.part) = some (ps.map PartSp.part) := by
  induction ps with
  | nil => rfl
  | cons p ps ih => simp [asStrList, ih]

/-- The rule `Selector` on a bexpr spelling yields the bexpr selector with the spelled path. -/
theorem eats_Selector_bexpr (σ : SelSp) (h : σ.WF) (hstop : stopsSel rest) (hr : VT rest) :
    Eats rule (.ruleRef "Selector") fr σ.text rest off errs fr
      (.sel { ty := .bexpr, path := σ.path }) := by
  obtain ⟨hb, hx, hps⟩ := h
  have hpa := partsText_vt _ hps
  have hseq := EatsSeq.cons
    (Eats.labeled (rule := Pinned.Grammar.rule_23.shown) (l := "first") (fr := []) (by decide)
      (eats_Identifier (off := off) (errs := errs) hb hx (partsText_stop σ.parts hstop)
        (hpa.append hr)))
    (EatsSeq.one (Eats.labeled (l := "rest") (by decide)
      (Eats.star (eatsStar_parts σ.parts hps hstop hr))))
  refine Eats.ref look_Selector (by decide) (Eats.choice_hit (Eats.action (Eats.seq hseq) ?_))
  rw [act_of_sem sem_onSelector2]
  simp [runActionSem, Frame.get, List.find?, restStrings, asStrList_map, SelSp.path]


/-! ## 5. `Selector`, JSON-pointer spelling -/

section general_class
variable {chars ranges : List Nat} {classes : List String} {p : Nat → Bool}

/-- a class with Unicode classes on an ASCII byte -/
theorem Eats.clsG (hcm : ∀ n, classMatches E chars ranges classes n = some (p n))
    {b : UInt8} (hb : b.toNat < 128) (hin : p b.toNat = true) (hr : VT rest) :
    Eats rule (.charClass chars ranges classes false false) fr [b] rest off errs fr
      (.bytes [b]) := by
  have := Sem.class_ok (env := E) (g := G) (rule := rule) (fr := fr) (errs := errs)
    (pt := ptAt (b :: rest) off) (chars := chars) (ranges := ranges) (classes := classes)
    (inverted := false) (hit := true) (atEOF_cons _ _ hb)
    (by rw [ptAt_rn_cons _ _ hb, hcm, hin]) (by decide)
  rw [ptAt_next_cons _ _ hb, logRead_vt _ _ _ hr] at this
  have e : sliceFrom (ptAt (b :: rest) off) (ptAt rest (off + 1)) = [b] :=
    sliceFrom_ptAt [b] rest off
  rw [e] at this
  exact this

/-- … and on a multi-byte rune of the class: the whole encoding is consumed -/
theorem Eats.clsG_rune (hcm : ∀ n, classMatches E chars ranges classes n = some (p n))
    {r : Nat} (hv : Utf8.validRune r = true) (h80 : 0x80 ≤ r) (hin : p r = true) (hr : VT rest) :
    Eats rule (.charClass chars ranges classes false false) fr (Utf8.encodeRune r) rest off errs fr
      (.bytes (Utf8.encodeRune r)) := by
  have := Sem.class_ok (env := E) (g := G) (rule := rule) (fr := fr) (errs := errs)
    (pt := ptAt (Utf8.encodeRune r ++ rest) off) (chars := chars) (ranges := ranges)
    (classes := classes) (inverted := false) (hit := true) (atEOF_rune _ _ hv h80)
    (by rw [ptAt_rn_rune _ _ hv h80, hcm, hin]) (by decide)
  rw [ptAt_next_rune _ _ hv h80, logRead_vt _ _ _ hr, sliceFrom_ptAt] at this
  exact this

/-- the input ends, or continues with an ASCII byte outside the class -/
def stopsAt (p : Nat → Bool) (s : GoString) : Prop :=
  match s with
  | [] => True
  | b :: _ => b.toNat < 128 ∧ p b.toNat = false

theorem Fails.clsG (hcm : ∀ n, classMatches E chars ranges classes n = some (p n))
    (h : stopsAt p s) :
    Fails rule (.charClass chars ranges classes false false) fr s off errs := by
  cases s with
  | nil => exact ⟨_, _, Sem.class_eof (atEOF_nil off)⟩
  | cons b t =>
    obtain ⟨hb, hp⟩ := h
    refine ⟨_, _, Sem.class_fail (hit := false) (atEOF_cons _ _ hb) ?_ rfl⟩
    rw [ptAt_rn_cons _ _ hb, hcm]
    exact congrArg some hp

/-- the starred class consumes text all of whose runes are in the class, rune by rune -/
theorem EatsStar.clsG (hcm : ∀ n, classMatches E chars ranges classes n = some (p n))
    (x : GoString) (hx : RunesIn p x) (hr : VT rest) (hstop : stopsAt p rest) :
    ∃ vs, EatsStar rule (.charClass chars ranges classes false false) x rest off errs vs := by
  induction hx generalizing off with
  | nil => exact ⟨_, EatsStar.stop (Fails.clsG hcm hstop)⟩
  | @asc b t hb hp ht ih =>
    have h1 : Eats rule (.charClass chars ranges classes false false) [] [b] (t ++ rest) off errs
        [] (.bytes [b]) := Eats.clsG hcm hb hp (ht.vt.append hr)
    obtain ⟨vs, hvs⟩ := ih (off := off + ([b] : GoString).length)
    exact ⟨_, EatsStar.more (a := [b]) h1 hvs⟩
  | @rune r t hv h80 hp ht ih =>
    have h1 : Eats rule (.charClass chars ranges classes false false) [] (Utf8.encodeRune r)
        (t ++ rest) off errs [] (.bytes (Utf8.encodeRune r)) :=
      Eats.clsG_rune hcm hv h80 hp (ht.vt.append hr)
    obtain ⟨vs, hvs⟩ := ih (off := off + (Utf8.encodeRune r).length)
    exact ⟨_, EatsStar.more (a := Utf8.encodeRune r) h1 hvs⟩

/-- `[class]+` on non-empty text all of whose runes are in the class -/
theorem Eats.plusG (hcm : ∀ n, classMatches E chars ranges classes n = some (p n))
    (x : GoString) (hx : RunesIn p x) (hne : x ≠ []) (hr : VT rest) (hstop : stopsAt p rest) :
    ∃ v, Eats rule (.oneOrMore (.charClass chars ranges classes false false)) fr x rest off errs
      fr v := by
  rcases hx.inv with rfl | ⟨b, t, rfl, hb, hp, ht⟩ | ⟨r, t, rfl, hv, h80, hp, ht⟩
  · exact absurd rfl hne
  · obtain ⟨vs, hvs⟩ := EatsStar.clsG (rule := rule) (off := off + ([b] : GoString).length)
      (errs := errs) hcm t ht hr hstop
    exact ⟨_, Eats.plus (a := [b]) (Eats.clsG hcm hb hp (ht.vt.append hr)) hvs⟩
  · obtain ⟨vs, hvs⟩ := EatsStar.clsG (rule := rule)
      (off := off + (Utf8.encodeRune r).length) (errs := errs) hcm t ht hr hstop
    exact ⟨_, Eats.plus (a := Utf8.encodeRune r) (Eats.clsG_rune hcm hv h80 hp (ht.vt.append hr))
      hvs⟩

end general_class

/-- the runes of `[\pL\pN-_.~:|]`: a letter or a number by Go's `unicode.L` / `unicode.N` tables,
    or one of `-_.~:|` -/
def segRune (n : Nat) : Bool :=
  [45, 95, 46, 126, 58, 124].contains n || (Unicode.isL n || Unicode.isN n)

/-- the engine's class test for `[\pL\pN-_.~:|]` is `segRune`, on every rune -/
theorem segClass_all (n : Nat) :
    classMatches E [45, 95, 46, 126, 58, 124] [] ["L", "N"] n = some (segRune n) := by
  have hL : E.classIn "L" n = some (Unicode.isL n) := rfl
  have hN : E.classIn "N" n = some (Unicode.isN n) := rfl
  unfold classMatches segRune
  by_cases h1 : [45, 95, 46, 126, 58, 124].contains n = true
  · rw [if_pos h1, h1]; rfl
  · have h1' : [45, 95, 46, 126, 58, 124].contains n = false := by simpa using h1
    rw [if_neg h1, h1']
    simp only [classMatches.inRanges, Bool.false_eq_true, if_false, classMatches.inClasses, hL, hN,
      Bool.false_or]
    cases Unicode.isL n <;> cases Unicode.isN n <;> rfl

/-- ASCII members of `[\pL\pN-_.~:|]` -/
def segChar (n : Nat) : Bool :=
  (97 ≤ n && n ≤ 122) || (65 ≤ n && n ≤ 90) || (48 ≤ n && n ≤ 57) ||
    n == 45 || n == 95 || n == 46 || n == 126 || n == 58 || n == 124

/-- On ASCII the class `[\pL\pN-_.~:|]` (Go's `unicode.L`, `unicode.N` tables) is `segChar`. -/
theorem segRune_ascii : ∀ n, n < 128 → segRune n = segChar n := by
  decide +kernel

/-- a pointer segment as written: non-empty valid UTF-8 all of whose runes are in
    `[\pL\pN-_.~:|]` -/
def SegOK (seg : GoString) : Prop := seg ≠ [] ∧ RunesIn segRune seg

instance (seg : GoString) : Decidable (SegOK seg) := by unfold SegOK; infer_instance

/-- the ASCII case: non-empty, over `[A-Za-z0-9-_.~:|]` -/
theorem SegOK.of_ascii {seg : GoString} (hne : seg ≠ []) (ha : Asc seg) (hc : AllIn segChar seg) :
    SegOK seg :=
  ⟨hne, RunesIn.of_asc fun b hb => ⟨ha b hb, by rw [segRune_ascii _ (ha b hb)]; exact hc b hb⟩⟩

def segsText (segs : List GoString) : GoString := segs.flatMap fun g => [47] ++ g

theorem segsText_vt (segs : List GoString) (h : ∀ g ∈ segs, SegOK g) : VT (segsText segs) := by
  induction segs with
  | nil => exact VT.nil
  | cons g gs ih =>
    show VT (([47] ++ g) ++ segsText gs)
    exact (VT.cons (by decide) (h g (List.mem_cons_self ..)).2.vt).append
      (ih fun q hq => h q (List.mem_cons_of_mem _ hq))

theorem segRune_quote : segRune 34 = false := by decide +kernel
theorem segRune_slash : segRune 47 = false := by decide +kernel

/-- `JsonPointerSegment <- '/' [\pL\pN-_.~:|]+` returns the segment text -/
theorem eats_JsonPointerSegment {g : GoString} (hg : SegOK g) (hstop : stopsAt segRune rest)
    (hr : VT rest) :
    Eats rule (.ruleRef "JsonPointerSegment") fr ([47] ++ g) rest off errs fr (.str g) := by
  obtain ⟨hne, hgr⟩ := hg
  obtain ⟨v, hv⟩ := Eats.plusG (rule := Pinned.Grammar.rule_24.shown) (fr := [])
    (off := off + ([47] : GoString).length) (errs := errs) segClass_all g hgr hne hr hstop
  have hseq := EatsSeq.cons (Eats.lit (rule := Pinned.Grammar.rule_24.shown) (fr := [])
      (off := off) (errs := errs) [47] rfl (by decide) (rest := g ++ rest)
      (hgr.vt.append hr))
    (EatsSeq.one (Eats.labeled (l := "ident") (by decide) hv))
  exact Eats.ref look_JsonPointerSegment (by decide) (Eats.action (Eats.seq hseq)
    (by rw [act_of_sem sem_onJsonPointerSegment1]; rfl))

theorem fails_JsonPointerSegment (hs : VT s) (h : GoString.isPrefixOf [47] s = false) :
    Fails rule (.ruleRef "JsonPointerSegment") fr s off errs :=
  Fails.ref look_JsonPointerSegment (by decide) (Fails.action (Fails.seq (FailsSeq.here
    (Fails.lit [47] rfl (by decide) hs h))))

theorem eatsStar_segs (segs : List GoString) (h : ∀ g ∈ segs, SegOK g) (hr : VT rest) :
    EatsStar rule (.ruleRef "JsonPointerSegment") (segsText segs) ([34] ++ rest) off errs
      (segs.map .str) := by
  have hq : VT ([34] ++ rest) := VT.cons (by decide) hr
  induction segs generalizing off with
  | nil => exact EatsStar.stop (fails_JsonPointerSegment hq rfl)
  | cons g gs ih =>
    have hgs : ∀ q ∈ gs, SegOK q := fun q hq => h q (List.mem_cons_of_mem _ hq)
    have hstop : stopsAt segRune (segsText gs ++ ([34] ++ rest)) := by
      cases gs with
      | nil => exact ⟨by decide, segRune_quote⟩
      | cons g' gs' => exact ⟨by decide, segRune_slash⟩
    exact EatsStar.more (a := [47] ++ g) (b := segsText gs)
      (eats_JsonPointerSegment (h g (List.mem_cons_self ..)) hstop
        ((segsText_vt gs hgs).append hq))
      (ih hgs)

theorem asStrList_str (segs : List GoString) : asStrList (segs.map PVal.str) = some segs := by
  induction segs with
  | nil => rfl
  | cons p ps ih => simp [asStrList, ih]

/-- The rule `Selector` on `"/seg/seg…"` yields the JSON-pointer selector whose path is
    `pointerstructure.Parse` of the text (split at `/`, `~1` ↦ `/`, `~0` ↦ `~`). -/
theorem eats_Selector_segs (segs : List GoString) (h : ∀ g ∈ segs, SegOK g) (hr : VT rest) :
    Eats rule (.ruleRef "Selector") fr ([34] ++ (segsText segs ++ [34])) rest off errs fr
      (.sel { ty := .jsonPointer, path := ptrParse segs }) := by
  have hsa := segsText_vt segs h
  have hall : VT ([34] ++ (segsText segs ++ [34]) ++ rest) :=
    (VT.cons (by decide) (hsa.append (VT.cons (by decide) VT.nil))).append hr
  -- alternative 1 fails: `"` is not a letter
  have f1 : Fails Pinned.Grammar.rule_23.shown (.action "onSelector2" (.seq [
      .labeled "first" (.ruleRef "Identifier"),
      .labeled "rest" (.zeroOrMore (.ruleRef "SelectorOrIndex"))])) []
      ([34] ++ (segsText segs ++ [34]) ++ rest) off errs :=
    Fails.action (Fails.seq (FailsSeq.here (Fails.labeled (fails_Identifier hall rfl))))
  have hseq := EatsSeq.cons (Eats.lit (rule := Pinned.Grammar.rule_23.shown) (fr := [])
      (off := off) (errs := errs) [34] rfl (by decide) (rest := (segsText segs ++ [34]) ++ rest)
      ((hsa.append (VT.cons (by decide) VT.nil)).append hr))
    (EatsSeq.cons (Eats.labeled (l := "ptrsegs") (by decide)
        (Eats.star (eatsStar_segs segs h hr)))
      (EatsSeq.one (Eats.lit [34] rfl (by decide) hr)))
  refine Eats.ref look_Selector (by decide) (Eats.choice_next f1 (Eats.choice_hit
    (Eats.action (Eats.seq hseq) ?_)))
  rw [act_of_sem sem_onSelector9]
  simp [runActionSem, Frame.get, List.find?, restStrings, asStrList_str]

/-- The JSON-pointer spelling of a path: `"` then `/` + RFC 6901-escaped element, for each
    element, then `"`. -/
def pointerText (path : List GoString) : GoString :=
  [34] ++ (segsText (path.map ptrEscape) ++ [34])

/-- `"/a/b~1c"` denotes the path `[a, b/c]`: the rule `Selector` on the pointer spelling of
    `path` yields `⟨.jsonPointer, path⟩`.  RESTRICTION (the grammar's): every escaped element is
    non-empty valid UTF-8 over `[\pL\pN-_.~:|]` (`SegOK`). -/
theorem eats_Selector_pointer (path : List GoString) (hne : path ≠ [])
    (h : ∀ p ∈ path, SegOK (ptrEscape p)) (hr : VT rest) :
    Eats rule (.ruleRef "Selector") fr (pointerText path) rest off errs fr
      (.sel { ty := .jsonPointer, path := path }) := by
  have := eats_Selector_segs (rule := rule) (fr := fr) (off := off) (errs := errs)
    (path.map ptrEscape) (by
      intro g hg
      obtain ⟨p, hp, rfl⟩ := List.mem_map.1 hg
      exact h p hp) hr
  rw [pointer_parse_roundtrip path hne] at this
  exact this

end Bexpr.Proofs.RoundTrip
