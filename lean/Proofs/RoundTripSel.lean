/-
  Proofs.RoundTripSel — stage 2 of the print/parse round trip: selectors (C07 at parser level).

  * `SelSp` — the spellings of a bexpr selector: a first identifier, then parts written `.ident`,
    `.digits`, or `[ "…" ]` / `[ `…` ]` with optional blanks inside the brackets.
  * `eats_Selector_bexpr` — the rule `Selector` on such a spelling, followed by input that cannot
    continue a selector (`stopsSel`), yields `.sel ⟨.bexpr, parts⟩`.
  * `eats_Selector_pointer` — on the JSON-pointer spelling `"/seg/seg…"` it yields
    `.sel ⟨.jsonPointer, parts⟩` (`~1`, `~0` denote `/`, `~`).
  RESTRICTIONS: ASCII input; pointer segments over `[A-Za-z0-9-_.~:|]` and non-empty (the
  grammar's `[\pL\pN-_.~:|]+` restricted to ASCII).
-/
import Proofs.RoundTripLex

namespace Bexpr.Proofs.RoundTrip
open Bexpr Bexpr.Peg Bexpr.Driver
open Bexpr.Props.C16Lex (ptrEscape pointer_parse_roundtrip)

variable {rule : String} {fr : Frame} {rest s : GoString} {off : Nat} {errs : List PErr}

/-! ## 1. Code blocks -/

theorem sem_onSelectorOrIndex2 : lookupSem pinSem "onSelectorOrIndex2" = .retLabel "ident" := by
  decide +kernel
theorem sem_onSelectorOrIndex7 : lookupSem pinSem "onSelectorOrIndex7" = .retLabel "expr" := by
  decide +kernel
theorem sem_onSelectorOrIndex10 : lookupSem pinSem "onSelectorOrIndex10" = .textTail := by
  decide +kernel
theorem sem_onIndexExpression2 : lookupSem pinSem "onIndexExpression2" = .retLabel "lit" := by
  decide +kernel
theorem sem_onSelector2 : lookupSem pinSem "onSelector2" = .selectorBexpr "first" "rest" := by
  decide +kernel
theorem sem_onSelector9 : lookupSem pinSem "onSelector9" = .selectorPtr "ptrsegs" := by
  decide +kernel
theorem sem_onJsonPointerSegment1 : lookupSem pinSem "onJsonPointerSegment1" = .textTail := by
  decide +kernel

theorem look_Selector : lookupRule G "Selector" = some Pinned.Grammar.rule_23 := rfl
theorem look_JsonPointerSegment :
    lookupRule G "JsonPointerSegment" = some Pinned.Grammar.rule_24 := rfl
theorem look_SelectorOrIndex : lookupRule G "SelectorOrIndex" = some Pinned.Grammar.rule_26 := rfl
theorem look_IndexExpression : lookupRule G "IndexExpression" = some Pinned.Grammar.rule_27 := rfl

/-! ## 2. Spellings of the parts after the first -/

/-- how a non-first path element is written -/
inductive PartSp where
  /-- `.ident` -/
  | dotIdent (b : UInt8) (x : GoString)
  /-- `.digits` -/
  | dotDigits (d : UInt8) (ds : GoString)
  /-- `[ws₁ q body q ws₂]` with `q` a backquote or a double quote; `val` is what the quoted
      literal denotes -/
  | index (ws₁ : GoString) (q : UInt8) (body : GoString) (ws₂ : GoString) (val : GoString)

def PartSp.text : PartSp → GoString
  | .dotIdent b x => [46] ++ (b :: x)
  | .dotDigits d ds => [46] ++ ([d] ++ ds)
  | .index ws₁ q body ws₂ _ => [91] ++ (ws₁ ++ (([q] ++ (body ++ [q])) ++ (ws₂ ++ [93])))

/-- the path element denoted -/
def PartSp.part : PartSp → GoString
  | .dotIdent b x => b :: x
  | .dotDigits d ds => d :: ds
  | .index _ _ _ _ val => val

def PartSp.WF : PartSp → Prop
  | .dotIdent b x => isAlpha b.toNat = true ∧ AllIn isIdc x
  | .dotDigits d ds => AllIn isDigit (d :: ds)
  | .index ws₁ q body ws₂ val => AllIn isWs ws₁ ∧ AllIn isWs ws₂ ∧ (q = 0x60 ∨ q = 0x22) ∧
      Asc body ∧ (∀ c ∈ body, c ≠ q) ∧ Strconv.unquote ([q] ++ (body ++ [q])) = some val

theorem PartSp.text_asc (p : PartSp) (h : p.WF) : Asc p.text := by
  cases p with
  | dotIdent b x =>
    exact Asc.cons (by decide) (Asc.cons (isAlpha_lt h.1) (h.2.asc @isIdc_lt))
  | dotDigits d ds => exact Asc.cons (by decide) (h.asc @isDigit_lt)
  | index ws₁ q body ws₂ val =>
    obtain ⟨h1, h2, hq, hb, _, _⟩ := h
    have hq' : q.toNat < 128 := by rcases hq with rfl | rfl <;> decide
    exact Asc.cons (by decide) ((h1.asc @isWs_lt).append
      ((Asc.cons hq' (hb.append (Asc.cons hq' Asc.nil))).append
        ((h2.asc @isWs_lt).append (Asc.cons (by decide) Asc.nil))))

/-- a part spelling starts with `.` or `[` -/
theorem PartSp.text_head (p : PartSp) : ∃ t, p.text = 46 :: t ∨ p.text = 91 :: t := by
  cases p with
  | dotIdent b x => exact ⟨_, .inl rfl⟩
  | dotDigits d ds => exact ⟨_, .inl rfl⟩
  | index ws₁ q body ws₂ val => exact ⟨_, .inr rfl⟩

/-- bytes that continue a selector: identifier bytes, `.`, `[` -/
def selCont (n : Nat) : Bool := isIdc n || n == 46 || n == 91

/-- the input cannot continue a selector -/
abbrev stopsSel (rest : GoString) : Prop := headIn selCont rest = false

theorem isDigit_idc {n : Nat} (h : isDigit n = true) : isIdc n = true := by
  have h' : 48 ≤ n ∧ n ≤ 57 := by simpa [inCls, classMatches.inRanges] using h
  simp [inCls, classMatches.inRanges]; omega

theorem headIn_mono {p q : Nat → Bool} (hpq : ∀ n, p n = true → q n = true)
    (h : headIn q s = false) : headIn p s = false := by
  cases s with
  | nil => rfl
  | cons b t =>
    simp only [headIn] at h ⊢
    cases hp : p b.toNat with
    | false => rfl
    | true => rw [hpq _ hp] at h; cases h

theorem stopsSel_idc (h : stopsSel rest) : headIn isIdc rest = false :=
  headIn_mono (fun n hn => by simp [selCont, hn]) h

/-! ## 3. `IndexExpression`, `SelectorOrIndex` -/

theorem frame_get_head (l : String) (v : PVal) (fr : Frame) : Frame.get ((l, v) :: fr) l = v := by
  simp [Frame.get, List.find?]

/-- `[ "…" ]` -/
theorem eats_IndexExpression {ws₁ ws₂ body val : GoString} {q : UInt8}
    (h : (PartSp.index ws₁ q body ws₂ val).WF) (hr : Asc rest) :
    Eats rule (.ruleRef "IndexExpression") fr (PartSp.index ws₁ q body ws₂ val).text rest off errs
      fr (.str val) := by
  obtain ⟨h1, h2, hq, hb, hnq, hu⟩ := h
  have hq' : q.toNat < 128 := by rcases hq with rfl | rfl <;> decide
  have hlit : Asc ([q] ++ (body ++ [q])) := Asc.cons hq' (hb.append (Asc.cons hq' Asc.nil))
  have h2a : Asc ws₂ := h2.asc @isWs_lt
  have hclose : Asc ([93] ++ rest) := Asc.cons (by decide) hr
  -- ws₂ is followed by `]`, the literal by ws₂ or `]`, ws₁ by the opening quote
  have hstop2 : headIn isWs ([93] ++ rest) = false := rfl
  have hstop1 : headIn isWs (([q] ++ (body ++ [q])) ++ (ws₂ ++ [93]) ++ rest) = false := by
    rcases hq with rfl | rfl <;> rfl
  obtain ⟨v2, e2⟩ := eats_optWs (rule := Pinned.Grammar.rule_27.shown) (fr := [("lit", .str val)])
    (off := off + ([91] : GoString).length + ws₁.length + ([q] ++ (body ++ [q])).length)
    (errs := errs) h2 hstop2 hclose
  obtain ⟨v1, e1⟩ := eats_optWs (rule := Pinned.Grammar.rule_27.shown) (fr := [])
    (off := off + ([91] : GoString).length) (errs := errs) h1 hstop1
    ((hlit.append (h2a.append (Asc.cons (by decide) Asc.nil))).append hr)
  have e3 := Eats.labeled (rule := Pinned.Grammar.rule_27.shown) (l := "lit") (fr := [])
    (by decide) (eats_StringLiteral (rule := Pinned.Grammar.rule_27.shown) (fr := [])
      (off := off + ([91] : GoString).length + ws₁.length) (errs := errs) hq body val hb hnq hu
      (rest := (ws₂ ++ [93]) ++ rest) ((h2a.append (Asc.cons (by decide) Asc.nil)).append hr))
  have hseq := EatsSeq.cons (Eats.lit (rule := Pinned.Grammar.rule_27.shown) (fr := [])
      (off := off) (errs := errs) [91] rfl (by decide)
      (rest := (ws₁ ++ (([q] ++ (body ++ [q])) ++ (ws₂ ++ [93]))) ++ rest)
      (((h1.asc @isWs_lt).append (hlit.append (h2a.append (Asc.cons (by decide) Asc.nil)))).append
        hr))
    (EatsSeq.cons e1 (EatsSeq.cons e3 (EatsSeq.cons e2
      (EatsSeq.one (Eats.lit [93] rfl (by decide) hr)))))
  exact Eats.ref look_IndexExpression (by decide) (Eats.choice_hit (Eats.action (Eats.seq hseq)
    (by rw [act_of_sem sem_onIndexExpression2]; exact congrArg (ActOut.ret · none)
          (frame_get_head ..))))

theorem fails_IndexExpression (hs : Asc s) (h : GoString.isPrefixOf [91] s = false) :
    Fails rule (.ruleRef "IndexExpression") fr s off errs := by
  apply Fails.ref look_IndexExpression (by decide)
  have hl : ∀ fr', Fails Pinned.Grammar.rule_27.shown (.lit [91] false) fr' s off errs :=
    fun _ => Fails.lit [91] rfl (by decide) hs h
  exact Fails.choice_cons (Fails.action (Fails.seq (FailsSeq.here (hl _))))
    (Fails.choice_cons (Fails.seq (FailsSeq.here (hl _)))
      (Fails.choice_cons (Fails.seq (FailsSeq.here (hl _))) Fails.choice_nil))

/-- one `.ident` / `.digits` / `[ "…" ]` step -/
theorem eats_SelectorOrIndex (p : PartSp) (h : p.WF) (hstop : headIn isIdc rest = false)
    (hr : Asc rest) :
    Eats rule (.ruleRef "SelectorOrIndex") fr p.text rest off errs fr (.str p.part) := by
  cases p with
  | dotIdent b x =>
    obtain ⟨hb, hx⟩ := h
    have hseq := EatsSeq.cons (Eats.lit (rule := Pinned.Grammar.rule_26.shown) (fr := [])
        (off := off) (errs := errs) [46] rfl (by decide) (rest := (b :: x) ++ rest)
        ((Asc.cons (isAlpha_lt hb) (hx.asc @isIdc_lt)).append hr))
      (EatsSeq.one (Eats.labeled (l := "ident") (by decide) (eats_Identifier hb hx hstop hr)))
    exact Eats.ref look_SelectorOrIndex (by decide) (Eats.choice_hit (Eats.action (Eats.seq hseq)
      (by rw [act_of_sem sem_onSelectorOrIndex2]; exact congrArg (ActOut.ret · none)
            (frame_get_head ..))))
  | dotDigits d ds =>
    have hda : Asc (d :: ds) := h.asc @isDigit_lt
    have hall : Asc ([46] ++ ([d] ++ ds) ++ rest) := (Asc.cons (by decide) hda).append hr
    have hd : isAlpha d.toNat = false := by
      have h' : 48 ≤ d.toNat ∧ d.toNat ≤ 57 := by
        simpa [inCls, classMatches.inRanges] using h.head
      simp [inCls, classMatches.inRanges]; omega
    -- alternative 1: `.` then Identifier fails on the digit
    have f1 : Fails Pinned.Grammar.rule_26.shown (.action "onSelectorOrIndex2"
        (.seq [.lit [46] false, .labeled "ident" (.ruleRef "Identifier")])) []
        ([46] ++ ([d] ++ ds) ++ rest) off errs :=
      Fails.action (Fails.seq (FailsSeq.later (a := [46]) (rest := ([d] ++ ds) ++ rest)
        (Eats.lit [46] rfl (by decide) (hda.append hr))
        (FailsSeq.here (Fails.labeled (fails_Identifier (hda.append hr)
          (by simpa [headIn] using hd))))))
    -- alternative 2: no `[`
    have f2 : Fails Pinned.Grammar.rule_26.shown (.action "onSelectorOrIndex7"
        (.labeled "expr" (.ruleRef "IndexExpression"))) []
        ([46] ++ ([d] ++ ds) ++ rest) off errs :=
      Fails.action (Fails.labeled (fails_IndexExpression hall rfl))
    have hstop' : headIn isDigit rest = false := headIn_mono (fun _ => isDigit_idc) hstop
    have hseq := EatsSeq.cons (Eats.lit (rule := Pinned.Grammar.rule_26.shown) (fr := [])
        (off := off) (errs := errs) [46] rfl (by decide) (rest := ([d] ++ ds) ++ rest)
        (hda.append hr))
      (EatsSeq.one (Eats.labeled (l := "idx") (by decide)
        (Eats.plus (Eats.cls (isDigit_lt h.head) h.head (hda.tail.append hr))
          (EatsStar.cls ds hda.tail hr h.tail hstop'))))
    exact Eats.ref look_SelectorOrIndex (by decide) (Eats.choice_next f1 (Eats.choice_next f2
      (Eats.choice_hit (Eats.action (Eats.seq hseq)
        (by rw [act_of_sem sem_onSelectorOrIndex10]; rfl)))))
  | index ws₁ q body ws₂ val =>
    have hall : Asc ((PartSp.index ws₁ q body ws₂ val).text ++ rest) :=
      (PartSp.text_asc _ h).append hr
    have f1 : Fails Pinned.Grammar.rule_26.shown (.action "onSelectorOrIndex2"
        (.seq [.lit [46] false, .labeled "ident" (.ruleRef "Identifier")])) []
        ((PartSp.index ws₁ q body ws₂ val).text ++ rest) off errs :=
      Fails.action (Fails.seq (FailsSeq.here (Fails.lit [46] rfl (by decide) hall rfl)))
    exact Eats.ref look_SelectorOrIndex (by decide) (Eats.choice_next f1 (Eats.choice_hit
      (Eats.action (Eats.labeled (l := "expr") (by decide) (eats_IndexExpression h hr))
        (by rw [act_of_sem sem_onSelectorOrIndex7]; exact congrArg (ActOut.ret · none)
              (frame_get_head ..)))))

theorem fails_SelectorOrIndex (hs : Asc s) (h : stopsSel s) :
    Fails rule (.ruleRef "SelectorOrIndex") fr s off errs := by
  have hdot : GoString.isPrefixOf [46] s = false := by
    cases s with
    | nil => rfl
    | cons b t =>
      have : ¬ (46 : UInt8) = b := by
        intro hb; subst hb
        have h' : selCont (46 : UInt8).toNat = false := h
        revert h'; decide
      simp [GoString.isPrefixOf, this]
  have hbr : GoString.isPrefixOf [91] s = false := by
    cases s with
    | nil => rfl
    | cons b t =>
      have : ¬ (91 : UInt8) = b := by
        intro hb; subst hb
        have h' : selCont (91 : UInt8).toNat = false := h
        revert h'; decide
      simp [GoString.isPrefixOf, this]
  have hl : ∀ fr', Fails Pinned.Grammar.rule_26.shown (.lit [46] false) fr' s off errs :=
    fun _ => Fails.lit [46] rfl (by decide) hs hdot
  exact Fails.ref look_SelectorOrIndex (by decide)
    (Fails.choice_cons (Fails.action (Fails.seq (FailsSeq.here (hl _))))
      (Fails.choice_cons (Fails.action (Fails.labeled (fails_IndexExpression hs hbr)))
        (Fails.choice_cons (Fails.action (Fails.seq (FailsSeq.here (hl _)))) Fails.choice_nil)))


/-! ## 4. `Selector`, bexpr spelling -/

def partsText (ps : List PartSp) : GoString := ps.flatMap PartSp.text

theorem partsText_asc (ps : List PartSp) (h : ∀ p ∈ ps, p.WF) : Asc (partsText ps) := by
  induction ps with
  | nil => exact Asc.nil
  | cons p ps ih =>
    show Asc (p.text ++ partsText ps)
    exact (p.text_asc (h p (List.mem_cons_self ..))).append
      (ih fun q hq => h q (List.mem_cons_of_mem _ hq))

/-- what follows a part is not an identifier byte: the next part starts with `.` or `[` -/
theorem partsText_stop (ps : List PartSp) (hstop : stopsSel rest) :
    headIn isIdc (partsText ps ++ rest) = false := by
  cases ps with
  | nil => exact stopsSel_idc hstop
  | cons p ps =>
    obtain ⟨t, ht | ht⟩ := p.text_head
    · show headIn isIdc (p.text ++ partsText ps ++ rest) = false
      rw [ht]; rfl
    · show headIn isIdc (p.text ++ partsText ps ++ rest) = false
      rw [ht]; rfl

theorem eatsStar_parts (ps : List PartSp) (h : ∀ p ∈ ps, p.WF) (hstop : stopsSel rest)
    (hr : Asc rest) :
    EatsStar rule (.ruleRef "SelectorOrIndex") (partsText ps) rest off errs
      (ps.map fun p => .str p.part) := by
  induction ps generalizing off with
  | nil => exact EatsStar.stop (fails_SelectorOrIndex hr hstop)
  | cons p ps ih =>
    have hps : ∀ q ∈ ps, q.WF := fun q hq => h q (List.mem_cons_of_mem _ hq)
    exact EatsStar.more (a := p.text) (b := partsText ps)
      (eats_SelectorOrIndex p (h p (List.mem_cons_self ..)) (partsText_stop ps hstop)
        ((partsText_asc ps hps).append hr))
      (ih hps)

/-- a bexpr selector spelling: first identifier `b :: x`, then the parts -/
structure SelSp where
  b : UInt8
  x : GoString
  parts : List PartSp

def SelSp.text (σ : SelSp) : GoString := (σ.b :: σ.x) ++ partsText σ.parts
def SelSp.path (σ : SelSp) : List GoString := (σ.b :: σ.x) :: σ.parts.map PartSp.part
def SelSp.WF (σ : SelSp) : Prop :=
  isAlpha σ.b.toNat = true ∧ AllIn isIdc σ.x ∧ ∀ p ∈ σ.parts, p.WF

theorem SelSp.text_asc (σ : SelSp) (h : σ.WF) : Asc σ.text :=
  (Asc.cons (isAlpha_lt h.1) (h.2.1.asc @isIdc_lt)).append (partsText_asc _ h.2.2)

theorem asStrList_map (ps : List PartSp) :
    asStrList (ps.map fun p => PVal.str p.part) = some (ps.map PartSp.part) := by
  induction ps with
  | nil => rfl
  | cons p ps ih => simp [asStrList, ih]

/-- The rule `Selector` on a bexpr spelling yields the bexpr selector with the spelled path. -/
theorem eats_Selector_bexpr (σ : SelSp) (h : σ.WF) (hstop : stopsSel rest) (hr : Asc rest) :
    Eats rule (.ruleRef "Selector") fr σ.text rest off errs fr
      (.sel { ty := .bexpr, path := σ.path }) := by
  obtain ⟨hb, hx, hps⟩ := h
  have hpa := partsText_asc _ hps
  have hseq := EatsSeq.cons
    (Eats.labeled (rule := Pinned.Grammar.rule_23.shown) (l := "first") (fr := []) (by decide)
      (eats_Identifier (off := off) (errs := errs) hb hx (partsText_stop σ.parts hstop)
        (hpa.append hr)))
    (EatsSeq.one (Eats.labeled (l := "rest") (by decide)
      (Eats.star (eatsStar_parts σ.parts hps hstop hr))))
  refine Eats.ref look_Selector (by decide) (Eats.choice_hit (Eats.action (Eats.seq hseq) ?_))
  rw [act_of_sem sem_onSelector2]
  simp [runActionSem, Frame.get, List.find?, restStrings, asStrList_map, SelSp.path]


/-! ## 5. `Selector`, JSON-pointer spelling -/

section general_class
variable {chars ranges : List Nat} {classes : List String} {p : Nat → Bool}

theorem Eats.clsG (hcm : ∀ n, n < 128 → classMatches E chars ranges classes n = some (p n))
    {b : UInt8} (hb : b.toNat < 128) (hin : p b.toNat = true) (hr : Asc rest) :
    Eats rule (.charClass chars ranges classes false false) fr [b] rest off errs fr
      (.bytes [b]) := by
  have := Sem.class_ok (env := E) (g := G) (rule := rule) (fr := fr) (errs := errs)
    (pt := ptAt (b :: rest) off) (chars := chars) (ranges := ranges) (classes := classes)
    (inverted := false) (hit := true) (atEOF_cons _ _ hb)
    (by rw [ptAt_rn_cons _ _ hb, hcm _ hb, hin]) (by decide)
  rw [ptAt_next_cons _ _ hb, logRead_asc _ _ _ hr] at this
  have e : sliceFrom (ptAt (b :: rest) off) (ptAt rest (off + 1)) = [b] :=
    sliceFrom_ptAt [b] rest off
  rw [e] at this
  exact this

theorem Fails.clsG (hcm : ∀ n, n < 128 → classMatches E chars ranges classes n = some (p n))
    (hs : Asc s) (h : headIn p s = false) :
    Fails rule (.charClass chars ranges classes false false) fr s off errs := by
  cases s with
  | nil => exact ⟨_, _, Sem.class_eof (atEOF_nil off)⟩
  | cons b t =>
    have hb := hs.head
    refine ⟨_, _, Sem.class_fail (hit := false) (atEOF_cons _ _ hb) ?_ rfl⟩
    rw [ptAt_rn_cons _ _ hb, hcm _ hb]
    exact congrArg some h

theorem EatsStar.clsG (hcm : ∀ n, n < 128 → classMatches E chars ranges classes n = some (p n))
    (x : GoString) (hx : Asc x) (hr : Asc rest) (hin : AllIn p x)
    (hstop : headIn p rest = false) :
    EatsStar rule (.charClass chars ranges classes false false) x rest off errs (bytesOf x) := by
  induction x generalizing off with
  | nil => exact EatsStar.stop (Fails.clsG hcm hr hstop)
  | cons b t ih =>
    have h1 : Eats rule (.charClass chars ranges classes false false) [] [b] (t ++ rest) off errs
        [] (.bytes [b]) := Eats.clsG hcm hx.head hin.head (hx.tail.append hr)
    exact EatsStar.more h1 (ih hx.tail hin.tail)

end general_class

/-- ASCII members of `[\pL\pN-_.~:|]` -/
def segChar (n : Nat) : Bool :=
  (97 ≤ n && n ≤ 122) || (65 ≤ n && n ≤ 90) || (48 ≤ n && n ≤ 57) ||
    n == 45 || n == 95 || n == 46 || n == 126 || n == 58 || n == 124

/-- On ASCII the class `[\pL\pN-_.~:|]` (Go's `unicode.L`, `unicode.N` tables) is `segChar`. -/
theorem segClass_ascii : ∀ n, n < 128 →
    classMatches E [45, 95, 46, 126, 58, 124] [] ["L", "N"] n = some (segChar n) := by
  decide +kernel

/-- a pointer segment as written: non-empty, ASCII, over `[A-Za-z0-9-_.~:|]` -/
def SegOK (seg : GoString) : Prop := seg ≠ [] ∧ Asc seg ∧ AllIn segChar seg

def segsText (segs : List GoString) : GoString := segs.flatMap fun g => [47] ++ g

theorem segsText_asc (segs : List GoString) (h : ∀ g ∈ segs, SegOK g) : Asc (segsText segs) := by
  induction segs with
  | nil => exact Asc.nil
  | cons g gs ih =>
    show Asc (([47] ++ g) ++ segsText gs)
    exact (Asc.cons (by decide) (h g (List.mem_cons_self ..)).2.1).append
      (ih fun q hq => h q (List.mem_cons_of_mem _ hq))

/-- `JsonPointerSegment <- '/' [\pL\pN-_.~:|]+` returns the segment text -/
theorem eats_JsonPointerSegment {g : GoString} (hg : SegOK g) (hstop : headIn segChar rest = false)
    (hr : Asc rest) :
    Eats rule (.ruleRef "JsonPointerSegment") fr ([47] ++ g) rest off errs fr (.str g) := by
  obtain ⟨hne, hga, hgc⟩ := hg
  cases g with
  | nil => exact absurd rfl hne
  | cons c t =>
    have hseq := EatsSeq.cons (Eats.lit (rule := Pinned.Grammar.rule_24.shown) (fr := [])
        (off := off) (errs := errs) [47] rfl (by decide) (rest := ([c] ++ t) ++ rest)
        (hga.append hr))
      (EatsSeq.one (Eats.labeled (l := "ident") (by decide)
        (Eats.plus (Eats.clsG segClass_ascii hga.head hgc.head (hga.tail.append hr))
          (EatsStar.clsG segClass_ascii t hga.tail hr hgc.tail hstop))))
    exact Eats.ref look_JsonPointerSegment (by decide) (Eats.action (Eats.seq hseq)
      (by rw [act_of_sem sem_onJsonPointerSegment1]; rfl))

theorem fails_JsonPointerSegment (hs : Asc s) (h : GoString.isPrefixOf [47] s = false) :
    Fails rule (.ruleRef "JsonPointerSegment") fr s off errs :=
  Fails.ref look_JsonPointerSegment (by decide) (Fails.action (Fails.seq (FailsSeq.here
    (Fails.lit [47] rfl (by decide) hs h))))

theorem eatsStar_segs (segs : List GoString) (h : ∀ g ∈ segs, SegOK g) (hr : Asc rest) :
    EatsStar rule (.ruleRef "JsonPointerSegment") (segsText segs) ([34] ++ rest) off errs
      (segs.map .str) := by
  have hq : Asc ([34] ++ rest) := Asc.cons (by decide) hr
  induction segs generalizing off with
  | nil => exact EatsStar.stop (fails_JsonPointerSegment hq rfl)
  | cons g gs ih =>
    have hgs : ∀ q ∈ gs, SegOK q := fun q hq => h q (List.mem_cons_of_mem _ hq)
    have hstop : headIn segChar (segsText gs ++ ([34] ++ rest)) = false := by
      cases gs <;> rfl
    exact EatsStar.more (a := [47] ++ g) (b := segsText gs)
      (eats_JsonPointerSegment (h g (List.mem_cons_self ..)) hstop
        ((segsText_asc gs hgs).append hq))
      (ih hgs)

theorem asStrList_str (segs : List GoString) : asStrList (segs.map PVal.str) = some segs := by
  induction segs with
  | nil => rfl
  | cons p ps ih => simp [asStrList, ih]

/-- The rule `Selector` on `"/seg/seg…"` yields the JSON-pointer selector whose path is
    `pointerstructure.Parse` of the text (split at `/`, `~1` ↦ `/`, `~0` ↦ `~`). -/
theorem eats_Selector_segs (segs : List GoString) (h : ∀ g ∈ segs, SegOK g) (hr : Asc rest) :
    Eats rule (.ruleRef "Selector") fr ([34] ++ (segsText segs ++ [34])) rest off errs fr
      (.sel { ty := .jsonPointer, path := ptrParse segs }) := by
  have hsa := segsText_asc segs h
  have hall : Asc ([34] ++ (segsText segs ++ [34]) ++ rest) :=
    (Asc.cons (by decide) (hsa.append (Asc.cons (by decide) Asc.nil))).append hr
  -- alternative 1 fails: `"` is not a letter
  have f1 : Fails Pinned.Grammar.rule_23.shown (.action "onSelector2" (.seq [
      .labeled "first" (.ruleRef "Identifier"),
      .labeled "rest" (.zeroOrMore (.ruleRef "SelectorOrIndex"))])) []
      ([34] ++ (segsText segs ++ [34]) ++ rest) off errs :=
    Fails.action (Fails.seq (FailsSeq.here (Fails.labeled (fails_Identifier hall rfl))))
  have hseq := EatsSeq.cons (Eats.lit (rule := Pinned.Grammar.rule_23.shown) (fr := [])
      (off := off) (errs := errs) [34] rfl (by decide) (rest := (segsText segs ++ [34]) ++ rest)
      ((hsa.append (Asc.cons (by decide) Asc.nil)).append hr))
    (EatsSeq.cons (Eats.labeled (l := "ptrsegs") (by decide)
        (Eats.star (eatsStar_segs segs h hr)))
      (EatsSeq.one (Eats.lit [34] rfl (by decide) hr)))
  refine Eats.ref look_Selector (by decide) (Eats.choice_next f1 (Eats.choice_hit
    (Eats.action (Eats.seq hseq) ?_)))
  rw [act_of_sem sem_onSelector9]
  simp [runActionSem, Frame.get, List.find?, restStrings, asStrList_str]

/-- The JSON-pointer spelling of a path: `"` then `/` + RFC 6901-escaped element, for each
    element, then `"`. -/
def pointerText (path : List GoString) : GoString :=
  [34] ++ (segsText (path.map ptrEscape) ++ [34])

/-- `"/a/b~1c"` denotes the path `[a, b/c]`: the rule `Selector` on the pointer spelling of
    `path` yields `⟨.jsonPointer, path⟩`.  RESTRICTION: every escaped element is non-empty
    ASCII over `[A-Za-z0-9-_.~:|]`. -/
theorem eats_Selector_pointer (path : List GoString) (hne : path ≠ [])
    (h : ∀ p ∈ path, SegOK (ptrEscape p)) (hr : Asc rest) :
    Eats rule (.ruleRef "Selector") fr (pointerText path) rest off errs fr
      (.sel { ty := .jsonPointer, path := path }) := by
  have := eats_Selector_segs (rule := rule) (fr := fr) (off := off) (errs := errs)
    (path.map ptrEscape) (by
      intro g hg
      obtain ⟨p, hp, rfl⟩ := List.mem_map.1 hg
      exact h p hp) hr
  rw [pointer_parse_roundtrip path hne] at this
  exact this

end Bexpr.Proofs.RoundTrip
