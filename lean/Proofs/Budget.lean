import Bexpr.Peg.Engine

namespace Bexpr.Proofs.Budget
open Bexpr Bexpr.Peg

/-- The dispatch part of `eval` (everything after the tick and the budget check), abstracted
    over the closure `ev = eval env g max fuel` used for sub-expressions and the iteration
    bound `k = fuel` of the repetition loops.  It does not mention `max`. -/
def body (env : Env) (g : Grammar) (ev : String → PExpr → Frame → PState → PRes) (k : Nat)
    (rule : String) (e : PExpr) (fr : Frame) (st : PState) : PRes :=
  match e with
  | .action name inner =>
    let start := st.pt
    match ev rule inner fr st with
    | .ok st' fr' _ true =>
      match env.action name fr' (sliceFrom start st'.pt) with
      | .ret av none => .ok st' fr' av true
      | .ret av (some msg) => .ok (st'.addErr start.off rule (.action msg)) fr' av true
      | .panic msg => .abort st' msg
    | .ok st' fr' v false => .ok st' fr' v false
    | r => r
  | .andCode name =>
    match env.pred name fr with
    | .ret b none => .ok st fr .nil b
    | .ret b (some msg) => .ok (st.addErr st.pt.off rule (.action msg)) fr .nil b
    | .panic msg => .abort st msg
  | .notCode name =>
    match env.pred name fr with
    | .ret b none => .ok st fr .nil (!b)
    | .ret b (some msg) => .ok (st.addErr st.pt.off rule (.action msg)) fr .nil (!b)
    | .panic msg => .abort st msg
  | .andP inner =>
    let pt := st.pt
    match ev rule inner [] st with
    | .ok st' _ _ m => .ok { st' with pt := pt } fr .nil m
    | r => r
  | .notP inner =>
    let pt := st.pt
    match ev rule inner [] st with
    | .ok st' _ _ m => .ok { st' with pt := pt } fr .nil (!m)
    | r => r
  | .any =>
    if atEOF st.pt then .ok st fr .nil false
    else
      let st' := st.read rule
      .ok st' fr (.bytes (sliceFrom st.pt st'.pt)) true
  | .charClass chars ranges classes ignoreCase inverted =>
    if ignoreCase then .abort st "unsupported: ignoreCase class" else
    if atEOF st.pt then .ok st fr .nil false
    else
      match classMatches env chars ranges classes st.pt.rn with
      | none => .abort st "unsupported: unicode class"
      | some hit =>
        if hit != inverted then
          let st' := st.read rule
          .ok st' fr (.bytes (sliceFrom st.pt st'.pt)) true
        else .ok st fr .nil false
  | .choice alts => choiceLoop (ev rule) alts fr st
  | .labeled label inner =>
    match ev rule inner [] st with
    | .ok st' _ v true => .ok st' (if label != "" then fr.set label v else fr) v true
    | .ok st' _ v false => .ok st' fr v false
    | r => r
  | .lit val ignoreCase =>
    if ignoreCase then .abort st "unsupported: ignoreCase literal" else
    match litLoop rule val st with
    | (st', true) => .ok st' fr (.bytes (sliceFrom st.pt st'.pt)) true
    | (st', false) => .ok { st' with pt := st.pt } fr .nil false
  | .oneOrMore inner =>
    match ev rule inner [] st with
    | .ok st' _ v true => starLoop (ev rule inner) k fr st' [v]
    | .ok st' _ _ false => .ok st' fr .nil false
    | r => r
  | .ruleRef name =>
    if name == "" then .abort st "invalid rule: missing name" else
    match lookupRule g name with
    | none => .ok (st.addErr st.pt.off rule (.undefinedRule name)) fr .nil false
    | some r =>
      match ev r.shown r.expr [] st with
      | .ok st' _ v m => .ok st' fr v m
      | res => res
  | .seq es =>
    let pt := st.pt
    match seqLoop (ev rule) es fr st [] with
    | .ok st' fr' _ false => .ok { st' with pt := pt } fr' .nil false
    | r => r
  | .zeroOrMore inner => starLoop (ev rule inner) k fr st []
  | .zeroOrOne inner =>
    match ev rule inner [] st with
    | .ok st' _ v true => .ok st' fr v true
    | .ok st' _ _ false => .ok st' fr .nil true
    | r => r
  | .unsupported what => .abort st ("unsupported node: " ++ what)

theorem eval_zero (env : Env) (g : Grammar) (max : Nat) (rule : String) (e : PExpr)
    (fr : Frame) (st : PState) : eval env g max 0 rule e fr st = .fuelOut := by
  simp [eval]

theorem eval_succ (env : Env) (g : Grammar) (max fuel : Nat) (rule : String) (e : PExpr)
    (fr : Frame) (st0 : PState) :
    eval env g max (fuel + 1) rule e fr st0 =
      if st0.cnt + 1 > max then .exceeded { st0 with cnt := st0.cnt + 1 }
      else body env g (eval env g max fuel) fuel rule e fr { st0 with cnt := st0.cnt + 1 } := by
  cases e <;> rfl


/-! ## Final counter, and "the counter did not go down" -/

/-- The step counter of the state carried by a result (`0` for the model artefact). -/
def finalCnt : PRes → Nat
  | .ok st _ _ _ => st.cnt
  | .exceeded st => st.cnt
  | .abort st _ => st.cnt
  | .fuelOut => 0

/-- `n ≤` the counter of the final state (vacuous for `fuelOut`). -/
def CntGe (n : Nat) : PRes → Prop
  | .ok st _ _ _ => n ≤ st.cnt
  | .exceeded st => n ≤ st.cnt
  | .abort st _ => n ≤ st.cnt
  | .fuelOut => True

theorem CntGe.mono {m n : Nat} {r : PRes} (h : m ≤ n) (hr : CntGe n r) : CntGe m r := by
  cases r <;> simp_all [CntGe] <;> omega

theorem CntGe.finalCnt {n : Nat} {r : PRes} (hr : CntGe n r) (hne : r ≠ .fuelOut) :
    n ≤ finalCnt r := by
  cases r <;> simp_all [CntGe, Budget.finalCnt]

theorem seqLoop_cntGe (f : PExpr → Frame → PState → PRes)
    (hf : ∀ e fr st, CntGe st.cnt (f e fr st)) :
    ∀ es fr st acc, CntGe st.cnt (seqLoop f es fr st acc) := by
  intro es
  induction es with
  | nil => intro fr st acc; simp [seqLoop, CntGe]
  | cons e es ih =>
    intro fr st acc
    have h1 := hf e fr st
    cases h : f e fr st with
    | ok st' fr' v m =>
      rw [h] at h1
      cases m
      · simpa [seqLoop, h, CntGe] using h1
      · simp only [seqLoop, h]
        exact CntGe.mono h1 (ih fr' st' (v :: acc))
    | exceeded s => rw [h] at h1; simpa [seqLoop, h] using h1
    | abort s msg => rw [h] at h1; simpa [seqLoop, h] using h1
    | fuelOut => simp [seqLoop, h, CntGe]


theorem choiceLoop_cntGe (f : PExpr → Frame → PState → PRes)
    (hf : ∀ e fr st, CntGe st.cnt (f e fr st)) :
    ∀ as fr st, CntGe st.cnt (choiceLoop f as fr st) := by
  intro as
  induction as with
  | nil => intro fr st; simp [choiceLoop, CntGe]
  | cons a as ih =>
    intro fr st
    have h1 := hf a [] st
    cases h : f a [] st with
    | ok st' fr' v m =>
      rw [h] at h1
      cases m
      · simp only [choiceLoop, h]
        exact CntGe.mono h1 (ih fr st')
      · simpa [choiceLoop, h, CntGe] using h1
    | exceeded s => rw [h] at h1; simpa [choiceLoop, h] using h1
    | abort s msg => rw [h] at h1; simpa [choiceLoop, h] using h1
    | fuelOut => simp [choiceLoop, h, CntGe]

theorem starLoop_cntGe (f : Frame → PState → PRes)
    (hf : ∀ fr st, CntGe st.cnt (f fr st)) :
    ∀ k fr st acc, CntGe st.cnt (starLoop f k fr st acc) := by
  intro k
  induction k with
  | zero => intro fr st acc; simp [starLoop, CntGe]
  | succ k ih =>
    intro fr st acc
    have h1 := hf [] st
    cases h : f [] st with
    | ok st' fr' v m =>
      rw [h] at h1
      cases m
      · simpa [starLoop, h, CntGe] using h1
      · simp only [starLoop, h]
        exact CntGe.mono h1 (ih fr st' (v :: acc))
    | exceeded s => rw [h] at h1; simpa [starLoop, h] using h1
    | abort s msg => rw [h] at h1; simpa [starLoop, h] using h1
    | fuelOut => simp [starLoop, h, CntGe]

theorem litLoop_cnt (rule : String) : ∀ ws st, (litLoop rule ws st).1.cnt = st.cnt := by
  intro ws
  induction ws with
  | nil => intro st; simp [litLoop]
  | cons w ws ih =>
    intro st
    simp only [litLoop]
    split
    · rfl
    · rw [ih]; simp only [PState.read]; split <;> rfl

theorem read_cnt (st : PState) (rule : String) : (st.read rule).cnt = st.cnt := by
  simp only [PState.read]; split <;> rfl

theorem addErr_cnt (st : PState) (off : Nat) (rule : String) (k : ErrKind) :
    (st.addErr off rule k).cnt = st.cnt := rfl

theorem body_cntGe (env : Env) (g : Grammar) (ev : String → PExpr → Frame → PState → PRes)
    (hev : ∀ rule e fr st, CntGe st.cnt (ev rule e fr st))
    (k : Nat) (rule : String) (e : PExpr) (fr : Frame) (st : PState) :
    CntGe st.cnt (body env g ev k rule e fr st) := by
  cases e <;> simp only [body]
  case action name inner =>
    have h1 := hev rule inner fr st
    split
    · rename_i h; rw [h] at h1
      split <;> simpa [CntGe, addErr_cnt] using h1
    · rename_i h; rw [h] at h1; simpa [CntGe] using h1
    · exact h1
  case choice alts => exact choiceLoop_cntGe _ (hev rule) _ _ _
  case seq es =>
    have h1 := seqLoop_cntGe _ (hev rule) es fr st []
    split
    · rename_i h; rw [h] at h1; simpa [CntGe] using h1
    · exact h1
  case zeroOrMore inner => exact starLoop_cntGe _ (fun fr st => hev rule inner fr st) _ _ _ _
  case oneOrMore inner =>
    have h1 := hev rule inner [] st
    split
    · rename_i st' _ v h; rw [h] at h1
      exact CntGe.mono h1 (starLoop_cntGe _ (fun fr st => hev rule inner fr st) _ _ _ _)
    · rename_i h; rw [h] at h1; simpa [CntGe] using h1
    · exact h1
  case ruleRef name =>
    split
    · simp [CntGe]
    · split
      · simp [CntGe, addErr_cnt]
      · rename_i r _
        have h1 := hev r.shown r.expr [] st
        split
        · rename_i h; rw [h] at h1; simpa [CntGe] using h1
        · exact h1
  case andCode name => split <;> simp [CntGe, addErr_cnt]
  case notCode name => split <;> simp [CntGe, addErr_cnt]
  case any => split <;> simp [CntGe, read_cnt]
  case unsupported what => simp [CntGe]
  case charClass chars ranges classes ic inv =>
    repeat' split
    all_goals simp [CntGe, read_cnt]
  case lit val ic =>
    have h1 := litLoop_cnt rule val st
    repeat' split
    all_goals simp_all [CntGe]
  case andP inner =>
    have h1 := hev rule inner [] st
    split
    · rename_i h; rw [h] at h1; simpa [CntGe] using h1
    · exact h1
  case notP inner =>
    have h1 := hev rule inner [] st
    split
    · rename_i h; rw [h] at h1; simpa [CntGe] using h1
    · exact h1
  case labeled label inner =>
    have h1 := hev rule inner [] st
    split
    · rename_i h; rw [h] at h1; simpa [CntGe] using h1
    · rename_i h; rw [h] at h1; simpa [CntGe] using h1
    · exact h1
  case zeroOrOne inner =>
    have h1 := hev rule inner [] st
    split
    · rename_i h; rw [h] at h1; simpa [CntGe] using h1
    · rename_i h; rw [h] at h1; simpa [CntGe] using h1
    · exact h1


/-! ## The counter of a result is bounded by the budget -/

/-- A non-`exceeded` result carries a counter `≤ max`; an `exceeded` one exactly `max + 1`. -/
def Bnd (max : Nat) : PRes → Prop
  | .ok st _ _ _ => st.cnt ≤ max
  | .exceeded st => st.cnt = max + 1
  | .abort st _ => st.cnt ≤ max
  | .fuelOut => True

theorem seqLoop_bnd (max : Nat) (f : PExpr → Frame → PState → PRes)
    (hf : ∀ e fr st, st.cnt ≤ max → Bnd max (f e fr st)) :
    ∀ es fr st acc, st.cnt ≤ max → Bnd max (seqLoop f es fr st acc) := by
  intro es
  induction es with
  | nil => intro fr st acc hst; simpa [seqLoop, Bnd] using hst
  | cons e es ih =>
    intro fr st acc hst
    have h1 := hf e fr st hst
    cases h : f e fr st with
    | ok st' fr' v m =>
      rw [h] at h1
      cases m
      · simpa [seqLoop, h, Bnd] using h1
      · simp only [seqLoop, h]
        exact ih fr' st' (v :: acc) h1
    | exceeded s => rw [h] at h1; simpa [seqLoop, h] using h1
    | abort s msg => rw [h] at h1; simpa [seqLoop, h] using h1
    | fuelOut => simp [seqLoop, h, Bnd]

theorem choiceLoop_bnd (max : Nat) (f : PExpr → Frame → PState → PRes)
    (hf : ∀ e fr st, st.cnt ≤ max → Bnd max (f e fr st)) :
    ∀ as fr st, st.cnt ≤ max → Bnd max (choiceLoop f as fr st) := by
  intro as
  induction as with
  | nil => intro fr st hst; simpa [choiceLoop, Bnd] using hst
  | cons a as ih =>
    intro fr st hst
    have h1 := hf a [] st hst
    cases h : f a [] st with
    | ok st' fr' v m =>
      rw [h] at h1
      cases m
      · simp only [choiceLoop, h]
        exact ih fr st' h1
      · simpa [choiceLoop, h, Bnd] using h1
    | exceeded s => rw [h] at h1; simpa [choiceLoop, h] using h1
    | abort s msg => rw [h] at h1; simpa [choiceLoop, h] using h1
    | fuelOut => simp [choiceLoop, h, Bnd]

theorem starLoop_bnd (max : Nat) (f : Frame → PState → PRes)
    (hf : ∀ fr st, st.cnt ≤ max → Bnd max (f fr st)) :
    ∀ k fr st acc, st.cnt ≤ max → Bnd max (starLoop f k fr st acc) := by
  intro k
  induction k with
  | zero => intro fr st acc _; simp [starLoop, Bnd]
  | succ k ih =>
    intro fr st acc hst
    have h1 := hf [] st hst
    cases h : f [] st with
    | ok st' fr' v m =>
      rw [h] at h1
      cases m
      · simpa [starLoop, h, Bnd] using h1
      · simp only [starLoop, h]
        exact ih fr st' (v :: acc) h1
    | exceeded s => rw [h] at h1; simpa [starLoop, h] using h1
    | abort s msg => rw [h] at h1; simpa [starLoop, h] using h1
    | fuelOut => simp [starLoop, h, Bnd]

theorem body_bnd (env : Env) (g : Grammar) (max : Nat)
    (ev : String → PExpr → Frame → PState → PRes)
    (hev : ∀ rule e fr st, st.cnt ≤ max → Bnd max (ev rule e fr st))
    (k : Nat) (rule : String) (e : PExpr) (fr : Frame) (st : PState) (hst : st.cnt ≤ max) :
    Bnd max (body env g ev k rule e fr st) := by
  cases e <;> simp only [body]
  case action name inner =>
    have h1 := hev rule inner fr st hst
    split
    · rename_i h; rw [h] at h1
      split <;> simpa [Bnd, addErr_cnt] using h1
    · rename_i h; rw [h] at h1; simpa [Bnd] using h1
    · exact h1
  case choice alts => exact choiceLoop_bnd _ _ (hev rule) _ _ _ hst
  case seq es =>
    have h1 := seqLoop_bnd _ _ (hev rule) es fr st [] hst
    split
    · rename_i h; rw [h] at h1; simpa [Bnd] using h1
    · exact h1
  case zeroOrMore inner =>
    exact starLoop_bnd _ _ (fun fr st => hev rule inner fr st) _ _ _ _ hst
  case oneOrMore inner =>
    have h1 := hev rule inner [] st hst
    split
    · rename_i st' _ v h; rw [h] at h1
      exact starLoop_bnd _ _ (fun fr st => hev rule inner fr st) _ _ _ _ h1
    · rename_i h; rw [h] at h1; simpa [Bnd] using h1
    · exact h1
  case ruleRef name =>
    split
    · simpa [Bnd] using hst
    · split
      · simpa [Bnd, addErr_cnt] using hst
      · rename_i r _
        have h1 := hev r.shown r.expr [] st hst
        split
        · rename_i h; rw [h] at h1; simpa [Bnd] using h1
        · exact h1
  case andCode name => split <;> simpa [Bnd, addErr_cnt] using hst
  case notCode name => split <;> simpa [Bnd, addErr_cnt] using hst
  case any => split <;> simpa [Bnd, read_cnt] using hst
  case unsupported what => simpa [Bnd] using hst
  case charClass chars ranges classes ic inv =>
    repeat' split
    all_goals simpa [Bnd, read_cnt] using hst
  case lit val ic =>
    have h1 := litLoop_cnt rule val st
    repeat' split
    all_goals simp_all [Bnd]
  case andP inner =>
    have h1 := hev rule inner [] st hst
    split
    · rename_i h; rw [h] at h1; simpa [Bnd] using h1
    · exact h1
  case notP inner =>
    have h1 := hev rule inner [] st hst
    split
    · rename_i h; rw [h] at h1; simpa [Bnd] using h1
    · exact h1
  case labeled label inner =>
    have h1 := hev rule inner [] st hst
    split
    · rename_i h; rw [h] at h1; simpa [Bnd] using h1
    · rename_i h; rw [h] at h1; simpa [Bnd] using h1
    · exact h1
  case zeroOrOne inner =>
    have h1 := hev rule inner [] st hst
    split
    · rename_i h; rw [h] at h1; simpa [Bnd] using h1
    · rename_i h; rw [h] at h1; simpa [Bnd] using h1
    · exact h1

/-! ## `eval`: monotone counter and bounded counter -/

theorem eval_cntGe (env : Env) (g : Grammar) (max : Nat) :
    ∀ fuel rule e fr st, CntGe (st.cnt + 1) (eval env g max fuel rule e fr st) := by
  intro fuel
  induction fuel with
  | zero => intro rule e fr st; simp [eval_zero, CntGe]
  | succ fuel ih =>
    intro rule e fr st
    rw [eval_succ]
    split
    · simp [CntGe]
    · exact body_cntGe env g _ (fun rule e fr st => CntGe.mono (Nat.le_succ _) (ih rule e fr st))
        fuel rule e fr { st with cnt := st.cnt + 1 }

theorem eval_bnd (env : Env) (g : Grammar) (max : Nat) :
    ∀ fuel rule e fr st, st.cnt ≤ max → Bnd max (eval env g max fuel rule e fr st) := by
  intro fuel
  induction fuel with
  | zero => intro rule e fr st _; simp [eval_zero, Bnd]
  | succ fuel ih =>
    intro rule e fr st hst
    rw [eval_succ]
    split
    · simp only [Bnd]; omega
    · exact body_bnd env g max _ ih fuel rule e fr { st with cnt := st.cnt + 1 }
        (by simp only; omega)


/-! ## Fuel monotonicity -/

/-- `r'` agrees with `r` unless `r` ran out of fuel. -/
def FLe (r r' : PRes) : Prop := r ≠ .fuelOut → r' = r

theorem FLe.refl (r : PRes) : FLe r r := fun _ => rfl

theorem FLe.elim {r r' : PRes} (h : FLe r r') : r = .fuelOut ∨ r' = r := by
  cases r
  case fuelOut => exact .inl rfl
  all_goals exact .inr (h (by simp))

theorem seqLoop_fle (f f' : PExpr → Frame → PState → PRes)
    (hf : ∀ e fr st, FLe (f e fr st) (f' e fr st)) :
    ∀ es fr st acc, FLe (seqLoop f es fr st acc) (seqLoop f' es fr st acc) := by
  intro es
  induction es with
  | nil => intro fr st acc; exact FLe.refl _
  | cons e es ih =>
    intro fr st acc
    rcases (hf e fr st).elim with h | h
    · simp [seqLoop, h, FLe]
    · simp only [seqLoop, h]
      cases f e fr st with
      | ok st' fr' v m => cases m <;> simp only <;> first | exact ih _ _ _ | exact FLe.refl _
      | _ => exact FLe.refl _

theorem choiceLoop_fle (f f' : PExpr → Frame → PState → PRes)
    (hf : ∀ e fr st, FLe (f e fr st) (f' e fr st)) :
    ∀ as fr st, FLe (choiceLoop f as fr st) (choiceLoop f' as fr st) := by
  intro as
  induction as with
  | nil => intro fr st; exact FLe.refl _
  | cons a as ih =>
    intro fr st
    rcases (hf a [] st).elim with h | h
    · simp [choiceLoop, h, FLe]
    · simp only [choiceLoop, h]
      cases f a [] st with
      | ok st' fr' v m => cases m <;> simp only <;> first | exact ih _ _ | exact FLe.refl _
      | _ => exact FLe.refl _

theorem starLoop_fle (f f' : Frame → PState → PRes)
    (hf : ∀ fr st, FLe (f fr st) (f' fr st)) :
    ∀ k k' fr st acc, k ≤ k' → FLe (starLoop f k fr st acc) (starLoop f' k' fr st acc) := by
  intro k
  induction k with
  | zero => intro k' fr st acc _; simp [starLoop, FLe]
  | succ k ih =>
    intro k' fr st acc hk
    obtain ⟨k'', rfl⟩ : ∃ k'', k' = k'' + 1 := ⟨k' - 1, by omega⟩
    rcases (hf [] st).elim with h | h
    · simp [starLoop, h, FLe]
    · simp only [starLoop, h]
      cases f [] st with
      | ok st' fr' v m =>
        cases m <;> simp only <;> first | exact ih _ _ _ _ (by omega) | exact FLe.refl _
      | _ => exact FLe.refl _

theorem body_fle (env : Env) (g : Grammar) (ev ev' : String → PExpr → Frame → PState → PRes)
    (hev : ∀ rule e fr st, FLe (ev rule e fr st) (ev' rule e fr st))
    (k k' : Nat) (hk : k ≤ k') (rule : String) (e : PExpr) (fr : Frame) (st : PState) :
    FLe (body env g ev k rule e fr st) (body env g ev' k' rule e fr st) := by
  cases e <;> simp only [body]
  case choice alts => exact choiceLoop_fle _ _ (hev rule) _ _ _
  case seq es =>
    rcases (seqLoop_fle _ _ (hev rule) es fr st []).elim with h | h
    · simp [h, FLe]
    · rw [h]; exact FLe.refl _
  case zeroOrMore inner =>
    exact starLoop_fle _ _ (fun fr st => hev rule inner fr st) _ _ _ _ _ hk
  case oneOrMore inner =>
    rcases (hev rule inner [] st).elim with h | h
    · simp [h, FLe]
    · rw [h]
      cases ev rule inner [] st with
      | ok st' fr' v m =>
        cases m <;> simp only
        · exact FLe.refl _
        · exact starLoop_fle _ _ (fun fr st => hev rule inner fr st) _ _ _ _ _ hk
      | _ => exact FLe.refl _
  case ruleRef name =>
    split
    · exact FLe.refl _
    · split
      · exact FLe.refl _
      · rename_i r _
        rcases (hev r.shown r.expr [] st).elim with h | h
        · simp [h, FLe]
        · rw [h]; exact FLe.refl _
  case action name inner =>
    rcases (hev rule inner fr st).elim with h | h
    · simp [h, FLe]
    · rw [h]; exact FLe.refl _
  case andP inner =>
    rcases (hev rule inner [] st).elim with h | h
    · simp [h, FLe]
    · rw [h]; exact FLe.refl _
  case notP inner =>
    rcases (hev rule inner [] st).elim with h | h
    · simp [h, FLe]
    · rw [h]; exact FLe.refl _
  case labeled label inner =>
    rcases (hev rule inner [] st).elim with h | h
    · simp [h, FLe]
    · rw [h]; exact FLe.refl _
  case zeroOrOne inner =>
    rcases (hev rule inner [] st).elim with h | h
    · simp [h, FLe]
    · rw [h]; exact FLe.refl _
  all_goals exact FLe.refl _

theorem eval_fle (env : Env) (g : Grammar) (max : Nat) :
    ∀ fuel fuel' rule e fr st, fuel ≤ fuel' →
      FLe (eval env g max fuel rule e fr st) (eval env g max fuel' rule e fr st) := by
  intro fuel
  induction fuel with
  | zero => intro fuel' rule e fr st _; simp [eval_zero, FLe]
  | succ fuel ih =>
    intro fuel' rule e fr st hk
    obtain ⟨k'', rfl⟩ : ∃ k'', fuel' = k'' + 1 := ⟨fuel' - 1, by omega⟩
    rw [eval_succ, eval_succ]
    split
    · exact FLe.refl _
    · exact body_fle env g _ _ (fun rule e fr st => ih k'' rule e fr st (by omega))
        fuel k'' (by omega) rule e fr _


/-! ## Enough fuel: `fuelOut` is unreachable -/

theorem seqLoop_noFuelOut (max F : Nat) (f : PExpr → Frame → PState → PRes)
    (hM : ∀ e fr st, CntGe st.cnt (f e fr st))
    (hB : ∀ e fr st, st.cnt ≤ max → Bnd max (f e fr st))
    (hN : ∀ e fr st, st.cnt ≤ max → max + 1 ≤ F + st.cnt → f e fr st ≠ .fuelOut) :
    ∀ es fr st acc, st.cnt ≤ max → max + 1 ≤ F + st.cnt →
      seqLoop f es fr st acc ≠ .fuelOut := by
  intro es
  induction es with
  | nil => intro fr st acc _ _; simp [seqLoop]
  | cons e es ih =>
    intro fr st acc hst hF
    have h1 := hM e fr st
    have h2 := hB e fr st hst
    have h3 := hN e fr st hst hF
    cases h : f e fr st with
    | ok st' fr' v m =>
      rw [h] at h1 h2
      simp only [CntGe, Bnd] at h1 h2
      cases m
      · simp [seqLoop, h]
      · simp only [seqLoop, h]
        exact ih fr' st' (v :: acc) h2 (by omega)
    | exceeded s => simp [seqLoop, h]
    | abort s msg => simp [seqLoop, h]
    | fuelOut => exact absurd h h3

theorem choiceLoop_noFuelOut (max F : Nat) (f : PExpr → Frame → PState → PRes)
    (hM : ∀ e fr st, CntGe st.cnt (f e fr st))
    (hB : ∀ e fr st, st.cnt ≤ max → Bnd max (f e fr st))
    (hN : ∀ e fr st, st.cnt ≤ max → max + 1 ≤ F + st.cnt → f e fr st ≠ .fuelOut) :
    ∀ as fr st, st.cnt ≤ max → max + 1 ≤ F + st.cnt → choiceLoop f as fr st ≠ .fuelOut := by
  intro as
  induction as with
  | nil => intro fr st _ _; simp [choiceLoop]
  | cons a as ih =>
    intro fr st hst hF
    have h1 := hM a [] st
    have h2 := hB a [] st hst
    have h3 := hN a [] st hst hF
    cases h : f a [] st with
    | ok st' fr' v m =>
      rw [h] at h1 h2
      simp only [CntGe, Bnd] at h1 h2
      cases m
      · simp only [choiceLoop, h]
        exact ih fr st' h2 (by omega)
      · simp [choiceLoop, h]
    | exceeded s => simp [choiceLoop, h]
    | abort s msg => simp [choiceLoop, h]
    | fuelOut => exact absurd h h3

theorem starLoop_noFuelOut (max F : Nat) (f : Frame → PState → PRes)
    (hM : ∀ fr st, CntGe (st.cnt + 1) (f fr st))
    (hB : ∀ fr st, st.cnt ≤ max → Bnd max (f fr st))
    (hN : ∀ fr st, st.cnt ≤ max → max + 1 ≤ F + st.cnt → f fr st ≠ .fuelOut) :
    ∀ k fr st acc, st.cnt ≤ max → max + 1 ≤ F + st.cnt → max + 1 ≤ k + st.cnt →
      starLoop f k fr st acc ≠ .fuelOut := by
  intro k
  induction k with
  | zero => intro fr st acc hst _ hk; omega
  | succ k ih =>
    intro fr st acc hst hF hk
    have h1 := hM [] st
    have h2 := hB [] st hst
    have h3 := hN [] st hst hF
    cases h : f [] st with
    | ok st' fr' v m =>
      rw [h] at h1 h2
      simp only [CntGe, Bnd] at h1 h2
      cases m
      · simp [starLoop, h]
      · simp only [starLoop, h]
        exact ih fr st' (v :: acc) h2 (by omega) (by omega)
    | exceeded s => simp [starLoop, h]
    | abort s msg => simp [starLoop, h]
    | fuelOut => exact absurd h h3

theorem body_noFuelOut (env : Env) (g : Grammar) (max F : Nat)
    (ev : String → PExpr → Frame → PState → PRes)
    (hM : ∀ rule e fr st, CntGe (st.cnt + 1) (ev rule e fr st))
    (hB : ∀ rule e fr st, st.cnt ≤ max → Bnd max (ev rule e fr st))
    (hN : ∀ rule e fr st, st.cnt ≤ max → max + 1 ≤ F + st.cnt → ev rule e fr st ≠ .fuelOut)
    (k : Nat) (rule : String) (e : PExpr) (fr : Frame) (st : PState)
    (hst : st.cnt ≤ max) (hF : max + 1 ≤ F + st.cnt) (hk : max + 1 ≤ k + st.cnt) :
    body env g ev k rule e fr st ≠ .fuelOut := by
  have hM' : ∀ rule e fr st, CntGe st.cnt (ev rule e fr st) :=
    fun rule e fr st => CntGe.mono (Nat.le_succ _) (hM rule e fr st)
  cases e <;> simp only [body]
  case choice alts => exact choiceLoop_noFuelOut max F _ (hM' rule) (hB rule) (hN rule) _ _ _ hst hF
  case seq es =>
    have h1 := seqLoop_noFuelOut max F _ (hM' rule) (hB rule) (hN rule) es fr st [] hst hF
    split
    · simp
    · exact h1
  case zeroOrMore inner =>
    exact starLoop_noFuelOut max F _ (fun fr st => hM rule inner fr st)
      (fun fr st => hB rule inner fr st) (fun fr st => hN rule inner fr st) _ _ _ _ hst hF hk
  case oneOrMore inner =>
    have h1 := hM rule inner [] st
    have h2 := hB rule inner [] st hst
    have h3 := hN rule inner [] st hst hF
    split
    · rename_i st' _ v h
      rw [h] at h1 h2
      simp only [CntGe, Bnd] at h1 h2
      exact starLoop_noFuelOut max F _ (fun fr st => hM rule inner fr st)
        (fun fr st => hB rule inner fr st) (fun fr st => hN rule inner fr st) _ _ _ _ h2
        (by omega) (by omega)
    · simp
    · exact h3
  case ruleRef name =>
    split
    · simp
    · split
      · simp
      · rename_i r _
        have h3 := hN r.shown r.expr [] st hst hF
        split
        · simp
        · exact h3
  case action name inner =>
    have h3 := hN rule inner fr st hst hF
    split
    · split <;> simp
    · simp
    · exact h3
  case andP inner =>
    have h3 := hN rule inner [] st hst hF
    split
    · simp
    · exact h3
  case notP inner =>
    have h3 := hN rule inner [] st hst hF
    split
    · simp
    · exact h3
  case labeled label inner =>
    have h3 := hN rule inner [] st hst hF
    split
    · simp
    · simp
    · exact h3
  case zeroOrOne inner =>
    have h3 := hN rule inner [] st hst hF
    split
    · simp
    · simp
    · exact h3
  all_goals (repeat' split) <;> simp

theorem eval_noFuelOut (env : Env) (g : Grammar) (max : Nat) :
    ∀ fuel rule e fr st, st.cnt ≤ max → max + 1 ≤ fuel + st.cnt →
      eval env g max fuel rule e fr st ≠ .fuelOut := by
  intro fuel
  induction fuel with
  | zero => intro rule e fr st h1 h2; omega
  | succ fuel ih =>
    intro rule e fr st hst hF
    rw [eval_succ]
    split
    · simp
    · exact body_noFuelOut env g max fuel _ (eval_cntGe env g max fuel) (eval_bnd env g max fuel)
        ih fuel rule e fr _ (by simp only; omega) (by simp only; omega) (by simp only; omega)


/-! ## Budget simulation: a run under `max` against a run under `max' ≥ max` -/

/-- `r` (under the smaller budget `max`) simulates `r'` (under the larger budget): they agree
    when the larger run stayed within `max`, otherwise `r` stopped at exactly `max + 1`. -/
def Sim (max : Nat) (r r' : PRes) : Prop :=
  r' = .fuelOut ∨ (finalCnt r' ≤ max ∧ r = r') ∨
    (max < finalCnt r' ∧ ∃ s, r = .exceeded s ∧ s.cnt = max + 1)

theorem Sim.fuelOut {max : Nat} {r : PRes} : Sim max r .fuelOut := .inl rfl

theorem Sim.same {max : Nat} {r : PRes} (h : finalCnt r ≤ max) : Sim max r r :=
  .inr (.inl ⟨h, rfl⟩)

theorem Sim.exc {max n : Nat} {s : PState} {r' : PRes} (hs : s.cnt = max + 1) (hn : max < n)
    (hge : CntGe n r') : Sim max (.exceeded s) r' := by
  cases r'
  case fuelOut => exact .inl rfl
  all_goals
    refine .inr (.inr ⟨?_, s, rfl, hs⟩)
    simp only [CntGe] at hge
    simp only [finalCnt]
    omega

theorem seqLoop_sim (max : Nat) (f f' : PExpr → Frame → PState → PRes)
    (hM : ∀ e fr st, CntGe st.cnt (f' e fr st))
    (hS : ∀ e fr st, st.cnt ≤ max → Sim max (f e fr st) (f' e fr st)) :
    ∀ es fr st acc, st.cnt ≤ max →
      Sim max (seqLoop f es fr st acc) (seqLoop f' es fr st acc) := by
  intro es
  induction es with
  | nil => intro fr st acc hst; exact Sim.same (by simpa [seqLoop, finalCnt] using hst)
  | cons e es ih =>
    intro fr st acc hst
    have h1 := hS e fr st hst
    simp only [seqLoop]
    generalize f e fr st = X at h1 ⊢
    generalize f' e fr st = X' at h1 ⊢
    rcases h1 with rfl | ⟨hle, rfl⟩ | ⟨hlt, s, rfl, hs⟩
    · exact Sim.fuelOut
    · cases X with
      | ok st' fr' v m =>
        simp only [finalCnt] at hle
        cases m <;> simp only
        · exact Sim.same hle
        · exact ih _ _ _ hle
      | exceeded s => exact Sim.same hle
      | abort s msg => exact Sim.same hle
      | fuelOut => exact Sim.fuelOut
    · simp only
      cases X' with
      | ok st' fr' v m =>
        simp only [finalCnt] at hlt
        cases m <;> simp only
        · exact Sim.exc hs hlt (by simp [CntGe])
        · exact Sim.exc hs hlt (seqLoop_cntGe _ hM _ _ _ _)
      | exceeded s' => exact Sim.exc hs hlt (by simp [CntGe, finalCnt])
      | abort s' msg => exact Sim.exc hs hlt (by simp [CntGe, finalCnt])
      | fuelOut => exact Sim.fuelOut


theorem choiceLoop_sim (max : Nat) (f f' : PExpr → Frame → PState → PRes)
    (hM : ∀ e fr st, CntGe st.cnt (f' e fr st))
    (hS : ∀ e fr st, st.cnt ≤ max → Sim max (f e fr st) (f' e fr st)) :
    ∀ as fr st, st.cnt ≤ max → Sim max (choiceLoop f as fr st) (choiceLoop f' as fr st) := by
  intro as
  induction as with
  | nil => intro fr st hst; exact Sim.same (by simpa [choiceLoop, finalCnt] using hst)
  | cons a as ih =>
    intro fr st hst
    have h1 := hS a [] st hst
    simp only [choiceLoop]
    generalize f a [] st = X at h1 ⊢
    generalize f' a [] st = X' at h1 ⊢
    rcases h1 with rfl | ⟨hle, rfl⟩ | ⟨hlt, s, rfl, hs⟩
    · exact Sim.fuelOut
    · cases X with
      | ok st' fr' v m =>
        simp only [finalCnt] at hle
        cases m <;> simp only
        · exact ih _ _ hle
        · exact Sim.same hle
      | exceeded s => exact Sim.same hle
      | abort s msg => exact Sim.same hle
      | fuelOut => exact Sim.fuelOut
    · simp only
      cases X' with
      | ok st' fr' v m =>
        simp only [finalCnt] at hlt
        cases m <;> simp only
        · exact Sim.exc hs hlt (choiceLoop_cntGe _ hM _ _ _)
        · exact Sim.exc hs hlt (by simp [CntGe])
      | exceeded s' => exact Sim.exc hs hlt (by simp [CntGe, finalCnt])
      | abort s' msg => exact Sim.exc hs hlt (by simp [CntGe, finalCnt])
      | fuelOut => exact Sim.fuelOut

theorem starLoop_sim (max : Nat) (f f' : Frame → PState → PRes)
    (hM : ∀ fr st, CntGe st.cnt (f' fr st))
    (hS : ∀ fr st, st.cnt ≤ max → Sim max (f fr st) (f' fr st)) :
    ∀ k fr st acc, st.cnt ≤ max →
      Sim max (starLoop f k fr st acc) (starLoop f' k fr st acc) := by
  intro k
  induction k with
  | zero => intro fr st acc _; exact Sim.fuelOut
  | succ k ih =>
    intro fr st acc hst
    have h1 := hS [] st hst
    simp only [starLoop]
    generalize f [] st = X at h1 ⊢
    generalize f' [] st = X' at h1 ⊢
    rcases h1 with rfl | ⟨hle, rfl⟩ | ⟨hlt, s, rfl, hs⟩
    · exact Sim.fuelOut
    · cases X with
      | ok st' fr' v m =>
        simp only [finalCnt] at hle
        cases m <;> simp only
        · exact Sim.same hle
        · exact ih _ _ _ hle
      | exceeded s => exact Sim.same hle
      | abort s msg => exact Sim.same hle
      | fuelOut => exact Sim.fuelOut
    · simp only
      cases X' with
      | ok st' fr' v m =>
        simp only [finalCnt] at hlt
        cases m <;> simp only
        · exact Sim.exc hs hlt (by simp [CntGe])
        · exact Sim.exc hs hlt (starLoop_cntGe _ hM _ _ _ _)
      | exceeded s' => exact Sim.exc hs hlt (by simp [CntGe, finalCnt])
      | abort s' msg => exact Sim.exc hs hlt (by simp [CntGe, finalCnt])
      | fuelOut => exact Sim.fuelOut

/-- Post-processing of one sub-result that keeps the counter, passes `exceeded` through
    unchanged and maps `fuelOut` to `fuelOut` preserves the simulation. -/
theorem Sim.map {max : Nat} {r r' : PRes} (post : PRes → PRes)
    (hexc : ∀ s, post (.exceeded s) = .exceeded s)
    (hfo : post .fuelOut = .fuelOut)
    (hcnt : ∀ x, finalCnt (post x) = finalCnt x)
    (h : Sim max r r') : Sim max (post r) (post r') := by
  rcases h with rfl | ⟨hle, rfl⟩ | ⟨hlt, s, rfl, hs⟩
  · rw [hfo]; exact Sim.fuelOut
  · exact Sim.same (by rw [hcnt]; exact hle)
  · rw [hexc]
    by_cases hf : post r' = .fuelOut
    · rw [hf]; exact Sim.fuelOut
    · refine .inr (.inr ⟨by rw [hcnt]; exact hlt, s, rfl, hs⟩)


theorem Sim.map' {max : Nat} (post : PRes → PRes)
    (hexc : ∀ s, post (.exceeded s) = .exceeded s)
    (hfo : post .fuelOut = .fuelOut)
    (hcnt : ∀ x, finalCnt (post x) = finalCnt x) :
    ∀ r r', Sim max r r' → Sim max (post r) (post r') :=
  fun _ _ h => Sim.map post hexc hfo hcnt h

/-- Discharges `∀ X X', Sim max X X' → Sim max (post X) (post X')` for the simple
    post-processing matches of `body`. -/
local macro "sim_post" : tactic => `(tactic| (
    refine Sim.map' _ ?_ ?_ ?_
    · intro s; rfl
    · rfl
    · intro x
      cases x with
      | ok st' fr' v m => cases m <;> rfl
      | _ => rfl))

theorem body_sim (env : Env) (g : Grammar) (max : Nat)
    (ev ev' : String → PExpr → Frame → PState → PRes)
    (hM : ∀ rule e fr st, CntGe st.cnt (ev' rule e fr st))
    (hS : ∀ rule e fr st, st.cnt ≤ max → Sim max (ev rule e fr st) (ev' rule e fr st))
    (k : Nat) (rule : String) (e : PExpr) (fr : Frame) (st : PState) (hst : st.cnt ≤ max) :
    Sim max (body env g ev k rule e fr st) (body env g ev' k rule e fr st) := by
  cases e <;> simp only [body]
  case action name inner =>
    have h1 := hS rule inner fr st hst
    generalize ev rule inner fr st = X at h1 ⊢
    generalize ev' rule inner fr st = X' at h1 ⊢
    revert X X'
    refine Sim.map' _ ?_ ?_ ?_
    · intro s; rfl
    · rfl
    · intro x
      cases x with
      | ok st' fr' v m =>
        cases m
        · rfl
        · dsimp only
          split <;> simp [finalCnt, addErr_cnt]
      | _ => rfl
  case andP inner =>
    have h1 := hS rule inner [] st hst
    generalize ev rule inner [] st = X at h1 ⊢
    generalize ev' rule inner [] st = X' at h1 ⊢
    revert X X'
    sim_post
  case notP inner =>
    have h1 := hS rule inner [] st hst
    generalize ev rule inner [] st = X at h1 ⊢
    generalize ev' rule inner [] st = X' at h1 ⊢
    revert X X'
    sim_post
  case labeled label inner =>
    have h1 := hS rule inner [] st hst
    generalize ev rule inner [] st = X at h1 ⊢
    generalize ev' rule inner [] st = X' at h1 ⊢
    revert X X'
    sim_post
  case zeroOrOne inner =>
    have h1 := hS rule inner [] st hst
    generalize ev rule inner [] st = X at h1 ⊢
    generalize ev' rule inner [] st = X' at h1 ⊢
    revert X X'
    sim_post
  case seq es =>
    have h1 := seqLoop_sim max _ _ (hM rule) (hS rule) es fr st [] hst
    generalize seqLoop (ev rule) es fr st [] = X at h1 ⊢
    generalize seqLoop (ev' rule) es fr st [] = X' at h1 ⊢
    revert X X'
    sim_post
  case ruleRef name =>
    split
    · exact Sim.same (by simpa [finalCnt] using hst)
    · split
      · exact Sim.same (by simpa [finalCnt, addErr_cnt] using hst)
      · rename_i r _
        have h1 := hS r.shown r.expr [] st hst
        generalize ev r.shown r.expr [] st = X at h1 ⊢
        generalize ev' r.shown r.expr [] st = X' at h1 ⊢
        revert X X'
        sim_post
  case choice alts => exact choiceLoop_sim max _ _ (hM rule) (hS rule) _ _ _ hst
  case zeroOrMore inner =>
    exact starLoop_sim max _ _ (fun fr st => hM rule inner fr st)
      (fun fr st => hS rule inner fr st) _ _ _ _ hst
  case oneOrMore inner =>
    have h1 := hS rule inner [] st hst
    generalize ev rule inner [] st = X at h1 ⊢
    generalize ev' rule inner [] st = X' at h1 ⊢
    rcases h1 with rfl | ⟨hle, rfl⟩ | ⟨hlt, s, rfl, hs⟩
    · exact Sim.fuelOut
    · cases X with
      | ok st' fr' v m =>
        simp only [finalCnt] at hle
        cases m <;> simp only
        · exact Sim.same hle
        · exact starLoop_sim max _ _ (fun fr st => hM rule inner fr st)
            (fun fr st => hS rule inner fr st) _ _ _ _ hle
      | exceeded s => exact Sim.same hle
      | abort s msg => exact Sim.same hle
      | fuelOut => exact Sim.fuelOut
    · simp only
      cases X' with
      | ok st' fr' v m =>
        simp only [finalCnt] at hlt
        cases m <;> simp only
        · exact Sim.exc hs hlt (by simp [CntGe])
        · exact Sim.exc hs hlt (starLoop_cntGe _ (fun fr st => hM rule inner fr st) _ _ _ _)
      | exceeded s' => exact Sim.exc hs hlt (by simp [CntGe, finalCnt])
      | abort s' msg => exact Sim.exc hs hlt (by simp [CntGe, finalCnt])
      | fuelOut => exact Sim.fuelOut
  case andCode name =>
    apply Sim.same; split <;> simpa [finalCnt, addErr_cnt] using hst
  case notCode name =>
    apply Sim.same; split <;> simpa [finalCnt, addErr_cnt] using hst
  case any =>
    apply Sim.same; split <;> simpa [finalCnt, read_cnt] using hst
  case unsupported what => exact Sim.same (by simpa [finalCnt] using hst)
  case charClass chars ranges classes ic inv =>
    apply Sim.same
    repeat' split
    all_goals simpa [finalCnt, read_cnt] using hst
  case lit val ic =>
    apply Sim.same
    have h1 := litLoop_cnt rule val st
    repeat' split
    all_goals simp_all [finalCnt]


theorem eval_cntGe_weak (env : Env) (g : Grammar) (max fuel : Nat) (rule : String) (e : PExpr)
    (fr : Frame) (st : PState) : CntGe st.cnt (eval env g max fuel rule e fr st) :=
  CntGe.mono (Nat.le_succ _) (eval_cntGe env g max fuel rule e fr st)

theorem eval_sim (env : Env) (g : Grammar) (max max' : Nat) (hmax : max ≤ max') :
    ∀ fuel rule e fr st, st.cnt ≤ max →
      Sim max (eval env g max fuel rule e fr st) (eval env g max' fuel rule e fr st) := by
  intro fuel
  induction fuel with
  | zero => intro rule e fr st _; rw [eval_zero, eval_zero]; exact Sim.fuelOut
  | succ fuel ih =>
    intro rule e fr st hst
    rw [eval_succ, eval_succ]
    by_cases h' : st.cnt + 1 > max'
    · rw [if_pos h', if_pos (by omega)]
      exact Sim.exc (n := st.cnt + 1) (by simp only; omega) (by omega) (by simp [CntGe])
    · rw [if_neg h']
      by_cases h : st.cnt + 1 > max
      · rw [if_pos h]
        exact Sim.exc (n := st.cnt + 1) (by simp only; omega) (by omega)
          (body_cntGe env g _ (eval_cntGe_weak env g max' fuel) fuel rule e fr
            { st with cnt := st.cnt + 1 })
      · rw [if_neg h]
        exact body_sim env g max _ _ (eval_cntGe_weak env g max' fuel) ih fuel rule e fr _
          (by simp only; omega)


/-! ## The top level `run`, factored through the effective budget -/

/-- The epilogue of `(*parser).parse`: how `run` turns the result of the start rule into the
    outcome (the final `match` of `run`). -/
def outOf : PRes → ParseOut
  | .ok st _ v true => { val := v, errs := st.errs.reverse, cnt := st.cnt }
  | .ok st _ _ false =>
    if st.errs.isEmpty then
      { val := .nil, errs := [{ off := 0, rule := "", kind := .noMatch }], cnt := st.cnt }
    else { val := .nil, errs := st.errs.reverse, cnt := st.cnt }
  | .exceeded st =>
    { val := .nil, errs := (st.addErr st.pt.off "" .maxExpr).errs.reverse, cnt := st.cnt }
  | .abort st msg =>
    { val := .nil, errs := (st.addErr st.pt.off "" (.panic msg)).errs.reverse, cnt := st.cnt }
  | .fuelOut =>
    { val := .nil, errs := [{ off := 0, rule := "", kind := .panic "fuel" }], cnt := 0 }

/-- The state in which `run` calls the start rule. -/
def initState (input : GoString) : PState :=
  PState.read { pt := { rest := input, off := 0, rn := 0, w := 0 }, cnt := 0, errs := [] } ""

theorem initState_cnt (input : GoString) : (initState input).cnt = 0 := by
  simp [initState, read_cnt]

/-- `run` with the effective budget `max` given directly. -/
def runMax (env : Env) (g : Grammar) (max : Nat) (input : GoString) : ParseOut :=
  match g with
  | [] => { val := .nil, errs := [{ off := 0, rule := "", kind := .noRule }], cnt := 0 }
  | r0 :: _ =>
    match lookupRule g r0.name with
    | none => { val := .nil, errs := [], cnt := 0 }
    | some start =>
      outOf (eval env g max (max + 2) start.shown start.expr [] (initState input))

theorem run_eq_runMax (env : Env) (g : Grammar) (n : Nat) (input : GoString) :
    run env g n input = runMax env g (effectiveMax n) input := by
  cases g with
  | nil => rfl
  | cons r0 rs =>
    cases h : lookupRule (r0 :: rs) r0.name with
    | none => simp only [run, runMax, h]
    | some start =>
      simp only [run, runMax, h, initState]
      generalize eval env _ _ _ _ _ _ _ = R
      cases R with
      | ok st fr v m => cases m <;> rfl
      | _ => rfl

theorem outOf_cnt (r : PRes) : (outOf r).cnt = finalCnt r := by
  cases r with
  | ok st fr v m =>
    cases m
    · simp only [outOf, finalCnt]; split <;> rfl
    · rfl
  | _ => rfl

theorem Bnd.finalCnt_le {max : Nat} {r : PRes} (h : Bnd max r) : finalCnt r ≤ max + 1 := by
  cases r <;> simp only [Bnd] at h <;> simp only [finalCnt] <;> omega

/-- Two budgets `max ≤ max'`, each run with its own fuel `max + 2` as in `run`, from a state
    with counter `0`: the smaller run simulates the larger one, and neither runs out of fuel. -/
theorem eval_two_budgets (env : Env) (g : Grammar) (max max' : Nat) (hmax : max ≤ max')
    (rule : String) (e : PExpr) (fr : Frame) (st : PState) (hst : st.cnt = 0) :
    Sim max (eval env g max (max + 2) rule e fr st) (eval env g max' (max' + 2) rule e fr st) ∧
      eval env g max' (max' + 2) rule e fr st ≠ .fuelOut := by
  have hN := eval_noFuelOut env g max (max + 2) rule e fr st (by omega) (by omega)
  have hN' := eval_noFuelOut env g max' (max' + 2) rule e fr st (by omega) (by omega)
  have hF : eval env g max (max' + 2) rule e fr st = eval env g max (max + 2) rule e fr st :=
    eval_fle env g max (max + 2) (max' + 2) rule e fr st (by omega) hN
  have hS := eval_sim env g max max' hmax (max' + 2) rule e fr st (by omega)
  rw [hF] at hS
  exact ⟨hS, hN'⟩

/-- `outOf` of a simulating pair. -/
theorem outOf_sim {max : Nat} {r r' : PRes} (h : Sim max r r') (hne : r' ≠ .fuelOut) :
    ((outOf r').cnt ≤ max → outOf r = outOf r') ∧
    (max < (outOf r').cnt →
      (outOf r).val = .nil ∧ (∃ e ∈ (outOf r).errs, e.kind = .maxExpr) ∧
        (outOf r).cnt = max + 1) := by
  rw [outOf_cnt]
  rcases h with h | ⟨hle, h⟩ | ⟨hlt, s, h, hs⟩
  · exact absurd h hne
  · exact ⟨fun _ => by rw [h], fun hlt => by omega⟩
  · refine ⟨fun hle => by omega, fun _ => ?_⟩
    subst h
    refine ⟨rfl, ⟨{ off := s.pt.off, rule := "", kind := .maxExpr }, ?_, rfl⟩, hs⟩
    simp [outOf, PState.addErr]

/-- The budget theorem for `runMax`: compare any two effective budgets `max ≤ max'`. -/
theorem runMax_sim (env : Env) (g : Grammar) (max max' : Nat) (hmax : max ≤ max')
    (input : GoString) :
    ((runMax env g max' input).cnt ≤ max → runMax env g max input = runMax env g max' input) ∧
    (max < (runMax env g max' input).cnt →
      (runMax env g max input).val = .nil ∧
      (∃ e ∈ (runMax env g max input).errs, e.kind = .maxExpr) ∧
      (runMax env g max input).cnt = max + 1) := by
  cases g with
  | nil => exact ⟨fun _ => rfl, fun h => by simp [runMax] at h⟩
  | cons r0 rs =>
    simp only [runMax]
    split
    · exact ⟨fun _ => rfl, fun h => by simp at h⟩
    · rename_i start _
      have h := eval_two_budgets env (r0 :: rs) max max' hmax start.shown start.expr []
        (initState input) (initState_cnt input)
      exact outOf_sim h.1 h.2

/-- A run under the effective budget `max` never counts past `max + 1`. -/
theorem runMax_cnt_le (env : Env) (g : Grammar) (max : Nat) (input : GoString) :
    (runMax env g max input).cnt ≤ max + 1 := by
  cases g with
  | nil => simp [runMax]
  | cons r0 rs =>
    simp only [runMax]
    split
    · simp
    · rename_i start _
      rw [outOf_cnt]
      exact (eval_bnd env (r0 :: rs) max (max + 2) start.shown start.expr [] (initState input)
        (by rw [initState_cnt]; omega)).finalCnt_le

end Bexpr.Proofs.Budget
