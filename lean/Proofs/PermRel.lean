/-
  Instance 1 of the two-run theorem: values equal up to the order of map entries (C14).

  A Go map is modelled as an association list = ONE arbitrary runtime iteration order.
  `PermEq v v'` : `v'` is `v` with the entry list of every map (anywhere inside) permuted; every
  such map has pairwise distinct keys (`keysDistinct`, true of every Go map).

  NaN keys: `fkeyEq` is not reflexive on NaN float keys, so a map may hold several NaN keys and
  `keysDistinct` is still true.  That is harmless here: no lookup key ever matches a NaN entry
  (`KeysUnique` below is phrased by "no lookup key matches two entries", which `keysDistinct`
  implies because IEEE `==` is Euclidean: `a == q ∧ b == q → b == a`).
-/
import Proofs.Relational
import Bexpr.Go.WF
import Proofs.Total

namespace Bexpr.Proofs.PermRel
open Bexpr Bexpr.Go Bexpr.Eval Bexpr.Proofs.Rel

/-! ## `strLe` is a total order on byte strings; sorting forgets the input order -/

theorem strLe_total : ∀ (a b : GoString), (strLe a b || strLe b a) = true
  | [], _ => by simp [strLe]
  | _ :: _, [] => by simp [strLe]
  | x :: xs, y :: ys => by
    have ih := strLe_total xs ys
    simp only [strLe, Bool.or_eq_true, Bool.and_eq_true, decide_eq_true_eq, beq_iff_eq] at ih ⊢
    rcases Nat.lt_trichotomy x.toNat y.toNat with h | h | h
    · exact .inl (.inl (UInt8.lt_iff_toNat_lt.2 h))
    · have hxy : x = y := UInt8.toNat_inj.1 h
      rcases ih with h' | h'
      · exact .inl (.inr ⟨hxy, h'⟩)
      · exact .inr (.inr ⟨hxy.symm, h'⟩)
    · exact .inr (.inl (UInt8.lt_iff_toNat_lt.2 h))

theorem strLe_trans : ∀ (a b c : GoString), strLe a b = true → strLe b c = true → strLe a c = true
  | [], _, _ => by simp [strLe]
  | _ :: _, [], _ => by simp [strLe]
  | _ :: _, _ :: _, [] => by simp [strLe]
  | x :: xs, y :: ys, z :: zs => by
    have ih := strLe_trans xs ys zs
    simp only [strLe, Bool.or_eq_true, Bool.and_eq_true, decide_eq_true_eq, beq_iff_eq] at ih ⊢
    simp only [UInt8.lt_iff_toNat_lt, ← UInt8.toNat_inj]
    intro h1 h2
    rcases h1 with h1 | ⟨h1, h1'⟩ <;> rcases h2 with h2 | ⟨h2, h2'⟩
    · exact .inl (by omega)
    · exact .inl (by omega)
    · exact .inl (by omega)
    · exact .inr ⟨by omega, ih h1' h2'⟩

theorem strLe_antisymm : ∀ (a b : GoString), strLe a b = true → strLe b a = true → a = b
  | [], [] => by simp
  | [], _ :: _ => by simp [strLe]
  | _ :: _, [] => by simp [strLe]
  | x :: xs, y :: ys => by
    have ih := strLe_antisymm xs ys
    simp only [strLe, Bool.or_eq_true, Bool.and_eq_true, decide_eq_true_eq, beq_iff_eq,
      List.cons.injEq]
    simp only [UInt8.lt_iff_toNat_lt, ← UInt8.toNat_inj]
    intro h1 h2
    rcases h1 with h1 | ⟨h1, h1'⟩ <;> rcases h2 with h2 | ⟨h2, h2'⟩
    · omega
    · omega
    · omega
    · exact ⟨h1, ih h1' h2'⟩

/-- `sortKeys` is a function of the multiset of keys. -/
theorem sortKeys_perm {ks ks' : List GoString} (h : ks.Perm ks') : sortKeys ks = sortKeys ks' := by
  unfold sortKeys
  apply List.Perm.eq_of_pairwise (le := fun a b => strLe a b = true)
  · intro a b _ _ h1 h2; exact strLe_antisymm a b h1 h2
  · exact List.pairwise_mergeSort strLe_trans strLe_total ks
  · exact List.pairwise_mergeSort strLe_trans strLe_total ks'
  · exact (List.mergeSort_perm ks strLe).trans (h.trans (List.mergeSort_perm ks' strLe).symm)

/-! ## Lookups in a permuted entry list -/

theorem find?_perm {α} (P : α → Bool) {l l' : List α} (hp : l.Perm l')
    (hu : l.Pairwise fun a b => P a = true → P b = true → False) : l.find? P = l'.find? P := by
  induction hp with
  | nil => rfl
  | cons x _ ih =>
    rw [List.pairwise_cons] at hu
    simp only [List.find?_cons, ih hu.2]
  | swap x y l =>
    rw [List.pairwise_cons, List.pairwise_cons] at hu
    have hxy := hu.1 x (by simp)
    simp only [List.find?_cons]
    cases hx : P x <;> cases hy : P y <;> simp_all
  | trans h1 _ ih1 ih2 =>
    have hu2 := hu.perm h1 (fun {x y} h hy hx => h hx hy)
    rw [ih1 hu, ih2 hu2]

/-! ## `keyEq` is Euclidean, so distinct keys are never matched by the same lookup key -/

theorem keyEqScalar_eucl {f : Nat → Nat → Nat → Bool}
    (hf : ∀ w x y z, f w x y = true → f w z y = true → f w z x = true) (a q b : GoVal)
    (h : keyEqScalar f a q = true) (hb : keyEqScalar f b q = true) : keyEqScalar f b a = true := by
  cases a <;> cases q <;> simp only [keyEqScalar, Bool.false_eq_true] at h <;>
    cases b <;> simp only [keyEqScalar, Bool.false_eq_true] at hb ⊢ <;>
    simp only [Bool.and_eq_true, beq_iff_eq] at h hb ⊢
  · obtain ⟨rfl, rfl⟩ := h; exact hb
  · obtain ⟨⟨rfl, rfl⟩, rfl⟩ := h; exact hb
  · obtain ⟨⟨rfl, rfl⟩, rfl⟩ := h; exact hb
  · obtain ⟨⟨rfl, rfl⟩, hxy⟩ := h
    obtain ⟨⟨rfl, rfl⟩, hz⟩ := hb
    exact ⟨⟨rfl, rfl⟩, hf _ _ _ _ hxy hz⟩
  · obtain ⟨rfl, rfl⟩ := h; exact hb

theorem size_pos (v : GoVal) : 1 ≤ v.size := by
  rcases v with _|_|_|_|_|_|⟨_, _|_⟩|_|_|_|_|⟨_|_⟩|_ <;> simp only [GoVal.size] <;> omega

/-- `keyEqV` agrees with the scalar equality on the old key universe -/
theorem keyEqV_scalar (f : Nat → Nat → Nat → Bool) (a b : GoVal)
    (h : keyEqScalar f a b = true) : keyEqV f a b = true := by
  cases a <;> cases b <;> simp only [keyEqScalar, Bool.false_eq_true] at h <;>
    simpa only [keyEqV] using h

theorem keyEqV_eucl_aux {f : Nat → Nat → Nat → Bool}
    (hf : ∀ w x y z, f w x y = true → f w z y = true → f w z x = true) : ∀ n (a q b : GoVal),
    a.size ≤ n → keyEqV f a q = true → keyEqV f b q = true → keyEqV f b a = true := by
  intro n
  induction n with
  | zero => intro a q b hs; have := size_pos a; omega
  | succ n ih =>
    have hl : ∀ xs ys zs : List GoVal, sizeList xs ≤ n → keyEqL f xs ys = true →
        keyEqL f zs ys = true → keyEqL f zs xs = true := by
      intro xs
      induction xs with
      | nil =>
        intro ys zs _ h hb
        cases ys with
        | nil => cases zs with
          | nil => rfl
          | cons z zs => simp [keyEqL] at hb
        | cons y ys => simp [keyEqL] at h
      | cons x xs ihx =>
        intro ys zs hs h hb
        cases ys with
        | nil => simp [keyEqL] at h
        | cons y ys =>
          cases zs with
          | nil => simp [keyEqL] at hb
          | cons z zs =>
            simp only [keyEqL, Bool.and_eq_true] at h hb ⊢
            simp only [sizeList] at hs
            exact ⟨ih x y z (by omega) h.1 hb.1, ihx ys zs (by omega) h.2 hb.2⟩
    intro a q b hs h hb
    rcases a with _|_|_|_|_|_|⟨_, _|_⟩|_|_|_|_|⟨_|_⟩|_ <;>
      rcases q with _|_|_|_|_|_|⟨_, _|_⟩|_|_|_|_|⟨_|_⟩|_ <;>
      simp only [keyEqV, Bool.false_eq_true] at h <;>
      rcases b with _|_|_|_|_|_|⟨_, _|_⟩|_|_|_|_|⟨_|_⟩|_ <;>
      simp only [keyEqV, Bool.false_eq_true] at hb ⊢
    all_goals first
      | (simp only [Bool.and_eq_true, beq_iff_eq] at h hb ⊢
         obtain ⟨rfl, rfl⟩ := h; exact hb)
      | (simp only [Bool.and_eq_true, beq_iff_eq] at h hb ⊢
         obtain ⟨⟨rfl, rfl⟩, rfl⟩ := h; exact hb)
      | (simp only [Bool.and_eq_true, beq_iff_eq] at h hb ⊢
         obtain ⟨⟨rfl, rfl⟩, hxy⟩ := h
         obtain ⟨⟨rfl, rfl⟩, hz⟩ := hb
         exact ⟨⟨rfl, rfl⟩, hf _ _ _ _ hxy hz⟩)
      | (simp only [beq_iff_eq] at h hb ⊢; rw [hb, h])
      | (simp only [Bool.and_eq_true, beq_iff_eq] at h hb ⊢
         simp only [GoVal.size] at hs
         exact ⟨by rw [hb.1, h.1], hl _ _ _ (by omega) h.2 hb.2⟩)
      | (simp only [GoVal.size] at hs
         exact ih _ _ _ (by omega) h hb)

theorem keyEqV_eucl {f : Nat → Nat → Nat → Bool}
    (hf : ∀ w x y z, f w x y = true → f w z y = true → f w z x = true) (a q b : GoVal)
    (h : keyEqV f a q = true) (hb : keyEqV f b q = true) : keyEqV f b a = true :=
  keyEqV_eucl_aux hf a.size a q b (Nat.le_refl _) h hb

theorem keyEq_eucl {f : Nat → Nat → Nat → Bool}
    (hf : ∀ w x y z, f w x y = true → f w z y = true → f w z x = true) (a q : GoVal) :
    ∀ b, keyEq f a q = true → keyEq f b q = true → keyEq f b a = true := by
  intro b h hb
  unfold keyEq at *
  exact keyEqV_eucl hf _ _ _ h hb

/-- IEEE `==` is Euclidean (NaN is related to nothing; the two zeros are related). -/
theorem feq_eucl (w x y z : Nat) (h1 : Strconv.feq w x y = true) (h2 : Strconv.feq w z y = true) :
    Strconv.feq w z x = true := by
  unfold Strconv.feq at *
  simp only [] at *
  generalize Strconv.fmtOf w = fm at *
  cases hx : fm.isNaN x <;> cases hy : fm.isNaN y <;> cases hz : fm.isNaN z <;>
    simp only [hx, hy, hz, Bool.or_false, Bool.or_true, if_true, if_false,
      Bool.false_eq_true] at h1 h2 ⊢ <;> try contradiction
  by_cases hzx : (fm.absOf x == 0 && fm.absOf y == 0) = true
  · by_cases hzz : (fm.absOf z == 0 && fm.absOf y == 0) = true
    · simp_all
    · simp only [hzz] at h2
      have : z = y := by simpa using h2
      subst this
      simp_all
  · simp only [hzx] at h1
    have : x = y := by simpa using h1
    subst this
    exact h2

theorem fkeyEq_eucl (a q b : GoVal) (h1 : fkeyEq a q = true) (h2 : fkeyEq b q = true) :
    fkeyEq b a = true :=
  keyEq_eucl feq_eucl a q b h1 h2

/-- No lookup key matches two entries of the list. -/
def KeysUnique (es : List (GoVal × GoVal)) : Prop :=
  es.Pairwise fun e1 e2 => ∀ q, fkeyEq e1.1 q = true → fkeyEq e2.1 q = true → False

theorem keysUnique_of_distinct : ∀ {es : List (GoVal × GoVal)}, keysDistinct es = true →
    KeysUnique es
  | [], _ => List.Pairwise.nil
  | (k, v) :: es, h => by
    simp only [keysDistinct, Bool.and_eq_true, Bool.not_eq_true', List.any_eq_false] at h
    refine List.Pairwise.cons ?_ (keysUnique_of_distinct h.2)
    intro e2 he2 q hq1 hq2
    exact h.1 e2 he2 (fkeyEq_eucl k q e2.1 hq1 hq2)

theorem find?_key_perm {es p : List (GoVal × GoVal)} (hp : es.Perm p) (hu : KeysUnique es)
    (q : GoVal) : (es.find? fun e => fkeyEq e.1 q) = (p.find? fun e => fkeyEq e.1 q) :=
  find?_perm _ hp (hu.imp fun h ha hb => h q ha hb)

/-! ## The relation -/

/-- `PermEq v v'`: `v'` is `v` up to the order of the entries of every map inside it (through
    pointers, interfaces, slices, arrays, map values and struct fields); every map of `v` has
    pairwise distinct keys. -/
inductive PermEq : GoVal → GoVal → Prop
  | bool n b : PermEq (.bool n b) (.bool n b)
  | int k n v : PermEq (.int k n v) (.int k n v)
  | uint k n v : PermEq (.uint k n v) (.uint k n v)
  | float k n v : PermEq (.float k n v) (.float k n v)
  | complex k n : PermEq (.complex k n) (.complex k n)
  | str n s : PermEq (.str n s) (.str n s)
  | other k n nl : PermEq (.other k n nl) (.other k n nl)
  | ptr e {x x'} : OptRel PermEq x x' → PermEq (.ptr e x) (.ptr e x')
  | iface {x x'} : OptRel PermEq x x' → PermEq (.iface x) (.iface x')
  | slice n e nl {xs xs'} : ListRel PermEq xs xs' → PermEq (.slice n e nl xs) (.slice n e nl xs')
  | array e {xs xs'} : ListRel PermEq xs xs' → PermEq (.array e xs) (.array e xs')
  /-- `es'` = some reordering `p` of `es`, with the values related entry by entry -/
  | map n kt vt nl {es p es'} : keysDistinct es = true → es.Perm p → EntRel PermEq p es' →
      PermEq (.map n kt vt nl es) (.map n kt vt nl es')
  | struct n {fs fs'} : FieldsRel PermEq (fun _ => false) fs fs' →
      PermEq (.struct n fs) (.struct n fs')

theorem mapObs_of_perm {S : GoVal → GoVal → Prop} {es p es' : List (GoVal × GoVal)}
    (hd : keysDistinct es = true) (hp : es.Perm p) (he : EntRel S p es') : MapObs S es es' where
  len := hp.length_eq.trans he.length_eq
  find := fun k => by
    rw [find?_key_perm hp (keysUnique_of_distinct hd) k]
    exact he.find (fun a => fkeyEq a k)
  keys := by
    have h1 : (es.map fun e => strKey e.1).Perm (p.map fun e => strKey e.1) := hp.map _
    have h2 : (p.map fun e => strKey e.1) = (es'.map fun e => strKey e.1) := by
      have := congrArg (List.map strKey) he.keys_eq
      simpa [List.map_map, Function.comp_def] using this
    rw [sortKeys_perm h1, h2]

theorem permEq_inv (cfg : Config) {v v'} (h : PermEq v v') : Shape PermEq cfg v v' := by
  cases h with
  | bool n b => exact .bool n b
  | int k n v => exact .int k n v
  | uint k n v => exact .uint k n v
  | float k n v => exact .float k n v
  | complex k n => exact .complex k n
  | str n s => exact .str n s
  | other k n nl => exact .other k n nl
  | ptr e hx => exact .ptr e hx
  | iface hx => exact .iface hx
  | slice n e nl hx => exact .slice n e nl hx
  | array e hx => exact .array e hx
  | map n kt vt nl hd hp he => exact .map n kt vt nl (mapObs_of_perm hd hp he)
  | struct n hf => exact .struct n (fun part => getStruct_rel (fun _ h => by cases h) hf part)

theorem permEq_scalar : ∀ v, isScalar v = true → PermEq v v
  | .bool n b, _ => .bool n b
  | .int k n v, _ => .int k n v
  | .uint k n v, _ => .uint k n v
  | .float k n v, _ => .float k n v
  | .complex k n, _ => .complex k n
  | .str n s, _ => .str n s
  | .other k n nl, _ => .other k n nl
  | .ptr .., h | .slice .., h | .array .., h | .map .., h | .struct .., h | .iface _, h => by
    cases h

theorem permEq_wrap {fs fs'} (h : PermEq (.struct "main.Wrap" fs) (.struct "main.Wrap" fs')) :
    HeadRel PermEq fs fs' := by
  cases h with
  | struct _ hf =>
    cases hf with
    | nil => exact .nil
    | hidden h _ => cases h
    | visible hv _ => exact .cons hv

/-- `PermEq` satisfies the hypotheses of the generic two-run theorem, for every tag name and
    every modelled hook. -/
theorem permEq_hyps (cfg : Config) : RelHyps PermEq cfg where
  inv := fun _ _ h => permEq_inv cfg h
  hook := fun v v' h => by
    by_cases hu : cfg.hook = .unwrap
    · rw [hu]; exact unwrap_hook_rel (cfg := cfg) (fun _ _ h => permEq_inv cfg h) (fun _ _ => permEq_wrap) h
    · exact hook_of_not_unwrap hu (fun k n i => .int k n i) h
  reflScalar := permEq_scalar

/-! ## Reflexivity on values whose maps have distinct keys -/

mutual
/-- every map inside the value has pairwise distinct keys (as `fkeyEq` sees them) -/
def mapsOk : GoVal → Bool
  | .ptr _ (some v) => mapsOk v
  | .slice _ _ _ xs => mapsOkList xs
  | .array _ xs => mapsOkList xs
  | .map _ _ _ _ es => keysDistinct es && mapsOkEntries es
  | .struct _ fs => mapsOkFields fs
  | .iface (some v) => mapsOk v
  | _ => true
def mapsOkList : List GoVal → Bool
  | [] => true
  | x :: xs => mapsOk x && mapsOkList xs
def mapsOkEntries : List (GoVal × GoVal) → Bool
  | [] => true
  | (_, v) :: es => mapsOk v && mapsOkEntries es
def mapsOkFields : List (Field × GoVal) → Bool
  | [] => true
  | (_, v) :: fs => mapsOk v && mapsOkFields fs
end

mutual
theorem permEq_refl : ∀ v, mapsOk v = true → PermEq v v
  | .bool n b, _ => .bool n b
  | .int k n v, _ => .int k n v
  | .uint k n v, _ => .uint k n v
  | .float k n v, _ => .float k n v
  | .complex k n, _ => .complex k n
  | .str n s, _ => .str n s
  | .other k n nl, _ => .other k n nl
  | .ptr e none, _ => .ptr e .none
  | .ptr e (some v), h => .ptr e (.some (permEq_refl v (by simpa [mapsOk] using h)))
  | .iface none, _ => .iface .none
  | .iface (some v), h => .iface (.some (permEq_refl v (by simpa [mapsOk] using h)))
  | .slice n e nl xs, h => .slice n e nl (permEqList_refl xs (by simpa [mapsOk] using h))
  | .array e xs, h => .array e (permEqList_refl xs (by simpa [mapsOk] using h))
  | .map n kt vt nl es, h =>
    have h' : keysDistinct es = true ∧ mapsOkEntries es = true := by simpa [mapsOk] using h
    .map n kt vt nl h'.1 (List.Perm.refl es) (permEqEntries_refl es h'.2)
  | .struct n fs, h => .struct n (permEqFields_refl fs (by simpa [mapsOk] using h))
theorem permEqList_refl : ∀ xs, mapsOkList xs = true → ListRel PermEq xs xs
  | [], _ => .nil
  | x :: xs, h =>
    have h' : mapsOk x = true ∧ mapsOkList xs = true := by simpa [mapsOkList] using h
    .cons (permEq_refl x h'.1) (permEqList_refl xs h'.2)
theorem permEqEntries_refl : ∀ es, mapsOkEntries es = true → EntRel PermEq es es
  | [], _ => .nil
  | (k, v) :: es, h =>
    have h' : mapsOk v = true ∧ mapsOkEntries es = true := by simpa [mapsOkEntries] using h
    .cons (permEq_refl v h'.1) (permEqEntries_refl es h'.2)
theorem permEqFields_refl : ∀ fs, mapsOkFields fs = true → FieldsRel PermEq (fun _ => false) fs fs
  | [], _ => .nil
  | (f, v) :: fs, h =>
    have h' : mapsOk v = true ∧ mapsOkFields fs = true := by simpa [mapsOkFields] using h
    .visible (permEq_refl v h'.1) (permEqFields_refl fs h'.2)
end

/-- Permuting the entry list of one map (with distinct keys and well-keyed contents). -/
theorem permEq_of_perm (n kt vt nl) {es es' : List (GoVal × GoVal)} (hd : keysDistinct es = true)
    (hok : mapsOkEntries es' = true) (hp : es.Perm es') :
    PermEq (.map n kt vt nl es) (.map n kt vt nl es') :=
  .map n kt vt nl hd hp (permEqEntries_refl es' hok)

def anyOk : Any → Bool
  | none => true
  | some v => mapsOk v

theorem anyRel_refl {d : Any} (h : anyOk d = true) : AnyRel PermEq d d := by
  cases d with
  | none => exact .none
  | some v => exact .some (permEq_refl v h)

/-- the maps inside the unknown value and the bound local values have distinct keys -/
def OptsOk (o : Opts) : Prop :=
  (∀ u, o.unknown = some u → anyOk u = true) ∧ ∀ lv ∈ o.locals, anyOk lv.value = true

theorem optsRel_refl {o : Opts} (h : OptsOk o) : OptsRel PermEq o.cfg o o where
  cfgL := rfl
  cfgR := rfl
  unknown := by
    cases hu : o.unknown with
    | none => exact .none
    | some u => exact .some (anyRel_refl (h.1 u hu))
  locals := ListRel.of_forall fun lv hlv => ⟨rfl, rfl, anyRel_refl (h.2 lv hlv)⟩

end Bexpr.Proofs.PermRel
