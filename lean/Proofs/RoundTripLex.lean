/-
  Proofs.RoundTripLex — stage 1 of the print/parse round trip (C16 / C07): the lexical layer.

  Everything is a derivation of the declarative semantics `Sem pinEnv pinGrammar` (the PINNED
  bexpr grammar table and code blocks); by `Props/C15.lean` the engine reproduces it.

  Conventions
  * `ptAt s off` — the parser position whose remaining input is `s` at byte offset `off`
    (current rune and width decoded from `s`, as `(*parser).read` leaves them).
  * `Eats rule e fr x rest off errs fr' v` — expression `e` (inside rule `rule`, frame `fr`)
    matches exactly the bytes `x` in front of `rest`, logs nothing, ends in frame `fr'` with
    value `v`.
  * `Fails rule e fr s off errs` — `e` does not match at `s`, logs nothing.
  * The input is VALID UTF-8 TEXT (`VT`, `Proofs/Utf8Text.lean`: Go's `utf8.ValidString`): a
    `read` that lands on valid text logs nothing (`logRead_vt`), reading an ASCII byte advances
    by one (`ptAt_next_cons`), reading a well-formed multi-byte rune by the width of its encoding
    (`ptAt_next_rune`).  The grammar's tokens other than string bodies and `\pL\pN` pointer
    segments are ASCII (`Asc`), so literals, blanks, identifiers and numbers are stated for
    ASCII tokens in front of valid text; a multi-byte rune never matches an ASCII literal or an
    ASCII-only class (`semLit_fail`, `Fails.cls`).
-/
import Bexpr.Driver
import Props.C15
import Props.C16Lex
import Proofs.Utf8Text

namespace Bexpr.Proofs.RoundTrip
open Bexpr Bexpr.Peg Bexpr.Driver

abbrev G : Grammar := pinGrammar
abbrev E : Env := pinEnv

/-! ## 0. Positions on valid text -/

/-- The position at remaining input `s`, byte offset `off`. -/
def ptAt (s : GoString) (off : Nat) : Pt :=
  { rest := s, off := off, rn := (Utf8.decodeRune s).1, w := (Utf8.decodeRune s).2 }

/-- the position after the initial `read` of `parse` -/
theorem start_next (input : GoString) : (Pt.start input).next = ptAt input 0 := rfl

theorem ptAt_nil (off : Nat) : ptAt [] off = { rest := [], off := off, rn := 0xFFFD, w := 0 } := rfl

theorem ptAt_cons {b : UInt8} (t : GoString) (off : Nat) (hb : b.toNat < 128) :
    ptAt (b :: t) off = { rest := b :: t, off := off, rn := b.toNat, w := 1 } := by
  simp [ptAt, decodeRune_asc t hb]

theorem ptAt_rn_cons {b : UInt8} (t : GoString) (off : Nat) (hb : b.toNat < 128) :
    (ptAt (b :: t) off).rn = b.toNat := by simp [ptAt, decodeRune_asc t hb]

theorem ptAt_next_cons {b : UInt8} (t : GoString) (off : Nat) (hb : b.toNat < 128) :
    (ptAt (b :: t) off).next = ptAt t (off + 1) := by
  rw [ptAt_cons t off hb]; rfl

theorem atEOF_nil (off : Nat) : atEOF (ptAt [] off) = true := by
  simp [atEOF, ptAt, Utf8.decodeRune, runeError, Utf8.runeError]

theorem atEOF_cons {b : UInt8} (t : GoString) (off : Nat) (hb : b.toNat < 128) :
    atEOF (ptAt (b :: t) off) = false := by
  rw [ptAt_cons t off hb]
  simp only [atEOF, runeError]
  simp

/-- **Stepping over a multi-byte rune.**  At a well-formed encoding of `r ≥ 0x80` the current
    rune is `r` and its width the length of the encoding … -/
theorem ptAt_rune {r : Nat} (t : GoString) (off : Nat) (hv : Utf8.validRune r = true)
    (h80 : 0x80 ≤ r) :
    ptAt (Utf8.encodeRune r ++ t) off =
      { rest := Utf8.encodeRune r ++ t, off := off, rn := r, w := (Utf8.encodeRune r).length } := by
  simp [ptAt, Utf8.decodeRune_encodeRune r hv h80 t]

theorem ptAt_rn_rune {r : Nat} (t : GoString) (off : Nat) (hv : Utf8.validRune r = true)
    (h80 : 0x80 ≤ r) : (ptAt (Utf8.encodeRune r ++ t) off).rn = r := by
  rw [ptAt_rune t off hv h80]

/-- … reading it advances by that width … -/
theorem ptAt_next_rune {r : Nat} (t : GoString) (off : Nat) (hv : Utf8.validRune r = true)
    (h80 : 0x80 ≤ r) :
    (ptAt (Utf8.encodeRune r ++ t) off).next = ptAt t (off + (Utf8.encodeRune r).length) := by
  rw [ptAt_rune t off hv h80]
  simp [Pt.next, ptAt]

theorem atEOF_rune {r : Nat} (t : GoString) (off : Nat) (hv : Utf8.validRune r = true)
    (h80 : 0x80 ≤ r) : atEOF (ptAt (Utf8.encodeRune r ++ t) off) = false := by
  rw [ptAt_rune t off hv h80]
  have := encodeRune_length_ge2 h80
  have h0 : ¬ ((Utf8.encodeRune r).length = 0) := by omega
  simp [atEOF, h0]

/-- … and arriving at valid text logs nothing (`read` logs `invalid encoding` exactly when the
    rune decoded there is `(0xFFFD, 1)`; a well-formed U+FFFD has width 3). -/
theorem logRead_vt (rule : String) {s : GoString} (off : Nat) (errs : List PErr) (hs : VT s) :
    logRead rule (ptAt s off) errs = errs := by
  rcases RunesIn.inv hs with rfl | ⟨b, t, rfl, hb, _, _⟩ | ⟨r, t, rfl, hv, h80, _, _⟩
  · rfl
  · rw [ptAt_cons t off hb]
    have : ¬ (b.toNat = 65533) := by omega
    simp [logRead, runeError, this]
  · rw [ptAt_rune t off hv h80]
    have := encodeRune_length_ge2 h80
    have h1 : ¬ ((Utf8.encodeRune r).length = 1) := by omega
    simp [logRead, h1]

/-- the first rune of non-empty valid text: the position is not at EOF, reading moves past a
    non-empty prefix `x` onto valid text, and the rune is an ASCII byte or `≥ 0x80` -/
theorem VT.step {s : GoString} (hs : VT s) (hne : s ≠ []) (off : Nat) :
    ∃ x t, s = x ++ t ∧ x ≠ [] ∧ VT t ∧ atEOF (ptAt s off) = false ∧
      (ptAt s off).next = ptAt t (off + x.length) ∧
      ((∃ b, x = [b] ∧ b.toNat < 128 ∧ (ptAt s off).rn = b.toNat) ∨ 128 ≤ (ptAt s off).rn) := by
  rcases RunesIn.inv hs with rfl | ⟨b, t, rfl, hb, _, ht⟩ | ⟨r, t, rfl, hv, h80, _, ht⟩
  · exact absurd rfl hne
  · exact ⟨[b], t, rfl, by simp, ht, atEOF_cons t off hb, ptAt_next_cons t off hb,
      .inl ⟨b, rfl, hb, ptAt_rn_cons t off hb⟩⟩
  · refine ⟨Utf8.encodeRune r, t, rfl, ?_, ht, atEOF_rune t off hv h80,
      ptAt_next_rune t off hv h80, .inr ?_⟩
    · have := encodeRune_length_ge2 h80
      intro h; rw [h] at this; simp at this
    · rw [ptAt_rn_rune t off hv h80]; exact h80

theorem sliceFrom_ptAt (x rest : GoString) (off : Nat) :
    sliceFrom (ptAt (x ++ rest) off) (ptAt rest (off + x.length)) = x := by
  simp [sliceFrom, ptAt]

/-! ## 1. The two judgement shapes -/

/-- `e` matches exactly `x` in front of `rest`, logging nothing. -/
def Eats (rule : String) (e : PExpr) (fr : Frame) (x rest : GoString) (off : Nat)
    (errs : List PErr) (fr' : Frame) (v : PVal) : Prop :=
  Sem E G rule e fr (ptAt (x ++ rest) off) errs (.res (ptAt rest (off + x.length)) errs fr' v true)

/-- `e` does not match at `s`, logging nothing (frame and value of the failure are irrelevant:
    every consumer drops them). -/
def Fails (rule : String) (e : PExpr) (fr : Frame) (s : GoString) (off : Nat)
    (errs : List PErr) : Prop :=
  ∃ fr' v, Sem E G rule e fr (ptAt s off) errs (.res (ptAt s off) errs fr' v false)

/-- sequence bodies -/
def EatsSeq (rule : String) (es : List PExpr) (fr : Frame) (x rest : GoString) (off : Nat)
    (errs : List PErr) (fr' : Frame) (vs : List PVal) : Prop :=
  SemSeq E G rule es fr (ptAt (x ++ rest) off) errs (.ok (ptAt rest (off + x.length)) errs fr' vs)

def FailsSeq (rule : String) (es : List PExpr) (fr : Frame) (s : GoString) (off : Nat)
    (errs : List PErr) : Prop :=
  ∃ pt' fr', SemSeq E G rule es fr (ptAt s off) errs (.fail pt' errs fr')

/-- iterations of `e*` -/
def EatsStar (rule : String) (e : PExpr) (x rest : GoString) (off : Nat)
    (errs : List PErr) (vs : List PVal) : Prop :=
  SemStar E G rule e (ptAt (x ++ rest) off) errs (.done (ptAt rest (off + x.length)) errs vs)

section
variable {rule : String} {fr fr' fr₁ fr₂ : Frame} {x a b rest s : GoString} {off : Nat}
  {errs : List PErr} {v av : PVal} {vs : List PVal} {e : PExpr} {es : List PExpr}

theorem ptAt_assoc (a b rest : GoString) (off : Nat) :
    ptAt ((a ++ b) ++ rest) off = ptAt (a ++ (b ++ rest)) off := by rw [List.append_assoc]

theorem ptAt_len (a b rest : GoString) (off : Nat) :
    ptAt rest (off + (a ++ b).length) = ptAt rest (off + a.length + b.length) := by
  rw [List.length_append, Nat.add_assoc]

theorem EatsSeq.nil : EatsSeq rule [] fr [] rest off errs fr [] := SemSeq.nil

theorem EatsSeq.cons (h1 : Eats rule e fr a (b ++ rest) off errs fr₁ v)
    (h2 : EatsSeq rule es fr₁ b rest (off + a.length) errs fr₂ vs) :
    EatsSeq rule (e :: es) fr (a ++ b) rest off errs fr₂ (v :: vs) := by
  unfold EatsSeq
  rw [ptAt_assoc, ptAt_len]
  exact SemSeq.cons h1 h2

/-- a one-element tail without the trailing `++ []` -/
theorem EatsSeq.one (h1 : Eats rule e fr a rest off errs fr₁ v) :
    EatsSeq rule [e] fr a rest off errs fr₁ [v] := by
  have := EatsSeq.cons (b := []) (rest := rest) (by simpa using h1) (EatsSeq.nil (fr := fr₁))
  simpa using this

theorem Eats.seq (h : EatsSeq rule es fr x rest off errs fr' vs) :
    Eats rule (.seq es) fr x rest off errs fr' (.list vs) := Sem.seq_ok h

theorem FailsSeq.here (h : Fails rule e fr s off errs) : FailsSeq rule (e :: es) fr s off errs := by
  obtain ⟨fr', v, h⟩ := h
  exact ⟨_, _, SemSeq.fail h⟩

theorem FailsSeq.later (h1 : Eats rule e fr a rest off errs fr₁ v)
    (h2 : FailsSeq rule es fr₁ rest (off + a.length) errs) :
    FailsSeq rule (e :: es) fr (a ++ rest) off errs := by
  obtain ⟨pt', fr', h2⟩ := h2
  exact ⟨pt', fr', SemSeq.cons h1 h2⟩

theorem Fails.seq (h : FailsSeq rule es fr s off errs) : Fails rule (.seq es) fr s off errs := by
  obtain ⟨pt', fr', h⟩ := h
  exact ⟨_, _, Sem.seq_fail h⟩

/-- `l:e` -/
theorem Eats.labeled {l : String} (hl : l ≠ "") (h : Eats rule e [] x rest off errs fr' v) :
    Eats rule (.labeled l e) fr x rest off errs ((l, v) :: fr) v := by
  have := Sem.labeled_ok (fr := fr) (l := l) h
  have hl' : (l != "") = true := by simpa using hl
  rw [if_pos hl'] at this
  exact this

theorem Fails.labeled {l : String} (h : Fails rule e [] s off errs) :
    Fails rule (.labeled l e) fr s off errs := by
  obtain ⟨fr', v, h⟩ := h
  exact ⟨_, _, Sem.labeled_fail h⟩

/-- `e { code }` whose code returns `av` without error -/
theorem Eats.action {name : String} (h : Eats rule e fr x rest off errs fr' v)
    (ha : E.action name fr' x = .ret av none) :
    Eats rule (.action name e) fr x rest off errs fr' av := by
  have := Sem.action_ret (name := name) (av := av) (err := none) h
    (by rw [sliceFrom_ptAt]; exact ha)
  exact this

theorem Fails.action {name : String} (h : Fails rule e fr s off errs) :
    Fails rule (.action name e) fr s off errs := by
  obtain ⟨fr', v, h⟩ := h
  exact ⟨_, _, Sem.action_fail h⟩

/-- `Name` -/
theorem Eats.ref {name : String} {r : Rule} (hl : lookupRule G name = some r) (hn : name ≠ "")
    (h : Eats r.shown r.expr [] x rest off errs fr' v) :
    Eats rule (.ruleRef name) fr x rest off errs fr v := Sem.ruleRef_res hn hl h

theorem Fails.ref {name : String} {r : Rule} (hl : lookupRule G name = some r) (hn : name ≠ "")
    (h : Fails r.shown r.expr [] s off errs) :
    Fails rule (.ruleRef name) fr s off errs := by
  obtain ⟨fr', v, h⟩ := h
  exact ⟨_, _, Sem.ruleRef_res hn hl h⟩

/-- `e?` -/
theorem Eats.opt_some (h : Eats rule e [] x rest off errs fr' v) :
    Eats rule (.zeroOrOne e) fr x rest off errs fr v := Sem.opt_some h

theorem Eats.opt_none (h : Fails rule e [] rest off errs) :
    Eats rule (.zeroOrOne e) fr [] rest off errs fr .nil := by
  obtain ⟨fr', v, h⟩ := h
  exact Sem.opt_none h

/-- ordered choice -/
theorem Eats.choice_hit {as : List PExpr} (h : Eats rule e [] x rest off errs fr' v) :
    Eats rule (.choice (e :: as)) fr x rest off errs fr v := Sem.choice (SemChoice.hit h)

theorem Eats.choice_next {as : List PExpr} (h1 : Fails rule e [] (x ++ rest) off errs)
    (h2 : Eats rule (.choice as) fr x rest off errs fr' v) :
    Eats rule (.choice (e :: as)) fr x rest off errs fr' v := by
  obtain ⟨fr₁, v₁, h1⟩ := h1
  cases h2 with
  | choice h2 => exact Sem.choice (SemChoice.next h1 h2)

theorem Fails.choice_nil : Fails rule (.choice []) fr s off errs :=
  ⟨_, _, Sem.choice SemChoice.exhausted⟩

theorem Fails.choice_cons {as : List PExpr} (h1 : Fails rule e [] s off errs)
    (h2 : Fails rule (.choice as) fr s off errs) :
    Fails rule (.choice (e :: as)) fr s off errs := by
  obtain ⟨fr₁, v₁, h1⟩ := h1
  obtain ⟨fr₂, v₂, h2⟩ := h2
  cases h2 with
  | choice h2 => exact ⟨_, _, Sem.choice (SemChoice.next h1 h2)⟩

/-- `&e`, `!e` -/
theorem Eats.andP (h : Eats rule e [] x rest off errs fr' v) :
    Eats rule (.andP e) fr [] (x ++ rest) off errs fr .nil := by
  have := Sem.andP_res (fr := fr) h
  simpa [Eats] using this

theorem Fails.notP (h : Eats rule e [] x rest off errs fr' v) :
    Fails rule (.notP e) fr (x ++ rest) off errs := ⟨_, _, Sem.notP_res (fr := fr) h⟩

theorem Eats.notP (h : Fails rule e [] s off errs) :
    Eats rule (.notP e) fr [] s off errs fr .nil := by
  obtain ⟨fr', v, h⟩ := h
  have := Sem.notP_res (fr := fr) h
  simpa [Eats] using this

theorem Fails.andP (h : Fails rule e [] s off errs) : Fails rule (.andP e) fr s off errs := by
  obtain ⟨fr', v, h⟩ := h
  exact ⟨_, _, Sem.andP_res (fr := fr) h⟩

/-- `e*` -/
theorem EatsStar.stop (h : Fails rule e [] rest off errs) : EatsStar rule e [] rest off errs [] := by
  obtain ⟨fr', v, h⟩ := h
  exact SemStar.stop h

theorem EatsStar.more (h1 : Eats rule e [] a (b ++ rest) off errs fr₁ v)
    (h2 : EatsStar rule e b rest (off + a.length) errs vs) :
    EatsStar rule e (a ++ b) rest off errs (v :: vs) := by
  unfold EatsStar
  rw [ptAt_assoc, ptAt_len]
  exact SemStar.more h1 h2

theorem Eats.star (h : EatsStar rule e x rest off errs vs) :
    Eats rule (.zeroOrMore e) fr x rest off errs fr (.list vs) := Sem.star_done h

theorem Eats.plus (h1 : Eats rule e [] a (b ++ rest) off errs fr₁ v)
    (h2 : EatsStar rule e b rest (off + a.length) errs vs) :
    Eats rule (.oneOrMore e) fr (a ++ b) rest off errs fr (.list (v :: vs)) := by
  unfold Eats
  rw [ptAt_assoc, ptAt_len]
  exact Sem.plus_done h1 h2

theorem Fails.plus (h : Fails rule e [] s off errs) : Fails rule (.oneOrMore e) fr s off errs := by
  obtain ⟨fr', v, h⟩ := h
  exact ⟨_, _, Sem.plus_none h⟩

/-- change the consumed string / rest along equalities -/
theorem Eats.cast {x' rest' : GoString} (h : Eats rule e fr x rest off errs fr' v)
    (hx : x = x') (hr : rest = rest') : Eats rule e fr x' rest' off errs fr' v := by
  subst hx; subst hr; exact h

end

theorem EatsSeq.cast {rule : String} {es : List PExpr} {fr fr' : Frame} {x x' rest : GoString}
    {off : Nat} {errs : List PErr} {vs : List PVal}
    (h : EatsSeq rule es fr x rest off errs fr' vs) (hx : x = x') :
    EatsSeq rule es fr x' rest off errs fr' vs := by subst hx; exact h

/-- a sequence ending in a zero-width element -/
theorem EatsSeq.two0 {rule : String} {e e₂ : PExpr} {fr fr₁ fr₂ : Frame} {a rest : GoString}
    {off : Nat} {errs : List PErr} {v v₂ : PVal}
    (h1 : Eats rule e fr a rest off errs fr₁ v)
    (h2 : Eats rule e₂ fr₁ [] rest (off + a.length) errs fr₂ v₂) :
    EatsSeq rule [e, e₂] fr a rest off errs fr₂ [v, v₂] :=
  (EatsSeq.cons (b := []) h1 (EatsSeq.one h2)).cast (by simp)

theorem FailsSeq.later' {rule : String} {e : PExpr} {es : List PExpr} {fr fr₁ : Frame}
    {a b rest : GoString} {off : Nat} {errs : List PErr} {v : PVal}
    (h1 : Eats rule e fr a (b ++ rest) off errs fr₁ v)
    (h2 : FailsSeq rule es fr₁ (b ++ rest) (off + a.length) errs) :
    FailsSeq rule (e :: es) fr ((a ++ b) ++ rest) off errs := by
  rw [List.append_assoc]; exact FailsSeq.later h1 h2

/-! ## 2. Literals -/

/-- the runes of an ASCII byte string -/
def runesOf (x : GoString) : List Nat := x.map (·.toNat)

theorem semLit_ok (rule : String) (x rest : GoString) (off : Nat) (errs : List PErr)
    (hx : Asc x) (hr : VT rest) :
    SemLit rule (runesOf x) (ptAt (x ++ rest) off) errs (ptAt rest (off + x.length)) errs true := by
  induction x generalizing off with
  | nil => exact SemLit.nil
  | cons b t ih =>
    have hb := hx.head
    refine SemLit.step (ptAt_rn_cons _ _ hb) ?_
    rw [List.cons_append, ptAt_next_cons _ _ hb, logRead_vt _ _ _ (hx.tail.appendV hr)]
    have e : off + (b :: t).length = off + 1 + t.length := by simp; omega
    rw [e]
    exact ih (off + 1) hx.tail

theorem toNat_inj {a b : UInt8} (h : a.toNat = b.toNat) : a = b := UInt8.toNat_inj.1 h

theorem semLit_fail (rule : String) (x s : GoString) (off : Nat) (errs : List PErr)
    (hx : Asc x) (hs : VT s) (h : GoString.isPrefixOf x s = false) :
    ∃ pt', SemLit rule (runesOf x) (ptAt s off) errs pt' errs false := by
  induction x generalizing s off with
  | nil => simp [GoString.isPrefixOf] at h
  | cons a x ih =>
    rcases RunesIn.inv hs with rfl | ⟨b, t, rfl, hb, _, ht⟩ | ⟨r, t, rfl, hv, h80, _, _⟩
    · refine ⟨_, SemLit.mismatch ?_⟩
      have := hx.head
      simp [ptAt, Utf8.decodeRune, Utf8.runeError]; omega
    · by_cases hab : b = a
      · subst hab
        simp [GoString.isPrefixOf] at h
        obtain ⟨pt', h'⟩ := ih t (off + 1) hx.tail ht h
        refine ⟨pt', SemLit.step (ptAt_rn_cons _ _ hb) ?_⟩
        rw [ptAt_next_cons _ _ hb, logRead_vt _ _ _ ht]
        exact h'
      · refine ⟨_, SemLit.mismatch ?_⟩
        rw [ptAt_rn_cons _ _ hb]
        intro hc
        exact hab (toNat_inj hc)
    · -- a multi-byte rune is no ASCII rune
      refine ⟨_, SemLit.mismatch ?_⟩
      rw [ptAt_rn_rune _ _ hv h80]
      have := hx.head
      show r ≠ a.toNat
      omega

variable {rule : String} {fr : Frame} {rest s : GoString} {off : Nat} {errs : List PErr}

/-- A literal of ASCII runes matches when the input starts with those bytes, consuming them. -/
theorem Eats.lit {ws : List Nat} (x : GoString) (hw : runesOf x = ws) (hx : Asc x) (hr : VT rest) :
    Eats rule (.lit ws false) fr x rest off errs fr (.bytes x) := by
  subst hw
  have := Sem.lit_ok (env := E) (g := G) (fr := fr) (semLit_ok rule x rest off errs hx hr)
  rw [sliceFrom_ptAt] at this
  exact this

/-- … and fails, restoring the position and logging nothing, when it does not. -/
theorem Fails.lit {ws : List Nat} (x : GoString) (hw : runesOf x = ws) (hx : Asc x) (hs : VT s)
    (h : GoString.isPrefixOf x s = false) :
    Fails rule (.lit ws false) fr s off errs := by
  subst hw
  obtain ⟨pt', h'⟩ := semLit_fail rule x s off errs hx hs h
  exact ⟨_, _, Sem.lit_fail h'⟩

example (hr : VT rest) : Eats rule (.lit [110, 111, 116] false) fr [110,111,116] rest off errs fr (.bytes [110,111,116]) :=
  Eats.lit _ rfl (by decide) hr


/-! ## 3. Character classes without Unicode classes -/

/-- membership in `[chars ranges]` -/
def inCls (chars ranges : List Nat) (n : Nat) : Bool :=
  chars.contains n || classMatches.inRanges n ranges

theorem classMatches_plain (env : Env) (chars ranges : List Nat) (n : Nat) :
    classMatches env chars ranges [] n = some (inCls chars ranges n) := by
  unfold classMatches inCls
  by_cases h1 : n ∈ chars
  · simp [h1]
  · by_cases h2 : classMatches.inRanges n ranges = true
    · simp [h1, h2]
    · simp [h1, h2, classMatches.inClasses]

/-- the first byte of `s` satisfies `p` (false at end of input) -/
def headIn (p : Nat → Bool) (s : GoString) : Bool :=
  match s with
  | [] => false
  | b :: _ => p b.toNat

theorem Eats.cls {chars ranges : List Nat} {b : UInt8} (hb : b.toNat < 128)
    (hin : inCls chars ranges b.toNat = true) (hr : VT rest) :
    Eats rule (.charClass chars ranges [] false false) fr [b] rest off errs fr (.bytes [b]) := by
  have := Sem.class_ok (env := E) (g := G) (rule := rule) (fr := fr) (errs := errs)
    (pt := ptAt (b :: rest) off) (chars := chars) (ranges := ranges) (classes := [])
    (inverted := false) (hit := true) (atEOF_cons _ _ hb)
    (by rw [classMatches_plain, ptAt_rn_cons _ _ hb, hin]) (by decide)
  rw [ptAt_next_cons _ _ hb, logRead_vt _ _ _ hr] at this
  have e : sliceFrom (ptAt (b :: rest) off) (ptAt rest (off + 1)) = [b] :=
    sliceFrom_ptAt [b] rest off
  rw [e] at this
  exact this

/-- a class without Unicode classes all of whose members are ASCII (every class of the bexpr
    grammar except the JSON-pointer segment class) -/
def ClsAsc (chars ranges : List Nat) : Prop := (∀ c ∈ chars, c < 128) ∧ (∀ r ∈ ranges, r < 128)

instance (chars ranges : List Nat) : Decidable (ClsAsc chars ranges) := by
  unfold ClsAsc; infer_instance

theorem inRanges_lt (n : Nat) : ∀ (rs : List Nat), (∀ r ∈ rs, r < 128) →
    classMatches.inRanges n rs = true → n < 128
  | [], _, h => by simp [classMatches.inRanges] at h
  | [_], _, h => by simp [classMatches.inRanges] at h
  | lo :: hi :: rs, hb, h => by
    simp only [classMatches.inRanges, Bool.or_eq_true, Bool.and_eq_true, decide_eq_true_eq] at h
    rcases h with ⟨_, h2⟩ | h
    · have := hb hi (by simp); omega
    · exact inRanges_lt n rs (fun r hr => hb r (by simp [hr])) h

theorem inCls_lt {chars ranges : List Nat} (hc : ∀ c ∈ chars, c < 128) (hr : ∀ r ∈ ranges, r < 128)
    {n : Nat} (h : inCls chars ranges n = true) : n < 128 := by
  simp only [inCls, Bool.or_eq_true, List.contains_eq_mem, decide_eq_true_eq] at h
  rcases h with h | h
  · exact hc n h
  · exact inRanges_lt n ranges hr h

/-- An ASCII-only class fails when the first byte is not in it: at the end of input, at an ASCII
    byte outside the class, and at every multi-byte rune (`headIn` tests the first BYTE; a lead
    byte is `≥ 0x80`, the rune `≥ 0x80`, neither is in the class). -/
theorem Fails.cls {chars ranges : List Nat} (hca : ClsAsc chars ranges) (hs : VT s)
    (h : headIn (inCls chars ranges) s = false) :
    Fails rule (.charClass chars ranges [] false false) fr s off errs := by
  rcases RunesIn.inv hs with rfl | ⟨b, t, rfl, hb, _, _⟩ | ⟨r, t, rfl, hv, h80, _, _⟩
  · exact ⟨_, _, Sem.class_eof (atEOF_nil off)⟩
  · refine ⟨_, _, Sem.class_fail (hit := false) (atEOF_cons _ _ hb) ?_ rfl⟩
    rw [classMatches_plain, ptAt_rn_cons _ _ hb]
    exact congrArg some h
  · refine ⟨_, _, Sem.class_fail (hit := false) (atEOF_rune _ _ hv h80) ?_ rfl⟩
    rw [classMatches_plain, ptAt_rn_rune _ _ hv h80]
    congr 1
    cases hc : inCls chars ranges r with
    | false => rfl
    | true => have := inCls_lt hca.1 hca.2 hc; omega

/-- A starred ASCII class consumes exactly a prefix all of whose bytes are in the class, provided
    the next byte is not in the class (or the input ends). -/
theorem EatsStar.cls {chars ranges : List Nat} (hca : ClsAsc chars ranges) (x : GoString)
    (hx : Asc x) (hr : VT rest)
    (hin : ∀ b ∈ x, inCls chars ranges b.toNat = true)
    (hstop : headIn (inCls chars ranges) rest = false) :
    EatsStar rule (.charClass chars ranges [] false false) x rest off errs
      (x.map fun b => .bytes [b]) := by
  induction x generalizing off with
  | nil => exact EatsStar.stop (Fails.cls hca hr hstop)
  | cons b t ih =>
    have h1 : Eats rule (.charClass chars ranges [] false false) [] [b] (t ++ rest) off errs []
        (.bytes [b]) := Eats.cls hx.head (hin b (List.mem_cons_self ..)) (hx.tail.appendV hr)
    exact EatsStar.more h1 (ih hx.tail (fun c hc => hin c (List.mem_cons_of_mem _ hc)))


/-! ## 4. Byte classes of the grammar; whitespace `_`; `EOF` -/

abbrev isWs : Nat → Bool := inCls [32, 9, 13, 10] []
abbrev isAlpha : Nat → Bool := inCls [] [97, 122, 65, 90]
abbrev isIdc : Nat → Bool := inCls [95, 47] [97, 122, 65, 90, 48, 57]
abbrev isDigit : Nat → Bool := inCls [] [48, 57]
abbrev isDigit19 : Nat → Bool := inCls [] [49, 57]

/-- all bytes of `x` satisfy `p` -/
def AllIn (p : Nat → Bool) (x : GoString) : Prop := ∀ b ∈ x, p b.toNat = true

instance (p : Nat → Bool) (x : GoString) : Decidable (AllIn p x) := by unfold AllIn; infer_instance

theorem AllIn.nil {p : Nat → Bool} : AllIn p [] := by intro b hb; cases hb
theorem AllIn.head {p : Nat → Bool} {b : UInt8} {t : GoString} (h : AllIn p (b :: t)) :
    p b.toNat = true := h b (List.mem_cons_self ..)
theorem AllIn.tail {p : Nat → Bool} {b : UInt8} {t : GoString} (h : AllIn p (b :: t)) :
    AllIn p t := fun c hc => h c (List.mem_cons_of_mem _ hc)
theorem AllIn.append {p : Nat → Bool} {s t : GoString} (hs : AllIn p s) (ht : AllIn p t) :
    AllIn p (s ++ t) := by
  intro c hc
  rcases List.mem_append.1 hc with h | h
  · exact hs c h
  · exact ht c h

/-- a class all of whose members are ASCII -/
theorem AllIn.asc {p : Nat → Bool} (hp : ∀ n, p n = true → n < 128) {x : GoString}
    (h : AllIn p x) : Asc x := fun b hb => hp _ (h b hb)

theorem isWs_lt {n : Nat} (h : isWs n = true) : n < 128 := inCls_lt (by decide) (by decide) h
theorem isAlpha_lt {n : Nat} (h : isAlpha n = true) : n < 128 := inCls_lt (by decide) (by decide) h
theorem isIdc_lt {n : Nat} (h : isIdc n = true) : n < 128 := inCls_lt (by decide) (by decide) h
theorem isDigit_lt {n : Nat} (h : isDigit n = true) : n < 128 := inCls_lt (by decide) (by decide) h
theorem isDigit19_lt {n : Nat} (h : isDigit19 n = true) : n < 128 :=
  inCls_lt (by decide) (by decide) h

theorem look_ws : lookupRule G "_" = some Pinned.Grammar.rule_35 := rfl
theorem look_EOF : lookupRule G "EOF" = some Pinned.Grammar.rule_36 := rfl

def bytesOf (x : GoString) : List PVal := x.map fun b => .bytes [b]

/-- the rule `_`: a non-empty run of blanks, maximal -/
theorem eats_ws {b : UInt8} {ws : GoString} (hws : AllIn isWs (b :: ws))
    (hstop : headIn isWs rest = false) (hr : VT rest) :
    Eats rule (.ruleRef "_") fr (b :: ws) rest off errs fr (.list (bytesOf (b :: ws))) := by
  have ha : Asc (b :: ws) := hws.asc @isWs_lt
  apply Eats.ref look_ws (by decide)
  exact Eats.plus (a := [b]) (Eats.cls ha.head hws.head (ha.tail.appendV hr))
    (EatsStar.cls (by decide) ws ha.tail hr hws.tail hstop)

theorem fails_ws (hs : VT s) (h : headIn isWs s = false) :
    Fails rule (.ruleRef "_") fr s off errs :=
  Fails.ref look_ws (by decide) (Fails.plus (Fails.cls (by decide) hs h))

/-- `_?`: any run of blanks (possibly empty), maximal -/
theorem eats_optWs {ws : GoString} (hws : AllIn isWs ws)
    (hstop : headIn isWs rest = false) (hr : VT rest) :
    ∃ v, Eats rule (.zeroOrOne (.ruleRef "_")) fr ws rest off errs fr v := by
  cases ws with
  | nil => exact ⟨_, Eats.opt_none (fails_ws hr hstop)⟩
  | cons b t => exact ⟨_, Eats.opt_some (eats_ws hws hstop hr)⟩

/-- `EOF <- !.` -/
theorem eats_EOF : Eats rule (.ruleRef "EOF") fr [] [] off errs fr .nil := by
  apply Eats.ref look_EOF (by decide)
  exact Eats.notP ⟨_, _, Sem.any_eof (atEOF_nil off)⟩

theorem fails_EOF (hs : VT s) (hne : s ≠ []) :
    Fails rule (.ruleRef "EOF") fr s off errs := by
  refine Fails.ref look_EOF (by decide) ?_
  obtain ⟨x, t, rfl, _, ht, heof, hnext, _⟩ := hs.step hne off
  have h := Sem.any_ok (env := E) (g := G) (rule := Pinned.Grammar.rule_36.shown) (fr := [])
    (errs := errs) heof
  rw [hnext, logRead_vt _ _ _ ht] at h
  exact ⟨_, _, Sem.notP_res h⟩


/-! ## 5. Code blocks -/

theorem act_of_sem {name : String} {sem : ActionSem} (h : lookupSem pinSem name = sem)
    (fr : Frame) (t : GoString) : E.action name fr t = runActionSem sem fr t := by
  show runActionSem (lookupSem pinSem name) fr t = _
  rw [h]

theorem sem_onIdentifier1 : lookupSem pinSem "onIdentifier1" = .textAll := by decide +kernel
theorem sem_onNumberLiteral2 : lookupSem pinSem "onNumberLiteral2" = .textAll := by decide +kernel
theorem sem_onStringLiteral2 : lookupSem pinSem "onStringLiteral2" = .unquoteText := by
  decide +kernel

/-! ## 6. `Identifier` -/

theorem look_Identifier : lookupRule G "Identifier" = some Pinned.Grammar.rule_25 := rfl

/-- `Identifier <- [a-zA-Z] [a-zA-Z0-9_/]*` takes the maximal prefix and returns its text. -/
theorem eats_Identifier {b : UInt8} {x : GoString} (hb : isAlpha b.toNat = true)
    (hx : AllIn isIdc x) (hstop : headIn isIdc rest = false) (hr : VT rest) :
    Eats rule (.ruleRef "Identifier") fr (b :: x) rest off errs fr (.str (b :: x)) := by
  have hxa : Asc x := hx.asc @isIdc_lt
  apply Eats.ref look_Identifier (by decide)
  apply Eats.action (av := .str (b :: x)) (ha := by rw [act_of_sem sem_onIdentifier1]; rfl)
  apply Eats.seq
  exact EatsSeq.cons (a := [b]) (Eats.cls (isAlpha_lt hb) hb (hxa.appendV hr))
    (EatsSeq.one (Eats.star (EatsStar.cls (by decide) x hxa hr hx hstop)))

theorem fails_Identifier (hs : VT s) (h : headIn isAlpha s = false) :
    Fails rule (.ruleRef "Identifier") fr s off errs :=
  Fails.ref look_Identifier (by decide) (Fails.action (Fails.seq (FailsSeq.here (Fails.cls (by decide) hs h))))


/-! ## 7. `NumberLiteral` -/

/-- maximal prefix in a class -/
theorem span_cls (p : Nat → Bool) (s : GoString) :
    ∃ a b, s = a ++ b ∧ AllIn p a ∧ headIn p b = false := by
  induction s with
  | nil => exact ⟨[], [], rfl, AllIn.nil, rfl⟩
  | cons c t ih =>
    by_cases hc : p c.toNat = true
    · obtain ⟨a, b, rfl, ha, hb⟩ := ih
      refine ⟨c :: a, b, rfl, ?_, hb⟩
      intro d hd
      rcases List.mem_cons.1 hd with rfl | h
      · exact hc
      · exact ha d h
    · exact ⟨[], c :: t, rfl, AllIn.nil, by simpa [headIn] using hc⟩

/-- what may follow a number: end of input, a blank, or `)` -/
def numFollow (rest : GoString) : Bool :=
  match rest with
  | [] => true
  | b :: _ => isWs b.toNat || b == 41

theorem look_NumberLiteral : lookupRule G "NumberLiteral" = some Pinned.Grammar.rule_29 := rfl
theorem look_AfterNumbers : lookupRule G "AfterNumbers" = some Pinned.Grammar.rule_30 := rfl
theorem look_IntegerOrFloat : lookupRule G "IntegerOrFloat" = some Pinned.Grammar.rule_31 := rfl

/-- `AfterNumbers <- &(_ / EOF / ")")` -/
theorem eats_AfterNumbers (hr : VT rest) (hf : numFollow rest = true) :
    Eats rule (.ruleRef "AfterNumbers") fr [] rest off errs fr .nil := by
  cases rest with
  | nil =>
    exact Eats.ref look_AfterNumbers (by decide) (Eats.andP (x := []) (rest := [])
      (Eats.choice_next (fails_ws VT.nil rfl) (Eats.choice_hit eats_EOF)))
  | cons b t =>
    apply Eats.ref look_AfterNumbers (by decide)
    by_cases hb : isWs b.toNat = true
    · obtain ⟨ws, r', ht, hws, hstop⟩ := span_cls isWs t
      subst ht
      have hws' : AllIn isWs (b :: ws) := by
        intro d hd
        rcases List.mem_cons.1 hd with rfl | h
        · exact hb
        · exact hws d h
      exact Eats.andP (x := b :: ws) (rest := r')
        (Eats.choice_hit (eats_ws hws' hstop (VT.right (hws'.asc @isWs_lt) hr)))
    · have hb' : b = 41 := by
        simp only [numFollow, Bool.or_eq_true, beq_iff_eq] at hf
        rcases hf with h | h
        · exact absurd h hb
        · exact h
      subst hb'
      have h1 : Fails Pinned.Grammar.rule_30.shown (.ruleRef "_") [] ([41] ++ t) off errs :=
        fails_ws hr (by rfl)
      have h2 : Fails Pinned.Grammar.rule_30.shown (.ruleRef "EOF") [] ([41] ++ t) off errs :=
        fails_EOF hr (by simp)
      exact Eats.andP (x := [41]) (rest := t)
        (Eats.choice_next h1 (Eats.choice_next h2
          (Eats.choice_hit (Eats.lit [41] rfl (by decide) (VT.tail (by decide) hr)))))

/-- spelling of a number: sign, integer part (`0` or `[1-9][0-9]*`), fraction digits
    (`[]` = no fraction) -/
structure NumLit where
  neg : Bool
  int : GoString
  frac : GoString

def NumLit.WF (n : NumLit) : Prop :=
  (n.int = [48] ∨ ∃ d ds, n.int = d :: ds ∧ isDigit19 d.toNat = true ∧ AllIn isDigit ds) ∧
  AllIn isDigit n.frac

def NumLit.sign (n : NumLit) : GoString := if n.neg then [45] else []
def NumLit.fracText (n : NumLit) : GoString := if n.frac = [] then [] else 46 :: n.frac
def NumLit.text (n : NumLit) : GoString := n.sign ++ (n.int ++ n.fracText)

theorem headIn_of_numFollow {p : Nat → Bool} (hp : ∀ n, p n = true → isWs n = false ∧ n ≠ 41)
    (hf : numFollow rest = true) : headIn p rest = false := by
  cases rest with
  | nil => rfl
  | cons b t =>
    simp only [numFollow, Bool.or_eq_true, beq_iff_eq] at hf
    cases hpb : p b.toNat with
    | false => simpa [headIn] using hpb
    | true =>
      obtain ⟨h1, h2⟩ := hp _ hpb
      rcases hf with h | h
      · rw [h1] at h; cases h
      · subst h; exact absurd rfl h2

theorem isDigit_notFollow : ∀ n, isDigit n = true → isWs n = false ∧ n ≠ 41 := by
  intro n h
  have h' : 48 ≤ n ∧ n ≤ 57 := by
    simpa [inCls, classMatches.inRanges] using h
  constructor
  · simp [inCls, classMatches.inRanges]; omega
  · omega

theorem isDigit_of_19 {n : Nat} (h : isDigit19 n = true) : isDigit n = true := by
  have h' : 49 ≤ n ∧ n ≤ 57 := by simpa [inCls, classMatches.inRanges] using h
  simp [inCls, classMatches.inRanges]; omega

/-- the integer part -/
theorem eats_intPart {int : GoString}
    (h : int = [48] ∨ ∃ d ds, int = d :: ds ∧ isDigit19 d.toNat = true ∧ AllIn isDigit ds)
    (hstop : headIn isDigit rest = false) (hr : VT rest) :
    ∃ v, Eats rule (.choice [.lit [48] false,
      .seq [.charClass [] [49, 57] [] false false,
        .zeroOrMore (.charClass [] [48, 57] [] false false)]]) fr int rest off errs fr v := by
  rcases h with rfl | ⟨d, ds, rfl, hd, hds⟩
  · exact ⟨_, Eats.choice_hit (Eats.lit [48] rfl (by decide) hr)⟩
  · have hdsa : Asc ds := hds.asc @isDigit_lt
    have hdl := isDigit19_lt hd
    have h' : 49 ≤ d.toNat ∧ d.toNat ≤ 57 := by simpa [inCls, classMatches.inRanges] using hd
    have : ¬ (48 : UInt8) = d := by intro h; subst h; simp at h'
    have hp : GoString.isPrefixOf [48] (d :: ds ++ rest) = false := by
      simp [GoString.isPrefixOf, this]
    exact ⟨_, Eats.choice_next (Fails.lit [48] rfl (by decide)
      (VT.cons hdl (hdsa.appendV hr)) hp) (Eats.choice_hit (Eats.seq
        (EatsSeq.cons (a := [d]) (Eats.cls hdl hd (hdsa.appendV hr))
          (EatsSeq.one (Eats.star (EatsStar.cls (by decide) ds hdsa hr hds hstop))))))⟩

/-- `IntegerOrFloat` on a well-formed number spelling without the sign -/
theorem eats_IntegerOrFloat (n : NumLit) (hn : n.WF) (hf : numFollow rest = true) (hr : VT rest) :
    ∃ v, Eats rule (.ruleRef "IntegerOrFloat") fr (n.int ++ n.fracText) rest off errs fr v := by
  obtain ⟨hint, hfrac⟩ := hn
  have hfa : Asc n.frac := hfrac.asc @isDigit_lt
  have hstop : headIn isDigit rest = false := headIn_of_numFollow isDigit_notFollow hf
  by_cases hfe : n.frac = []
  · -- no fraction: the optional `"." [0-9]+` fails at the first byte of `rest`
    have hdot : GoString.isPrefixOf [46] rest = false := by
      cases rest with
      | nil => rfl
      | cons b t =>
        simp only [numFollow, Bool.or_eq_true, beq_iff_eq] at hf
        have : ¬ (46 : UInt8) = b := by
          intro h; subst h
          rcases hf with h | h
          · simp [inCls, classMatches.inRanges] at h
          · cases h
        simp [GoString.isPrefixOf, this]
    obtain ⟨v, hv⟩ := eats_intPart (rule := Pinned.Grammar.rule_31.shown) (fr := []) (off := off)
      (errs := errs) hint hstop hr
    have : n.int ++ n.fracText = n.int ++ [] := by simp [NumLit.fracText, hfe]
    rw [this]
    have hv' : Eats Pinned.Grammar.rule_31.shown _ [] n.int ([] ++ rest) off errs [] v := hv
    exact ⟨_, Eats.ref look_IntegerOrFloat (by decide) (Eats.seq (EatsSeq.cons hv'
      (EatsSeq.one (Eats.opt_none (Fails.seq (FailsSeq.here
        (Fails.lit [46] rfl (by decide) hr hdot)))))))⟩
  · obtain ⟨f, fs, hfs⟩ : ∃ f fs, n.frac = f :: fs := by
      cases hh : n.frac with
      | nil => exact absurd hh hfe
      | cons f fs => exact ⟨f, fs, rfl⟩
    have hft : n.fracText = [46] ++ ([f] ++ fs) := by simp [NumLit.fracText, hfs]
    rw [hfs] at hfrac hfa
    have hfta : Asc ([46] ++ ([f] ++ fs)) := Asc.cons (by decide) hfa
    have hstop' : headIn isDigit ([46] ++ ([f] ++ fs) ++ rest) = false := by
      simp [headIn, inCls, classMatches.inRanges]
    obtain ⟨v, hv⟩ := eats_intPart (rule := Pinned.Grammar.rule_31.shown) (fr := []) (off := off)
      (errs := errs) (rest := [46] ++ ([f] ++ fs) ++ rest) hint hstop' (hfta.appendV hr)
    rw [hft]
    exact ⟨_, Eats.ref look_IntegerOrFloat (by decide) (Eats.seq (EatsSeq.cons hv
      (EatsSeq.one (Eats.opt_some (Eats.seq
        (EatsSeq.cons (Eats.lit [46] rfl (by decide) (hfa.appendV hr))
          (EatsSeq.one (Eats.plus (Eats.cls (isDigit_lt hfrac.head) hfrac.head
            (hfa.tail.appendV hr)) (EatsStar.cls (by decide) fs hfa.tail hr hfrac.tail hstop)))))))))⟩

theorem NumLit.text_asc (n : NumLit) (hn : n.WF) : Asc n.text := by
  obtain ⟨hint, hfrac⟩ := hn
  have h1 : Asc n.sign := by unfold NumLit.sign; split <;> decide
  have h2 : Asc n.int := by
    rcases hint with h | ⟨d, ds, h, hd, hds⟩
    · rw [h]; decide
    · rw [h]; exact Asc.cons (isDigit19_lt hd) (hds.asc @isDigit_lt)
  have h3 : Asc n.fracText := by
    unfold NumLit.fracText
    split
    · exact Asc.nil
    · exact Asc.cons (by decide) (hfrac.asc @isDigit_lt)
  exact h1.append (h2.append h3)

/-- `NumberLiteral` returns the text of a well-formed number followed by a blank, `)` or the
    end of input. -/
theorem eats_NumberLiteral (n : NumLit) (hn : n.WF) (hf : numFollow rest = true) (hr : VT rest) :
    Eats rule (.ruleRef "NumberLiteral") fr n.text rest off errs fr (.str n.text) := by
  obtain ⟨v, hv⟩ := eats_IntegerOrFloat (rule := Pinned.Grammar.rule_29.shown) (fr := [])
    (off := off + n.sign.length) (errs := errs) n hn hf hr
  have hbody : Asc (n.int ++ n.fracText) := (n.text_asc hn).right
  have hsign : ∃ v, Eats Pinned.Grammar.rule_29.shown (.zeroOrOne (.lit [45] false)) [] n.sign
      (n.int ++ n.fracText ++ rest) off errs [] v := by
    unfold NumLit.sign
    split
    · exact ⟨_, Eats.opt_some (Eats.lit [45] rfl (by decide) (hbody.appendV hr))⟩
    · refine ⟨_, Eats.opt_none (Fails.lit [45] rfl (by decide) (hbody.appendV hr) ?_)⟩
      -- the integer part does not start with '-'
      obtain ⟨hint, _⟩ := hn
      rcases hint with h | ⟨d, ds, h, hd, _⟩
      · rw [h]; rfl
      · rw [h]
        have h' : 49 ≤ d.toNat ∧ d.toNat ≤ 57 := by simpa [inCls, classMatches.inRanges] using hd
        have : ¬ (45 : UInt8) = d := by intro h; subst h; simp at h'
        simp [GoString.isPrefixOf, this]
  obtain ⟨vs, hvs⟩ := hsign
  have h3 : Eats Pinned.Grammar.rule_29.shown (.andP (.ruleRef "AfterNumbers")) [] [] ([] ++ rest)
      (off + n.sign.length + (n.int ++ n.fracText).length) errs [] .nil :=
    Eats.andP (x := []) (eats_AfterNumbers hr hf)
  have hseq := EatsSeq.cons hvs (EatsSeq.two0 hv h3)
  have hseq' : EatsSeq Pinned.Grammar.rule_29.shown _ [] n.text rest off errs [] _ := hseq
  exact Eats.ref look_NumberLiteral (by decide) (Eats.choice_hit (Eats.action (Eats.seq hseq')
    (by rw [act_of_sem sem_onNumberLiteral2]; rfl)))


/-! ## 8. `StringLiteral` -/

theorem look_StringLiteral : lookupRule G "StringLiteral" = some Pinned.Grammar.rule_32 := rfl
theorem look_RawStringChar : lookupRule G "RawStringChar" = some Pinned.Grammar.rule_33 := rfl
theorem look_DoubleStringChar : lookupRule G "DoubleStringChar" = some Pinned.Grammar.rule_34 := rfl

/-- `.` on an ASCII byte -/
theorem Eats.any {b : UInt8} (hb : b.toNat < 128) (hr : VT rest) :
    Eats rule .any fr [b] rest off errs fr (.bytes [b]) := by
  have := Sem.any_ok (env := E) (g := G) (rule := rule) (fr := fr) (errs := errs)
    (pt := ptAt (b :: rest) off) (atEOF_cons _ _ hb)
  rw [ptAt_next_cons _ _ hb, logRead_vt _ _ _ hr] at this
  have e : sliceFrom (ptAt (b :: rest) off) (ptAt rest (off + 1)) = [b] :=
    sliceFrom_ptAt [b] rest off
  rw [e] at this
  exact this

/-- `.` on a multi-byte rune: consumes its whole encoding, logs nothing -/
theorem Eats.any_rune {r : Nat} (hv : Utf8.validRune r = true) (h80 : 0x80 ≤ r) (hr : VT rest) :
    Eats rule .any fr (Utf8.encodeRune r) rest off errs fr (.bytes (Utf8.encodeRune r)) := by
  have := Sem.any_ok (env := E) (g := G) (rule := rule) (fr := fr) (errs := errs)
    (pt := ptAt (Utf8.encodeRune r ++ rest) off) (atEOF_rune _ _ hv h80)
  rw [ptAt_next_rune _ _ hv h80, logRead_vt _ _ _ hr, sliceFrom_ptAt] at this
  exact this

/-- the bytes of a multi-byte encoding are not ASCII -/
theorem encodeRune_ge80 {r : Nat} (h80 : 0x80 ≤ r) (hv : Utf8.validRune r = true) :
    ∀ c ∈ Utf8.encodeRune r, 0x80 ≤ c.toNat := by
  intro c hc
  have hv' : r < 0xD800 ∨ (0xDFFF < r ∧ r ≤ 0x10FFFF) := by
    unfold Utf8.validRune Utf8.maxRune at hv
    simp only [Bool.or_eq_true, Bool.and_eq_true, decide_eq_true_eq] at hv
    exact hv
  by_cases h2 : r ≤ 0x7FF
  · rw [Utf8.encodeRune_2 h80 h2] at hc
    simp only [List.mem_cons, List.not_mem_nil, or_false] at hc
    rcases hc with rfl | rfl <;> (rw [Utf8.toNat_toUInt8_of_lt (by omega)]; omega)
  · by_cases h3 : r ≤ 0xFFFF
    · rw [Utf8.encodeRune_3 (by omega) h3 (by omega)] at hc
      simp only [List.mem_cons, List.not_mem_nil, or_false] at hc
      rcases hc with rfl | rfl | rfl <;> (rw [Utf8.toNat_toUInt8_of_lt (by omega)]; omega)
    · rw [Utf8.encodeRune_4 (by omega) (by omega)] at hc
      simp only [List.mem_cons, List.not_mem_nil, or_false] at hc
      rcases hc with rfl | rfl | rfl | rfl <;> (rw [Utf8.toNat_toUInt8_of_lt (by omega)]; omega)

/-- `XStringChar <- !'q' .` repeated over a body of valid text without the byte `q`, up to the
    closing `q`: ASCII bytes one by one, multi-byte runes whole -/
theorem eatsStar_until {name : String} {r : Rule} {q : UInt8} (hl : lookupRule G name = some r)
    (hn : name ≠ "") (he : r.expr = .seq [.notP (.lit [q.toNat] false), .any])
    (hq : q.toNat < 128) (body : GoString) (hb : VT body) (hnq : ∀ c ∈ body, c ≠ q)
    (hr : VT rest) :
    ∃ vs, EatsStar rule (.ruleRef name) body (q :: rest) off errs vs := by
  have hb' : RunesIn (fun _ => true) body := hb
  clear hb
  induction hb' generalizing off with
  | nil =>
    refine ⟨_, EatsStar.stop ?_⟩
    apply Fails.ref hl hn
    rw [he]
    exact Fails.seq (FailsSeq.here (Fails.notP (x := [q]) (Eats.lit [q] rfl
      (Asc.cons hq Asc.nil) hr)))
  | @asc c t hc _ ht ih =>
    have ht' : VT t := ht
    have hcq : c ≠ q := hnq c (List.mem_cons_self ..)
    have hrest : VT (t ++ q :: rest) := ht'.append (VT.cons hq hr)
    have hp : GoString.isPrefixOf [q] (c :: (t ++ q :: rest)) = false := by
      have : ¬ q = c := fun h => hcq h.symm
      simp [GoString.isPrefixOf, this]
    have h1 : Eats r.shown (.notP (.lit [q.toNat] false)) [] [] (c :: (t ++ q :: rest)) off errs []
        .nil := Eats.notP (Fails.lit [q] rfl (Asc.cons hq Asc.nil) (VT.cons hc hrest) hp)
    have h2 : Eats r.shown .any [] [c] (t ++ q :: rest) (off + ([] : GoString).length) errs []
        (.bytes [c]) := Eats.any hc hrest
    have h12 : Eats rule (.ruleRef name) [] [c] (t ++ q :: rest) off errs []
        (.list [.nil, .bytes [c]]) := by
      apply Eats.ref hl hn
      rw [he]
      exact Eats.seq (EatsSeq.cons (a := []) h1 (EatsSeq.one h2))
    obtain ⟨vs, hvs⟩ := ih (off := off + ([c] : GoString).length)
      (fun d hd => hnq d (List.mem_cons_of_mem _ hd))
    exact ⟨_, EatsStar.more (a := [c]) h12 hvs⟩
  | @rune ρ t hv h80 _ ht ih =>
    have ht' : VT t := ht
    have hrest : VT (t ++ q :: rest) := ht'.append (VT.cons hq hr)
    obtain ⟨c, ch, hec, hc80, _⟩ := encodeRune_cons h80
    have hp : GoString.isPrefixOf [q] (Utf8.encodeRune ρ ++ (t ++ q :: rest)) = false := by
      have : ¬ q = c := by intro h; subst h; omega
      rw [hec]
      simp [GoString.isPrefixOf, this]
    have h1 : Eats r.shown (.notP (.lit [q.toNat] false)) [] []
        (Utf8.encodeRune ρ ++ (t ++ q :: rest)) off errs [] .nil :=
      Eats.notP (Fails.lit [q] rfl (Asc.cons hq Asc.nil) (VT.rune hv h80 hrest) hp)
    have h2 : Eats r.shown .any [] (Utf8.encodeRune ρ) (t ++ q :: rest)
        (off + ([] : GoString).length) errs [] (.bytes (Utf8.encodeRune ρ)) :=
      Eats.any_rune hv h80 hrest
    have h12 : Eats rule (.ruleRef name) [] (Utf8.encodeRune ρ) (t ++ q :: rest) off errs []
        (.list [.nil, .bytes (Utf8.encodeRune ρ)]) := by
      apply Eats.ref hl hn
      rw [he]
      exact Eats.seq (EatsSeq.cons (a := []) h1 (EatsSeq.one h2))
    obtain ⟨vs, hvs⟩ := ih (off := off + (Utf8.encodeRune ρ).length)
      (fun d hd => hnq d (List.mem_append_right _ hd))
    exact ⟨_, EatsStar.more (a := Utf8.encodeRune ρ) h12 hvs⟩

/-- A delimited literal: the body between two `q` (a backquote or a double quote) is valid
    UTF-8 text without the byte `q`; the token is handed to `strconv.Unquote`. -/
theorem eats_StringLiteral {q : UInt8} (hq : q = 0x60 ∨ q = 0x22) (body s' : GoString)
    (hb : VT body) (hnq : ∀ c ∈ body, c ≠ q)
    (hu : Strconv.unquote ([q] ++ (body ++ [q])) = some s') (hr : VT rest) :
    Eats rule (.ruleRef "StringLiteral") fr ([q] ++ (body ++ [q])) rest off errs fr (.str s') := by
  have hact : E.action "onStringLiteral2" [] ([q] ++ (body ++ [q])) = .ret (.str s') none := by
    rw [act_of_sem sem_onStringLiteral2]
    simp only [runActionSem, hu]
  rcases hq with rfl | rfl
  · obtain ⟨vs, hstar⟩ := eatsStar_until (rule := Pinned.Grammar.rule_32.shown) (off := off + 1)
      (errs := errs) (q := 0x60) look_RawStringChar (by decide) rfl
      (show (0x60 : UInt8).toNat < 128 by decide) body hb hnq hr
    have hseq := EatsSeq.cons (Eats.lit (rule := Pinned.Grammar.rule_32.shown) (fr := [])
      (off := off) (errs := errs) [0x60] rfl (by decide)
      ((hb.append (VT.cons (b := 0x60) (by decide) VT.nil)).append hr))
      (EatsSeq.cons (Eats.star hstar) (EatsSeq.one (Eats.lit [0x60] rfl (by decide) hr)))
    exact Eats.ref look_StringLiteral (by decide) (Eats.choice_hit (Eats.action
      (Eats.choice_hit (Eats.seq hseq)) hact))
  · obtain ⟨vs, hstar⟩ := eatsStar_until (rule := Pinned.Grammar.rule_32.shown) (off := off + 1)
      (errs := errs) (q := 0x22) look_DoubleStringChar (by decide) rfl
      (show (0x22 : UInt8).toNat < 128 by decide) body hb hnq hr
    have hall : VT ([0x22] ++ (body ++ [0x22]) ++ rest) :=
      (VT.cons (by decide) (hb.append (VT.cons (by decide) VT.nil))).append hr
    have hseq := EatsSeq.cons (Eats.lit (rule := Pinned.Grammar.rule_32.shown) (fr := [])
      (off := off) (errs := errs) [0x22] rfl (by decide)
      ((hb.append (VT.cons (b := 0x22) (by decide) VT.nil)).append hr))
      (EatsSeq.cons (Eats.star hstar) (EatsSeq.one (Eats.lit [0x22] rfl (by decide) hr)))
    have hf : Fails Pinned.Grammar.rule_32.shown (.seq [.lit [96] false,
        .zeroOrMore (.ruleRef "RawStringChar"), .lit [96] false]) []
        ([0x22] ++ (body ++ [0x22]) ++ rest) off errs :=
      Fails.seq (FailsSeq.here (Fails.lit [0x60] rfl (by decide) hall rfl))
    exact Eats.ref look_StringLiteral (by decide) (Eats.choice_hit (Eats.action
      (Eats.choice_next hf (Eats.choice_hit (Eats.seq hseq))) hact))

/-- Backquoted literal: the bytes between the backquotes, verbatim — any valid UTF-8 text
    without backquote and `\r`. -/
theorem eats_StringLiteral_backtick (s' : GoString) (hs : VT s')
    (hnq : ∀ c ∈ s', c ≠ 0x60 ∧ c ≠ 0x0D) (hr : VT rest) :
    Eats rule (.ruleRef "StringLiteral") fr ([0x60] ++ (s' ++ [0x60])) rest off errs fr (.str s') :=
  eats_StringLiteral (.inl rfl) s' s' hs (fun c hc => (hnq c hc).1)
    (by simpa using Props.C16Lex.unquote_quote_backtick s' hnq) hr

/-- Double-quoted literal as written by the renderer `quoteX22` (`strconv.Quote` with `\x22`
    for `"`): denotes the original string, for EVERY byte string `s'` — valid UTF-8 or not,
    printable or not (printable non-ASCII runes are written raw, everything else as an ASCII
    escape, so the rendering is always valid text: `quoteX22_body`). -/
theorem eats_StringLiteral_quoteX22 (s' : GoString) (hr : VT rest) :
    Eats rule (.ruleRef "StringLiteral") fr (Strconv.quoteX22 s') rest off errs fr (.str s') := by
  obtain ⟨body, hbody, hnq, hb⟩ := quoteX22_body s'
  have hu := Props.C16Lex.unquote_quote_double_x22 s'
  rw [hbody] at hu ⊢
  exact eats_StringLiteral (.inr rfl) body s' hb hnq hu hr

end Bexpr.Proofs.RoundTrip
