/-
  Proofs.RoundTripColl — quantifiers `any/all S as bindings { body }`: the pieces that do not
  depend on the body (operator keyword, name bindings), and the reason why the text of a
  quantifier is NOT an `AndExpression` (so `OrExpression` reaches its third alternative).
  Also the code blocks / rule lookups of the connective rules.
-/
import Proofs.RoundTripMatch

namespace Bexpr.Proofs.RoundTrip
open Bexpr Bexpr.Peg Bexpr.Driver
variable {rule : String} {fr : Frame} {rest s : GoString} {off : Nat} {errs : List PErr}

/-! ## 1. Code blocks and rules of the connectives -/

theorem sem_onInput2 : lookupSem pinSem "onInput2" = .retLabel "expr" := by decide +kernel
theorem sem_onInput17 : lookupSem pinSem "onInput17" = .retLabel "expr" := by decide +kernel
theorem sem_onOrExpression2 : lookupSem pinSem "onOrExpression2" = .mkBinary true "left" "right" := by
  decide +kernel
theorem sem_onOrExpression11 : lookupSem pinSem "onOrExpression11" = .retLabel "expr" := by
  decide +kernel
theorem sem_onAndExpression2 :
    lookupSem pinSem "onAndExpression2" = .mkBinary false "left" "right" := by decide +kernel
theorem sem_onAndExpression11 : lookupSem pinSem "onAndExpression11" = .retLabel "expr" := by
  decide +kernel
theorem sem_onNotExpression2 : lookupSem pinSem "onNotExpression2" = .notFold "expr" := by
  decide +kernel
theorem sem_onNotExpression8 : lookupSem pinSem "onNotExpression8" = .retLabel "expr" := by
  decide +kernel
theorem sem_onParenthesizedExpression2 :
    lookupSem pinSem "onParenthesizedExpression2" = .retLabel "expr" := by decide +kernel
theorem sem_onParenthesizedExpression12 :
    lookupSem pinSem "onParenthesizedExpression12" = .retLabel "expr" := by decide +kernel

theorem look_Input : lookupRule G "Input" = some Pinned.Grammar.rule_0 := rfl
theorem look_OrExpression : lookupRule G "OrExpression" = some Pinned.Grammar.rule_1 := rfl
theorem look_AndExpression : lookupRule G "AndExpression" = some Pinned.Grammar.rule_2 := rfl
theorem look_NotExpression : lookupRule G "NotExpression" = some Pinned.Grammar.rule_3 := rfl
theorem look_ParenthesizedExpression :
    lookupRule G "ParenthesizedExpression" = some Pinned.Grammar.rule_8 := rfl

/-- `return expr, nil` with the label on top of the frame -/
theorem act_retLabel {name l : String} (h : lookupSem pinSem name = .retLabel l) (v : PVal)
    (fr : Frame) (t : GoString) : E.action name ((l, v) :: fr) t = .ret v none := by
  rw [act_of_sem h]
  exact congrArg (ActOut.ret · none) (frame_get_head ..)

/-- the folding done by the `NotExpression` code block: `not not e` is `e` -/
def notFold : Expr → Expr
  | .not e => e
  | e => .not e

theorem act_notFold {name l : String} (h : lookupSem pinSem name = .notFold l) (e : Expr)
    (fr : Frame) (t : GoString) :
    E.action name ((l, .expr e) :: fr) t = .ret (.expr (notFold e)) none := by
  rw [act_of_sem h]
  simp only [runActionSem, frame_get_head]
  cases e <;> rfl

def Blank (w : GoString) : Prop := AllIn isWs w
def Blank1 (w : GoString) : Prop := w ≠ [] ∧ AllIn isWs w

instance (w : GoString) : Decidable (Blank w) := by unfold Blank; infer_instance
instance (w : GoString) : Decidable (Blank1 w) := by unfold Blank1; infer_instance

/-! ## 2. Quantifier keyword and name bindings -/

theorem sem_onCollectionOpAny1 : lookupSem pinSem "onCollectionOpAny1" = .constCollOp .any := by
  decide +kernel
theorem sem_onCollectionOpAll1 : lookupSem pinSem "onCollectionOpAll1" = .constCollOp .all := by
  decide +kernel
theorem sem_onCollectionIdentifiers2 : lookupSem pinSem "onCollectionIdentifiers2" =
    .mkBinding .indexAndValue none (some "id1") (some "id2") := by decide +kernel
theorem sem_onCollectionIdentifiers13 : lookupSem pinSem "onCollectionIdentifiers13" =
    .mkBinding .index none (some "id1") none := by decide +kernel
theorem sem_onCollectionIdentifiers23 : lookupSem pinSem "onCollectionIdentifiers23" =
    .mkBinding .value none none (some "id2") := by decide +kernel
theorem sem_onCollectionIdentifiers33 : lookupSem pinSem "onCollectionIdentifiers33" =
    .mkBinding .default (some "id") none none := by decide +kernel
theorem sem_onCollectionExpression1 : lookupSem pinSem "onCollectionExpression1" =
    .mkColl "op" "selector" "binding" "expr" := by decide +kernel
theorem sem_onOrExpression14 : lookupSem pinSem "onOrExpression14" = .retLabel "expr" := by
  decide +kernel

theorem look_CollectionExpression :
    lookupRule G "CollectionExpression" = some Pinned.Grammar.rule_4 := rfl
theorem look_CollectionIdentifiers :
    lookupRule G "CollectionIdentifiers" = some Pinned.Grammar.rule_5 := rfl
theorem look_CollectionOpAny : lookupRule G "CollectionOpAny" = some Pinned.Grammar.rule_6 := rfl
theorem look_CollectionOpAll : lookupRule G "CollectionOpAll" = some Pinned.Grammar.rule_7 := rfl

def kAny : GoString := [97, 110, 121]
def kAll : GoString := [97, 108, 108]
def kAs : GoString := [97, 115]

def opText : CollOp → GoString
  | .any => kAny
  | .all => kAll

abbrev collOpChoice : PExpr := .choice [.ruleRef "CollectionOpAny", .ruleRef "CollectionOpAll"]

/-- `any ` / `all ` -/
theorem eats_collOp (op : CollOp) {w : GoString} (hw : Blank1 w)
    (hstop : headIn isWs rest = false) (hr : VT rest) :
    Eats rule collOpChoice fr (opText op ++ w) rest off errs fr (.cop op) := by
  obtain ⟨hne, hws⟩ := hw
  cases w with
  | nil => exact absurd rfl hne
  | cons b t =>
    have hwa : Asc (b :: t) := hws.asc @isWs_lt
    cases op with
    | any =>
      refine Eats.choice_hit (Eats.ref look_CollectionOpAny (by decide) (Eats.action (Eats.seq
        (EatsSeq.cons (Eats.lit kAny rfl (by decide) (hwa.appendV hr))
          (EatsSeq.one (eats_ws hws hstop hr)))) ?_))
      rw [act_of_sem sem_onCollectionOpAny1]; rfl
    | all =>
      have f1 : Fails rule (.ruleRef "CollectionOpAny") [] ((kAll ++ (b :: t)) ++ rest) off errs :=
        Fails.ref look_CollectionOpAny (by decide) (Fails.action (Fails.seq (FailsSeq.here
          (Fails.lit kAny rfl (by decide)
            ((Asc.append (by decide) hwa).appendV hr) rfl))))
      refine Eats.choice_next f1 (Eats.choice_hit (Eats.ref look_CollectionOpAll (by decide)
        (Eats.action (Eats.seq
          (EatsSeq.cons (Eats.lit kAll rfl (by decide) (hwa.appendV hr))
            (EatsSeq.one (eats_ws hws hstop hr)))) ?_)))
      rw [act_of_sem sem_onCollectionOpAll1]; rfl

/-- an identifier -/
structure Ident where
  b : UInt8
  x : GoString

def Ident.text (i : Ident) : GoString := i.b :: i.x
def Ident.WF (i : Ident) : Prop := isAlpha i.b.toNat = true ∧ AllIn isIdc i.x
theorem Ident.text_asc (i : Ident) (h : i.WF) : Asc i.text :=
  Asc.cons (isAlpha_lt h.1) (h.2.asc @isIdc_lt)

theorem eats_Ident (i : Ident) (h : i.WF) (hstop : headIn isIdc rest = false) (hr : VT rest) :
    Eats rule (.ruleRef "Identifier") fr i.text rest off errs fr (.str i.text) :=
  eats_Identifier h.1 h.2 hstop hr

/-- the names bound by a quantifier: `i, v` · `i, _` · `_, v` · `d` -/
inductive BindSp where
  | both (i : Ident) (w₁ w₂ : GoString) (v : Ident)
  | index (i : Ident) (w₁ w₂ : GoString)
  | value (w₁ w₂ : GoString) (v : Ident)
  | dflt (d : Ident)

def BindSp.text : BindSp → GoString
  | .both i w₁ w₂ v => i.text ++ (w₁ ++ ([44] ++ (w₂ ++ v.text)))
  | .index i w₁ w₂ => i.text ++ (w₁ ++ ([44] ++ (w₂ ++ [95])))
  | .value w₁ w₂ v => [95] ++ (w₁ ++ ([44] ++ (w₂ ++ v.text)))
  | .dflt d => d.text

def BindSp.binding : BindSp → Binding
  | .both i _ _ v => { mode := .indexAndValue, index := i.text, value := v.text }
  | .index i _ _ => { mode := .index, index := i.text }
  | .value _ _ v => { mode := .value, value := v.text }
  | .dflt d => { mode := .default, default := d.text }

def BindSp.WF : BindSp → Prop
  | .both i w₁ w₂ v => i.WF ∧ Blank w₁ ∧ Blank w₂ ∧ v.WF
  | .index i w₁ w₂ => i.WF ∧ Blank w₁ ∧ Blank w₂
  | .value w₁ w₂ v => Blank w₁ ∧ Blank w₂ ∧ v.WF
  | .dflt d => d.WF

theorem BindSp.text_asc (b : BindSp) (h : b.WF) : Asc b.text := by
  cases b with
  | both i w₁ w₂ v =>
    exact (i.text_asc h.1).append ((h.2.1.asc @isWs_lt).append (Asc.cons (by decide)
      ((h.2.2.1.asc @isWs_lt).append (v.text_asc h.2.2.2))))
  | index i w₁ w₂ =>
    exact (i.text_asc h.1).append ((h.2.1.asc @isWs_lt).append (Asc.cons (by decide)
      ((h.2.2.asc @isWs_lt).append (Asc.cons (by decide) Asc.nil))))
  | value w₁ w₂ v =>
    exact Asc.cons (by decide) ((h.1.asc @isWs_lt).append (Asc.cons (by decide)
      ((h.2.1.asc @isWs_lt).append (v.text_asc h.2.2))))
  | dflt d => exact d.text_asc h

/-- the first byte of a binding is a letter or `_` -/
theorem BindSp.head (b : BindSp) (h : b.WF) : headIn isWs (b.text ++ rest) = false := by
  have key : ∀ (i : Ident) (t : GoString), i.WF → headIn isWs (i.text ++ t) = false := by
    intro i t hi
    have : headIn tokStart (i.text ++ t) = true := by
      show tokStart i.b.toNat = true
      simp [tokStart, hi.1]
    exact noWs_of_tokStart this
  cases b with
  | both i w₁ w₂ v =>
    show headIn isWs (i.text ++ _ ++ rest) = false
    rw [List.append_assoc]; exact key i _ h.1
  | index i w₁ w₂ =>
    show headIn isWs (i.text ++ _ ++ rest) = false
    rw [List.append_assoc]; exact key i _ h.1
  | value w₁ w₂ v => rfl
  | dflt d => exact key d _ h


theorem ws_not_idc : ∀ n, isWs n = true → isIdc n = false := by
  intro n h
  have hn := isWs_lt h
  revert h
  have : ∀ n, n < 128 → isWs n = true → isIdc n = false := by decide
  exact this n hn

/-- blanks followed by a byte that is no identifier byte: an identifier ends before them -/
theorem noIdc_blank {w r : GoString} (hw : Blank w) (hr : headIn isIdc r = false) :
    headIn isIdc (w ++ r) = false := by
  cases w with
  | nil => exact hr
  | cons b t => exact ws_not_idc _ hw.head

theorem look_CI_expr : Pinned.Grammar.rule_5.expr = .choice [
    .action "onCollectionIdentifiers2" (.seq [.labeled "id1" (.ruleRef "Identifier"),
      .zeroOrOne (.ruleRef "_"), .lit [44] false, .zeroOrOne (.ruleRef "_"),
      .labeled "id2" (.ruleRef "Identifier")]),
    .action "onCollectionIdentifiers13" (.seq [.labeled "id1" (.ruleRef "Identifier"),
      .zeroOrOne (.ruleRef "_"), .lit [44] false, .zeroOrOne (.ruleRef "_"), .lit [95] false]),
    .action "onCollectionIdentifiers23" (.seq [.lit [95] false, .zeroOrOne (.ruleRef "_"),
      .lit [44] false, .zeroOrOne (.ruleRef "_"), .labeled "id2" (.ruleRef "Identifier")]),
    .action "onCollectionIdentifiers33" (.labeled "id" (.ruleRef "Identifier"))] := rfl

/-- `CollectionIdentifiers` on a spelled binding, followed by optional blanks and `{` -/
theorem eats_CollectionIdentifiers (b : BindSp) (h : b.WF) {w r : GoString} (hw : Blank w)
    (hr : VT r) :
    Eats rule (.ruleRef "CollectionIdentifiers") fr b.text (w ++ ([123] ++ r)) off errs fr
      (.binding b.binding) := by
  have hwa : Asc w := hw.asc @isWs_lt
  have hrest : VT (w ++ ([123] ++ r)) := hwa.appendV (VT.cons (by decide) hr)
  have hidc : headIn isIdc (w ++ ([123] ++ r)) = false := noIdc_blank hw rfl
  apply Eats.ref look_CollectionIdentifiers (by decide)
  rw [look_CI_expr]
  generalize Pinned.Grammar.rule_5.shown = R
  cases b with
  | both i w₁ w₂ v =>
    obtain ⟨hi, h1, h2, hv⟩ := h
    have hva := v.text_asc hv
    have h2a : Asc w₂ := h2.asc @isWs_lt
    have h1a : Asc w₁ := h1.asc @isWs_lt
    have e1 := Eats.labeled (rule := R) (l := "id1") (fr := []) (by decide)
      (eats_Ident (off := off) (errs := errs) i hi
        (rest := (w₁ ++ ([44] ++ (w₂ ++ v.text))) ++ (w ++ ([123] ++ r)))
        (by rw [List.append_assoc]; exact noIdc_blank h1 rfl)
        ((h1a.append (Asc.cons (by decide) (h2a.append hva))).appendV hrest))
    obtain ⟨v2, e2⟩ := eats_optWs (rule := R) (fr := [("id1", .str i.text)])
      (off := off + i.text.length) (errs := errs) h1
      (rest := ([44] ++ (w₂ ++ v.text)) ++ (w ++ ([123] ++ r))) rfl
      ((Asc.cons (by decide) (h2a.append hva)).appendV hrest)
    have e3 : Eats R (.lit [44] false) [("id1", .str i.text)] [44]
        ((w₂ ++ v.text) ++ (w ++ ([123] ++ r))) (off + i.text.length + w₁.length) errs _ _ :=
      Eats.lit [44] rfl (by decide) ((h2a.append hva).appendV hrest)
    obtain ⟨v4, e4⟩ := eats_optWs (rule := R) (fr := [("id1", .str i.text)])
      (off := off + i.text.length + w₁.length + ([44] : GoString).length) (errs := errs) h2
      (rest := v.text ++ (w ++ ([123] ++ r)))
      (by
        have : headIn tokStart (v.text ++ (w ++ ([123] ++ r))) = true := by
          show tokStart v.b.toNat = true
          simp [tokStart, hv.1]
        exact noWs_of_tokStart this)
      (hva.appendV hrest)
    have e5 := Eats.labeled (rule := R) (l := "id2") (fr := [("id1", .str i.text)]) (by decide)
      (eats_Ident (off := off + i.text.length + w₁.length + ([44] : GoString).length + w₂.length)
        (errs := errs) v hv hidc hrest)
    have hseq := EatsSeq.cons e1 (EatsSeq.cons e2 (EatsSeq.cons e3 (EatsSeq.cons e4
      (EatsSeq.one e5))))
    refine Eats.choice_hit (Eats.action (Eats.seq hseq) ?_)
    rw [act_of_sem sem_onCollectionIdentifiers2]
    simp [runActionSem, Frame.get, List.find?, BindSp.binding]
  | index i w₁ w₂ =>
    obtain ⟨hi, h1, h2⟩ := h
    have h2a : Asc w₂ := h2.asc @isWs_lt
    have h1a : Asc w₁ := h1.asc @isWs_lt
    have hu : VT ([95] ++ (w ++ ([123] ++ r))) := VT.cons (by decide) hrest
    have e1 := Eats.labeled (rule := R) (l := "id1") (fr := []) (by decide)
      (eats_Ident (off := off) (errs := errs) i hi
        (rest := (w₁ ++ ([44] ++ (w₂ ++ [95]))) ++ (w ++ ([123] ++ r)))
        (by rw [List.append_assoc]; exact noIdc_blank h1 rfl)
        ((h1a.append (Asc.cons (by decide) (h2a.append (Asc.cons (by decide) Asc.nil)))).appendV
          hrest))
    obtain ⟨v2, e2⟩ := eats_optWs (rule := R) (fr := [("id1", .str i.text)])
      (off := off + i.text.length) (errs := errs) h1
      (rest := ([44] ++ (w₂ ++ [95])) ++ (w ++ ([123] ++ r))) rfl
      ((Asc.cons (by decide) (h2a.append (Asc.cons (by decide) Asc.nil))).appendV hrest)
    have e3 : Eats R (.lit [44] false) [("id1", .str i.text)] [44]
        ((w₂ ++ [95]) ++ (w ++ ([123] ++ r))) (off + i.text.length + w₁.length) errs _ _ :=
      Eats.lit [44] rfl (by decide) ((h2a.append (Asc.cons (by decide) Asc.nil)).appendV hrest)
    obtain ⟨v4, e4⟩ := eats_optWs (rule := R) (fr := [("id1", .str i.text)])
      (off := off + i.text.length + w₁.length + ([44] : GoString).length) (errs := errs) h2
      (rest := [95] ++ (w ++ ([123] ++ r))) rfl hu
    -- alternative 1 fails at `id2`: `_` is no identifier
    have f1 : Fails R (.action "onCollectionIdentifiers2" (.seq [
        .labeled "id1" (.ruleRef "Identifier"), .zeroOrOne (.ruleRef "_"), .lit [44] false,
        .zeroOrOne (.ruleRef "_"), .labeled "id2" (.ruleRef "Identifier")])) []
        ((BindSp.index i w₁ w₂).text ++ (w ++ ([123] ++ r))) off errs :=
      Fails.action (Fails.seq
      (FailsSeq.later' e1 (FailsSeq.later' e2 (FailsSeq.later' e3 (FailsSeq.later' e4
        (FailsSeq.here (Fails.labeled (l := "id2")
          (fails_Identifier (rule := R) (fr := []) hu rfl))))))))
    have e5 : Eats R (.lit [95] false) [("id1", .str i.text)] [95] (w ++ ([123] ++ r))
        (off + i.text.length + w₁.length + ([44] : GoString).length + w₂.length) errs _ _ :=
      Eats.lit [95] rfl (by decide) hrest
    have hseq := EatsSeq.cons e1 (EatsSeq.cons e2 (EatsSeq.cons e3 (EatsSeq.cons e4
      (EatsSeq.one e5))))
    refine Eats.choice_next f1 (Eats.choice_hit (Eats.action (Eats.seq hseq) ?_))
    rw [act_of_sem sem_onCollectionIdentifiers13]
    simp [runActionSem, Frame.get, List.find?, BindSp.binding]
  | value w₁ w₂ v =>
    obtain ⟨h1, h2, hv⟩ := h
    have hva := v.text_asc hv
    have h2a : Asc w₂ := h2.asc @isWs_lt
    have h1a : Asc w₁ := h1.asc @isWs_lt
    have hall : VT ((BindSp.value w₁ w₂ v).text ++ (w ++ ([123] ++ r))) :=
      (Asc.cons (by decide) (h1a.append (Asc.cons (by decide) (h2a.append hva)))).appendV hrest
    -- alternatives 1 and 2 fail at `id1`: `_` is no identifier
    have f1 : ∀ nm tl, Fails R (.action nm (.seq (.labeled "id1" (.ruleRef "Identifier") :: tl)))
        [] ((BindSp.value w₁ w₂ v).text ++ (w ++ ([123] ++ r))) off errs := fun nm tl =>
      Fails.action (Fails.seq (FailsSeq.here (Fails.labeled (fails_Identifier hall rfl))))
    have e1 : Eats R (.lit [95] false) [] [95]
        ((w₁ ++ ([44] ++ (w₂ ++ v.text))) ++ (w ++ ([123] ++ r))) off errs _ _ :=
      Eats.lit [95] rfl (by decide)
        ((h1a.append (Asc.cons (by decide) (h2a.append hva))).appendV hrest)
    obtain ⟨v2, e2⟩ := eats_optWs (rule := R) (fr := [])
      (off := off + ([95] : GoString).length) (errs := errs) h1
      (rest := ([44] ++ (w₂ ++ v.text)) ++ (w ++ ([123] ++ r))) rfl
      ((Asc.cons (by decide) (h2a.append hva)).appendV hrest)
    have e3 : Eats R (.lit [44] false) [] [44]
        ((w₂ ++ v.text) ++ (w ++ ([123] ++ r))) (off + ([95] : GoString).length + w₁.length) errs
        _ _ := Eats.lit [44] rfl (by decide) ((h2a.append hva).appendV hrest)
    obtain ⟨v4, e4⟩ := eats_optWs (rule := R) (fr := [])
      (off := off + ([95] : GoString).length + w₁.length + ([44] : GoString).length)
      (errs := errs) h2 (rest := v.text ++ (w ++ ([123] ++ r)))
      (by
        have : headIn tokStart (v.text ++ (w ++ ([123] ++ r))) = true := by
          show tokStart v.b.toNat = true
          simp [tokStart, hv.1]
        exact noWs_of_tokStart this)
      (hva.appendV hrest)
    have e5 := Eats.labeled (rule := R) (l := "id2") (fr := []) (by decide)
      (eats_Ident (off := off + ([95] : GoString).length + w₁.length + ([44] : GoString).length +
        w₂.length) (errs := errs) v hv hidc hrest)
    have hseq := EatsSeq.cons e1 (EatsSeq.cons e2 (EatsSeq.cons e3 (EatsSeq.cons e4
      (EatsSeq.one e5))))
    refine Eats.choice_next (f1 _ _) (Eats.choice_next (f1 _ _) (Eats.choice_hit
      (Eats.action (Eats.seq hseq) ?_)))
    rw [act_of_sem sem_onCollectionIdentifiers23]
    simp [runActionSem, Frame.get, List.find?, BindSp.binding]
  | dflt d =>
    have hda := d.text_asc h
    have hall : VT (d.text ++ (w ++ ([123] ++ r))) := hda.appendV hrest
    -- alternatives 1 and 2: the identifier, the blanks, then no `,`
    have f12 : ∀ nm tl, Fails R (.action nm (.seq (.labeled "id1" (.ruleRef "Identifier") ::
        .zeroOrOne (.ruleRef "_") :: .lit [44] false :: tl))) []
        (d.text ++ (w ++ ([123] ++ r))) off errs := by
      intro nm tl
      obtain ⟨v2, e2⟩ := eats_optWs (rule := R) (fr := [("id1", .str d.text)])
        (off := off + d.text.length) (errs := errs) hw (rest := [123] ++ r) rfl
        (VT.cons (by decide) hr)
      exact Fails.action (Fails.seq (FailsSeq.later
        (Eats.labeled (l := "id1") (by decide) (eats_Ident d h hidc hrest))
        (FailsSeq.later e2 (FailsSeq.here
          (Fails.lit [44] rfl (by decide) (VT.cons (by decide) hr) rfl)))))
    -- alternative 3: no `_`
    have f3 : Fails R (.action "onCollectionIdentifiers23" (.seq [.lit [95] false,
        .zeroOrOne (.ruleRef "_"), .lit [44] false, .zeroOrOne (.ruleRef "_"),
        .labeled "id2" (.ruleRef "Identifier")])) [] (d.text ++ (w ++ ([123] ++ r))) off errs := by
      refine Fails.action (Fails.seq (FailsSeq.here (Fails.lit [95] rfl (by decide) hall ?_)))
      have hb : isAlpha d.b.toNat = true := h.1
      have : ¬ (95 : UInt8) = d.b := by
        intro h'; rw [← h'] at hb; revert hb; decide
      simp [Ident.text, GoString.isPrefixOf, this]
    refine Eats.choice_next (f12 _ _) (Eats.choice_next (f12 _ _) (Eats.choice_next f3
      (Eats.choice_hit (Eats.action (Eats.labeled (l := "id") (by decide)
        (eats_Ident d h hidc hrest)) ?_))))
    rw [act_of_sem sem_onCollectionIdentifiers33]
    simp [runActionSem, Frame.get, List.find?, BindSp.binding]


/-! ## 3. The text of a quantifier is not an `AndExpression` -/

def kwList : List GoString := [kContains, kMatches, kNot, kIs, kIn]

/-- `r` does not start with an operator: no `==`, `!=`, and no operator word followed by a
    blank -/
def KwFree (r : GoString) : Prop :=
  GoString.isPrefixOf kEq r = false ∧ GoString.isPrefixOf kNe r = false ∧
  ∀ K ∈ kwList, GoString.isPrefixOf K r = false ∨ ∃ r₂, r = K ++ r₂ ∧ headIn isWs r₂ = false

theorem idc_not_ws : ∀ n, isIdc n = true → isWs n = false := by
  intro n h
  have hn := isIdc_lt h
  revert h
  have : ∀ n, n < 128 → isIdc n = true → isWs n = false := by decide
  exact this n hn

/-- an identifier different from the word `K`, maximal in the input, is not read as `K` + blank -/
theorem ident_kw_general : ∀ (K ident : GoString) {tail : GoString}, ident ≠ K →
    AllIn isIdc K → AllIn isIdc ident → headIn isIdc tail = false →
    GoString.isPrefixOf K (ident ++ tail) = false ∨
      ∃ r, ident ++ tail = K ++ r ∧ headIn isWs r = false
  | [], ident, tail, hne, _, hid, _ => by
    right
    refine ⟨ident ++ tail, rfl, ?_⟩
    cases ident with
    | nil => exact absurd rfl hne
    | cons i t => exact idc_not_ws _ (hid.head)
  | k :: K', [], tail, _, hK, _, htail => by
    left
    cases tail with
    | nil => rfl
    | cons t0 ts =>
      have h : ¬ k = t0 := by
        intro h; subst h
        have h1 : isIdc k.toNat = true := hK.head
        have h2 : isIdc k.toNat = false := htail
        rw [h1] at h2; cases h2
      simp [GoString.isPrefixOf, h]
  | k :: K', i :: ident', tail, hne, hK, hid, htail => by
    by_cases h : k = i
    · subst h
      have hne' : ident' ≠ K' := fun h' => hne (by rw [h'])
      rcases ident_kw_general K' ident' hne' hK.tail hid.tail htail with hp | ⟨r, hr, hws⟩
      · left; simp [GoString.isPrefixOf, hp]
      · right; exact ⟨r, by simp [hr], hws⟩
    · left; simp [GoString.isPrefixOf, h]

/-- RESTRICTION on the selector of a quantifier: its first identifier is none of the operator
    words `contains`, `matches`, `not`, `is`, `in` (the text `any contains as …` IS a match
    expression for the grammar) -/
def SelX.kwOK : SelX → Prop
  | .bexpr σ => ∀ K ∈ kwList, σ.b :: σ.x ≠ K
  | .ptr _ => True

theorem SelX.kwFree (x : SelX) (hx : x.WF) (hk : x.kwOK) (tail : GoString)
    (hstop : stopsSel tail) : KwFree (x.text ++ tail) := by
  cases x with
  | bexpr σ =>
    have hb : isAlpha σ.b.toNat = true := hx.1
    have e : (SelX.bexpr σ).text ++ tail = (σ.b :: σ.x) ++ (partsText σ.parts ++ tail) := by
      simp [SelX.text, SelSp.text]
    have h61 : ¬ (61 : UInt8) = σ.b := by intro h'; rw [← h'] at hb; revert hb; decide
    have h33 : ¬ (33 : UInt8) = σ.b := by intro h'; rw [← h'] at hb; revert hb; decide
    refine ⟨?_, ?_, ?_⟩
    · rw [e]; simp [GoString.isPrefixOf, kEq, h61]
    · rw [e]; simp [GoString.isPrefixOf, kNe, h33]
    · intro K hK
      rw [e]
      have hidc : AllIn isIdc (σ.b :: σ.x) := by
        intro c hc
        rcases List.mem_cons.1 hc with rfl | h
        · have : ∀ n, n < 128 → isAlpha n = true → isIdc n = true := by decide
          exact this _ (isAlpha_lt hb) hb
        · exact hx.2.1 c h
      have hKidc : AllIn isIdc K := by
        simp only [kwList, List.mem_cons, List.not_mem_nil, or_false] at hK
        rcases hK with rfl | rfl | rfl | rfl | rfl <;> decide
      exact ident_kw_general K (σ.b :: σ.x) (hk K hK) hKidc hidc (partsText_stop σ.parts hstop)
  | ptr path =>
    refine ⟨rfl, rfl, ?_⟩
    intro K hK
    simp only [kwList, List.mem_cons, List.not_mem_nil, or_false] at hK
    rcases hK with rfl | rfl | rfl | rfl | rfl <;> exact .inl rfl

/-- `[_|_?] "K" _ …` fails on `w₁ r` when `r` is not `K` + blank -/
theorem toksFail_kw_ws {t0 : Tok} (ht : t0 = .ws ∨ t0 = .optWs) {K w₁ r : GoString}
    {more : List Tok} (hw : AllIn isWs w₁) (hstop : headIn isWs r = false) (hK : Asc K)
    (h : GoString.isPrefixOf K r = false ∨ ∃ r₂, r = K ++ r₂ ∧ headIn isWs r₂ = false) :
    ToksFail (t0 :: .kw K :: .ws :: more) (w₁ ++ r) := by
  rcases h with hp | ⟨r₂, rfl, h2⟩
  · exact toksFail_first ht hw hstop hK hp
  · rcases ht with rfl | rfl
    · exact ToksFail.wsNext hw hstop (ToksFail.kwNext hK (ToksFail.wsNone h2))
    · exact ToksFail.optWsNext hw hstop (ToksFail.kwNext hK (ToksFail.wsNone h2))

theorem KwFree.mem {r : GoString} (h : KwFree r) {K : GoString} (hK : K ∈ kwList) :
    GoString.isPrefixOf K r = false ∨ ∃ r₂, r = K ++ r₂ ∧ headIn isWs r₂ = false := h.2.2 K hK

/-- none of the operator rules matches on blanks followed by a `KwFree` text -/
theorem fails_allOps {w₁ r : GoString} (hw : AllIn isWs w₁) (hstop : headIn isWs r = false)
    (h : KwFree r) (hs : VT (w₁ ++ r)) :
    (∀ (rule : String) (fr : Frame) (off : Nat) (errs : List PErr),
      Fails rule op6 fr (w₁ ++ r) off errs) ∧
    (∀ (rule : String) (fr : Frame) (off : Nat) (errs : List PErr),
      Fails rule isChoice fr (w₁ ++ r) off errs) ∧
    (∀ (rule : String) (fr : Frame) (off : Nat) (errs : List PErr),
      Fails rule inChoice fr (w₁ ++ r) off errs) := by
  have hC := h.mem (K := kContains) (by simp [kwList])
  have hM := h.mem (K := kMatches) (by simp [kwList])
  have hN := h.mem (K := kNot) (by simp [kwList])
  have hI := h.mem (K := kIs) (by simp [kwList])
  have hIn := h.mem (K := kIn) (by simp [kwList])
  refine ⟨fun rule fr off errs => ?_, fun rule fr off errs => ?_, fun rule fr off errs => ?_⟩
  · exact Fails.choice_cons
      (fails_opRule look_MatchEqual (by decide) expr_MatchEqual
        (toksFail_first (.inr rfl) hw hstop (by decide) h.1) hs)
      (Fails.choice_cons (fails_opRule look_MatchNotEqual (by decide) expr_MatchNotEqual
        (toksFail_first (.inr rfl) hw hstop (by decide) h.2.1) hs)
      (Fails.choice_cons (fails_opRule look_MatchContains (by decide) expr_MatchContains
        (toksFail_kw_ws (.inl rfl) hw hstop (by decide) hC) hs)
      (Fails.choice_cons (fails_opRule look_MatchNotContains (by decide) expr_MatchNotContains
        (toksFail_kw_ws (.inl rfl) hw hstop (by decide) hN) hs)
      (Fails.choice_cons (fails_opRule look_MatchMatches (by decide) expr_MatchMatches
        (toksFail_kw_ws (.inl rfl) hw hstop (by decide) hM) hs)
      (Fails.choice_cons (fails_opRule look_MatchNotMatches (by decide) expr_MatchNotMatches
        (toksFail_kw_ws (.inl rfl) hw hstop (by decide) hN) hs) Fails.choice_nil)))))
  · exact Fails.choice_cons
      (fails_opRule look_MatchIsEmpty (by decide) expr_MatchIsEmpty
        (toksFail_kw_ws (.inl rfl) hw hstop (by decide) hI) hs)
      (Fails.choice_cons (fails_opRule look_MatchIsNotEmpty (by decide) expr_MatchIsNotEmpty
        (toksFail_kw_ws (.inl rfl) hw hstop (by decide) hI) hs) Fails.choice_nil)
  · exact Fails.choice_cons
      (fails_opRule look_MatchIn (by decide) expr_MatchIn
        (toksFail_kw_ws (.inl rfl) hw hstop (by decide) hIn) hs)
      (Fails.choice_cons (fails_opRule look_MatchNotIn (by decide) expr_MatchNotIn
        (toksFail_kw_ws (.inl rfl) hw hstop (by decide) hN) hs) Fails.choice_nil)


/-- A word `σ₀` (e.g. `any`, `all`) followed by blanks and a text that does not start with an
    operator is not a match expression, hence no `NotExpression` and no `AndExpression`:
    `OrExpression` falls through to its quantifier alternative. -/
theorem fails_AndExpression_kw (σ₀ : SelSp) (h0 : σ₀.WF) {w₁ r : GoString} (hw : Blank1 w₁)
    (hstop : headIn isWs r = false) (hfree : KwFree r) (hr : VT r)
    (hnot : GoString.isPrefixOf kNot (σ₀.text ++ (w₁ ++ r)) = false)
    (hpar : GoString.isPrefixOf [40] (σ₀.text ++ (w₁ ++ r)) = false)
    (rule : String) (fr : Frame) (off : Nat) (errs : List PErr) :
    Fails rule (.ruleRef "AndExpression") fr (σ₀.text ++ (w₁ ++ r)) off errs := by
  obtain ⟨hne, hws⟩ := hw
  have hwa : Asc w₁ := hws.asc @isWs_lt
  have htail : VT (w₁ ++ r) := hwa.appendV hr
  have hall : VT (σ₀.text ++ (w₁ ++ r)) := (σ₀.text_vt h0).append htail
  have hsel : stopsSel (w₁ ++ r) := by
    cases w₁ with
    | nil => exact absurd rfl hne
    | cons b t => exact (isWs_not_selCont _ hws.head : selCont b.toNat = false)
  obtain ⟨f6, fis, fin⟩ := fails_allOps hws hstop hfree htail
  -- the three match forms
  have fMSOV : Fails Pinned.Grammar.rule_9.shown (.ruleRef "MatchSelectorOpValue") []
      (σ₀.text ++ (w₁ ++ r)) off errs :=
    Fails.ref look_MatchSelectorOpValue (by decide) (Fails.action (Fails.seq
      (FailsSeq.later (Eats.labeled (l := "selector") (by decide)
        (eats_Selector_bexpr σ₀ h0 hsel htail))
        (FailsSeq.here (Fails.labeled (f6 _ _ _ _))))))
  have fMSO : Fails Pinned.Grammar.rule_9.shown (.ruleRef "MatchSelectorOp") []
      (σ₀.text ++ (w₁ ++ r)) off errs :=
    Fails.ref look_MatchSelectorOp (by decide) (Fails.action (Fails.seq
      (FailsSeq.later (Eats.labeled (l := "selector") (by decide)
        (eats_Selector_bexpr σ₀ h0 hsel htail))
        (FailsSeq.here (Fails.labeled (fis _ _ _ _))))))
  have fMVOS : Fails Pinned.Grammar.rule_9.shown (.ruleRef "MatchValueOpSelector") []
      (σ₀.text ++ (w₁ ++ r)) off errs :=
    Fails.ref look_MatchValueOpSelector (by decide)
      (Fails.choice_cons (Fails.action (Fails.seq
        (FailsSeq.later (Eats.labeled (l := "value") (by decide)
          (eats_Value (.sel σ₀) h0 hsel htail))
          (FailsSeq.here (Fails.labeled (fin _ _ _ _))))))
      (Fails.choice_cons (Fails.seq
        (FailsSeq.later (eats_Value (.sel σ₀) h0 hsel htail)
          (FailsSeq.here (Fails.labeled (fin _ _ _ _))))) Fails.choice_nil))
  have fM : Fails Pinned.Grammar.rule_8.shown (.ruleRef "MatchExpression") []
      (σ₀.text ++ (w₁ ++ r)) off errs :=
    Fails.ref look_MatchExpression (by decide) (Fails.choice_cons fMSOV
      (Fails.choice_cons fMSO (Fails.choice_cons fMVOS Fails.choice_nil)))
  have fL : ∀ fr', Fails Pinned.Grammar.rule_8.shown (.lit [40] false) fr'
      (σ₀.text ++ (w₁ ++ r)) off errs := fun _ => Fails.lit [40] rfl (by decide) hall hpar
  have fP : Fails Pinned.Grammar.rule_3.shown (.ruleRef "ParenthesizedExpression") []
      (σ₀.text ++ (w₁ ++ r)) off errs :=
    Fails.ref look_ParenthesizedExpression (by decide)
      (Fails.choice_cons (Fails.action (Fails.seq (FailsSeq.here (fL _))))
      (Fails.choice_cons (Fails.action (Fails.labeled fM))
      (Fails.choice_cons (Fails.seq (FailsSeq.here (fL _))) Fails.choice_nil)))
  have fN : ∀ fr', Fails Pinned.Grammar.rule_2.shown (.ruleRef "NotExpression") fr'
      (σ₀.text ++ (w₁ ++ r)) off errs := fun _ =>
    Fails.ref look_NotExpression (by decide)
      (Fails.choice_cons (Fails.action (Fails.seq (FailsSeq.here
        (Fails.lit kNot rfl (by decide) hall hnot))))
      (Fails.choice_cons (Fails.action (Fails.labeled fP)) Fails.choice_nil))
  exact Fails.ref look_AndExpression (by decide)
    (Fails.choice_cons (Fails.action (Fails.seq (FailsSeq.here (Fails.labeled (fN _)))))
    (Fails.choice_cons (Fails.action (Fails.labeled (fN _))) Fails.choice_nil))

end Bexpr.Proofs.RoundTrip
