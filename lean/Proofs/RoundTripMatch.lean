/-
  Proofs.RoundTripMatch — stages 3 and 4 of the print/parse round trip: values, operator rules
  and the three match forms  `S op V`,  `S is [not] empty`,  `V [not] in S`.

  The input is valid UTF-8 text (`VT`); quoted literals may have any valid UTF-8 body.
  RESTRICTIONS:
  * a DOUBLE-quoted value literal must have a non-empty body not starting with `/`
    (`ValSp.WF`): in the pinned grammar `Value` tries `Selector` first, which reads `"/a/b"` as a
    JSON pointer and `""` as the pointer with one empty element; the literal's `Raw` is then the
    re-joined path;
  * the first identifier of a match expression must not be the word `not` followed by a blank
    (see `MatchSp.WF`): `NotExpression` would take it for the operator.
-/
import Proofs.RoundTripSel
import Proofs.UnquoteLemmas

namespace Bexpr.Proofs.RoundTrip
open Bexpr Bexpr.Peg Bexpr.Driver
variable {rule : String} {fr : Frame} {rest s : GoString} {off : Nat} {errs : List PErr}

/-! ## 1. Failing `Selector`, `NumberLiteral` -/

theorem fails_Selector (hs : VT s) (h1 : headIn isAlpha s = false)
    (h2 : GoString.isPrefixOf [34] s = false) :
    Fails rule (.ruleRef "Selector") fr s off errs :=
  Fails.ref look_Selector (by decide)
    (Fails.choice_cons (Fails.action (Fails.seq (FailsSeq.here (Fails.labeled
      (fails_Identifier hs h1)))))
    (Fails.choice_cons (Fails.action (Fails.seq (FailsSeq.here
      (Fails.lit [34] rfl (by decide) hs h2)))) Fails.choice_nil))

/-- a double-quoted token whose body is non-empty and does not start with `/` is not a
    JSON-pointer selector -/
theorem fails_Selector_dq {c : UInt8} {t : GoString} (hb : VT (c :: t)) (hc : c ≠ 47)
    (hq : c ≠ 34) (hr : VT rest) :
    Fails rule (.ruleRef "Selector") fr ([34] ++ ((c :: t) ++ rest)) off errs := by
  have hall : VT ([34] ++ ((c :: t) ++ rest)) := VT.cons (by decide) (hb.append hr)
  have hp47 : GoString.isPrefixOf [47] ((c :: t) ++ rest) = false := by
    have : ¬ (47 : UInt8) = c := fun h => hc h.symm
    simp [GoString.isPrefixOf, this]
  have hp34 : GoString.isPrefixOf [34] ((c :: t) ++ rest) = false := by
    have : ¬ (34 : UInt8) = c := fun h => hq h.symm
    simp [GoString.isPrefixOf, this]
  have e1 : Eats Pinned.Grammar.rule_23.shown (.lit [34] false) [] [34] ((c :: t) ++ rest) off errs
      [] (.bytes [34]) := Eats.lit [34] rfl (by decide) (hb.append hr)
  have e2 : Eats Pinned.Grammar.rule_23.shown
      (.labeled "ptrsegs" (.zeroOrMore (.ruleRef "JsonPointerSegment"))) [] []
      ((c :: t) ++ rest) (off + ([34] : GoString).length) errs _ _ :=
    Eats.labeled (l := "ptrsegs") (by decide)
      (Eats.star (EatsStar.stop (fails_JsonPointerSegment (hb.append hr) hp47)))
  exact Fails.ref look_Selector (by decide)
    (Fails.choice_cons (Fails.action (Fails.seq (FailsSeq.here (Fails.labeled
      (fails_Identifier hall rfl)))))
    (Fails.choice_cons (Fails.action (Fails.seq (FailsSeq.later e1
      (FailsSeq.later (a := []) e2 (FailsSeq.here
        (Fails.lit [34] rfl (by decide) (hb.append hr) hp34))))))
      Fails.choice_nil))

/-- bytes that can start a number -/
def numStart (n : Nat) : Bool := n == 45 || isDigit n

theorem fails_IntegerOrFloat (hs : VT s) (h : headIn isDigit s = false) :
    Fails rule (.ruleRef "IntegerOrFloat") fr s off errs := by
  have h0 : GoString.isPrefixOf [48] s = false := by
    cases s with
    | nil => rfl
    | cons b t =>
      have : ¬ (48 : UInt8) = b := by
        intro hb; subst hb
        have h' : isDigit (48 : UInt8).toNat = false := h
        revert h'; decide
      simp [GoString.isPrefixOf, this]
  have h19 : headIn isDigit19 s = false := headIn_mono (fun _ => isDigit_of_19) h
  exact Fails.ref look_IntegerOrFloat (by decide) (Fails.seq (FailsSeq.here
    (Fails.choice_cons (Fails.lit [48] rfl (by decide) hs h0)
      (Fails.choice_cons (Fails.seq (FailsSeq.here (Fails.cls (by decide) hs h19))) Fails.choice_nil))))

theorem fails_NumberLiteral (hs : VT s) (h : headIn numStart s = false) :
    Fails rule (.ruleRef "NumberLiteral") fr s off errs := by
  have hd : headIn isDigit s = false := headIn_mono (fun n hn => by simp [numStart, hn]) h
  have hm : GoString.isPrefixOf [45] s = false := by
    cases s with
    | nil => rfl
    | cons b t =>
      have : ¬ (45 : UInt8) = b := by
        intro hb; subst hb
        have h' : numStart (45 : UInt8).toNat = false := h
        revert h'; decide
      simp [GoString.isPrefixOf, this]
  have e1 : ∀ fr', Eats Pinned.Grammar.rule_29.shown (.zeroOrOne (.lit [45] false)) fr' [] s off
      errs fr' .nil := fun _ => Eats.opt_none (Fails.lit [45] rfl (by decide) hs hm)
  have f : ∀ fr' es, FailsSeq Pinned.Grammar.rule_29.shown
      (.zeroOrOne (.lit [45] false) :: .ruleRef "IntegerOrFloat" :: es) fr' s off errs :=
    fun fr' es => FailsSeq.later (a := []) (e1 fr') (FailsSeq.here (fails_IntegerOrFloat hs hd))
  exact Fails.ref look_NumberLiteral (by decide)
    (Fails.choice_cons (Fails.action (Fails.seq (f _ _)))
      (Fails.choice_cons (Fails.seq (f _ _)) Fails.choice_nil))


/-! ## 2. `Value` -/

theorem sem_onValue2 : lookupSem pinSem "onValue2" = .valueFromSelector "selector" := by
  decide +kernel
theorem sem_onValue5 : lookupSem pinSem "onValue5" = .valueFromStr "n" := by decide +kernel
theorem sem_onValue8 : lookupSem pinSem "onValue8" = .valueFromStr "s" := by decide +kernel
theorem look_Value : lookupRule G "Value" = some Pinned.Grammar.rule_28 := rfl

/-- how a value is written -/
inductive ValSp where
  /-- a bare word / selector: `foo`, `a.b`, `true` -/
  | sel (σ : SelSp)
  /-- a number -/
  | num (n : NumLit)
  /-- a quoted literal `q body q` denoting `val` -/
  | str (q : UInt8) (body val : GoString)

def ValSp.text : ValSp → GoString
  | .sel σ => σ.text
  | .num n => n.text
  | .str q body _ => [q] ++ (body ++ [q])

/-- the `Raw` string of the `MatchValue` -/
def ValSp.raw : ValSp → GoString
  | .sel σ => GoString.join [46] σ.path
  | .num n => n.text
  | .str _ _ val => val

/-- RESTRICTION (pinned grammar): a DOUBLE-quoted value whose body is empty or starts with `/`
    is read by `Value`'s first alternative `Selector` as a JSON pointer (its `Raw` is then the
    re-joined path, not the literal) — such spellings are excluded. -/
def ValSp.WF : ValSp → Prop
  | .sel σ => σ.WF
  | .num n => n.WF
  | .str q body val => (q = 0x60 ∨ q = 0x22) ∧ VT body ∧ (∀ c ∈ body, c ≠ q) ∧
      Strconv.unquote ([q] ++ (body ++ [q])) = some val ∧
      (q = 0x22 → ∃ c t, body = c :: t ∧ c ≠ 47)

/-- what must follow the value -/
def ValSp.follow : ValSp → GoString → Prop
  | .sel _, rest => stopsSel rest
  | .num _, rest => numFollow rest = true
  | .str .., _ => True

theorem ValSp.text_vt (v : ValSp) (h : v.WF) : VT v.text := by
  cases v with
  | sel σ => exact σ.text_vt h
  | num n => exact (n.text_asc h).vt
  | str q body val =>
    obtain ⟨hq, hb, _, _, _⟩ := h
    have hq' : q.toNat < 128 := by rcases hq with rfl | rfl <;> decide
    exact VT.cons hq' (hb.append (VT.cons hq' VT.nil))

theorem render_bexpr (path : List GoString) (hne : path ≠ []) :
    Selector.render { ty := .bexpr, path := path } = GoString.join [46] path := by
  cases path with
  | nil => exact absurd rfl hne
  | cons p ps => simp [Selector.render, GoString.ofString_dot]

theorem eats_Value (v : ValSp) (h : v.WF) (hf : v.follow rest) (hr : VT rest) :
    Eats rule (.ruleRef "Value") fr v.text rest off errs fr (.mval v.raw) := by
  cases v with
  | sel σ =>
    refine Eats.ref look_Value (by decide) (Eats.choice_hit (Eats.action
      (Eats.labeled (l := "selector") (by decide) (eats_Selector_bexpr σ h hf hr)) ?_))
    rw [act_of_sem sem_onValue2]
    simp only [runActionSem, frame_get_head]
    rw [render_bexpr _ (by simp [SelSp.path])]
    rfl
  | num n =>
    have hall : VT (n.text ++ rest) := (n.text_asc h).appendV hr
    -- a number does not start like a selector
    have hstart : headIn isAlpha (n.text ++ rest) = false ∧
        GoString.isPrefixOf [34] (n.text ++ rest) = false := by
      obtain ⟨hint, _⟩ := h
      unfold NumLit.text NumLit.sign
      split
      · exact ⟨rfl, rfl⟩
      · rcases hint with h0 | ⟨d, ds, hd, hd19, _⟩
        · rw [h0]; exact ⟨rfl, rfl⟩
        · rw [hd]
          have h' : 49 ≤ d.toNat ∧ d.toNat ≤ 57 := by
            simpa [inCls, classMatches.inRanges] using hd19
          constructor
          · simp [headIn, inCls, classMatches.inRanges]; omega
          · have : ¬ (34 : UInt8) = d := by intro h; subst h; simp at h'
            simp [GoString.isPrefixOf, this]
    have f1 : Fails Pinned.Grammar.rule_28.shown
        (.action "onValue2" (.labeled "selector" (.ruleRef "Selector"))) [] (n.text ++ rest) off
        errs := Fails.action (Fails.labeled (fails_Selector hall hstart.1 hstart.2))
    refine Eats.ref look_Value (by decide) (Eats.choice_next f1 (Eats.choice_hit (Eats.action
      (Eats.labeled (l := "n") (by decide) (eats_NumberLiteral n h hf hr)) ?_)))
    rw [act_of_sem sem_onValue5]
    simp only [runActionSem, frame_get_head]
    rfl
  | str q body val =>
    obtain ⟨hq, hb, hnq, hu, hdq⟩ := h
    have hq' : q.toNat < 128 := by rcases hq with rfl | rfl <;> decide
    have hall : VT ([q] ++ (body ++ [q]) ++ rest) :=
      (VT.cons hq' (hb.append (VT.cons hq' VT.nil))).append hr
    have f1 : Fails Pinned.Grammar.rule_28.shown
        (.action "onValue2" (.labeled "selector" (.ruleRef "Selector"))) []
        ([q] ++ (body ++ [q]) ++ rest) off errs := by
      rcases hq with rfl | rfl
      · exact Fails.action (Fails.labeled (fails_Selector hall rfl rfl))
      · obtain ⟨c, t, rfl, hc⟩ := hdq rfl
        have := fails_Selector_dq (rule := Pinned.Grammar.rule_28.shown) (fr := []) (off := off)
          (errs := errs) (c := c) (t := t ++ [34]) (rest := rest)
          (by simpa using hb.append (VT.cons (b := 34) (by decide) VT.nil)) hc
          (hnq c (List.mem_cons_self ..)) hr
        exact Fails.action (Fails.labeled (by simpa using this))
    have f2 : Fails Pinned.Grammar.rule_28.shown
        (.action "onValue5" (.labeled "n" (.ruleRef "NumberLiteral"))) []
        ([q] ++ (body ++ [q]) ++ rest) off errs := by
      refine Fails.action (Fails.labeled (fails_NumberLiteral hall ?_))
      rcases hq with rfl | rfl <;> rfl
    refine Eats.ref look_Value (by decide) (Eats.choice_next f1 (Eats.choice_next f2
      (Eats.choice_hit (Eats.action (Eats.labeled (l := "s") (by decide)
        (eats_StringLiteral hq body val hb hnq hu hr)) ?_))))
    rw [act_of_sem sem_onValue8]
    simp only [runActionSem, frame_get_head]
    rfl


/-! ## 3. Token sequences: blanks and keywords -/

/-- the three frame-neutral items operator rules are made of -/
inductive Tok where
  | ws                    -- `_`
  | optWs                 -- `_?`
  | kw (x : GoString)     -- a literal

def Tok.expr : Tok → PExpr
  | .ws => .ruleRef "_"
  | .optWs => .zeroOrOne (.ruleRef "_")
  | .kw x => .lit (runesOf x) false

def toksText : List (Tok × GoString) → GoString
  | [] => []
  | (_, w) :: ts => w ++ toksText ts

/-- the spelling `ts` (token, text) is well-formed in front of `rest`: blanks are blanks
    (non-empty where mandatory) and maximal, keywords are themselves -/
def ToksOK : List (Tok × GoString) → GoString → Prop
  | [], _ => True
  | (.ws, w) :: ts, rest => w ≠ [] ∧ AllIn isWs w ∧
      headIn isWs (toksText ts ++ rest) = false ∧ ToksOK ts rest
  | (.optWs, w) :: ts, rest => AllIn isWs w ∧
      headIn isWs (toksText ts ++ rest) = false ∧ ToksOK ts rest
  | (.kw x, w) :: ts, rest => w = x ∧ Asc x ∧ ToksOK ts rest

theorem toksText_asc : ∀ (ts : List (Tok × GoString)) (rest : GoString), ToksOK ts rest →
    Asc (toksText ts)
  | [], _, _ => Asc.nil
  | (.ws, w) :: ts, rest, h => (h.2.1.asc @isWs_lt).append (toksText_asc ts rest h.2.2.2)
  | (.optWs, w) :: ts, rest, h => (h.1.asc @isWs_lt).append (toksText_asc ts rest h.2.2)
  | (.kw x, w) :: ts, rest, h => by
      obtain ⟨rfl, hx, h'⟩ := h
      exact hx.append (toksText_asc ts rest h')

theorem eatsSeq_toks : ∀ (ts : List (Tok × GoString)) (off : Nat), ToksOK ts rest → VT rest →
    ∃ vs, EatsSeq rule (ts.map (·.1.expr)) fr (toksText ts) rest off errs fr vs
  | [], off, _, _ => ⟨_, EatsSeq.nil⟩
  | (.ws, w) :: ts, off, h, hr => by
    obtain ⟨hne, hw, hstop, h'⟩ := h
    obtain ⟨vs, ih⟩ := eatsSeq_toks ts (off + w.length) h' hr
    cases w with
    | nil => exact absurd rfl hne
    | cons b t =>
      exact ⟨_, EatsSeq.cons (eats_ws hw hstop ((toksText_asc ts rest h').appendV hr)) ih⟩
  | (.optWs, w) :: ts, off, h, hr => by
    obtain ⟨hw, hstop, h'⟩ := h
    obtain ⟨vs, ih⟩ := eatsSeq_toks ts (off + w.length) h' hr
    obtain ⟨v, hv⟩ := eats_optWs (rule := rule) (fr := fr) (off := off) (errs := errs) hw hstop
      ((toksText_asc ts rest h').appendV hr)
    exact ⟨_, EatsSeq.cons hv ih⟩
  | (.kw x, w) :: ts, off, h, hr => by
    obtain ⟨rfl, hx, h'⟩ := h
    obtain ⟨vs, ih⟩ := eatsSeq_toks ts (off + w.length) h' hr
    exact ⟨_, EatsSeq.cons (Eats.lit w rfl hx ((toksText_asc ts rest h').appendV hr)) ih⟩

/-- the token list does not match at `s` -/
inductive ToksFail : List Tok → GoString → Prop
  | kwHere {x s ts} : Asc x → GoString.isPrefixOf x s = false → ToksFail (.kw x :: ts) s
  | kwNext {x r ts} : Asc x → ToksFail ts r → ToksFail (.kw x :: ts) (x ++ r)
  | wsNone {s ts} : headIn isWs s = false → ToksFail (.ws :: ts) s
  | wsNext {w r ts} : AllIn isWs w → headIn isWs r = false → ToksFail ts r →
      ToksFail (.ws :: ts) (w ++ r)
  | optWsNext {w r ts} : AllIn isWs w → headIn isWs r = false → ToksFail ts r →
      ToksFail (.optWs :: ts) (w ++ r)

theorem failsSeq_toks {ts : List Tok} {s : GoString} (h : ToksFail ts s) :
    ∀ (off : Nat) (es : List PExpr), VT s →
      FailsSeq rule (ts.map Tok.expr ++ es) fr s off errs := by
  induction h with
  | kwHere hx hp => exact fun off es hs => FailsSeq.here (Fails.lit _ rfl hx hs hp)
  | kwNext hx _ ih =>
    exact fun off es hs => FailsSeq.later (Eats.lit _ rfl hx (VT.right hx hs))
      (ih _ es (VT.right hx hs))
  | wsNone hstop => exact fun off es hs => FailsSeq.here (fails_ws hs hstop)
  | @wsNext w r ts hw hstop _ ih =>
    intro off es hs
    cases w with
    | nil => exact FailsSeq.here (fails_ws hs hstop)
    | cons b t =>
      have hr := VT.right (hw.asc @isWs_lt) hs
      exact FailsSeq.later (eats_ws hw hstop hr) (ih _ es hr)
  | optWsNext hw hstop _ ih =>
    intro off es hs
    have hr := VT.right (hw.asc @isWs_lt) hs
    obtain ⟨v, hv⟩ := eats_optWs (rule := rule) (fr := fr) (off := off) (errs := errs) hw hstop
      hr
    exact FailsSeq.later hv (ih _ es hr)


/-! ## 4. Operator rules -/

def kEq : GoString := [61, 61]
def kNe : GoString := [33, 61]
def kContains : GoString := [99, 111, 110, 116, 97, 105, 110, 115]
def kMatches : GoString := [109, 97, 116, 99, 104, 101, 115]
def kNot : GoString := [110, 111, 116]
def kIs : GoString := [105, 115]
def kEmpty : GoString := [101, 109, 112, 116, 121]
def kIn : GoString := [105, 110]
def kAnd : GoString := [97, 110, 100]
def kOr : GoString := [111, 114]

/-- a rule of the form `Name <- tokens { return <MatchOperator>, nil }` -/
theorem eats_opRule {name nm : String} {r : Rule} {toks : List Tok} {o : MatchOp}
    (hl : lookupRule G name = some r) (hn : name ≠ "")
    (he : r.expr = .action nm (.seq (toks.map Tok.expr)))
    (hsem : lookupSem pinSem nm = .constMatchOp o)
    (ts : List (Tok × GoString)) (hts : ts.map (·.1) = toks) (hok : ToksOK ts rest)
    (hr : VT rest) :
    Eats rule (.ruleRef name) fr (toksText ts) rest off errs fr (.mop o) := by
  obtain ⟨vs, hvs⟩ := eatsSeq_toks (rule := r.shown) (fr := []) (errs := errs) ts off hok hr
  have hm : ts.map (·.1.expr) = toks.map Tok.expr := by rw [← hts, List.map_map]; rfl
  rw [hm] at hvs
  apply Eats.ref hl hn
  rw [he]
  exact Eats.action (Eats.seq hvs) (by rw [act_of_sem hsem]; rfl)

theorem fails_opRule {name nm : String} {r : Rule} {toks : List Tok}
    (hl : lookupRule G name = some r) (hn : name ≠ "")
    (he : r.expr = .action nm (.seq (toks.map Tok.expr)))
    (h : ToksFail toks s) (hs : VT s) :
    Fails rule (.ruleRef name) fr s off errs := by
  apply Fails.ref hl hn
  rw [he]
  have := failsSeq_toks (rule := r.shown) (fr := []) (errs := errs) h off [] hs
  rw [List.append_nil] at this
  exact Fails.action (Fails.seq this)

abbrev tEq : List Tok := [.optWs, .kw kEq, .optWs]
abbrev tNe : List Tok := [.optWs, .kw kNe, .optWs]
abbrev tContains : List Tok := [.ws, .kw kContains, .ws]
abbrev tNotContains : List Tok := [.ws, .kw kNot, .ws, .kw kContains, .ws]
abbrev tMatches : List Tok := [.ws, .kw kMatches, .ws]
abbrev tNotMatches : List Tok := [.ws, .kw kNot, .ws, .kw kMatches, .ws]
abbrev tIsEmpty : List Tok := [.ws, .kw kIs, .ws, .kw kEmpty]
abbrev tIsNotEmpty : List Tok := [.ws, .kw kIs, .ws, .kw kNot, .ws, .kw kEmpty]
abbrev tIn : List Tok := [.ws, .kw kIn, .ws]
abbrev tNotIn : List Tok := [.ws, .kw kNot, .ws, .kw kIn, .ws]

theorem look_MatchEqual : lookupRule G "MatchEqual" = some Pinned.Grammar.rule_13 := rfl
theorem look_MatchNotEqual : lookupRule G "MatchNotEqual" = some Pinned.Grammar.rule_14 := rfl
theorem look_MatchIsEmpty : lookupRule G "MatchIsEmpty" = some Pinned.Grammar.rule_15 := rfl
theorem look_MatchIsNotEmpty : lookupRule G "MatchIsNotEmpty" = some Pinned.Grammar.rule_16 := rfl
theorem look_MatchIn : lookupRule G "MatchIn" = some Pinned.Grammar.rule_17 := rfl
theorem look_MatchNotIn : lookupRule G "MatchNotIn" = some Pinned.Grammar.rule_18 := rfl
theorem look_MatchContains : lookupRule G "MatchContains" = some Pinned.Grammar.rule_19 := rfl
theorem look_MatchNotContains :
    lookupRule G "MatchNotContains" = some Pinned.Grammar.rule_20 := rfl
theorem look_MatchMatches : lookupRule G "MatchMatches" = some Pinned.Grammar.rule_21 := rfl
theorem look_MatchNotMatches : lookupRule G "MatchNotMatches" = some Pinned.Grammar.rule_22 := rfl

theorem expr_MatchEqual : Pinned.Grammar.rule_13.expr =
    .action "onMatchEqual1" (.seq (tEq.map Tok.expr)) := rfl
theorem expr_MatchNotEqual : Pinned.Grammar.rule_14.expr =
    .action "onMatchNotEqual1" (.seq (tNe.map Tok.expr)) := rfl
theorem expr_MatchIsEmpty : Pinned.Grammar.rule_15.expr =
    .action "onMatchIsEmpty1" (.seq (tIsEmpty.map Tok.expr)) := rfl
theorem expr_MatchIsNotEmpty : Pinned.Grammar.rule_16.expr =
    .action "onMatchIsNotEmpty1" (.seq (tIsNotEmpty.map Tok.expr)) := rfl
theorem expr_MatchIn : Pinned.Grammar.rule_17.expr =
    .action "onMatchIn1" (.seq (tIn.map Tok.expr)) := rfl
theorem expr_MatchNotIn : Pinned.Grammar.rule_18.expr =
    .action "onMatchNotIn1" (.seq (tNotIn.map Tok.expr)) := rfl
theorem expr_MatchContains : Pinned.Grammar.rule_19.expr =
    .action "onMatchContains1" (.seq (tContains.map Tok.expr)) := rfl
theorem expr_MatchNotContains : Pinned.Grammar.rule_20.expr =
    .action "onMatchNotContains1" (.seq (tNotContains.map Tok.expr)) := rfl
theorem expr_MatchMatches : Pinned.Grammar.rule_21.expr =
    .action "onMatchMatches1" (.seq (tMatches.map Tok.expr)) := rfl
theorem expr_MatchNotMatches : Pinned.Grammar.rule_22.expr =
    .action "onMatchNotMatches1" (.seq (tNotMatches.map Tok.expr)) := rfl

theorem sem_onMatchEqual1 : lookupSem pinSem "onMatchEqual1" = .constMatchOp .equal := by
  decide +kernel
theorem sem_onMatchNotEqual1 : lookupSem pinSem "onMatchNotEqual1" = .constMatchOp .notEqual := by
  decide +kernel
theorem sem_onMatchIsEmpty1 : lookupSem pinSem "onMatchIsEmpty1" = .constMatchOp .isEmpty := by
  decide +kernel
theorem sem_onMatchIsNotEmpty1 :
    lookupSem pinSem "onMatchIsNotEmpty1" = .constMatchOp .isNotEmpty := by decide +kernel
theorem sem_onMatchIn1 : lookupSem pinSem "onMatchIn1" = .constMatchOp .in_ := by decide +kernel
theorem sem_onMatchNotIn1 : lookupSem pinSem "onMatchNotIn1" = .constMatchOp .notIn := by
  decide +kernel
theorem sem_onMatchContains1 : lookupSem pinSem "onMatchContains1" = .constMatchOp .in_ := by
  decide +kernel
theorem sem_onMatchNotContains1 :
    lookupSem pinSem "onMatchNotContains1" = .constMatchOp .notIn := by decide +kernel
theorem sem_onMatchMatches1 : lookupSem pinSem "onMatchMatches1" = .constMatchOp .matches := by
  decide +kernel
theorem sem_onMatchNotMatches1 :
    lookupSem pinSem "onMatchNotMatches1" = .constMatchOp .notMatches := by decide +kernel

/-! ## 5. Spelled operators -/

/-- the operator between a selector and a value -/
inductive OpSp where
  | eq (w₁ w₂ : GoString)
  | ne (w₁ w₂ : GoString)
  | contains (w₁ w₂ : GoString)
  | notContains (w₁ wm w₂ : GoString)
  | reMatch (w₁ w₂ : GoString)
  | reNotMatch (w₁ wm w₂ : GoString)

def OpSp.spell : OpSp → List (Tok × GoString)
  | .eq w₁ w₂ => [(.optWs, w₁), (.kw kEq, kEq), (.optWs, w₂)]
  | .ne w₁ w₂ => [(.optWs, w₁), (.kw kNe, kNe), (.optWs, w₂)]
  | .contains w₁ w₂ => [(.ws, w₁), (.kw kContains, kContains), (.ws, w₂)]
  | .notContains w₁ wm w₂ =>
    [(.ws, w₁), (.kw kNot, kNot), (.ws, wm), (.kw kContains, kContains), (.ws, w₂)]
  | .reMatch w₁ w₂ => [(.ws, w₁), (.kw kMatches, kMatches), (.ws, w₂)]
  | .reNotMatch w₁ wm w₂ =>
    [(.ws, w₁), (.kw kNot, kNot), (.ws, wm), (.kw kMatches, kMatches), (.ws, w₂)]

def OpSp.text (o : OpSp) : GoString := toksText o.spell

def OpSp.op : OpSp → MatchOp
  | .eq .. => .equal
  | .ne .. => .notEqual
  | .contains .. => .in_
  | .notContains .. => .notIn
  | .reMatch .. => .matches
  | .reNotMatch .. => .notMatches

/-- first keyword differs: `[_|_?] "kw" …` fails on `w₁ ++ r` -/
theorem toksFail_first {t0 : Tok} (ht : t0 = .ws ∨ t0 = .optWs) {x w₁ r : GoString}
    {more : List Tok} (hw : AllIn isWs w₁) (hstop : headIn isWs r = false) (hx : Asc x)
    (hp : GoString.isPrefixOf x r = false) : ToksFail (t0 :: .kw x :: more) (w₁ ++ r) := by
  rcases ht with rfl | rfl
  · exact ToksFail.wsNext hw hstop (ToksFail.kwHere hx hp)
  · exact ToksFail.optWsNext hw hstop (ToksFail.kwHere hx hp)

/-- `_ "not" _ "kw" …` fails on `w₁ not wm r₂` when `r₂` does not start with `kw` -/
theorem toksFail_second {x w₁ wm r₂ : GoString} {more : List Tok} (hw : AllIn isWs w₁)
    (hwm : AllIn isWs wm) (hstop : headIn isWs r₂ = false) (hx : Asc x)
    (hp : GoString.isPrefixOf x r₂ = false) :
    ToksFail (.ws :: .kw kNot :: .ws :: .kw x :: more) (w₁ ++ (kNot ++ (wm ++ r₂))) :=
  ToksFail.wsNext hw rfl (ToksFail.kwNext (by decide)
    (ToksFail.wsNext hwm hstop (ToksFail.kwHere hx hp)))

abbrev op6 : PExpr := .choice [.ruleRef "MatchEqual", .ruleRef "MatchNotEqual",
  .ruleRef "MatchContains", .ruleRef "MatchNotContains", .ruleRef "MatchMatches",
  .ruleRef "MatchNotMatches"]

/-- what the remainder `r` after the leading blanks must look like for all six operators of
    `MatchSelectorOpValue` to fail -/
def NoOp6 (r : GoString) : Prop :=
  GoString.isPrefixOf kEq r = false ∧ GoString.isPrefixOf kNe r = false ∧
  GoString.isPrefixOf kContains r = false ∧ GoString.isPrefixOf kMatches r = false ∧
  (GoString.isPrefixOf kNot r = false ∨
    ∃ wm r₂, r = kNot ++ (wm ++ r₂) ∧ AllIn isWs wm ∧ headIn isWs r₂ = false ∧
      GoString.isPrefixOf kContains r₂ = false ∧ GoString.isPrefixOf kMatches r₂ = false)

theorem fails_op6 {w₁ r : GoString} (hw : AllIn isWs w₁) (hstop : headIn isWs r = false)
    (h : NoOp6 r) (hs : VT (w₁ ++ r)) : Fails rule op6 fr (w₁ ++ r) off errs := by
  obtain ⟨h1, h2, h3, h4, h5⟩ := h
  have f1 : Fails rule (.ruleRef "MatchEqual") [] (w₁ ++ r) off errs :=
    fails_opRule look_MatchEqual (by decide) expr_MatchEqual
      (toksFail_first (.inr rfl) hw hstop (by decide) h1) hs
  have f2 : Fails rule (.ruleRef "MatchNotEqual") [] (w₁ ++ r) off errs :=
    fails_opRule look_MatchNotEqual (by decide) expr_MatchNotEqual
      (toksFail_first (.inr rfl) hw hstop (by decide) h2) hs
  have f3 : Fails rule (.ruleRef "MatchContains") [] (w₁ ++ r) off errs :=
    fails_opRule look_MatchContains (by decide) expr_MatchContains
      (toksFail_first (.inl rfl) hw hstop (by decide) h3) hs
  have f5 : Fails rule (.ruleRef "MatchMatches") [] (w₁ ++ r) off errs :=
    fails_opRule look_MatchMatches (by decide) expr_MatchMatches
      (toksFail_first (.inl rfl) hw hstop (by decide) h4) hs
  have f46 : Fails rule (.ruleRef "MatchNotContains") [] (w₁ ++ r) off errs ∧
      Fails rule (.ruleRef "MatchNotMatches") [] (w₁ ++ r) off errs := by
    rcases h5 with h5 | ⟨wm, r₂, rfl, hwm, hstop₂, hc, hm⟩
    · exact ⟨fails_opRule look_MatchNotContains (by decide) expr_MatchNotContains
        (toksFail_first (.inl rfl) hw hstop (by decide) h5) hs,
        fails_opRule look_MatchNotMatches (by decide) expr_MatchNotMatches
        (toksFail_first (.inl rfl) hw hstop (by decide) h5) hs⟩
    · exact ⟨fails_opRule look_MatchNotContains (by decide) expr_MatchNotContains
        (toksFail_second hw hwm hstop₂ (by decide) hc) hs,
        fails_opRule look_MatchNotMatches (by decide) expr_MatchNotMatches
        (toksFail_second hw hwm hstop₂ (by decide) hm) hs⟩
  exact Fails.choice_cons f1 (Fails.choice_cons f2 (Fails.choice_cons f3
    (Fails.choice_cons f46.1 (Fails.choice_cons f5 (Fails.choice_cons f46.2 Fails.choice_nil)))))


/-- failing of one operator rule at its first keyword -/
theorem fails_op_first {name nm : String} {r : Rule} {t0 : Tok} {x : GoString} {more : List Tok}
    (hl : lookupRule G name = some r) (hn : name ≠ "")
    (he : r.expr = .action nm (.seq ((t0 :: .kw x :: more).map Tok.expr)))
    (ht : t0 = .ws ∨ t0 = .optWs) (hx : Asc x) {w₁ r' : GoString}
    (hw : AllIn isWs w₁) (hstop : headIn isWs r' = false)
    (hp : GoString.isPrefixOf x r' = false) (hs : VT (w₁ ++ r')) :
    Fails rule (.ruleRef name) fr (w₁ ++ r') off errs :=
  fails_opRule hl hn he (toksFail_first ht hw hstop hx hp) hs

/-- The operator choice of `MatchSelectorOpValue` on a spelled operator. -/
theorem eats_op6 (o : OpSp) (hok : ToksOK o.spell rest) (hr : VT rest) :
    Eats rule op6 fr o.text rest off errs fr (.mop o.op) := by
  have hta : VT (o.text ++ rest) := (toksText_asc _ _ hok).appendV hr
  cases o with
  | eq w₁ w₂ =>
    exact Eats.choice_hit (eats_opRule look_MatchEqual (by decide) expr_MatchEqual
      sem_onMatchEqual1 _ rfl hok hr)
  | ne w₁ w₂ =>
    have e : (OpSp.ne w₁ w₂).text ++ rest = w₁ ++ (kNe ++ (w₂ ++ rest)) := by
      simp [OpSp.text, OpSp.spell, toksText]
    have hw : AllIn isWs w₁ := hok.1
    rw [e] at hta
    have f1 := fails_op_first (rule := rule) (fr := []) (off := off) (errs := errs)
      look_MatchEqual (by decide) expr_MatchEqual (.inr rfl) (by decide) hw
      (r' := kNe ++ (w₂ ++ rest)) rfl rfl hta
    rw [← e] at f1
    exact Eats.choice_next f1 (Eats.choice_hit (eats_opRule look_MatchNotEqual (by decide)
      expr_MatchNotEqual sem_onMatchNotEqual1 _ rfl hok hr))
  | contains w₁ w₂ =>
    have e : (OpSp.contains w₁ w₂).text ++ rest = w₁ ++ (kContains ++ (w₂ ++ rest)) := by
      simp [OpSp.text, OpSp.spell, toksText]
    have hw : AllIn isWs w₁ := hok.2.1
    rw [e] at hta
    have f1 := fails_op_first (rule := rule) (fr := []) (off := off) (errs := errs)
      look_MatchEqual (by decide) expr_MatchEqual (.inr rfl) (by decide) hw
      (r' := kContains ++ (w₂ ++ rest)) rfl rfl hta
    have f2 := fails_op_first (rule := rule) (fr := []) (off := off) (errs := errs)
      look_MatchNotEqual (by decide) expr_MatchNotEqual (.inr rfl) (by decide) hw
      (r' := kContains ++ (w₂ ++ rest)) rfl rfl hta
    rw [← e] at f1 f2
    exact Eats.choice_next f1 (Eats.choice_next f2 (Eats.choice_hit (eats_opRule
      look_MatchContains (by decide) expr_MatchContains sem_onMatchContains1 _ rfl hok hr)))
  | notContains w₁ wm w₂ =>
    have e : (OpSp.notContains w₁ wm w₂).text ++ rest =
        w₁ ++ (kNot ++ (wm ++ (kContains ++ (w₂ ++ rest)))) := by
      simp [OpSp.text, OpSp.spell, toksText]
    have hw : AllIn isWs w₁ := hok.2.1
    rw [e] at hta
    have f1 := fails_op_first (rule := rule) (fr := []) (off := off) (errs := errs)
      look_MatchEqual (by decide) expr_MatchEqual (.inr rfl) (by decide) hw
      (r' := kNot ++ (wm ++ (kContains ++ (w₂ ++ rest)))) rfl rfl hta
    have f2 := fails_op_first (rule := rule) (fr := []) (off := off) (errs := errs)
      look_MatchNotEqual (by decide) expr_MatchNotEqual (.inr rfl) (by decide) hw
      (r' := kNot ++ (wm ++ (kContains ++ (w₂ ++ rest)))) rfl rfl hta
    have f3 := fails_op_first (rule := rule) (fr := []) (off := off) (errs := errs)
      look_MatchContains (by decide) expr_MatchContains (.inl rfl) (by decide) hw
      (r' := kNot ++ (wm ++ (kContains ++ (w₂ ++ rest)))) rfl rfl hta
    rw [← e] at f1 f2 f3
    exact Eats.choice_next f1 (Eats.choice_next f2 (Eats.choice_next f3 (Eats.choice_hit
      (eats_opRule look_MatchNotContains (by decide) expr_MatchNotContains
        sem_onMatchNotContains1 _ rfl hok hr))))
  | reMatch w₁ w₂ =>
    have e : (OpSp.reMatch w₁ w₂).text ++ rest = w₁ ++ (kMatches ++ (w₂ ++ rest)) := by
      simp [OpSp.text, OpSp.spell, toksText]
    have hw : AllIn isWs w₁ := hok.2.1
    rw [e] at hta
    have f1 := fails_op_first (rule := rule) (fr := []) (off := off) (errs := errs)
      look_MatchEqual (by decide) expr_MatchEqual (.inr rfl) (by decide) hw
      (r' := kMatches ++ (w₂ ++ rest)) rfl rfl hta
    have f2 := fails_op_first (rule := rule) (fr := []) (off := off) (errs := errs)
      look_MatchNotEqual (by decide) expr_MatchNotEqual (.inr rfl) (by decide) hw
      (r' := kMatches ++ (w₂ ++ rest)) rfl rfl hta
    have f3 := fails_op_first (rule := rule) (fr := []) (off := off) (errs := errs)
      look_MatchContains (by decide) expr_MatchContains (.inl rfl) (by decide) hw
      (r' := kMatches ++ (w₂ ++ rest)) rfl rfl hta
    have f4 := fails_op_first (rule := rule) (fr := []) (off := off) (errs := errs)
      look_MatchNotContains (by decide) expr_MatchNotContains (.inl rfl) (by decide) hw
      (r' := kMatches ++ (w₂ ++ rest)) rfl rfl hta
    rw [← e] at f1 f2 f3 f4
    exact Eats.choice_next f1 (Eats.choice_next f2 (Eats.choice_next f3 (Eats.choice_next f4
      (Eats.choice_hit (eats_opRule look_MatchMatches (by decide) expr_MatchMatches
        sem_onMatchMatches1 _ rfl hok hr)))))
  | reNotMatch w₁ wm w₂ =>
    have e : (OpSp.reNotMatch w₁ wm w₂).text ++ rest =
        w₁ ++ (kNot ++ (wm ++ (kMatches ++ (w₂ ++ rest)))) := by
      simp [OpSp.text, OpSp.spell, toksText]
    have hw : AllIn isWs w₁ := hok.2.1
    have hwm : AllIn isWs wm := hok.2.2.2.2.2.2.1
    rw [e] at hta
    have f1 := fails_op_first (rule := rule) (fr := []) (off := off) (errs := errs)
      look_MatchEqual (by decide) expr_MatchEqual (.inr rfl) (by decide) hw
      (r' := kNot ++ (wm ++ (kMatches ++ (w₂ ++ rest)))) rfl rfl hta
    have f2 := fails_op_first (rule := rule) (fr := []) (off := off) (errs := errs)
      look_MatchNotEqual (by decide) expr_MatchNotEqual (.inr rfl) (by decide) hw
      (r' := kNot ++ (wm ++ (kMatches ++ (w₂ ++ rest)))) rfl rfl hta
    have f3 := fails_op_first (rule := rule) (fr := []) (off := off) (errs := errs)
      look_MatchContains (by decide) expr_MatchContains (.inl rfl) (by decide) hw
      (r' := kNot ++ (wm ++ (kMatches ++ (w₂ ++ rest)))) rfl rfl hta
    have f4 : Fails rule (.ruleRef "MatchNotContains") []
        (w₁ ++ (kNot ++ (wm ++ (kMatches ++ (w₂ ++ rest))))) off errs :=
      fails_opRule look_MatchNotContains (by decide) expr_MatchNotContains
        (toksFail_second hw hwm rfl (by decide) rfl) hta
    have f5 := fails_op_first (rule := rule) (fr := []) (off := off) (errs := errs)
      look_MatchMatches (by decide) expr_MatchMatches (.inl rfl) (by decide) hw
      (r' := kNot ++ (wm ++ (kMatches ++ (w₂ ++ rest)))) rfl rfl hta
    rw [← e] at f1 f2 f3 f4 f5
    exact Eats.choice_next f1 (Eats.choice_next f2 (Eats.choice_next f3 (Eats.choice_next f4
      (Eats.choice_next f5 (Eats.choice_hit (eats_opRule look_MatchNotMatches (by decide)
        expr_MatchNotMatches sem_onMatchNotMatches1 _ rfl hok hr))))))


def OpSp.WF : OpSp → Prop
  | .eq w₁ w₂ => AllIn isWs w₁ ∧ AllIn isWs w₂
  | .ne w₁ w₂ => AllIn isWs w₁ ∧ AllIn isWs w₂
  | .contains w₁ w₂ => (w₁ ≠ [] ∧ AllIn isWs w₁) ∧ (w₂ ≠ [] ∧ AllIn isWs w₂)
  | .notContains w₁ wm w₂ =>
    (w₁ ≠ [] ∧ AllIn isWs w₁) ∧ (wm ≠ [] ∧ AllIn isWs wm) ∧ (w₂ ≠ [] ∧ AllIn isWs w₂)
  | .reMatch w₁ w₂ => (w₁ ≠ [] ∧ AllIn isWs w₁) ∧ (w₂ ≠ [] ∧ AllIn isWs w₂)
  | .reNotMatch w₁ wm w₂ =>
    (w₁ ≠ [] ∧ AllIn isWs w₁) ∧ (wm ≠ [] ∧ AllIn isWs wm) ∧ (w₂ ≠ [] ∧ AllIn isWs w₂)

theorem OpSp.toksOK (o : OpSp) (h : o.WF) (hstop : headIn isWs rest = false) :
    ToksOK o.spell rest := by
  cases o with
  | eq w₁ w₂ => exact ⟨h.1, rfl, rfl, by decide, h.2, hstop, trivial⟩
  | ne w₁ w₂ => exact ⟨h.1, rfl, rfl, by decide, h.2, hstop, trivial⟩
  | contains w₁ w₂ => exact ⟨h.1.1, h.1.2, rfl, rfl, by decide, h.2.1, h.2.2, hstop, trivial⟩
  | notContains w₁ wm w₂ =>
    exact ⟨h.1.1, h.1.2, rfl, rfl, by decide, h.2.1.1, h.2.1.2, rfl, rfl, by decide,
      h.2.2.1, h.2.2.2, hstop, trivial⟩
  | reMatch w₁ w₂ => exact ⟨h.1.1, h.1.2, rfl, rfl, by decide, h.2.1, h.2.2, hstop, trivial⟩
  | reNotMatch w₁ wm w₂ =>
    exact ⟨h.1.1, h.1.2, rfl, rfl, by decide, h.2.1.1, h.2.1.2, rfl, rfl, by decide,
      h.2.2.1, h.2.2.2, hstop, trivial⟩

/-! ### `is empty`, `is not empty` -/

inductive PostSp where
  | isEmpty (w₁ w₂ : GoString)
  | isNotEmpty (w₁ w₂ w₃ : GoString)

def PostSp.spell : PostSp → List (Tok × GoString)
  | .isEmpty w₁ w₂ => [(.ws, w₁), (.kw kIs, kIs), (.ws, w₂), (.kw kEmpty, kEmpty)]
  | .isNotEmpty w₁ w₂ w₃ =>
    [(.ws, w₁), (.kw kIs, kIs), (.ws, w₂), (.kw kNot, kNot), (.ws, w₃), (.kw kEmpty, kEmpty)]
def PostSp.text (p : PostSp) : GoString := toksText p.spell
def PostSp.op : PostSp → MatchOp
  | .isEmpty .. => .isEmpty
  | .isNotEmpty .. => .isNotEmpty
def PostSp.WF : PostSp → Prop
  | .isEmpty w₁ w₂ => (w₁ ≠ [] ∧ AllIn isWs w₁) ∧ (w₂ ≠ [] ∧ AllIn isWs w₂)
  | .isNotEmpty w₁ w₂ w₃ =>
    (w₁ ≠ [] ∧ AllIn isWs w₁) ∧ (w₂ ≠ [] ∧ AllIn isWs w₂) ∧ (w₃ ≠ [] ∧ AllIn isWs w₃)

theorem PostSp.toksOK (p : PostSp) (h : p.WF) : ToksOK p.spell rest := by
  cases p with
  | isEmpty w₁ w₂ =>
    exact ⟨h.1.1, h.1.2, rfl, rfl, by decide, h.2.1, h.2.2, rfl, rfl, by decide, trivial⟩
  | isNotEmpty w₁ w₂ w₃ =>
    exact ⟨h.1.1, h.1.2, rfl, rfl, by decide, h.2.1.1, h.2.1.2, rfl, rfl, by decide,
      h.2.2.1, h.2.2.2, rfl, rfl, by decide, trivial⟩

abbrev isChoice : PExpr := .choice [.ruleRef "MatchIsEmpty", .ruleRef "MatchIsNotEmpty"]

theorem eats_isChoice (p : PostSp) (h : p.WF) (hr : VT rest) :
    Eats rule isChoice fr p.text rest off errs fr (.mop p.op) := by
  have hok := p.toksOK (rest := rest) h
  have hta : VT (p.text ++ rest) := (toksText_asc _ _ hok).appendV hr
  cases p with
  | isEmpty w₁ w₂ =>
    exact Eats.choice_hit (eats_opRule look_MatchIsEmpty (by decide) expr_MatchIsEmpty
      sem_onMatchIsEmpty1 _ rfl hok hr)
  | isNotEmpty w₁ w₂ w₃ =>
    have e : (PostSp.isNotEmpty w₁ w₂ w₃).text ++ rest =
        w₁ ++ (kIs ++ (w₂ ++ (kNot ++ (w₃ ++ (kEmpty ++ rest))))) := by
      simp [PostSp.text, PostSp.spell, toksText]
    rw [e] at hta
    have f1 : Fails rule (.ruleRef "MatchIsEmpty") []
        (w₁ ++ (kIs ++ (w₂ ++ (kNot ++ (w₃ ++ (kEmpty ++ rest)))))) off errs :=
      fails_opRule look_MatchIsEmpty (by decide) expr_MatchIsEmpty
        (ToksFail.wsNext h.1.2 rfl (ToksFail.kwNext (by decide)
          (ToksFail.wsNext h.2.1.2 rfl (ToksFail.kwHere (by decide) rfl)))) hta
    rw [← e] at f1
    exact Eats.choice_next f1 (Eats.choice_hit (eats_opRule look_MatchIsNotEmpty (by decide)
      expr_MatchIsNotEmpty sem_onMatchIsNotEmpty1 _ rfl hok hr))

theorem fails_isChoice {w₁ r : GoString} (hw : AllIn isWs w₁) (hstop : headIn isWs r = false)
    (hp : GoString.isPrefixOf kIs r = false) (hs : VT (w₁ ++ r)) :
    Fails rule isChoice fr (w₁ ++ r) off errs :=
  Fails.choice_cons (fails_op_first look_MatchIsEmpty (by decide) expr_MatchIsEmpty (.inl rfl)
      (by decide) hw hstop hp hs)
    (Fails.choice_cons (fails_op_first look_MatchIsNotEmpty (by decide) expr_MatchIsNotEmpty
      (.inl rfl) (by decide) hw hstop hp hs) Fails.choice_nil)

/-! ### `in`, `not in` -/

inductive InSp where
  | in_ (w₁ w₂ : GoString)
  | notIn (w₁ w₂ w₃ : GoString)

def InSp.spell : InSp → List (Tok × GoString)
  | .in_ w₁ w₂ => [(.ws, w₁), (.kw kIn, kIn), (.ws, w₂)]
  | .notIn w₁ w₂ w₃ => [(.ws, w₁), (.kw kNot, kNot), (.ws, w₂), (.kw kIn, kIn), (.ws, w₃)]
def InSp.text (p : InSp) : GoString := toksText p.spell
def InSp.op : InSp → MatchOp
  | .in_ .. => .in_
  | .notIn .. => .notIn
def InSp.WF : InSp → Prop
  | .in_ w₁ w₂ => (w₁ ≠ [] ∧ AllIn isWs w₁) ∧ (w₂ ≠ [] ∧ AllIn isWs w₂)
  | .notIn w₁ w₂ w₃ =>
    (w₁ ≠ [] ∧ AllIn isWs w₁) ∧ (w₂ ≠ [] ∧ AllIn isWs w₂) ∧ (w₃ ≠ [] ∧ AllIn isWs w₃)

theorem InSp.toksOK (p : InSp) (h : p.WF) (hstop : headIn isWs rest = false) :
    ToksOK p.spell rest := by
  cases p with
  | in_ w₁ w₂ => exact ⟨h.1.1, h.1.2, rfl, rfl, by decide, h.2.1, h.2.2, hstop, trivial⟩
  | notIn w₁ w₂ w₃ =>
    exact ⟨h.1.1, h.1.2, rfl, rfl, by decide, h.2.1.1, h.2.1.2, rfl, rfl, by decide,
      h.2.2.1, h.2.2.2, hstop, trivial⟩

abbrev inChoice : PExpr := .choice [.ruleRef "MatchIn", .ruleRef "MatchNotIn"]

theorem eats_inChoice (p : InSp) (h : p.WF) (hstop : headIn isWs rest = false) (hr : VT rest) :
    Eats rule inChoice fr p.text rest off errs fr (.mop p.op) := by
  have hok := p.toksOK h hstop
  have hta : VT (p.text ++ rest) := (toksText_asc _ _ hok).appendV hr
  cases p with
  | in_ w₁ w₂ =>
    exact Eats.choice_hit (eats_opRule look_MatchIn (by decide) expr_MatchIn
      sem_onMatchIn1 _ rfl hok hr)
  | notIn w₁ w₂ w₃ =>
    have e : (InSp.notIn w₁ w₂ w₃).text ++ rest =
        w₁ ++ (kNot ++ (w₂ ++ (kIn ++ (w₃ ++ rest)))) := by
      simp [InSp.text, InSp.spell, toksText]
    rw [e] at hta
    have f1 := fails_op_first (rule := rule) (fr := []) (off := off) (errs := errs)
      look_MatchIn (by decide) expr_MatchIn (.inl rfl) (by decide) h.1.2
      (r' := kNot ++ (w₂ ++ (kIn ++ (w₃ ++ rest)))) rfl rfl hta
    rw [← e] at f1
    exact Eats.choice_next f1 (Eats.choice_hit (eats_opRule look_MatchNotIn (by decide)
      expr_MatchNotIn sem_onMatchNotIn1 _ rfl hok hr))

/-- an `in` / `not in` phrase is none of the six operators of `MatchSelectorOpValue`, nor
    `is …` -/
theorem InSp.noOp6 (p : InSp) (h : p.WF) :
    ∃ w₁ r, p.text ++ rest = w₁ ++ r ∧ AllIn isWs w₁ ∧ headIn isWs r = false ∧ NoOp6 r ∧
      GoString.isPrefixOf kIs r = false := by
  cases p with
  | in_ w₁ w₂ =>
    exact ⟨w₁, kIn ++ (w₂ ++ rest), by simp [InSp.text, InSp.spell, toksText], h.1.2, rfl,
      ⟨rfl, rfl, rfl, rfl, .inl rfl⟩, rfl⟩
  | notIn w₁ w₂ w₃ =>
    exact ⟨w₁, kNot ++ (w₂ ++ (kIn ++ (w₃ ++ rest))),
      by simp [InSp.text, InSp.spell, toksText], h.1.2, rfl,
      ⟨rfl, rfl, rfl, rfl, .inr ⟨w₂, kIn ++ (w₃ ++ rest), rfl, h.2.1.2, rfl, rfl, rfl⟩⟩, rfl⟩

theorem PostSp.noOp6 (p : PostSp) (h : p.WF) :
    ∃ w₁ r, p.text ++ rest = w₁ ++ r ∧ AllIn isWs w₁ ∧ headIn isWs r = false ∧ NoOp6 r := by
  cases p with
  | isEmpty w₁ w₂ =>
    exact ⟨w₁, kIs ++ (w₂ ++ (kEmpty ++ rest)), by simp [PostSp.text, PostSp.spell, toksText],
      h.1.2, rfl, ⟨rfl, rfl, rfl, rfl, .inl rfl⟩⟩
  | isNotEmpty w₁ w₂ w₃ =>
    exact ⟨w₁, kIs ++ (w₂ ++ (kNot ++ (w₃ ++ (kEmpty ++ rest)))),
      by simp [PostSp.text, PostSp.spell, toksText], h.1.2, rfl,
      ⟨rfl, rfl, rfl, rfl, .inl rfl⟩⟩


/-! ## 6. Selectors in either spelling; heads of texts -/

open Bexpr.Props.C16Lex (ptrEscape) in
/-- a selector: bexpr spelling or JSON-pointer spelling -/
inductive SelX where
  | bexpr (σ : SelSp)
  | ptr (path : List GoString)

open Bexpr.Props.C16Lex (ptrEscape) in
def SelX.text : SelX → GoString
  | .bexpr σ => σ.text
  | .ptr path => pointerText path

def SelX.sel : SelX → Selector
  | .bexpr σ => { ty := .bexpr, path := σ.path }
  | .ptr path => { ty := .jsonPointer, path := path }

open Bexpr.Props.C16Lex (ptrEscape) in
def SelX.WF : SelX → Prop
  | .bexpr σ => σ.WF
  | .ptr path => path ≠ [] ∧ ∀ p ∈ path, SegOK (ptrEscape p)

def SelX.follow : SelX → GoString → Prop
  | .bexpr _, rest => stopsSel rest
  | .ptr _, _ => True

theorem pointerText_vt (path : List GoString)
    (h : ∀ p ∈ path, SegOK (Props.C16Lex.ptrEscape p)) : VT (pointerText path) := by
  refine VT.cons (by decide) ((segsText_vt _ ?_).append (VT.cons (by decide) VT.nil))
  intro g hg
  obtain ⟨p, hp, rfl⟩ := List.mem_map.1 hg
  exact h p hp

theorem SelX.text_vt (x : SelX) (h : x.WF) : VT x.text := by
  cases x with
  | bexpr σ => exact σ.text_vt h
  | ptr path => exact pointerText_vt path h.2

theorem eats_SelX (x : SelX) (h : x.WF) (hf : x.follow rest) (hr : VT rest) :
    Eats rule (.ruleRef "Selector") fr x.text rest off errs fr (.sel x.sel) := by
  cases x with
  | bexpr σ => exact eats_Selector_bexpr σ h hf hr
  | ptr path => exact eats_Selector_pointer path h.1 h.2 hr

/-- the first byte of a token: never a blank, never `(` -/
def tokStart (n : Nat) : Bool := isAlpha n || numStart n || n == 0x60 || n == 0x22

theorem headIn_append_left {p : Nat → Bool} {b : UInt8} {t u : GoString} :
    headIn p ((b :: t) ++ u) = p b.toNat := rfl

theorem SelSp.head (σ : SelSp) (h : σ.WF) : headIn tokStart (σ.text ++ rest) = true := by
  show tokStart σ.b.toNat = true
  simp [tokStart, h.1]

theorem SelX.head (x : SelX) (h : x.WF) : headIn tokStart (x.text ++ rest) = true := by
  cases x with
  | bexpr σ => exact σ.head h
  | ptr path => rfl

theorem NumLit.head (n : NumLit) (h : n.WF) : headIn tokStart (n.text ++ rest) = true := by
  obtain ⟨hint, _⟩ := h
  unfold NumLit.text NumLit.sign
  split
  · rfl
  · rcases hint with h0 | ⟨d, ds, hd, hd19, _⟩
    · rw [h0]; rfl
    · rw [hd]
      show tokStart d.toNat = true
      simp [tokStart, numStart, isDigit_of_19 hd19]

theorem ValSp.head (v : ValSp) (h : v.WF) : headIn tokStart (v.text ++ rest) = true := by
  cases v with
  | sel σ => exact σ.head h
  | num n => exact n.head h
  | str q body val =>
    rcases h.1 with rfl | rfl <;> rfl

theorem noWs_of_tokStart (h : headIn tokStart s = true) : headIn isWs s = false := by
  cases s with
  | nil => rfl
  | cons b t =>
    have h' : tokStart b.toNat = true := h
    show isWs b.toNat = false
    have hb : b.toNat < 128 := by
      simp only [tokStart, numStart, Bool.or_eq_true, beq_iff_eq] at h'
      rcases h' with ((h' | h' | h') | h') | h'
      · exact isAlpha_lt h'
      · omega
      · exact isDigit_lt h'
      · omega
      · omega
    revert h'
    have : ∀ n, n < 128 → tokStart n = true → isWs n = false := by decide
    exact this _ hb

theorem noParen_of_tokStart (h : headIn tokStart s = true) :
    GoString.isPrefixOf [40] s = false := by
  cases s with
  | nil => rfl
  | cons b t =>
    have h' : tokStart b.toNat = true := h
    have : ¬ (40 : UInt8) = b := by
      intro hb; subst hb; revert h'; decide
    simp [GoString.isPrefixOf, this]

/-! ## 7. The three match forms -/

theorem sem_onMatchSelectorOpValue1 : lookupSem pinSem "onMatchSelectorOpValue1" =
    .mkMatch "selector" "operator" (some "value") := by decide +kernel
theorem sem_onMatchSelectorOp1 : lookupSem pinSem "onMatchSelectorOp1" =
    .mkMatch "selector" "operator" none := by decide +kernel
theorem sem_onMatchValueOpSelector2 : lookupSem pinSem "onMatchValueOpSelector2" =
    .mkMatch "selector" "operator" (some "value") := by decide +kernel
theorem look_MatchExpression : lookupRule G "MatchExpression" = some Pinned.Grammar.rule_9 := rfl
theorem look_MatchSelectorOpValue :
    lookupRule G "MatchSelectorOpValue" = some Pinned.Grammar.rule_10 := rfl
theorem look_MatchSelectorOp : lookupRule G "MatchSelectorOp" = some Pinned.Grammar.rule_11 := rfl
theorem look_MatchValueOpSelector :
    lookupRule G "MatchValueOpSelector" = some Pinned.Grammar.rule_12 := rfl

theorem isWs_not_selCont : ∀ n, isWs n = true → selCont n = false := by
  intro n h
  have hn := isWs_lt h
  revert h
  have : ∀ n, n < 128 → isWs n = true → selCont n = false := by decide
  exact this n hn

/-- blanks stop a selector and may follow a number -/
theorem stopsSel_of_ws {b : UInt8} {t r : GoString} (h : AllIn isWs (b :: t)) :
    stopsSel ((b :: t) ++ r) := isWs_not_selCont _ h.head

theorem numFollow_of_ws {b : UInt8} {t r : GoString} (h : AllIn isWs (b :: t)) :
    numFollow ((b :: t) ++ r) = true := by
  show (isWs b.toNat || b == 41) = true
  rw [h.head]; rfl

theorem OpSp.stops (o : OpSp) (h : o.WF) (r : GoString) : stopsSel (o.text ++ r) := by
  cases o with
  | eq w₁ w₂ =>
    cases w₁ with
    | nil => rfl
    | cons b t => exact (isWs_not_selCont _ h.1.head : selCont b.toNat = false)
  | ne w₁ w₂ =>
    cases w₁ with
    | nil => rfl
    | cons b t => exact (isWs_not_selCont _ h.1.head : selCont b.toNat = false)
  | contains w₁ w₂ =>
    cases w₁ with
    | nil => exact absurd rfl h.1.1
    | cons b t => exact (isWs_not_selCont _ h.1.2.head : selCont b.toNat = false)
  | notContains w₁ wm w₂ =>
    cases w₁ with
    | nil => exact absurd rfl h.1.1
    | cons b t => exact (isWs_not_selCont _ h.1.2.head : selCont b.toNat = false)
  | reMatch w₁ w₂ =>
    cases w₁ with
    | nil => exact absurd rfl h.1.1
    | cons b t => exact (isWs_not_selCont _ h.1.2.head : selCont b.toNat = false)
  | reNotMatch w₁ wm w₂ =>
    cases w₁ with
    | nil => exact absurd rfl h.1.1
    | cons b t => exact (isWs_not_selCont _ h.1.2.head : selCont b.toNat = false)

theorem PostSp.stops (p : PostSp) (h : p.WF) (r : GoString) : stopsSel (p.text ++ r) := by
  cases p with
  | isEmpty w₁ w₂ =>
    cases w₁ with
    | nil => exact absurd rfl h.1.1
    | cons b t => exact (isWs_not_selCont _ h.1.2.head : selCont b.toNat = false)
  | isNotEmpty w₁ w₂ w₃ =>
    cases w₁ with
    | nil => exact absurd rfl h.1.1
    | cons b t => exact (isWs_not_selCont _ h.1.2.head : selCont b.toNat = false)

theorem InSp.stops (p : InSp) (h : p.WF) (r : GoString) :
    stopsSel (p.text ++ r) ∧ numFollow (p.text ++ r) = true := by
  cases p with
  | in_ w₁ w₂ =>
    cases w₁ with
    | nil => exact absurd rfl h.1.1
    | cons b t => exact ⟨(isWs_not_selCont _ h.1.2.head : selCont b.toNat = false),
        (by rw [h.1.2.head]; rfl : (isWs b.toNat || b == 41) = true)⟩
  | notIn w₁ w₂ w₃ =>
    cases w₁ with
    | nil => exact absurd rfl h.1.1
    | cons b t => exact ⟨(isWs_not_selCont _ h.1.2.head : selCont b.toNat = false),
        (by rw [h.1.2.head]; rfl : (isWs b.toNat || b == 41) = true)⟩

theorem SelX.follow_of_stops (x : SelX) (h : stopsSel rest) : x.follow rest := by
  cases x with
  | bexpr σ => exact h
  | ptr path => trivial

theorem ValSp.follow_of (v : ValSp) (h1 : stopsSel rest) (h2 : numFollow rest = true) :
    v.follow rest := by
  cases v with
  | sel σ => exact h1
  | num n => exact h2
  | str q body val => trivial

theorem OpSp.text_asc (o : OpSp) (h : o.WF) : Asc o.text :=
  toksText_asc _ [] (o.toksOK h rfl)
theorem PostSp.text_asc (p : PostSp) (h : p.WF) : Asc p.text :=
  toksText_asc _ [] (p.toksOK h)
theorem InSp.text_asc (p : InSp) (h : p.WF) : Asc p.text :=
  toksText_asc _ [] (p.toksOK h rfl)

/-- `selector op value` -/
theorem eats_MatchSelectorOpValue (x : SelX) (o : OpSp) (v : ValSp) (hx : x.WF) (ho : o.WF)
    (hv : v.WF) (hf : v.follow rest) (hr : VT rest) :
    Eats rule (.ruleRef "MatchSelectorOpValue") fr (x.text ++ (o.text ++ v.text)) rest off errs fr
      (.expr (.match_ x.sel o.op (some v.raw))) := by
  have hva := v.text_vt hv
  have hoa := o.text_asc ho
  have e1 := Eats.labeled (rule := Pinned.Grammar.rule_10.shown) (l := "selector") (fr := [])
    (by decide) (eats_SelX (off := off) (errs := errs) x hx
      (x.follow_of_stops (by rw [List.append_assoc]; exact o.stops ho _))
      (rest := o.text ++ v.text ++ rest) ((hoa.appendV hva).append hr))
  have e2 := Eats.labeled (rule := Pinned.Grammar.rule_10.shown) (l := "operator")
    (fr := [("selector", .sel x.sel)]) (by decide)
    (eats_op6 (off := off + x.text.length) (errs := errs) o
      (o.toksOK ho (noWs_of_tokStart (v.head hv))) (hva.append hr))
  have e3 := Eats.labeled (rule := Pinned.Grammar.rule_10.shown) (l := "value")
    (fr := [("operator", .mop o.op), ("selector", .sel x.sel)]) (by decide)
    (eats_Value (off := off + x.text.length + o.text.length) (errs := errs) v hv hf hr)
  have hseq := EatsSeq.cons e1 (EatsSeq.cons e2 (EatsSeq.one e3))
  refine Eats.ref look_MatchSelectorOpValue (by decide) (Eats.action (Eats.seq hseq) ?_)
  rw [act_of_sem sem_onMatchSelectorOpValue1]
  simp [runActionSem, Frame.get, List.find?]


/-- `selector is [not] empty` -/
theorem eats_MatchSelectorOp (x : SelX) (p : PostSp) (hx : x.WF) (hp : p.WF) (hr : VT rest) :
    Eats rule (.ruleRef "MatchSelectorOp") fr (x.text ++ p.text) rest off errs fr
      (.expr (.match_ x.sel p.op none)) := by
  have hpa := p.text_asc hp
  have e1 := Eats.labeled (rule := Pinned.Grammar.rule_11.shown) (l := "selector") (fr := [])
    (by decide) (eats_SelX (off := off) (errs := errs) x hx
      (x.follow_of_stops (p.stops hp rest)) (hpa.appendV hr))
  have e2 := Eats.labeled (rule := Pinned.Grammar.rule_11.shown) (l := "operator")
    (fr := [("selector", .sel x.sel)]) (by decide)
    (eats_isChoice (off := off + x.text.length) (errs := errs) p hp hr)
  have hseq := EatsSeq.cons e1 (EatsSeq.one e2)
  refine Eats.ref look_MatchSelectorOp (by decide) (Eats.action (Eats.seq hseq) ?_)
  rw [act_of_sem sem_onMatchSelectorOp1]
  simp [runActionSem, Frame.get, List.find?]

/-- `value [not] in selector` -/
theorem eats_MatchValueOpSelector (v : ValSp) (i : InSp) (x : SelX) (hv : v.WF) (hi : i.WF)
    (hx : x.WF) (hf : x.follow rest) (hr : VT rest) :
    Eats rule (.ruleRef "MatchValueOpSelector") fr (v.text ++ (i.text ++ x.text)) rest off errs fr
      (.expr (.match_ x.sel i.op (some v.raw))) := by
  have hxa := x.text_vt hx
  have hia := i.text_asc hi
  have e1 := Eats.labeled (rule := Pinned.Grammar.rule_12.shown) (l := "value") (fr := [])
    (by decide) (eats_Value (off := off) (errs := errs) v hv
      (v.follow_of (by rw [List.append_assoc]; exact (i.stops hi _).1)
        (by rw [List.append_assoc]; exact (i.stops hi _).2))
      (rest := i.text ++ x.text ++ rest) ((hia.appendV hxa).append hr))
  have e2 := Eats.labeled (rule := Pinned.Grammar.rule_12.shown) (l := "operator")
    (fr := [("value", .mval v.raw)]) (by decide)
    (eats_inChoice (off := off + v.text.length) (errs := errs) i hi
      (noWs_of_tokStart (x.head hx)) (hxa.append hr))
  have e3 := Eats.labeled (rule := Pinned.Grammar.rule_12.shown) (l := "selector")
    (fr := [("operator", .mop i.op), ("value", .mval v.raw)]) (by decide)
    (eats_SelX (off := off + v.text.length + i.text.length) (errs := errs) x hx hf hr)
  have hseq := EatsSeq.cons e1 (EatsSeq.cons e2 (EatsSeq.one e3))
  refine Eats.ref look_MatchValueOpSelector (by decide) (Eats.choice_hit
    (Eats.action (Eats.seq hseq) ?_))
  rw [act_of_sem sem_onMatchValueOpSelector2]
  simp [runActionSem, Frame.get, List.find?]

/-- a number or quoted value is not a selector -/
theorem ValSp.fails_Selector (v : ValSp) (h : v.WF) (hns : ∀ σ, v ≠ .sel σ) (hr : VT rest) :
    Fails rule (.ruleRef "Selector") fr (v.text ++ rest) off errs := by
  cases v with
  | sel σ => exact absurd rfl (hns σ)
  | num n =>
    have hall : VT (n.text ++ rest) := (n.text_asc h).appendV hr
    have hstart : headIn isAlpha (n.text ++ rest) = false ∧
        GoString.isPrefixOf [34] (n.text ++ rest) = false := by
      obtain ⟨hint, _⟩ := h
      unfold NumLit.text NumLit.sign
      split
      · exact ⟨rfl, rfl⟩
      · rcases hint with h0 | ⟨d, ds, hd, hd19, _⟩
        · rw [h0]; exact ⟨rfl, rfl⟩
        · rw [hd]
          have h' : 49 ≤ d.toNat ∧ d.toNat ≤ 57 := by
            simpa [inCls, classMatches.inRanges] using hd19
          constructor
          · simp [headIn, inCls, classMatches.inRanges]; omega
          · have : ¬ (34 : UInt8) = d := by intro h; subst h; simp at h'
            simp [GoString.isPrefixOf, this]
    exact RoundTrip.fails_Selector hall hstart.1 hstart.2
  | str q body val =>
    obtain ⟨hq, hb, hnq, hu, hdq⟩ := h
    have hq' : q.toNat < 128 := by rcases hq with rfl | rfl <;> decide
    have hall : VT ([q] ++ (body ++ [q]) ++ rest) :=
      (VT.cons hq' (hb.append (VT.cons hq' VT.nil))).append hr
    rcases hq with rfl | rfl
    · exact RoundTrip.fails_Selector hall rfl rfl
    · obtain ⟨c, t, rfl, hc⟩ := hdq rfl
      have := fails_Selector_dq (rule := rule) (fr := fr) (off := off)
        (errs := errs) (c := c) (t := t ++ [34]) (rest := rest)
        (by simpa using hb.append (VT.cons (b := 34) (by decide) VT.nil)) hc
        (hnq c (List.mem_cons_self ..)) hr
      simpa [ValSp.text] using this

/-- how a match expression is written -/
inductive MatchSp where
  | opValue (x : SelX) (o : OpSp) (v : ValSp)
  | post (x : SelX) (p : PostSp)
  | inSel (v : ValSp) (i : InSp) (x : SelX)

def MatchSp.text : MatchSp → GoString
  | .opValue x o v => x.text ++ (o.text ++ v.text)
  | .post x p => x.text ++ p.text
  | .inSel v i x => v.text ++ (i.text ++ x.text)

/-- the tree denoted -/
def MatchSp.ast : MatchSp → Expr
  | .opValue x o v => .match_ x.sel o.op (some v.raw)
  | .post x p => .match_ x.sel p.op none
  | .inSel v i x => .match_ x.sel i.op (some v.raw)

def MatchSp.WF : MatchSp → Prop
  | .opValue x o v => x.WF ∧ o.WF ∧ v.WF
  | .post x p => x.WF ∧ p.WF
  | .inSel v i x => v.WF ∧ i.WF ∧ x.WF

/-- what must follow the match expression -/
def MatchSp.follow : MatchSp → GoString → Prop
  | .opValue _ _ v, rest => v.follow rest
  | .post .., _ => True
  | .inSel _ _ x, rest => x.follow rest

theorem MatchSp.text_vt (m : MatchSp) (h : m.WF) : VT m.text := by
  cases m with
  | opValue x o v => exact (x.text_vt h.1).append ((o.text_asc h.2.1).appendV (v.text_vt h.2.2))
  | post x p => exact (x.text_vt h.1).append (p.text_asc h.2).vt
  | inSel v i x => exact (v.text_vt h.1).append ((i.text_asc h.2.1).appendV (x.text_vt h.2.2))

theorem MatchSp.head (m : MatchSp) (h : m.WF) : headIn tokStart (m.text ++ rest) = true := by
  cases m with
  | opValue x o v =>
    show headIn tokStart (x.text ++ (o.text ++ v.text) ++ rest) = true
    rw [List.append_assoc]; exact x.head h.1
  | post x p =>
    show headIn tokStart (x.text ++ p.text ++ rest) = true
    rw [List.append_assoc]; exact x.head h.1
  | inSel v i x =>
    show headIn tokStart (v.text ++ (i.text ++ x.text) ++ rest) = true
    rw [List.append_assoc]; exact v.head h.1

/-- `MatchExpression <- MatchSelectorOpValue / MatchSelectorOp / MatchValueOpSelector` -/
theorem eats_MatchExpression (m : MatchSp) (h : m.WF) (hf : m.follow rest) (hr : VT rest) :
    Eats rule (.ruleRef "MatchExpression") fr m.text rest off errs fr (.expr m.ast) := by
  cases m with
  | opValue x o v =>
    exact Eats.ref look_MatchExpression (by decide) (Eats.choice_hit
      (eats_MatchSelectorOpValue x o v h.1 h.2.1 h.2.2 hf hr))
  | post x p =>
    obtain ⟨hx, hp⟩ := h
    have hpa := p.text_asc hp
    -- MatchSelectorOpValue: the selector matches, none of the six operators does
    obtain ⟨w₁, r, e, hw, hstop, hno⟩ := p.noOp6 (rest := rest) hp
    have hwa : VT (w₁ ++ r) := by rw [← e]; exact hpa.appendV hr
    have f1 : Fails Pinned.Grammar.rule_9.shown (.ruleRef "MatchSelectorOpValue") []
        (x.text ++ p.text ++ rest) off errs := by
      refine Fails.ref look_MatchSelectorOpValue (by decide) (Fails.action (Fails.seq ?_))
      rw [List.append_assoc]
      refine FailsSeq.later (Eats.labeled (l := "selector") (by decide)
        (eats_SelX x hx (x.follow_of_stops (p.stops hp rest)) (hpa.appendV hr))) ?_
      rw [e]
      exact FailsSeq.here (Fails.labeled (fails_op6 hw hstop hno hwa))
    exact Eats.ref look_MatchExpression (by decide) (Eats.choice_next f1 (Eats.choice_hit
      (eats_MatchSelectorOp x p hx hp hr)))
  | inSel v i x =>
    obtain ⟨hv, hi, hx⟩ := h
    have hia := i.text_asc hi
    have hxa := x.text_vt hx
    have htail : VT (i.text ++ (x.text ++ rest)) := hia.appendV (hxa.append hr)
    obtain ⟨w₁, r, e, hw, hstop, hno, hnis⟩ := i.noOp6 (rest := x.text ++ rest) hi
    have hwa : VT (w₁ ++ r) := by rw [← e]; exact htail
    -- both selector-first forms fail: either `Selector` fails on the value, or it matches a
    -- bare word and the operator choice fails on `in` / `not in`
    have key : ∀ (rl : String) (opE : PExpr) (more : List PExpr),
        (∀ fr', Fails rl opE fr' (w₁ ++ r) (off + v.text.length) errs) →
        FailsSeq rl (.labeled "selector" (.ruleRef "Selector") :: .labeled "operator" opE :: more)
          [] (v.text ++ (i.text ++ (x.text ++ rest))) off errs := by
      intro rl opE more hop
      by_cases hs : ∃ σ, v = .sel σ
      · obtain ⟨σ, rfl⟩ := hs
        refine FailsSeq.later (Eats.labeled (l := "selector") (by decide)
          (eats_Selector_bexpr σ hv (i.stops hi _).1 htail)) ?_
        rw [e]
        exact FailsSeq.here (Fails.labeled (hop _))
      · exact FailsSeq.here (Fails.labeled (v.fails_Selector hv
          (fun σ h => hs ⟨σ, h⟩) htail))
    have f1 : Fails Pinned.Grammar.rule_9.shown (.ruleRef "MatchSelectorOpValue") []
        (v.text ++ (i.text ++ x.text) ++ rest) off errs := by
      rw [List.append_assoc, List.append_assoc]
      exact Fails.ref look_MatchSelectorOpValue (by decide) (Fails.action (Fails.seq
        (key _ op6 _ (fun _ => fails_op6 hw hstop hno hwa))))
    have f2 : Fails Pinned.Grammar.rule_9.shown (.ruleRef "MatchSelectorOp") []
        (v.text ++ (i.text ++ x.text) ++ rest) off errs := by
      rw [List.append_assoc, List.append_assoc]
      exact Fails.ref look_MatchSelectorOp (by decide) (Fails.action (Fails.seq
        (key _ isChoice _ (fun _ => fails_isChoice hw hstop hnis hwa))))
    exact Eats.ref look_MatchExpression (by decide) (Eats.choice_next f1 (Eats.choice_next f2
      (Eats.choice_hit (eats_MatchValueOpSelector v i x hv hi hx hf hr))))

end Bexpr.Proofs.RoundTrip
