/-
  Lemmas for C18: the option fold (`getOpts`) and the neutrality of the identity hook through
  `getStep` / `getLoop` / `get` / `getValue` / `evaluate`.  Core Lean only.
-/
import Bexpr.Eval.Create

namespace Bexpr.Proofs.Options
open Bexpr Bexpr.Go Bexpr.Eval

/-! ### kinds and arguments of options -/

inductive OptKind where
  | maxExpressions | tagName | hook | unknown | nil
  deriving DecidableEq, Repr

end Bexpr.Proofs.Options

namespace Bexpr.Eval
open Bexpr.Proofs.Options Bexpr.Go

def Opt.kind : Opt → OptKind
  | .maxExpressions _ => .maxExpressions
  | .tagName _ => .tagName
  | .hookFn _ => .hook
  | .unknownValue _ => .unknown
  | .nilOpt => .nil

/-- the argument of a `WithMaxExpressions` option -/
def Opt.maxArg : Opt → Option Nat
  | .maxExpressions n => some n
  | _ => none

def Opt.tagArg : Opt → Option GoString
  | .tagName s => some s
  | _ => none

def Opt.hookArg : Opt → Option Hook
  | .hookFn h => some h
  | _ => none

def Opt.unknownArg : Opt → Option Any
  | .unknownValue v => some v
  | _ => none

end Bexpr.Eval

namespace Bexpr.Proofs.Options
open Bexpr Bexpr.Go Bexpr.Eval

/-- the last element for which `f` is defined -/
def lastSome {α β : Type} (f : α → Option β) (l : List α) : Option β := (l.filterMap f).getLast?

theorem lastSome_nil {α β : Type} (f : α → Option β) : lastSome f [] = none := rfl

theorem lastSome_cons_some {α β : Type} (f : α → Option β) (a : α) (l : List α) (b : β)
    (h : f a = some b) : lastSome f (a :: l) = some ((lastSome f l).getD b) := by
  simp [lastSome, h, List.getLast?_cons]

theorem lastSome_cons_none {α β : Type} (f : α → Option β) (a : α) (l : List α)
    (h : f a = none) : lastSome f (a :: l) = lastSome f l := by
  simp [lastSome, h]

/-! ### fold characterisation, from an arbitrary start record -/

theorem foldl_max (opts : List Opt) (o : Options) :
    (opts.foldl Opt.apply o).maxExpressions = (lastSome Opt.maxArg opts).getD o.maxExpressions := by
  induction opts generalizing o with
  | nil => rfl
  | cons a t ih =>
    rw [List.foldl_cons, ih]
    cases a <;>
      first
      | (rw [lastSome_cons_none Opt.maxArg _ _ rfl]; rfl)
      | (rw [lastSome_cons_some Opt.maxArg _ _ _ rfl]; cases lastSome Opt.maxArg t <;> rfl)

theorem foldl_tag (opts : List Opt) (o : Options) :
    (opts.foldl Opt.apply o).tagName = (lastSome Opt.tagArg opts).getD o.tagName := by
  induction opts generalizing o with
  | nil => rfl
  | cons a t ih =>
    rw [List.foldl_cons, ih]
    cases a <;>
      first
      | (rw [lastSome_cons_none Opt.tagArg _ _ rfl]; rfl)
      | (rw [lastSome_cons_some Opt.tagArg _ _ _ rfl]; cases lastSome Opt.tagArg t <;> rfl)

theorem foldl_hook (opts : List Opt) (o : Options) :
    (opts.foldl Opt.apply o).hook = (lastSome Opt.hookArg opts).getD o.hook := by
  induction opts generalizing o with
  | nil => rfl
  | cons a t ih =>
    rw [List.foldl_cons, ih]
    cases a <;>
      first
      | (rw [lastSome_cons_none Opt.hookArg _ _ rfl]; rfl)
      | (rw [lastSome_cons_some Opt.hookArg _ _ _ rfl]; cases lastSome Opt.hookArg t <;> rfl)

theorem foldl_unknown (opts : List Opt) (o : Options) :
    (opts.foldl Opt.apply o).unknown = (lastSome Opt.unknownArg opts).or o.unknown := by
  induction opts generalizing o with
  | nil => rfl
  | cons a t ih =>
    rw [List.foldl_cons, ih]
    cases a <;>
      first
      | (rw [lastSome_cons_none Opt.unknownArg _ _ rfl]; rfl)
      | (rw [lastSome_cons_some Opt.unknownArg _ _ _ rfl]; cases lastSome Opt.unknownArg t <;> rfl)

/-! ### commutation and overwriting -/

theorem apply_comm (o : Options) (a b : Opt) (h : a.kind ≠ b.kind) :
    Opt.apply (Opt.apply o a) b = Opt.apply (Opt.apply o b) a := by
  cases a <;> cases b <;> first | rfl | exact absurd rfl h

theorem apply_nil_comm (o : Options) (b : Opt) :
    Opt.apply (Opt.apply o .nilOpt) b = Opt.apply (Opt.apply o b) .nilOpt := rfl

theorem apply_same_kind (o : Options) (a b : Opt) (h : a.kind = b.kind) :
    Opt.apply (Opt.apply o a) b = Opt.apply o b := by
  cases a <;> cases b <;> first | rfl | (simp [Opt.kind] at h)

/-- membership in a pairwise-related list: equal or related (for a symmetric relation) -/
theorem pairwise_mem {α : Type} {R : α → α → Prop} (hs : ∀ a b, R a b → R b a)
    {l : List α} (hp : l.Pairwise R) : ∀ x ∈ l, ∀ y ∈ l, x = y ∨ R x y := by
  induction hp with
  | nil => intro x hx; cases hx
  | @cons a t hab _ ih =>
    intro x hx y hy
    rcases List.mem_cons.1 hx with rfl | hx' <;> rcases List.mem_cons.1 hy with rfl | hy'
    · exact .inl rfl
    · exact .inr (hab y hy')
    · exact .inr (hs _ _ (hab x hx'))
    · exact ih x hx' y hy'

/-! ### the identity hook is neutral -/

theorem applyHook_identity (cfg : Config) (r : Except GetErr RV) :
    getStep.applyHook { cfg with hook := .identity } r =
      getStep.applyHook { cfg with hook := .off } r := by
  unfold getStep.applyHook
  rcases r with e | (_ | v) <;> rfl

theorem getStruct_hook (cfg : Config) (h : Hook) (part : GoString) (fs : List (Field × GoVal)) :
    getStruct { cfg with hook := h } part fs = getStruct cfg part fs := rfl

theorem getStep_identity (cfg : Config) (part : GoString) (cur : RV) :
    getStep { cfg with hook := .identity } part cur =
      getStep { cfg with hook := .off } part cur := by
  unfold getStep
  split <;> simp only [applyHook_identity, getStruct_hook]

theorem getLoop_identity (cfg : Config) (ps : List GoString) (cur : RV) :
    getLoop { cfg with hook := .identity } ps cur = getLoop { cfg with hook := .off } ps cur := by
  induction ps generalizing cur with
  | nil => rfl
  | cons p ps ih =>
    simp only [getLoop, getStep_identity]
    split
    · rfl
    · exact ih _

theorem get_identity (cfg : Config) (ps : List GoString) (v : Any) :
    get { cfg with hook := .identity } ps v = get { cfg with hook := .off } ps v := by
  unfold Go.get
  split
  · rfl
  · rw [getLoop_identity]

theorem evaluateNotPresent_identity (cfg : Config) (ps : List GoString) (v : Any) :
    evaluateNotPresent { cfg with hook := .identity } ps v =
      evaluateNotPresent { cfg with hook := .off } ps v := by
  unfold evaluateNotPresent
  rw [get_identity]

theorem getValue_identity (o : Opts) (d : Any) (path : List GoString) :
    getValue { o with hook := .identity } d path = getValue { o with hook := .off } d path := by
  unfold getValue
  simp only [Opts.cfg]
  have h1 := fun ps v => get_identity ⟨o.tagName, o.hook⟩ ps v
  have h2 := fun ps v => evaluateNotPresent_identity ⟨o.tagName, o.hook⟩ ps v
  simp only at h1 h2
  simp only [h1, h2]
  rfl

theorem evaluateMatch_identity (re : RegexOracle) (o : Opts) (d : Any) (sel : Selector)
    (op : MatchOp) (raw : Option GoString) :
    evaluateMatch re { o with hook := .identity } d sel op raw =
      evaluateMatch re { o with hook := .off } d sel op raw := by
  unfold evaluateMatch
  rw [getValue_identity]

/-- congruence of `collLoop` in the function / option record -/
theorem collLoop_congr (f f' : Opts → Out) (o o' : Opts) (op : CollOp) (b : Binding)
    (l : List (List LocalVar))
    (h : ∀ bs, f { o with locals := o.locals ++ bs } = f' { o' with locals := o'.locals ++ bs }) :
    collLoop f o op b l = collLoop f' o' op b l := by
  induction l with
  | nil => rfl
  | cons bs rest ih =>
    simp only [collLoop, h bs, ih]

theorem evaluate_identity (re : RegexOracle) (e : Expr) (o : Opts) (d : Any) :
    evaluate re e { o with hook := .identity } d = evaluate re e { o with hook := .off } d := by
  induction e generalizing o with
  | not e ih => simp only [evaluate, ih]
  | and l r ihl ihr => simp only [evaluate, ihl, ihr]
  | or l r ihl ihr => simp only [evaluate, ihl, ihr]
  | match_ sel op raw => simp only [evaluate, evaluateMatch_identity]
  | coll op sel b inner ih =>
    have hc : ∀ l, collLoop (fun o' => evaluate re inner o' d) { o with hook := .identity } op b l =
        collLoop (fun o' => evaluate re inner o' d) { o with hook := .off } op b l := by
      intro l
      apply collLoop_congr
      intro bs
      exact ih { o with locals := o.locals ++ bs }
    simp only [evaluate, getValue_identity, hc]

end Bexpr.Proofs.Options
