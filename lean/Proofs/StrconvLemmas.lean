/-
  Proofs.StrconvLemmas — supporting lemmas about the `strconv` model
  (`Bexpr.Strconv`): digit strings produced by `Nat.toDigits` are read back by the
  digit loops of `ParseUint` / `ParseFloat`, `underscoreOK` accepts strings without
  underscores, `splitBase0` on the spellings used by the properties.

  Core Lean only (no Mathlib import was needed: `Nat.toDigits_eq_if` is in core).
-/
import Bexpr.Strconv

namespace Bexpr.Strconv
open Bexpr Bexpr.GoString

/-! ## Digit strings -/

/-- The lower-case digit byte of a digit value (`'0'..'9'`, `'a'..'f'`). -/
def digitByte (d : Nat) : UInt8 := byteOfChar (Nat.digitChar d)

/-- The digits of `n` in base `b`, most significant first, as lower-case bytes
(`strconv.FormatUint(n, b)` for `2 ≤ b ≤ 16`). -/
def digitBytes (b n : Nat) : GoString := (Nat.toDigits b n).map byteOfChar

theorem natToDec_eq_digitBytes (n : Nat) : natToDec n = digitBytes 10 n := rfl

theorem digitBytes_of_lt {b n : Nat} (h : n < b) : digitBytes b n = [digitByte n] := by
  simp [digitBytes, digitByte, Nat.toDigits_of_lt_base h]

theorem digitBytes_of_ge {b n : Nat} (hb : 1 < b) (h : b ≤ n) :
    digitBytes b n = digitBytes b (n / b) ++ [digitByte (n % b)] := by
  simp [digitBytes, digitByte, Nat.toDigits_of_base_le hb h]

theorem digitBytes_ne_nil (b n : Nat) : digitBytes b n ≠ [] := by
  simp [digitBytes]

/-- Every byte of a digit string is the digit byte of a value below the base. -/
theorem mem_digitBytes {b : Nat} (hb : 1 < b) {n : Nat} {c : UInt8} :
    c ∈ digitBytes b n → ∃ d, d < b ∧ c = digitByte d := by
  induction n using Nat.strongRecOn with
  | _ n ih =>
    by_cases h : n < b
    · rw [digitBytes_of_lt h]
      intro hc
      exact ⟨n, h, by simpa using hc⟩
    · rw [digitBytes_of_ge hb (by omega)]
      intro hc
      rcases List.mem_append.mp hc with hc | hc
      · exact ih (n / b) (Nat.div_lt_self (by omega) hb) hc
      · exact ⟨n % b, Nat.mod_lt _ (by omega), by simpa using hc⟩

/-- A digit string starts with a digit below the base, which is non-zero unless the
number is zero (no leading zeros). -/
theorem digitBytes_head {b : Nat} (hb : 1 < b) (n : Nat) :
    ∃ d t, d < b ∧ (0 < n → 0 < d) ∧ digitBytes b n = digitByte d :: t := by
  induction n using Nat.strongRecOn with
  | _ n ih =>
    by_cases h : n < b
    · exact ⟨n, [], h, id, digitBytes_of_lt h⟩
    · have hlt : n / b < n := Nat.div_lt_self (by omega) hb
      have hpos : 0 < n / b := Nat.div_pos (by omega) (by omega)
      obtain ⟨d, t, hd, hd0, heq⟩ := ih (n / b) hlt
      refine ⟨d, t ++ [digitByte (n % b)], hd, fun _ => hd0 hpos, ?_⟩
      rw [digitBytes_of_ge hb (by omega), heq]
      rfl

/-! ## Facts about the sixteen digit bytes (all by evaluation) -/

theorem digitVal_digitByte : ∀ d, d < 16 → digitVal (digitByte d) = some d := by decide

theorem digitByte_ne_underscore : ∀ d, d < 16 → (digitByte d == underscore) = false := by decide

theorem digitByte_ne_minus : ∀ d, d < 16 → (digitByte d == 0x2D) = false := by decide

theorem digitByte_ne_plus : ∀ d, d < 16 → (digitByte d == 0x2B) = false := by decide

theorem digitByte_eq_zero_iff : ∀ d, d < 16 → (digitByte d = 0x30 ↔ d = 0) := by decide

theorem isDecDigit_digitByte : ∀ d, d < 10 → isDecDigit (digitByte d) = true := by decide

theorem toNat_digitByte : ∀ d, d < 10 → (digitByte d).toNat - 0x30 = d := by decide

theorem digitByte_not_prefix_letter :
    ∀ d, d < 10 → isB (digitByte d) = false ∧ isO (digitByte d) = false ∧ isX (digitByte d) = false := by
  decide

/-- No digit byte (bases up to 16) is an underscore. -/
theorem digitBytes_no_underscore {b : Nat} (hb : 1 < b) (hb16 : b ≤ 16) (n : Nat) :
    (digitBytes b n).contains underscore = false := by
  rw [Bool.eq_false_iff]
  intro hc
  have hmem : underscore ∈ digitBytes b n := by simpa using hc
  obtain ⟨d, hd, he⟩ := mem_digitBytes hb hmem
  have := digitByte_ne_underscore d (by omega)
  rw [← he] at this
  simp at this

/-! ## The digit loop of `ParseUint` -/

/-- The loop is a left fold with early exit: running it over `xs ++ ys` is running
it over `xs` and, on success, over `ys` from the value reached. -/
theorem uintLoop_append (base bits : Nat) (b0 : Bool) (xs ys : GoString) (n : Nat) :
    uintLoop base bits b0 (xs ++ ys) n =
      match uintLoop base bits b0 xs n with
      | .ok m => uintLoop base bits b0 ys m
      | .error e => .error e := by
  induction xs generalizing n with
  | nil => simp [uintLoop]
  | cons c cs ih =>
    simp only [List.cons_append, uintLoop]
    split
    · exact ih n
    · split
      · rfl
      · split
        · rfl
        · split
          · rfl
          · exact ih _

/-- One digit byte, from accumulator `m`. -/
theorem uintLoop_digit {base bits : Nat} {b0 : Bool} {d : Nat} (hd : d < base) (h16 : base ≤ 16)
    (m : Nat) :
    uintLoop base bits b0 [digitByte d] m =
      if m * base + d < 2 ^ bits then .ok (m * base + d) else .error .range := by
  have h1 := digitVal_digitByte d (by omega)
  have h2 := digitByte_ne_underscore d (by omega)
  simp only [uintLoop, h1, h2, Bool.false_and]
  have : ¬ d ≥ base := by omega
  simp only [Bool.false_eq_true, if_false, this]
  by_cases h : m * base + d < 2 ^ bits
  · simp [h, Nat.not_le.mpr h]
  · simp [h, Nat.not_lt.mp h]

/-- **Digit accumulation rebuilds the number.**  Reading the base-`b` digits of `n`
(`2 ≤ b ≤ 16`) yields `n` when it fits in `bits` bits and a range error otherwise;
this holds with or without underscore skipping. -/
theorem uintLoop_digitBytes {b : Nat} (hb : 2 ≤ b) (h16 : b ≤ 16) (bits : Nat) (b0 : Bool)
    (n : Nat) :
    uintLoop b bits b0 (digitBytes b n) 0 =
      if n < 2 ^ bits then .ok n else .error .range := by
  induction n using Nat.strongRecOn with
  | _ n ih =>
    by_cases h : n < b
    · rw [digitBytes_of_lt h, uintLoop_digit h h16]
      simp
    · have hlt : n / b < n := Nat.div_lt_self (by omega) (by omega)
      have hdm : n / b * b + n % b = n := by
        rw [Nat.mul_comm]; exact Nat.div_add_mod n b
      rw [digitBytes_of_ge (by omega) (by omega), uintLoop_append, ih (n / b) hlt]
      by_cases hq : n / b < 2 ^ bits
      · simp only [hq, if_true]
        rw [uintLoop_digit (Nat.mod_lt _ (by omega)) h16, hdm]
      · simp only [hq, if_false]
        have : ¬ n < 2 ^ bits := fun hn => hq (Nat.lt_of_le_of_lt (Nat.div_le_self _ _) hn)
        simp [this]

/-! ## `splitBase0` -/

theorem splitBase0_of_ne_zero {c : UInt8} (t : GoString) (hc : c ≠ 0x30) :
    splitBase0 (c :: t) = (10, c :: t) := by
  unfold splitBase0
  split
  · rename_i heq; exact absurd (List.cons.inj heq).1 hc
  · rename_i heq; exact absurd (List.cons.inj heq).1 hc
  · rfl

/-- `0b…`, `0o…`, `0x…` (either case) followed by at least one byte. -/
theorem splitBase0_prefix (p d : UInt8) (t : GoString) :
    splitBase0 (0x30 :: p :: d :: t) =
      if isB p then (2, d :: t) else if isO p then (8, d :: t)
      else if isX p then (16, d :: t) else (8, p :: d :: t) := by
  rfl

/-! ## `underscoreOK` on strings without underscores -/

theorem underscoreLoop_no_underscore (hex : Bool) (s : GoString) (saw : Saw)
    (hs : ∀ c ∈ s, c ≠ underscore) (hsaw : saw ≠ .underscore) :
    underscoreLoop hex s saw = true := by
  induction s generalizing saw with
  | nil => cases saw <;> first | rfl | exact absurd rfl hsaw
  | cons c cs ih =>
    have hc : (c == underscore) = false := by
      simpa using hs c (List.mem_cons_self)
    have hcs : ∀ x ∈ cs, x ≠ underscore := fun x hx => hs x (List.mem_cons_of_mem _ hx)
    unfold underscoreLoop
    split
    · exact ih _ hcs (by decide)
    · simp only [hc, Bool.false_eq_true, if_false]
      have : (saw == Saw.underscore) = false := by cases saw <;> first | rfl | exact absurd rfl hsaw
      simp only [this, Bool.false_eq_true, if_false]
      exact ih _ hcs (by decide)

/-- The prefix dispatch of `underscoreOK` (after the sign has been dropped). -/
theorem underscoreOK_body_no_underscore (s1 : GoString) (hs : ∀ c ∈ s1, c ≠ underscore) :
    (match (generalizing := false) s1 with
      | 0x30 :: p :: t =>
        if isB p || isO p || isX p then underscoreLoop (isX p) t .digit
        else underscoreLoop false s1 .start
      | _ => underscoreLoop false s1 .start) = true := by
  split
  · rename_i p t
    split
    · exact underscoreLoop_no_underscore _ _ _
        (fun x hx => hs x (List.mem_cons_of_mem _ (List.mem_cons_of_mem _ hx))) (by decide)
    · exact underscoreLoop_no_underscore _ _ _ hs (by decide)
  · exact underscoreLoop_no_underscore _ _ _ hs (by decide)

/-- Go's `underscoreOK` accepts every string that contains no underscore. -/
theorem underscoreOK_no_underscore (s : GoString) (hs : ∀ c ∈ s, c ≠ underscore) :
    underscoreOK s = true := by
  cases s with
  | nil => rfl
  | cons c t =>
    unfold underscoreOK
    by_cases hsign : (c == 0x2D || c == 0x2B) = true
    · simp only [hsign, if_true]
      exact underscoreOK_body_no_underscore t (fun x hx => hs x (List.mem_cons_of_mem _ hx))
    · have hsign' : (c == 0x2D || c == 0x2B) = false := by simpa using hsign
      simp only [hsign', Bool.false_eq_true, if_false]
      exact underscoreOK_body_no_underscore (c :: t) hs

/-! ## `parseUint` reduced to its digit loop -/

/-- `ParseUint(s, 0, 64)` when the digits after the base prefix contain no
underscore: the result of the digit loop. -/
theorem parseUint_base0 {s ds : GoString} {b : Nat} (hne : s ≠ [])
    (hsplit : splitBase0 s = (b, ds)) (hus : ds.contains underscore = false) :
    parseUint s 0 64 = uintLoop b 64 true ds 0 := by
  unfold parseUint
  have : s.isEmpty = false := by cases s <;> simp_all
  simp [this, hsplit]
  split
  · rename_i e he; rw [he]
  · rename_i n hn
    have : underscore ∉ ds := by simpa using hus
    simp [hn, this]

/-- `ParseUint(s, base, 64)` with an explicit base: the result of the digit loop. -/
theorem parseUint_base {s : GoString} {b : Nat} (hne : s ≠ []) (hb : 2 ≤ b) (hb36 : b ≤ 36) :
    parseUint s b 64 = uintLoop b 64 false s 0 := by
  unfold parseUint
  have : s.isEmpty = false := by cases s <;> simp_all
  have hb0 : (b == 0) = false := by simp; omega
  simp [this, hb0, hb, hb36]
  split
  · rename_i e he; rw [he]
  · rename_i n hn; rw [hn]

/-- The decimal digits of `n`, read with base 0 (prefix detection). -/
theorem parseUint_digitBytes10_base0 (n : Nat) :
    parseUint (digitBytes 10 n) 0 64 = if n < 2 ^ 64 then .ok n else .error .range := by
  by_cases h0 : n = 0
  · subst h0; rfl
  · obtain ⟨d, t, hd, hd0, heq⟩ := digitBytes_head (b := 10) (by omega) n
    have hdne : digitByte d ≠ 0x30 := by
      intro h
      have := (digitByte_eq_zero_iff d (by omega)).mp h
      have := hd0 (by omega)
      omega
    rw [parseUint_base0 (b := 10) (ds := digitBytes 10 n) (digitBytes_ne_nil _ _)
      (by rw [heq]; exact splitBase0_of_ne_zero t hdne)
      (digitBytes_no_underscore (by omega) (by omega) n)]
    exact uintLoop_digitBytes (by omega) (by omega) 64 true n

/-- The base-`b` digits of `n`, read with that explicit base. -/
theorem parseUint_digitBytes_base {b : Nat} (hb : 2 ≤ b) (h16 : b ≤ 16) (n : Nat) :
    parseUint (digitBytes b n) b 64 = if n < 2 ^ 64 then .ok n else .error .range := by
  rw [parseUint_base (digitBytes_ne_nil _ _) hb (by omega)]
  exact uintLoop_digitBytes hb h16 64 false n

/-- A base prefix `0` + `p` (one of `b o x B O X`) in front of the digits of `n`
in the corresponding base, read with base 0. -/
theorem parseUint_prefixed {b : Nat} (hb : 2 ≤ b) (h16 : b ≤ 16) (p : UInt8)
    (hp : (if isB p then 2 else if isO p then 8 else if isX p then 16 else 0) = b) (n : Nat) :
    parseUint (0x30 :: p :: digitBytes b n) 0 64 =
      if n < 2 ^ 64 then .ok n else .error .range := by
  obtain ⟨d, t, _, _, heq⟩ := digitBytes_head (b := b) (by omega) n
  have hsplit : splitBase0 (0x30 :: p :: digitBytes b n) = (b, digitBytes b n) := by
    rw [heq, splitBase0_prefix]
    by_cases h1 : isB p = true
    · simp [h1] at hp ⊢; omega
    · by_cases h2 : isO p = true
      · simp [h1, h2] at hp ⊢; omega
      · by_cases h3 : isX p = true
        · simp [h1, h2, h3] at hp ⊢; omega
        · simp [h1, h2, h3] at hp; omega
  rw [parseUint_base0 (by simp) hsplit (digitBytes_no_underscore (by omega) h16 n)]
  exact uintLoop_digitBytes hb h16 64 true n

/-! ## `parseInt` on an optional sign followed by an unsigned spelling -/

/-- `ParseInt(s, base, 64)` for an `s` whose first byte is not a sign, given what
`ParseUint` answers on it. -/
theorem parseInt_unsigned {c : UInt8} {t : GoString} {base n : Nat}
    (hm : (c == 0x2D) = false) (hp : (c == 0x2B) = false)
    (hu : parseUint (c :: t) base 64 = if n < 2 ^ 64 then .ok n else .error .range) :
    parseInt (c :: t) base 64 = if n < 2 ^ 63 then .ok (n : Int) else .error .range := by
  unfold parseInt
  simp only [hm, hp, Bool.or_self, Bool.false_eq_true, if_false, hu]
  by_cases h64 : n < 2 ^ 64
  · simp only [h64, if_true]
    by_cases h63 : n < 2 ^ 63
    · simp [h63, Nat.not_le.mpr h63]
    · simp [h63, Nat.not_lt.mp h63]
  · have h63 : ¬ n < 2 ^ 63 := by omega
    simp [h64, h63]

/-- `ParseInt("-" + u, base, 64)`, given what `ParseUint` answers on `u`. -/
theorem parseInt_minus {u : GoString} {base n : Nat}
    (hu : parseUint u base 64 = if n < 2 ^ 64 then .ok n else .error .range) :
    parseInt (0x2D :: u) base 64 = if n ≤ 2 ^ 63 then .ok (-(n : Int)) else .error .range := by
  have hrest : (if ((0x2D : UInt8) == 0x2B || (0x2D : UInt8) == 0x2D) = true then u
      else 0x2D :: u) = u := by simp
  simp only [parseInt]
  rw [hrest, hu]
  by_cases h64 : n < 2 ^ 64
  · simp only [h64, if_true]
    by_cases h63 : n ≤ 2 ^ 63
    · simp [h63, Nat.not_lt.mpr h63]
    · simp [h63, Nat.not_le.mp h63]
  · have h63 : ¬ n ≤ 2 ^ 63 := by omega
    simp [h64, h63]


/-! ## `ParseFloat` on plain decimal digit strings -/

theorem digitByte_not_special : ∀ d, d < 10 →
    (digitByte d == 0x2B) = false ∧ (digitByte d == 0x2D) = false ∧
    (digitByte d == 0x69 || digitByte d == 0x49) = false ∧
    (digitByte d == 0x6E || digitByte d == 0x4E) = false ∧
    (digitByte d == 0x2E) = false := by decide

theorem special_digit {d : Nat} (hd : d < 10) (t : GoString) : special (digitByte d :: t) = none := by
  obtain ⟨h1, h2, h3, h4, _⟩ := digitByte_not_special d hd
  simp [special, h1, h2, h3, h4]

/-- Scanning decimal digits pushes them one by one. -/
theorem scanMant_digits (xs : GoString) (st : MantScan)
    (hx : ∀ c ∈ xs, ∃ d, d < 10 ∧ c = digitByte d) :
    scanMant false xs st =
      (xs.foldl (fun st c => st.push 10 (c.toNat - 0x30)) st, []) := by
  induction xs generalizing st with
  | nil => rfl
  | cons c cs ih =>
    obtain ⟨d, hd, rfl⟩ := hx _ List.mem_cons_self
    have h1 := digitByte_ne_underscore d (by omega)
    have h2 := (digitByte_not_special d hd).2.2.2.2
    have h3 := isDecDigit_digitByte d hd
    simp only [scanMant, h1, h2, h3, Bool.false_eq_true, if_false, if_true, List.foldl_cons]
    exact ih _ (fun c hc => hx c (List.mem_cons_of_mem _ hc))

/-- Pushing the decimal digits of `n` onto the initial state yields mantissa `n`. -/
theorem foldl_push_digitBytes (n : Nat) :
    (digitBytes 10 n).foldl (fun st c => st.push 10 (c.toNat - 0x30)) ({} : MantScan) =
      { mant := n, sawDot := false, sawDigits := true, fracDigits := 0 } := by
  induction n using Nat.strongRecOn with
  | _ n ih =>
    by_cases h : n < 10
    · rw [digitBytes_of_lt h]
      simp [MantScan.push, toNat_digitByte n h]
    · rw [digitBytes_of_ge (by omega) (by omega), List.foldl_append,
        ih (n / 10) (by omega)]
      simp only [List.foldl_cons, List.foldl_nil, MantScan.push,
        toNat_digitByte (n % 10) (Nat.mod_lt _ (by omega))]
      simp
      omega

/-- `readFloat` on the decimal digits of a positive number. -/
theorem readFloat_digitBytes (n : Nat) (hn : 0 < n) :
    readFloat (digitBytes 10 n) = some { neg := false, hex := false, mant := n, exp := 0 } := by
  obtain ⟨d, t, hd, hd0, heq⟩ := digitBytes_head (b := 10) (by omega) n
  have hdne : digitByte d ≠ 0x30 := by
    intro h
    have := (digitByte_eq_zero_iff d (by omega)).mp h
    have := hd0 hn
    omega
  have hus := digitBytes_no_underscore (b := 10) (by omega) (by omega) n
  have hscan := scanMant_digits (digitBytes 10 n) {} (fun c hc => by
    obtain ⟨d, hd, he⟩ := mem_digitBytes (b := 10) (by omega) hc
    exact ⟨d, hd, he⟩)
  rw [foldl_push_digitBytes] at hscan
  rw [heq] at hscan hus ⊢
  obtain ⟨h1, h2, _, _, _⟩ := digitByte_not_special d hd
  unfold readFloat
  simp only [h1, h2, Bool.or_self, Bool.false_eq_true, if_false]
  have hbody : readFloat.match_1 (fun _ => Option GoString) (digitByte d :: t)
      (fun x d r => if isX x = true then some (d :: r) else none) (fun _ => none) = none := by
    split
    · rename_i heq'; exact absurd (List.cons.inj heq').1 hdne
    · rfl
  rw [hbody]
  simp only [Option.isSome_none, Option.getD_none, hscan, hus]
  simp



theorem roundHalfEven_one (x : Nat) : roundHalfEven x 1 = x := by
  simp [roundHalfEven, Nat.mod_one]

theorem floorLog2Rat_nat (n : Nat) (hn : n ≠ 0) : floorLog2Rat n 1 = (Nat.log2 n : Int) := by
  have h1 : Nat.log2 1 = 0 := by decide
  have hle : 2 ^ Nat.log2 n ≤ n := Nat.log2_self_le hn
  simp only [floorLog2Rat, h1, Int.natCast_zero, Int.sub_zero, scalePow2]
  simp [hle]

/-- Rounding a positive integer that fits in the significand is exact: the result
is the pattern with exponent `log2 n` and significand `n` shifted into place. -/
theorem roundRat_nat (f : FloatFmt) (n : Nat) (hn : n ≠ 0) (hfit : n < 2 ^ (f.mantBits + 1))
    (hemin : f.emin ≤ 0) :
    roundRat f n 1 =
      ((Nat.log2 n : Int) - f.emin).toNat * 2 ^ f.mantBits + n * 2 ^ (f.mantBits - Nat.log2 n) := by
  have hL : Nat.log2 n < f.mantBits + 1 := (Nat.log2_lt hn).mpr hfit
  have hn0 : (n == 0) = false := by simpa using hn
  unfold roundRat
  simp only [hn0, Bool.false_eq_true, if_false, floorLog2Rat_nat n hn]
  have hlt : ¬ ((Nat.log2 n : Int) < f.emin) := by omega
  simp only [hlt, if_false]
  congr 1
  unfold scalePow2
  by_cases he : (Nat.log2 n : Int) - (f.mantBits : Int) ≥ 0
  · have : Nat.log2 n = f.mantBits := by omega
    simp only [this]
    simp [roundHalfEven_one]
  · simp only [he, if_false, roundHalfEven_one]
    congr 2
    omega



/-- The shifted significand lies in `[2^M, 2^(M+1))`. -/
theorem shifted_bounds (n M : Nat) (hn : n ≠ 0) (hL : Nat.log2 n ≤ M) :
    2 ^ M ≤ n * 2 ^ (M - Nat.log2 n) ∧ n * 2 ^ (M - Nat.log2 n) < 2 ^ (M + 1) := by
  have h1 : 2 ^ Nat.log2 n ≤ n := Nat.log2_self_le hn
  have h2 : n < 2 ^ (Nat.log2 n + 1) := Nat.lt_log2_self
  have hpos : 0 < 2 ^ (M - Nat.log2 n) := Nat.pow_pos (by omega)
  constructor
  · calc 2 ^ M = 2 ^ (Nat.log2 n + (M - Nat.log2 n)) := by congr 1; omega
      _ = 2 ^ Nat.log2 n * 2 ^ (M - Nat.log2 n) := Nat.pow_add ..
      _ ≤ n * 2 ^ (M - Nat.log2 n) := Nat.mul_le_mul_right _ h1
  · calc n * 2 ^ (M - Nat.log2 n) < 2 ^ (Nat.log2 n + 1) * 2 ^ (M - Nat.log2 n) :=
          Nat.mul_lt_mul_of_pos_right h2 hpos
      _ = 2 ^ (Nat.log2 n + 1 + (M - Nat.log2 n)) := (Nat.pow_add ..).symm
      _ = 2 ^ (M + 1) := by congr 1; omega

/-! ## `ParseFloat` on the decimal text of an integer -/

/-- Bit pattern of the float of format `f` whose value is exactly the integer `n`
(`0 < n < 2^(mantBits+1)`): biased exponent `log2 n + bias` and the significand `n`
shifted left so that its leading bit is the implicit one.  (`log2 n - emin` is the
biased exponent minus one; adding the significand with its leading bit supplies the
missing one.) -/
def bitsOfNat (f : FloatFmt) (n : Nat) : Nat :=
  if n = 0 then 0
  else ((Nat.log2 n : Int) - f.emin).toNat * 2 ^ f.mantBits + n * 2 ^ (f.mantBits - Nat.log2 n)

/-- `ParseFloat` of the decimal digits of `n`, for any integer that fits in the
significand, provided the pattern is finite (true for both formats, see below). -/
theorem parseFloat_digitBytes (bitSize n : Nat)
    (hfit : n < 2 ^ ((fmtOf bitSize).mantBits + 1)) (hemin : (fmtOf bitSize).emin ≤ 0)
    (hfin : bitsOfNat (fmtOf bitSize) n < (fmtOf bitSize).infBits) :
    parseFloat (digitBytes 10 n) bitSize = .ok (bitsOfNat (fmtOf bitSize) n) := by
  by_cases hn : n = 0
  · subst hn
    have : digitBytes 10 0 = [0x30] := by decide
    rw [this]
    have hs : special [0x30] = none := by decide
    have hr : readFloat [0x30] = some { neg := false, hex := false, mant := 0, exp := 0 } := by
      rfl
    have h0 : bitsOfNat (fmtOf bitSize) 0 = 0 := by simp [bitsOfNat]
    rw [h0] at hfin ⊢
    simp only [parseFloat, hs, hr, ReadFloat.toRat]
    simp [roundRat, Nat.not_le.mpr hfin]
  · obtain ⟨d, t, hd, _, heq⟩ := digitBytes_head (b := 10) (by omega) n
    have hs : special (digitBytes 10 n) = none := by rw [heq]; exact special_digit hd t
    have hr := readFloat_digitBytes n (Nat.pos_of_ne_zero hn)
    have hround := roundRat_nat (fmtOf bitSize) n hn hfit hemin
    have hb : bitsOfNat (fmtOf bitSize) n = roundRat (fmtOf bitSize) n 1 := by
      rw [hround]; simp [bitsOfNat, hn]
    rw [hb] at hfin ⊢
    simp only [parseFloat, hs, hr, ReadFloat.toRat]
    simp [Nat.not_le.mpr hfin]

end Bexpr.Strconv
