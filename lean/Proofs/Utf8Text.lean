/-
  Proofs.Utf8Text — well-formed UTF-8 text as the parser's `read` sees it.

  * `Asc s` — every byte of `s` is ASCII.
  * `RunesIn p s` — `s` is a concatenation of ASCII bytes and well-formed multi-byte encodings
    (`encodeRune r`, `r` a valid rune `≥ 0x80`) all of whose runes satisfy `p`.
  * `VT s` ("valid text") — `RunesIn (fun _ => true) s`; it is exactly Go's `utf8.ValidString`
    (`vt_iff_validString`), and `RunesIn p s` is `runesInB p s = true` (`runesIn_iff`, a
    decision procedure: every rune decoded from `s` is well formed and satisfies `p`).
  * closure: `VT.append`, `VT.drop` (a valid prefix can be split off), `Asc.vt`.
  * `quoteX22_vt` — the renderer's double-quoted literal `quoteX22 s` is valid text for EVERY
    byte string `s` (invalid bytes and non-printable runes travel as ASCII escapes, printable
    runes as their encoding).
-/
import Proofs.UnquoteLemmas

namespace Bexpr.Proofs.RoundTrip
open Bexpr Bexpr.Utf8

/-! ## 0. ASCII -/

/-- every byte is ASCII -/
def Asc (s : GoString) : Prop := ∀ b ∈ s, b.toNat < 128

theorem Asc.nil : Asc [] := by intro b hb; cases hb
theorem Asc.cons {b : UInt8} {t : GoString} (hb : b.toNat < 128) (ht : Asc t) : Asc (b :: t) := by
  intro c hc
  rcases List.mem_cons.1 hc with rfl | h
  · exact hb
  · exact ht c h
theorem Asc.head {b : UInt8} {t : GoString} (h : Asc (b :: t)) : b.toNat < 128 :=
  h b (List.mem_cons_self ..)
theorem Asc.tail {b : UInt8} {t : GoString} (h : Asc (b :: t)) : Asc t :=
  fun c hc => h c (List.mem_cons_of_mem _ hc)
theorem Asc.append {s t : GoString} (hs : Asc s) (ht : Asc t) : Asc (s ++ t) := by
  intro c hc
  rcases List.mem_append.1 hc with h | h
  · exact hs c h
  · exact ht c h
theorem Asc.left {s t : GoString} (h : Asc (s ++ t)) : Asc s :=
  fun c hc => h c (List.mem_append_left _ hc)
theorem Asc.right {s t : GoString} (h : Asc (s ++ t)) : Asc t :=
  fun c hc => h c (List.mem_append_right _ hc)

instance (s : GoString) : Decidable (Asc s) := by unfold Asc; infer_instance

/-! ## 1. Encodings of non-ASCII runes -/

theorem encodeRune_length_ge2 {r : Nat} (h80 : 0x80 ≤ r) : 2 ≤ (encodeRune r).length := by
  unfold encodeRune
  rw [if_neg (by omega)]
  split
  · simp
  · split
    · simp
    · split <;> simp

/-- the first byte of a multi-byte encoding is not ASCII -/
theorem encodeRune_cons {r : Nat} (h80 : 0x80 ≤ r) :
    ∃ c ch, encodeRune r = c :: ch ∧ 0x80 ≤ c.toNat ∧ ch ≠ [] := by
  obtain ⟨c, ch, he, hc⟩ := encodeRune_head r h80
  refine ⟨c, ch, he, hc, ?_⟩
  intro h
  have := encodeRune_length_ge2 h80
  rw [he, h] at this
  simp at this

/-- two encodings in front of two tails: same rune, same tail -/
theorem encodeRune_append_inj {r r' : Nat} {t t' : GoString} (hv : validRune r = true)
    (h80 : 0x80 ≤ r) (hv' : validRune r' = true) (h80' : 0x80 ≤ r')
    (h : encodeRune r ++ t = encodeRune r' ++ t') : r = r' ∧ t = t' := by
  have h1 := decodeRune_encodeRune r hv h80 t
  have h2 := decodeRune_encodeRune r' hv' h80' t'
  rw [h, h2] at h1
  have hr : r' = r := congrArg Prod.fst h1
  subst hr
  exact ⟨rfl, List.append_cancel_left h⟩

/-! ## 2. Text all of whose runes are well formed and satisfy `p` -/

/-- `s` is a concatenation of ASCII bytes and well-formed multi-byte encodings whose runes all
    satisfy `p` -/
inductive RunesIn (p : Nat → Bool) : GoString → Prop
  | nil : RunesIn p []
  | asc {b : UInt8} {t : GoString} : b.toNat < 128 → p b.toNat = true → RunesIn p t →
      RunesIn p (b :: t)
  | rune {r : Nat} {t : GoString} : validRune r = true → 0x80 ≤ r → p r = true → RunesIn p t →
      RunesIn p (encodeRune r ++ t)

/-- the three shapes, as an equation on the text -/
theorem RunesIn.inv {p : Nat → Bool} {s : GoString} (h : RunesIn p s) :
    s = [] ∨ (∃ b t, s = b :: t ∧ b.toNat < 128 ∧ p b.toNat = true ∧ RunesIn p t) ∨
    (∃ r t, s = encodeRune r ++ t ∧ validRune r = true ∧ 0x80 ≤ r ∧ p r = true ∧ RunesIn p t) := by
  cases h with
  | nil => exact .inl rfl
  | asc hb hp ht => exact .inr (.inl ⟨_, _, rfl, hb, hp, ht⟩)
  | rune hv h80 hp ht => exact .inr (.inr ⟨_, _, rfl, hv, h80, hp, ht⟩)

/-- text that starts with an ASCII byte -/
theorem RunesIn.inv_asc {p : Nat → Bool} {b : UInt8} {t : GoString} (hb : b.toNat < 128)
    (h : RunesIn p (b :: t)) : p b.toNat = true ∧ RunesIn p t := by
  rcases h.inv with h0 | ⟨b', t', e, _, hp, ht⟩ | ⟨r, t', e, _, h80, _, _⟩
  · cases h0
  · cases e; exact ⟨hp, ht⟩
  · obtain ⟨c, ch, he, hc, _⟩ := encodeRune_cons h80
    rw [he] at e
    cases e
    omega

/-- text that starts with an encoding -/
theorem RunesIn.inv_rune {p : Nat → Bool} {r : Nat} {t : GoString} (hv : validRune r = true)
    (h80 : 0x80 ≤ r) (h : RunesIn p (encodeRune r ++ t)) : p r = true ∧ RunesIn p t := by
  rcases h.inv with h0 | ⟨b', t', e, hb, _, _⟩ | ⟨r', t', e, hv', h80', hp, ht⟩
  · obtain ⟨c, ch, he, _, _⟩ := encodeRune_cons h80
    rw [he] at h0; cases h0
  · obtain ⟨c, ch, he, hc, _⟩ := encodeRune_cons h80
    rw [he] at e
    cases e
    omega
  · obtain ⟨rfl, rfl⟩ := encodeRune_append_inj hv h80 hv' h80' e
    exact ⟨hp, ht⟩

theorem RunesIn.mono {p q : Nat → Bool} (hpq : ∀ n, p n = true → q n = true) {s : GoString}
    (h : RunesIn p s) : RunesIn q s := by
  induction h with
  | nil => exact .nil
  | asc hb hp _ ih => exact .asc hb (hpq _ hp) ih
  | rune hv h80 hp _ ih => exact .rune hv h80 (hpq _ hp) ih

theorem RunesIn.append {p : Nat → Bool} {s t : GoString} (hs : RunesIn p s) (ht : RunesIn p t) :
    RunesIn p (s ++ t) := by
  induction hs with
  | nil => exact ht
  | asc hb hp _ ih => exact .asc hb hp ih
  | rune hv h80 hp _ ih => rw [List.append_assoc]; exact .rune hv h80 hp ih

/-- a well-formed prefix can be split off -/
theorem RunesIn.drop {p q : Nat → Bool} {s t : GoString} (hs : RunesIn p s)
    (h : RunesIn q (s ++ t)) : RunesIn q t := by
  induction hs with
  | nil => exact h
  | asc hb _ _ ih => exact ih (RunesIn.inv_asc hb h).2
  | rune hv h80 _ _ ih =>
    rw [List.append_assoc] at h
    exact ih (RunesIn.inv_rune hv h80 h).2

/-- … and is itself in the class of the whole -/
theorem RunesIn.take {p q : Nat → Bool} {s t : GoString} (hs : RunesIn p s)
    (h : RunesIn q (s ++ t)) : RunesIn q s := by
  induction hs with
  | nil => exact .nil
  | asc hb _ _ ih =>
    obtain ⟨h1, h2⟩ := RunesIn.inv_asc hb h
    exact .asc hb h1 (ih h2)
  | rune hv h80 _ _ ih =>
    rw [List.append_assoc] at h
    obtain ⟨h1, h2⟩ := RunesIn.inv_rune hv h80 h
    exact .rune hv h80 h1 (ih h2)

theorem RunesIn.of_asc {p : Nat → Bool} {s : GoString}
    (h : ∀ b ∈ s, b.toNat < 128 ∧ p b.toNat = true) : RunesIn p s := by
  induction s with
  | nil => exact .nil
  | cons b t ih =>
    exact .asc (h b (List.mem_cons_self ..)).1 (h b (List.mem_cons_self ..)).2
      (ih fun c hc => h c (List.mem_cons_of_mem _ hc))

/-- the bytes of a multi-byte encoding are not ASCII, so an ASCII-only byte condition on the
    text says nothing about them; on the ASCII bytes it is inherited -/
theorem RunesIn.bytes_asc {p : Nat → Bool} {s : GoString} (h : RunesIn p s) (hs : Asc s) :
    ∀ b ∈ s, p b.toNat = true := by
  induction h with
  | nil => intro b hb; cases hb
  | asc hb hp _ ih =>
    intro c hc
    rcases List.mem_cons.1 hc with rfl | hc
    · exact hp
    · exact ih hs.tail c hc
  | rune hv h80 _ _ _ =>
    obtain ⟨c, ch, he, hc, _⟩ := encodeRune_cons h80
    rw [he] at hs
    have := hs.head
    omega

/-! ## 3. Valid text -/

/-- well-formed UTF-8 (Go's `utf8.ValidString`, see `vt_iff_validString`) -/
def VT (s : GoString) : Prop := RunesIn (fun _ => true) s

theorem VT.nil : VT [] := RunesIn.nil
theorem VT.cons {b : UInt8} {t : GoString} (hb : b.toNat < 128) (ht : VT t) : VT (b :: t) :=
  RunesIn.asc hb rfl ht
theorem VT.rune {r : Nat} {t : GoString} (hv : validRune r = true) (h80 : 0x80 ≤ r) (ht : VT t) :
    VT (encodeRune r ++ t) := RunesIn.rune hv h80 rfl ht
theorem VT.append {s t : GoString} (hs : VT s) (ht : VT t) : VT (s ++ t) := RunesIn.append hs ht
/-- a valid prefix can be split off -/
theorem VT.drop {s t : GoString} (hs : VT s) (h : VT (s ++ t)) : VT t := RunesIn.drop hs h
theorem RunesIn.vt {p : Nat → Bool} {s : GoString} (h : RunesIn p s) : VT s :=
  h.mono fun _ _ => rfl
theorem Asc.vt {s : GoString} (h : Asc s) : VT s := RunesIn.of_asc fun b hb => ⟨h b hb, rfl⟩
/-- ASCII followed by valid text -/
theorem Asc.appendV {s t : GoString} (hs : Asc s) (ht : VT t) : VT (s ++ t) := hs.vt.append ht
theorem VT.tail {b : UInt8} {t : GoString} (hb : b.toNat < 128) (h : VT (b :: t)) : VT t :=
  (RunesIn.inv_asc hb h).2
/-- an ASCII prefix can be split off -/
theorem VT.right {s t : GoString} (hs : Asc s) (h : VT (s ++ t)) : VT t := VT.drop hs.vt h

/-! ## 4. The decision procedure; `VT` is `utf8.ValidString` -/

/-- decode rune by rune (Go's `for _, r := range s`): every rune is well formed and in `p` -/
def runesInAux (p : Nat → Bool) : Nat → GoString → Bool
  | _, [] => true
  | 0, _ :: _ => false
  | fuel + 1, s@(_ :: _) =>
    let rw := decodeRune s
    if rw.1 = runeError && rw.2 = 1 then false
    else p rw.1 && runesInAux p fuel (s.drop rw.2)

def runesInB (p : Nat → Bool) (s : GoString) : Bool := runesInAux p s.length s

theorem decodeRune_asc {b : UInt8} (t : GoString) (hb : b.toNat < 128) :
    Utf8.decodeRune (b :: t) = (b.toNat, 1) := by
  simp [Utf8.decodeRune, hb]

theorem runesInAux_succ (p : Nat → Bool) (f : Nat) (s : GoString) (hne : s ≠ []) :
    runesInAux p (f + 1) s =
      (if (decodeRune s).1 = runeError && (decodeRune s).2 = 1 then false
       else p (decodeRune s).1 && runesInAux p f (s.drop (decodeRune s).2)) := by
  cases s with
  | nil => exact absurd rfl hne
  | cons b t => rfl

theorem runesInAux_of {p : Nat → Bool} {s : GoString} (h : RunesIn p s) :
    ∀ fuel, s.length ≤ fuel → runesInAux p fuel s = true := by
  induction h with
  | nil => intro fuel _; cases fuel <;> rfl
  | @asc b t hb hp _ ih =>
    intro fuel hf
    cases fuel with
    | zero => simp at hf
    | succ f =>
      have hne : ¬ (b.toNat = runeError) := by simp [runeError]; omega
      simp only [runesInAux, decodeRune_asc t hb, hne, decide_false, Bool.false_and,
        Bool.false_eq_true, if_false, hp, Bool.true_and, List.drop_succ_cons, List.drop_zero]
      exact ih f (by simpa using hf)
  | @rune r t hv h80 hp _ ih =>
    intro fuel hf
    obtain ⟨c, ch, he, _, _⟩ := encodeRune_cons h80
    have hlen := encodeRune_length_ge2 h80
    have hd := decodeRune_encodeRune r hv h80 t
    cases fuel with
    | zero => rw [he] at hf; simp at hf
    | succ f =>
      have hne : encodeRune r ++ t ≠ [] := by rw [he]; simp
      have hw : ¬ ((encodeRune r).length = 1) := by omega
      rw [runesInAux_succ _ _ _ hne, hd]
      simp only [hw, decide_false, Bool.and_false, Bool.false_eq_true, if_false, hp, Bool.true_and,
        List.drop_left]
      refine ih f ?_
      simp only [List.length_append] at hf
      omega

theorem runesIn_of_aux {p : Nat → Bool} : ∀ (fuel : Nat) (s : GoString),
    runesInAux p fuel s = true → RunesIn p s := by
  intro fuel
  induction fuel with
  | zero =>
    intro s h
    cases s with
    | nil => exact .nil
    | cons b t => simp [runesInAux] at h
  | succ f ih =>
    intro s h
    cases s with
    | nil => exact .nil
    | cons b t =>
      simp only [runesInAux] at h
      split at h
      · cases h
      · rename_i hne
        simp only [Bool.and_eq_true] at h
        obtain ⟨hp, hrest⟩ := h
        by_cases hb : b.toNat < 128
        · rw [decodeRune_asc t hb] at hp hrest
          exact .asc hb hp (ih _ (by simpa using hrest))
        · rcases decodeRune_cases b t with herr | ⟨r, w, hdec, hv, hw1, hw2, henc, hasc⟩
          · rw [herr] at hne
            simp at hne
          · rw [hdec] at hp hrest
            have h80 : 0x80 ≤ r := by
              by_cases hr : r < 0x80
              · exfalso
                rw [encodeRune_1 (by omega)] at henc
                have hw : w = 1 := by
                  have h1 := congrArg List.length henc
                  rw [List.length_take, Nat.min_eq_left hw2] at h1
                  simpa using h1.symm
                subst hw
                simp only [List.take_succ_cons, List.take_zero, List.cons.injEq, and_true] at henc
                have := congrArg UInt8.toNat henc
                rw [toNat_toUInt8_of_lt (by omega)] at this
                omega
              · omega
            have hsplit : b :: t = encodeRune r ++ (b :: t).drop w := by
              rw [henc]; exact (List.take_append_drop w (b :: t)).symm
            rw [hsplit]
            exact .rune hv h80 hp (ih _ hrest)

/-- `RunesIn p` is decided by decoding rune by rune -/
theorem runesIn_iff (p : Nat → Bool) (s : GoString) : RunesIn p s ↔ runesInB p s = true :=
  ⟨fun h => runesInAux_of h _ (Nat.le_refl _), runesIn_of_aux _ _⟩

instance (p : Nat → Bool) (s : GoString) : Decidable (RunesIn p s) :=
  decidable_of_iff _ (runesIn_iff p s).symm

theorem validStringAux_eq (fuel : Nat) (s : GoString) :
    validStringAux fuel s = runesInAux (fun _ => true) fuel s := by
  induction fuel generalizing s with
  | zero => cases s <;> rfl
  | succ f ih =>
    cases s with
    | nil => rfl
    | cons b t =>
      simp only [validStringAux, runesInAux, ih, Bool.true_and]

/-- **`VT` is Go's `utf8.ValidString`.** -/
theorem vt_iff_validString (s : GoString) : VT s ↔ validString s = true := by
  unfold VT validString
  rw [validStringAux_eq]
  exact runesIn_iff _ s

instance (s : GoString) : Decidable (VT s) := decidable_of_iff _ (vt_iff_validString s).symm

/-! ## 5. The renderer's double-quoted literal is valid text -/

open Bexpr.Strconv

theorem lowerHexByte_asc : ∀ d, d < 16 → (lowerHexByte d).toNat < 128 := by decide

theorem escX_asc (v : Nat) : Asc (escX v) := by
  intro c hc
  simp only [escX, List.mem_cons, List.not_mem_nil, or_false] at hc
  rcases hc with rfl | rfl | rfl | rfl
  · decide
  · decide
  · exact lowerHexByte_asc _ (Nat.mod_lt _ (by omega))
  · exact lowerHexByte_asc _ (Nat.mod_lt _ (by omega))

theorem escU4_asc (v : Nat) : Asc (escU4 v) := by
  intro c hc
  simp only [escU4, List.mem_cons, List.not_mem_nil, or_false] at hc
  rcases hc with rfl | rfl | rfl | rfl | rfl | rfl
  · decide
  · decide
  all_goals exact lowerHexByte_asc _ (Nat.mod_lt _ (by omega))

theorem escU8_asc (v : Nat) : Asc (escU8 v) := by
  intro c hc
  simp only [escU8, List.mem_cons, List.not_mem_nil, or_false] at hc
  rcases hc with rfl | rfl | rfl | rfl | rfl | rfl | rfl | rfl | rfl | rfl
  · decide
  · decide
  all_goals exact lowerHexByte_asc _ (Nat.mod_lt _ (by omega))

/-- the encoding of any valid rune is valid text -/
theorem encodeRune_vt {r : Nat} (hv : validRune r = true) : VT (encodeRune r) := by
  by_cases h : r < 0x80
  · rw [encodeRune_1 (by omega)]
    exact VT.cons (by rw [toNat_toUInt8_of_lt (by omega)]; exact h) VT.nil
  · have := VT.rune hv (by omega) VT.nil
    simpa using this

theorem escapedRuneX22_vt {r : Nat} (hv : validRune r = true) : VT (escapedRuneX22 r) := by
  unfold escapedRuneX22
  split
  · exact (escX_asc _).vt
  · rcases escapedRune_shape r with ⟨hr, he⟩ | he | ⟨e, hmem, he⟩ | ⟨v, he⟩ | ⟨v, he⟩ | ⟨v, he⟩
    · rw [he]
      rcases hr with rfl | rfl <;> exact Asc.vt (by decide)
    · rw [he]; exact encodeRune_vt hv
    · rw [he]
      simp only [List.mem_cons, List.not_mem_nil, or_false] at hmem
      rcases hmem with rfl | rfl | rfl | rfl | rfl | rfl | rfl <;> exact Asc.vt (by decide)
    · rw [he]; exact (escX_asc _).vt
    · rw [he]; exact (escU4_asc _).vt
    · rw [he]; exact (escU8_asc _).vt

theorem quoteBodyWith_vt (n : Nat) (s : GoString) :
    VT (quoteBodyWith escapedRuneX22 n s) := by
  induction n generalizing s with
  | zero => cases s <;> exact VT.nil
  | succ n ih =>
    cases s with
    | nil => exact VT.nil
    | cons b t =>
      simp only [quoteBodyWith]
      split
      · exact (escX_asc _).appendV (ih _)
      · rename_i hne
        rcases decodeRune_cases b t with herr | ⟨r, w, hdec, hv, _⟩
        · rw [herr] at hne; simp at hne
        · rw [hdec]
          exact (escapedRuneX22_vt hv).append (ih _)

/-- the renderer's double-quoted literal: `"`, a body of valid text without `"`, `"` — for
    EVERY byte string -/
theorem quoteX22_body (s : GoString) :
    ∃ body, quoteX22 s = [0x22] ++ (body ++ [0x22]) ∧ (∀ c ∈ body, c ≠ 0x22) ∧ VT body :=
  ⟨_, rfl, quoteBodyWith_noQuote _ escapedRuneX22_noQuote _ _, quoteBodyWith_vt _ s⟩

theorem quoteX22_vt (s : GoString) : VT (quoteX22 s) := by
  obtain ⟨body, e, _, hb⟩ := quoteX22_body s
  rw [e]
  exact VT.cons (by decide) (hb.append (VT.cons (by decide) VT.nil))

end Bexpr.Proofs.RoundTrip
