/-
  Proofs.RoundTripExpr — stage 5 of the print/parse round trip: `not`, `and`, `or`, parentheses,
  quantifiers and the top-level rule `Input`.

  A rendering is a value of `Sp l` (concrete syntax with all blanks, keywords and parentheses
  explicit; `l` is the grammar level Or / And / Not); `Sp.text` is the text, `Sp.ast` the tree
  that was rendered, `Sp.val = norm ∘ Sp.ast` the tree the parser must return (`not not e`
  folded).  `eats_Sp` is the round trip at every level (in every admissible context `Ctx`),
  `accepts_top` / `accepts_top_norm` the statement for `Input` (a `Top`: blanks, `Sp .or`,
  blanks) — including the case analysis of `Input`'s first alternative `( … ) EOF`, which
  matches when the whole expression is one parenthesised group and otherwise fails after
  re-parsing that group.  `STree.full` / `STree.minOr` are two canonical renderers.
-/
import Proofs.RoundTripColl

namespace Bexpr.Proofs.RoundTrip
open Bexpr Bexpr.Peg Bexpr.Driver
variable {rule : String} {fr : Frame} {rest s : GoString} {off : Nat} {errs : List PErr}

/-! ## 2. Concrete syntax of connectives -/

inductive Lvl where
  | or | and | not
  deriving DecidableEq

def ruleName : Lvl → String
  | .or => "OrExpression"
  | .and => "AndExpression"
  | .not => "NotExpression"

/-- A rendering of an expression tree, level by level as the grammar nests them: an `Sp .or`
    is a chain `a or a or …` (right nested), an `Sp .and` a chain `n and n and …`, an `Sp .not`
    is `not n`, a parenthesised `Sp .or`, or a match expression.  All blanks are explicit. -/
inductive Sp : Lvl → Type where
  | orOp (l : Sp .and) (w₁ w₂ : GoString) (r : Sp .or) : Sp .or
  | orUp (a : Sp .and) : Sp .or
  | andOp (l : Sp .not) (w₁ w₂ : GoString) (r : Sp .and) : Sp .and
  | andUp (n : Sp .not) : Sp .and
  | notOp (w : GoString) (n : Sp .not) : Sp .not
  | paren (w₁ : GoString) (e : Sp .or) (w₂ : GoString) : Sp .not
  | leaf (m : MatchSp) : Sp .not
  /-- `any/all w₁ S w₂ as w₃ bindings w₄ { w₅ body w₆ }` -/
  | coll (op : CollOp) (w₁ : GoString) (x : SelX) (w₂ w₃ : GoString) (bind : BindSp)
      (w₄ w₅ : GoString) (body : Sp .or) (w₆ : GoString) : Sp .or

def Sp.text : {l : Lvl} → Sp l → GoString
  | _, .orOp l w₁ w₂ r => l.text ++ (w₁ ++ (kOr ++ (w₂ ++ r.text)))
  | _, .orUp a => a.text
  | _, .andOp l w₁ w₂ r => l.text ++ (w₁ ++ (kAnd ++ (w₂ ++ r.text)))
  | _, .andUp n => n.text
  | _, .notOp w n => kNot ++ (w ++ n.text)
  | _, .paren w₁ e w₂ => [40] ++ (w₁ ++ (e.text ++ (w₂ ++ [41])))
  | _, .leaf m => m.text
  | _, .coll op w₁ x w₂ w₃ bind w₄ w₅ body w₆ =>
    (opText op ++ w₁) ++ (x.text ++ (w₂ ++ (kAs ++ (w₃ ++ (bind.text ++ (w₄ ++ ([123] ++
      (w₅ ++ (body.text ++ (w₆ ++ [125]))))))))))

/-- the tree the parser returns -/
def Sp.val : {l : Lvl} → Sp l → Expr
  | _, .orOp l _ _ r => .or l.val r.val
  | _, .orUp a => a.val
  | _, .andOp l _ _ r => .and l.val r.val
  | _, .andUp n => n.val
  | _, .notOp _ n => notFold n.val
  | _, .paren _ e _ => e.val
  | _, .leaf m => m.ast
  | _, .coll op _ x _ _ bind _ _ body _ => .coll op x.sel bind.binding body.val

/-- the tree that was rendered (every `not` kept) -/
def Sp.ast : {l : Lvl} → Sp l → Expr
  | _, .orOp l _ _ r => .or l.ast r.ast
  | _, .orUp a => a.ast
  | _, .andOp l _ _ r => .and l.ast r.ast
  | _, .andUp n => n.ast
  | _, .notOp _ n => .not n.ast
  | _, .paren _ e _ => e.ast
  | _, .leaf m => m.ast
  | _, .coll op _ x _ _ bind _ _ body _ => .coll op x.sel bind.binding body.ast

/-- the leading bexpr selector of a match expression, if its text starts with one -/
def MatchSp.lead : MatchSp → Option SelSp
  | .opValue (.bexpr σ) _ _ => some σ
  | .post (.bexpr σ) _ => some σ
  | .inSel (.sel σ) _ _ => some σ
  | _ => none

/-- RESTRICTION: the first identifier of a match expression is not the word `not` -/
def MatchSp.notKwOK (m : MatchSp) : Prop := ∀ σ, m.lead = some σ → σ.b :: σ.x ≠ kNot


/-- the match expression ends in a number (which must be followed by a blank, `)` or the end
    of input: the grammar's `AfterNumbers`) -/
def MatchSp.endsNum : MatchSp → Bool
  | .opValue _ _ (.num _) => true
  | _ => false

/-- the rendering ends in a number -/
def Sp.endsNum : {l : Lvl} → Sp l → Bool
  | _, .orOp _ _ _ r => r.endsNum
  | _, .orUp a => a.endsNum
  | _, .andOp _ _ _ r => r.endsNum
  | _, .andUp n => n.endsNum
  | _, .notOp _ n => n.endsNum
  | _, .paren .. => false
  | _, .leaf m => m.endsNum
  | _, .coll .. => false

def Sp.WF : {l : Lvl} → Sp l → Prop
  | _, .orOp l w₁ w₂ r => l.WF ∧ Blank1 w₁ ∧ Blank1 w₂ ∧ r.WF
  | _, .orUp a => a.WF
  | _, .andOp l w₁ w₂ r => l.WF ∧ Blank1 w₁ ∧ Blank1 w₂ ∧ r.WF
  | _, .andUp n => n.WF
  | _, .notOp w n => Blank1 w ∧ n.WF
  | _, .paren w₁ e w₂ => Blank w₁ ∧ e.WF ∧ Blank w₂
  | _, .leaf m => m.WF ∧ m.notKwOK
  | _, .coll _ w₁ x w₂ w₃ bind w₄ w₅ body w₆ =>
    Blank1 w₁ ∧ x.WF ∧ x.kwOK ∧ Blank1 w₂ ∧ Blank1 w₃ ∧ bind.WF ∧ Blank w₄ ∧ Blank w₅ ∧
      body.WF ∧ Blank w₆ ∧ (body.endsNum = true → w₆ ≠ [])

theorem Sp.text_vt : ∀ {l : Lvl} (c : Sp l), c.WF → VT c.text
  | _, .orOp l w₁ w₂ r, h => (l.text_vt h.1).append ((h.2.1.2.asc @isWs_lt).appendV
      (Asc.appendV (by decide) ((h.2.2.1.2.asc @isWs_lt).appendV (r.text_vt h.2.2.2))))
  | _, .orUp a, h => a.text_vt h
  | _, .andOp l w₁ w₂ r, h => (l.text_vt h.1).append ((h.2.1.2.asc @isWs_lt).appendV
      (Asc.appendV (by decide) ((h.2.2.1.2.asc @isWs_lt).appendV (r.text_vt h.2.2.2))))
  | _, .andUp n, h => n.text_vt h
  | _, .notOp w n, h => Asc.appendV (by decide) ((h.1.2.asc @isWs_lt).appendV (n.text_vt h.2))
  | _, .paren w₁ e w₂, h => VT.cons (by decide) ((h.1.asc @isWs_lt).appendV
      ((e.text_vt h.2.1).append ((h.2.2.asc @isWs_lt).appendV (VT.cons (by decide) VT.nil))))
  | _, .leaf m, h => m.text_vt h.1
  | _, .coll op w₁ x w₂ w₃ bind w₄ w₅ body w₆, h => by
    obtain ⟨h1, hx, _, h2, h3, hb, h4, h5, hbody, h6, _⟩ := h
    have hop : Asc (opText op) := by cases op <;> decide
    have t6 : VT (w₆ ++ [125]) := (h6.asc @isWs_lt).appendV (VT.cons (by decide) VT.nil)
    have t5 : VT (w₅ ++ (body.text ++ (w₆ ++ [125]))) :=
      (h5.asc @isWs_lt).appendV ((body.text_vt hbody).append t6)
    have t4 : VT (w₄ ++ ([123] ++ (w₅ ++ (body.text ++ (w₆ ++ [125]))))) :=
      (h4.asc @isWs_lt).appendV (VT.cons (by decide) t5)
    have t3 : VT (w₃ ++ (bind.text ++ (w₄ ++ ([123] ++ (w₅ ++ (body.text ++
        (w₆ ++ [125]))))))) := (h3.2.asc @isWs_lt).appendV ((bind.text_asc hb).appendV t4)
    have t2 : VT (w₂ ++ (kAs ++ (w₃ ++ (bind.text ++ (w₄ ++ ([123] ++ (w₅ ++ (body.text ++
        (w₆ ++ [125])))))))))  := (h2.2.asc @isWs_lt).appendV (Asc.appendV (by decide) t3)
    exact (hop.append (h1.2.asc @isWs_lt)).appendV ((x.text_vt hx).append t2)

/-- first byte of an expression: a token start, `(`, never a blank -/
def spStart (n : Nat) : Bool := tokStart n || n == 40

theorem headIn_true_mono {p q : Nat → Bool} (hpq : ∀ n, p n = true → q n = true)
    (h : headIn p s = true) : headIn q s = true := by
  cases s with
  | nil => cases h
  | cons b t => exact hpq _ h

theorem Sp.head : ∀ {l : Lvl} (c : Sp l) (rest : GoString), c.WF →
    headIn spStart (c.text ++ rest) = true
  | _, .orOp l w₁ w₂ r, rest, h => by
    show headIn spStart (l.text ++ _ ++ rest) = true
    rw [List.append_assoc]; exact l.head _ h.1
  | _, .orUp a, rest, h => a.head rest h
  | _, .andOp l w₁ w₂ r, rest, h => by
    show headIn spStart (l.text ++ _ ++ rest) = true
    rw [List.append_assoc]; exact l.head _ h.1
  | _, .andUp n, rest, h => n.head rest h
  | _, .notOp w n, rest, h => rfl
  | _, .paren w₁ e w₂, rest, h => rfl
  | _, .leaf m, rest, h =>
    headIn_true_mono (fun n hn => by simp [spStart, hn]) (m.head (rest := rest) h.1)
  | _, .coll op _ _ _ _ _ _ _ _ _, rest, h => by cases op <;> rfl

theorem noWs_of_spStart (h : headIn spStart s = true) : headIn isWs s = false := by
  cases s with
  | nil => rfl
  | cons b t =>
    have h' : (tokStart b.toNat || b.toNat == 40) = true := h
    rcases Bool.or_eq_true_iff.1 h' with h1 | h1
    · exact noWs_of_tokStart (s := b :: t) h1
    · have : b.toNat = 40 := by simpa using h1
      show isWs b.toNat = false
      rw [this]; rfl


/-! ## 3. Contexts: what may follow an expression of each level -/

/-- `rest` does not continue with blanks and the keyword `kw` -/
abbrev NoKw (kw rest : GoString) : Prop := ToksFail [.ws, .kw kw] rest

/-- `Ctx l needNum rest`: `rest` may follow an expression of level `l` (`needNum`: one that
    ends in a number) -/
structure Ctx (l : Lvl) (needNum : Bool) (rest : GoString) : Prop where
  stops : stopsSel rest
  num : needNum = true → numFollow rest = true
  noAnd : l ≠ .not → NoKw kAnd rest
  noOr : l = .or → NoKw kOr rest

theorem Ctx.toAnd {nn : Bool} (h : Ctx .or nn rest) : Ctx .and nn rest :=
  ⟨h.stops, h.num, fun _ => h.noAnd (by decide), fun h' => by cases h'⟩
theorem Ctx.toNot {nn : Bool} (h : Ctx .and nn rest) : Ctx .not nn rest :=
  ⟨h.stops, h.num, fun h' => absurd rfl h', fun h' => by cases h'⟩

/-- blanks, then the end of input or `)` : fine after any expression -/
theorem ctx_sep (l : Lvl) (nn : Bool) {w r : GoString} (hw : Blank w)
    (hr : r = [] ∨ ∃ t, r = 41 :: t) : Ctx l nn (w ++ r) := by
  have hstop : headIn isWs r = false := by rcases hr with rfl | ⟨t, rfl⟩ <;> rfl
  have hand : GoString.isPrefixOf kAnd r = false := by rcases hr with rfl | ⟨t, rfl⟩ <;> rfl
  have hor : GoString.isPrefixOf kOr r = false := by rcases hr with rfl | ⟨t, rfl⟩ <;> rfl
  refine ⟨?_, fun _ => ?_, fun _ => ToksFail.wsNext hw hstop (ToksFail.kwHere (by decide) hand),
    fun _ => ToksFail.wsNext hw hstop (ToksFail.kwHere (by decide) hor)⟩
  · cases w with
    | nil => rcases hr with rfl | ⟨t, rfl⟩ <;> rfl
    | cons b t => exact (isWs_not_selCont _ hw.head : selCont b.toNat = false)
  · cases w with
    | nil => rcases hr with rfl | ⟨t, rfl⟩ <;> rfl
    | cons b t => exact (by rw [hw.head]; rfl : (isWs b.toNat || b == 41) = true)

/-- mandatory blanks then `and`: fine after a `NotExpression` -/
theorem ctx_and (nn : Bool) {w r : GoString} (hw : Blank1 w) :
    Ctx .not nn (w ++ (kAnd ++ r)) := by
  obtain ⟨hne, hw⟩ := hw
  cases w with
  | nil => exact absurd rfl hne
  | cons b t =>
    exact ⟨(isWs_not_selCont _ hw.head : selCont b.toNat = false),
      fun _ => (by rw [hw.head]; rfl : (isWs b.toNat || b == 41) = true),
      fun h => absurd rfl h, fun h => by cases h⟩

/-- mandatory blanks then `or`: fine after an `AndExpression` -/
theorem ctx_or (nn : Bool) {w r : GoString} (hw : Blank1 w) :
    Ctx .and nn (w ++ (kOr ++ r)) := by
  obtain ⟨hne, hw⟩ := hw
  cases w with
  | nil => exact absurd rfl hne
  | cons b t =>
    exact ⟨(isWs_not_selCont _ hw.head : selCont b.toNat = false),
      fun _ => (by rw [hw.head]; rfl : (isWs b.toNat || b == 41) = true),
      fun _ => ToksFail.wsNext hw rfl (ToksFail.kwHere (by decide) rfl), fun h => by cases h⟩

theorem MatchSp.follow_of (m : MatchSp) (h1 : stopsSel rest)
    (h2 : m.endsNum = true → numFollow rest = true) : m.follow rest := by
  cases m with
  | opValue x o v =>
    cases v with
    | sel σ => exact h1
    | num n => exact h2 rfl
    | str q body val => trivial
  | post x p => trivial
  | inSel v i x => exact x.follow_of_stops h1

/-! ## 4. A match expression is not taken for `not …` -/

theorem isPrefixOf_eq : ∀ (p s : GoString), GoString.isPrefixOf p s = true → ∃ r, s = p ++ r
  | [], s, _ => ⟨s, rfl⟩
  | _ :: _, [], h => by simp [GoString.isPrefixOf] at h
  | a :: p, b :: s, h => by
    simp only [GoString.isPrefixOf, Bool.and_eq_true, beq_iff_eq] at h
    obtain ⟨r, rfl⟩ := isPrefixOf_eq p s h.2
    exact ⟨r, by rw [h.1]; rfl⟩

/-- an identifier other than `not`, maximal in the input, is not read as `not` + blank -/
theorem ident_not_kw {b : UInt8} {x tail : GoString} (hne : b :: x ≠ kNot) (hx : AllIn isIdc x)
    (htail : headIn isIdc tail = false) :
    GoString.isPrefixOf kNot ((b :: x) ++ tail) = false ∨
      ∃ r, (b :: x) ++ tail = kNot ++ r ∧ headIn isWs r = false := by
  cases hp : GoString.isPrefixOf kNot ((b :: x) ++ tail) with
  | false => exact .inl rfl
  | true =>
    right
    obtain ⟨r, hr⟩ := isPrefixOf_eq _ _ hp
    refine ⟨r, hr, ?_⟩
    rcases x with _ | ⟨c1, _ | ⟨c2, _ | ⟨c3, x'⟩⟩⟩
    · -- b alone: the tail starts with 'o'
      simp only [kNot, List.cons_append, List.nil_append, List.cons.injEq] at hr
      obtain ⟨_, ht⟩ := hr
      rw [ht] at htail; cases htail
    · simp only [kNot, List.cons_append, List.nil_append, List.cons.injEq] at hr
      obtain ⟨_, _, ht⟩ := hr
      rw [ht] at htail; cases htail
    · simp only [kNot, List.cons_append, List.nil_append, List.cons.injEq] at hr
      obtain ⟨h1, h2, h3, _⟩ := hr
      subst h1 h2 h3
      exact absurd rfl hne
    · simp only [kNot, List.cons_append, List.nil_append, List.cons.injEq] at hr
      obtain ⟨_, _, _, ht⟩ := hr
      rw [← ht]
      exact idc_not_ws _ (hx c3 (by simp))

theorem notAlpha_noKw (h : headIn isAlpha s = false) : GoString.isPrefixOf kNot s = false := by
  cases s with
  | nil => rfl
  | cons b t =>
    have : ¬ (110 : UInt8) = b := by
      intro hb; subst hb
      have h' : isAlpha (110 : UInt8).toNat = false := h
      revert h'; decide
    simp [GoString.isPrefixOf, kNot, this]


theorem NumLit.notAlpha (n : NumLit) (h : n.WF) : headIn isAlpha (n.text ++ rest) = false := by
  obtain ⟨hint, _⟩ := h
  unfold NumLit.text NumLit.sign
  split
  · rfl
  · rcases hint with h0 | ⟨d, ds, hd, hd19, _⟩
    · rw [h0]; rfl
    · rw [hd]
      have h' : 49 ≤ d.toNat ∧ d.toNat ≤ 57 := by
        simpa [inCls, classMatches.inRanges] using hd19
      simp [headIn, inCls, classMatches.inRanges]; omega

theorem MatchSp.lead_cases (m : MatchSp) (h : m.WF) (rest : GoString) :
    (∃ σ tail, m.lead = some σ ∧ σ.WF ∧ m.text ++ rest = (σ.b :: σ.x) ++ tail ∧
      headIn isIdc tail = false) ∨ headIn isAlpha (m.text ++ rest) = false := by
  cases m with
  | opValue x o v =>
    cases x with
    | bexpr σ =>
      refine .inl ⟨σ, partsText σ.parts ++ ((o.text ++ v.text) ++ rest), rfl, h.1, ?_,
        partsText_stop _ (by rw [List.append_assoc]; exact o.stops h.2.1 _)⟩
      simp [MatchSp.text, SelX.text, SelSp.text]
    | ptr path => exact .inr rfl
  | post x p =>
    cases x with
    | bexpr σ =>
      refine .inl ⟨σ, partsText σ.parts ++ (p.text ++ rest), rfl, h.1, ?_,
        partsText_stop _ (p.stops h.2 _)⟩
      simp [MatchSp.text, SelX.text, SelSp.text]
    | ptr path => exact .inr rfl
  | inSel v i x =>
    cases v with
    | sel σ =>
      refine .inl ⟨σ, partsText σ.parts ++ ((i.text ++ x.text) ++ rest), rfl, h.1, ?_,
        partsText_stop _ (by rw [List.append_assoc]; exact (i.stops h.2.1 _).1)⟩
      simp [MatchSp.text, ValSp.text, SelSp.text]
    | num n =>
      right
      show headIn isAlpha (n.text ++ _ ++ rest) = false
      rw [List.append_assoc]; exact n.notAlpha h.1
    | str q body val =>
      right
      rcases h.1.1 with rfl | rfl <;> rfl

/-- `"not" _ …` fails on a match expression whose first identifier is not `not` -/
theorem fails_notKw (m : MatchSp) (h : m.WF) (hk : m.notKwOK) (hr : VT rest)
    (es : List PExpr) :
    FailsSeq rule (.lit (runesOf kNot) false :: .ruleRef "_" :: es) fr (m.text ++ rest) off
      errs := by
  have hall : VT (m.text ++ rest) := (m.text_vt h).append hr
  rcases m.lead_cases h rest with ⟨σ, tail, hl, hσ, e, htail⟩ | hna
  · rcases ident_not_kw (hk σ hl) hσ.2.1 htail with hp | ⟨r, er, hws⟩
    · rw [e] at hall ⊢
      exact FailsSeq.here (Fails.lit kNot rfl (by decide) hall hp)
    · rw [e, er] at hall ⊢
      have hr' := VT.right (s := kNot) (by decide) hall
      exact FailsSeq.later (Eats.lit kNot rfl (by decide) hr')
        (FailsSeq.here (fails_ws hr' hws))
  · exact FailsSeq.here (Fails.lit kNot rfl (by decide) hall (notAlpha_noKw hna))

/-! ## 5. The round trip, level by level -/

/-- the round-trip statement for one rendering -/
def RT {l : Lvl} (c : Sp l) : Prop :=
  ∀ (rest : GoString), Ctx l c.endsNum rest → VT rest → ∀ (rule : String) (fr : Frame) (off : Nat)
    (errs : List PErr),
    Eats rule (.ruleRef (ruleName l)) fr c.text rest off errs fr (.expr c.val)

theorem rt_leaf (m : MatchSp) (h : m.WF) (hk : m.notKwOK) : RT (.leaf m) := by
  intro rest hc hr rule fr off errs
  have hall : VT (m.text ++ rest) := (m.text_vt h).append hr
  have f1 : Fails Pinned.Grammar.rule_3.shown (.action "onNotExpression2" (.seq [
      .lit [110, 111, 116] false, .ruleRef "_", .labeled "expr" (.ruleRef "NotExpression")])) []
      (m.text ++ rest) off errs := Fails.action (Fails.seq (fails_notKw m h hk hr _))
  have fP : Fails Pinned.Grammar.rule_8.shown (.action "onParenthesizedExpression2" (.seq [
      .lit [40] false, .zeroOrOne (.ruleRef "_"), .labeled "expr" (.ruleRef "OrExpression"),
      .zeroOrOne (.ruleRef "_"), .lit [41] false])) [] (m.text ++ rest) off errs :=
    Fails.action (Fails.seq (FailsSeq.here (Fails.lit [40] rfl (by decide) hall
      (noParen_of_tokStart (m.head h)))))
  have eM := eats_MatchExpression (rule := Pinned.Grammar.rule_8.shown) (fr := []) (off := off)
    (errs := errs) m h (m.follow_of hc.stops hc.num) hr
  have eP : Eats Pinned.Grammar.rule_3.shown (.ruleRef "ParenthesizedExpression") [] m.text rest
      off errs [] (.expr m.ast) :=
    Eats.ref look_ParenthesizedExpression (by decide) (Eats.choice_next fP (Eats.choice_hit
      (Eats.action (Eats.labeled (l := "expr") (by decide) eM)
        (act_retLabel sem_onParenthesizedExpression12 ..))))
  exact Eats.ref look_NotExpression (by decide) (Eats.choice_next f1 (Eats.choice_hit
    (Eats.action (Eats.labeled (l := "expr") (by decide) eP)
      (act_retLabel sem_onNotExpression8 ..))))

theorem rt_paren (w₁ : GoString) (e : Sp .or) (w₂ : GoString) (h1 : Blank w₁) (he : e.WF)
    (h2 : Blank w₂) (ih : RT e) : RT (.paren w₁ e w₂) := by
  intro rest hc hr rule fr off errs
  have hea := e.text_vt he
  have h2a : Asc w₂ := h2.asc @isWs_lt
  have h1a : Asc w₁ := h1.asc @isWs_lt
  have hclose : VT ([41] ++ rest) := VT.cons (by decide) hr
  have hall : VT ([40] ++ (w₁ ++ (e.text ++ (w₂ ++ [41]))) ++ rest) :=
    (VT.cons (by decide) (h1a.appendV (hea.append (h2a.appendV
      (VT.cons (by decide) VT.nil))))).append hr
  have f1 : Fails Pinned.Grammar.rule_3.shown (.action "onNotExpression2" (.seq [
      .lit [110, 111, 116] false, .ruleRef "_", .labeled "expr" (.ruleRef "NotExpression")])) []
      ([40] ++ (w₁ ++ (e.text ++ (w₂ ++ [41]))) ++ rest) off errs :=
    Fails.action (Fails.seq (FailsSeq.here (Fails.lit kNot rfl (by decide) hall rfl)))
  -- inside the parentheses
  have hctx : Ctx .or e.endsNum ((w₂ ++ [41]) ++ rest) := by
    rw [List.append_assoc]; exact ctx_sep .or _ h2 (.inr ⟨rest, rfl⟩)
  have e3 := Eats.labeled (rule := Pinned.Grammar.rule_8.shown) (l := "expr") (fr := [])
    (by decide) (ih ((w₂ ++ [41]) ++ rest) hctx
      ((h2a.append (Asc.cons (by decide) Asc.nil)).appendV hr) Pinned.Grammar.rule_8.shown []
      (off + ([40] : GoString).length + w₁.length) errs)
  obtain ⟨v2, e2⟩ := eats_optWs (rule := Pinned.Grammar.rule_8.shown) (fr := [])
    (off := off + ([40] : GoString).length) (errs := errs) h1
    (rest := (e.text ++ (w₂ ++ [41])) ++ rest)
    (by rw [List.append_assoc]; exact noWs_of_spStart (e.head _ he))
    ((hea.append (h2a.appendV (VT.cons (by decide) VT.nil))).append hr)
  obtain ⟨v4, e4⟩ := eats_optWs (rule := Pinned.Grammar.rule_8.shown)
    (fr := [("expr", .expr e.val)])
    (off := off + ([40] : GoString).length + w₁.length + e.text.length) (errs := errs) h2
    (rest := [41] ++ rest) rfl hclose
  have hseq := EatsSeq.cons (Eats.lit (rule := Pinned.Grammar.rule_8.shown) (fr := [])
      (off := off) (errs := errs) [40] rfl (by decide)
      (rest := (w₁ ++ (e.text ++ (w₂ ++ [41]))) ++ rest)
      ((h1a.appendV (hea.append (h2a.appendV (VT.cons (by decide) VT.nil)))).append hr))
    (EatsSeq.cons e2 (EatsSeq.cons e3 (EatsSeq.cons e4
      (EatsSeq.one (Eats.lit [41] rfl (by decide) hr)))))
  have eP : Eats Pinned.Grammar.rule_3.shown (.ruleRef "ParenthesizedExpression") []
      ([40] ++ (w₁ ++ (e.text ++ (w₂ ++ [41])))) rest off errs [] (.expr e.val) :=
    Eats.ref look_ParenthesizedExpression (by decide) (Eats.choice_hit
      (Eats.action (Eats.seq hseq) (by
        rw [act_of_sem sem_onParenthesizedExpression2]
        simp [runActionSem, Frame.get, List.find?])))
  exact Eats.ref look_NotExpression (by decide) (Eats.choice_next f1 (Eats.choice_hit
    (Eats.action (Eats.labeled (l := "expr") (by decide) eP)
      (act_retLabel sem_onNotExpression8 ..))))

theorem rt_notOp (w : GoString) (n : Sp .not) (hw : Blank1 w) (hn : n.WF) (ih : RT n) :
    RT (.notOp w n) := by
  intro rest hc hr rule fr off errs
  have hna := n.text_vt hn
  obtain ⟨hne, hws⟩ := hw
  cases w with
  | nil => exact absurd rfl hne
  | cons b t =>
    have hwa : Asc (b :: t) := hws.asc @isWs_lt
    have e3 := Eats.labeled (rule := Pinned.Grammar.rule_3.shown) (l := "expr") (fr := [])
      (by decide) (ih rest hc hr Pinned.Grammar.rule_3.shown []
        (off + kNot.length + (b :: t).length) errs)
    have hseq := EatsSeq.cons (Eats.lit (rule := Pinned.Grammar.rule_3.shown) (fr := [])
        (off := off) (errs := errs) kNot rfl (by decide) (rest := ((b :: t) ++ n.text) ++ rest)
        ((hwa.appendV hna).append hr))
      (EatsSeq.cons (eats_ws hws (noWs_of_spStart (n.head _ hn)) (hna.append hr))
        (EatsSeq.one e3))
    exact Eats.ref look_NotExpression (by decide) (Eats.choice_hit
      (Eats.action (Eats.seq hseq) (act_notFold sem_onNotExpression2 ..)))


theorem act_mkBinary {name : String} {isOr : Bool}
    (h : lookupSem pinSem name = .mkBinary isOr "left" "right") (a b : Expr) (t : GoString) :
    E.action name [("right", .expr b), ("left", .expr a)] t =
      .ret (.expr (if isOr then .or a b else .and a b)) none := by
  rw [act_of_sem h]
  simp [runActionSem, Frame.get, List.find?]

/-- the shared shape of `AndExpression` / `OrExpression`:
    `left:Lower _ "kw" _ right:Same {binary} / expr:Lower {expr}` -/
theorem rt_up {lo hi : String} {r : Rule} {kw : GoString} {act2 act11 : String}
    {more : List PExpr}
    (hl : lookupRule G hi = some r) (hn : hi ≠ "")
    (he : r.expr = .choice (.action act2 (.seq [.labeled "left" (.ruleRef lo), .ruleRef "_",
        .lit (runesOf kw) false, .ruleRef "_", .labeled "right" (.ruleRef hi)]) ::
      .action act11 (.labeled "expr" (.ruleRef lo)) :: more))
    (hact : lookupSem pinSem act11 = .retLabel "expr")
    {x rest : GoString} {v : PVal} (hno : NoKw kw rest) (hr : VT rest)
    (ih : ∀ (rule : String) (fr : Frame) (off : Nat) (errs : List PErr),
      Eats rule (.ruleRef lo) fr x rest off errs fr v)
    (rule : String) (fr : Frame) (off : Nat) (errs : List PErr) :
    Eats rule (.ruleRef hi) fr x rest off errs fr v := by
  apply Eats.ref hl hn
  rw [he]
  have hf := failsSeq_toks (rule := r.shown) (fr := [("left", v)]) (errs := errs) hno
    (off + x.length) [.ruleRef "_", .labeled "right" (.ruleRef hi)] hr
  have f1 : Fails r.shown (.action act2 (.seq [.labeled "left" (.ruleRef lo), .ruleRef "_",
      .lit (runesOf kw) false, .ruleRef "_", .labeled "right" (.ruleRef hi)])) [] (x ++ rest) off
      errs :=
    Fails.action (Fails.seq (FailsSeq.later (Eats.labeled (l := "left") (by decide)
      (ih r.shown [] off errs)) hf))
  exact Eats.choice_next f1 (Eats.choice_hit (Eats.action
    (Eats.labeled (l := "expr") (by decide) (ih r.shown [] off errs)) (act_retLabel hact ..)))

theorem rt_op {lo hi : String} {r : Rule} {kw : GoString} {act2 : String} {isOr : Bool}
    {more : List PExpr}
    (hl : lookupRule G hi = some r) (hn : hi ≠ "")
    (he : r.expr = .choice (.action act2 (.seq [.labeled "left" (.ruleRef lo), .ruleRef "_",
        .lit (runesOf kw) false, .ruleRef "_", .labeled "right" (.ruleRef hi)]) :: more))
    (hact : lookupSem pinSem act2 = .mkBinary isOr "left" "right") (hkw : Asc kw)
    {xl xr w₁ w₂ rest : GoString} {a b : Expr} (h1 : Blank1 w₁) (h2 : Blank1 w₂)
    (hkw1 : headIn isWs (kw ++ (w₂ ++ xr) ++ rest) = false)
    (hxr : headIn isWs (xr ++ rest) = false) (hxra : VT xr) (hr : VT rest)
    (ihl : ∀ (rule : String) (fr : Frame) (off : Nat) (errs : List PErr),
      Eats rule (.ruleRef lo) fr xl ((w₁ ++ (kw ++ (w₂ ++ xr))) ++ rest) off errs fr (.expr a))
    (ihr : ∀ (rule : String) (fr : Frame) (off : Nat) (errs : List PErr),
      Eats rule (.ruleRef hi) fr xr rest off errs fr (.expr b))
    (rule : String) (fr : Frame) (off : Nat) (errs : List PErr) :
    Eats rule (.ruleRef hi) fr (xl ++ (w₁ ++ (kw ++ (w₂ ++ xr)))) rest off errs fr
      (.expr (if isOr then .or a b else .and a b)) := by
  apply Eats.ref hl hn
  rw [he]
  obtain ⟨hne1, hw1⟩ := h1
  obtain ⟨hne2, hw2⟩ := h2
  cases w₁ with
  | nil => exact absurd rfl hne1
  | cons c1 t1 =>
  cases w₂ with
  | nil => exact absurd rfl hne2
  | cons c2 t2 =>
    have hw2a : Asc (c2 :: t2) := hw2.asc @isWs_lt
    have e1 := Eats.labeled (rule := r.shown) (l := "left") (fr := []) (by decide)
      (ihl r.shown [] off errs)
    have e2 : Eats r.shown (.ruleRef "_") [("left", .expr a)] (c1 :: t1)
        ((kw ++ ((c2 :: t2) ++ xr)) ++ rest) (off + xl.length) errs _ _ :=
      eats_ws hw1 hkw1 ((hkw.appendV (hw2a.appendV hxra)).append hr)
    have e3 : Eats r.shown (.lit (runesOf kw) false) [("left", .expr a)] kw
        (((c2 :: t2) ++ xr) ++ rest) (off + xl.length + (c1 :: t1).length) errs _ _ :=
      Eats.lit kw rfl hkw ((hw2a.appendV hxra).append hr)
    have e4 : Eats r.shown (.ruleRef "_") [("left", .expr a)] (c2 :: t2) (xr ++ rest)
        (off + xl.length + (c1 :: t1).length + kw.length) errs _ _ :=
      eats_ws hw2 hxr (hxra.append hr)
    have e5 := Eats.labeled (rule := r.shown) (l := "right") (fr := [("left", .expr a)])
      (by decide) (ihr r.shown [] (off + xl.length + (c1 :: t1).length + kw.length +
        (c2 :: t2).length) errs)
    have hseq := EatsSeq.cons e1 (EatsSeq.cons e2 (EatsSeq.cons e3 (EatsSeq.cons e4
      (EatsSeq.one e5))))
    exact Eats.choice_hit (Eats.action (Eats.seq hseq) (act_mkBinary hact ..))

theorem expr_AndExpression : Pinned.Grammar.rule_2.expr =
    .choice (.action "onAndExpression2" (.seq [.labeled "left" (.ruleRef "NotExpression"),
        .ruleRef "_", .lit (runesOf kAnd) false, .ruleRef "_",
        .labeled "right" (.ruleRef "AndExpression")]) ::
      .action "onAndExpression11" (.labeled "expr" (.ruleRef "NotExpression")) :: []) := rfl

theorem expr_OrExpression : Pinned.Grammar.rule_1.expr =
    .choice (.action "onOrExpression2" (.seq [.labeled "left" (.ruleRef "AndExpression"),
        .ruleRef "_", .lit (runesOf kOr) false, .ruleRef "_",
        .labeled "right" (.ruleRef "OrExpression")]) ::
      .action "onOrExpression11" (.labeled "expr" (.ruleRef "AndExpression")) ::
      [.action "onOrExpression14" (.labeled "expr" (.ruleRef "CollectionExpression"))]) := rfl

theorem rt_andUp (n : Sp .not) (ih : RT n) : RT (.andUp n) := by
  intro rest hc hr rule fr off errs
  exact rt_up look_AndExpression (by decide) expr_AndExpression sem_onAndExpression11
    (hc.noAnd (by decide)) hr (ih rest hc.toNot hr) rule fr off errs

theorem rt_orUp (a : Sp .and) (ih : RT a) : RT (.orUp a) := by
  intro rest hc hr rule fr off errs
  exact rt_up look_OrExpression (by decide) expr_OrExpression sem_onOrExpression11
    (hc.noOr rfl) hr (ih rest hc.toAnd hr) rule fr off errs

theorem rt_andOp (l : Sp .not) (w₁ w₂ : GoString) (r : Sp .and) (h1 : Blank1 w₁)
    (h2 : Blank1 w₂) (hrw : r.WF) (ihl : RT l) (ihr : RT r) : RT (.andOp l w₁ w₂ r) := by
  intro rest hc hr rule fr off errs
  have hra := r.text_vt hrw
  have hrest' : VT ((w₁ ++ (kAnd ++ (w₂ ++ r.text))) ++ rest) :=
    ((h1.2.asc @isWs_lt).appendV (Asc.appendV (by decide)
      ((h2.2.asc @isWs_lt).appendV hra))).append hr
  exact rt_op (isOr := false) look_AndExpression (by decide) expr_AndExpression
    sem_onAndExpression2 (by decide) h1 h2 rfl (noWs_of_spStart (r.head _ hrw)) hra hr
    (ihl _ (by rw [List.append_assoc, List.append_assoc]; exact ctx_and _ h1) hrest')
    (ihr rest hc hr) rule fr off errs

theorem rt_orOp (l : Sp .and) (w₁ w₂ : GoString) (r : Sp .or) (h1 : Blank1 w₁)
    (h2 : Blank1 w₂) (hrw : r.WF) (ihl : RT l) (ihr : RT r) : RT (.orOp l w₁ w₂ r) := by
  intro rest hc hr rule fr off errs
  have hra := r.text_vt hrw
  have hrest' : VT ((w₁ ++ (kOr ++ (w₂ ++ r.text))) ++ rest) :=
    ((h1.2.asc @isWs_lt).appendV (Asc.appendV (by decide)
      ((h2.2.asc @isWs_lt).appendV hra))).append hr
  exact rt_op (isOr := true) look_OrExpression (by decide) expr_OrExpression
    sem_onOrExpression2 (by decide) h1 h2 rfl (noWs_of_spStart (r.head _ hrw)) hra hr
    (ihl _ (by rw [List.append_assoc, List.append_assoc]; exact ctx_or _ h1) hrest')
    (ihr rest hc hr) rule fr off errs


/-- mandatory blanks -/
theorem eats_ws1 {w : GoString} (hw : Blank1 w) (hstop : headIn isWs rest = false)
    (hr : VT rest) :
    Eats rule (.ruleRef "_") fr w rest off errs fr (.list (bytesOf w)) := by
  obtain ⟨hne, hws⟩ := hw
  cases w with
  | nil => exact absurd rfl hne
  | cons b t => exact eats_ws hws hstop hr

/-- the identifier `any` resp. `all`, read as a selector -/
def opSel : CollOp → SelSp
  | .any => ⟨97, [110, 121], []⟩
  | .all => ⟨97, [108, 108], []⟩

theorem opSel_WF (op : CollOp) : (opSel op).WF := by
  cases op <;> exact ⟨by decide, by decide, fun p hp => by cases hp⟩

theorem opSel_text (op : CollOp) : (opSel op).text = opText op := by cases op <;> rfl

theorem stopsSel_blank1 {w r : GoString} (hw : Blank1 w) : stopsSel (w ++ r) := by
  obtain ⟨hne, hws⟩ := hw
  cases w with
  | nil => exact absurd rfl hne
  | cons b t => exact (isWs_not_selCont _ hws.head : selCont b.toNat = false)

theorem numFollow_blank1 {w r : GoString} (hw : Blank1 w) : numFollow (w ++ r) = true := by
  obtain ⟨hne, hws⟩ := hw
  cases w with
  | nil => exact absurd rfl hne
  | cons b t => exact (by rw [hws.head]; rfl : (isWs b.toNat || b == 41) = true)

/-- the body of a quantifier is followed by optional blanks and `}` -/
theorem ctx_brace (nn : Bool) {w r : GoString} (hw : Blank w) (hnum : nn = true → w ≠ []) :
    Ctx .or nn (w ++ ([125] ++ r)) := by
  refine ⟨?_, fun h => ?_, fun _ => ToksFail.wsNext hw rfl (ToksFail.kwHere (by decide) rfl),
    fun _ => ToksFail.wsNext hw rfl (ToksFail.kwHere (by decide) rfl)⟩
  · cases w with
    | nil => rfl
    | cons b t => exact (isWs_not_selCont _ hw.head : selCont b.toNat = false)
  · exact numFollow_blank1 ⟨hnum h, hw⟩

theorem expr_CollectionExpression : Pinned.Grammar.rule_4.expr =
    .action "onCollectionExpression1" (.seq [.labeled "op" collOpChoice,
      .labeled "selector" (.ruleRef "Selector"), .ruleRef "_", .lit (runesOf kAs) false,
      .ruleRef "_", .labeled "binding" (.ruleRef "CollectionIdentifiers"),
      .zeroOrOne (.ruleRef "_"), .lit [123] false, .zeroOrOne (.ruleRef "_"),
      .labeled "expr" (.ruleRef "OrExpression"), .zeroOrOne (.ruleRef "_"),
      .lit [125] false]) := rfl

theorem rt_coll (op : CollOp) (w₁ : GoString) (x : SelX) (w₂ w₃ : GoString) (bind : BindSp)
    (w₄ w₅ : GoString) (body : Sp .or) (w₆ : GoString)
    (h : (Sp.coll op w₁ x w₂ w₃ bind w₄ w₅ body w₆).WF) (ih : RT body) :
    RT (.coll op w₁ x w₂ w₃ bind w₄ w₅ body w₆) := by
  intro rest hc hr rule fr off errs
  obtain ⟨h1, hx, hk, h2, h3, hb, h4, h5, hbody, h6, hnum⟩ := h
  have h1a : Asc w₁ := h1.2.asc @isWs_lt
  have h2a : Asc w₂ := h2.2.asc @isWs_lt
  have h3a : Asc w₃ := h3.2.asc @isWs_lt
  have h4a : Asc w₄ := h4.asc @isWs_lt
  have h5a : Asc w₅ := h5.asc @isWs_lt
  have h6a : Asc w₆ := h6.asc @isWs_lt
  have hxa := x.text_vt hx
  have hba := bind.text_asc hb
  have hya := body.text_vt hbody
  -- the tails after each item (right nested), each followed by `rest`
  have a12 : VT ([125] ++ rest) := VT.cons (by decide) hr
  have c11 : VT (w₆ ++ [125]) := h6a.appendV (VT.cons (by decide) VT.nil)
  have c10 : VT (body.text ++ (w₆ ++ [125])) := hya.append c11
  have c9 : VT (w₅ ++ (body.text ++ (w₆ ++ [125]))) := h5a.appendV c10
  have c8 : VT ([123] ++ (w₅ ++ (body.text ++ (w₆ ++ [125])))) := VT.cons (by decide) c9
  have c7 : VT (w₄ ++ ([123] ++ (w₅ ++ (body.text ++ (w₆ ++ [125]))))) := h4a.appendV c8
  have c6 : VT (bind.text ++ (w₄ ++ ([123] ++ (w₅ ++ (body.text ++ (w₆ ++ [125])))))) :=
    hba.appendV c7
  have c5 : VT (w₃ ++ (bind.text ++ (w₄ ++ ([123] ++ (w₅ ++ (body.text ++
      (w₆ ++ [125]))))))) := h3a.appendV c6
  have c4 : VT (kAs ++ (w₃ ++ (bind.text ++ (w₄ ++ ([123] ++ (w₅ ++ (body.text ++
      (w₆ ++ [125])))))))) := Asc.appendV (by decide) c5
  have c3 : VT (w₂ ++ (kAs ++ (w₃ ++ (bind.text ++ (w₄ ++ ([123] ++ (w₅ ++ (body.text ++
      (w₆ ++ [125]))))))))) := h2a.appendV c4
  have c2 : VT (x.text ++ (w₂ ++ (kAs ++ (w₃ ++ (bind.text ++ (w₄ ++ ([123] ++ (w₅ ++
      (body.text ++ (w₆ ++ [125])))))))))) := hxa.append c3
  have a11 := c11.append hr
  have a10 := c10.append hr
  have a9 := c9.append hr
  have a8 := c8.append hr
  have a7 := c7.append hr
  have a6 := c6.append hr
  have a5 := c5.append hr
  have a4 := c4.append hr
  have a3 := c3.append hr
  have a2 := c2.append hr
  apply Eats.ref look_OrExpression (by decide)
  rw [expr_OrExpression]
  generalize Pinned.Grammar.rule_1.shown = R1
  -- alternatives 1 and 2: the text is no `AndExpression`
  have hAnd : ∀ fr', Fails R1 (.ruleRef "AndExpression") fr'
      ((Sp.coll op w₁ x w₂ w₃ bind w₄ w₅ body w₆).text ++ rest) off errs := by
    intro fr'
    have e : (Sp.coll op w₁ x w₂ w₃ bind w₄ w₅ body w₆).text ++ rest =
        (opSel op).text ++ (w₁ ++ ((x.text ++ (w₂ ++ (kAs ++ (w₃ ++ (bind.text ++ (w₄ ++
          ([123] ++ (w₅ ++ (body.text ++ (w₆ ++ [125])))))))))) ++ rest)) := by
      rw [opSel_text]; simp [Sp.text, List.append_assoc]
    rw [e]
    have hfree : KwFree ((x.text ++ (w₂ ++ (kAs ++ (w₃ ++ (bind.text ++ (w₄ ++
          ([123] ++ (w₅ ++ (body.text ++ (w₆ ++ [125])))))))))) ++ rest) := by
      rw [List.append_assoc]
      exact x.kwFree hx hk _ (by rw [List.append_assoc]; exact stopsSel_blank1 h2)
    refine fails_AndExpression_kw (opSel op) (opSel_WF op) h1
      (by rw [List.append_assoc]; exact noWs_of_tokStart (x.head hx)) hfree a2 ?_ ?_ R1 fr' off
      errs
    · cases op <;> rfl
    · cases op <;> rfl
  have f1 : Fails R1 (.action "onOrExpression2" (.seq [.labeled "left" (.ruleRef "AndExpression"),
      .ruleRef "_", .lit (runesOf kOr) false, .ruleRef "_",
      .labeled "right" (.ruleRef "OrExpression")])) []
      ((Sp.coll op w₁ x w₂ w₃ bind w₄ w₅ body w₆).text ++ rest) off errs :=
    Fails.action (Fails.seq (FailsSeq.here (Fails.labeled (hAnd _))))
  have f2 : Fails R1 (.action "onOrExpression11" (.labeled "expr" (.ruleRef "AndExpression"))) []
      ((Sp.coll op w₁ x w₂ w₃ bind w₄ w₅ body w₆).text ++ rest) off errs :=
    Fails.action (Fails.labeled (hAnd _))
  -- alternative 3: the quantifier
  generalize hR4 : Pinned.Grammar.rule_4.shown = R4
  have e1 := Eats.labeled (rule := R4) (l := "op") (fr := []) (by decide)
    (eats_collOp (off := off) (errs := errs) op h1
      (by rw [List.append_assoc]; exact noWs_of_tokStart (x.head hx)) a2)
  have e2 := Eats.labeled (rule := R4) (l := "selector") (fr := [("op", .cop op)]) (by decide)
    (eats_SelX (off := off + (opText op ++ w₁).length) (errs := errs) x hx
      (x.follow_of_stops (by rw [List.append_assoc]; exact stopsSel_blank1 h2)) a3)
  have e3 : Eats R4 (.ruleRef "_") [("selector", .sel x.sel), ("op", .cop op)] w₂ _
      (off + (opText op ++ w₁).length + x.text.length) errs _ _ := eats_ws1 h2 rfl a4
  have e4 : Eats R4 (.lit (runesOf kAs) false) [("selector", .sel x.sel), ("op", .cop op)] kAs _
      (off + (opText op ++ w₁).length + x.text.length + w₂.length) errs _ _ :=
    Eats.lit kAs rfl (by decide) a5
  have e5 : Eats R4 (.ruleRef "_") [("selector", .sel x.sel), ("op", .cop op)] w₃ _
      (off + (opText op ++ w₁).length + x.text.length + w₂.length + kAs.length) errs _ _ :=
    eats_ws1 h3 (by rw [List.append_assoc]; exact bind.head hb) a6
  have e6 := Eats.labeled (rule := R4) (l := "binding")
    (fr := [("selector", .sel x.sel), ("op", .cop op)]) (by decide)
    ((eats_CollectionIdentifiers (off := off + (opText op ++ w₁).length + x.text.length +
        w₂.length + kAs.length + w₃.length) (errs := errs) bind hb h4
        (r := (w₅ ++ (body.text ++ (w₆ ++ [125]))) ++ rest) a9).cast rfl
      (by simp [List.append_assoc] :
        w₄ ++ ([123] ++ ((w₅ ++ (body.text ++ (w₆ ++ [125]))) ++ rest)) =
          (w₄ ++ ([123] ++ (w₅ ++ (body.text ++ (w₆ ++ [125]))))) ++ rest))
  obtain ⟨v7, e7⟩ := eats_optWs (rule := R4)
    (fr := [("binding", .binding bind.binding), ("selector", .sel x.sel), ("op", .cop op)])
    (off := off + (opText op ++ w₁).length + x.text.length + w₂.length + kAs.length + w₃.length +
      bind.text.length) (errs := errs) h4 (rest := ([123] ++ (w₅ ++ (body.text ++
        (w₆ ++ [125])))) ++ rest) rfl a8
  have e8 : Eats R4 (.lit [123] false)
      [("binding", .binding bind.binding), ("selector", .sel x.sel), ("op", .cop op)] [123] _
      (off + (opText op ++ w₁).length + x.text.length + w₂.length + kAs.length + w₃.length +
        bind.text.length + w₄.length) errs _ _ := Eats.lit [123] rfl (by decide) a9
  obtain ⟨v9, e9⟩ := eats_optWs (rule := R4)
    (fr := [("binding", .binding bind.binding), ("selector", .sel x.sel), ("op", .cop op)])
    (off := off + (opText op ++ w₁).length + x.text.length + w₂.length + kAs.length + w₃.length +
      bind.text.length + w₄.length + ([123] : GoString).length) (errs := errs) h5
    (rest := (body.text ++ (w₆ ++ [125])) ++ rest)
    (by rw [List.append_assoc]; exact noWs_of_spStart (body.head _ hbody)) a10
  have e10 := Eats.labeled (rule := R4) (l := "expr")
    (fr := [("binding", .binding bind.binding), ("selector", .sel x.sel), ("op", .cop op)])
    (by decide)
    (ih ((w₆ ++ [125]) ++ rest) (by rw [List.append_assoc]; exact ctx_brace _ h6 hnum) a11 R4 []
      (off + (opText op ++ w₁).length + x.text.length + w₂.length + kAs.length + w₃.length +
        bind.text.length + w₄.length + ([123] : GoString).length + w₅.length) errs)
  obtain ⟨v11, e11⟩ := eats_optWs (rule := R4)
    (fr := [("expr", .expr body.val), ("binding", .binding bind.binding),
      ("selector", .sel x.sel), ("op", .cop op)])
    (off := off + (opText op ++ w₁).length + x.text.length + w₂.length + kAs.length + w₃.length +
      bind.text.length + w₄.length + ([123] : GoString).length + w₅.length + body.text.length)
    (errs := errs) h6 (rest := [125] ++ rest) rfl a12
  have e12 : Eats R4 (.lit [125] false)
      [("expr", .expr body.val), ("binding", .binding bind.binding),
        ("selector", .sel x.sel), ("op", .cop op)] [125] rest
      (off + (opText op ++ w₁).length + x.text.length + w₂.length + kAs.length + w₃.length +
        bind.text.length + w₄.length + ([123] : GoString).length + w₅.length + body.text.length +
        w₆.length) errs _ _ := Eats.lit [125] rfl (by decide) hr
  have hseq := EatsSeq.cons e1 (EatsSeq.cons e2 (EatsSeq.cons e3 (EatsSeq.cons e4
    (EatsSeq.cons e5 (EatsSeq.cons e6 (EatsSeq.cons e7 (EatsSeq.cons e8 (EatsSeq.cons e9
      (EatsSeq.cons e10 (EatsSeq.cons e11 (EatsSeq.one e12)))))))))))
  have eC : Eats R1 (.ruleRef "CollectionExpression") []
      (Sp.coll op w₁ x w₂ w₃ bind w₄ w₅ body w₆).text rest off errs []
      (.expr (.coll op x.sel bind.binding body.val)) := by
    apply Eats.ref look_CollectionExpression (by decide)
    rw [expr_CollectionExpression, hR4]
    refine Eats.action (Eats.seq hseq) ?_
    rw [act_of_sem sem_onCollectionExpression1]
    simp [runActionSem, Frame.get, List.find?]
  exact Eats.choice_next f1 (Eats.choice_next f2 (Eats.choice_hit
    (Eats.action (Eats.labeled (l := "expr") (by decide) eC)
      (act_retLabel sem_onOrExpression14 ..))))

/-- **Round trip at every level.**  For every well-formed rendering `c` of level `l`, followed
    by a context `rest` admissible for that level, the rule of that level consumes exactly
    `c.text` and returns the tree `c.val`, logging nothing. -/
theorem eats_Sp : ∀ {l : Lvl} (c : Sp l), c.WF → RT c
  | _, .orOp l w₁ w₂ r, h => rt_orOp l w₁ w₂ r h.2.1 h.2.2.1 h.2.2.2 (eats_Sp l h.1)
      (eats_Sp r h.2.2.2)
  | _, .orUp a, h => rt_orUp a (eats_Sp a h)
  | _, .andOp l w₁ w₂ r, h => rt_andOp l w₁ w₂ r h.2.1 h.2.2.1 h.2.2.2 (eats_Sp l h.1)
      (eats_Sp r h.2.2.2)
  | _, .andUp n, h => rt_andUp n (eats_Sp n h)
  | _, .notOp w n, h => rt_notOp w n h.1 h.2 (eats_Sp n h.2)
  | _, .paren w₁ e w₂, h => rt_paren w₁ e w₂ h.1 h.2.1 h.2.2 (eats_Sp e h.2.1)
  | _, .leaf m, h => rt_leaf m h.1 h.2
  | _, .coll op w₁ x w₂ w₃ bind w₄ w₅ body w₆, h =>
    rt_coll op w₁ x w₂ w₃ bind w₄ w₅ body w₆ h (eats_Sp body h.2.2.2.2.2.2.2.2.1)

/-! ## 6. The start rule `Input` -/

/-- the leading parenthesised group of a rendering, with the text after its `)` -/
def Sp.splitParen : {l : Lvl} → Sp l → Option (GoString × Sp .or × GoString × GoString)
  | _, .orOp l w₁ w₂ r =>
    l.splitParen.map fun q => (q.1, q.2.1, q.2.2.1, q.2.2.2 ++ (w₁ ++ (kOr ++ (w₂ ++ r.text))))
  | _, .orUp a => a.splitParen
  | _, .andOp l w₁ w₂ r =>
    l.splitParen.map fun q => (q.1, q.2.1, q.2.2.1, q.2.2.2 ++ (w₁ ++ (kAnd ++ (w₂ ++ r.text))))
  | _, .andUp n => n.splitParen
  | _, .notOp _ _ => none
  | _, .paren w₁ e w₂ => some (w₁, e, w₂, [])
  | _, .leaf _ => none
  | _, .coll .. => none

theorem Sp.splitParen_none : ∀ {l : Lvl} (c : Sp l) (rest : GoString), c.WF →
    c.splitParen = none → GoString.isPrefixOf [40] (c.text ++ rest) = false
  | _, .orOp l w₁ w₂ r, rest, h, hs => by
    have : l.splitParen = none := by simpa [Sp.splitParen] using hs
    show GoString.isPrefixOf [40] (l.text ++ _ ++ rest) = false
    rw [List.append_assoc]; exact l.splitParen_none _ h.1 this
  | _, .orUp a, rest, h, hs => a.splitParen_none rest h hs
  | _, .andOp l w₁ w₂ r, rest, h, hs => by
    have : l.splitParen = none := by simpa [Sp.splitParen] using hs
    show GoString.isPrefixOf [40] (l.text ++ _ ++ rest) = false
    rw [List.append_assoc]; exact l.splitParen_none _ h.1 this
  | _, .andUp n, rest, h, hs => n.splitParen_none rest h hs
  | _, .notOp w n, rest, h, hs => rfl
  | _, .leaf m, rest, h, hs => noParen_of_tokStart (m.head h.1)
  | _, .coll op _ _ _ _ _ _ _ _ _, rest, h, hs => by cases op <;> rfl

/-- the text after the leading group: nothing, or blanks and then something -/
def TailOK (t : GoString) : Prop :=
  t = [] ∨ ∃ w r, t = w ++ r ∧ Blank w ∧ headIn isWs r = false ∧ r ≠ []

theorem tailOK_kw {t w x : GoString} (ht : TailOK t) (hw : Blank1 w) {k : UInt8} {ks : GoString}
    (hk : isWs k.toNat = false) : TailOK (t ++ (w ++ ((k :: ks) ++ x))) ∧
      t ++ (w ++ ((k :: ks) ++ x)) ≠ [] := by
  rcases ht with rfl | ⟨w', r, rfl, hw', hr, hne⟩
  · refine ⟨.inr ⟨w, (k :: ks) ++ x, rfl, hw.2, hk, by simp⟩, ?_⟩
    obtain ⟨hne, _⟩ := hw
    cases w with
    | nil => exact absurd rfl hne
    | cons b t => simp
  · refine ⟨.inr ⟨w', r ++ (w ++ ((k :: ks) ++ x)), by simp, hw', ?_, by simp [hne]⟩, ?_⟩
    · cases r with
      | nil => exact absurd rfl hne
      | cons b t => exact hr
    · cases r with
      | nil => exact absurd rfl hne
      | cons b t => simp

theorem Sp.splitParen_some : ∀ {l : Lvl} (c : Sp l) (a : GoString) (e : Sp .or) (b t : GoString),
    c.WF → c.splitParen = some (a, e, b, t) →
    c.text = [40] ++ (a ++ (e.text ++ (b ++ [41]))) ++ t ∧ Blank a ∧ e.WF ∧ Blank b ∧ TailOK t ∧
      (t = [] → c.val = e.val)
  | _, .orOp l w₁ w₂ r, a, e, b, t, h, hs => by
    simp only [Sp.splitParen, Option.map_eq_some_iff] at hs
    obtain ⟨⟨a', e', b', t'⟩, hl, heq⟩ := hs
    simp only [Prod.mk.injEq] at heq
    obtain ⟨rfl, rfl, rfl, rfl⟩ := heq
    obtain ⟨h1, h2, h3, h4, h5, _⟩ := l.splitParen_some a' e' b' t' h.1 hl
    have := tailOK_kw (t := t') (x := w₂ ++ r.text) (k := 111) (ks := [114]) h5 h.2.1 rfl
    refine ⟨?_, h2, h3, h4, this.1, fun h0 => absurd h0 this.2⟩
    show l.text ++ _ = _
    rw [h1]; simp [kOr]
  | _, .orUp x, a, e, b, t, h, hs => x.splitParen_some a e b t h hs
  | _, .andOp l w₁ w₂ r, a, e, b, t, h, hs => by
    simp only [Sp.splitParen, Option.map_eq_some_iff] at hs
    obtain ⟨⟨a', e', b', t'⟩, hl, heq⟩ := hs
    simp only [Prod.mk.injEq] at heq
    obtain ⟨rfl, rfl, rfl, rfl⟩ := heq
    obtain ⟨h1, h2, h3, h4, h5, _⟩ := l.splitParen_some a' e' b' t' h.1 hl
    have := tailOK_kw (t := t') (x := w₂ ++ r.text) (k := 97) (ks := [110, 100]) h5 h.2.1 rfl
    refine ⟨?_, h2, h3, h4, this.1, fun h0 => absurd h0 this.2⟩
    show l.text ++ _ = _
    rw [h1]; simp [kAnd]
  | _, .andUp n, a, e, b, t, h, hs => n.splitParen_some a e b t h hs
  | _, .paren w₁ e' w₂, a, e, b, t, h, hs => by
    simp only [Sp.splitParen, Option.some.injEq, Prod.mk.injEq] at hs
    obtain ⟨rfl, rfl, rfl, rfl⟩ := hs
    exact ⟨by simp [Sp.text], h.1, h.2.1, h.2.2, .inl rfl, fun _ => rfl⟩


/-- a whole input: leading blanks, an expression, trailing blanks -/
structure Top where
  w₀ : GoString
  c : Sp .or
  w₁ : GoString

def Top.text (t : Top) : GoString := t.w₀ ++ (t.c.text ++ t.w₁)
def Top.WF (t : Top) : Prop := Blank t.w₀ ∧ t.c.WF ∧ Blank t.w₁
def Top.val (t : Top) : Expr := t.c.val
def Top.ast (t : Top) : Expr := t.c.ast

theorem Top.text_vt (t : Top) (h : t.WF) : VT t.text :=
  (h.1.asc @isWs_lt).appendV ((t.c.text_vt h.2.1).append (h.2.2.asc @isWs_lt).vt)

abbrev inputAlt1 : PExpr := .action "onInput2" (.seq [.zeroOrOne (.ruleRef "_"), .lit [40] false,
  .zeroOrOne (.ruleRef "_"), .labeled "expr" (.ruleRef "OrExpression"),
  .zeroOrOne (.ruleRef "_"), .lit [41] false, .zeroOrOne (.ruleRef "_"), .ruleRef "EOF"])
abbrev inputAlt2 : PExpr := .action "onInput17" (.seq [.zeroOrOne (.ruleRef "_"),
  .labeled "expr" (.ruleRef "OrExpression"), .zeroOrOne (.ruleRef "_"), .ruleRef "EOF"])

/-- second alternative of `Input`: `_? expr:OrExpression _? EOF` -/
theorem input_alt2 (t : Top) (h : t.WF) (rule : String) (off : Nat) (errs : List PErr) :
    Eats rule inputAlt2 [] t.text [] off errs [("expr", .expr t.val)] (.expr t.val) := by
  obtain ⟨h0, hc, h1⟩ := h
  have h1a : Asc t.w₁ := h1.asc @isWs_lt
  have hca := t.c.text_vt hc
  obtain ⟨v1, e1⟩ := eats_optWs (rule := rule) (fr := []) (off := off) (errs := errs) h0
    (rest := (t.c.text ++ t.w₁) ++ [])
    (by rw [List.append_assoc]; exact noWs_of_spStart (t.c.head _ hc))
    ((hca.append h1a.vt).append VT.nil)
  have e2 := Eats.labeled (rule := rule) (l := "expr") (fr := []) (by decide)
    (eats_Sp t.c hc (t.w₁ ++ []) (ctx_sep .or _ h1 (.inl rfl)) (h1a.appendV VT.nil) rule []
      (off + t.w₀.length) errs)
  obtain ⟨v3, e3⟩ := eats_optWs (rule := rule) (fr := [("expr", .expr t.c.val)])
    (off := off + t.w₀.length + t.c.text.length) (errs := errs) h1 (rest := []) rfl VT.nil
  have hseq := EatsSeq.cons e1 (EatsSeq.cons e2 (EatsSeq.two0 e3 eats_EOF))
  exact Eats.action (Eats.seq hseq) (act_retLabel sem_onInput17 ..)

abbrev parenItems : List PExpr := [.lit [40] false, .zeroOrOne (.ruleRef "_"),
  .labeled "expr" (.ruleRef "OrExpression"), .zeroOrOne (.ruleRef "_"), .lit [41] false]

/-- the items `"(" _? expr:OrExpression _? ")"` of `Input`'s first alternative on a
    parenthesised group, followed by more items -/
theorem paren_items (rule : String) (a : GoString) (e : Sp .or) (b y r : GoString) (ha : Blank a)
    (he : e.WF) (hb : Blank b) (hy : VT y) (hr : VT r) (off : Nat) (errs : List PErr) :
    (∀ es fr₂ vs, EatsSeq rule es [("expr", .expr e.val)] y r
        (off + ([40] : GoString).length + a.length + e.text.length + b.length +
          ([41] : GoString).length) errs fr₂ vs →
      ∃ vs', EatsSeq rule (parenItems ++ es) [] ([40] ++ (a ++ (e.text ++ (b ++ ([41] ++ y))))) r
        off errs fr₂ vs') ∧
    (∀ es, FailsSeq rule es [("expr", .expr e.val)] (y ++ r)
        (off + ([40] : GoString).length + a.length + e.text.length + b.length +
          ([41] : GoString).length) errs →
      FailsSeq rule (parenItems ++ es) [] (([40] ++ (a ++ (e.text ++ (b ++ ([41] ++ y))))) ++ r)
        off errs) := by
  have haa : Asc a := ha.asc @isWs_lt
  have hba : Asc b := hb.asc @isWs_lt
  have hea := e.text_vt he
  have hyr : VT (y ++ r) := hy.append hr
  have h41 : VT (([41] ++ y) ++ r) := (VT.cons (by decide) hy).append hr
  have e0 : Eats rule (.lit [40] false) [] [40] ((a ++ (e.text ++ (b ++ ([41] ++ y)))) ++ r) off
      errs [] (.bytes [40]) :=
    Eats.lit [40] rfl (by decide)
      ((haa.appendV (hea.append (hba.appendV (VT.cons (by decide) hy)))).append hr)
  obtain ⟨v2, e2⟩ := eats_optWs (rule := rule) (fr := [])
    (off := off + ([40] : GoString).length) (errs := errs) ha
    (rest := (e.text ++ (b ++ ([41] ++ y))) ++ r)
    (by rw [List.append_assoc]; exact noWs_of_spStart (e.head _ he))
    ((hea.append (hba.appendV (VT.cons (by decide) hy))).append hr)
  have e3 := Eats.labeled (rule := rule) (l := "expr") (fr := []) (by decide)
    (eats_Sp e he ((b ++ ([41] ++ y)) ++ r)
      (by rw [List.append_assoc]; exact ctx_sep .or _ hb (.inr ⟨y ++ r, rfl⟩))
      ((hba.appendV (VT.cons (by decide) hy)).append hr) rule []
      (off + ([40] : GoString).length + a.length) errs)
  obtain ⟨v4, e4⟩ := eats_optWs (rule := rule) (fr := [("expr", .expr e.val)])
    (off := off + ([40] : GoString).length + a.length + e.text.length)
    (errs := errs) hb (rest := ([41] ++ y) ++ r) rfl h41
  have e5 : Eats rule (.lit [41] false) [("expr", .expr e.val)] [41] (y ++ r)
      (off + ([40] : GoString).length + a.length + e.text.length + b.length) errs
      [("expr", .expr e.val)] (.bytes [41]) := Eats.lit [41] rfl (by decide) hyr
  constructor
  · intro es fr₂ vs h
    exact ⟨_, EatsSeq.cons e0 (EatsSeq.cons e2 (EatsSeq.cons e3 (EatsSeq.cons e4
      (EatsSeq.cons e5 h))))⟩
  · intro es h
    exact FailsSeq.later' e0 (FailsSeq.later' e2 (FailsSeq.later' e3 (FailsSeq.later' e4
      (FailsSeq.later' e5 h))))

/-- first alternative of `Input`: `_? "(" _? expr:OrExpression _? ")" _? EOF` either fails
    (logging nothing) or yields the same tree -/
theorem input_alt1 (t : Top) (h : t.WF) (rule : String) (off : Nat) (errs : List PErr) :
    Fails rule inputAlt1 [] (t.text ++ []) off errs ∨
      ∃ fr', Eats rule inputAlt1 [] t.text [] off errs fr' (.expr t.val) := by
  obtain ⟨h0, hc, h1⟩ := h
  have h1a : Asc t.w₁ := h1.asc @isWs_lt
  have hca := t.c.text_vt hc
  have hall : VT ((t.c.text ++ t.w₁) ++ []) := (hca.append h1a.vt).append VT.nil
  cases hs : t.c.splitParen with
  | none =>
    left
    obtain ⟨v1, e1⟩ := eats_optWs (rule := rule) (fr := []) (off := off) (errs := errs) h0
      (rest := (t.c.text ++ t.w₁) ++ [])
      (by rw [List.append_assoc]; exact noWs_of_spStart (t.c.head _ hc)) hall
    have hp := t.c.splitParen_none (t.w₁ ++ []) hc hs
    refine Fails.action (Fails.seq ?_)
    show FailsSeq rule _ [] (t.w₀ ++ (t.c.text ++ t.w₁) ++ []) off errs
    rw [List.append_assoc]
    exact FailsSeq.later e1 (FailsSeq.here (Fails.lit [40] rfl (by decide) hall
      (by rw [List.append_assoc]; exact hp)))
  | some q =>
    obtain ⟨a, e, b, tl⟩ := q
    obtain ⟨htext, ha, he, hb, htl, hval⟩ := t.c.splitParen_some a e b tl hc hs
    have hgrp : VT ([40] ++ (a ++ (e.text ++ (b ++ [41])))) :=
      VT.cons (by decide) ((ha.asc @isWs_lt).appendV ((e.text_vt he).append
        ((hb.asc @isWs_lt).appendV (VT.cons (by decide) VT.nil))))
    have htla : VT tl := by
      have := hca; rw [htext] at this; exact VT.drop hgrp this
    rcases htl with rfl | ⟨w, r, rfl, hw, hr0, hrne⟩
    · -- the whole expression is the parenthesised group: alternative 1 matches
      right
      obtain ⟨hE, _⟩ := paren_items rule a e b t.w₁ [] ha he hb h1a.vt VT.nil (off + t.w₀.length)
        errs
      obtain ⟨v7, e7⟩ := eats_optWs (rule := rule) (fr := [("expr", .expr e.val)])
        (off := off + t.w₀.length + ([40] : GoString).length + a.length + e.text.length +
          b.length + ([41] : GoString).length)
        (errs := errs) h1 (rest := []) rfl VT.nil
      obtain ⟨vs', hseq⟩ := hE _ _ _ (EatsSeq.two0 e7 eats_EOF)
      have hsa : VT (([40] ++ (a ++ (e.text ++ (b ++ ([41] ++ t.w₁))))) ++ []) := by
        have := (hca.append h1a.vt).append VT.nil
        rw [htext] at this
        simpa using this
      obtain ⟨v1, e1⟩ := eats_optWs (rule := rule) (fr := []) (off := off) (errs := errs) h0
        (rest := ([40] ++ (a ++ (e.text ++ (b ++ ([41] ++ t.w₁))))) ++ []) rfl hsa
      have hfull := (EatsSeq.cons e1 hseq).cast (x' := t.text) (by
        rw [Top.text, htext]; simp)
      refine ⟨[("expr", .expr e.val)], ?_⟩
      rw [Top.val, hval rfl]
      exact Eats.action (Eats.seq hfull) (act_retLabel sem_onInput2 ..)
    · -- something follows the closing parenthesis: `EOF` fails, alternative 1 fails
      left
      have hwa : Asc w := hw.asc @isWs_lt
      have hra : VT (r ++ t.w₁) := (VT.right hwa htla).append h1a.vt
      obtain ⟨_, hF⟩ := paren_items rule a e b [] (w ++ (r ++ t.w₁)) ha he hb VT.nil
        (hwa.appendV hra) (off + t.w₀.length) errs
      obtain ⟨v7, e7⟩ := eats_optWs (rule := rule) (fr := [("expr", .expr e.val)])
        (off := off + t.w₀.length + ([40] : GoString).length + a.length + e.text.length +
          b.length + ([41] : GoString).length)
        (errs := errs) hw (rest := r ++ t.w₁)
        (by cases r with
            | nil => exact absurd rfl hrne
            | cons k ks => exact hr0) hra
      have hEOF : Fails rule (.ruleRef "EOF") [("expr", .expr e.val)] (r ++ t.w₁)
          (off + t.w₀.length + ([40] : GoString).length + a.length + e.text.length +
          b.length + ([41] : GoString).length + w.length) errs := by
        cases r with
        | nil => exact absurd rfl hrne
        | cons k ks => exact fails_EOF hra (by simp)
      have hfs0 : FailsSeq rule [.zeroOrOne (.ruleRef "_"), .ruleRef "EOF"]
          [("expr", .expr e.val)] (w ++ (r ++ t.w₁)) _ errs :=
        FailsSeq.later e7 (FailsSeq.here hEOF)
      have hfs := hF [.zeroOrOne (.ruleRef "_"), .ruleRef "EOF"] hfs0
      have hsa : VT (([40] ++ (a ++ (e.text ++ (b ++ ([41] ++ []))))) ++ (w ++ (r ++ t.w₁))) := by
        have := (hca.append h1a.vt).append VT.nil
        rw [htext] at this
        simpa using this
      obtain ⟨v1, e1⟩ := eats_optWs (rule := rule) (fr := []) (off := off) (errs := errs) h0
        (rest := ([40] ++ (a ++ (e.text ++ (b ++ ([41] ++ []))))) ++ (w ++ (r ++ t.w₁))) rfl hsa
      have e : t.text ++ [] = t.w₀ ++
          (([40] ++ (a ++ (e.text ++ (b ++ ([41] ++ []))))) ++ (w ++ (r ++ t.w₁))) := by
        rw [Top.text, htext]; simp
      rw [e]
      exact Fails.action (Fails.seq (FailsSeq.later e1 hfs))


theorem expr_Input : Pinned.Grammar.rule_0.expr = .choice [inputAlt1, inputAlt2] := rfl

/-- the start rule on a whole input -/
theorem eats_Input (t : Top) (h : t.WF) (rule : String) (off : Nat) (errs : List PErr) :
    ∃ fr', Eats rule Pinned.Grammar.rule_0.expr [] t.text [] off errs fr' (.expr t.val) := by
  rw [expr_Input]
  rcases input_alt1 t h rule off errs with hf | ⟨fr', he⟩
  · exact ⟨_, Eats.choice_next hf (Eats.choice_hit (input_alt2 t h rule off errs))⟩
  · exact ⟨_, Eats.choice_hit he⟩

theorem accepts_of_eats {input : GoString} {v : PVal} {fr' : Frame} (ha : VT input)
    (h : Eats Pinned.Grammar.rule_0.shown Pinned.Grammar.rule_0.expr [] input [] 0 [] fr' v) :
    Accepts E G input v := by
  have h' := h
  unfold Eats at h'
  rw [List.append_nil] at h'
  refine ⟨Pinned.Grammar.rule_0, ptAt [] (0 + input.length), fr', rfl, ?_⟩
  rw [start_next, logRead_vt _ _ _ ha]
  exact h'

/-- **`Input` accepts every well-formed rendering and returns its tree.** -/
theorem accepts_top (t : Top) (h : t.WF) : Accepts E G t.text (.expr t.val) := by
  obtain ⟨fr', he⟩ := eats_Input t h Pinned.Grammar.rule_0.shown 0 []
  exact accepts_of_eats (t.text_vt h) he

/-! ## 7. `not not e` is `e` -/

/-- the tree the parser builds for a rendered tree: every `not not e` folded to `e`, innermost
    first (the code block of `NotExpression`) -/
def norm : Expr → Expr
  | .not e => notFold (norm e)
  | .and l r => .and (norm l) (norm r)
  | .or l r => .or (norm l) (norm r)
  | .match_ s o v => .match_ s o v
  | .coll o s b e => .coll o s b (norm e)

theorem MatchSp.norm_ast (m : MatchSp) : norm m.ast = m.ast := by cases m <;> rfl

theorem Sp.val_eq_norm : ∀ {l : Lvl} (c : Sp l), c.val = norm c.ast
  | _, .orOp l _ _ r => by simp [Sp.val, Sp.ast, norm, l.val_eq_norm, r.val_eq_norm]
  | _, .orUp a => a.val_eq_norm
  | _, .andOp l _ _ r => by simp [Sp.val, Sp.ast, norm, l.val_eq_norm, r.val_eq_norm]
  | _, .andUp n => n.val_eq_norm
  | _, .notOp _ n => by simp [Sp.val, Sp.ast, norm, n.val_eq_norm]
  | _, .paren _ e _ => e.val_eq_norm
  | _, .leaf m => (m.norm_ast).symm
  | _, .coll _ _ _ _ _ _ _ _ body _ => by simp [Sp.val, Sp.ast, norm, body.val_eq_norm]

/-- `norm` is idempotent and leaves `not`-free-of-double trees alone -/
theorem accepts_top_norm (t : Top) (h : t.WF) : Accepts E G t.text (.expr (norm t.ast)) := by
  have := accepts_top t h
  rwa [Top.val, t.c.val_eq_norm] at this

/-- no `not (not _)` anywhere -/
def NoNotNot : Expr → Prop
  | .not (.not _) => False
  | .not e => NoNotNot e
  | .and l r => NoNotNot l ∧ NoNotNot r
  | .or l r => NoNotNot l ∧ NoNotNot r
  | .match_ .. => True
  | .coll _ _ _ e => NoNotNot e

theorem noNotNot_sub {e : Expr} (h : NoNotNot (.not e)) : NoNotNot e := by
  cases e <;> simp_all [NoNotNot]

theorem noNotNot_notFold {x : Expr} (h : NoNotNot x) : NoNotNot (notFold x) := by
  cases x with
  | not y => exact noNotNot_sub h
  | and l r => exact h
  | or l r => exact h
  | match_ s o v => trivial
  | coll o s b e => exact h

theorem norm_noNotNot : ∀ e : Expr, NoNotNot (norm e)
  | .not e => noNotNot_notFold (norm_noNotNot e)
  | .and l r => ⟨norm_noNotNot l, norm_noNotNot r⟩
  | .or l r => ⟨norm_noNotNot l, norm_noNotNot r⟩
  | .match_ .. => trivial
  | .coll _ _ _ e => norm_noNotNot e

theorem notFold_notFold {x : Expr} (h : NoNotNot x) : notFold (notFold x) = x := by
  cases x with
  | not y => cases y <;> simp_all [notFold, NoNotNot]
  | and l r => rfl
  | or l r => rfl
  | match_ s o v => rfl
  | coll o s b e => rfl

/-- `not not e` is `e` -/
theorem norm_not_not (e : Expr) : norm (.not (.not e)) = norm e :=
  notFold_notFold (norm_noNotNot e)

/-- a tree without `not not` is returned as it is -/
theorem norm_id : ∀ e : Expr, NoNotNot e → norm e = e
  | .not e, h => by
    have ih := norm_id e (noNotNot_sub h)
    simp only [norm, ih]
    cases e <;> simp_all [notFold, NoNotNot]
  | .and l r, h => by simp [norm, norm_id l h.1, norm_id r h.2]
  | .or l r, h => by simp [norm, norm_id l h.1, norm_id r h.2]
  | .match_ .., _ => rfl
  | .coll _ _ _ e, h => by simp [norm, norm_id e h]

/-! ## 8. Two canonical renderers

  A tree whose leaves come with a spelling (`STree`) has, among its many renderings, the fully
  parenthesised one (`STree.full`) and the one with the fewest parentheses that the precedence
  `not` > `and` > `or` and right nesting allow (`STree.minimal`). -/

/-- an expression tree with spelled match expressions at the leaves (and spelled selector and
    bindings in quantifiers) -/
inductive STree where
  | not (e : STree)
  | and (l r : STree)
  | or (l r : STree)
  | leaf (m : MatchSp)
  | coll (op : CollOp) (x : SelX) (bind : BindSp) (body : STree)

def STree.ast : STree → Expr
  | .not e => .not e.ast
  | .and l r => .and l.ast r.ast
  | .or l r => .or l.ast r.ast
  | .leaf m => m.ast
  | .coll op x bind body => .coll op x.sel bind.binding body.ast

def STree.LeavesOK : STree → Prop
  | .not e => e.LeavesOK
  | .and l r => l.LeavesOK ∧ r.LeavesOK
  | .or l r => l.LeavesOK ∧ r.LeavesOK
  | .leaf m => m.WF ∧ m.notKwOK
  | .coll _ x bind body => x.WF ∧ x.kwOK ∧ bind.WF ∧ body.LeavesOK

def sp1 : GoString := [32]
theorem blank1_sp1 : Blank1 sp1 := ⟨by decide, by decide⟩
theorem blank_nil : Blank [] := AllIn.nil

/-- every operand of `not` / `and` / `or` in parentheses -/
def STree.full : STree → Sp .or
  | .not e => .orUp (.andUp (.notOp sp1 (.paren [] e.full [])))
  | .and l r => .orUp (.andOp (.paren [] l.full []) sp1 sp1 (.andUp (.paren [] r.full [])))
  | .or l r => .orOp (.andUp (.paren [] l.full [])) sp1 sp1 (.orUp (.andUp (.paren [] r.full [])))
  | .leaf m => .orUp (.andUp (.leaf m))
  | .coll op x bind body => .coll op sp1 x sp1 sp1 bind sp1 sp1 body.full sp1

theorem STree.full_ast : ∀ s : STree, s.full.ast = s.ast
  | .not e => by simp [STree.full, Sp.ast, STree.ast, e.full_ast]
  | .and l r => by simp [STree.full, Sp.ast, STree.ast, l.full_ast, r.full_ast]
  | .or l r => by simp [STree.full, Sp.ast, STree.ast, l.full_ast, r.full_ast]
  | .leaf m => rfl
  | .coll op x bind body => by simp [STree.full, Sp.ast, STree.ast, body.full_ast]

theorem STree.full_WF : ∀ s : STree, s.LeavesOK → s.full.WF
  | .not e, h => ⟨blank1_sp1, blank_nil, e.full_WF h, blank_nil⟩
  | .and l r, h => ⟨⟨blank_nil, l.full_WF h.1, blank_nil⟩, blank1_sp1, blank1_sp1,
      ⟨blank_nil, r.full_WF h.2, blank_nil⟩⟩
  | .or l r, h => ⟨⟨blank_nil, l.full_WF h.1, blank_nil⟩, blank1_sp1, blank1_sp1,
      ⟨blank_nil, r.full_WF h.2, blank_nil⟩⟩
  | .leaf _, h => h
  | .coll _ _ _ body, h => ⟨blank1_sp1, h.1, h.2.1, blank1_sp1, blank1_sp1, h.2.2.1,
      blank1_sp1.2, blank1_sp1.2, body.full_WF h.2.2.2, blank1_sp1.2, fun _ => blank1_sp1.1⟩

mutual
/-- as an operand of `not` or a left operand of `and`: compound trees need parentheses -/
def STree.minNot : STree → Sp .not
  | .not e => .notOp sp1 e.minNot
  | .and l r => .paren [] (.orUp (.andOp l.minNot sp1 sp1 r.minAnd)) []
  | .or l r => .paren [] (.orOp l.minAnd sp1 sp1 r.minOr) []
  | .leaf m => .leaf m
  | .coll op x bind body => .paren [] (.coll op sp1 x sp1 sp1 bind sp1 sp1 body.minOr sp1) []
/-- as a right operand of `and` or a left operand of `or`: only `or` needs parentheses -/
def STree.minAnd : STree → Sp .and
  | .not e => .andUp (.notOp sp1 e.minNot)
  | .and l r => .andOp l.minNot sp1 sp1 r.minAnd
  | .or l r => .andUp (.paren [] (.orOp l.minAnd sp1 sp1 r.minOr) [])
  | .leaf m => .andUp (.leaf m)
  | .coll op x bind body =>
    .andUp (.paren [] (.coll op sp1 x sp1 sp1 bind sp1 sp1 body.minOr sp1) [])
/-- at the top, inside parentheses, as a right operand of `or`: no parentheses -/
def STree.minOr : STree → Sp .or
  | .not e => .orUp (.andUp (.notOp sp1 e.minNot))
  | .and l r => .orUp (.andOp l.minNot sp1 sp1 r.minAnd)
  | .or l r => .orOp l.minAnd sp1 sp1 r.minOr
  | .leaf m => .orUp (.andUp (.leaf m))
  | .coll op x bind body => .coll op sp1 x sp1 sp1 bind sp1 sp1 body.minOr sp1
end

theorem STree.min_ast : ∀ s : STree,
    s.minNot.ast = s.ast ∧ s.minAnd.ast = s.ast ∧ s.minOr.ast = s.ast
  | .not e => by
    obtain ⟨h1, _, _⟩ := e.min_ast
    simp [STree.minNot, STree.minAnd, STree.minOr, Sp.ast, STree.ast, h1]
  | .and l r => by
    obtain ⟨h1, _, _⟩ := l.min_ast
    obtain ⟨_, h2, _⟩ := r.min_ast
    simp [STree.minNot, STree.minAnd, STree.minOr, Sp.ast, STree.ast, h1, h2]
  | .or l r => by
    obtain ⟨_, h1, _⟩ := l.min_ast
    obtain ⟨_, _, h2⟩ := r.min_ast
    simp [STree.minNot, STree.minAnd, STree.minOr, Sp.ast, STree.ast, h1, h2]
  | .leaf m => by simp [STree.minNot, STree.minAnd, STree.minOr, Sp.ast, STree.ast]
  | .coll op x bind body => by
    obtain ⟨_, _, h1⟩ := body.min_ast
    simp [STree.minNot, STree.minAnd, STree.minOr, Sp.ast, STree.ast, h1]

theorem STree.min_WF : ∀ s : STree, s.LeavesOK →
    s.minNot.WF ∧ s.minAnd.WF ∧ s.minOr.WF
  | .not e, h => by
    obtain ⟨h1, _, _⟩ := e.min_WF h
    exact ⟨⟨blank1_sp1, h1⟩, ⟨blank1_sp1, h1⟩, ⟨blank1_sp1, h1⟩⟩
  | .and l r, h => by
    obtain ⟨h1, _, _⟩ := l.min_WF h.1
    obtain ⟨_, h2, _⟩ := r.min_WF h.2
    exact ⟨⟨blank_nil, ⟨h1, blank1_sp1, blank1_sp1, h2⟩, blank_nil⟩,
      ⟨h1, blank1_sp1, blank1_sp1, h2⟩, ⟨h1, blank1_sp1, blank1_sp1, h2⟩⟩
  | .or l r, h => by
    obtain ⟨_, h1, _⟩ := l.min_WF h.1
    obtain ⟨_, _, h2⟩ := r.min_WF h.2
    exact ⟨⟨blank_nil, ⟨h1, blank1_sp1, blank1_sp1, h2⟩, blank_nil⟩,
      ⟨blank_nil, ⟨h1, blank1_sp1, blank1_sp1, h2⟩, blank_nil⟩,
      ⟨h1, blank1_sp1, blank1_sp1, h2⟩⟩
  | .leaf m, h => ⟨h, h, h⟩
  | .coll op x bind body, h => by
    obtain ⟨_, _, h1⟩ := body.min_WF h.2.2.2
    have hc : (Sp.coll op sp1 x sp1 sp1 bind sp1 sp1 body.minOr sp1).WF :=
      ⟨blank1_sp1, h.1, h.2.1, blank1_sp1, blank1_sp1, h.2.2.1, blank1_sp1.2, blank1_sp1.2, h1,
        blank1_sp1.2, fun _ => blank1_sp1.1⟩
    exact ⟨⟨blank_nil, hc, blank_nil⟩, ⟨blank_nil, hc, blank_nil⟩, hc⟩

/-- the fully parenthesised text of a tree parses back to the tree (`not not` folded) -/
theorem accepts_full (s : STree) (h : s.LeavesOK) :
    Accepts E G (Top.text ⟨[], s.full, []⟩) (.expr (norm s.ast)) := by
  have := accepts_top_norm ⟨[], s.full, []⟩ ⟨blank_nil, s.full_WF h, blank_nil⟩
  rwa [Top.ast, s.full_ast] at this

/-- the minimally parenthesised text of a tree parses back to the tree: `not` binds tighter
    than `and`, `and` tighter than `or`, chains group to the right -/
theorem accepts_minimal (s : STree) (h : s.LeavesOK) :
    Accepts E G (Top.text ⟨[], s.minOr, []⟩) (.expr (norm s.ast)) := by
  have := accepts_top_norm ⟨[], s.minOr, []⟩ ⟨blank_nil, (s.min_WF h).2.2, blank_nil⟩
  rwa [Top.ast, (s.min_ast).2.2] at this

end Bexpr.Proofs.RoundTrip
