/-
  bxdriver — the model side of the correspondence check: reads request lines on stdin until EOF,
  prints one answer line per input line.  Protocol: see Bexpr/Driver.lean.
-/
import Bexpr.Driver

def chompLine (line : String) : String :=
  let cs := line.toList.reverse
  let cs := match cs with
    | '\n' :: t => t
    | _ => cs
  let cs := match cs with
    | '\r' :: t => t
    | _ => cs
  String.ofList cs.reverse

partial def mainLoop (stdin stdout : IO.FS.Stream) : IO Unit := do
  let line ← stdin.getLine
  if line.isEmpty then
    pure ()
  else
    stdout.putStrLn (Bexpr.Driver.handle (chompLine line))
    mainLoop stdin stdout

def main : IO Unit := do
  let stdin ← IO.getStdin
  let stdout ← IO.getStdout
  mainLoop stdin stdout
  stdout.flush
