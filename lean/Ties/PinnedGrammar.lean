/-
  Tie (C15, C16, C07, C10, C06): the grammar table and the code blocks regenerated from /repo on
  this run are the pinned ones the language-level theorems and the expected-tree oracle refer to.
-/
import BexprGen.GoGrammar
import BexprGen.GoActions
import Bexpr.Peg.PinnedGrammar
import Bexpr.Peg.PinnedActions

namespace Bexpr.Ties.PinnedGrammar

theorem grammar_is_pinned : BexprGen.GoGrammar.grammar = Bexpr.Peg.Pinned.Grammar.grammar := rfl

theorem actions_are_pinned : BexprGen.GoActions.actions = Bexpr.Peg.Pinned.Actions.actions := rfl

end Bexpr.Ties.PinnedGrammar
