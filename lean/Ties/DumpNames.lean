/-
  Tie (C19): operator / binding / collection names, the set of operators whose value is printed and
  what the ExpressionDump methods write — extracted from grammar/ast.go on this run — agree with
  the model (Bexpr/Eval/Dump.lean).

  The fmt format strings themselves (`BexprGen.Tables.dumpFormats`, still extracted for the reader)
  are deliberately NOT pinned: the same output can be spelled with many format strings
  (`%[1]s…%[1]s` with inline arguments vs. `%s…%s` with locals).  Pinned instead are the TEMPLATES
  computed from them (`BexprGen.Tables.dumpTemplates`, xlate/facts_dump.go): the sequence of literal
  texts, (verb, argument) pairs and recursive dumps each method writes, with argument indices
  resolved, single-assignment locals inlined and the pieces before / in / after the operator switch
  of `MatchExpression` put in a row per operator.  `CollectionNameBinding.String` and
  `Selector.String` are not pinned here (`BexprGen.Tables.selectorString` is informational); their
  output is compared with the model's `bindingString` / `Selector.render` by the dump harness.
-/
import BexprGen.Tables
import Bexpr.Eval.Dump
import Ties.Dispatch

namespace Bexpr.Ties.DumpNames
open Bexpr Bexpr.Dump Bexpr.Ties.Dispatch

def lookup (tbl : List (String × String)) (k : String) : Option String :=
  (tbl.find? (·.1 == k)).map (·.2)

theorem match_op_names :
    MatchOp.all.all (fun op => lookup BexprGen.Tables.matchOpStrings (goName op) == some (matchOpName op)) = true := by
  decide +kernel

theorem connective_names :
    lookup BexprGen.Tables.unaryOpStrings "UnaryOpNot" = some "Not" ∧
    lookup BexprGen.Tables.binaryOpStrings "BinaryOpAnd" = some "And" ∧
    lookup BexprGen.Tables.binaryOpStrings "BinaryOpOr" = some "Or" := by
  decide +kernel

theorem binding_and_collection_names :
    lookup BexprGen.Tables.bindModeStrings "CollectionBindDefault" = some (bindModeName .default) ∧
    lookup BexprGen.Tables.bindModeStrings "CollectionBindIndex" = some (bindModeName .index) ∧
    lookup BexprGen.Tables.bindModeStrings "CollectionBindValue" = some (bindModeName .value) ∧
    lookup BexprGen.Tables.bindModeStrings "CollectionBindIndexAndValue" = some (bindModeName .indexAndValue) ∧
    lookup BexprGen.Tables.collOpStrings "CollectionOpAll" = some (collOpName .all) ∧
    lookup BexprGen.Tables.collOpStrings "CollectionOpAny" = some (collOpName .any) := by
  decide +kernel

theorem prints_value_set :
    MatchOp.all.all (fun op => BexprGen.Tables.dumpPrintsValue.contains (goName op) == printsValue op) = true ∧
    BexprGen.Tables.dumpPrintsValue.length = 4 := by
  decide +kernel

/-! ### what the ExpressionDump methods write -/

def templateOf (k : String) : Option (List String) :=
  (BexprGen.Tables.dumpTemplates.find? (·.1 == k)).map (·.2)

/-- `repeatStr indent level` / `repeatStr indent (level + 1)` of the model -/
def li : String := "%s:strings.Repeat(indent, level)"
def li1 : String := "%s:strings.Repeat(indent, level+1)"

/-- the template of the model's `.match_` case: header, selector line, value line (quoted with
    `%q` = `Strconv.quote`) for the operators that print their value, closing brace -/
def matchTemplate (withValue : Bool) : List String :=
  [li, "%s:expr.Operator.String()", "text: {\n", li1, "text:Selector: ", "%v:expr.Selector", "text:\n"] ++
  (if withValue then [li1, "text:Value: ", "%q:expr.Value.Raw", "text:\n"] else []) ++
  [li, "text:}\n"]

/-- the clause of `MatchExpression.ExpressionDump` that handles an operator: its own, else the default -/
def matchTemplateOf (op : MatchOp) : Option (List String) :=
  match templateOf ("MatchExpression/" ++ goName op) with
  | some t => some t
  | none => templateOf "MatchExpression/default"

/-- the four ExpressionDump methods write what the model's `dump` concatenates -/
theorem dump_templates :
    templateOf "UnaryExpression" =
      some [li, "%s:expr.Operator.String()", "text: {\n", "dump:expr.Operand", li, "text:}\n"] ∧
    templateOf "BinaryExpression" =
      some [li, "%s:expr.Operator.String()", "text: {\n", "dump:expr.Left", "dump:expr.Right", li, "text:}\n"] ∧
    templateOf "CollectionExpression" =
      some [li, "%s:expr.Op", "text: ", "%s:expr.NameBinding.String()", "text: on ", "%v:expr.Selector",
            "text: {\n", "dump:expr.Inner", li, "text:}\n"] ∧
    MatchOp.all.all (fun op => matchTemplateOf op == some (matchTemplate (printsValue op))) = true := by
  decide +kernel

end Bexpr.Ties.DumpNames
