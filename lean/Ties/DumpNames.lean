/-
  Tie (C19): operator / binding / collection names, the set of operators whose value is printed and
  the format strings of the ExpressionDump methods — extracted from grammar/ast.go on this run —
  agree with the model (Bexpr/Eval/Dump.lean).
-/
import BexprGen.Tables
import Bexpr.Eval.Dump
import Ties.Dispatch

namespace Bexpr.Ties.DumpNames
open Bexpr Bexpr.Dump Bexpr.Ties.Dispatch

def lookup (tbl : List (String × String)) (k : String) : Option String :=
  (tbl.find? (·.1 == k)).map (·.2)

theorem match_op_names :
    MatchOp.all.all (fun op => lookup BexprGen.Tables.matchOpStrings (goName op) == some (matchOpName op)) = true := by
  decide +kernel

theorem connective_names :
    lookup BexprGen.Tables.unaryOpStrings "UnaryOpNot" = some "Not" ∧
    lookup BexprGen.Tables.binaryOpStrings "BinaryOpAnd" = some "And" ∧
    lookup BexprGen.Tables.binaryOpStrings "BinaryOpOr" = some "Or" := by
  decide +kernel

theorem binding_and_collection_names :
    lookup BexprGen.Tables.bindModeStrings "CollectionBindDefault" = some (bindModeName .default) ∧
    lookup BexprGen.Tables.bindModeStrings "CollectionBindIndex" = some (bindModeName .index) ∧
    lookup BexprGen.Tables.bindModeStrings "CollectionBindValue" = some (bindModeName .value) ∧
    lookup BexprGen.Tables.bindModeStrings "CollectionBindIndexAndValue" = some (bindModeName .indexAndValue) ∧
    lookup BexprGen.Tables.collOpStrings "CollectionOpAll" = some (collOpName .all) ∧
    lookup BexprGen.Tables.collOpStrings "CollectionOpAny" = some (collOpName .any) := by
  decide +kernel

theorem prints_value_set :
    MatchOp.all.all (fun op => BexprGen.Tables.dumpPrintsValue.contains (goName op) == printsValue op) = true ∧
    BexprGen.Tables.dumpPrintsValue.length = 4 := by
  decide +kernel

/-- the format strings the model's concatenations were written against -/
theorem dump_formats :
    BexprGen.Tables.dumpFormats =
      [("UnaryExpression", "%s%s {\n"), ("UnaryExpression", "%s}\n"),
       ("BinaryExpression", "%s%s {\n"), ("BinaryExpression", "%s}\n"),
       ("MatchExpression", "%[1]s%[3]s {\n%[2]sSelector: %[4]v\n%[2]sValue: %[5]q\n%[1]s}\n"),
       ("MatchExpression", "%[1]s%[3]s {\n%[2]sSelector: %[4]v\n%[1]s}\n"),
       ("CollectionNameBinding", "%v (%s)"), ("CollectionNameBinding", "%v (%s)"),
       ("CollectionNameBinding", "%v (%s)"), ("CollectionNameBinding", "%v (%s, %s)"),
       ("CollectionNameBinding", "UNKNOWN (%s, %s, %s)"),
       ("CollectionExpression", "%s%s %s on %v {\n"), ("CollectionExpression", "%s}\n")] := by
  decide +kernel

end Bexpr.Ties.DumpNames
