/-
  Tie (C04, C09, C01), second stage of the semantic tie: the operator dispatch of
  `evaluateMatchExpression`, checked on the GoLite term REGENERATED from the source
  (`BexprGen/GoLiteGen.lean`) by interpreting it (`Bexpr/GoLite/Interp.lean`).

  Scenario: the node is a match node with operator `op`; `getValue` is a leaf answering
  `(val, true, nil)` (present), `(nil, false, nil)` (absent key) or `(nil, false, err)`; the value is
  not a `json.Number`; `reflect.ValueOf` / `reflect.Indirect` are symbolic; the `doMatch*` function
  answers one of the four results.  For each of the eight operators and each answer:
    * the result is the leaf's result for the positive operators and, for the negated ones, the
      model's `negate` of it (`!result` without error, `(false, err)` with the leaf's error);
    * exactly one `doMatch*` function is called — the one the model dispatches to — with the node and
      `reflect.Indirect(reflect.ValueOf(val))`; `getValue` is called once with the unmodified `datum`,
      the node's `Selector.Path` and `opt...`;
    * an absent key returns `(expression.Operator.NotPresentDisposition(), nil)`, an error of
      `getValue` returns `(false, err)`, both without calling a `doMatch*` function;
    * an unknown operator returns `(false, <new error>)`.
  These are the facts `Ties/Dispatch.lean` states on extracted "dispatch shapes", now as meaning.
-/
import BexprGen.GoLiteGen
import Ties.GoLiteScenario
import Bexpr.Eval.Impl

namespace Bexpr.Ties.MatchSem
open Bexpr Bexpr.Eval Bexpr.GoLite Bexpr.Ties.Scenario

/-! ### the model's dispatch, by operator -/

def goName : MatchOp → String
  | .equal => "MatchEqual" | .notEqual => "MatchNotEqual" | .in_ => "MatchIn" | .notIn => "MatchNotIn"
  | .isEmpty => "MatchIsEmpty" | .isNotEmpty => "MatchIsNotEmpty" | .matches => "MatchMatches"
  | .notMatches => "MatchNotMatches"

def leafOf : MatchOp → String
  | .equal | .notEqual => "doMatchEqual"
  | .in_ | .notIn => "doMatchIn"
  | .isEmpty | .isNotEmpty => "doMatchIsEmpty"
  | .matches | .notMatches => "doMatchMatches"

def negated : MatchOp → Bool
  | .notEqual | .notIn | .isNotEmpty | .notMatches => true
  | _ => false

/-- the model's `doMatch*` functions by their Go names -/
def modelLeaf (re : RegexOracle) (raw : Option GoString) (rv : Go.RV) (name : String) : Out :=
  if name = "doMatchEqual" then doMatchEqual raw rv
  else if name = "doMatchIn" then doMatchIn raw rv
  else if name = "doMatchIsEmpty" then doMatchIsEmpty rv
  else doMatchMatches re raw rv

/-- `leafOf` / `negated` ARE the dispatch of the model (`Eval.evaluateMatch`) -/
theorem model_dispatch (re : RegexOracle) (o : Opts) (d : Go.Any) (sel : Selector) (op : MatchOp)
    (raw : Option GoString) (v v' : Go.Any)
    (hg : getValue o d sel.path = .present v) (hn : narrowJsonNumber v = .ok v') :
    evaluateMatch re o d sel op raw =
      (if negated op then negate (modelLeaf re raw (Go.indirect (Go.valueOf v')) (leafOf op))
       else modelLeaf re raw (Go.indirect (Go.valueOf v')) (leafOf op)) := by
  unfold evaluateMatch
  rw [hg]
  simp only [hn]
  cases op <;> simp [negated, leafOf, modelLeaf]

/-! ### scenarios -/

inductive GV where
  | present | absent | error
  deriving DecidableEq, Repr

def leaves2 : List String :=
  ["evaluate", "evaluateCollectionExpression"] ++ BexprGen.GoLiteGen.leaves

def isDoMatch (name : String) : Bool :=
  name == "doMatchEqual" || name == "doMatchIn" || name == "doMatchIsEmpty" || name == "doMatchMatches"

def oracle2 (gv : GV) (a : Ans) : Oracle := fun pkg name args =>
  if pkg == "" then
    if name == "getValue" then
      match gv with
      | .present => some [.opaque "val", .bool true, .nil]
      | .absent => some [.nil, .bool false, .nil]
      | .error => some [.nil, .bool false, .err "errGV"]
    else if isDoMatch name then some (a.vals "errM")
    else none
  else if pkg == ".(type)" then
    -- the value is of no type the code asks for (in particular not a json.Number)
    some [.app pkg name (Val.ofList args), .bool false]
  else if pkg == "reflect" && (name == "ValueOf" || name == "Indirect") then
    some [.app pkg name (Val.ofList args)]
  else if pkg == "." && name == "NotPresentDisposition" then
    some [.app pkg name (Val.ofList args)]
  else none

def cfg2 (gv : GV) (a : Ans) : Cfg :=
  { funcs := BexprGen.GoLiteGen.funcs, leaves := leaves2, oracle := oracle2 gv a }

/-- calls without effect: making an error value, `reflect.ValueOf/Indirect`, type assertions -/
def pureCall (c : Call) : Bool := c.pkg == "error" || c.pkg == "reflect" || c.pkg == ".(type)"

def observe2 : Run → Seen
  | .done r log => .ok ⟨r, log.filter (!pureCall ·)⟩
  | .stuck m => .stuck m

def matchOn (gv : GV) (a : Ans) (opName : String) : Seen :=
  observe2 (run (cfg2 gv a) fuel "evaluateMatchExpression" [.node (.match_ opName), datum, opt] true)

def app1 (pkg name : String) (v : Val) : Val := .app pkg name (.cons v .unit)

/-- `getValue(datum, expression.Selector.Path, opt...)` -/
def getValueCall (opName : String) : Call :=
  ⟨"", "getValue", [datum, app1 "." "Path" (app1 "." "Selector" (.node (.match_ opName))), opt], true⟩

/-- `reflect.Indirect(reflect.ValueOf(val))` -/
def rvalue : Val := app1 "reflect" "Indirect" (app1 "reflect" "ValueOf" (.opaque "val"))

def expectPresent (op : MatchOp) (a : Ans) : Obs :=
  ⟨ofOut "errM" (if negated op then negate a.out else a.out),
   [getValueCall (goName op), ⟨"", leafOf op, [.node (.match_ (goName op)), rvalue], false⟩]⟩

def expectAbsent (op : MatchOp) : Obs :=
  ⟨[app1 "." "NotPresentDisposition" (.opc (goName op)), .nil],
   [getValueCall (goName op), ⟨".", "NotPresentDisposition", [.opc (goName op)], false⟩]⟩

def expectError (op : MatchOp) : Obs :=
  ⟨[.bool false, .err "errGV"], [getValueCall (goName op)]⟩

def failingDispatch : List Failure :=
  MatchOp.all.flatMap fun op => Ans.all.flatMap fun a =>
    compare (goName op ++ ": value present, " ++ leafOf op ++ " answers " ++ ansName a)
      (matchOn .present a (goName op)) (expectPresent op a)

def failingAbsent : List Failure :=
  MatchOp.all.flatMap fun op =>
    compare (goName op ++ ": key absent") (matchOn .absent .t (goName op)) (expectAbsent op)
    ++ compare (goName op ++ ": getValue fails") (matchOn .error .t (goName op)) (expectError op)

def failingUnknownOp : List Failure :=
  match matchOn .present .t "MatchOther" with
  | .ok ⟨[.bool false, .err _], [c]⟩ =>
    if c = getValueCall "MatchOther" then [] else [⟨"unknown operator", "only getValue is called", showCall c⟩]
  | got => [⟨"unknown operator", "(false, <new error>), only getValue is called", showObs got⟩]

/-! ### the obligations (kernel-evaluated on the regenerated term) -/

theorem all_supported : unsupportedIn "evaluateMatchExpression" = [] := by decide +kernel

theorem dispatch_sem : failingDispatch = [] := by decide +kernel

theorem absent_sem : failingAbsent = [] := by decide +kernel

theorem unknown_operator_sem : failingUnknownOp = [] := by decide +kernel

/-- on outcomes: the interpreted code returns the model's dispatch result -/
theorem dispatch_refines_model (op : MatchOp) (a : Ans) :
    (matchOn .present a (goName op)).result?.bind outOf
      = some (if negated op then negate a.out else a.out) := by
  cases op <;> cases a <;> decide +kernel

/-! ### witnesses -/

def failingCombos : List Failure := failingDispatch ++ failingAbsent ++ failingUnknownOp

#eval IO.println (report "MatchSem" failingCombos)
#eval IO.println (reportUnsupported "MatchSem" "evaluateMatchExpression")

end Bexpr.Ties.MatchSem
