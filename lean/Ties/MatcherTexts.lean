/-
  Tie (C20, C15): the matcher texts regenerated on this run by `xlate failnames` — no two matcher
  nodes with the same content
  carry different texts (the lookup is by content), every matcher node of the regenerated rule
  table has a text, and the texts derived from `grammar.peg` (the way pigeon's builder derives
  them) are the ones written in `grammar.go`.

  Deliberately NOT compared with the pinned wording (`Bexpr/Peg/PinnedFailNames.lean`): a commit
  that rewords a message changes the model's message with it and breaks nothing.
-/
import BexprGen.FailNames
import BexprGen.GoGrammar
import BexprGen.PegGrammar

namespace Bexpr.Ties.MatcherTexts
open Bexpr Bexpr.Peg

theorem no_conflicts :
    BexprGen.FailNames.goConflicts.isEmpty = true ∧ BexprGen.FailNames.pegConflicts.isEmpty = true := by
  decide +kernel

theorem go_table_covered :
    tableCovers BexprGen.FailNames.goWants BexprGen.GoGrammar.grammar = true := by decide +kernel

theorem peg_table_covered :
    tableCovers BexprGen.FailNames.pegWants BexprGen.PegGrammar.grammar = true := by decide +kernel

theorem peg_texts_eq_go_texts :
    tablesAgree BexprGen.FailNames.pegWants BexprGen.FailNames.goWants = true := by decide +kernel

/-- non-vacuity: the tables are not empty -/
example : BexprGen.FailNames.goWants.isEmpty = false ∧ BexprGen.FailNames.pegWants.isEmpty = false := by
  decide +kernel

end Bexpr.Ties.MatcherTexts
