/-
  Tie (C03, C09): the three connective branches of `evaluate` in evaluate.go, token for token, are
  the code the model's `evaluate` (.not / .and / .or cases) was written against.  Regenerated from
  the source on every run (`BexprGen.Tables.evaluateBranches`); a changed branch breaks this
  obligation and the check then searches for a failing input with the `conn` fragment.
-/
import BexprGen.Tables

namespace Bexpr.Ties.EvaluateShape

def lookup (k : String) : List String :=
  match BexprGen.Tables.evaluateBranches.find? (·.1 == k) with
  | some (_, v) => v
  | none => []

/-- `result, err := evaluate(node.Operand, …); if err != nil { return false, err }; return !result, nil` -/
theorem not_branch : lookup "UnaryOpNot" =
    ["result", ",", "err", ":=", "evaluate", "(", "node", ".", "Operand", ",", "datum", ",", "opt", "...", ")",
     "if", "err", "!=", "nil", "{", "return", "false", ",", "err", "}", "return", "!", "result", ",", "nil"] := by
  decide +kernel

/-- `result, err := evaluate(node.Left, …); if err != nil || !result { return result, err }; return evaluate(node.Right, …)` -/
theorem and_branch : lookup "BinaryOpAnd" =
    ["result", ",", "err", ":=", "evaluate", "(", "node", ".", "Left", ",", "datum", ",", "opt", "...", ")",
     "if", "err", "!=", "nil", "||", "!", "result", "{", "return", "result", ",", "err", "}",
     "return", "evaluate", "(", "node", ".", "Right", ",", "datum", ",", "opt", "...", ")"] := by
  decide +kernel

theorem or_branch : lookup "BinaryOpOr" =
    ["result", ",", "err", ":=", "evaluate", "(", "node", ".", "Left", ",", "datum", ",", "opt", "...", ")",
     "if", "err", "!=", "nil", "||", "result", "{", "return", "result", ",", "err", "}",
     "return", "evaluate", "(", "node", ".", "Right", ",", "datum", ",", "opt", "...", ")"] := by
  decide +kernel

theorem leaf_branches :
    lookup "MatchExpression" = ["return", "evaluateMatchExpression", "(", "node", ",", "datum", ",", "opt", "...", ")"] ∧
    lookup "CollectionExpression" = ["return", "evaluateCollectionExpression", "(", "node", ",", "datum", ",", "opt", "...", ")"] := by
  decide +kernel

end Bexpr.Ties.EvaluateShape
