/-
  Tie (C12, C13): every statement that can write non-local memory in a function reachable from
  `(*Evaluator).Evaluate` / `(*Filter).Execute` — as extracted from /repo on this run — is one of
  the sites classified call-local in `Bexpr/Eval/Effects.lean`, every appended-to slice there has
  a fresh origin, there are no package-level variables written, no goroutines / channels / sync,
  and the one AST write (`precompileRegexps`) is reachable from creation only.
-/
import BexprGen.Effects
import Bexpr.Eval.Effects

namespace Bexpr.Ties.Effects
open Bexpr.Eval.Effects

def fromEvaluate (fn : String) : Bool := BexprGen.Effects.reachableFromEvaluate.contains fn

theorem no_shared_write_in_evaluate :
    BexprGen.Effects.storeSites.all (fun s => !fromEvaluate s.1 || isLocalSite s) = true := by
  decide +kernel

theorem append_targets_fresh :
    BexprGen.Effects.appendOrigins.all (fun o => !fromEvaluate o.1 || freshOrigins.contains o) = true := by
  decide +kernel

/-- the regexp cache is written at creation time only -/
theorem ast_write_only_at_creation :
    fromEvaluate "precompileRegexps" = false ∧ fromEvaluate "CreateEvaluator" = false ∧
    BexprGen.Effects.reachable.contains "precompileRegexps" = true := by
  decide +kernel

/-- the only package-level variable is the read-only `byteSliceTyp` -/
theorem globals_readonly :
    BexprGen.Effects.globals = [("byteSliceTyp", "reflect.TypeOf([]byte{})")] := by
  decide +kernel

/-- Evaluate rebuilds its options from the evaluator's fields on every call -/
theorem evaluate_rebuilds_options :
    BexprGen.Effects.evaluateOptsBuilt =
      ["WithTagName(eval.tagName)", "WithHookFn(eval.valueTransformationHook)",
       "if eval.unknownVal != nil: WithUnknownValue(*eval.unknownVal)"] ∧
    BexprGen.Effects.evaluatorFields = ["ast", "tagName", "valueTransformationHook", "unknownVal", "expression"] := by
  decide +kernel

end Bexpr.Ties.Effects
