/-
  Tie (C12, C13): every statement that can write non-local memory in a function reachable from
  `(*Evaluator).Evaluate` / `(*Filter).Execute` — as extracted from /repo on this run — has a
  class that `Bexpr/Eval/Effects.lean` explains to be call-local (it writes memory held by a fresh
  local, or it is one of the Option setters writing the options struct of `getOpts`), every
  appended-to slice there has fresh origins only, there are no package-level variables written, no
  goroutines / channels / sync, and the one AST write (`precompileRegexps`) is reachable from
  creation only.  The classes are computed by xlate (facts_effects.go); the source text of a site is
  not compared.
-/
import BexprGen.Effects
import Bexpr.Eval.Effects

namespace Bexpr.Ties.Effects
open Bexpr.Eval.Effects

def fromEvaluate (fn : String) : Bool := BexprGen.Effects.reachableFromEvaluate.contains fn

theorem no_shared_write_in_evaluate :
    BexprGen.Effects.storeSites.all (fun s => !fromEvaluate s.1 || isLocalSite s) = true := by
  decide +kernel

theorem append_targets_fresh :
    BexprGen.Effects.appendOrigins.all (fun o => !fromEvaluate o.1 || isFreshOrigin o) = true := by
  decide +kernel

/-- the regexp cache is written at creation time only -/
theorem ast_write_only_at_creation :
    fromEvaluate "precompileRegexps" = false ∧ fromEvaluate "CreateEvaluator" = false ∧
    BexprGen.Effects.reachable.contains "precompileRegexps" = true := by
  decide +kernel

/-- every package-level variable is initialised with a value the code can only READ: a `reflect.Type`, an
    `errors.New` value, a basic literal, or a table from reflect kinds to function names (a store into such a
    table would be a `shared` store site, which the class obligations above exclude).  A `sync.Pool`, a
    `sync.Map`, a cache, a counter, a buffer — anything else — has no class and fails here. -/
theorem globals_immutable :
    BexprGen.Effects.globalClasses.all
      (fun g => ["typeOf", "errorsNew", "basic", "kindFnTable"].contains g.2) = true ∧
    BexprGen.Effects.globalClasses.length = BexprGen.Effects.globals.length := by
  decide +kernel

/-- Evaluate rebuilds its options from the evaluator's fields on every call: exactly these three
    options, in any order (they set three different fields: `Ties.Options.setters_own_field`) -/
theorem evaluate_rebuilds_options :
    BexprGen.Effects.evaluateOptsBuilt.length = 3 ∧
    ["WithTagName(eval.tagName)", "WithHookFn(eval.valueTransformationHook)",
     "if eval.unknownVal != nil: WithUnknownValue(*eval.unknownVal)"].all
      BexprGen.Effects.evaluateOptsBuilt.contains = true ∧
    BexprGen.Effects.evaluatorFields = ["ast", "tagName", "valueTransformationHook", "unknownVal", "expression"] := by
  decide +kernel

end Bexpr.Ties.Effects
