/-
  Tie (C04, C05, C01): the operator dispatch of `evaluateMatchExpression` and the
  `NotPresentDisposition` table, extracted from the source as order-insensitive facts, agree with
  the model (`Eval.evaluateMatch`, `Eval.notPresentDisposition`).
-/
import BexprGen.Tables
import Bexpr.Eval.Impl

namespace Bexpr.Ties.Dispatch
open Bexpr Bexpr.Eval

def goName : MatchOp → String
  | .equal => "MatchEqual" | .notEqual => "MatchNotEqual" | .in_ => "MatchIn" | .notIn => "MatchNotIn"
  | .isEmpty => "MatchIsEmpty" | .isNotEmpty => "MatchIsNotEmpty" | .matches => "MatchMatches"
  | .notMatches => "MatchNotMatches"

/-- shape of the model's dispatch: which `doMatch*` function, negated or not -/
def modelDispatch : MatchOp → String × String
  | .equal => ("direct", "doMatchEqual") | .notEqual => ("negated", "doMatchEqual")
  | .in_ => ("direct", "doMatchIn") | .notIn => ("negated", "doMatchIn")
  | .isEmpty => ("direct", "doMatchIsEmpty") | .isNotEmpty => ("negated", "doMatchIsEmpty")
  | .matches => ("direct", "doMatchMatches") | .notMatches => ("negated", "doMatchMatches")

def dispatchOf (name : String) : Option (String × String) :=
  (BexprGen.Tables.matchDispatch.find? (·.1 == name)).map (·.2)

/-- every operator is dispatched as the model does it; the table has exactly the eight
    operators and an erroring default -/
theorem dispatch_agrees :
    MatchOp.all.all (fun op => dispatchOf (goName op) == some (modelDispatch op)) = true ∧
    BexprGen.Tables.matchDispatch.length = 9 ∧
    dispatchOf "default" = some ("error", "") := by
  decide +kernel

def npdOf (name : String) : Option Bool :=
  (BexprGen.Tables.notPresent.find? (·.1 == name)).map (·.2)

/-- the per-operator result for an absent map key -/
theorem notPresent_agrees :
    MatchOp.all.all (fun op => npdOf (goName op) == some (notPresentDisposition op)) = true ∧
    BexprGen.Tables.notPresent.length = 9 := by
  decide +kernel

/-- the operator constants are declared in the order the model's `MatchOp` lists them (iota) -/
theorem operator_order : BexprGen.Tables.matchOpOrder = MatchOp.all.map goName := by
  decide +kernel

end Bexpr.Ties.Dispatch
