/-
  Tie (C18, C11, C10): option setters, defaults and the plumbing of CreateEvaluator / Evaluate /
  newParser — extracted from options.go, bexpr.go, grammar/grammar.go on this run — agree with
  the model (Bexpr/Eval/Create.lean: `Opt.apply`, `defaultOptions`, `getOpts`, `createEvaluator`;
  Bexpr/Peg/Engine.lean: `effectiveMax`, the tick at the top of `eval`).
-/
import BexprGen.Options
import BexprGen.Effects
import Bexpr.Eval.Create

namespace Bexpr.Ties.Options

/-- each With* option assigns exactly its own field -/
theorem setters_own_field :
    BexprGen.Options.setters.length = 5 ∧
    BexprGen.Options.setters.contains ("WithMaxExpressions", ["withMaxExpressions"]) = true ∧
    BexprGen.Options.setters.contains ("WithTagName", ["withTagName"]) = true ∧
    BexprGen.Options.setters.contains ("WithHookFn", ["withHookFn"]) = true ∧
    BexprGen.Options.setters.contains ("WithUnknownValue", ["withUnknown"]) = true ∧
    BexprGen.Options.setters.contains ("WithLocalVariable", ["withLocalVariables+append"]) = true := by
  decide +kernel

/-- defaults (of the function `getOpts` starts from): budget 0, tag "bexpr", no hook, no unknown
    value, no local variables.  The table lists every field of struct `options`: the value the
    defaults literal gives it or, for a field the literal leaves out, the zero value of its type
    (`zero(T)` for a named type T: the hook's type is a function type of pointerstructure). -/
theorem defaults_agree :
    BexprGen.Options.defaults.length = 5 ∧
    BexprGen.Options.defaults.contains ("withMaxExpressions", "0") = true ∧
    BexprGen.Options.defaults.contains ("withTagName", "\"bexpr\"") = true ∧
    BexprGen.Options.defaults.contains ("withHookFn", "zero(ValueTransformationHookFn)") = true ∧
    BexprGen.Options.defaults.contains ("withUnknown", "nil") = true ∧
    BexprGen.Options.defaults.contains ("withLocalVariables", "nil") = true ∧
    BexprGen.Options.optionsFields.length = 5 := by
  decide +kernel

/-- getOpts is `opts := F(); for _, o := range opt { if o != nil { o(&opts) } }; return opts` (or
    the same loop written with `continue`): it folds the options over the defaults `F()` — a struct
    that is a local variable of this call — and skips nil options -/
theorem getOpts_shape : BexprGen.Options.getOptsSkipsNil = true := by decide +kernel

/-- creation: every evaluator field is fed from its own option; the tree is the parse result -/
theorem create_plumbing :
    BexprGen.Options.createPlumbing =
      [("ast", "$tree"), ("tagName", "$opts.withTagName"),
       ("valueTransformationHook", "$opts.withHookFn"), ("unknownVal", "$opts.withUnknown"),
       ("expression", "$expression")] ∧
    BexprGen.Options.createErrCheckBeforeAssert = true := by
  decide +kernel

/-- the budget is forwarded to the parser when non-zero, and zero means unlimited there -/
theorem budget_plumbing :
    BexprGen.Options.newParserZeroMeansMax = true ∧
    BexprGen.Options.createForwardsMax = ["nonzero"] := by
  decide +kernel

/-- the step counter: incremented and checked (`>`) at the top of every parseExpr call -/
theorem parseExpr_budget :
    BexprGen.Options.parseExprBudget =
      ["p", ".", "ExprCnt", "++", "if", "p", ".", "ExprCnt", ">", "p", ".", "maxExprCnt", "{",
       "panic", "(", "errMaxExprCnt", ")", "}"] := by
  decide +kernel

end Bexpr.Ties.Options
