/-
  Tie (C18, C11, C10): option setters, defaults and the plumbing of CreateEvaluator / Evaluate /
  newParser — extracted from options.go, bexpr.go, grammar/grammar.go on this run — agree with
  the model (Bexpr/Eval/Create.lean: `Opt.apply`, `defaultOptions`, `getOpts`, `createEvaluator`;
  Bexpr/Peg/Engine.lean: `effectiveMax`, the tick at the top of `eval`).
-/
import BexprGen.Options
import BexprGen.Effects
import Bexpr.Eval.Create

namespace Bexpr.Ties.Options

/-- each With* option assigns exactly its own field -/
theorem setters_own_field :
    BexprGen.Options.setters.length = 5 ∧
    BexprGen.Options.setters.contains ("WithMaxExpressions", ["withMaxExpressions"]) = true ∧
    BexprGen.Options.setters.contains ("WithTagName", ["withTagName"]) = true ∧
    BexprGen.Options.setters.contains ("WithHookFn", ["withHookFn"]) = true ∧
    BexprGen.Options.setters.contains ("WithUnknownValue", ["withUnknown"]) = true ∧
    BexprGen.Options.setters.contains ("WithLocalVariable", ["withLocalVariables+append"]) = true := by
  decide +kernel

/-- defaults: budget 0, tag "bexpr", no unknown value (hook and locals are zero values) -/
theorem defaults_agree :
    BexprGen.Options.defaults.length = 3 ∧
    BexprGen.Options.defaults.contains ("withMaxExpressions", "0") = true ∧
    BexprGen.Options.defaults.contains ("withTagName", "\"bexpr\"") = true ∧
    BexprGen.Options.defaults.contains ("withUnknown", "nil") = true ∧
    BexprGen.Options.optionsFields.length = 5 := by
  decide +kernel

/-- getOpts folds the options over the defaults and skips nil options -/
theorem getOpts_shape : BexprGen.Options.getOptsSkipsNil = true := by decide +kernel

/-- creation: every evaluator field is fed from its own option; the tree is the parse result -/
theorem create_plumbing :
    BexprGen.Options.createPlumbing =
      [("ast", "expr"), ("tagName", "parsedOpts.withTagName"),
       ("valueTransformationHook", "parsedOpts.withHookFn"), ("unknownVal", "parsedOpts.withUnknown"),
       ("expression", "expression")] ∧
    BexprGen.Options.createErrCheckBeforeAssert = true := by
  decide +kernel

/-- the budget is forwarded to the parser when non-zero, and zero means unlimited there -/
theorem budget_plumbing :
    BexprGen.Options.newParserZeroMeansMax = true ∧
    BexprGen.Options.createForwardsMax =
      ["if", "parsedOpts", ".", "withMaxExpressions", "!=", "0", "{", "parserOpts", "=", "append", "(",
       "parserOpts", ",", "grammar", ".", "MaxExpressions", "(", "parsedOpts", ".", "withMaxExpressions",
       ")", ")", "}"] := by
  decide +kernel

/-- the step counter: incremented and checked (`>`) at the top of every parseExpr call -/
theorem parseExpr_budget :
    BexprGen.Options.parseExprBudget =
      ["p", ".", "ExprCnt", "++", "if", "p", ".", "ExprCnt", ">", "p", ".", "maxExprCnt", "{",
       "panic", "(", "errMaxExprCnt", ")", "}"] := by
  decide +kernel

end Bexpr.Ties.Options
