/-
  Tie (C15, C11, C10): the message pieces regenerated on this run by `xlate failnames` are usable — every
  piece was recognised in the source (no `unknown:` entry, so the model never silently keeps an old
  wording).  The matcher texts (grammar.peg vs grammar.go) are `Ties/MatcherTexts.lean`.

  Deliberately NOT compared with the pinned wording (`Bexpr/Peg/PinnedFailNames.lean`): a commit
  that rewords a message changes the model's message with it and breaks nothing.
-/
import BexprGen.FailNames

namespace Bexpr.Ties.FailNames

theorem all_pieces_recognised : BexprGen.FailNames.unknowns = [] := by decide +kernel

end Bexpr.Ties.FailNames
