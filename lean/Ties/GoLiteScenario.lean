/-
  GoLite scenarios — what the semantic ties (`Ties/EvaluateSem`, `Ties/MatchSem`) share: the four
  results a call returning `(bool, error)` can have, their reading as outcomes of the model
  (`Eval.Out`), observed runs, and the failure records the witnesses are printed from.
-/
import Bexpr.GoLite.Interp
import Bexpr.Eval.Impl
import BexprGen.GoLiteGen

namespace Bexpr.Ties.Scenario
open Bexpr Bexpr.Eval Bexpr.GoLite

/-- the four results a call of `evaluate` (or of a `doMatch*` function) can have -/
inductive Ans where
  | t    -- (true, nil)
  | f    -- (false, nil)
  | fe   -- (false, err)
  | te   -- (true, err)
  deriving DecidableEq, Repr, Inhabited

def Ans.all : List Ans := [.t, .f, .fe, .te]

/-- the model's outcome of that result -/
def Ans.out : Ans → Out
  | .t => .val true | .f => .val false | .fe => .err false | .te => .err true

/-- a model outcome as a Go result pair; `tag` identifies the error -/
def ofOut (tag : String) : Out → List Val
  | .val b => [.bool b, .nil]
  | .err b => [.bool b, .err tag]
  | _ => []

def Ans.vals (a : Ans) (tag : String) : List Val := ofOut tag a.out

def pairs : List (Ans × Ans) := Ans.all.flatMap fun a => Ans.all.map fun b => (a, b)

def datum : Val := .opaque "datum"
def opt : Val := .opaque "opt"

def fuel : Nat := 400

/-- what is compared: the returned values and the calls with an effect (making an error value is
    logged under package `error` and is not an effect) -/
structure Obs where
  result : List Val
  calls : List Call
  deriving DecidableEq, Repr, Inhabited

/-- an observed run -/
inductive Seen where
  | ok (o : Obs)
  | stuck (msg : String)
  deriving DecidableEq, Repr, Inhabited

def Seen.result? : Seen → Option (List Val)
  | .ok o => some o.result
  | .stuck _ => none

def observe : Run → Seen
  | .done r log => .ok ⟨r, log.filter (·.pkg != "error")⟩
  | .stuck m => .stuck m

/-- a failing combination: scenario, expected, observed -/
structure Failure where
  what : String
  expected : String
  got : String
  deriving Repr, DecidableEq

/-! compact printing of the witnesses -/

def showNode : Node → String
  | .unary op c => op ++ "(" ++ showNode c ++ ")"
  | .binary op l r => op ++ "(" ++ showNode l ++ ", " ++ showNode r ++ ")"
  | .match_ op => "match[" ++ op ++ "]"
  | .coll => "collection"
  | .leaf n => n
  | .invalid => "<invalid node>"

mutual
def showVal : Val → String
  | .bool b => toString b
  | .nil => "nil"
  | .err tag => "err:" ++ tag
  | .node n => showNode n
  | .opc n => "grammar." ++ n
  | .opaque n => n
  | .str s => s
  | .unit => "()"
  | .cons a r => "(" ++ showVal a ++ showRest r ++ ")"
  | .app pkg name args =>
    (if pkg == "" then name else if pkg == "." then "." ++ name else pkg ++ "." ++ name) ++ showArgs args
def showRest : Val → String
  | .unit => ""
  | .cons a r => ", " ++ showVal a ++ showRest r
  | v => " . " ++ showVal v
def showArgs : Val → String
  | .unit => "()"
  | .cons a r => "(" ++ showVal a ++ showRest r ++ ")"
  | v => "(" ++ showVal v ++ ")"
end

def showVals (vs : List Val) : String := "(" ++ String.intercalate ", " (vs.map showVal) ++ ")"

def showCall (c : Call) : String :=
  (if c.pkg == "" then c.name else if c.pkg == "." then "." ++ c.name else c.pkg ++ "." ++ c.name)
    ++ "(" ++ String.intercalate ", " (c.args.map showVal) ++ (if c.ellipsis then "..." else "") ++ ")"

def showObs1 (o : Obs) : String :=
  "returns " ++ showVals o.result ++ " after the calls [" ++ String.intercalate "; " (o.calls.map showCall) ++ "]"

def showObs (o : Seen) : String :=
  match o with
  | .ok o => showObs1 o
  | .stuck m => "stuck: " ++ m

def compare (what : String) (got : Seen) (want : Obs) : List Failure :=
  if got = .ok want then [] else [⟨what, showObs1 want, showObs got⟩]

def ansName : Ans → String
  | .t => "(true,nil)" | .f => "(false,nil)" | .fe => "(false,err)" | .te => "(true,err)"

/-- one line per failing combination, each starting with `<tie> witness:` (what `./check` greps) -/
def report (tie : String) (fs : List Failure) : String :=
  if fs.isEmpty then tie ++ ": all combinations agree"
  else String.intercalate "\n" (fs.map fun f =>
    tie ++ " witness: " ++ f.what ++ " | expected: " ++ f.expected ++ " | the code: " ++ f.got)

/-- the Go pair of an interpreted run, forgetting which error it is -/
def outOf : List Val → Option Out
  | [.bool b, .nil] => some (.val b)
  | [.bool b, .err _] => some (.err b)
  | _ => none

theorem outOf_ofOut (tag : String) (a : Ans) : outOf (ofOut tag a.out) = some a.out := by
  cases a <;> rfl

/-- the functions the interpretation of `root` may inline -/
def reachOf (root : String) : List String :=
  ((BexprGen.GoLiteGen.reach.find? (·.1 == root)).map (·.2)).getD []

/-- constructs outside the GoLite subset in the functions `root` may inline -/
def unsupportedIn (root : String) : List (String × String) :=
  BexprGen.GoLiteGen.unsupportedNodes.filter fun u => (reachOf root).contains u.1

def reportUnsupported (tie root : String) : String :=
  if (unsupportedIn root).isEmpty then tie ++ ": no unsupported nodes"
  else String.intercalate "\n" ((unsupportedIn root).map fun u =>
    tie ++ " witness: outside the GoLite subset, in " ++ u.1 ++ ": " ++ u.2)

end Bexpr.Ties.Scenario
