/-
  Tie (C02, C01): the kind → equality-function table (`primitiveEqualityFn`), the kind → coercion
  table (`getMatchExprValue`), the bodies of the six `doEqual*` functions and the `strconv` calls
  of coerce.go — extracted from /repo on this run — agree with the model (`hasEqFn`, `coerceLit`,
  `applyEq` in Bexpr/Eval/Impl.lean).  The comparison is by kind, so reordering the `case`s is
  harmless while a dropped kind, a changed base or bit size, or a different comparison is not.
-/
import BexprGen.Tables
import Bexpr.Eval.Impl

namespace Bexpr.Ties.Coerce
open Bexpr Bexpr.Eval Bexpr.Go

/-- the `reflect.X` identifier of a kind -/
def reflectName : Kind → String
  | .invalid => "Invalid" | .bool => "Bool"
  | .int => "Int" | .int8 => "Int8" | .int16 => "Int16" | .int32 => "Int32" | .int64 => "Int64"
  | .uint => "Uint" | .uint8 => "Uint8" | .uint16 => "Uint16" | .uint32 => "Uint32" | .uint64 => "Uint64"
  | .uintptr => "Uintptr" | .float32 => "Float32" | .float64 => "Float64"
  | .complex64 => "Complex64" | .complex128 => "Complex128" | .array => "Array" | .chan => "Chan"
  | .func => "Func" | .interface => "Interface" | .map => "Map" | .pointer => "Ptr" | .slice => "Slice"
  | .string => "String" | .struct => "Struct" | .unsafePointer => "UnsafePointer"

def allKinds : List Kind :=
  [.invalid, .bool, .int, .int8, .int16, .int32, .int64, .uint, .uint8, .uint16, .uint32, .uint64, .uintptr,
   .float32, .float64, .complex64, .complex128, .array, .chan, .func, .interface, .map, .pointer, .slice,
   .string, .struct, .unsafePointer]

def lookup (tbl : List (String × String)) (k : String) : Option String :=
  (tbl.find? (·.1 == k)).map (·.2)

/-- which `doEqual*` the model's `applyEq` implements for a kind -/
def modelEqFn (k : Kind) : Option String :=
  if k == .bool then some "doEqualBool"
  else if k.isInt then some "doEqualInt64"
  else if k.isUint && k != .uintptr then some "doEqualUint64"
  else if k == .float32 then some "doEqualFloat32"
  else if k == .float64 then some "doEqualFloat64"
  else if k == .string then some "doEqualString"
  else none

/-- which coercion the model's `coerceLit` applies for a kind (`none` = the raw string) -/
def modelCoerce (k : Kind) : Option String :=
  if k == .bool then some "CoerceBool"
  else if k.isInt then some "CoerceInt64"
  else if k.isUint && k != .uintptr then some "CoerceUint64"
  else if k == .float32 then some "CoerceFloat32"
  else if k == .float64 then some "CoerceFloat64"
  else none

theorem eqFn_table_agrees :
    allKinds.all (fun k => lookup BexprGen.Tables.eqFnTable (reflectName k) == modelEqFn k) = true ∧
    lookup BexprGen.Tables.eqFnTable "default" = some "nil" ∧
    BexprGen.Tables.eqFnTable.length = 15 := by
  decide +kernel

theorem hasEqFn_is_table : ∀ k ∈ allKinds, hasEqFn k = (modelEqFn k).isSome := by
  decide +kernel

theorem coerce_table_agrees :
    allKinds.all (fun k => lookup BexprGen.Tables.coerceTable (reflectName k) == modelCoerce k) = true ∧
    lookup BexprGen.Tables.coerceTable "default" = some "raw" ∧
    BexprGen.Tables.coerceTable.length = 14 ∧ BexprGen.Tables.coerceNilValueGuard = true := by
  decide +kernel

/-- base 0 and 64 bits for integers, the field's width for floats -/
theorem strconv_calls :
    BexprGen.Tables.strconvCalls.length = 5 ∧
    BexprGen.Tables.strconvCalls.contains ("CoerceInt64", "ParseInt", ["value", "0", "64"]) = true ∧
    BexprGen.Tables.strconvCalls.contains ("CoerceUint64", "ParseUint", ["value", "0", "64"]) = true ∧
    BexprGen.Tables.strconvCalls.contains ("CoerceBool", "ParseBool", ["value"]) = true ∧
    BexprGen.Tables.strconvCalls.contains ("CoerceFloat32", "ParseFloat", ["value", "32"]) = true ∧
    BexprGen.Tables.strconvCalls.contains ("CoerceFloat64", "ParseFloat", ["value", "64"]) = true := by
  decide +kernel

def body (n : String) : List String :=
  match BexprGen.Tables.eqFnBodies.find? (·.1 == n) with
  | some (_, b) => b
  | none => []

/-- typed `==` on the accessor of the value's own kind; float32 narrows the value, never widens
    the literal; integers never go through floating point -/
theorem eqFn_bodies :
    body "doEqualBool" = ["return", "first", ".", "(", "bool", ")", "==", "second", ".", "Bool", "(", ")"] ∧
    body "doEqualInt64" = ["return", "first", ".", "(", "int64", ")", "==", "second", ".", "Int", "(", ")"] ∧
    body "doEqualUint64" = ["return", "first", ".", "(", "uint64", ")", "==", "second", ".", "Uint", "(", ")"] ∧
    body "doEqualFloat32" = ["return", "first", ".", "(", "float32", ")", "==", "float32", "(", "second", ".", "Float", "(", ")", ")"] ∧
    body "doEqualFloat64" = ["return", "first", ".", "(", "float64", ")", "==", "second", ".", "Float", "(", ")"] ∧
    body "doEqualString" = ["return", "first", ".", "(", "string", ")", "==", "second", ".", "String", "(", ")"] := by
  decide +kernel

end Bexpr.Ties.Coerce
