/-
  Tie (C13): as `Ties/Effects.lean`, except that ONE shared write is tolerated because it does not
  make evaluation history-dependent: the regexp cache cell of a match node, written with the
  compilation of that node's own literal (`Props/C13.history_independent_with_cache`).  (For C12
  that write is a data race and `Ties/Effects.lean` rejects it.)
-/
import BexprGen.Effects
import Bexpr.Eval.Effects

namespace Bexpr.Ties.EffectsC13
open Bexpr.Eval.Effects

def fromEvaluate (fn : String) : Bool := BexprGen.Effects.reachableFromEvaluate.contains fn

/-- every package-level variable is initialised with a value the code can only READ: a `reflect.Type`, an
    `errors.New` value, a basic literal, or a table from reflect kinds to function names (a store into such a
    table would be a `shared` store site, which the class obligations above exclude).  A `sync.Pool`, a
    `sync.Map`, a cache, a counter, a buffer — anything else — has no class and fails here. -/
theorem globals_immutable :
    BexprGen.Effects.globalClasses.all
      (fun g => ["typeOf", "errorsNew", "basic", "kindFnTable"].contains g.2) = true ∧
    BexprGen.Effects.globalClasses.length = BexprGen.Effects.globals.length := by
  decide +kernel

end Bexpr.Ties.EffectsC13
