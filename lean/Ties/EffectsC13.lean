/-
  Tie (C13): as `Ties/Effects.lean`, except that ONE shared write is tolerated because it does not
  make evaluation history-dependent: the regexp cache cell of a match node, written with the
  compilation of that node's own literal (`Props/C13.history_independent_with_cache`).  (For C12
  that write is a data race and `Ties/Effects.lean` rejects it.)
-/
import BexprGen.Effects
import Bexpr.Eval.Effects

namespace Bexpr.Ties.EffectsC13
open Bexpr.Eval.Effects

def fromEvaluate (fn : String) : Bool := BexprGen.Effects.reachableFromEvaluate.contains fn

/-- the benign cache site (pinned tree: in `doMatchMatches`; repaired tree: in `precompileRegexps`),
    identified by function, kind and source text (whatever its class) -/
def isRegexpCacheSite (s : Site) : Bool :=
  let (fn, kind, _, text) := s
  (fn, kind, text) == ("doMatchMatches", "assign-field", "expression.Value.Converted = re") ||
  (fn, kind, text) == ("precompileRegexps", "assign-field", "node.Value.Converted = re")

theorem no_shared_write_except_regexp_cache :
    BexprGen.Effects.storeSites.all (fun s => !fromEvaluate s.1 || isLocalSite s || isRegexpCacheSite s) = true := by
  decide +kernel

theorem append_targets_fresh :
    BexprGen.Effects.appendOrigins.all (fun o => !fromEvaluate o.1 || isFreshOrigin o) = true := by
  decide +kernel

theorem globals_readonly :
    BexprGen.Effects.globals = [("byteSliceTyp", "reflect.TypeOf([]byte{})")] := by
  decide +kernel

end Bexpr.Ties.EffectsC13
