/-
  Tie (C03, C09, C01; second stage C04): the MEANING of `evaluate` (connectives and dispatch) and of
  the operator dispatch of `evaluateMatchExpression`, checked on the GoLite terms REGENERATED from the
  source on every run (`BexprGen/GoLiteGen.lean`, written by `xlate golite`).

  The regenerated functions are interpreted (`Bexpr/GoLite/Interp.lean`) over an abstract domain: the
  operands of a connective are unknown nodes `L`, `R`; every call of a leaf is answered by a scenario
  (oracle) and logged.  For EVERY combination of answers the obligations below demand
    * the returned pair is what the model's `Eval.evaluate` returns on these outcomes (the outcome
      tables `C03.notTable / andTable / orTable`, which `C03.not_table / and_table / or_table` prove
      to be the model), with the error being the error of the operand that decided;
    * the calls made are exactly `evaluate(left)` when the left operand decides and
      `evaluate(left), evaluate(right)` otherwise — each with the unmodified `datum` and `opt...`.
  Nothing is said about how the code is written: a switch, an if/else chain, early returns, helpers
  (inlined by the interpreter) all pass as long as they mean the same; anything the translator or the
  interpreter does not understand makes the run `stuck`, which fails the obligation.

  When an obligation fails, `#eval report` (bottom of the file) prints the failing combinations with
  what was expected and what the code did — the witness `./check` shows.
-/
import BexprGen.GoLiteGen
import Ties.GoLiteScenario
import Props.C03

namespace Bexpr.Ties.EvaluateSem
open Bexpr Bexpr.Eval Bexpr.GoLite Bexpr.Ties.Scenario
open Bexpr.Props

/-! ### scenarios -/

def L : Node := .leaf "L"
def R : Node := .leaf "R"

/-- in the first stage everything `evaluate` hands a node to is a leaf -/
def leaves1 : List String :=
  ["evaluate", "evaluateMatchExpression", "evaluateCollectionExpression"] ++ BexprGen.GoLiteGen.leaves

/-- the oracle of the connective scenarios: `evaluate(L,…)` answers `a`, `evaluate(R,…)` answers `b`,
    the two delegates answer `a`; nothing else is answered -/
def oracle1 (a b : Ans) : Oracle := fun pkg name args =>
  if pkg != "" then none
  else if name == "evaluate" then
    match args with
    | .node (.leaf n) :: _ =>
      if n == "L" then some (a.vals "errL") else if n == "R" then some (b.vals "errR") else none
    | _ => none
  else if name == "evaluateMatchExpression" || name == "evaluateCollectionExpression" then
    some (a.vals "errD")
  else none

def cfg1 (a b : Ans) : Cfg := { funcs := BexprGen.GoLiteGen.funcs, leaves := leaves1, oracle := oracle1 a b }

def evaluateOn (a b : Ans) (n : Node) : Seen :=
  observe (run (cfg1 a b) fuel "evaluate" [.node n, datum, opt] true)

/-- `evaluate(child, datum, opt...)` -/
def evalCall (n : Node) : Call := ⟨"", "evaluate", [.node n, datum, opt], true⟩

/-! ### expected behaviour, from the model's outcome tables -/

def expectNot (a : Ans) : Obs :=
  ⟨ofOut "errL" (C03.notTable a.out), [evalCall L]⟩

/-- `and`: the left operand decides unless it is `(true, nil)` -/
def expectAnd (a b : Ans) : Obs :=
  if a = .t then ⟨ofOut "errR" (C03.andTable a.out b.out), [evalCall L, evalCall R]⟩
  else ⟨ofOut "errL" (C03.andTable a.out b.out), [evalCall L]⟩

/-- `or`: the left operand decides unless it is `(false, nil)` -/
def expectOr (a b : Ans) : Obs :=
  if a = .f then ⟨ofOut "errR" (C03.orTable a.out b.out), [evalCall L, evalCall R]⟩
  else ⟨ofOut "errL" (C03.orTable a.out b.out), [evalCall L]⟩

def notNode : Node := .unary "UnaryOpNot" L
def andNode : Node := .binary "BinaryOpAnd" L R
def orNode : Node := .binary "BinaryOpOr" L R

def failingNot : List Failure :=
  Ans.all.flatMap fun a => compare ("not: operand=" ++ ansName a) (evaluateOn a a notNode) (expectNot a)

def failingAnd : List Failure :=
  pairs.flatMap fun (a, b) =>
    compare ("and: left=" ++ ansName a ++ " right=" ++ ansName b) (evaluateOn a b andNode) (expectAnd a b)

def failingOr : List Failure :=
  pairs.flatMap fun (a, b) =>
    compare ("or: left=" ++ ansName a ++ " right=" ++ ansName b) (evaluateOn a b orNode) (expectOr a b)

/-- match / collection nodes are handed to their function with `(node, datum, opt...)` and its
    result is returned as it is -/
def failingDelegation : List Failure :=
  Ans.all.flatMap fun a =>
    compare ("match node: callee answers " ++ ansName a) (evaluateOn a a (.match_ "MatchEqual"))
      ⟨a.vals "errD", [⟨"", "evaluateMatchExpression", [.node (.match_ "MatchEqual"), datum, opt], true⟩]⟩
    ++ compare ("collection node: callee answers " ++ ansName a) (evaluateOn a a .coll)
      ⟨a.vals "errD", [⟨"", "evaluateCollectionExpression", [.node .coll, datum, opt], true⟩]⟩

/-- a node of no known type, or a unary / binary node with an unknown operator: `(false, err)` with a
    freshly made error and no call -/
def isFreshError (o : Seen) : Bool :=
  match o with
  | .ok ⟨[.bool false, .err _], []⟩ => true
  | _ => false

def invalidNodes : List (String × Node) :=
  [("invalid node", .invalid), ("unary node with an unknown operator", .unary "UnaryOpOther" L),
   ("binary node with an unknown operator", .binary "BinaryOpOther" L R)]

def failingInvalid : List Failure :=
  invalidNodes.flatMap fun (what, n) =>
    let got := evaluateOn .t .t n
    if isFreshError got then [] else [⟨what, "(false, <new error>), no calls", showObs got⟩]

/-! ### the obligations (kernel-evaluated on the regenerated terms) -/

/-- nothing in the interpreted functions is outside the GoLite subset -/
theorem all_supported : unsupportedIn "evaluate" = [] := by decide +kernel

theorem not_sem : failingNot = [] := by decide +kernel

theorem and_sem : failingAnd = [] := by decide +kernel

theorem or_sem : failingOr = [] := by decide +kernel

theorem delegation_sem : failingDelegation = [] := by decide +kernel

theorem invalid_sem : failingInvalid = [] := by decide +kernel

/-! ### what the obligations say about the model

  `ofOut` is injective on outcomes up to the error identity, so the three theorems above together with
  `C03.not_table / and_table / or_table` read: whenever the recursive calls return the Go pairs of the
  model's outcomes of the operands, the interpreted `evaluate` returns the Go pair of the model's
  outcome of the connective. -/

/-- the results the interpreted code returns are the model's outcomes -/
theorem not_refines_model (re : RegexOracle) (o : Opts) (d : Go.Any) (e : Expr) (a : Ans)
    (h : evaluate re e o d = a.out) :
    (evaluateOn a a notNode).result?.bind outOf = some (evaluate re (.not e) o d) := by
  rw [C03.not_table, h]
  cases a <;> decide +kernel

theorem and_refines_model (re : RegexOracle) (o : Opts) (d : Go.Any) (l r : Expr) (a b : Ans)
    (hl : evaluate re l o d = a.out) (hr : evaluate re r o d = b.out) :
    (evaluateOn a b andNode).result?.bind outOf = some (evaluate re (.and l r) o d) := by
  rw [C03.and_table, hl, hr]
  cases a <;> cases b <;> decide +kernel

theorem or_refines_model (re : RegexOracle) (o : Opts) (d : Go.Any) (l r : Expr) (a b : Ans)
    (hl : evaluate re l o d = a.out) (hr : evaluate re r o d = b.out) :
    (evaluateOn a b orNode).result?.bind outOf = some (evaluate re (.or l r) o d) := by
  rw [C03.or_table, hl, hr]
  cases a <;> cases b <;> decide +kernel

/-! ### witnesses -/

def failingCombos : List Failure :=
  failingNot ++ failingAnd ++ failingOr ++ failingDelegation ++ failingInvalid

#eval IO.println (report "EvaluateSem" failingCombos)
#eval IO.println (reportUnsupported "EvaluateSem" "evaluate")

end Bexpr.Ties.EvaluateSem
