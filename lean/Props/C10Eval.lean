/-
  C10 (evaluator part) and C09 (quantifier "for every expression accepted by CreateEvaluator"):
  a returned evaluator can always be evaluated, a returned filter always executed, and a returned
  tree always dumped — without panicking.  Combines the parser typing result (`Props/C10.lean`:
  every accepted parse is a parser-shaped Expression) with totality of the evaluator on
  parser-shaped trees (`Props/C09.lean`).
-/
import Props.C10
import Props.C09

namespace Bexpr.Props.C10Eval
open Bexpr Bexpr.Go Bexpr.Eval Bexpr.Peg Bexpr.Driver

/-- every option's unknown value is a well-formed Go value -/
def OptsWfIn (opts : List Opt) : Prop := ∀ u, (getOpts opts).unknown = some u → Any.wf u = true

theorem created_unknown (expr : GoString) (opts : List Opt) (ev : Evaluator)
    (h : createEvaluator goEnv goGrammar expr opts = .ok ev) : ev.unknown = (getOpts opts).unknown := by
  simp only [createEvaluator] at h
  split at h
  · contradiction
  · split at h
    · injection h with h; rw [← h]
    · contradiction

/-- Evaluate on an evaluator returned by CreateEvaluator never panics, and an error comes with
    false — for every byte string accepted, every option list, every well-formed datum. -/
theorem created_evaluator_total (re : RegexOracle) (expr : GoString) (opts : List Opt) (ev : Evaluator)
    (d : Any) (h : createEvaluator goEnv goGrammar expr opts = .ok ev) (ho : OptsWfIn opts)
    (hd : Any.wf d = true) :
    ev.evaluate re d ≠ .panic ∧ ∀ b, ev.evaluate re d = .err b → b = false := by
  have hs : ev.ast.parserShaped = true := by
    rcases C10.create_cases expr opts with he | ⟨ev', hev', hsh⟩
    · rw [he] at h; contradiction
    · rw [hev'] at h; injection h with h; rw [← h]; exact hsh
  refine ⟨C09.Evaluator_evaluate_no_panic re ev d hs hd ?_, fun b => C09.Evaluator_evaluate_err_false re ev d b⟩
  intro u hu
  rw [created_unknown expr opts ev h] at hu
  exact ho u hu

/-- Execute on a filter returned by CreateFilter never panics (the nil filter returns its input). -/
theorem created_filter_total (re : RegexOracle) (expr : GoString) (data : Any) (hd : Any.wf data = true) :
    (createFilter goEnv goGrammar expr = .nilFilter → execute re none data = .ok data) ∧
    (∀ ev, createFilter goEnv goGrammar expr = .ok ev → execute re (some ev) data ≠ .panic) := by
  refine ⟨fun _ => rfl, fun ev h => ?_⟩
  unfold createFilter at h
  split at h
  · contradiction
  · cases hc : createEvaluator goEnv goGrammar expr [] with
    | ok ev' =>
      rw [hc] at h
      simp only at h
      injection h with h
      subst h
      have hs : ev'.ast.parserShaped = true := by
        rcases C10.create_cases expr [] with he | ⟨ev'', hev'', hsh⟩
        · rw [he] at hc; contradiction
        · rw [hev''] at hc; injection hc with hc; rw [← hc]; exact hsh
      refine C09.execute_no_panic re ev' data hs hd ?_
      intro u hu
      rw [created_unknown expr [] ev' hc] at hu
      simp [getOpts, defaultOptions] at hu
    | err => rw [hc] at h; simp at h
    | panic => rw [hc] at h; simp at h

end Bexpr.Props.C10Eval

#print axioms Bexpr.Props.C10Eval.created_evaluator_total
#print axioms Bexpr.Props.C10Eval.created_filter_total
