/-
  Props.C02 — "Equality compares in the selected value's own type; bad literals
  are errors."
-/
import Bexpr.Eval.Impl
import Bexpr.Go.WF
import Proofs.StrconvLemmas

namespace Bexpr.Props.C02
open Bexpr Bexpr.Go Bexpr.Eval Bexpr.Strconv Bexpr.GoString

/-! ## 1. `doMatchEqual` per scalar constructor -/

/-- bool: the literal is parsed by `strconv.ParseBool`; a bad literal is an error. -/
theorem eq_bool_spec (raw : GoString) (n : String) (b : Bool) :
    doMatchEqual (some raw) (some (.bool n b)) =
      match parseBool raw with
      | .ok b' => .val (b' == b)
      | .error _ => .err false := by
  simp only [doMatchEqual, RV.kind, GoVal.kind, hasEqFn, coerceLit]
  cases h : parseBool raw with
  | ok b' => simp [applyEq]
  | error e => cases e <;> simp

/-- signed integers: `strconv.ParseInt(raw, 0, 64)` and exact comparison in `Int`
(never via floating point). -/
theorem eq_int_spec (raw : GoString) (k : Kind) (n : String) (i : Int) (hk : k.isInt = true) :
    doMatchEqual (some raw) (some (.int k n i)) =
      match parseInt raw 0 64 with
      | .ok i' => .val (i' == i)
      | .error _ => .err false := by
  cases k <;> simp [Kind.isInt] at hk <;>
  · simp only [doMatchEqual, RV.kind, GoVal.kind, hasEqFn, coerceLit]
    cases h : parseInt raw 0 64 with
    | ok b' => simp [applyEq, Kind.isInt]
    | error e => cases e <;> simp [Kind.isInt]

/-- unsigned integers (all kinds but `uintptr`): `strconv.ParseUint(raw, 0, 64)` and
exact comparison in `Nat`. -/
theorem eq_uint_spec (raw : GoString) (k : Kind) (n : String) (u : Nat)
    (hk : k.isUint = true) (hp : k ≠ .uintptr) :
    doMatchEqual (some raw) (some (.uint k n u)) =
      match parseUint raw 0 64 with
      | .ok u' => .val (u' == u)
      | .error _ => .err false := by
  cases k <;> simp [Kind.isUint] at hk hp <;>
  · simp only [doMatchEqual, RV.kind, GoVal.kind, hasEqFn, coerceLit]
    cases h : parseUint raw 0 64 with
    | ok b' => simp [applyEq, Kind.isInt, Kind.isUint]
    | error e => cases e <;> simp [Kind.isInt, Kind.isUint]

/-- `uintptr` has no equality function: always an error (never a silent `false`). -/
theorem eq_uintptr_error (raw : Option GoString) (n : String) (u : Nat) :
    doMatchEqual raw (some (.uint .uintptr n u)) = .err false := by
  simp [doMatchEqual, RV.kind, GoVal.kind, hasEqFn, Kind.isInt, Kind.isUint]

/-- float32: `strconv.ParseFloat(raw, 32)` (correctly rounded to binary32) and IEEE
`==` on binary32. -/
theorem eq_float32_spec (raw : GoString) (n : String) (bits : Nat) :
    doMatchEqual (some raw) (some (.float .float32 n bits)) =
      match parseFloat raw 32 with
      | .ok f => .val (feq 32 f bits)
      | .error _ => .err false := by
  simp only [doMatchEqual, RV.kind, GoVal.kind, hasEqFn, coerceLit]
  cases h : parseFloat raw 32 with
  | ok b' => simp [applyEq, Kind.isInt, Kind.isUint]
  | error e => cases e <;> simp [Kind.isInt, Kind.isUint]

/-- float64: `strconv.ParseFloat(raw, 64)` and IEEE `==` on binary64. -/
theorem eq_float64_spec (raw : GoString) (n : String) (bits : Nat) :
    doMatchEqual (some raw) (some (.float .float64 n bits)) =
      match parseFloat raw 64 with
      | .ok f => .val (feq 64 f bits)
      | .error _ => .err false := by
  simp only [doMatchEqual, RV.kind, GoVal.kind, hasEqFn, coerceLit]
  cases h : parseFloat raw 64 with
  | ok b' => simp [applyEq, Kind.isInt, Kind.isUint]
  | error e => cases e <;> simp [Kind.isInt, Kind.isUint]

/-- Both float kinds at once, for a well-formed float value. -/
theorem eq_float_spec (raw : GoString) (k : Kind) (n : String) (bits : Nat)
    (hwf : (GoVal.float k n bits).wf = true) :
    doMatchEqual (some raw) (some (.float k n bits)) =
      match parseFloat raw k.bits with
      | .ok f => .val (feq k.bits f bits)
      | .error _ => .err false := by
  have hk : k = .float32 ∨ k = .float64 := by
    simpa [GoVal.wf] using hwf
  rcases hk with rfl | rfl
  · exact eq_float32_spec raw n bits
  · exact eq_float64_spec raw n bits

/-- strings (any defined string type): byte-wise comparison with the raw literal;
no literal is ever rejected. -/
theorem eq_string_spec (raw : GoString) (n : String) (s : GoString) :
    doMatchEqual (some raw) (some (.str n s)) = .val (raw == s) := by
  simp [doMatchEqual, RV.kind, GoVal.kind, hasEqFn, coerceLit, applyEq, rvString,
    Kind.isInt, Kind.isUint]

/-- A kind without an equality function is an error whatever the literal is
(even a missing one): never a silent `false`, never a panic. -/
theorem eq_noEqFn_error (raw : Option GoString) (value : RV) (h : hasEqFn value.kind = false) :
    doMatchEqual raw value = .err false := by
  simp [doMatchEqual, h]

/-- nil (the zero `reflect.Value`), slices, arrays, maps, structs, interface slots,
pointers, complex numbers and chan/func/unsafe.Pointer values: `==` is an error. -/
theorem eq_nonscalar_error (raw : Option GoString) :
    doMatchEqual raw none = .err false
    ∧ (∀ n e isNil xs, doMatchEqual raw (some (.slice n e isNil xs)) = .err false)
    ∧ (∀ e xs, doMatchEqual raw (some (.array e xs)) = .err false)
    ∧ (∀ n kt vt isNil es, doMatchEqual raw (some (.map n kt vt isNil es)) = .err false)
    ∧ (∀ n fs, doMatchEqual raw (some (.struct n fs)) = .err false)
    ∧ (∀ v, doMatchEqual raw (some (.iface v)) = .err false)
    ∧ (∀ e v, doMatchEqual raw (some (.ptr e v)) = .err false)
    ∧ (∀ k n, (GoVal.complex k n).wf = true →
        doMatchEqual raw (some (.complex k n)) = .err false)
    ∧ (∀ k n isNil, (GoVal.other k n isNil).wf = true →
        doMatchEqual raw (some (.other k n isNil)) = .err false) := by
  refine ⟨?_, ?_, ?_, ?_, ?_, ?_, ?_, ?_, ?_⟩
  · exact eq_noEqFn_error _ _ (by decide)
  · intros; exact eq_noEqFn_error _ _ rfl
  · intros; exact eq_noEqFn_error _ _ rfl
  · intros; exact eq_noEqFn_error _ _ rfl
  · intros; exact eq_noEqFn_error _ _ rfl
  · intros; exact eq_noEqFn_error _ _ rfl
  · intros; exact eq_noEqFn_error _ _ rfl
  · intro k n hwf
    have hk : k = .complex64 ∨ k = .complex128 := by simpa [GoVal.wf] using hwf
    rcases hk with rfl | rfl <;> exact eq_noEqFn_error _ _ rfl
  · intro k n isNil hwf
    have hk : (k = .chan ∨ k = .func) ∨ k = .unsafePointer := by simpa [GoVal.wf] using hwf
    rcases hk with (rfl | rfl) | rfl <;> exact eq_noEqFn_error _ _ rfl

/-- A scalar of a well-formed value never makes `doMatchEqual` panic or leave the
model: the outcome is `.val _` or `.err false`. -/
theorem eq_scalar_total (raw : GoString) (v : GoVal) (hwf : v.wf = true) :
    (∃ b, doMatchEqual (some raw) (some v) = .val b) ∨
      doMatchEqual (some raw) (some v) = .err false := by
  cases v with
  | bool n b =>
    rw [eq_bool_spec]; cases parseBool raw <;> simp
  | int k n i =>
    rw [eq_int_spec _ _ _ _ (by simpa [GoVal.wf] using hwf)]; cases parseInt raw 0 64 <;> simp
  | uint k n u =>
    by_cases hp : k = .uintptr
    · subst hp; right; exact eq_uintptr_error _ _ _
    · rw [eq_uint_spec _ _ _ _ (by simpa [GoVal.wf] using hwf) hp]
      cases parseUint raw 0 64 <;> simp
  | float k n bits =>
    rw [eq_float_spec _ _ _ _ hwf]; cases parseFloat raw k.bits <;> simp
  | str n s => left; exact ⟨_, eq_string_spec _ _ _⟩
  | complex k n => right; exact (eq_nonscalar_error _).2.2.2.2.2.2.2.1 k n hwf
  | other k n isNil => right; exact (eq_nonscalar_error _).2.2.2.2.2.2.2.2 k n isNil hwf
  | ptr e v => right; exact eq_noEqFn_error _ _ rfl
  | slice n e isNil xs => right; exact eq_noEqFn_error _ _ rfl
  | array e xs => right; exact eq_noEqFn_error _ _ rfl
  | map n kt vt isNil es => right; exact eq_noEqFn_error _ _ rfl
  | struct n fs => right; exact eq_noEqFn_error _ _ rfl
  | iface v => right; exact eq_noEqFn_error _ _ rfl

/-! ## 2. `ParseBool` is exactly its table -/

/-- An ASCII literal as a Go string (bytes of the characters). -/
def asc (s : String) : GoString := s.toList.map byteOfChar

theorem trueStrs_eq : trueStrs = ["1", "t", "T", "TRUE", "true", "True"].map asc := by decide
theorem falseStrs_eq : falseStrs = ["0", "f", "F", "FALSE", "false", "False"].map asc := by decide

/-- `ParseBool` accepts exactly twelve spellings; everything else is a syntax error
(never a range error, never a default value). -/
theorem parseBool_table (s : GoString) :
    (parseBool s = .ok true ↔ s ∈ ["1", "t", "T", "TRUE", "true", "True"].map asc)
    ∧ (parseBool s = .ok false ↔ s ∈ ["0", "f", "F", "FALSE", "false", "False"].map asc)
    ∧ (s ∉ ["1", "t", "T", "TRUE", "true", "True"].map asc →
       s ∉ ["0", "f", "F", "FALSE", "false", "False"].map asc → parseBool s = .error .syntax)
    ∧ parseBool s ≠ .error .range := by
  rw [← trueStrs_eq, ← falseStrs_eq]
  have hdisj : ∀ x, x ∈ trueStrs → x ∈ falseStrs → False := by decide
  unfold parseBool
  by_cases ht : s ∈ trueStrs
  · have hf : s ∉ falseStrs := fun hf => hdisj s ht hf
    simp [ht, hf]
  · by_cases hf : s ∈ falseStrs
    · simp [ht, hf]
    · simp [ht, hf]

/-! ## 3. Integer literals round-trip, for ALL values -/

/-- Decimal text of an integer: optional `-`, then `natToDec` of the magnitude
(Go `strconv.FormatInt(i, 10)`). -/
def intToDec (i : Int) : GoString :=
  if i < 0 then 0x2D :: natToDec i.natAbs else natToDec i.toNat

/-- Digits of `n` in base 16 / 8 / 2, most significant first, lower case, no prefix
(Go `strconv.FormatUint(n, 16)` etc.). -/
def hexDigits (n : Nat) : GoString := (Nat.toDigits 16 n).map byteOfChar
/-- See `hexDigits`. -/
def octDigits (n : Nat) : GoString := (Nat.toDigits 8 n).map byteOfChar
/-- See `hexDigits`. -/
def binDigits (n : Nat) : GoString := (Nat.toDigits 2 n).map byteOfChar

/-- `ParseUint(Itoa(n), 0, 64) = n` for every `n < 2^64`. -/
theorem parseUint_dec (n : Nat) (h : n < 2 ^ 64) : parseUint (natToDec n) 0 64 = .ok n := by
  rw [natToDec_eq_digitBytes, parseUint_digitBytes10_base0]; simp [h]

/-- The same with the explicit base 10. -/
theorem parseUint_dec_base10 (n : Nat) (h : n < 2 ^ 64) :
    parseUint (natToDec n) 10 64 = .ok n := by
  rw [natToDec_eq_digitBytes, parseUint_digitBytes_base (by omega) (by omega)]; simp [h]

/-- Every decimal numeral of a value `≥ 2^64` is a RANGE error (not a wrapped value). -/
theorem parseUint_dec_overflow (n : Nat) (h : 2 ^ 64 ≤ n) :
    parseUint (natToDec n) 0 64 = .error .range := by
  rw [natToDec_eq_digitBytes, parseUint_digitBytes10_base0]; simp [Nat.not_lt.mpr h]

theorem parseUint_dec_base10_overflow (n : Nat) (h : 2 ^ 64 ≤ n) :
    parseUint (natToDec n) 10 64 = .error .range := by
  rw [natToDec_eq_digitBytes, parseUint_digitBytes_base (by omega) (by omega)]
  simp [Nat.not_lt.mpr h]

/-- What `ParseInt` answers on the decimal text of ANY integer, for base 0 and 10. -/
theorem parseInt_intToDec (i : Int) (base : Nat) (hb : base = 0 ∨ base = 10) :
    parseInt (intToDec i) base 64 =
      if -2 ^ 63 ≤ i ∧ i < 2 ^ 63 then .ok i else .error .range := by
  have hu : ∀ n, parseUint (digitBytes 10 n) base 64 =
      if n < 2 ^ 64 then .ok n else .error .range := by
    intro n
    rcases hb with rfl | rfl
    · exact parseUint_digitBytes10_base0 n
    · exact parseUint_digitBytes_base (by omega) (by omega) n
  unfold intToDec
  by_cases hneg : i < 0
  · simp only [hneg, if_true, natToDec_eq_digitBytes]
    rw [parseInt_minus (hu _)]
    by_cases hr : i.natAbs ≤ 2 ^ 63
    · have : -2 ^ 63 ≤ i ∧ i < 2 ^ 63 := by omega
      rw [if_pos hr, if_pos this]
      congr 1; omega
    · have : ¬ (-2 ^ 63 ≤ i ∧ i < 2 ^ 63) := by omega
      rw [if_neg hr, if_neg this]
  · simp only [hneg, if_false, natToDec_eq_digitBytes]
    obtain ⟨d, t, hd, _, heq⟩ := digitBytes_head (b := 10) (by omega) i.toNat
    have hun := hu i.toNat
    rw [heq] at hun ⊢
    rw [parseInt_unsigned (digitByte_ne_minus d (by omega)) (digitByte_ne_plus d (by omega)) hun]
    by_cases hr : i.toNat < 2 ^ 63
    · have : -2 ^ 63 ≤ i ∧ i < 2 ^ 63 := by omega
      rw [if_pos hr, if_pos this]
      congr 1; omega
    · have : ¬ (-2 ^ 63 ≤ i ∧ i < 2 ^ 63) := by omega
      rw [if_neg hr, if_neg this]

/-- `ParseInt(FormatInt(i, 10), 0, 64) = i` for every `int64` value. -/
theorem parseInt_dec (i : Int) (h1 : -2 ^ 63 ≤ i) (h2 : i < 2 ^ 63) :
    parseInt (intToDec i) 0 64 = .ok i := by
  rw [parseInt_intToDec i 0 (.inl rfl), if_pos ⟨h1, h2⟩]

theorem parseInt_dec_base10 (i : Int) (h1 : -2 ^ 63 ≤ i) (h2 : i < 2 ^ 63) :
    parseInt (intToDec i) 10 64 = .ok i := by
  rw [parseInt_intToDec i 10 (.inr rfl), if_pos ⟨h1, h2⟩]

/-- Outside the `int64` range the decimal text is a RANGE error. -/
theorem parseInt_dec_overflow (i : Int) (h : i < -2 ^ 63 ∨ 2 ^ 63 ≤ i) :
    parseInt (intToDec i) 0 64 = .error .range := by
  have : ¬ (-2 ^ 63 ≤ i ∧ i < 2 ^ 63) := by omega
  rw [parseInt_intToDec i 0 (.inl rfl), if_neg this]

theorem asc_prefixes :
    asc "0x" = [0x30, 0x78] ∧ asc "0X" = [0x30, 0x58] ∧ asc "0o" = [0x30, 0x6F]
    ∧ asc "0O" = [0x30, 0x4F] ∧ asc "0b" = [0x30, 0x62] ∧ asc "0B" = [0x30, 0x42]
    ∧ asc "-0x" = [0x2D, 0x30, 0x78] := by decide

/-- `0x` / `0X` + hex digits. -/
theorem parseUint_hex (n : Nat) (h : n < 2 ^ 64) :
    parseUint (asc "0x" ++ hexDigits n) 0 64 = .ok n
    ∧ parseUint (asc "0X" ++ hexDigits n) 0 64 = .ok n := by
  constructor
  · have := parseUint_prefixed (b := 16) (by omega) (by omega) 0x78 (by decide) n
    simpa [h, asc_prefixes, hexDigits, octDigits, binDigits, digitBytes] using this
  · have := parseUint_prefixed (b := 16) (by omega) (by omega) 0x58 (by decide) n
    simpa [h, asc_prefixes, hexDigits, octDigits, binDigits, digitBytes] using this

/-- `0o` / `0O` + octal digits. -/
theorem parseUint_oct (n : Nat) (h : n < 2 ^ 64) :
    parseUint (asc "0o" ++ octDigits n) 0 64 = .ok n
    ∧ parseUint (asc "0O" ++ octDigits n) 0 64 = .ok n := by
  constructor
  · have := parseUint_prefixed (b := 8) (by omega) (by omega) 0x6F (by decide) n
    simpa [h, asc_prefixes, hexDigits, octDigits, binDigits, digitBytes] using this
  · have := parseUint_prefixed (b := 8) (by omega) (by omega) 0x4F (by decide) n
    simpa [h, asc_prefixes, hexDigits, octDigits, binDigits, digitBytes] using this

/-- `0b` / `0B` + binary digits. -/
theorem parseUint_bin (n : Nat) (h : n < 2 ^ 64) :
    parseUint (asc "0b" ++ binDigits n) 0 64 = .ok n
    ∧ parseUint (asc "0B" ++ binDigits n) 0 64 = .ok n := by
  constructor
  · have := parseUint_prefixed (b := 2) (by omega) (by omega) 0x62 (by decide) n
    simpa [h, asc_prefixes, hexDigits, octDigits, binDigits, digitBytes] using this
  · have := parseUint_prefixed (b := 2) (by omega) (by omega) 0x42 (by decide) n
    simpa [h, asc_prefixes, hexDigits, octDigits, binDigits, digitBytes] using this

/-- Prefixed spellings of values `≥ 2^64` are RANGE errors. -/
theorem parseUint_hex_overflow (n : Nat) (h : 2 ^ 64 ≤ n) :
    parseUint (asc "0x" ++ hexDigits n) 0 64 = .error .range := by
  have := parseUint_prefixed (b := 16) (by omega) (by omega) 0x78 (by decide) n
  simpa [Nat.not_lt.mpr h, asc_prefixes, hexDigits, digitBytes] using this

/-- Signed hexadecimal: `0x…` up to `2^63 - 1`, `-0x…` down to `-2^63`. -/
theorem parseInt_hex (n : Nat) :
    (n < 2 ^ 63 → parseInt (asc "0x" ++ hexDigits n) 0 64 = .ok (n : Int))
    ∧ (n ≤ 2 ^ 63 → parseInt (asc "-0x" ++ hexDigits n) 0 64 = .ok (-(n : Int)))
    ∧ (2 ^ 63 ≤ n → parseInt (asc "0x" ++ hexDigits n) 0 64 = .error .range)
    ∧ (2 ^ 63 < n → parseInt (asc "-0x" ++ hexDigits n) 0 64 = .error .range) := by
  have hu := parseUint_prefixed (b := 16) (by omega) (by omega) 0x78 (by decide) n
  have hpos := parseInt_unsigned (c := 0x30) (by decide) (by decide) hu
  have hneg := parseInt_minus hu
  refine ⟨fun h => ?_, fun h => ?_, fun h => ?_, fun h => ?_⟩
  · simpa [h, asc_prefixes, hexDigits, digitBytes] using hpos
  · simpa [h, asc_prefixes, hexDigits, digitBytes] using hneg
  · simpa [Nat.not_lt.mpr h, asc_prefixes, hexDigits, digitBytes] using hpos
  · simpa [Nat.not_le.mpr h, asc_prefixes, hexDigits, digitBytes] using hneg

/-- `natToDec` is injective (for all naturals, in range or not). -/
theorem natToDec_injective (a b : Nat) (h : natToDec a = natToDec b) : a = b := by
  have ha := uintLoop_digitBytes (b := 10) (by omega) (by omega) (a + b) false a
  have hb := uintLoop_digitBytes (b := 10) (by omega) (by omega) (a + b) false b
  have h1 : a < 2 ^ (a + b) := Nat.lt_of_lt_of_le Nat.lt_two_pow_self
    (Nat.pow_le_pow_right (by omega) (by omega))
  have h2 : b < 2 ^ (a + b) := Nat.lt_of_lt_of_le Nat.lt_two_pow_self
    (Nat.pow_le_pow_right (by omega) (by omega))
  rw [natToDec_eq_digitBytes, natToDec_eq_digitBytes] at h
  rw [h] at ha
  simp only [h1, h2, if_true] at ha hb
  rw [ha] at hb
  exact Except.ok.inj hb

/-- Two different in-range integers never have the same decimal text, hence no
decimal literal denotes two different `int64` values. -/
theorem intToDec_injective (i j : Int) (hi : -2 ^ 63 ≤ i ∧ i < 2 ^ 63)
    (hj : -2 ^ 63 ≤ j ∧ j < 2 ^ 63) (h : intToDec i = intToDec j) : i = j := by
  have h1 := parseInt_dec i hi.1 hi.2
  have h2 := parseInt_dec j hj.1 hj.2
  rw [h, h2] at h1
  exact (Except.ok.inj h1).symm

/-- **Exact integer comparison.**  For every `int64` literal `j` (written in
decimal) and every signed-integer value `i`, `==` answers `j = i` — decided in `Int`,
so `2^53` and `2^53 + 1` are different. -/
theorem eq_int_exact (j : Int) (hj1 : -2 ^ 63 ≤ j) (hj2 : j < 2 ^ 63) (k : Kind) (n : String)
    (i : Int) (hk : k.isInt = true) :
    doMatchEqual (some (intToDec j)) (some (.int k n i)) = .val (j == i) := by
  rw [eq_int_spec _ _ _ _ hk, parseInt_dec j hj1 hj2]

/-- … so the match succeeds exactly when the two integers are equal. -/
theorem eq_int_exact_iff (j : Int) (hj1 : -2 ^ 63 ≤ j) (hj2 : j < 2 ^ 63) (k : Kind)
    (n : String) (i : Int) (hk : k.isInt = true) :
    doMatchEqual (some (intToDec j)) (some (.int k n i)) = .val true ↔ j = i := by
  rw [eq_int_exact j hj1 hj2 k n i hk]
  simp

/-- Exact comparison for unsigned kinds. -/
theorem eq_uint_exact (m : Nat) (hm : m < 2 ^ 64) (k : Kind) (n : String) (u : Nat)
    (hk : k.isUint = true) (hp : k ≠ .uintptr) :
    doMatchEqual (some (natToDec m)) (some (.uint k n u)) = .val (m == u) := by
  rw [eq_uint_spec _ _ _ _ hk hp, parseUint_dec m hm]

/-- An out-of-range literal is an error, never a wrapped or saturated comparison. -/
theorem eq_int_out_of_range (j : Int) (hj : j < -2 ^ 63 ∨ 2 ^ 63 ≤ j) (k : Kind) (n : String)
    (i : Int) (hk : k.isInt = true) :
    doMatchEqual (some (intToDec j)) (some (.int k n i)) = .err false := by
  rw [eq_int_spec _ _ _ _ hk, parseInt_dec_overflow j hj]

/-! ## 4. `ParseFloat` -/

/-- The empty literal is a syntax error for every bit size. -/
theorem parseFloat_syntax_empty (bitSize : Nat) : parseFloat [] bitSize = .error .syntax := by
  simp [parseFloat, special, readFloat]

/-- binary64 pattern of the integer `n` for `0 < n < 2^53`: exponent field
`log2 n + 1023` (written `log2 n + 1022` plus the leading bit of the significand) and
the significand `n` shifted left so that its top bit is bit 52. -/
def bitsOfNat64 (n : Nat) : Nat :=
  if n = 0 then 0 else (Nat.log2 n + 1022) * 2 ^ 52 + n * 2 ^ (52 - Nat.log2 n)

/-- binary32 pattern of the integer `n` for `0 < n < 2^24`. -/
def bitsOfNat32 (n : Nat) : Nat :=
  if n = 0 then 0 else (Nat.log2 n + 126) * 2 ^ 23 + n * 2 ^ (23 - Nat.log2 n)

theorem bitsOfNat64_eq (n : Nat) : bitsOfNat64 n = bitsOfNat fmt64 n := by
  have hemin : fmt64.emin = -1022 := by decide
  unfold bitsOfNat64 bitsOfNat
  split
  · rfl
  · rw [hemin]
    have : ((Nat.log2 n : Int) - -1022).toNat = Nat.log2 n + 1022 := by omega
    rw [this]; rfl

theorem bitsOfNat32_eq (n : Nat) : bitsOfNat32 n = bitsOfNat fmt32 n := by
  have hemin : fmt32.emin = -126 := by decide
  unfold bitsOfNat32 bitsOfNat
  split
  · rfl
  · rw [hemin]
    have : ((Nat.log2 n : Int) - -126).toNat = Nat.log2 n + 126 := by omega
    rw [this]; rfl

/-- The pattern `bitsOfNat64 n` is finite and lies between the patterns of `2^log2 n`
and `2^(log2 n + 1)`. -/
theorem bitsOfNat64_bounds (n : Nat) (hn : n ≠ 0) (h : n < 2 ^ 53) :
    (Nat.log2 n + 1023) * 2 ^ 52 ≤ bitsOfNat64 n ∧ bitsOfNat64 n < (Nat.log2 n + 1024) * 2 ^ 52
    ∧ Nat.log2 n ≤ 52 := by
  have hL : Nat.log2 n < 53 := (Nat.log2_lt hn).mpr h
  have hb := shifted_bounds n 52 hn (by omega)
  unfold bitsOfNat64
  rewrite [if_neg hn]
  generalize n * 2 ^ (52 - Nat.log2 n) = m at hb ⊢
  generalize Nat.log2 n = L at hL ⊢
  simp only [Nat.reducePow, Nat.reduceAdd, Nat.add_mul] at hb ⊢
  omega

/-- Every integer below `2^53` written in decimal parses to the float64 with exactly
that value — no rounding. -/
theorem parseFloat_int_exact (n : Nat) (h : n < 2 ^ 53) :
    parseFloat (natToDec n) 64 = .ok (bitsOfNat64 n) := by
  rw [bitsOfNat64_eq, natToDec_eq_digitBytes]
  have hf : fmtOf 64 = fmt64 := rfl
  have := parseFloat_digitBytes 64 n (by rw [hf]; exact h) (by rw [hf]; decide) (by
    rw [hf, ← bitsOfNat64_eq]
    by_cases hn : n = 0
    · subst hn; decide
    · have := bitsOfNat64_bounds n hn h
      have hi : fmt64.infBits = 2047 * 2 ^ 52 := by decide
      rw [hi]; omega)
  rw [hf] at this
  exact this

theorem bitsOfNat32_bounds (n : Nat) (hn : n ≠ 0) (h : n < 2 ^ 24) :
    (Nat.log2 n + 127) * 2 ^ 23 ≤ bitsOfNat32 n ∧ bitsOfNat32 n < (Nat.log2 n + 128) * 2 ^ 23
    ∧ Nat.log2 n ≤ 23 := by
  have hL : Nat.log2 n < 24 := (Nat.log2_lt hn).mpr h
  have hb := shifted_bounds n 23 hn (by omega)
  unfold bitsOfNat32
  rewrite [if_neg hn]
  generalize n * 2 ^ (23 - Nat.log2 n) = m at hb ⊢
  generalize Nat.log2 n = L at hL ⊢
  simp only [Nat.reducePow, Nat.reduceAdd, Nat.add_mul] at hb ⊢
  omega

/-- Every integer below `2^24` written in decimal parses to the float32 with exactly
that value. -/
theorem parseFloat32_int_exact (n : Nat) (h : n < 2 ^ 24) :
    parseFloat (natToDec n) 32 = .ok (bitsOfNat32 n) := by
  rw [bitsOfNat32_eq, natToDec_eq_digitBytes]
  have hf : fmtOf 32 = fmt32 := rfl
  have := parseFloat_digitBytes 32 n (by rw [hf]; exact h) (by rw [hf]; decide) (by
    rw [hf, ← bitsOfNat32_eq]
    by_cases hn : n = 0
    · subst hn; decide
    · have := bitsOfNat32_bounds n hn h
      have hi : fmt32.infBits = 255 * 2 ^ 23 := by decide
      rw [hi]; omega)
  rw [hf] at this
  exact this

/-- `bitsOfNat64 n` really is the float whose value is `n`: decoding the pattern
(`finiteToRat`, the model's reading of a finite pattern as a fraction `num/den`)
gives `num = n * den`. -/
theorem bitsOfNat64_value (n : Nat) (h : n < 2 ^ 53) :
    (finiteToRat fmt64 (bitsOfNat64 n)).1 = n * (finiteToRat fmt64 (bitsOfNat64 n)).2 := by
  by_cases hn : n = 0
  · subst hn
    simp [bitsOfNat64, finiteToRat, FloatFmt.fracOf, FloatFmt.expOf]
    split <;> rfl
  · have hL : Nat.log2 n < 53 := (Nat.log2_lt hn).mpr h
    have hb := shifted_bounds n 52 hn (by omega)
    have hbits : bitsOfNat64 n = (Nat.log2 n + 1022) * 2 ^ 52 + n * 2 ^ (52 - Nat.log2 n) :=
      if_neg hn
    have hfrac : fmt64.fracOf (bitsOfNat64 n) = n * 2 ^ (52 - Nat.log2 n) - 2 ^ 52 := by
      rw [hbits]
      show ((Nat.log2 n + 1022) * 2 ^ 52 + n * 2 ^ (52 - Nat.log2 n)) % 2 ^ 52 = _
      generalize n * 2 ^ (52 - Nat.log2 n) = m at hb ⊢
      generalize Nat.log2 n = L at hL ⊢
      simp only [Nat.reducePow, Nat.reduceAdd, Nat.add_mul] at hb ⊢
      omega
    have hexp : fmt64.expOf (bitsOfNat64 n) = Nat.log2 n + 1023 := by
      rw [hbits]
      show ((Nat.log2 n + 1022) * 2 ^ 52 + n * 2 ^ (52 - Nat.log2 n)) / 2 ^ 52 % 2 ^ 11 = _
      generalize n * 2 ^ (52 - Nat.log2 n) = m at hb ⊢
      generalize Nat.log2 n = L at hL ⊢
      simp only [Nat.reducePow, Nat.reduceAdd, Nat.add_mul] at hb ⊢
      omega
    have hbias : (fmt64.bias : Int) = 1023 := by decide
    have hmb : fmt64.mantBits = 52 := rfl
    unfold finiteToRat
    simp only [hfrac, hexp, hbias, hmb]
    have hne : (Nat.log2 n + 1023 == 0) = false := by simp
    simp only [hne, Bool.false_eq_true, if_false]
    have hm : 2 ^ 52 + (n * 2 ^ (52 - Nat.log2 n) - 2 ^ 52) = n * 2 ^ (52 - Nat.log2 n) := by
      omega
    rw [hm]
    by_cases he : ((Nat.log2 n + 1023 : Nat) : Int) - 1023 - ((52 : Nat) : Int) ≥ 0
    · have hL52 : Nat.log2 n = 52 := by
        clear hb hbits hfrac hexp hm h hbias hmb hne
        omega
      simp only [hL52]
      simp
    · have e : (-(((Nat.log2 n + 1023 : Nat) : Int) - 1023 - ((52 : Nat) : Int))).toNat
          = 52 - Nat.log2 n := by
        clear hb hbits hfrac hexp hm h hbias hmb hne
        omega
      simp only [he, if_false, e]

/-- Comparing an integer literal below `2^53` with a float64 value compares the
value's pattern with the pattern of exactly that integer (IEEE `==`). -/
theorem eq_float64_int_literal (n : Nat) (h : n < 2 ^ 53) (nm : String) (bits : Nat) :
    doMatchEqual (some (natToDec n)) (some (.float .float64 nm bits)) =
      .val (feq 64 (bitsOfNat64 n) bits) := by
  rw [eq_float64_spec, parseFloat_int_exact n h]

/-
  NOT proved here (stated for the record; covered by the differential harness,
  600k cases against Go 1.23.5):

  * `parseFloat_nearest_even`: for every literal `s` that `readFloat` accepts with
    exact value `v = mant * base^exp` and every finite pattern `b' ≠ b` of the format,
    `|v - val b| ≤ |v - val b'|`, with equality only if the significand of `b` is
    even — where `parseFloat s bitSize = .ok b`.  In the model this is the statement
    that `roundRat f num den` is the correctly rounded pattern of `num/den`; the
    obstacle is the two-sided error analysis of `floorLog2Rat`/`scalePow2` over
    normal, subnormal and carry cases.  `roundRat_nat` above is its exact (error-free)
    special case.
  * agreement of the model with Go's Eisel–Lemire / slow-path implementation is an
    empirical (differential) fact, not a Lean theorem; see the KNOWN DIVERGENCE note
    on `parseFloat`.
-/


/-! ## 5. Non-vacuity: concrete instances -/

/-- `2^53 + 1` is compared exactly as an integer … -/
example : doMatchEqual (some (asc "9007199254740993"))
    (some (.int .int64 "" 9007199254740993)) = .val true := by decide
/-- … and differs from `2^53`. -/
example : doMatchEqual (some (asc "9007199254740993"))
    (some (.int .int64 "" 9007199254740992)) = .val false := by decide
example : doMatchEqual (some (asc "9007199254740992"))
    (some (.int .int64 "" 9007199254740993)) = .val false := by decide
/-- The same instance obtained from the general theorem. -/
example : doMatchEqual (some (intToDec 9007199254740993))
    (some (.int .int64 "" 9007199254740992)) = .val false :=
  eq_int_exact 9007199254740993 (by decide) (by decide) .int64 "" 9007199254740992 rfl
/-- Contrast: as a float64 LITERAL `2^53 + 1` rounds to `2^53` (ties to even), so a
float64 field holding `2^53` matches it — which is why integers must not go through
floats. -/
example : doMatchEqual (some (asc "9007199254740993"))
    (some (.float .float64 "" 0x4340000000000000)) = .val true := by decide
example : bitsOfNat64 9007199254740991 = 0x433FFFFFFFFFFFFF := by decide
example : asc "9007199254740993" = intToDec 9007199254740993 := by decide
example : intToDec (-42) = asc "-42" := by decide
/-- int64 limits. -/
example : doMatchEqual (some (asc "-9223372036854775808"))
    (some (.int .int64 "" (-9223372036854775808))) = .val true := by decide
example : doMatchEqual (some (asc "9223372036854775808"))
    (some (.int .int64 "" 0)) = .err false := by decide
example : doMatchEqual (some (asc "18446744073709551615"))
    (some (.uint .uint64 "" 18446744073709551615)) = .val true := by decide
example : doMatchEqual (some (asc "18446744073709551616"))
    (some (.uint .uint64 "" 0)) = .err false := by decide
/-- Base prefixes and underscores (base 0). -/
example : doMatchEqual (some (asc "0x_ff")) (some (.int .int8 "" 255)) = .val true := by decide
example : doMatchEqual (some (asc "-0b101")) (some (.int .int "" (-5))) = .val true := by decide
example : doMatchEqual (some (asc "0o17")) (some (.uint .uint8 "" 15)) = .val true := by decide
example : doMatchEqual (some (asc "017")) (some (.uint .uint8 "" 15)) = .val true := by decide
example : doMatchEqual (some (asc "1__0")) (some (.int .int "" 10)) = .err false := by decide
example : hexDigits 255 = asc "ff" := by decide
/-- Bad literals are errors, not `false`. -/
example : doMatchEqual (some (asc "yes")) (some (.bool "" true)) = .err false := by decide
example : doMatchEqual (some (asc "True")) (some (.bool "" true)) = .val true := by decide
example : doMatchEqual (some (asc "1.5")) (some (.int .int "" 1)) = .err false := by decide
example : doMatchEqual (some (asc "abc")) (some (.float .float32 "" 0)) = .err false := by decide
example : doMatchEqual (some (asc "1e400")) (some (.float .float64 "" 0)) = .err false := by
  decide +kernel
/-- Floats: IEEE `==` (NaN ≠ NaN, `+0 == -0`), float32 rounding of the literal. -/
example : doMatchEqual (some (asc "NaN")) (some (.float .float64 "" 0x7FF8000000000001)) =
    .val false := by decide
example : doMatchEqual (some (asc "0")) (some (.float .float64 "" 0x8000000000000000)) =
    .val true := by decide
example : doMatchEqual (some (asc "0.1")) (some (.float .float32 "" 0x3DCCCCCD)) = .val true := by
  decide +kernel
example : doMatchEqual (some (asc "0.1")) (some (.float .float64 "" 0x3FB999999999999A)) =
    .val true := by decide +kernel
/-- Strings compare bytes; non-scalars and nil are errors. -/
example : doMatchEqual (some (asc "abc")) (some (.str "MyString" (asc "abc"))) = .val true := by
  decide
example : doMatchEqual (some (asc "1")) none = .err false := by decide
example : doMatchEqual (some (asc "1")) (some (.slice "" (.basic .int "") false [])) = .err false := by
  decide

end Bexpr.Props.C02

#print axioms Bexpr.Props.C02.eq_bool_spec
#print axioms Bexpr.Props.C02.eq_int_spec
#print axioms Bexpr.Props.C02.eq_uint_spec
#print axioms Bexpr.Props.C02.eq_uintptr_error
#print axioms Bexpr.Props.C02.eq_float32_spec
#print axioms Bexpr.Props.C02.eq_float64_spec
#print axioms Bexpr.Props.C02.eq_float_spec
#print axioms Bexpr.Props.C02.eq_string_spec
#print axioms Bexpr.Props.C02.eq_noEqFn_error
#print axioms Bexpr.Props.C02.eq_nonscalar_error
#print axioms Bexpr.Props.C02.eq_scalar_total
#print axioms Bexpr.Props.C02.parseBool_table
#print axioms Bexpr.Props.C02.parseUint_dec
#print axioms Bexpr.Props.C02.parseUint_dec_base10
#print axioms Bexpr.Props.C02.parseUint_dec_overflow
#print axioms Bexpr.Props.C02.parseUint_dec_base10_overflow
#print axioms Bexpr.Props.C02.parseInt_intToDec
#print axioms Bexpr.Props.C02.parseInt_dec
#print axioms Bexpr.Props.C02.parseInt_dec_base10
#print axioms Bexpr.Props.C02.parseInt_dec_overflow
#print axioms Bexpr.Props.C02.parseUint_hex
#print axioms Bexpr.Props.C02.parseUint_oct
#print axioms Bexpr.Props.C02.parseUint_bin
#print axioms Bexpr.Props.C02.parseUint_hex_overflow
#print axioms Bexpr.Props.C02.parseInt_hex
#print axioms Bexpr.Props.C02.natToDec_injective
#print axioms Bexpr.Props.C02.intToDec_injective
#print axioms Bexpr.Props.C02.eq_int_exact
#print axioms Bexpr.Props.C02.eq_int_exact_iff
#print axioms Bexpr.Props.C02.eq_uint_exact
#print axioms Bexpr.Props.C02.eq_int_out_of_range
#print axioms Bexpr.Props.C02.parseFloat_syntax_empty
#print axioms Bexpr.Props.C02.bitsOfNat64_bounds
#print axioms Bexpr.Props.C02.parseFloat_int_exact
#print axioms Bexpr.Props.C02.bitsOfNat32_bounds
#print axioms Bexpr.Props.C02.parseFloat32_int_exact
#print axioms Bexpr.Props.C02.bitsOfNat64_value
#print axioms Bexpr.Props.C02.eq_float64_int_literal
