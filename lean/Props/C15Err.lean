/-
  Property C15 (and C11, C10), the parser's ERROR REPORTING:

    the exact string `grammar.Parse("", input, MaxExpressions(n))` / `bexpr.CreateEvaluator`
    return as `err.Error()` — positions `line:col (offset)`, the rule on top of the rule stack,
    the farthest-failure message `no match found, expected: …`, de-duplication, line joining —
    is `Peg.errorText` (`Bexpr/Peg/EngineT.lean`, `Bexpr/Peg/ErrorText.lean`).

  The correspondence check compares that string with the real code on every parse case
  (`parsemsg` requests); the theorems below are about the model, for EVERY names table, wording
  (`MsgTexts`), action environment, grammar, budget and input:

   1. `evalT_erase`, `runT_erase` (+ `runT_val`, `runT_cnt`, `runT_accepted`, `errorText_none_iff`):
      the instrumentation never changes the parse; `runT` is `run` plus the farthest offset on the
      `.noMatch` entry and the rule on the `.maxExpr` / `.panic` entry;
   2. `failAt_other/_before/_at/_beyond/_keeps_invert/_monotone`, `track_monotone`: `failAt` as in
      Go; the farthest offset never decreases along a run (any state, any track);
   3. `farthest_le_length`, `error_offsets_le_length`: everything reported lies within the input;
   4. `message_budget_independent` (+ `_gen`, `runT_budget_independent`, `message_budget_zero`):
      C11's "same syntax error" at the level of the exact message;
   5. `expected_sorted_nodup` (strictly increasing bytewise, `EOF` last), `dedupe_nodup`,
      `dedupe_first_occurrences`, `errorLines_nodup`;
   6. `posAt_line_pos`, `posAt_line_eq`, `posAt_col_noNL`, `posAt_col_afterNL`,
      `posAt_line_mono`, `farPos_zero`;
   7. `Example`: the messages of `a ==`, `a == 1 )`, `` (empty), `a == "x`, `\xff`, `a.b. == 1`,
      a newline-led input, a budget, … computed BY THE KERNEL on the pinned grammar with the pinned
      wording equal the strings the real parser returns (taken from the real code with a probe).

  Nothing is partial.  What the model does not cover is listed in `ErrorText.lean`: the inner text
  of `.panic` entries (unreachable for a grammar that type-checks, C10) and a non-empty file name.
-/
import Bexpr.Driver
import Bexpr.Peg.ErrorText
import Bexpr.Peg.PinnedFailNames
import Proofs.EngineT
import Props.C11

namespace Bexpr.Props.C15Err
open Bexpr Bexpr.Peg Bexpr.Driver
open Bexpr.Proofs.EngineT
open Bexpr.Proofs.Budget (runMax run_eq_runMax outOf outOf_cnt initState eval_two_budgets
  eval_bnd eval_noFuelOut Bnd Sim finalCnt)

/-! ## 1. Erasure -/

/-- **Instrumentation never changes the parse**: for every names table, environment, grammar,
    budget, fuel, rule, node, frame, state and track the first component of `evalT` is
    `Engine.eval` on the same arguments. -/
theorem evalT_erase (nm : Names) (env : Env) (g : Grammar) (max fuel : Nat) (rule : String)
    (e : PExpr) (fr : Frame) (st : PState) (tr : Track) :
    (evalT nm env g max fuel rule e fr st tr).1 = eval env g max fuel rule e fr st :=
  evalT_fst nm env g max fuel rule e fr st tr

/-- the invariant of §3 of `Proofs/EngineT` at the call `parse` makes -/
theorem start_good (nm : Names) (env : Env) (g : Grammar) (max fuel : Nat) (rule : String)
    (e : PExpr) (input : GoString) :
    Good (StIn input.length) (· ≤ input.length) 0
      (evalT nm env g max fuel rule e [] (initStateT input) Track.init) :=
  evalT_good (closedIn input.length) nm env g max fuel rule e [] (initStateT input) Track.init
    (initStateT_StIn input) (Nat.zero_le _)

/-- **`runT` is `run`**: same value, same step count, same `(offset, rule, kind)` list once the
    farthest offset of the `.noMatch` entry and the rule of the `.maxExpr` / `.panic` entry —
    the two things `runT` adds — are forgotten (`PErr.forget`). -/
theorem runT_erase (nm : Names) (env : Env) (g : Grammar) (n : Nat) (input : GoString) :
    (runT nm env g n input).toParseOut = run env g n input := by
  rw [run_eq_runMax]
  unfold runT runMax
  cases g with
  | nil => rfl
  | cons r0 rs =>
    simp only []
    cases lookupRule (r0 :: rs) r0.name with
    | none => rfl
    | some start =>
      simp only []
      rw [outOfT_toParseOut (n := input.length) _ (start_good ..).2.2, evalT_fst, initStateT_eq]

theorem runT_val (nm : Names) (env : Env) (g : Grammar) (n : Nat) (input : GoString) :
    (runT nm env g n input).val = (run env g n input).val := by
  rw [← runT_erase nm]; rfl

theorem runT_cnt (nm : Names) (env : Env) (g : Grammar) (n : Nat) (input : GoString) :
    (runT nm env g n input).cnt = (run env g n input).cnt := by
  rw [← runT_erase nm]; rfl

theorem runT_errs (nm : Names) (env : Env) (g : Grammar) (n : Nat) (input : GoString) :
    (runT nm env g n input).errs.map PErr.forget = (run env g n input).errs := by
  rw [← runT_erase nm]; rfl

/-- same acceptance -/
theorem runT_accepted (nm : Names) (env : Env) (g : Grammar) (n : Nat) (input : GoString) :
    (runT nm env g n input).accepted = (run env g n input).accepted := by
  rw [← runT_erase nm]
  simp [ParseOutT.accepted, ParseOut.accepted, ParseOutT.toParseOut]

/-- there is a message exactly when `run` rejects (`err != nil`) -/
theorem errorText_none_iff (nm : Names) (tx : MsgTexts) (env : Env) (g : Grammar) (n : Nat)
    (input : GoString) :
    errorText nm tx env g n input = none ↔ (run env g n input).accepted = true := by
  rw [← runT_accepted nm]
  unfold errorText errorTextOf ParseOutT.accepted
  split <;> simp_all

/-! ## 2. `failAt`, monotonicity -/

/-- `fail != maxFailInvertExpected`: nothing happens -/
theorem failAt_other (tr : Track) (bang : GoString) (fail : Bool) (off : Nat) (want : GoString)
    (h : fail ≠ tr.invert) : tr.failAt bang fail off want = tr := failAt_skip h

/-- `pos.offset < maxFailPos.offset`: nothing happens -/
theorem failAt_before (tr : Track) (bang : GoString) (fail : Bool) (off : Nat) (want : GoString)
    (h : off < tr.off) : tr.failAt bang fail off want = tr := failAt_lt h

/-- at the farthest offset: appended, with the `"!"` prefix when inverted -/
theorem failAt_at (tr : Track) (bang : GoString) (fail : Bool) (want : GoString)
    (h : fail = tr.invert) :
    (tr.failAt bang fail tr.off want).off = tr.off ∧
    (tr.failAt bang fail tr.off want).expected =
      tr.expected ++ [if tr.invert then bang ++ want else want] := by
  refine ⟨?_, failAt_eq_expected h⟩
  rw [failAt_eq h]

/-- beyond the farthest offset: the position moves there and the list restarts -/
theorem failAt_beyond (tr : Track) (bang : GoString) (fail : Bool) (off : Nat) (want : GoString)
    (h : fail = tr.invert) (hgt : tr.off < off) :
    (tr.failAt bang fail off want).off = off ∧
    (tr.failAt bang fail off want).expected = [if tr.invert then bang ++ want else want] := by
  rw [failAt_gt h hgt]; simp [Track.expected]

/-- `failAt` never touches the flag -/
theorem failAt_keeps_invert (tr : Track) (bang : GoString) (fail : Bool) (off : Nat)
    (want : GoString) : (tr.failAt bang fail off want).invert = tr.invert :=
  failAt_invert tr bang fail off want

/-- **The farthest offset never decreases**, whatever the state, for every call of `parseExpr`. -/
theorem track_monotone (nm : Names) (env : Env) (g : Grammar) (max fuel : Nat) (rule : String)
    (e : PExpr) (fr : Frame) (st : PState) (tr : Track) :
    tr.off ≤ (evalT nm env g max fuel rule e fr st tr).2.off :=
  (evalT_good closedTrue nm env g max fuel rule e fr st tr trivial trivial).1

/-- … in particular the reported one is at least every offset `failAt` recorded on the way, and
    `failAt` itself is monotone -/
theorem failAt_monotone (tr : Track) (bang : GoString) (fail : Bool) (off : Nat)
    (want : GoString) : tr.off ≤ (tr.failAt bang fail off want).off :=
  failAt_off_ge tr bang fail off want

/-! ## 3. Everything reported lies within the input -/

/-- **The reported farthest offset is at most the input length.** -/
theorem farthest_le_length (nm : Names) (env : Env) (g : Grammar) (n : Nat) (input : GoString) :
    (runT nm env g n input).track.off ≤ input.length := by
  unfold runT
  cases g with
  | nil => exact Nat.zero_le _
  | cons r0 rs =>
    simp only []
    cases lookupRule (r0 :: rs) r0.name with
    | none => exact Nat.zero_le _
    | some start =>
      simp only []
      rw [outOfT_track]
      exact (start_good ..).2.1

/-- **The offset of every error entry is at most the input length.** -/
theorem error_offsets_le_length (nm : Names) (env : Env) (g : Grammar) (n : Nat)
    (input : GoString) : ∀ e ∈ (runT nm env g n input).errs, e.off ≤ input.length := by
  unfold runT
  cases g with
  | nil => intro e he; simp at he; subst he; exact Nat.zero_le _
  | cons r0 rs =>
    simp only []
    cases lookupRule (r0 :: rs) r0.name with
    | none => intro e he; simp at he
    | some start =>
      simp only []
      exact outOfT_errs_le _ (start_good ..).2.2 (start_good ..).2.1

/-! ## 4. Budget independence of the message (C11 at the level of the exact text) -/

theorem effectiveMax_zero : effectiveMax 0 = 2 ^ 64 - 1 := by simp [effectiveMax]

theorem effectiveMax_pos {n : Nat} (h : n ≠ 0) : effectiveMax n = n := by
  simp [effectiveMax, h]

/-- The whole tracked run — value, error list, step count AND farthest-failure state — under a
    budget `n ≥ N` is the unlimited one (`N` = steps of the unlimited parse, assumed to have stayed
    within `2^64 - 1`; `n` may even exceed `2^64 - 1` in the model). -/
theorem runT_budget_independent (nm : Names) (env : Env) (g : Grammar) (input : GoString)
    (n : Nat) (hN : (run env g 0 input).cnt ≤ n) (hM : (run env g 0 input).cnt ≤ 2 ^ 64 - 1) :
    runT nm env g n input = runT nm env g 0 input := by
  by_cases h0 : n = 0
  · subst h0; rfl
  · rw [run_eq_runMax, effectiveMax_zero] at hN hM
    unfold runT
    rw [effectiveMax_pos h0, effectiveMax_zero]
    cases g with
    | nil => rfl
    | cons r0 rs =>
      simp only [runMax] at hN hM ⊢
      cases hl : lookupRule (r0 :: rs) r0.name with
      | none => rfl
      | some start =>
        simp only [hl] at hN hM ⊢
        rw [outOf_cnt] at hN hM
        congr 1
        -- the unlimited call: proper, within 2^64 - 1, hence neither `exceeded` nor `fuelOut`
        have hU : ¬ Bad (evalT nm env (r0 :: rs) (2 ^ 64 - 1) (2 ^ 64 - 1 + 2) start.shown
            start.expr [] (initStateT input) Track.init).1 := by
          rw [evalT_fst, initStateT_eq]
          have hb := eval_bnd env (r0 :: rs) (2 ^ 64 - 1) (2 ^ 64 - 1 + 2) start.shown start.expr []
            (initState input) (by rw [Proofs.Budget.initState_cnt]; omega)
          have hf := eval_noFuelOut env (r0 :: rs) (2 ^ 64 - 1) (2 ^ 64 - 1 + 2) start.shown
            start.expr [] (initState input) (by rw [Proofs.Budget.initState_cnt]; omega)
            (by rw [Proofs.Budget.initState_cnt]; omega)
          generalize eval env (r0 :: rs) (2 ^ 64 - 1) (2 ^ 64 - 1 + 2) start.shown start.expr []
            (initState input) = R at hb hf hM
          cases R with
          | exceeded s => simp only [Bnd] at hb; simp only [finalCnt] at hM; omega
          | fuelOut => exact absurd rfl hf
          | ok st fr v m => exact fun h => h
          | abort st msg => exact fun h => h
        by_cases hle : n ≤ 2 ^ 64 - 1
        · -- the limited call equals the unlimited one (C11), so it is not `exceeded` either
          have h2 := eval_two_budgets env (r0 :: rs) n (2 ^ 64 - 1) hle start.shown start.expr []
            (initState input) (Proofs.Budget.initState_cnt input)
          have heq : eval env (r0 :: rs) n (n + 2) start.shown start.expr [] (initState input) =
              eval env (r0 :: rs) (2 ^ 64 - 1) (2 ^ 64 - 1 + 2) start.shown start.expr []
                (initState input) := by
            rcases h2.1 with h | ⟨_, h⟩ | ⟨hlt, _⟩
            · exact absurd h h2.2
            · exact h
            · omega
          have hL : ¬ Bad (evalT nm env (r0 :: rs) n (n + 2) start.shown start.expr []
              (initStateT input) Track.init).1 := by
            rw [evalT_fst, initStateT_eq, heq, ← initStateT_eq, ← evalT_fst nm]
            exact hU
          exact (evalT_congr nm env (r0 :: rs) n (2 ^ 64 - 1) hle (n + 2) (2 ^ 64 - 1 + 2)
            start.shown start.expr [] (initStateT input) Track.init (by omega) hL).symm
        · exact evalT_congr nm env (r0 :: rs) (2 ^ 64 - 1) n (by omega) (2 ^ 64 - 1 + 2) (n + 2)
            start.shown start.expr [] (initStateT input) Track.init (by omega) hU

/-- General form of the next theorem (no upper bound on `n`, but the unlimited parse must have
    stayed within `2^64 - 1` steps). -/
theorem message_budget_independent_gen (nm : Names) (tx : MsgTexts) (env : Env) (g : Grammar)
    (input : GoString) (n : Nat) (hN : (run env g 0 input).cnt ≤ n)
    (hM : (run env g 0 input).cnt ≤ 2 ^ 64 - 1) :
    errorText nm tx env g n input = errorText nm tx env g 0 input := by
  unfold errorText
  rw [runT_budget_independent nm env g input n hN hM]

/-- **C11 at the level of the exact message**: if the unlimited parse takes `N` steps then for
    every budget `n` with `N ≤ n ≤ 2^64 - 1` (the range of `uint64`) the error text — or the
    acceptance — is exactly that of the unlimited parse. -/
theorem message_budget_independent (nm : Names) (tx : MsgTexts) (env : Env) (g : Grammar)
    (input : GoString) (n : Nat) (hN : (run env g 0 input).cnt ≤ n) (hn : n ≤ 2 ^ 64 - 1) :
    errorText nm tx env g n input = errorText nm tx env g 0 input :=
  message_budget_independent_gen nm tx env g input n hN (by omega)

/-- a budget of `0` IS the unlimited parse -/
theorem message_budget_zero (nm : Names) (tx : MsgTexts) (env : Env) (g : Grammar)
    (input : GoString) :
    errorText nm tx env g 0 input = errorText nm tx env g (2 ^ 64 - 1) input := by
  unfold errorText runT
  rw [effectiveMax_zero, effectiveMax_pos (by omega)]

/-- As one statement with the threshold of `Props.C11.budget_threshold`: `N` = the step count of
    the unlimited parse; `n = 0` or `N ≤ n ≤ 2^64 - 1` give the unlimited message. -/
theorem message_budget_threshold (nm : Names) (tx : MsgTexts) (env : Env) (g : Grammar)
    (input : GoString) :
    ∃ N : Nat, N = (run env g 0 input).cnt ∧
      ∀ n, (n = 0 ∨ N ≤ n) → n ≤ 2 ^ 64 - 1 →
        errorText nm tx env g n input = errorText nm tx env g 0 input := by
  refine ⟨_, rfl, ?_⟩
  intro n h hn
  rcases h with rfl | h
  · rfl
  · exact message_budget_independent nm tx env g input n h hn

/-! ## 5. The expected list and the lines of the message -/

/-- **The expected list of the message** is a strictly increasing (bytewise, Go's `<` on strings)
    list `l` of exactly the recorded texts other than `"!."`, followed by `EOF` iff `"!."` was
    recorded.  In particular `l` has no duplicates. -/
theorem expected_sorted_nodup (tx : MsgTexts) (maxFailExpected : List GoString) :
    ∃ l : List GoString,
      Sorted l ∧ l.Nodup ∧
      (∀ x, x ∈ l ↔ x ∈ maxFailExpected ∧ x ≠ tx.notAnyKey) ∧
      expectedOf tx maxFailExpected =
        if tx.notAnyKey ∈ maxFailExpected then l ++ [tx.eofName] else l := by
  refine ⟨sortSet (maxFailExpected.filter (· != tx.notAnyKey)), sortSet_sorted _,
    (sortSet_sorted _).nodup, ?_, ?_⟩
  · intro x
    rw [mem_sortSet, List.mem_filter]
    simp
  · unfold expectedOf
    by_cases h : tx.notAnyKey ∈ maxFailExpected
    · simp [h]
    · simp [h]

/-- `Sorted` spelled out: every earlier element is bytewise smaller than every later one -/
theorem sorted_iff (l : List GoString) :
    Sorted l ↔ l.Pairwise (fun a b => bytesLt a b = true) := Iff.rfl

/-- **`dedupe`**: no two kept lines are equal, exactly the given lines are kept, in their order. -/
theorem dedupe_nodup (xs : List GoString) :
    (dedupe xs).Nodup ∧ (∀ x, x ∈ dedupe xs ↔ x ∈ xs) ∧ (dedupe xs).Sublist xs := by
  refine ⟨dedupeAux_nodup xs [], ?_, dedupeAux_sublist xs []⟩
  intro x
  rw [dedupe, mem_dedupeAux]
  simp

/-- … and it is the FIRST occurrence of every line that is kept: the head stays, later copies of
    it are dropped from the rest. -/
theorem dedupe_first_occurrences (x : GoString) (xs : List GoString) :
    dedupe (x :: xs) = x :: (dedupe xs).filter (· != x) := by
  simp only [dedupe, dedupeAux, List.contains_nil, Bool.false_eq_true, if_false]
  rw [dedupeAux_cons_seen]

theorem dedupe_nil : dedupe [] = [] := rfl

/-- no two lines of the final text are equal; they are the entries' texts, first occurrences in
    order -/
theorem errorLines_nodup (tx : MsgTexts) (input : GoString) (o : ParseOutT) :
    (errorLines tx input o).Nodup ∧
    (∀ x, x ∈ errorLines tx input o ↔ x ∈ errorLinesRaw tx input o) ∧
    (errorLines tx input o).Sublist (errorLinesRaw tx input o) :=
  dedupe_nodup _

/-! ## 6. Positions -/

/-- lines are numbered from 1 -/
theorem posAt_line_pos (input : GoString) (off : Nat) : 1 ≤ (posAt input off).1 :=
  posScan_line_ge _ _ _ (1, 0) _

/-- **Line**: 1 + the number of `\n` runes among the runes `read()` has made current by the time
    the offset is reached — the rune AT the offset included (a position that points at a newline
    is already on the next line, column 0, exactly as pigeon reports it). -/
theorem posAt_line_eq (input : GoString) (off : Nat) :
    (posAt input off).1 = 1 + (runesRead input off).count 10 := by
  unfold posAt runesRead
  rw [posScan_eq_foldl, foldl_stepRune_line]

/-- **Column** when no newline has been read: the number of runes read (the rune at the offset
    included) — columns count RUNES, not bytes, and start at 1. -/
theorem posAt_col_noNL (input : GoString) (off : Nat) (h : 10 ∉ runesRead input off) :
    (posAt input off).2 = (runesRead input off).length := by
  unfold posAt runesRead at *
  rw [posScan_eq_foldl, foldl_stepRune_col_noNL _ _ h]
  simp

/-- **Column** after a newline: the number of runes read after the LAST newline (0 when the rune
    at the offset is that newline). -/
theorem posAt_col_afterNL (input : GoString) (off : Nat) (pre post : List Nat)
    (hsplit : runesRead input off = pre ++ 10 :: post) (h : 10 ∉ post) :
    (posAt input off).2 = post.length := by
  unfold posAt runesRead at *
  rw [posScan_eq_foldl, hsplit, foldl_stepRune_col_afterNL _ _ _ h]

/-- **the line is monotone in the offset** -/
theorem posAt_line_mono (input : GoString) (off off' : Nat) (h : off ≤ off') :
    (posAt input off).1 ≤ (posAt input off').1 :=
  posScan_line_mono _ _ _ _ _ _ h

/-- the position reported for a farthest failure at offset 0 is the initial
    `maxFailPos = position{col: 1, line: 1}`, even when the input starts with a newline (where the
    parser's own position at offset 0 is `2:0`) -/
theorem farPos_zero (input : GoString) : farPos input 0 = (1, 1) := rfl

theorem farPos_pos (input : GoString) (off : Nat) (h : off ≠ 0) :
    farPos input off = posAt input off := by
  simp [farPos, h]

/-! ## 7. Non-vacuity: the real messages, computed by the kernel on the pinned grammar -/

namespace Example

def asc (s : String) : GoString := s.toList.map GoString.byteOfChar

/-- names and wording as PINNED (`Bexpr/Peg/PinnedFailNames.lean`), so that these examples do not
    move when a commit rewords a message — the driver uses the regenerated ones -/
def pinNames : Names :=
  namesOf Pinned.FailNames.goWants Pinned.FailNames.anyWant Pinned.FailNames.bang

def pinMsg (n : Nat) (input : GoString) : Option GoString :=
  errorText pinNames Pinned.FailNames.texts pinEnv pinGrammar n input

/-- `a ==` -/
theorem msg_missing_value : pinMsg 0 (asc "a ==") = some (asc
    "1:5 (4): no match found, expected: \"-\", \"0\", \"\\\"\", \"`\", [ \\t\\r\\n], [1-9] or [a-zA-Z]") := by
  decide +kernel

/-- `a == 1 )`: `"!."` became a trailing `EOF` -/
theorem msg_trailing_paren : pinMsg 0 (asc "a == 1 )") = some (asc
    "1:8 (7): no match found, expected: \"and\", \"or\", [ \\t\\r\\n] or EOF") := by
  decide +kernel

/-- the empty input: farthest offset 0, the initial `maxFailPos` `1:1` -/
theorem msg_empty : pinMsg 0 [] = some (asc
    "1:1 (0): no match found, expected: \"(\", \"-\", \"0\", \"\\\"\", \"`\", \"all\", \"any\", \"not\", [ \\t\\r\\n], [1-9] or [a-zA-Z]") := by
  decide +kernel

/-- `a == "x`: an error production, no `no match` entry -/
theorem msg_unterminated : pinMsg 0 (asc "a == \"x") = some (asc
    "1:8 (7): rule \"string\": Unterminated string literal") := by
  decide +kernel

/-- `\xff`: logged by the first `read()`, with an empty rule stack -/
theorem msg_invalid_encoding : pinMsg 0 [0xff] = some (asc "1:1 (0): invalid encoding") := by
  decide +kernel

/-- `a.b. == 1` -/
theorem msg_dangling_dot : pinMsg 0 (asc "a.b. == 1") = some (asc
    "1:5 (4): no match found, expected: [0-9] or [a-zA-Z]") := by
  decide +kernel

/-- two entries with different prefixes are both kept, in order: `a["` -/
theorem msg_two_lines : pinMsg 0 (asc "a[\"") = some (asc
    "1:4 (3): rule \"string\": Unterminated string literal\n1:3 (2): rule \"index\": Invalid index") := by
  decide +kernel

/-- the same invalid byte is logged under two rules: two lines; (twice under the same rule would
    be one) -/
theorem msg_dedupe : pinMsg 0 (asc "a == \"" ++ [0xff] ++ asc "\"") = some (asc
    "1:7 (6): rule \"selector\": invalid encoding\n1:7 (6): rule \"string\": invalid encoding") := by
  decide +kernel

/-- lines and columns: `\n\na ==` fails on line 3; a lone `\n` fails at `2:1` -/
theorem msg_lines : pinMsg 0 (asc "\n\na ==") = some (asc
    "3:5 (6): no match found, expected: \"-\", \"0\", \"\\\"\", \"`\", [ \\t\\r\\n], [1-9] or [a-zA-Z]") := by
  decide +kernel

/-- a non-ASCII rune at offset 0: the farthest failure stays at the initial position -/
theorem msg_nonascii : pinMsg 0 ([0xc3, 0xa9] ++ asc " == 1") = some (asc
    "1:1 (0): no match found, expected: \"(\", \"-\", \"0\", \"\\\"\", \"`\", \"all\", \"any\", \"not\", [ \\t\\r\\n], [1-9] or [a-zA-Z]") := by
  decide +kernel

/-- budgets: the recovered panic is reported at the current position with the rule that was on
    top of the rule stack (`Engine.run` has `""` there); a newline-led input shows `2:0 (0)` for
    the parser's own position at offset 0 -/
theorem msg_budget_1 : pinMsg 1 (asc "a ==") = some (asc
    "1:1 (0): rule Input: max number of expresssions parsed") := by
  decide +kernel

theorem msg_budget_5 : pinMsg 5 (asc "a ==") = some (asc
    "1:1 (0): rule \"whitespace\": max number of expresssions parsed") := by
  decide +kernel

theorem msg_budget_30_lines : pinMsg 30 (asc "\n\na ==") = some (asc
    "3:1 (2): rule NotExpression: max number of expresssions parsed") := by
  decide +kernel

theorem msg_budget_newline : pinMsg 1 (asc "\n") = some (asc
    "2:0 (0): rule Input: max number of expresssions parsed") := by
  decide +kernel

theorem msg_budget_enc : pinMsg 5 [0xff] = some (asc
    "1:1 (0): invalid encoding\n1:1 (0): rule \"whitespace\": max number of expresssions parsed") := by
  decide +kernel

/-- accepted input: no message -/
theorem msg_accepted : pinMsg 0 (asc "a == 1") = none := by decide +kernel

/-- `message_budget_independent` is not vacuous: `a ==` takes `N` steps unlimited; the budget `N`
    gives the unlimited message, the budget `N - 1` the budget error (so the bound is sharp). -/
theorem steps_missing_value : (run pinEnv pinGrammar 0 (asc "a ==")).cnt = 1223 := by
  decide +kernel

theorem msg_budget_N : pinMsg 1223 (asc "a ==") = pinMsg 0 (asc "a ==") :=
  message_budget_independent pinNames Pinned.FailNames.texts pinEnv pinGrammar (asc "a ==") 1223
    (by rw [steps_missing_value]; omega) (by omega)

theorem msg_budget_N_minus_1 : pinMsg 1222 (asc "a ==") ≠ pinMsg 0 (asc "a ==") := by
  decide +kernel

/-- `failAt` on concrete data: the three branches and the `"!"` prefix -/
example : (Track.init.failAt [33] false 3 [97]).off = 3 := by decide
example : (Track.init.failAt [33] false 3 [97]).expected = [[97]] := by decide
example : ((Track.init.failAt [33] false 3 [97]).failAt [33] false 3 [98]).expected = [[97], [98]] := by
  decide
example : ((Track.init.failAt [33] false 3 [97]).failAt [33] false 2 [98]).expected = [[97]] := by
  decide
example : ((Track.init.failAt [33] false 3 [97]).failAt [33] true 5 [98]).off = 3 := by decide
example : ((Track.init.failAt [33] false 3 [97]).flip.failAt [33] true 5 [98]).expected = [[33, 98]] := by
  decide

/-- positions: bytes vs runes, newline -/
example : posAt (asc "ab\ncd") 4 = (2, 2) := by decide
example : posAt (asc "ab\ncd") 2 = (2, 0) := by decide
example : posAt ([0xc3, 0xa9] ++ asc "x") 2 = (1, 2) := by decide
example : posAt (asc "\n") 0 = (2, 0) := by decide
example : farPos (asc "\n") 0 = (1, 1) := by decide
example : runesRead (asc "ab\ncd") 4 = [97, 98, 10, 99, 100] := by decide

/-- the expected list: set, sort, `EOF` last -/
example : expectedOf Pinned.FailNames.texts [asc "b", asc "!.", asc "a", asc "b"] =
    [asc "a", asc "b", asc "EOF"] := by decide
example : dedupe [asc "x", asc "y", asc "x", asc "z", asc "y"] = [asc "x", asc "y", asc "z"] := by
  decide

end Example

end Bexpr.Props.C15Err

#print axioms Bexpr.Props.C15Err.evalT_erase
#print axioms Bexpr.Props.C15Err.start_good
#print axioms Bexpr.Props.C15Err.runT_erase
#print axioms Bexpr.Props.C15Err.runT_val
#print axioms Bexpr.Props.C15Err.runT_cnt
#print axioms Bexpr.Props.C15Err.runT_errs
#print axioms Bexpr.Props.C15Err.runT_accepted
#print axioms Bexpr.Props.C15Err.errorText_none_iff
#print axioms Bexpr.Props.C15Err.failAt_other
#print axioms Bexpr.Props.C15Err.failAt_before
#print axioms Bexpr.Props.C15Err.failAt_at
#print axioms Bexpr.Props.C15Err.failAt_beyond
#print axioms Bexpr.Props.C15Err.failAt_keeps_invert
#print axioms Bexpr.Props.C15Err.track_monotone
#print axioms Bexpr.Props.C15Err.failAt_monotone
#print axioms Bexpr.Props.C15Err.farthest_le_length
#print axioms Bexpr.Props.C15Err.error_offsets_le_length
#print axioms Bexpr.Props.C15Err.effectiveMax_zero
#print axioms Bexpr.Props.C15Err.effectiveMax_pos
#print axioms Bexpr.Props.C15Err.runT_budget_independent
#print axioms Bexpr.Props.C15Err.message_budget_independent_gen
#print axioms Bexpr.Props.C15Err.message_budget_independent
#print axioms Bexpr.Props.C15Err.message_budget_zero
#print axioms Bexpr.Props.C15Err.message_budget_threshold
#print axioms Bexpr.Props.C15Err.expected_sorted_nodup
#print axioms Bexpr.Props.C15Err.sorted_iff
#print axioms Bexpr.Props.C15Err.dedupe_nodup
#print axioms Bexpr.Props.C15Err.dedupe_first_occurrences
#print axioms Bexpr.Props.C15Err.dedupe_nil
#print axioms Bexpr.Props.C15Err.errorLines_nodup
#print axioms Bexpr.Props.C15Err.posAt_line_pos
#print axioms Bexpr.Props.C15Err.posAt_line_eq
#print axioms Bexpr.Props.C15Err.posAt_col_noNL
#print axioms Bexpr.Props.C15Err.posAt_col_afterNL
#print axioms Bexpr.Props.C15Err.posAt_line_mono
#print axioms Bexpr.Props.C15Err.farPos_zero
#print axioms Bexpr.Props.C15Err.farPos_pos
#print axioms Bexpr.Props.C15Err.Example.msg_missing_value
#print axioms Bexpr.Props.C15Err.Example.msg_trailing_paren
#print axioms Bexpr.Props.C15Err.Example.msg_empty
#print axioms Bexpr.Props.C15Err.Example.msg_unterminated
#print axioms Bexpr.Props.C15Err.Example.msg_invalid_encoding
#print axioms Bexpr.Props.C15Err.Example.msg_dangling_dot
#print axioms Bexpr.Props.C15Err.Example.msg_two_lines
#print axioms Bexpr.Props.C15Err.Example.msg_dedupe
#print axioms Bexpr.Props.C15Err.Example.msg_lines
#print axioms Bexpr.Props.C15Err.Example.msg_nonascii
#print axioms Bexpr.Props.C15Err.Example.msg_budget_1
#print axioms Bexpr.Props.C15Err.Example.msg_budget_5
#print axioms Bexpr.Props.C15Err.Example.msg_budget_30_lines
#print axioms Bexpr.Props.C15Err.Example.msg_budget_newline
#print axioms Bexpr.Props.C15Err.Example.msg_budget_enc
#print axioms Bexpr.Props.C15Err.Example.msg_accepted
#print axioms Bexpr.Props.C15Err.Example.steps_missing_value
#print axioms Bexpr.Props.C15Err.Example.msg_budget_N
#print axioms Bexpr.Props.C15Err.Example.msg_budget_N_minus_1
