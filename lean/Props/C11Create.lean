/-
  Property C11 (expression budget), lifted from the engine (`Peg.run`, `Props/C11.lean`) to the
  public entry point `createEvaluator env g expression opts` (`Bexpr/Eval/Create.lean`,
  Go: `bexpr.go:CreateEvaluator` + `options.go:WithMaxExpressions`).

    "for every input there is a step count N such that creating an evaluator under
     WithMaxExpressions(n) gives exactly the unlimited result when n = 0 or n ≥ N, and fails
     when 0 < n < N; a limited creation never executes more than n + 1 parser steps."

  The budget reaches the engine through the option fold: `n = (getOpts opts).maxExpressions`
  (the argument of the LAST `Opt.maxExpressions` in `opts`, else 0: `C18.getOpts_maxExpressions`).
  "The budget removed" is written `opts ++ [.maxExpressions 0]` (last one wins,
  `C18.getOpts_last_wins`); `getOpts_budget_removed_eq_filter` shows that this is the same option
  record as the one obtained by deleting every `Opt.maxExpressions` from `opts`.

  Everything is generic in the action semantics `env`, the grammar `g` and the expression text.
  Core Lean only.
-/
import Bexpr.Eval.Create
import Props.C11
import Props.C18

namespace Bexpr.Props.C11Create
open Bexpr Bexpr.Go Bexpr.Eval Bexpr.Peg Bexpr.Proofs.Options

/-! ## 0. How `createEvaluator` uses the engine -/

/-- What `CreateEvaluator` makes of a finished parse (`out`) and the folded options (`po`). -/
def ofRun (po : Options) (expression : GoString) (out : ParseOut) : CreateOut :=
  if !out.accepted then .err else
  match out.val with
  | .expr e =>
    .ok { ast := e, tagName := po.tagName, hook := po.hook, unknown := po.unknown,
          expression := expression }
  | _ => .panic

/-- `createEvaluator` performs exactly ONE engine run, namely `run env g n expr` with
    `n = (getOpts opts).maxExpressions`, and post-processes its output with `ofRun`. -/
theorem create_eq_ofRun (env : Env) (g : Grammar) (expr : GoString) (opts : List Opt) :
    createEvaluator env g expr opts =
      ofRun (getOpts opts) expr (run env g (getOpts opts).maxExpressions expr) := rfl

/-- Appending `WithMaxExpressions(m)` overwrites the budget and nothing else. -/
theorem getOpts_append_budget (opts : List Opt) (m : Nat) :
    getOpts (opts ++ [.maxExpressions m]) = { getOpts opts with maxExpressions := m } := by
  rw [C18.getOpts_last_wins]; rfl

theorem foldl_apply_forget_budget (l : List Opt) (o : Options) (k m : Nat) :
    { l.foldl Opt.apply { o with maxExpressions := k } with maxExpressions := m } =
    ({ l.foldl Opt.apply o with maxExpressions := m } : Options) := by
  induction l generalizing o k with
  | nil => rfl
  | cons a t ih =>
    rw [List.foldl_cons, List.foldl_cons]
    cases a with
    | maxExpressions n => rfl
    | tagName s => exact ih { o with tagName := s } k
    | hookFn h => exact ih { o with hook := h } k
    | unknownValue v => exact ih { o with unknown := some v } k
    | nilOpt => exact ih o k

theorem foldl_apply_filter_budget (l : List Opt) (o : Options) :
    (l.filter fun a => decide (a.kind ≠ .maxExpressions)).foldl Opt.apply o =
    { l.foldl Opt.apply o with maxExpressions := o.maxExpressions } := by
  induction l generalizing o with
  | nil => rfl
  | cons a t ih =>
    cases a with
    | maxExpressions n =>
      have hf : (Opt.maxExpressions n :: t).filter (fun a => decide (a.kind ≠ .maxExpressions)) =
          t.filter (fun a => decide (a.kind ≠ .maxExpressions)) := by
        simp [Opt.kind]
      rw [hf, ih, List.foldl_cons]
      exact (foldl_apply_forget_budget t o n o.maxExpressions).symm
    | tagName s =>
      have hf : (Opt.tagName s :: t).filter (fun a => decide (a.kind ≠ .maxExpressions)) =
          Opt.tagName s :: t.filter (fun a => decide (a.kind ≠ .maxExpressions)) := by
        simp [Opt.kind]
      rw [hf, List.foldl_cons, ih, List.foldl_cons]; rfl
    | hookFn h =>
      have hf : (Opt.hookFn h :: t).filter (fun a => decide (a.kind ≠ .maxExpressions)) =
          Opt.hookFn h :: t.filter (fun a => decide (a.kind ≠ .maxExpressions)) := by
        simp [Opt.kind]
      rw [hf, List.foldl_cons, ih, List.foldl_cons]; rfl
    | unknownValue v =>
      have hf : (Opt.unknownValue v :: t).filter (fun a => decide (a.kind ≠ .maxExpressions)) =
          Opt.unknownValue v :: t.filter (fun a => decide (a.kind ≠ .maxExpressions)) := by
        simp [Opt.kind]
      rw [hf, List.foldl_cons, ih, List.foldl_cons]; rfl
    | nilOpt =>
      have hf : (Opt.nilOpt :: t).filter (fun a => decide (a.kind ≠ .maxExpressions)) =
          Opt.nilOpt :: t.filter (fun a => decide (a.kind ≠ .maxExpressions)) := by
        simp [Opt.kind]
      rw [hf, List.foldl_cons, ih, List.foldl_cons]; rfl

/-- "Budget removed", two readings that agree: append `WithMaxExpressions(0)`, or delete every
    `WithMaxExpressions` option from the list. -/
theorem getOpts_budget_removed_eq_filter (opts : List Opt) :
    getOpts (opts ++ [.maxExpressions 0]) =
      getOpts (opts.filter fun a => decide (a.kind ≠ .maxExpressions)) := by
  rw [getOpts_append_budget]
  exact (foldl_apply_filter_budget opts defaultOptions).symm

theorem create_budget_removed_eq_filter (env : Env) (g : Grammar) (expr : GoString)
    (opts : List Opt) :
    createEvaluator env g expr (opts ++ [.maxExpressions 0]) =
      createEvaluator env g expr (opts.filter fun a => decide (a.kind ≠ .maxExpressions)) := by
  rw [create_eq_ofRun, create_eq_ofRun, getOpts_budget_removed_eq_filter]

/-- Equal engine runs give equal creations: overwriting the budget `n` of `opts` by `m` does not
    change the result when `run … n … = run … m …`. -/
theorem create_congr_run (env : Env) (g : Grammar) (expr : GoString) (opts : List Opt) (m : Nat)
    (h : run env g (getOpts opts).maxExpressions expr = run env g m expr) :
    createEvaluator env g expr opts = createEvaluator env g expr (opts ++ [.maxExpressions m]) := by
  apply C18.create_evaluator_ignores_budget
  · rw [getOpts_append_budget]; exact h
  · rw [getOpts_append_budget]
  · rw [getOpts_append_budget]
  · rw [getOpts_append_budget]

/-- A run that logged any error is a failed creation. -/
theorem create_err_of_errs (env : Env) (g : Grammar) (expr : GoString) (opts : List Opt)
    (h : ∃ e, e ∈ (run env g (getOpts opts).maxExpressions expr).errs) :
    createEvaluator env g expr opts = .err := by
  obtain ⟨e, he⟩ := h
  rw [create_eq_ofRun]
  unfold ofRun
  have : (run env g (getOpts opts).maxExpressions expr).accepted = false := by
    unfold ParseOut.accepted
    cases hl : (run env g (getOpts opts).maxExpressions expr).errs with
    | nil => rw [hl] at he; cases he
    | cons _ _ => rfl
  rw [this]; rfl

/-- `.err` says exactly that the run logged an error, `.ok`/`.panic` that it did not. -/
theorem create_err_iff (env : Env) (g : Grammar) (expr : GoString) (opts : List Opt) :
    createEvaluator env g expr opts = .err ↔
      (run env g (getOpts opts).maxExpressions expr).accepted = false := by
  rw [create_eq_ofRun]
  unfold ofRun
  cases (run env g (getOpts opts).maxExpressions expr).accepted with
  | false => simp
  | true =>
    simp only [Bool.not_true, Bool.false_eq_true, if_false, reduceCtorEq, iff_false]
    split <;> simp

/-! ## A. The threshold theorem at creation level -/

/-- C11 for `createEvaluator`, with the threshold written out: `N = (run env g 0 expr).cnt`, the
    number of parser steps of the unlimited run.  `n = (getOpts opts).maxExpressions` is a `uint64`
    in Go, whence `n ≤ 2^64 - 1`. -/
theorem create_budget_exact (env : Env) (g : Grammar) (expr : GoString) (opts : List Opt)
    (hn : (getOpts opts).maxExpressions ≤ 2 ^ 64 - 1) :
    (((getOpts opts).maxExpressions = 0 ∨
        (run env g 0 expr).cnt ≤ (getOpts opts).maxExpressions) →
      createEvaluator env g expr opts =
        createEvaluator env g expr (opts ++ [.maxExpressions 0])) ∧
    (0 < (getOpts opts).maxExpressions →
      (getOpts opts).maxExpressions < (run env g 0 expr).cnt →
      createEvaluator env g expr opts = .err) := by
  refine ⟨?_, ?_⟩
  · intro h
    apply create_congr_run
    rcases h with h | h
    · rw [h]
    · exact C11.budget_exact_ge env g expr _ h hn
  · intro h0 hlt
    obtain ⟨_, ⟨e, he, _⟩, _⟩ := C11.budget_exact_lt env g expr _ h0 hlt
    exact create_err_of_errs env g expr opts ⟨e, he⟩

/-- **C11 at creation level.**  For every expression there is a step count `N` (that of the
    unlimited engine run, at most `2^64`) such that for EVERY option list `opts` whose effective
    budget `n = (getOpts opts).maxExpressions` fits a `uint64`:
    * `n = 0 ∨ N ≤ n`: the result is EQUAL to the result with the budget removed (same outcome
      class; same `ast`, `tagName`, `hook`, `unknown`, `expression` when `.ok`);
    * `0 < n < N`: creation fails. -/
theorem create_budget_threshold (env : Env) (g : Grammar) (expr : GoString) :
    ∃ N : Nat, N = (run env g 0 expr).cnt ∧ N ≤ 2 ^ 64 ∧
      ∀ opts : List Opt, (getOpts opts).maxExpressions ≤ 2 ^ 64 - 1 →
        (((getOpts opts).maxExpressions = 0 ∨ N ≤ (getOpts opts).maxExpressions) →
          createEvaluator env g expr opts =
            createEvaluator env g expr (opts ++ [.maxExpressions 0])) ∧
        (0 < (getOpts opts).maxExpressions → (getOpts opts).maxExpressions < N →
          createEvaluator env g expr opts = .err) :=
  ⟨_, rfl, C11.unlimited_cnt_le env g expr, fun opts hn => create_budget_exact env g expr opts hn⟩

/-- The same, reading "budget removed" as "all `WithMaxExpressions` options deleted". -/
theorem create_budget_threshold_filter (env : Env) (g : Grammar) (expr : GoString) :
    ∃ N : Nat, N = (run env g 0 expr).cnt ∧
      ∀ opts : List Opt, (getOpts opts).maxExpressions ≤ 2 ^ 64 - 1 →
        (((getOpts opts).maxExpressions = 0 ∨ N ≤ (getOpts opts).maxExpressions) →
          createEvaluator env g expr opts =
            createEvaluator env g expr
              (opts.filter fun a => decide (a.kind ≠ .maxExpressions))) ∧
        (0 < (getOpts opts).maxExpressions → (getOpts opts).maxExpressions < N →
          createEvaluator env g expr opts = .err) := by
  refine ⟨_, rfl, fun opts hn => ?_⟩
  rw [← create_budget_removed_eq_filter]
  exact create_budget_exact env g expr opts hn

/-- The field-wise reading of the first half of (A): same outcome class as with the budget
    removed, and for `.ok` the same five fields. -/
theorem create_budget_threshold_fields (env : Env) (g : Grammar) (expr : GoString)
    (opts : List Opt) (hn : (getOpts opts).maxExpressions ≤ 2 ^ 64 - 1)
    (h : (getOpts opts).maxExpressions = 0 ∨
      (run env g 0 expr).cnt ≤ (getOpts opts).maxExpressions) :
    (createEvaluator env g expr opts = .err ↔
      createEvaluator env g expr (opts ++ [.maxExpressions 0]) = .err) ∧
    (createEvaluator env g expr opts = .panic ↔
      createEvaluator env g expr (opts ++ [.maxExpressions 0]) = .panic) ∧
    (∀ ev, createEvaluator env g expr opts = .ok ev →
      ∃ ev', createEvaluator env g expr (opts ++ [.maxExpressions 0]) = .ok ev' ∧
        ev'.ast = ev.ast ∧ ev'.tagName = ev.tagName ∧ ev'.hook = ev.hook ∧
        ev'.unknown = ev.unknown ∧ ev'.expression = ev.expression) ∧
    (∀ ev', createEvaluator env g expr (opts ++ [.maxExpressions 0]) = .ok ev' →
      createEvaluator env g expr opts = .ok ev') := by
  have e := (create_budget_exact env g expr opts hn).1 h
  rw [← e]
  exact ⟨Iff.rfl, Iff.rfl, fun ev hev => ⟨ev, hev, rfl, rfl, rfl, rfl, rfl⟩, fun _ h => h⟩

/-- The explicit-budget form: `opts ++ [WithMaxExpressions(n)]` for any earlier options `opts`. -/
theorem create_budget_threshold_explicit (env : Env) (g : Grammar) (expr : GoString) :
    ∃ N : Nat, N = (run env g 0 expr).cnt ∧
      ∀ (opts : List Opt) (n : Nat), n ≤ 2 ^ 64 - 1 →
        ((n = 0 ∨ N ≤ n) →
          createEvaluator env g expr (opts ++ [.maxExpressions n]) =
            createEvaluator env g expr (opts ++ [.maxExpressions 0])) ∧
        (0 < n → n < N → createEvaluator env g expr (opts ++ [.maxExpressions n]) = .err) := by
  refine ⟨_, rfl, fun opts n hn => ?_⟩
  have hb : (getOpts (opts ++ [.maxExpressions n])).maxExpressions = n := by
    rw [getOpts_append_budget]
  have h := create_budget_exact env g expr (opts ++ [.maxExpressions n]) (by rw [hb]; exact hn)
  rw [hb] at h
  have e : createEvaluator env g expr (opts ++ [.maxExpressions n] ++ [.maxExpressions 0]) =
      createEvaluator env g expr (opts ++ [.maxExpressions 0]) := by
    rw [create_eq_ofRun, create_eq_ofRun, getOpts_append_budget, getOpts_append_budget,
      getOpts_append_budget]
  rw [e] at h
  exact h

/-! ## B. Monotonicity in the budget -/

/-- A creation that did not fail under a positive budget `n` had `N ≤ n`. -/
theorem threshold_le_of_not_err (env : Env) (g : Grammar) (expr : GoString) (opts : List Opt)
    (h0 : 0 < (getOpts opts).maxExpressions)
    (h : createEvaluator env g expr opts ≠ .err) :
    (run env g 0 expr).cnt ≤ (getOpts opts).maxExpressions := by
  apply Nat.le_of_not_lt
  intro hlt
  obtain ⟨_, ⟨e, he, _⟩, _⟩ := C11.budget_exact_lt env g expr _ h0 hlt
  exact h (create_err_of_errs env g expr opts ⟨e, he⟩)

/-- **Monotonicity.**
    (1) If creation succeeds under the budget `n > 0` of `opts` then it succeeds with the SAME
        evaluator when the budget is overwritten by any larger `n' ≥ n` (`≤ 2^64 - 1`) or by 0.
    (2) If creation under budget 0 is a (syntax) error then creation is an error under every
        budget and whatever the other options are. -/
theorem create_budget_monotone (env : Env) (g : Grammar) (expr : GoString) :
    (∀ (opts : List Opt) (ev : Evaluator),
      0 < (getOpts opts).maxExpressions → (getOpts opts).maxExpressions ≤ 2 ^ 64 - 1 →
      createEvaluator env g expr opts = .ok ev →
      ∀ n', (n' = 0 ∨ (getOpts opts).maxExpressions ≤ n') → n' ≤ 2 ^ 64 - 1 →
        createEvaluator env g expr (opts ++ [.maxExpressions n']) = .ok ev) ∧
    (∀ opts₀ : List Opt, (getOpts opts₀).maxExpressions = 0 →
      createEvaluator env g expr opts₀ = .err →
      ∀ opts : List Opt, (getOpts opts).maxExpressions ≤ 2 ^ 64 - 1 →
        createEvaluator env g expr opts = .err) := by
  refine ⟨?_, ?_⟩
  · intro opts ev h0 hn hok n' hn' hle
    have hN := threshold_le_of_not_err env g expr opts h0 (by rw [hok]; exact fun h => nomatch h)
    have h1 : run env g (getOpts opts).maxExpressions expr = run env g 0 expr :=
      C11.budget_exact_ge env g expr _ hN hn
    have h2 : run env g n' expr = run env g 0 expr := by
      rcases hn' with rfl | hn'
      · rfl
      · exact C11.budget_exact_ge env g expr _ (Nat.le_trans hN hn') hle
    rw [← create_congr_run env g expr opts n' (h1.trans h2.symm)]
    exact hok
  · intro opts₀ hz herr opts hn
    have hacc : (run env g 0 expr).accepted = false := by
      have := (create_err_iff env g expr opts₀).1 herr
      rw [hz] at this; exact this
    by_cases h0 : (getOpts opts).maxExpressions = 0
    · apply (create_err_iff env g expr opts).2
      rw [h0]; exact hacc
    · by_cases hN : (run env g 0 expr).cnt ≤ (getOpts opts).maxExpressions
      · apply (create_err_iff env g expr opts).2
        rw [C11.budget_exact_ge env g expr _ hN hn]; exact hacc
      · exact (create_budget_exact env g expr opts hn).2 (by omega) (by omega)

/-- (1) in the explicit-budget form. -/
theorem create_budget_monotone_explicit (env : Env) (g : Grammar) (expr : GoString)
    (opts : List Opt) (n : Nat) (ev : Evaluator) (h0 : 0 < n) (hn : n ≤ 2 ^ 64 - 1)
    (hok : createEvaluator env g expr (opts ++ [.maxExpressions n]) = .ok ev) :
    (∀ n', n ≤ n' → n' ≤ 2 ^ 64 - 1 →
      createEvaluator env g expr (opts ++ [.maxExpressions n']) = .ok ev) ∧
    createEvaluator env g expr (opts ++ [.maxExpressions 0]) = .ok ev := by
  have hb : (getOpts (opts ++ [.maxExpressions n])).maxExpressions = n := by
    rw [getOpts_append_budget]
  have h0' : 0 < (getOpts (opts ++ [.maxExpressions n])).maxExpressions := by rw [hb]; exact h0
  have hn' : (getOpts (opts ++ [.maxExpressions n])).maxExpressions ≤ 2 ^ 64 - 1 := by
    rw [hb]; exact hn
  have mono := (create_budget_monotone env g expr).1
  have key := mono (opts ++ [.maxExpressions n]) ev
  have key := key h0'
  have key := key hn'
  have key := key hok
  rw [hb] at key
  have e : ∀ m, createEvaluator env g expr (opts ++ [.maxExpressions n] ++ [.maxExpressions m]) =
      createEvaluator env g expr (opts ++ [.maxExpressions m]) := by
    intro m
    rw [create_eq_ofRun, create_eq_ofRun, getOpts_append_budget, getOpts_append_budget,
      getOpts_append_budget]
  refine ⟨fun n' hle hle' => ?_, ?_⟩
  · exact (e n').symm.trans (key n' (.inr hle) hle')
  · exact (e 0).symm.trans (key 0 (.inl rfl) (Nat.zero_le _))

/-- Panics are monotone too: a `.panic` (wrong top-level value) under a positive budget persists
    under all larger budgets and under budget 0. -/
theorem create_budget_monotone_panic (env : Env) (g : Grammar) (expr : GoString)
    (opts : List Opt) (h0 : 0 < (getOpts opts).maxExpressions)
    (hn : (getOpts opts).maxExpressions ≤ 2 ^ 64 - 1)
    (hp : createEvaluator env g expr opts = .panic) (n' : Nat)
    (hn' : n' = 0 ∨ (getOpts opts).maxExpressions ≤ n') (hle : n' ≤ 2 ^ 64 - 1) :
    createEvaluator env g expr (opts ++ [.maxExpressions n']) = .panic := by
  have hN := threshold_le_of_not_err env g expr opts h0 (by rw [hp]; exact fun h => nomatch h)
  have h1 : run env g (getOpts opts).maxExpressions expr = run env g 0 expr :=
    C11.budget_exact_ge env g expr _ hN hn
  have h2 : run env g n' expr = run env g 0 expr := by
    rcases hn' with rfl | hn'
    · rfl
    · exact C11.budget_exact_ge env g expr _ (Nat.le_trans hN hn') hle
  rw [← create_congr_run env g expr opts n' (h1.trans h2.symm)]
  exact hp

/-! ## C. Bounded work: the "adversarial input" corollary -/

/-- Under a positive budget `n` the single engine run that `createEvaluator` performs
    (`create_eq_ofRun`) executes at most `n + 1` parser steps, whatever the expression text. -/
theorem create_steps_le (env : Env) (g : Grammar) (expr : GoString) (opts : List Opt)
    (h0 : 0 < (getOpts opts).maxExpressions) :
    createEvaluator env g expr opts =
      ofRun (getOpts opts) expr (run env g (getOpts opts).maxExpressions expr) ∧
    (run env g (getOpts opts).maxExpressions expr).cnt ≤ (getOpts opts).maxExpressions + 1 :=
  ⟨rfl, C11.budget_steps_le env g expr _ h0⟩

/-- Below the threshold, creation is never `.ok` (nor `.panic`): it is `.err`, the run carries the
    max-expressions error and stopped after exactly `n + 1` steps. -/
theorem create_never_ok_below_threshold (env : Env) (g : Grammar) (expr : GoString)
    (opts : List Opt) (h0 : 0 < (getOpts opts).maxExpressions)
    (hlt : (getOpts opts).maxExpressions < (run env g 0 expr).cnt) :
    (∀ ev, createEvaluator env g expr opts ≠ .ok ev) ∧
    createEvaluator env g expr opts ≠ .panic ∧
    createEvaluator env g expr opts = .err ∧
    (∃ e ∈ (run env g (getOpts opts).maxExpressions expr).errs, e.kind = .maxExpr) ∧
    (run env g (getOpts opts).maxExpressions expr).cnt = (getOpts opts).maxExpressions + 1 := by
  obtain ⟨_, ⟨e, he, hk⟩, hc⟩ := C11.budget_exact_lt env g expr _ h0 hlt
  have herr := create_err_of_errs env g expr opts ⟨e, he⟩
  refine ⟨fun ev h => ?_, fun h => ?_, herr, ⟨e, he, hk⟩, hc⟩
  · rw [herr] at h; cases h
  · rw [herr] at h; cases h

/-- At or above the threshold the run takes exactly `N` steps. -/
theorem create_steps_eq_above_threshold (env : Env) (g : Grammar) (expr : GoString)
    (opts : List Opt) (hn : (getOpts opts).maxExpressions ≤ 2 ^ 64 - 1)
    (hN : (run env g 0 expr).cnt ≤ (getOpts opts).maxExpressions) :
    (run env g (getOpts opts).maxExpressions expr).cnt = (run env g 0 expr).cnt := by
  rw [C11.budget_exact_ge env g expr _ hN hn]

/-- The adversarial-input form: ONE bound for ALL expressions.  With `WithMaxExpressions(n)`,
    `n > 0`, as the last budget option, no expression text (however long or deeply nested) makes
    the creation run more than `n + 1` parser steps; and a successful creation never needed more
    than `n`. -/
theorem create_adversarial_bound (env : Env) (g : Grammar) (opts : List Opt) (n : Nat)
    (h0 : 0 < n) :
    ∀ expr : GoString,
      createEvaluator env g expr (opts ++ [.maxExpressions n]) =
        ofRun (getOpts (opts ++ [.maxExpressions n])) expr (run env g n expr) ∧
      (run env g n expr).cnt ≤ n + 1 ∧
      (createEvaluator env g expr (opts ++ [.maxExpressions n]) ≠ .err →
        (run env g n expr).cnt ≤ n) := by
  intro expr
  have hb : (getOpts (opts ++ [.maxExpressions n])).maxExpressions = n := by
    rw [getOpts_append_budget]
  refine ⟨?_, C11.budget_steps_le env g expr n h0, fun hne => ?_⟩
  · rw [create_eq_ofRun, hb]
  · -- compare the effective budgets `n` and `n + 1`
    rw [Proofs.Budget.run_eq_runMax, C11.effectiveMax_pos h0]
    have hs := Proofs.Budget.runMax_sim env g n (n + 1) (by omega) expr
    by_cases hc : (Proofs.Budget.runMax env g (n + 1) expr).cnt ≤ n
    · rw [hs.1 hc]; exact hc
    · exfalso
      obtain ⟨_, ⟨e, he, _⟩, _⟩ := hs.2 (by omega)
      apply hne
      apply create_err_of_errs
      rw [hb, Proofs.Budget.run_eq_runMax, C11.effectiveMax_pos h0]
      exact ⟨e, he⟩

/-! ## D. Non-vacuity -/

namespace Example
open Bexpr.Props.C18 (gs toyTree toyEnv toyG)

/-! ### D.1 the toy grammar of `Props/C18.lean` (`Input <- {mk} ()`): `N = 2` -/

example : (run toyEnv toyG 0 (gs "x")).cnt = 2 := by decide

/-- (A) instantiated: budget 1 (< N = 2) fails … -/
example : createEvaluator toyEnv toyG (gs "x") [.tagName (gs "t"), .maxExpressions 1] = .err :=
  (create_budget_exact toyEnv toyG (gs "x") [.tagName (gs "t"), .maxExpressions 1]
    (by decide)).2 (by decide) (by decide)

/-- … and budget 2 (= N) is the unlimited result, which is `.ok`. -/
example : createEvaluator toyEnv toyG (gs "x") [.tagName (gs "t"), .maxExpressions 2] =
    createEvaluator toyEnv toyG (gs "x")
      ([.tagName (gs "t"), .maxExpressions 2] ++ [.maxExpressions 0]) :=
  (create_budget_exact toyEnv toyG (gs "x") [.tagName (gs "t"), .maxExpressions 2]
    (by decide)).1 (.inr (by decide))

example : ∃ ev, createEvaluator toyEnv toyG (gs "x") [.tagName (gs "t"), .maxExpressions 2] =
    .ok ev ∧ ev.ast = toyTree ∧ ev.tagName = gs "t" ∧ ev.expression = gs "x" :=
  ⟨_, rfl, rfl, rfl, rfl⟩

/-! ### D.2 a grammar whose step count depends on the input:
    `Input <- {mk} (S !.)`, `S <- "a" S / "a"` -/

def env : Env where
  action := fun _ _ _ => .ret (.expr toyTree) none
  pred := fun _ _ => .ret true none
  classIn := fun _ _ => some false

def g : Grammar :=
  [{ name := "Input", displayName := "",
     expr := .action "mk" (.seq [.ruleRef "S", .notP .any]) },
   { name := "S", displayName := "",
     expr := .choice [.seq [.lit [97] false, .ruleRef "S"], .lit [97] false] }]

def optsWith (n : Nat) : List Opt :=
  [.maxExpressions 1, .hookFn .unwrap, .maxExpressions n, .nilOpt, .tagName (gs "json")]

example (n : Nat) : (getOpts (optsWith n)).maxExpressions = n := rfl

/-- the thresholds: `N("aa") = 18`, `N("aaa") = 22` (grows with the input) -/
theorem N_aa : (run env g 0 (gs "aa")).cnt = 18 := by decide
theorem N_aaa : (run env g 0 (gs "aaa")).cnt = 22 := by decide

/-- (A), second half, at `n = 17 = N - 1`: `.err` (as an instance of the theorem and by
    computation). -/
example : createEvaluator env g (gs "aa") (optsWith 17) = .err :=
  (create_budget_exact env g (gs "aa") (optsWith 17) (by decide)).2 (by decide)
    (by rw [N_aa]; decide)
example : createEvaluator env g (gs "aa") (optsWith 17) = .err := rfl
example : createEvaluator env g (gs "aa") (optsWith 1) = .err := rfl

/-- (A), first half, at `n = 18 = N`: equal to the creation without budget, which is `.ok`. -/
example : createEvaluator env g (gs "aa") (optsWith 18) =
    createEvaluator env g (gs "aa") (optsWith 18 ++ [.maxExpressions 0]) :=
  (create_budget_exact env g (gs "aa") (optsWith 18) (by decide)).1
    (.inr (by rw [N_aa]; decide))

example : ∃ ev, createEvaluator env g (gs "aa") (optsWith 18) = .ok ev ∧
    ev.ast = toyTree ∧ ev.tagName = gs "json" ∧ ev.hook = .unwrap ∧ ev.unknown = none ∧
    ev.expression = gs "aa" := ⟨_, rfl, rfl, rfl, rfl, rfl, rfl⟩

/-- the budget that suffices for `"aa"` does not suffice for `"aaa"` -/
example : createEvaluator env g (gs "aaa") (optsWith 18) = .err := rfl
example : ∃ ev, createEvaluator env g (gs "aaa") (optsWith 22) = .ok ev ∧ ev.ast = toyTree :=
  ⟨_, rfl, rfl⟩

/-- (B.1) instantiated: `.ok` under 18 ⇒ the same evaluator under 1000 and under 0 -/
example : ∃ ev, createEvaluator env g (gs "aa") (optsWith 18) = .ok ev ∧
    createEvaluator env g (gs "aa") (optsWith 18 ++ [.maxExpressions 1000]) = .ok ev ∧
    createEvaluator env g (gs "aa") (optsWith 18 ++ [.maxExpressions 0]) = .ok ev :=
  ⟨_, rfl,
    (create_budget_monotone env g (gs "aa")).1 (optsWith 18) _ (by decide) (by decide) rfl 1000
      (.inr (by decide)) (by decide),
    (create_budget_monotone env g (gs "aa")).1 (optsWith 18) _ (by decide) (by decide) rfl 0
      (.inl rfl) (by decide)⟩

/-- (B.2) instantiated: `"ab"` is a syntax error without budget, hence under every budget -/
example : createEvaluator env g (gs "ab") [] = .err := rfl
example (n : Nat) (hn : n ≤ 2 ^ 64 - 1) : createEvaluator env g (gs "ab") (optsWith n) = .err :=
  (create_budget_monotone env g (gs "ab")).2 [] rfl rfl (optsWith n) hn

/-- (C) instantiated: the run under budget 5 took exactly 6 = n + 1 steps -/
example : (run env g (getOpts (optsWith 5)).maxExpressions (gs "aaa")).cnt = 6 :=
  (create_never_ok_below_threshold env g (gs "aaa") (optsWith 5) (by decide)
    (by rw [show (getOpts (optsWith 5)).maxExpressions = 5 from rfl, N_aaa]; decide)).2.2.2.2

end Example

end Bexpr.Props.C11Create

#print axioms Bexpr.Props.C11Create.create_eq_ofRun
#print axioms Bexpr.Props.C11Create.getOpts_append_budget
#print axioms Bexpr.Props.C11Create.foldl_apply_forget_budget
#print axioms Bexpr.Props.C11Create.foldl_apply_filter_budget
#print axioms Bexpr.Props.C11Create.getOpts_budget_removed_eq_filter
#print axioms Bexpr.Props.C11Create.create_budget_removed_eq_filter
#print axioms Bexpr.Props.C11Create.create_congr_run
#print axioms Bexpr.Props.C11Create.create_err_of_errs
#print axioms Bexpr.Props.C11Create.create_err_iff
#print axioms Bexpr.Props.C11Create.create_budget_exact
#print axioms Bexpr.Props.C11Create.create_budget_threshold
#print axioms Bexpr.Props.C11Create.create_budget_threshold_filter
#print axioms Bexpr.Props.C11Create.create_budget_threshold_fields
#print axioms Bexpr.Props.C11Create.create_budget_threshold_explicit
#print axioms Bexpr.Props.C11Create.threshold_le_of_not_err
#print axioms Bexpr.Props.C11Create.create_budget_monotone
#print axioms Bexpr.Props.C11Create.create_budget_monotone_explicit
#print axioms Bexpr.Props.C11Create.create_budget_monotone_panic
#print axioms Bexpr.Props.C11Create.create_steps_le
#print axioms Bexpr.Props.C11Create.create_never_ok_below_threshold
#print axioms Bexpr.Props.C11Create.create_steps_eq_above_threshold
#print axioms Bexpr.Props.C11Create.create_adversarial_bound
#print axioms Bexpr.Props.C11Create.Example.N_aa
#print axioms Bexpr.Props.C11Create.Example.N_aaa
