/-
  Property C10 (parser part): for every byte string, `grammar.Parse` / `CreateEvaluator` /
  `CreateFilter` return without panicking; an accepted parse yields a non-nil, parser-shaped
  `Expression`; such a tree can be dumped without panicking.

  Method: the generic type checker for PEG grammars (`Bexpr.Peg.Typing`), proved sound once for
  every grammar (`Proofs.TypingSound`), is *evaluated by the kernel* on the regenerated tables of
  the real grammar (`bexpr_grammar_typechecks`).  Editing a rule or an action in /repo changes
  `BexprGen.GoGrammar` / `BexprGen.GoActions`, and this obligation is re-checked.

  `parse_never_aborts` is unconditional: the model's fuel artefact (`.fuelOut`, reported by `run`
  as a `.panic "fuel"` entry) is proved unreachable in the same induction (`Pre.fuel`, slack 0).
-/
import Bexpr.Driver
import Bexpr.Eval.Dump
import Proofs.TypingSound

namespace Bexpr.Props.C10
open Bexpr Bexpr.Peg Bexpr.Eval Bexpr.Driver Bexpr.Proofs.TypingSound

/-! ## The obligation on the real grammar -/

/-- The regenerated bexpr grammar and action table type-check against `bexprΓ`
    (evaluated by the kernel: `decide +kernel`, no compiler in the trusted base). -/
theorem bexpr_grammar_typechecks : typecheck goGrammar goSem bexprΓ = true := by
  decide +kernel

/-- The table translated from `grammar.peg` (translator T2) type-checks as well. -/
theorem peg_grammar_typechecks : typecheck pegGrammar pegSem bexprΓ = true := by
  decide +kernel

/-! ## Parse -/

/-- No panic entry is ever reported by `Parse`: no failed type assertion or slice-bounds panic in
    an action, no unsupported node, and no fuel exhaustion of the model. -/
theorem parse_never_aborts (max : Nat) (input : GoString) :
    ∀ e ∈ (Peg.run goEnv goGrammar max input).errs, ∀ msg, e.kind ≠ .panic msg :=
  (run_sound bexpr_grammar_typechecks max input).1

/-- An accepted parse yields a (non-nil) expression that is parser-shaped. -/
theorem parse_ok_typed (max : Nat) (input : GoString)
    (h : (Peg.run goEnv goGrammar max input).accepted = true) :
    ∃ e, (Peg.run goEnv goGrammar max input).val = .expr e ∧ e.parserShaped = true :=
  (run_sound bexpr_grammar_typechecks max input).2 h

/-! ## CreateEvaluator / CreateFilter -/

/-- `CreateEvaluator` either fails with an error or returns an evaluator whose tree is
    parser-shaped; the unrecovered assertion `ast.(grammar.Expression)` never fires. -/
theorem create_cases (expr : GoString) (opts : List Opt) :
    createEvaluator goEnv goGrammar expr opts = .err ∨
    ∃ ev, createEvaluator goEnv goGrammar expr opts = .ok ev ∧ ev.ast.parserShaped = true := by
  unfold createEvaluator
  simp only
  cases hacc : (Peg.run goEnv goGrammar (getOpts opts).maxExpressions expr).accepted with
  | false => left; simp
  | true =>
    right
    obtain ⟨e, he, hp⟩ := parse_ok_typed _ _ hacc
    simp only [he]
    exact ⟨_, rfl, hp⟩

theorem create_never_panics (expr : GoString) (opts : List Opt) :
    createEvaluator goEnv goGrammar expr opts ≠ .panic := by
  rcases create_cases expr opts with h | ⟨ev, h, _⟩ <;> rw [h] <;> simp

theorem create_xor (expr : GoString) (opts : List Opt) :
    (∃ ev, createEvaluator goEnv goGrammar expr opts = .ok ev) ∨
    createEvaluator goEnv goGrammar expr opts = .err := by
  rcases create_cases expr opts with h | ⟨ev, h, _⟩
  · exact Or.inr h
  · exact Or.inl ⟨ev, h⟩

/-- the evaluator is created exactly for accepted inputs -/
theorem create_ok_iff (expr : GoString) (opts : List Opt) :
    (∃ ev, createEvaluator goEnv goGrammar expr opts = .ok ev) ↔
    (Peg.run goEnv goGrammar (getOpts opts).maxExpressions expr).accepted = true := by
  constructor
  · rintro ⟨ev, h⟩
    unfold createEvaluator at h
    simp only at h
    cases hacc : (Peg.run goEnv goGrammar (getOpts opts).maxExpressions expr).accepted with
    | true => rfl
    | false => simp [hacc] at h
  · intro hacc
    obtain ⟨e, he, _⟩ := parse_ok_typed _ _ hacc
    unfold createEvaluator
    simp only [hacc, he]
    exact ⟨_, rfl⟩

theorem createFilter_never_panics (expr : GoString) :
    createFilter goEnv goGrammar expr ≠ .panic := by
  unfold createFilter
  split
  · simp
  · rcases create_cases expr [] with h | ⟨ev, h, _⟩ <;> rw [h] <;> simp

/-- `CreateFilter` returns the nil filter exactly for the empty string -/
theorem createFilter_nil_iff (expr : GoString) :
    createFilter goEnv goGrammar expr = .nilFilter ↔ expr = [] := by
  unfold createFilter
  constructor
  · intro h
    split at h
    · next he => simpa using he
    · rcases create_cases expr [] with h' | ⟨ev, h', _⟩ <;> rw [h'] at h <;> simp at h
  · intro h; subst h; simp

theorem createFilter_cases (expr : GoString) :
    createFilter goEnv goGrammar expr = .nilFilter ∨
    createFilter goEnv goGrammar expr = .err ∨
    ∃ ev, createFilter goEnv goGrammar expr = .ok ev ∧ ev.ast.parserShaped = true := by
  unfold createFilter
  split
  · exact Or.inl rfl
  · rcases create_cases expr [] with h | ⟨ev, h, hp⟩
    · right; left; rw [h]
    · right; right; rw [h]; exact ⟨ev, rfl, hp⟩

/-! ## Dump -/

/-- `ExpressionDump` does not panic (nil `Value` dereference) on a parser-shaped tree. -/
theorem dump_parserShaped (indent : GoString) :
    ∀ (e : Expr) (level : Nat), e.parserShaped = true → (Dump.dump indent e level).isSome = true := by
  intro e
  induction e with
  | not e ih =>
    intro level h
    simp only [Expr.parserShaped] at h
    have := ih (level + 1) h
    obtain ⟨x, hx⟩ := Option.isSome_iff_exists.1 this
    simp [Dump.dump, hx]
  | and l r ihl ihr =>
    intro level h
    simp only [Expr.parserShaped, Bool.and_eq_true] at h
    obtain ⟨x, hx⟩ := Option.isSome_iff_exists.1 (ihl (level + 1) h.1)
    obtain ⟨y, hy⟩ := Option.isSome_iff_exists.1 (ihr (level + 1) h.2)
    simp [Dump.dump, hx, hy]
  | or l r ihl ihr =>
    intro level h
    simp only [Expr.parserShaped, Bool.and_eq_true] at h
    obtain ⟨x, hx⟩ := Option.isSome_iff_exists.1 (ihl (level + 1) h.1)
    obtain ⟨y, hy⟩ := Option.isSome_iff_exists.1 (ihr (level + 1) h.2)
    simp [Dump.dump, hx, hy]
  | match_ sel op val =>
    intro level h
    simp only [Expr.parserShaped] at h
    simp only [Dump.dump]
    split
    · next hpv =>
      have : op.takesValue = true := by cases op <;> simp_all [Dump.printsValue, MatchOp.takesValue]
      rw [this] at h
      cases val with
      | none => simp at h
      | some raw => simp
    · simp
  | coll op sel b inner ih =>
    intro level h
    simp only [Expr.parserShaped] at h
    obtain ⟨x, hx⟩ := Option.isSome_iff_exists.1 (ih (level + 1) h)
    simp [Dump.dump, hx]

/-- the tree of an evaluator returned by `CreateEvaluator` can be dumped without panicking -/
theorem create_dump_never_panics (expr : GoString) (opts : List Opt) (ev : Evaluator)
    (h : createEvaluator goEnv goGrammar expr opts = .ok ev) (indent : GoString) (level : Nat) :
    (Dump.dump indent ev.ast level).isSome = true := by
  rcases create_cases expr opts with h' | ⟨ev', h', hp⟩
  · rw [h'] at h; simp at h
  · rw [h'] at h
    simp only [CreateOut.ok.injEq] at h
    subst h
    exact dump_parserShaped indent _ level hp

/-! ## Non-vacuity: concrete parses, evaluated by the kernel -/

/-- the parse value is the expression `e` -/
def valIs (v : PVal) (e : Expr) : Bool :=
  match v with
  | .expr e' => decide (e' = e)
  | _ => false

private abbrev b (x : String) : GoString := GoString.ofString x

/-- `foo == 3` is accepted (unlimited budget) and yields the expected tree -/
example :
    (Peg.run goEnv goGrammar 0 (b "foo == 3")).accepted = true ∧
    valIs (Peg.run goEnv goGrammar 0 (b "foo == 3")).val
      (.match_ { ty := .bexpr, path := [b "foo"] } .equal (some (b "3"))) = true := by
  decide +kernel

/-- a larger input exercising `not`, `or`, index expressions, raw strings, JSON pointers,
    collection expressions and a value-less operator -/
example :
    (Peg.run goEnv goGrammar 0
      (b "not a.b[\"c\"] matches `x+` or all \"/p/q\" as k, _ { k is empty }")).accepted = true ∧
    valIs (Peg.run goEnv goGrammar 0
      (b "not a.b[\"c\"] matches `x+` or all \"/p/q\" as k, _ { k is empty }")).val
      (.or
        (.not (.match_ { ty := .bexpr, path := [b "a", b "b", b "c"] } .matches (some (b "x+"))))
        (.coll .all { ty := .jsonPointer, path := [b "p", b "q"] }
          { mode := .index, index := b "k" }
          (.match_ { ty := .bexpr, path := [b "k"] } .isEmpty none))) = true := by
  decide +kernel

/-- a syntax error is rejected (and, by `parse_never_aborts`, without a panic) -/
example : (Peg.run goEnv goGrammar 0 (b "foo ==")).accepted = false := by
  decide +kernel

/-! ## Non-vacuity of the checker: it rejects broken grammars / action tables -/

def replaceRule (g : Grammar) (r : Rule) : Grammar :=
  g.map fun x => if x.name == r.name then r else x

def replaceSem (t : List (String × ActionSem)) (n : String) (sem : ActionSem) :
    List (String × ActionSem) :=
  t.map fun x => if x.1 == n then (n, sem) else x

/-- `OrExpression`, alternative 1, with `right` bound to a `Selector`:
    `right.(Expression)` would panic -/
def badOr : Rule := {
  name := "OrExpression", displayName := "",
  expr := PExpr.choice [
    .action "onOrExpression2" (.seq [
      .labeled "left" (.ruleRef "AndExpression"), .ruleRef "_", .lit [111, 114] false, .ruleRef "_",
      .labeled "right" (.ruleRef "Selector")]),
    .action "onOrExpression11" (.labeled "expr" (.ruleRef "AndExpression")),
    .action "onOrExpression14" (.labeled "expr" (.ruleRef "CollectionExpression"))] }

example : typecheck (replaceRule goGrammar badOr) goSem bexprΓ = false := by
  decide +kernel

/-- `MatchSelectorOp` (whose action builds a node with `Value: nil`) over a value-taking
    operator group: the tree would not be parser-shaped (nil dereference in the evaluator) -/
def badMatchSelectorOp : Rule := {
  name := "MatchSelectorOp", displayName := "\"match\"",
  expr := PExpr.action "onMatchSelectorOp1" (.seq [
    .labeled "selector" (.ruleRef "Selector"),
    .labeled "operator" (.choice [.ruleRef "MatchEqual", .ruleRef "MatchNotEqual"])]) }

example : typecheck (replaceRule goGrammar badMatchSelectorOp) goSem bexprΓ = false := by
  decide +kernel

/-- `JsonPointerSegment` whose expression can match the empty string:
    `string(c.text)[1:]` would panic -/
def badJsonPointerSegment : Rule := {
  name := "JsonPointerSegment", displayName := "",
  expr := PExpr.action "onJsonPointerSegment1" (.seq [
    .zeroOrOne (.lit [47] false),
    .labeled "ident" (.zeroOrMore
      (.charClass [45, 95, 46, 126, 58, 124] [] ["L", "N"] false false))]) }

example : typecheck (replaceRule goGrammar badJsonPointerSegment) goSem bexprΓ = false := by
  decide +kernel

/-- `MatchIsEmpty` returning a value-taking operator constant -/
example : typecheck goGrammar (replaceSem goSem "onMatchIsEmpty1" (.constMatchOp .equal)) bexprΓ
    = false := by
  decide +kernel

/-- an action whose code is not recognised -/
example : typecheck goGrammar (replaceSem goSem "onValue2" .unknown) bexprΓ = false := by
  decide +kernel

/-- an unsupported node (throw / recovery / state code) anywhere in the grammar -/
example : typecheck (replaceRule goGrammar
    { name := "EOF", displayName := "", expr := .unsupported "throw" }) goSem bexprΓ = false := by
  decide +kernel

/-! ## Axioms -/

end Bexpr.Props.C10

#print axioms Bexpr.Props.C10.bexpr_grammar_typechecks
#print axioms Bexpr.Props.C10.peg_grammar_typechecks
#print axioms Bexpr.Props.C10.parse_never_aborts
#print axioms Bexpr.Props.C10.parse_ok_typed
#print axioms Bexpr.Props.C10.create_cases
#print axioms Bexpr.Props.C10.create_never_panics
#print axioms Bexpr.Props.C10.create_xor
#print axioms Bexpr.Props.C10.create_ok_iff
#print axioms Bexpr.Props.C10.createFilter_never_panics
#print axioms Bexpr.Props.C10.createFilter_nil_iff
#print axioms Bexpr.Props.C10.createFilter_cases
#print axioms Bexpr.Props.C10.dump_parserShaped
#print axioms Bexpr.Props.C10.create_dump_never_panics
#print axioms Bexpr.Proofs.TypingSound.eval_sound
#print axioms Bexpr.Proofs.TypingSound.eval_typed
#print axioms Bexpr.Proofs.TypingSound.run_sound
